package c07

// Coverage extension of the BGV half (audit of the monitor against the property text):
//
//   - plaintext moduli of 59 and 60 bits under a 61-bit first modulus, 61-bit moduli next to 30-bit
//     ones (the standard matrix of runBGV is run on these under new case ids "bgv/.../big");
//   - the exported building blocks the anchor names (EncodeRingT, DecodeRingT, RingT2Q, RingQ2T,
//     EmbedScale) called directly, each judged by an exact model (RingQ2T also with
//     scaleDown=false, which no composite entry point reaches);
//   - receivers that are larger than needed (a plaintext built over a polynomial with more rows),
//     plaintexts obtained through CopyNew, encoders obtained by ShallowCopy of a used ShallowCopy;
//   - metadata: Encode/Decode leave the metadata of the plaintext as they found it; a CopyNew of
//     the metadata encodes the same polynomial;
//   - refusals: too long inputs and unsupported types are answered by an error, never by a panic
//     or a silently different plaintext, and leave the receiver intact.

import (
	"fmt"
	"math/big"

	"github.com/tuneinsight/lattigo/v6/core/rlwe"
	"github.com/tuneinsight/lattigo/v6/ring"
	"github.com/tuneinsight/lattigo/v6/ring/ringqp"
	"github.com/tuneinsight/lattigo/v6/schemes/bgv"

	"verif/harness/eng"
	"verif/harness/gen"
	"verif/harness/ref"
)

// chainX draws a chain like gen.Chain but lets the caller fix the position of the first prime
// inside its bit class (firstPos < 0: random).
func chainX(r *eng.Rand, nthRoot uint64, qbits, pbits []int, firstPos int) (q, p []uint64) {
	skip := map[uint64]bool{}
	draw := func(b, pos int) uint64 {
		pr := gen.Primes(b, nthRoot, 1, pos, skip)
		if len(pr) == 0 {
			pr = gen.Primes(b, nthRoot, 1, gen.PosAbove, skip)
		}
		if len(pr) == 0 {
			return 0
		}
		return pr[0]
	}
	for i, b := range qbits {
		pos := r.N(4)
		if i == 0 && firstPos >= 0 {
			pos = firstPos
		}
		x := draw(b, pos)
		if x == 0 {
			return nil, nil
		}
		q = append(q, x)
	}
	for _, b := range pbits {
		x := draw(b, r.N(4))
		if x == 0 {
			return nil, nil
		}
		p = append(p, x)
	}
	return
}

func bgvxCases(tier string, seed int64) []eng.Case {
	r := eng.NewRand("c07-bgvx-cases", seed)
	logNs := []int{4, 5, 6, 8}
	if tier == "thorough" {
		logNs = []int{4, 5, 6, 7, 8, 9, 10}
	}
	var out []eng.Case
	seen := map[string]bool{}
	for _, logN := range logNs {
		maxGap := logN - 3
		gaps := []int{0}
		if maxGap >= 1 {
			gaps = append(gaps, maxGap)
		}
		if tier == "thorough" {
			if maxGap >= 2 {
				gaps = append(gaps, 1)
			}
			if maxGap >= 3 {
				gaps = append(gaps, 2+r.N(maxGap-2))
			}
		}
		for _, g := range gaps {
			order := uint64(2) << (logN - g)
			minBits := ref.BitLen(order)
			tbs := []int{eng.Pick(r, minBits, minBits+1, 20, 33), eng.Pick(r, 59, 60)}
			if tier == "thorough" {
				tbs = []int{minBits, 20, 33, 47, 59, 60}
			}
			for _, tb := range tbs {
				if tb < minBits {
					continue
				}
				bigT := tb >= 59
				pos := r.N(4)
				if bigT {
					pos = eng.Pick(r, gen.PosAbove, gen.PosMid13)
				}
				t := findT(tb, order, g > 0, pos)
				if t == 0 {
					t = findT(tb, order, g > 0, gen.PosAbove)
				}
				if t == 0 {
					continue
				}
				nq := 1 + r.N(4)
				q0 := eng.Pick(r, 61, 36, 50)
				firstPos := -1
				if bigT {
					q0, firstPos = 61, gen.PosBelow
				} else if q0 < tb+2 {
					q0 = 61
				}
				if q0 < logN+3 {
					q0 = logN + 3
				}
				qbits := []int{q0}
				for i := 1; i < nq; i++ {
					b := eng.Pick(r, 30, 61, 45, 61)
					if b < logN+3 {
						b = logN + 3
					}
					qbits = append(qbits, b)
				}
				var pbits []int
				for i := r.N(3); i > 0; i-- {
					pbits = append(pbits, eng.Pick(r, 61, 40))
				}
				q, p := chainX(r, uint64(2)<<logN, qbits, pbits, firstPos)
				if q == nil || q[0] <= 2*t {
					continue
				}
				bad := false
				for _, x := range append(append([]uint64{}, q...), p...) {
					if x == t {
						bad = true
					}
				}
				if bad {
					continue
				}
				cfg := bgvCfg{LogN: logN, GapLog: g, T: t, TBits: tb, Q: q, P: p}
				id := fmt.Sprintf("bgvx/direct/logN%d/gap%d/t%d/q%v/p%v", logN, g, t, qbits, pbits)
				if seen[id] {
					continue
				}
				seen[id] = true
				out = append(out, eng.Case{ID: id, Sig: "C07|bgv", Desc: cfg, Run: func(c *eng.Ctx) { runBGVX(c, cfg) }})
				if bigT {
					id2 := fmt.Sprintf("bgv/logN%d/gap%d/t%d/q%v/p%v/big", logN, g, t, qbits, pbits)
					out = append(out, eng.Case{ID: id2, Sig: "C07|bgv", Desc: cfg, Run: func(c *eng.Ctx) {
						c.Count("bgv_cases_with_t_of_59_or_60_bits", 1)
						runBGV(c, cfg)
					}})
				}
			}
		}
	}
	return out
}

// ---------------------------------------------------------------------------------------------

func runBGVX(c *eng.Ctx, cfg bgvCfg) {
	params, err := bgv.NewParametersFromLiteral(bgv.ParametersLiteral{LogN: cfg.LogN, Q: cfg.Q, P: cfg.P, PlaintextModulus: cfg.T})
	if err != nil {
		c.Inconclusive(fmt.Sprintf("parameters rejected: %v", err))
		return
	}
	e := &bgvEnv{c: c, cfg: cfg, params: params, t: cfg.T, N: params.N(), n: params.RingT().N(), rnd: c.Rand()}
	e.gap = e.N / e.n
	if e.gap != 1<<cfg.GapLog {
		c.Inconclusive(fmt.Sprintf("plaintext ring degree %d, wanted gap 2^%d", e.n, cfg.GapLog))
		return
	}
	e.gapTag = "gap1"
	if e.gap > 1 {
		e.gapTag = "gapN"
	}
	e.ecd = bgv.NewEncoder(params)
	switch e.rnd.N(3) {
	case 1:
		e.ecd = e.ecd.ShallowCopy()
		c.Count("cases_with_shallow_copied_encoder", 1)
	case 2:
		// a copy of a copy, taken after the first copy has been used
		first := e.ecd.ShallowCopy()
		pt := bgv.NewPlaintext(params, 0)
		_ = first.Encode(e.valsU(upUniform64, e.n), pt)
		_ = first.Decode(pt, make([]uint64, e.n))
		e.ecd = first.ShallowCopy()
		c.Count("cases_with_encoder_copied_from_used_copy", 1)
	}
	if rp := e.ecd.GetRLWEParameters(); !c.Check(rp != nil && rp.Equal(&params.Parameters), "C07|bgv.Encoder.GetRLWEParameters|wrong-value", nil) {
		return
	}
	c.Sample(map[string]any{"scheme": "bgv", "family": "direct", "cfg": cfg, "slots": e.n, "N": e.N})
	for level := 0; level <= params.MaxLevel(); level++ {
		e.direct(level)
		e.ringQ2TGeneral(level)
		e.embedScale(level)
		e.metaAndReceivers(level)
	}
	e.refusals()
}

func (e *bgvEnv) xkey(level int, what string) string {
	return fmt.Sprintf("bgvx/%s/logN%d/tbits%d/%s/%s", e.gapTag, e.cfg.LogN, e.cfg.TBits, lvlTag(level, e.params.MaxLevel()), what)
}

// inputs draws a vector of the requested type and returns it with its residues mod t.
func (e *bgvEnv) inputs(signed bool, pat, length int) (in any, want []uint64) {
	want = make([]uint64, e.n)
	if signed {
		v := e.valsI(pat, length)
		for i, x := range v {
			want[i] = modI(x, e.t)
		}
		return v, want
	}
	v := e.valsU(pat, length)
	for i, x := range v {
		want[i] = x % e.t
	}
	return v, want
}

func fillReduced(r *eng.Rand, p ring.Poly, mods []uint64) {
	for i := range p.Coeffs {
		q := mods[i]
		for j := range p.Coeffs[i] {
			p.Coeffs[i][j] = r.U64() % q
		}
	}
}

func samePolyMod(a, b ring.Poly, mods []uint64) (bool, int, int) {
	for i, q := range mods {
		for j := range a.Coeffs[i] {
			if a.Coeffs[i][j]%q != b.Coeffs[i][j]%q {
				return false, i, j
			}
		}
	}
	return true, -1, -1
}

// direct: EncodeRingT / DecodeRingT / RingT2Q / RingQ2T called as a user of the exported API calls
// them, on caller-owned polynomials that hold garbage.
func (e *bgvEnv) direct(level int) {
	c := e.c
	t := e.t
	rT := e.params.RingT()
	rQ := e.params.RingQ().AtLevel(level)
	mods := rQ.ModuliChain()[:level+1]
	for rep := 0; rep < 4; rep++ {
		signed := rep&1 == 1
		pat := eng.Pick(e.rnd, upUniformT, upUniform64, upBoundary, upAllTm1, upAllMax, upOneHot)
		length, lenTag := e.lenFor(rep + e.rnd.N(6))
		sc, scTag := e.scaleFor(rep + e.rnd.N(6))
		scale := rlwe.NewScaleModT(sc, t)
		in, want := e.inputs(signed, pat, length)
		typ := "u64"
		if signed {
			typ = "i64"
		}
		c.Distinct(e.xkey(level, fmt.Sprintf("direct/%s/%s/len%s/sc%s", typ, patNames[pat], lenTag, scTag)), true)
		desc := func() string {
			return fmt.Sprintf("t=%d N=%d slots=%d level=%d Q=%v %s pattern=%s len=%d scale=%d", t, e.N, e.n, level, mods, typ, patNames[pat], length, sc)
		}
		pT := rT.NewPoly()
		fill(e.rnd, pT)
		var err error
		if !c.Try("C07|bgv.Encoder.EncodeRingT", func() { err = e.ecd.EncodeRingT(in, scale, pT) }) {
			return
		}
		if err != nil {
			c.Violate("C07|bgv.Encoder.EncodeRingT|error-on-admissible", desc()+": "+err.Error(), e.cfg)
			return
		}
		c.Count("bgv_direct_ringT_encodings", 1)
		reduced := true
		for _, x := range pT.Coeffs[0] {
			if x >= t {
				reduced = false
			}
		}
		if !reduced {
			c.Count("bgv_ringT_polys_with_coefficients_ge_t", 1)
		}
		// DecodeRingT inverts EncodeRingT (full and short outputs)
		outLens := []int{e.n}
		if length > 0 && length < e.n {
			outLens = append(outLens, length)
		}
		for _, outLen := range outLens {
			var derr error
			c.Eval(1)
			if signed {
				o := make([]int64, outLen)
				for i := range o {
					o[i] = 0x5a5a5a5a5a5a5a5a
				}
				if !c.Try("C07|bgv.Encoder.DecodeRingT", func() { derr = e.ecd.DecodeRingT(pT, scale, o) }) {
					continue
				}
				if derr != nil {
					c.Violate("C07|bgv.Encoder.DecodeRingT|error-on-admissible", desc()+": "+derr.Error(), e.cfg)
					continue
				}
				half := int64((t + 1) / 2)
				for i, x := range o {
					if modI(x, t) != want[i] || x > half || x < -half {
						c.Violate("C07|bgv.Encoder.DecodeRingT|wrong-value|i64/"+e.gapTag, desc()+fmt.Sprintf(": slot %d decodes to %d, want residue %d with |.| <= (t+1)/2 (out len %d)", i, x, want[i], outLen), e.cfg)
						break
					}
				}
			} else {
				o := make([]uint64, outLen)
				for i := range o {
					o[i] = 0x5a5a5a5a5a5a5a5a
				}
				if !c.Try("C07|bgv.Encoder.DecodeRingT", func() { derr = e.ecd.DecodeRingT(pT, scale, o) }) {
					continue
				}
				if derr != nil {
					c.Violate("C07|bgv.Encoder.DecodeRingT|error-on-admissible", desc()+": "+derr.Error(), e.cfg)
					continue
				}
				for i, x := range o {
					if x != want[i] {
						c.Violate("C07|bgv.Encoder.DecodeRingT|wrong-value|u64/"+e.gapTag, desc()+fmt.Sprintf(": slot %d decodes to %d, want %d (out len %d)", i, x, want[i], outLen), e.cfg)
						break
					}
				}
			}
		}
		if !reduced {
			continue
		}
		// RingT2Q: exact model of the gap embedding (scaleUp=false) and of the multiplication by t^-1 (scaleUp=true)
		pQ0 := rQ.NewPoly()
		pQ1 := rQ.NewPoly()
		fill(e.rnd, pQ0)
		fill(e.rnd, pQ1)
		if !c.Try("C07|bgv.Encoder.RingT2Q", func() {
			e.ecd.RingT2Q(level, false, pT, pQ0)
			e.ecd.RingT2Q(level, true, pT, pQ1)
		}) {
			return
		}
		c.Eval(2)
		okT2Q := true
		for i, q := range mods {
			tq := t % q
			for j := 0; j < e.N && okT2Q; j++ {
				var w uint64
				if j%e.gap == 0 {
					w = pT.Coeffs[0][j/e.gap] % q
				}
				if pQ0.Coeffs[i][j]%q != w {
					okT2Q = false
					c.Violate("C07|bgv.Encoder.RingT2Q|wrong-poly|scaleUp-false/"+e.gapTag, desc()+fmt.Sprintf(": modulus %d position %d holds %d, want %d (coefficient %d of the plaintext-ring polynomial when the position is a multiple of the gap, else 0)", i, j, pQ0.Coeffs[i][j], w, j/e.gap), e.cfg)
				} else if ref.MulMod(pQ1.Coeffs[i][j]%q, tq, q) != w {
					okT2Q = false
					c.Violate("C07|bgv.Encoder.RingT2Q|wrong-poly|scaleUp-true/"+e.gapTag, desc()+fmt.Sprintf(": modulus %d position %d holds %d, which times t is not %d", i, j, pQ1.Coeffs[i][j], w), e.cfg)
				}
			}
		}
		if !okT2Q {
			continue
		}
		// RingQ2T inverts RingT2Q
		for _, down := range []bool{false, true} {
			src := pQ0
			if down {
				src = pQ1
			}
			back := rT.NewPoly()
			fill(e.rnd, back)
			if !c.Try("C07|bgv.Encoder.RingQ2T", func() { e.ecd.RingQ2T(level, down, src, back) }) {
				continue
			}
			c.Eval(1)
			for j := 0; j < e.n; j++ {
				if back.Coeffs[0][j]%t != pT.Coeffs[0][j] {
					c.Violate(fmt.Sprintf("C07|bgv.Encoder.RingQ2T|wrong-poly|scaleDown-%v/%s/%s", down, e.gapTag, lvlSig(level)), desc()+fmt.Sprintf(": RingQ2T(RingT2Q(p)) coefficient %d is %d, want %d", j, back.Coeffs[0][j], pT.Coeffs[0][j]), e.cfg)
					break
				}
			}
		}
		// Encode == RingT2Q(scaleUp) o EncodeRingT (+ NTT)
		isNTT := e.rnd.Bool()
		pt := bgv.NewPlaintext(e.params, level)
		pt.IsBatched, pt.IsNTT, pt.Scale = true, isNTT, scale
		if !c.Try("C07|bgv.Encoder.Encode", func() { err = e.ecd.Encode(in, pt) }) || err != nil {
			continue
		}
		cmp := rQ.NewPoly()
		for i := range mods {
			for j := range cmp.Coeffs[i] {
				cmp.Coeffs[i][j] = pQ1.Coeffs[i][j] % mods[i]
			}
		}
		if isNTT {
			rQ.NTT(cmp, cmp)
		}
		c.Eval(1)
		if same, i, j := samePolyMod(cmp, pt.Value, mods); !same {
			c.Violate("C07|bgv.Encoder.Encode|differs-from-EncodeRingT+RingT2Q|"+e.gapTag, desc()+fmt.Sprintf(" ntt=%v: modulus %d position %d: Encode holds %d, the composition of the exported steps %d", isNTT, i, j, pt.Value.Coeffs[i][j], cmp.Coeffs[i][j]), e.cfg)
		}
	}
}

// ringQ2TGeneral: RingQ2T on an arbitrary centred integer polynomial m with |m_j| < Q/2 (what a
// decryption hands to Decode): the result is m mod t. Positions that are not multiples of the gap
// hold garbage and must be ignored. scaleDown=false takes m itself, scaleDown=true m*t^-1.
func (e *bgvEnv) ringQ2TGeneral(level int) {
	c := e.c
	t := e.t
	rT := e.params.RingT()
	rQ := e.params.RingQ().AtLevel(level)
	mods := rQ.ModuliChain()[:level+1]
	half := new(big.Int).Rsh(rQ.ModulusAtLevel[level], 1)
	L := new(big.Int).Sub(half, new(big.Int).Rsh(half, 16))
	L.Sub(L, big.NewInt(2))
	span := new(big.Int).Add(new(big.Int).Lsh(L, 1), big.NewInt(1))
	tBig := new(big.Int).SetUint64(t)
	for _, down := range []bool{false, true} {
		for kind := 0; kind < 3; kind++ {
			m := make([]*big.Int, e.n)
			for j := range m {
				x := new(big.Int)
				switch kind {
				case 0:
					buf := make([]byte, (span.BitLen()+7)/8+8)
					e.rnd.Read(buf)
					x.SetBytes(buf)
					x.Mod(x, span)
					x.Sub(x, L)
				case 1:
					x.Set(L)
					if (j+e.rnd.N(2))&1 == 1 {
						x.Neg(x)
					}
					x.Sub(x, big.NewInt(int64(e.rnd.N(3))-1))
					if x.CmpAbs(L) > 0 {
						x.Set(L)
					}
				default:
					x.SetInt64(int64(e.rnd.U64()%(4*t+1)) - int64(2*t))
					if x.CmpAbs(L) > 0 {
						x.SetInt64(int64(e.rnd.N(3)) - 1)
					}
				}
				m[j] = x
			}
			pQ := rQ.NewPoly()
			fillReduced(e.rnd, pQ, mods)
			for i, q := range mods {
				tinv := ref.InvMod(t%q, q)
				for j := range m {
					r := ref.ModU(m[j], q)
					if down {
						r = ref.MulMod(r, tinv, q)
					}
					pQ.Coeffs[i][j*e.gap] = r
				}
			}
			back := rT.NewPoly()
			fill(e.rnd, back)
			c.Distinct(e.xkey(level, fmt.Sprintf("ringQ2T/down%v/kind%d", down, kind)), true)
			c.Count("bgv_direct_ringQ2T", 1)
			if !c.Try("C07|bgv.Encoder.RingQ2T", func() { e.ecd.RingQ2T(level, down, pQ, back) }) {
				continue
			}
			c.Eval(1)
			for j := range m {
				w := new(big.Int).Mod(m[j], tBig).Uint64()
				if back.Coeffs[0][j]%t != w {
					c.Violate(fmt.Sprintf("C07|bgv.Encoder.RingQ2T|wrong-poly|scaleDown-%v/%s/%s", down, e.gapTag, lvlSig(level)), fmt.Sprintf("t=%d N=%d slots=%d level=%d Q=%v kind %d: coefficient %d of the centred polynomial is %v, RingQ2T returns %d, want %d", t, e.N, e.n, level, mods, kind, j, m[j], back.Coeffs[0][j], w), e.cfg)
					break
				}
			}
		}
	}
}

// embedScale: EmbedScale(scaleUp=true) into a ring.Poly and into a ringqp.Poly without P part is
// the polynomial Encode writes (differential between entry points); the plaintext itself is
// validated by decoding.
func (e *bgvEnv) embedScale(level int) {
	c := e.c
	rQ := e.params.RingQ().AtLevel(level)
	mods := rQ.ModuliChain()[:level+1]
	for flags := 0; flags < 4; flags++ {
		isNTT, isMont := flags&1 == 1, flags&2 == 2
		signed := e.rnd.Bool()
		length := eng.Pick(e.rnd, e.n, 1, 1+e.rnd.N(e.n))
		sc, _ := e.scaleFor(e.rnd.N(6))
		in, want := e.inputs(signed, eng.Pick(e.rnd, upBoundary, upUniform64, upUniformT), length)
		md := &rlwe.MetaData{}
		md.Scale = rlwe.NewScaleModT(sc, e.t)
		md.IsBatched, md.IsNTT, md.IsMontgomery = true, isNTT, isMont
		pt := bgv.NewPlaintext(e.params, level)
		*pt.MetaData = *md.CopyNew()
		var err error
		if !c.Try("C07|bgv.Encoder.Encode", func() { err = e.ecd.Encode(in, pt) }) || err != nil {
			continue
		}
		c.Distinct(e.xkey(level, fmt.Sprintf("embedScale/ntt%v/mont%v", isNTT, isMont)), true)
		c.Count("bgv_embedscale", 1)
		desc := func() string {
			return fmt.Sprintf("t=%d N=%d slots=%d level=%d ntt=%v mont=%v len=%d scale=%d", e.t, e.N, e.n, level, isNTT, isMont, length, sc)
		}
		for _, target := range []string{"ring.Poly", "ringqp.Poly"} {
			var got ring.Poly
			var out any
			if target == "ring.Poly" {
				got = rQ.NewPoly()
				fill(e.rnd, got)
				out = got
			} else {
				pp := ringqp.NewPoly(e.N, level, -1)
				fill(e.rnd, pp.Q)
				got, out = pp.Q, pp
			}
			if !c.Try("C07|bgv.Encoder.EmbedScale", func() { err = e.ecd.EmbedScale(in, true, md, out) }) {
				continue
			}
			c.Eval(1)
			if err != nil {
				c.Violate("C07|bgv.Encoder.EmbedScale|error-on-admissible", desc()+": "+err.Error(), e.cfg)
				continue
			}
			if same, i, j := samePolyMod(got, pt.Value, mods); !same {
				c.Violate("C07|bgv.Encoder.EmbedScale|differs-from-Encode|"+target, desc()+fmt.Sprintf(": modulus %d position %d: %d, Encode wrote %d", i, j, got.Coeffs[i][j], pt.Value.Coeffs[i][j]), e.cfg)
			}
		}
		if !isMont {
			typ := "u64"
			if signed {
				typ = "i64"
			}
			tag := fmt.Sprintf("batched/%s/%s/%s", typ, e.gapTag, lvlSig(level))
			e.decodeCheck(pt, want, length, signed, tag, "", desc)
		}
	}
}

type mdSnap struct {
	scale            *big.Float
	mod              *big.Int
	batched, bitrev  bool
	dims             ring.Dimensions
	isNTT, isMontgom bool
}

func snapMD(m *rlwe.MetaData) mdSnap {
	s := mdSnap{scale: new(big.Float).Copy(&m.Scale.Value), batched: m.IsBatched, bitrev: m.IsBitReversed, dims: m.LogDimensions, isNTT: m.IsNTT, isMontgom: m.IsMontgomery}
	if m.Scale.Mod != nil {
		s.mod = new(big.Int).Set(m.Scale.Mod)
	}
	return s
}

func (s mdSnap) diff(m *rlwe.MetaData) string {
	switch {
	case m == nil:
		return "metadata is nil"
	case s.scale.Cmp(&m.Scale.Value) != 0:
		return fmt.Sprintf("scale %s -> %s", s.scale.Text('g', 20), m.Scale.Value.Text('g', 20))
	case (s.mod == nil) != (m.Scale.Mod == nil) || (s.mod != nil && s.mod.Cmp(m.Scale.Mod) != 0):
		return fmt.Sprintf("scale modulus %v -> %v", s.mod, m.Scale.Mod)
	case s.batched != m.IsBatched:
		return "IsBatched"
	case s.bitrev != m.IsBitReversed:
		return "IsBitReversed"
	case s.dims != m.LogDimensions:
		return fmt.Sprintf("LogDimensions %v -> %v", s.dims, m.LogDimensions)
	case s.isNTT != m.IsNTT:
		return "IsNTT"
	case s.isMontgom != m.IsMontgomery:
		return "IsMontgomery"
	}
	return ""
}

// metaAndReceivers: metadata untouched by Encode/Decode; plaintext built over a polynomial with
// more rows than its level (rows above the level untouched, rows up to the level identical to a
// fresh encoding); plaintext obtained by CopyNew.
func (e *bgvEnv) metaAndReceivers(level int) {
	c := e.c
	maxL := e.params.MaxLevel()
	rQ := e.params.RingQ().AtLevel(level)
	mods := rQ.ModuliChain()[:level+1]
	for rep := 0; rep < 2; rep++ {
		batched, isNTT := e.rnd.Bool(), e.rnd.Bool()
		signed := e.rnd.Bool()
		length := eng.Pick(e.rnd, e.n, e.n-1, 1+e.rnd.N(e.n))
		sc, _ := e.scaleFor(e.rnd.N(6))
		in, want := e.inputs(signed, eng.Pick(e.rnd, upBoundary, upUniform64, upAllMax), length)
		typ := "u64"
		if signed {
			typ = "i64"
		}
		tag := fmt.Sprintf("%s/%s/%s/%s", domTag(batched), typ, e.gapTag, lvlSig(level))
		desc := func() string {
			return fmt.Sprintf("t=%d N=%d slots=%d level=%d (max %d) %s ntt=%v len=%d scale=%d", e.t, e.N, e.n, level, maxL, tag, isNTT, length, sc)
		}
		fresh := bgv.NewPlaintext(e.params, level)
		fresh.IsBatched, fresh.IsNTT, fresh.Scale = batched, isNTT, rlwe.NewScaleModT(sc, e.t)
		// fields the BGV encoder has no use for: they must come back as they were
		fresh.LogDimensions = ring.Dimensions{Rows: e.rnd.N(2), Cols: e.rnd.N(e.cfg.LogN)}
		fresh.IsBitReversed = e.rnd.Bool()
		snap := snapMD(fresh.MetaData)
		var err error
		if !c.Try("C07|bgv.Encoder.Encode", func() { err = e.ecd.Encode(in, fresh) }) || err != nil {
			continue
		}
		c.Distinct(e.xkey(level, fmt.Sprintf("receivers/%s/ntt%v/%s", domTag(batched), isNTT, typ)), true)
		c.Count("bgv_metadata_checks", 1)
		if !c.Check(snap.diff(fresh.MetaData) == "", "C07|bgv.Encoder.Encode|metadata-changed", func() string { return desc() + ": " + snap.diff(fresh.MetaData) }) {
			snap = snapMD(fresh.MetaData)
		}
		e.decodeCheck(fresh, want, length, signed, tag, "", desc)
		c.Check(snap.diff(fresh.MetaData) == "", "C07|bgv.Encoder.Decode|metadata-changed", func() string { return desc() + ": " + snap.diff(fresh.MetaData) })

		// receiver over a larger polynomial
		bigPoly := e.params.RingQ().NewPoly()
		fill(e.rnd, bigPoly)
		guard := make([][]uint64, maxL+1)
		for i := range guard {
			guard[i] = append([]uint64{}, bigPoly.Coeffs[i]...)
		}
		over, perr := rlwe.NewPlaintextAtLevelFromPoly(level, bigPoly)
		if perr != nil {
			c.Violate("C07|rlwe.NewPlaintextAtLevelFromPoly|error-on-admissible", perr.Error(), e.cfg)
			continue
		}
		*over.MetaData = *fresh.MetaData.CopyNew()
		if !c.Try("C07|bgv.Encoder.Encode", func() { err = e.ecd.Encode(in, over) }) || err != nil {
			continue
		}
		c.Count("bgv_receivers_larger_than_needed", 1)
		c.Eval(1)
		if same, i, j := samePolyMod(over.Value, fresh.Value, mods); !same {
			c.Violate("C07|bgv.Encoder.Encode|receiver-over-larger-poly|differs-from-fresh", desc()+fmt.Sprintf(": modulus %d position %d: %d, fresh plaintext holds %d", i, j, over.Value.Coeffs[i][j], fresh.Value.Coeffs[i][j]), e.cfg)
		}
		for i := level + 1; i <= maxL; i++ {
			for j := range guard[i] {
				if bigPoly.Coeffs[i][j] != guard[i][j] {
					c.Violate("C07|bgv.Encoder.Encode|receiver-over-larger-poly|row-above-level-written", desc()+fmt.Sprintf(": row %d position %d changed", i, j), e.cfg)
					i = maxL
					break
				}
			}
		}
		e.decodeCheck(over, want, length, signed, tag, "", desc)

		// plaintext obtained by CopyNew: decodes alike, and re-encoding into it does not touch the original
		cp := fresh.CopyNew()
		e.decodeCheck(cp, want, length, signed, tag, "", desc)
		in2, want2 := e.inputs(signed, upUniformT, e.n)
		if !c.Try("C07|bgv.Encoder.Encode", func() { err = e.ecd.Encode(in2, cp) }) || err != nil {
			continue
		}
		e.decodeCheck(cp, want2, e.n, signed, tag, "", desc)
		e.decodeCheck(fresh, want, length, signed, tag, "", desc)
	}
}

// refusals: what the encoder documents as unsupported is answered by an error (not a panic, not a
// silently different plaintext) and leaves the receiver as it was.
func (e *bgvEnv) refusals() {
	c := e.c
	level := e.rnd.N(e.params.MaxLevel() + 1)
	rT := e.params.RingT()
	type attempt struct {
		api, what string
		batched   bool
		in        any
	}
	tooLongU := make([]uint64, e.n+1)
	tooLongI := make([]int64, e.n+1+e.rnd.N(e.n))
	for i := range tooLongU {
		tooLongU[i] = e.rnd.U64()
	}
	for i := range tooLongI {
		tooLongI[i] = int64(e.rnd.U64())
	}
	atts := []attempt{
		{"Encode", "too-long/batched", true, tooLongU},
		{"Encode", "too-long/batched", true, tooLongI},
		{"Encode", "too-long/coeff", false, tooLongU},
		{"Encode", "too-long/coeff", false, tooLongI},
		{"Encode", "unsupported-type/batched", true, []int{1, 2, 3}},
		{"Encode", "unsupported-type/batched", true, []uint32{1, 2, 3}},
		{"Encode", "unsupported-type/coeff", false, []int{1, 2, 3}},
		{"Encode", "unsupported-type/coeff", false, []float64{1, 2, 3}},
	}
	for _, a := range atts {
		pt := bgv.NewPlaintext(e.params, level)
		pt.IsBatched, pt.IsNTT = a.batched, e.rnd.Bool()
		fill(e.rnd, pt.Value)
		before := pt.Value.CopyNew()
		var err error
		c.Eval(1)
		c.Count("bgv_refusals_tried", 1)
		c.Distinct(fmt.Sprintf("bgvx/refusal/%s/%s/%T", a.api, a.what, a.in), true)
		if p, val := eng.Panics(func() { err = e.ecd.Encode(a.in, pt) }); p {
			c.Violate("C07|bgv.Encoder.Encode|panic|"+a.what, fmt.Sprintf("t=%d N=%d slots=%d: Encode(%T of length %d) panicked: %v", e.t, e.N, e.n, a.in, lenOf(a.in), val), e.cfg)
			continue
		}
		if err == nil {
			c.Violate("C07|bgv.Encoder.Encode|no-error|"+a.what, fmt.Sprintf("t=%d N=%d slots=%d IsBatched=%v: Encode(%T of length %d) returned nil", e.t, e.N, e.n, a.batched, a.in, lenOf(a.in)), e.cfg)
			continue
		}
		c.Count("bgv_refusals_with_error", 1)
		if !pt.Value.Equal(before) {
			c.Violate("C07|bgv.Encoder.Encode|receiver-modified-on-error|"+a.what, fmt.Sprintf("t=%d N=%d slots=%d IsBatched=%v: Encode(%T of length %d) returned %q but changed the plaintext", e.t, e.N, e.n, a.batched, a.in, lenOf(a.in), err.Error()), e.cfg)
		}
	}
	// EncodeRingT / EmbedScale / Decode / DecodeRingT
	scale := rlwe.NewScaleModT(1, e.t)
	pT := rT.NewPoly()
	pt := bgv.NewPlaintext(e.params, level)
	md := pt.MetaData.CopyNew()
	polyQ := e.params.RingQ().AtLevel(level).NewPoly()
	others := []struct {
		sig  string
		call func() error
	}{
		{"C07|bgv.Encoder.EncodeRingT|%s|too-long", func() error { return e.ecd.EncodeRingT(tooLongU, scale, pT) }},
		{"C07|bgv.Encoder.EncodeRingT|%s|unsupported-type", func() error { return e.ecd.EncodeRingT([]int32{1}, scale, pT) }},
		{"C07|bgv.Encoder.EmbedScale|%s|too-long", func() error { return e.ecd.EmbedScale(tooLongI, true, md, polyQ) }},
		{"C07|bgv.Encoder.EmbedScale|%s|unsupported-output-type", func() error { return e.ecd.EmbedScale([]uint64{1}, true, md, []uint64{0}) }},
		{"C07|bgv.Encoder.Embed|%s|unsupported-output-type", func() error { return e.ecd.Embed([]uint64{1}, md, "poly") }},
		{"C07|bgv.Encoder.Decode|%s|unsupported-type/batched", func() error { pt.IsBatched = true; return e.ecd.Decode(pt, make([]int, 3)) }},
		{"C07|bgv.Encoder.Decode|%s|unsupported-type/coeff", func() error { pt.IsBatched = false; return e.ecd.Decode(pt, make([]uint32, 3)) }},
		{"C07|bgv.Encoder.DecodeRingT|%s|unsupported-type", func() error { return e.ecd.DecodeRingT(pT, scale, make([]float64, 3)) }},
	}
	for _, o := range others {
		var err error
		c.Eval(1)
		c.Count("bgv_refusals_tried", 1)
		c.Distinct("bgvx/refusal/"+o.sig, true)
		if p, val := eng.Panics(func() { err = o.call() }); p {
			c.Violate(fmt.Sprintf(o.sig, "panic"), fmt.Sprintf("t=%d N=%d slots=%d: %v", e.t, e.N, e.n, val), e.cfg)
			continue
		}
		if err == nil {
			c.Violate(fmt.Sprintf(o.sig, "no-error"), fmt.Sprintf("t=%d N=%d slots=%d: returned nil", e.t, e.N, e.n), e.cfg)
			continue
		}
		c.Count("bgv_refusals_with_error", 1)
	}
}

func lenOf(v any) int {
	switch x := v.(type) {
	case []uint64:
		return len(x)
	case []int64:
		return len(x)
	case []int:
		return len(x)
	case []uint32:
		return len(x)
	case []float64:
		return len(x)
	}
	return -1
}
