// Package c07: encoders are inverse to decoders on the whole message space.
//
// Workload: generated BGV and CKKS parameter sets (plaintext ring smaller than or equal to the
// ciphertext ring, both CKKS ring types, float64 and arbitrary-precision encoders); inside each
// case every level x encoding domain x metadata flag x value type x boundary pattern x vector
// length x scale is encoded with the real encoder and judged by oracles that do not share the
// encoder's code path:
//
//   - BGV: exact residues mod t computed with 64-bit / math/big arithmetic; an exact model of the
//     coefficient-domain plaintext polynomial; a naive negacyclic product in Z_Q (ref package) for
//     "product of two encodings decodes to the slot-wise product"; decoding under the largest
//     admissible multiple-of-t perturbation (what Decode sees after a decryption).
//   - CKKS: an independent O(n^2) evaluation of the canonical embedding in math/big floating
//     point (own roots of unity by repeated half-angle formulas, own CRT reconstruction) applied
//     to the plaintext polynomial, plus the encoder's own Decode / DecodePublic, both compared
//     with the input under a worst-case bound (rounding of 2n coefficients to integers at the
//     plaintext scale plus the floating-point error of an n-point FFT at the working precision).
package c07

import (
	"verif/harness/eng"
)

func cases(tier string, seed int64) []eng.Case {
	out := bgvCases(tier, seed)
	out = append(out, ckksCases(tier, seed)...)
	// coverage extension (own generators: the case lists above do not depend on it)
	out = append(out, bgvxCases(tier, seed)...)
	out = append(out, ckksxCases(tier, seed)...)
	return out
}

func init() {
	eng.Register(&eng.Monitor{
		ID: "C07", Level: "exploration",
		Rule: "cases = generated parameter sets: BGV (logN, log2(N/plaintext ring degree), plaintext modulus size, Q/P chain) and CKKS (ring type, logN, Q/P chain, default scale, encoder precision). " +
			"Inside a case the monitor enumerates level x {slots, coefficients} x IsNTT x value type x boundary pattern (0, 1, t-1, t, 2^63, 2^64-1, MinInt64, +-(t-1)/2, +-(t+1)/2, multiples of t; CKKS: magnitudes from 1/scale to 0.35*Q/scale, one-hot, constant, real-only, tiny negative) x vector length (0/1, 1, slots-1, slots, random) x scale (1, t-1, random; CKKS: default, other power of two, non power of two, prime) x output type/length, " +
			"plus products of two encodings, decoding under worst admissible noise (BGV), Embed into ring.Poly / ringqp.Poly with every (IsNTT, IsMontgomery), FFT/IFFT against a naive DFT, DecodePublic. " +
			"distinct key = (scheme, ring type or gap, logN, level class, domain/logSlots, IsNTT, target API, input type, output type, pattern, length class, scale class, precision path). " +
			"non-trivial = NOT (uniformly random full-length vector, top level, default scale, IsNTT=true, Encode into a plaintext, gap 1, float64 path). " +
			"Extension families (own generators, ids bgvx/..., ckksx/..., bgv/.../big): plaintext moduli of 59/60 bits under a 61-bit first modulus and 61-bit moduli next to 30-bit ones; the exported building blocks called directly with exact models " +
			"(bgv EncodeRingT, DecodeRingT, RingT2Q, RingQ2T with both scaleDown values on arbitrary centred polynomials, EmbedScale; ckks GetRootsComplex128/GetRootsBigComplex against the monitor's root table, the five *ToFixedPointCRT functions residue by residue on boundary values); " +
			"CKKS scales 1/2/8, DecodePublic precisions 1, -2, 0.5, 30, 52, 60, caller-allocated outputs, ringqp.Poly targets with every LevelP including -1, encoder precisions 53/54/65, decoding through GetPrecisionStats; " +
			"receivers built over a larger polynomial or obtained by CopyNew, encoders copied from a used copy; metadata unchanged by Encode/Decode; coefficient-domain []*big.Float inputs whose first element is nil or of lower precision; " +
			"refusals (too many values, LogDimensions outside [0,max], unsupported types) answered by an error without a panic and without touching the receiver. Every such combination is a distinct non-trivial key.",
		Cases: cases,
		Assumptions: []string{
			"model arithmetic (math/big integers and floats, bits.Mul64/Div64) is correct",
			"ring.NTT/INTT/MForm/IMForm used to bring a polynomial to the coefficient domain are correct (judged by C01)",
			"CKKS bound: rounding error <= 1/2 unit per real coefficient (<= 0.7072*slots/scale per slot, slots/scale in the conjugate-invariant ring; exactly 1/2 unit in the coefficient domain) + 2^-(p-4)*(2*logSlots+4)*sqrt(slots)*max|v| for working precision p (53 or the encoder precision); inputs satisfy max|v|*scale <= 0.35*Q_level",
			"BGV scales are taken in [1, t-1]; output slices are never longer than the slot count",
			"fixed-point conversion model: the integer written is within 1/2 + 2^-51*|value*scale| of value*scale on the float64 entry points (one rounding of the product, one of the +0.5), within 1/2 + 2^-(p-3)*|value*scale| on the big.Float ones (p = min(128, precision of the values)); compared residue by residue, so values above Q are judged too",
			"root tables: |GetRootsComplex128(M)[j] - exp(2 pi i j/M)| <= 2^-48 (measured 2^-51.8), |GetRootsBigComplex(M, p)[j] - ...| <= 2^-(p-12) (measured 2^-(p-3.4)); deterministic, independent of the seed",
			"RingQ2T is called on centred polynomials with |m_j| <= Q/2 - Q/2^17 - 2 (the floating-point overflow count of ModUpExact needs a margin from +-Q/2), positions off the gap grid hold reduced garbage",
			"a []*big.Float element is judged at its own precision (a correct conversion works at least at the precision of each element)",
		},
	})
}
