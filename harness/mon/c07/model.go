package c07

import (
	"math/big"
	"sync"

	"github.com/tuneinsight/lattigo/v6/ring"

	"verif/harness/obs"
	"verif/harness/ref"
)

// rootTable holds exp(2*pi*i*k/M), k in [0,M), M a power of two >= 4, computed without any
// library trigonometry: the primitive root is obtained from i = exp(i*pi/2) by repeated
// half-angle formulas (cos(x/2) = sqrt((1+cos x)/2), sin(x/2) = sin x / (2 cos(x/2))), the table by
// repeated squaring/multiplication. Working precision prec (callers pass >= 64 guard bits).
type rootTable struct {
	M      int
	re, im []*big.Float
}

var (
	rootMu    sync.Mutex
	rootCache = map[[2]int]*rootTable{}
)

func nf(prec uint) *big.Float { return new(big.Float).SetPrec(prec) }

func getRoots(M int, prec uint) *rootTable {
	rootMu.Lock()
	defer rootMu.Unlock()
	k := [2]int{M, int(prec)}
	if t, ok := rootCache[k]; ok {
		return t
	}
	c := nf(prec).SetInt64(0)
	s := nf(prec).SetInt64(1)
	one := nf(prec).SetInt64(1)
	two := nf(prec).SetInt64(2)
	for order := 4; order < M; order <<= 1 {
		c2 := nf(prec).Add(one, c)
		c2.Quo(c2, two)
		c2.Sqrt(c2)
		s2 := nf(prec).Mul(two, c2)
		s2.Quo(s, s2)
		c, s = c2, s2
	}
	t := &rootTable{M: M, re: make([]*big.Float, M), im: make([]*big.Float, M)}
	t.re[0], t.im[0] = nf(prec).SetInt64(1), nf(prec).SetInt64(0)
	if M == 4 {
		c, s = nf(prec).SetInt64(0), nf(prec).SetInt64(1)
	}
	t.re[1], t.im[1] = c, s
	a, b := nf(prec), nf(prec)
	for i := 2; i < M; i++ {
		// w^i = w^(i/2) * w^(i - i/2): error grows with log(i) only
		x, y := i/2, i-i/2
		re := nf(prec)
		im := nf(prec)
		a.Mul(t.re[x], t.re[y])
		b.Mul(t.im[x], t.im[y])
		re.Sub(a, b)
		a.Mul(t.re[x], t.im[y])
		b.Mul(t.im[x], t.re[y])
		im.Add(a, b)
		t.re[i], t.im[i] = re, im
	}
	rootCache[k] = t
	return t
}

// slotExp returns 5^i mod M.
func slotExp(i, M int) int {
	k := 1
	for ; i > 0; i-- {
		k = (k * 5) & (M - 1)
	}
	return k
}

// embedStd evaluates m(Y) = sum_j c_j Y^j (2n real coefficients) at Y = w^(5^i), w = exp(2 pi i /(4n)),
// for the requested slots. Returns real and imaginary parts.
func embedStd(c []*big.Float, n int, slots []int, prec uint) (re, im []*big.Float) {
	M := 4 * n
	T := getRoots(M, prec)
	re = make([]*big.Float, len(slots))
	im = make([]*big.Float, len(slots))
	tmp := nf(prec)
	for a, i := range slots {
		k := slotExp(i, M)
		r, m := nf(prec), nf(prec)
		for j := 0; j < 2*n; j++ {
			if c[j].Sign() == 0 {
				continue
			}
			idx := (k * j) & (M - 1)
			tmp.Mul(c[j], T.re[idx])
			r.Add(r, tmp)
			tmp.Mul(c[j], T.im[idx])
			m.Add(m, tmp)
		}
		re[a], im[a] = r, m
	}
	return
}

// embedCI evaluates the element c_0 + sum_{j>=1} c_j (Y^j + Y^-j) of Z[Y+Y^-1] (n real
// coefficients) at Y = w^(5^i), w = exp(2 pi i/(4n)): c_0 + 2 sum c_j cos(2 pi 5^i j/(4n)).
func embedCI(c []*big.Float, n int, slots []int, prec uint) (re []*big.Float) {
	M := 4 * n
	T := getRoots(M, prec)
	re = make([]*big.Float, len(slots))
	tmp := nf(prec)
	for a, i := range slots {
		k := slotExp(i, M)
		r := nf(prec)
		for j := 1; j < n; j++ {
			if c[j].Sign() == 0 {
				continue
			}
			idx := (k * j) & (M - 1)
			tmp.Mul(c[j], T.re[idx])
			r.Add(r, tmp)
		}
		r.Add(r, r)
		r.Add(r, c[0])
		re[a] = r
	}
	return
}

// specialDFT is the naive form of the transform Encoder.FFT documents ("special decoding DFT"):
// out_i = sum_j w_j * exp(2 pi i 5^i j /(4n)) over n complex inputs.
func specialDFT(wr, wi []*big.Float, n int, prec uint) (re, im []*big.Float) {
	M := 4 * n
	T := getRoots(M, prec)
	re = make([]*big.Float, n)
	im = make([]*big.Float, n)
	a, b := nf(prec), nf(prec)
	for i := 0; i < n; i++ {
		k := slotExp(i, M)
		r, m := nf(prec), nf(prec)
		for j := 0; j < n; j++ {
			idx := (k * j) & (M - 1)
			a.Mul(wr[j], T.re[idx])
			b.Mul(wi[j], T.im[idx])
			r.Add(r, a)
			r.Sub(r, b)
			a.Mul(wr[j], T.im[idx])
			b.Mul(wi[j], T.re[idx])
			m.Add(m, a)
			m.Add(m, b)
		}
		re[i], im[i] = r, m
	}
	return
}

// polyCoeffs brings p to the coefficient domain (per the flags), reconstructs every coefficient
// by CRT (centred) and returns the nReal coefficients of the sub-ring polynomial in Y = X^(N/nReal)
// divided by scale. ok=false when a coefficient outside the sub-ring positions is non-zero.
// unreduced reports whether some stored residue was >= its modulus.
func polyCoeffs(r *ring.Ring, p ring.Poly, isNTT, isMont bool, nReal int, scale *big.Float, prec uint) (c []*big.Float, ok bool, bad int, unreduced bool) {
	mods := r.ModuliChain()[:r.Level()+1]
	for i, q := range mods {
		for _, x := range p.Coeffs[i] {
			if x >= q {
				unreduced = true
			}
		}
	}
	pl := obs.Plain(r, p, isNTT, isMont)
	crt := ref.NewCRT(mods)
	N := r.N()
	gap := N / nReal
	c = make([]*big.Float, nReal)
	col := make([]uint64, len(mods))
	ok, bad = true, -1
	for j := 0; j < N; j++ {
		zero := true
		for i, q := range mods {
			col[i] = pl.Coeffs[i][j] % q
			if col[i] != 0 {
				zero = false
			}
		}
		if j%gap != 0 {
			if !zero && ok {
				ok, bad = false, j
			}
			continue
		}
		f := nf(prec)
		if !zero {
			f.SetInt(crt.Centered(col))
			f.Quo(f, scale)
		}
		c[j/gap] = f
	}
	return
}
