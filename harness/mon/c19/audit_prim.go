package c19

// Coverage-audit extension: the primality test, the factorisation routines and the primitive-root
// search the NTT tables are built from (ring/primes.go: IsPrime and the plural generator calls;
// utils/factorization/factorization.go; ring/subring.go: PrimitiveRoot, CheckFactors,
// CheckPrimitiveRoot). All oracles are exact: constructed composites / known primes / trial
// division, factor sets known by construction, orders of elements computed with the harness
// arithmetic.

import (
	"fmt"
	"math/big"
	"sort"

	"github.com/tuneinsight/lattigo/v6/ring"
	"github.com/tuneinsight/lattigo/v6/utils/factorization"

	"verif/harness/eng"
	"verif/harness/gen"
	"verif/harness/ref"
)

// trialPrime: primality by trial division (exact), for n < 2^44.
func trialPrime(n uint64) bool {
	if n < 2 {
		return false
	}
	if n%2 == 0 {
		return n == 2
	}
	for d := uint64(3); d*d <= n; d += 2 {
		if n%d == 0 {
			return false
		}
	}
	return true
}

// composites that fool weak tests: Carmichael numbers and strong pseudoprimes to the first prime bases
// (psi_1..psi_12 where below 2^64), all composite.
var trickyComposites = []uint64{561, 1105, 1729, 2465, 2821, 6601, 8911, 41041, 825265, 321197185, 5394826801, 232250619601, 9746347772161,
	1436697831295441, 60977817398996785, 7156857700403137441,
	2047, 1373653, 25326001, 3215031751, 2152302898747, 3474749660383, 341550071728321, 3825123056546413051,
	4294967297 /* F5 = 641 * 6700417 */, 18446744073709551615 /* 2^64-1 */, 18446744073709551557 + 2 /* 2^64-57 */}

// primes with a proof outside this harness (Mersenne / Fermat primes, the largest primes below powers of two)
var knownPrimes = []uint64{2, 3, 5, 7, 17, 257, 65537, 8191, 131071, 524287, 2147483647, 2305843009213693951 /* 2^61-1 */, 18446744073709551557, /* 2^64-59 */
	4611686018427387847 /* 2^62-57 */, 9223372036854775783 /* 2^63-25 */, 4294967291 /* 2^32-5 */, 4294967311 /* 2^32+15 */, 1152921504606846883 /* 2^60-93 */}

func primCases(tier string, seed int64) []eng.Case {
	var out []eng.Case
	nf := 6
	if tier == "thorough" {
		nf = 30
	}
	out = append(out, eng.Case{ID: "prim/IsPrime", Sig: "C19|ring.IsPrime", Desc: "ring.IsPrime and factorization.IsPrime against exact answers", Run: runIsPrime})
	for i := 0; i < nf; i++ {
		i := i
		out = append(out, eng.Case{ID: fmt.Sprintf("prim/factors/%02d", i), Sig: "C19|factorization.GetFactors", Desc: map[string]int{"batch": i},
			Run: func(c *eng.Ctx) { runFactors(c, i) }})
		out = append(out, eng.Case{ID: fmt.Sprintf("prim/roots/%02d", i), Sig: "C19|ring.PrimitiveRoot", Desc: map[string]int{"batch": i},
			Run: func(c *eng.Ctx) { runRoots(c, i) }})
	}
	roots := []int{5, 9, 13, 17}
	if tier == "thorough" {
		roots = []int{5, 6, 7, 9, 11, 13, 15, 17, 19, 21}
	}
	for _, lr := range roots {
		lr := lr
		out = append(out, eng.Case{ID: fmt.Sprintf("gen/plural/root%d", lr), Sig: "C19|ring.NTTFriendlyPrimesGenerator", Desc: map[string]int{"logNthRoot": lr},
			Run: func(c *eng.Ctx) { runPlural(c, lr) }})
		out = append(out, eng.Case{ID: fmt.Sprintf("gen/generator-62-63/root%d", lr), Sig: "C19|ring.NTTFriendlyPrimesGenerator", Desc: map[string]int{"logNthRoot": lr},
			Run: func(c *eng.Ctx) { runGeneratorRange(c, lr, 62, 63) }})
	}
	return out
}

func runIsPrime(c *eng.Ctx) {
	r := c.Rand()
	chk := func(n uint64, want bool, class string) {
		c.Distinct("isprime|"+class, true)
		got := ring.IsPrime(n)
		c.Check(got == want, "C19|ring.IsPrime|wrong-answer|"+class, func() string { return fmt.Sprintf("IsPrime(%d) = %v, it is %v", n, got, want) })
		gf := factorization.IsPrime(new(big.Int).SetUint64(n))
		c.Check(gf == want, "C19|factorization.IsPrime|wrong-answer|"+class, func() string { return fmt.Sprintf("IsPrime(%d) = %v, it is %v", n, gf, want) })
		c.Count("primality_answers_checked", 2)
	}
	for n := uint64(0); n < 3000; n++ {
		chk(n, trialPrime(n), "small")
	}
	for _, n := range trickyComposites {
		chk(n, false, "pseudoprime")
	}
	for _, n := range knownPrimes {
		chk(n, true, "known-prime")
	}
	for i := 0; i < 400; i++ {
		n := r.U64()>>uint(24+r.N(30)) | 1 // odd, below 2^40
		chk(n, trialPrime(n), "random-below-2^40")
	}
	for i := 0; i < 300; i++ {
		// products of two primes, squares and cubes of primes: composite by construction
		a := firstPrime(uint64(3+r.N(1<<20))|1, 2, nil)
		b := firstPrime((r.U64()>>uint(33+r.N(20)))|1, 2, nil)
		if a == 0 || b == 0 {
			continue
		}
		chk(a*b, false, "semiprime")
		chk(a*a, false, "prime-square")
		if a < 1<<21 {
			chk(a*a*a, false, "prime-cube")
		}
		// NTT-friendly shape: 1 mod 2^k, the only shape the library asks about
		k := 5 + r.N(16)
		hb := 1 + r.N(39-k) // n < 2^(hb+k) <= 2^39
		n := (r.U64()>>uint(64-hb))<<uint(k) | 1
		chk(n, trialPrime(n), "ntt-shape-below-2^40")
	}
	// beyond 64 bits (factorization.IsPrime only)
	m89 := new(big.Int).Sub(new(big.Int).Lsh(big.NewInt(1), 89), big.NewInt(1))
	m127 := new(big.Int).Sub(new(big.Int).Lsh(big.NewInt(1), 127), big.NewInt(1))
	m61 := new(big.Int).SetUint64(2305843009213693951)
	for _, x := range []struct {
		v    *big.Int
		want bool
	}{{m89, true}, {m127, true}, {new(big.Int).Mul(m61, m89), false}, {new(big.Int).Mul(m89, m89), false}, {new(big.Int).Lsh(big.NewInt(1), 100), false}} {
		got := factorization.IsPrime(x.v)
		c.Check(got == x.want, "C19|factorization.IsPrime|wrong-answer|above-64-bits", func() string { return fmt.Sprintf("IsPrime(%v) = %v", x.v, got) })
	}
}

func bigsToU(v []*big.Int) (o []uint64, ok bool) {
	ok = true
	for _, x := range v {
		if x == nil || !x.IsUint64() {
			return nil, false
		}
		o = append(o, x.Uint64())
	}
	return
}

// runFactors: GetFactors returns exactly the set of prime divisors, ascending; the single-factor
// routines return a divisor.
func runFactors(c *eng.Ctx, batch int) {
	r := c.Rand()
	type inst struct {
		m     uint64
		want  []uint64 // sorted unique prime factors
		class string
	}
	var ins []inst
	add := func(class string, ps []uint64, es []int) {
		m := uint64(1)
		for i, p := range ps {
			for e := 0; e < es[i]; e++ {
				hi, lo := mul64(m, p)
				if hi != 0 {
					return
				}
				m = lo
			}
		}
		w := dedupSorted(ps)
		ins = append(ins, inst{m, w, class})
	}
	rp := func(bitsz int) uint64 { // random prime of about bitsz bits
		return firstPrime((uint64(1)<<(bitsz-1))|(r.U64()>>(65-uint(bitsz)))|1, 2, nil)
	}
	ins = append(ins, inst{1, nil, "one"})
	if batch == 0 {
		// found by this family (thorough, seed 1): Pollard rho returns the product of two of the three primes
		ins = append(ins, inst{367216930190121883, []uint64{205267, 901841, 1983689}, "three-primes"})
	}
	for i := 0; i < 6; i++ {
		add("prime", []uint64{rp(eng.Pick(r, 3, 8, 16, 31, 45, 61, 63))}, []int{1})
		add("prime-power", []uint64{rp(eng.Pick(r, 2, 3, 5, 9, 15))}, []int{2 + r.N(3)})
		add("power-of-two", []uint64{2}, []int{1 + r.N(63)})
		add("smooth", []uint64{2, 3, 5, 7, 11, 13}, []int{1 + r.N(8), r.N(5) + 1, 1 + r.N(3), 1 + r.N(2), 1, 1})
		add("two-large-primes", []uint64{rp(eng.Pick(r, 20, 26, 31)), rp(eng.Pick(r, 22, 28, 32))}, []int{1, 1})
		add("small-times-large", []uint64{2, rp(eng.Pick(r, 10, 16)), rp(eng.Pick(r, 30, 40))}, []int{1 + r.N(12), 1 + r.N(2), 1})
		add("three-primes", []uint64{rp(18), rp(20), rp(21)}, []int{1, 1, 1})
		add("square-of-large-prime", []uint64{rp(eng.Pick(r, 24, 31))}, []int{2})
		add("two-medium-primes", []uint64{rp(eng.Pick(r, 12, 14, 16)), rp(eng.Pick(r, 13, 15, 17))}, []int{1, 1})
		// q - 1 for an NTT-friendly prime: the only argument the library itself passes
		lr := eng.Pick(r, 5, 9, 13, 17)
		b := eng.Pick(r, lr+2, 30, 36, 40)
		if pr := gen.Primes(max(b, lr+2), uint64(1)<<lr, 1, r.N(4), nil); len(pr) == 1 {
			if fs, ok := trialFactors(pr[0] - 1); ok {
				ins = append(ins, inst{pr[0] - 1, fs, "q-minus-1"})
			}
		}
		// large NTT-friendly primes with a huge power of two in q-1 (small odd part)
		if pr := gen.Primes(eng.Pick(r, 55, 60, 61), uint64(1)<<36, 1, r.N(4), nil); len(pr) == 1 {
			if fs, ok := trialFactors(pr[0] - 1); ok {
				ins = append(ins, inst{pr[0] - 1, fs, "q-minus-1-large"})
			}
		}
	}
	sampled := false
	ecmCalls := 0
	for _, in := range ins {
		c.Distinct(fmt.Sprintf("factors|%s|%d", in.class, bitlen(in.m)), true)
		var got []*big.Int
		if p, pv := eng.Panics(func() { got = factorization.GetFactors(new(big.Int).SetUint64(in.m)) }); p {
			c.Violate("C19|factorization.GetFactors|panic", fmt.Sprintf("GetFactors(%d): %v", in.m, pv), nil)
			continue
		}
		gu, ok := bigsToU(got)
		c.Count("factorisations_checked", 1)
		cls := in.class
		if compositeIn(gu) {
			cls = "composite-factor-returned" // one cause whatever the shape of m: a divisor found by rho/ECM is not factored further
		}
		c.Check(ok && eqv(gu, in.want) && sort.SliceIsSorted(gu, func(i, j int) bool { return gu[i] < gu[j] }), "C19|factorization.GetFactors|wrong-factors|"+cls, func() string {
			return fmt.Sprintf("GetFactors(%d) = %v, the prime divisors are %v", in.m, got, in.want)
		})
		if !sampled && len(in.want) >= 3 {
			sampled = true
			c.Sample(map[string]any{"kind": "factorisation", "m": in.m, "factors": in.want})
		}
		if in.m < 4 {
			continue
		}
		mb := new(big.Int).SetUint64(in.m)
		// Pollard rho: "returns one factor per call; can fail" (then 1 or m): whatever it returns divides m
		var d *big.Int
		if p, pv := eng.Panics(func() { d = factorization.GetFactorPollardRho(mb) }); p {
			c.Violate("C19|factorization.GetFactorPollardRho|panic", fmt.Sprintf("m=%d: %v", in.m, pv), nil)
		} else {
			okd := d != nil && d.Sign() > 0 && new(big.Int).Mod(mb, d).Sign() == 0
			c.Check(okd, "C19|factorization.GetFactorPollardRho|not-a-divisor", func() string { return fmt.Sprintf("GetFactorPollardRho(%d) = %v", in.m, d) })
			if okd && d.Cmp(big.NewInt(1)) != 0 && d.Cmp(mb) != 0 {
				c.Count("pollard_rho_nontrivial_divisors", 1)
			}
			c.Check(mb.Uint64() == in.m, "C19|factorization.GetFactorPollardRho|argument-modified", nil)
		}
		// ECM on composites of moderate size (it loops until it finds a divisor)
		if len(in.want) >= 2 && in.m < 1<<34 && in.m%2 == 1 && in.m%3 != 0 && ecmCalls < 3 {
			ecmCalls++
			var f *big.Int
			if p, pv := eng.Panics(func() { f = factorization.GetFactorECM(mb) }); p {
				c.Violate("C19|factorization.GetFactorECM|panic", fmt.Sprintf("N=%d: %v", in.m, pv), nil)
			} else {
				c.Check(f != nil && f.Cmp(big.NewInt(1)) > 0 && new(big.Int).Mod(mb, f).Sign() == 0, "C19|factorization.GetFactorECM|not-a-divisor", func() string {
					return fmt.Sprintf("GetFactorECM(%d) = %v", in.m, f)
				})
				c.Count("ecm_divisors_checked", 1)
			}
		}
	}
}

// compositeIn: some element of a list of alleged prime factors is composite.
func compositeIn(fs []uint64) bool {
	for _, f := range fs {
		if f >= 4 && !gen.IsPrime(f) {
			return true
		}
	}
	return false
}

func mul64(a, b uint64) (hi, lo uint64) {
	x := new(big.Int).Mul(new(big.Int).SetUint64(a), new(big.Int).SetUint64(b))
	lo = new(big.Int).And(x, new(big.Int).SetUint64(^uint64(0))).Uint64()
	hi = new(big.Int).Rsh(x, 64).Uint64()
	return
}

// isGenerator: g generates Z_q^* (fs = the prime divisors of q-1).
func isGenerator(g, q uint64, fs []uint64) bool {
	if g%q == 0 {
		return false
	}
	for _, f := range fs {
		if ref.PowMod(g%q, (q-1)/f, q) == 1 {
			return false
		}
	}
	return true
}

// runRoots: PrimitiveRoot / CheckFactors / CheckPrimitiveRoot on NTT-friendly primes (q = 1 mod 16 at
// least, the domain of every caller: ring moduli and BGV plaintext moduli).
func runRoots(c *eng.Ctx, batch int) {
	r := c.Rand()
	sampled := false
	for rep := 0; rep < 10; rep++ {
		var q uint64
		switch rep % 5 {
		case 0: // small rings / plaintext moduli
			q = eng.Pick(r, uint64(17), 97, 193, 257, 769, 12289, 40961, 65537, 786433, 7681)
		case 1, 2:
			lr := eng.Pick(r, 4, 5, 8, 11, 14, 17)
			if pr := gen.Primes(max(lr+2, eng.Pick(r, 20, 28, 36, 42)), uint64(1)<<lr, 1, r.N(4), nil); len(pr) == 1 {
				q = pr[0]
			}
		default: // full-size moduli whose q-1 has a small odd part
			if pr := gen.Primes(eng.Pick(r, 50, 55, 59, 60, 61), uint64(1)<<eng.Pick(r, 34, 38), 1, r.N(4), nil); len(pr) == 1 {
				q = pr[0]
			}
		}
		if q == 0 {
			continue
		}
		fs, ok := trialFactors(q - 1)
		if !ok {
			continue
		}
		c.Distinct(fmt.Sprintf("roots|%d|%d", bitlen(q), len(fs)), true)
		var g uint64
		var gf []uint64
		var err error
		if p, pv := eng.Panics(func() { g, gf, err = ring.PrimitiveRoot(q, nil) }); p {
			c.Violate("C19|ring.PrimitiveRoot|panic", fmt.Sprintf("q=%d: %v", q, pv), nil)
			continue
		}
		c.Count("primitive_roots_checked", 1)
		if err != nil {
			c.Violate("C19|ring.PrimitiveRoot|error-on-admissible", fmt.Sprintf("q=%d: %v", q, err), nil)
			continue
		}
		rsig := "C19|ring.PrimitiveRoot|wrong-factors"
		if compositeIn(gf) {
			rsig = "C19|factorization.GetFactors|wrong-factors|composite-factor-returned"
		}
		c.Check(eqv(gf, fs), rsig, func() string { return fmt.Sprintf("q=%d: factors of q-1 returned %v, they are %v", q, gf, fs) })
		c.Check(isGenerator(g, q, fs) && g < q, "C19|ring.PrimitiveRoot|not-a-primitive-root", func() string {
			return fmt.Sprintf("q=%d: g=%d does not generate Z_q^* (q-1 has prime factors %v)", q, g, fs)
		})
		// documented: the smallest primitive root (2 is never one for q = 1 mod 8)
		smaller := uint64(0)
		for x := uint64(2); x < g && x < 5000; x++ {
			if isGenerator(x, q, fs) {
				smaller = x
				break
			}
		}
		c.Check(smaller == 0, "C19|ring.PrimitiveRoot|not-the-smallest", func() string { return fmt.Sprintf("q=%d: returned %d, but %d is a primitive root", q, g, smaller) })
		if !sampled {
			sampled = true
			c.Sample(map[string]any{"kind": "primitive-root", "q": q, "factors_of_q_minus_1": fs, "root": g})
		}
		// with the factors supplied: same answer; the list is validated
		g2, _, err2 := ring.PrimitiveRoot(q, cloneU(fs))
		c.Check(err2 == nil && g2 == g, "C19|ring.PrimitiveRoot|differs-with-supplied-factors", func() string { return fmt.Sprintf("q=%d: %d (%v) vs %d", q, g2, err2, g) })
		if len(fs) >= 2 {
			_, _, e := ring.PrimitiveRoot(q, cloneU(fs[:len(fs)-1]))
			c.Check(e != nil, "C19|ring.PrimitiveRoot|accepted-invalid|incomplete-factor-list", func() string { return fmt.Sprintf("q=%d factors %v", q, fs[:len(fs)-1]) })
			c.Check(ring.CheckFactors(q-1, cloneU(fs[1:])) != nil, "C19|ring.CheckFactors|accepted-invalid|incomplete-factor-list", func() string { return fmt.Sprintf("m=%d factors %v", q-1, fs[1:]) })
		}
		comp := append(cloneU(fs), fs[0]*fs[len(fs)-1])
		if fs[0]*fs[len(fs)-1] > fs[len(fs)-1] && !gen.IsPrime(fs[0]*fs[len(fs)-1]) {
			c.Check(ring.CheckFactors(q-1, comp) != nil, "C19|ring.CheckFactors|accepted-invalid|composite-factor", func() string { return fmt.Sprintf("m=%d factors %v", q-1, comp) })
			_, _, e := ring.PrimitiveRoot(q, comp)
			c.Check(e != nil, "C19|ring.PrimitiveRoot|accepted-invalid|composite-factor", func() string { return fmt.Sprintf("q=%d factors %v", q, comp) })
		}
		c.Check(ring.CheckFactors(q-1, cloneU(fs)) == nil, "C19|ring.CheckFactors|error-on-admissible", func() string { return fmt.Sprintf("m=%d factors %v", q-1, fs) })
		c.Check(ring.CheckPrimitiveRoot(g, q, cloneU(fs)) == nil, "C19|ring.CheckPrimitiveRoot|error-on-admissible", func() string { return fmt.Sprintf("g=%d q=%d", g, q) })
		// elements of Z_q^* that are not generators: squares, 1, q-1 (order 2), and a random one judged by the model
		for _, x := range []uint64{ref.MulMod(g, g, q), 1, q - 1, 1 + r.U64()%(q-1)} {
			want := isGenerator(x, q, fs)
			e := ring.CheckPrimitiveRoot(x, q, cloneU(fs))
			c.Check((e == nil) == want, "C19|ring.CheckPrimitiveRoot|wrong-answer", func() string {
				return fmt.Sprintf("CheckPrimitiveRoot(%d, %d, %v) = %v, generator: %v", x, q, fs, e, want)
			})
		}
		c.Eval(1)
	}
}

// runPlural: Next{Upstream,Downstream,Alternating}Primes(k) = k single calls on a fresh generator
// (values, and an error exactly when the singles run out).
func runPlural(c *eng.Ctx, lr int) {
	r := c.Rand()
	nth := uint64(1) << lr
	for b := lr; b <= 61; b++ {
		if b > lr+3 && b < 58 && r.N(3) != 0 {
			continue
		}
		for _, dir := range []string{"up", "down", "alt"} {
			k := eng.Pick(r, 1, 2, 3, 5, 9)
			if b <= lr+2 {
				k = eng.Pick(r, 1, 2, 4, 8, 16) // few primes exist: exhaustion inside the call
			}
			c.Distinct(fmt.Sprintf("plural|%s|%d|%d|%d", dir, lr, b, k), genNontrivial(b, lr, k))
			g1 := ring.NewNTTFriendlyPrimesGenerator(uint64(b), nth)
			g2 := ring.NewNTTFriendlyPrimesGenerator(uint64(b), nth)
			var want []uint64
			var werr error
			for i := 0; i < k && werr == nil; i++ {
				var x uint64
				switch dir {
				case "up":
					x, werr = g1.NextUpstreamPrime()
				case "down":
					x, werr = g1.NextDownstreamPrime()
				default:
					x, werr = g1.NextAlternatingPrime()
				}
				if werr == nil {
					want = append(want, x)
				}
			}
			var got []uint64
			var err error
			if p, pv := eng.Panics(func() {
				switch dir {
				case "up":
					got, err = g2.NextUpstreamPrimes(k)
				case "down":
					got, err = g2.NextDownstreamPrimes(k)
				default:
					got, err = g2.NextAlternatingPrimes(k)
				}
			}); p {
				c.Violate("C19|ring.NTTFriendlyPrimesGenerator|panic", fmt.Sprintf("bits=%d NthRoot=2^%d dir=%s k=%d: %v", b, lr, dir, k, pv), nil)
				continue
			}
			c.Count("plural_generator_calls", 1)
			if werr != nil {
				c.Count("errors_observed", 1)
				c.Check(err != nil, "C19|ring.NTTFriendlyPrimesGenerator|plural-call-hides-exhaustion", func() string {
					return fmt.Sprintf("bits=%d NthRoot=2^%d dir=%s k=%d: single calls give %v then %v, the plural call returns %v without error", b, lr, dir, k, want, werr, got)
				})
				continue
			}
			c.Check(err == nil && eqv(got, want), "C19|ring.NTTFriendlyPrimesGenerator|plural-differs-from-single-calls", func() string {
				return fmt.Sprintf("bits=%d NthRoot=2^%d dir=%s k=%d: %v (%v) vs %v", b, lr, dir, k, got, err, want)
			})
			ok := true
			seen := map[uint64]bool{}
			for _, x := range got {
				ok = ok && gen.IsPrime(x) && x%nth == 1 && halfBitWindow(x, b) && !seen[x]
				seen[x] = true
			}
			c.Check(ok, "C19|ring.NTTFriendlyPrimesGenerator|wrong-prime", func() string { return fmt.Sprintf("bits=%d NthRoot=2^%d dir=%s: %v", b, lr, dir, got) })
		}
	}
}
