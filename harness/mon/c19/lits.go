package c19

import (
	"fmt"
	"math"
	"math/big"
	"math/bits"
	"strings"

	"github.com/tuneinsight/lattigo/v6/core/rlwe"
	"github.com/tuneinsight/lattigo/v6/ring"
	"github.com/tuneinsight/lattigo/v6/schemes/bgv"
	"github.com/tuneinsight/lattigo/v6/schemes/ckks"

	"verif/harness/eng"
	"verif/harness/gen"
)

// documented limits (core/rlwe/params.go)
const (
	minLogN       = 4
	maxLogN       = 20
	maxModuliSize = 60
)

// dist is a JSON-able description of a distribution literal.
type dist struct {
	Kind  string  `json:"kind,omitempty"` // "" (unset) | tp | th | dg | uniform
	P     float64 `json:"p,omitempty"`
	H     int     `json:"h,omitempty"`
	Sigma float64 `json:"sigma,omitempty"`
	Bound float64 `json:"bound,omitempty"`
}

func (d dist) params() ring.DistributionParameters {
	switch d.Kind {
	case "tp":
		return ring.Ternary{P: d.P}
	case "th":
		return ring.Ternary{H: d.H}
	case "dg":
		return ring.DiscreteGaussian{Sigma: d.Sigma, Bound: d.Bound}
	case "uniform":
		return ring.Uniform{}
	}
	return nil
}

// lit is a scheme-independent description of a parameter literal (what the generator produces,
// what the reference validator judges and what is turned into the library's literal types).
type lit struct {
	Scheme     string   `json:"scheme"` // rlwe | bgv | ckks
	LogN       int      `json:"logN"`
	LogNthRoot int      `json:"logNthRoot,omitempty"`
	Q          []uint64 `json:"Q"`
	P          []uint64 `json:"P"`
	LogQ       []int    `json:"logQ"`
	LogP       []int    `json:"logP"`
	Xs         dist     `json:"xs"`
	Xe         dist     `json:"xe"`
	Ring       int      `json:"ring"`            // 0 standard, 1 conjugate invariant, other invalid
	NTT        bool     `json:"ntt"`             // rlwe only
	Scale      float64  `json:"scale,omitempty"` // rlwe only (0 = unset)
	T          uint64   `json:"t,omitempty"`     // bgv
	LogScale   int      `json:"logScale"`        // ckks
	Mut        string   `json:"mut"`             // what the generator did to the base literal
}

func (l lit) rlweLit() rlwe.ParametersLiteral {
	pl := rlwe.ParametersLiteral{LogN: l.LogN, LogNthRoot: l.LogNthRoot, Q: l.Q, P: l.P, LogQ: l.LogQ, LogP: l.LogP,
		RingType: ring.Type(l.Ring), NTTFlag: l.NTT}
	if x := l.Xs.params(); x != nil {
		pl.Xs = x
	}
	if x := l.Xe.params(); x != nil {
		pl.Xe = x
	}
	if l.Scale != 0 {
		pl.DefaultScale = rlwe.NewScale(l.Scale)
	}
	return pl
}

func (l lit) bgvLit() bgv.ParametersLiteral {
	pl := bgv.ParametersLiteral{LogN: l.LogN, LogNthRoot: l.LogNthRoot, Q: l.Q, P: l.P, LogQ: l.LogQ, LogP: l.LogP, PlaintextModulus: l.T}
	if x := l.Xs.params(); x != nil {
		pl.Xs = x
	}
	if x := l.Xe.params(); x != nil {
		pl.Xe = x
	}
	return pl
}

func (l lit) ckksLit() ckks.ParametersLiteral {
	pl := ckks.ParametersLiteral{LogN: l.LogN, LogNthRoot: l.LogNthRoot, Q: l.Q, P: l.P, LogQ: l.LogQ, LogP: l.LogP,
		RingType: ring.Type(l.Ring), LogDefaultScale: l.LogScale}
	if x := l.Xs.params(); x != nil {
		pl.Xs = x
	}
	if x := l.Xe.params(); x != nil {
		pl.Xe = x
	}
	return pl
}

// nthRoot of the ring the literal describes (2N standard, 4N conjugate invariant).
func (l lit) nthRoot() uint64 {
	if l.LogN < 0 || l.LogN > 60 {
		return 0
	}
	if l.Ring == 1 {
		return uint64(4) << l.LogN
	}
	return uint64(2) << l.LogN
}

// effLogNthRoot is the root order GenModuli is asked for (core/rlwe/params.go: max(LogN+1 or
// LogN+2, LogNthRoot)).
func (l lit) effLogNthRoot() int {
	b := l.LogN + 1
	if l.Ring == 1 {
		b = l.LogN + 2
	}
	if l.LogNthRoot > b {
		b = l.LogNthRoot
	}
	return b
}

// verdict of the reference validator.
type verdict struct {
	Bad  []string // stated requirements the literal violates: it must be refused with an error
	Gray []string // undocumented / contradictory territory: accept or refuse, but never panic, and sound if accepted
}

func (v verdict) mustReject() bool { return len(v.Bad) > 0 }
func (v verdict) mustAccept() bool { return len(v.Bad) == 0 && len(v.Gray) == 0 }

func validDist(d dist, n int, secret bool) (bad, gray string) {
	switch d.Kind {
	case "":
		return "", ""
	case "tp":
		if !(d.P > 0 && d.P <= 1) {
			return "", "ternary-density-outside-(0,1]"
		}
	case "th":
		if d.H < 1 || d.H > n {
			return "", "ternary-weight-outside-[1,N]"
		}
	case "dg":
		if !(d.Sigma > 0 && d.Bound >= 1) {
			return "", "gaussian-degenerate"
		}
	case "uniform":
		// core/rlwe/params.go: "distribution type must be Ternary or DiscretGaussian"
		if secret {
			return "xs-not-ternary-or-gaussian", ""
		}
		return "xe-not-ternary-or-gaussian", ""
	}
	return "", ""
}

// refValidate encodes the documented requirements on a literal, independently of the library
// (own primality test, own congruence / distinctness / size checks).
//
// Size of explicit primes: MaxModuliSize (60) is documented as the largest supported bit-length,
// LogP requests are accepted up to 61 and CheckModuli's code accepts bit lengths up to 62 (Q) and
// 63 (P) while its error text says 60. The validator therefore only calls a size "bad" where both
// documentation and code refuse it (Q >= 63 bits, P = 64 bits), calls Q <= 60 / P <= 61 bits
// "valid", and treats the sizes in between as gray: if the constructor accepts them the context
// must be sound (that is clause (a) of the property), if it refuses them that is fine.
func refValidate(l lit) verdict {
	var v verdict
	bad := func(s string) { v.Bad = append(v.Bad, s) }
	gray := func(s string) { v.Gray = append(v.Gray, s) }

	if l.LogN < minLogN {
		bad("logN-below-min")
	}
	if l.LogN > maxLogN {
		bad("logN-above-max")
	}
	if l.Q == nil && l.LogQ == nil {
		bad("Q-and-LogQ-unset")
	}
	if l.Q != nil && l.LogQ != nil {
		bad("Q-and-LogQ-both-set")
	}
	if l.P != nil && l.LogP != nil {
		bad("P-and-LogP-both-set")
	}
	if l.Ring != 0 && l.Ring != 1 {
		if l.Scheme == "bgv" {
			// bgv literals have no ring type
		} else {
			bad("ring-type-invalid")
		}
	}
	n := 0
	if l.LogN >= 0 && l.LogN <= 30 {
		n = 1 << l.LogN
	}
	if b, g := validDist(l.Xs, n, true); b != "" {
		bad(b)
	} else if g != "" {
		gray(g)
	}
	if b, g := validDist(l.Xe, n, false); b != "" {
		bad(b)
	} else if g != "" {
		gray(g)
	}
	nth := l.nthRoot()
	if l.Scheme == "bgv" && l.Ring != 0 {
		nth = uint64(2) << uint(max(0, min(l.LogN, 60)))
	}
	// explicit primes
	if l.Q != nil && l.LogQ == nil {
		if len(l.Q) == 0 {
			bad("Q-empty")
		}
	}
	seen := map[uint64]int{}
	check := func(name string, list []uint64, validBits, badBits int) {
		for _, q := range list {
			switch {
			case q < 2 || !gen.IsPrime(q):
				bad(name + "-not-prime")
			case nth != 0 && q%nth != 1:
				bad(name + "-not-1-mod-NthRoot")
			}
			bl := bits.Len64(q)
			if bl >= badBits {
				bad(name + "-too-large")
			} else if bl > validBits {
				gray(fmt.Sprintf("%s-bitlen-%d", name, bl))
			}
		}
	}
	if l.LogQ == nil {
		check("Q", l.Q, maxModuliSize, 63)
		for _, q := range l.Q {
			if seen[q]&1 != 0 {
				bad("Q-duplicate")
			}
			seen[q] |= 1
		}
	}
	if l.LogP == nil {
		check("P", l.P, maxModuliSize+1, 64)
		for _, p := range l.P {
			if seen[p]&2 != 0 {
				bad("P-duplicate")
			}
			if seen[p]&1 != 0 {
				bad("prime-shared-by-Q-and-P")
			}
			seen[p] |= 2
		}
	}
	// generated primes
	if l.LogQ != nil || l.LogP != nil {
		if l.effLogNthRoot() >= 62 {
			gray("root-order-too-large-for-any-prime")
		}
		for _, b := range l.LogQ {
			if b <= 0 || b > maxModuliSize {
				bad("LogQ-size-outside-[1,60]")
			}
		}
		for _, b := range l.LogP {
			if b <= 0 || b > maxModuliSize+1 {
				bad("LogP-size-outside-[1,61]")
			}
		}
		if l.LogQ != nil && len(l.LogQ) == 0 && l.Q == nil {
			bad("Q-empty")
		}
		if len(v.Bad) == 0 && l.effLogNthRoot() < 62 {
			// feasibility: enough primes 2^b +- k*NthRoot + 1 inside the half-bit window must exist
			need := map[int]int{}
			for _, b := range l.LogQ {
				need[b]++
			}
			for _, b := range l.LogP {
				need[b]++
			}
			for b, k := range need {
				if countCandidates(b, l.effLogNthRoot(), k+2) < k+2 {
					gray("size-request-barely-or-not-satisfiable")
					break
				}
			}
			// primes requested by size must also fit the ring the literal asks for
			if l.LogNthRoot != 0 && l.LogNthRoot > 40 {
				gray("huge-custom-root-order")
			}
		}
	}
	// scheme-level requirements
	switch l.Scheme {
	case "bgv":
		t := l.T
		switch {
		case t == 0:
			bad("t-zero")
		case t < 2 || !gen.IsPrime(t):
			bad("t-not-prime")
		case t%16 != 1:
			bad("t-cyclotomic-order-below-16")
		}
		if l.LogQ == nil && len(l.Q) > 0 && t != 0 {
			for _, q := range l.Q {
				if q == t {
					bad("t-divides-Q")
				}
			}
			if t > l.Q[0] {
				bad("t-larger-than-Q0")
			}
		}
		if l.LogQ != nil && t != 0 {
			// relation to the generated Q0 is only known after generation
			if len(l.LogQ) > 0 && bits.Len64(t) >= l.LogQ[0] {
				gray("t-close-to-generated-Q0")
			}
			for _, b := range l.LogQ {
				if b >= 1 && b <= 62 && halfBitWindow(t, b) {
					gray("t-may-equal-a-generated-prime")
					break
				}
			}
		}
	case "ckks":
		if l.LogScale > 128 {
			bad("LogDefaultScale-above-128")
		}
		if l.LogScale < 0 {
			gray("LogDefaultScale-negative")
		}
	case "rlwe":
		if l.Scale < 0 || math.IsNaN(l.Scale) || math.IsInf(l.Scale, 0) {
			gray("scale-not-finite-positive")
		}
	}
	return v
}

// candidate primes of GenModuli's documented form 2^b +- k*NthRoot + 1 with |log2 p - b| < 1/2
// (b = 61: downstream only, as GenModuli documents by its code), counted up to `want`.
func countCandidates(b, logNthRoot, want int) int {
	if b < 1 || b > 62 || logNthRoot < 1 || logNthRoot > 62 {
		return 0
	}
	nth := uint64(1) << logNthRoot
	base := uint64(1)<<b + 1
	if base%nth != 1 {
		return 0 // no number of that form is 1 mod NthRoot
	}
	cnt := 0
	inWin := func(p uint64) bool { return halfBitWindow(p, b) }
	if b != 61 {
		if gen.IsPrime(base) {
			cnt++
		}
		for p, i := base+nth, 0; cnt < want && p > base && inWin(p) && i < 200000; p, i = p+nth, i+1 {
			if gen.IsPrime(p) {
				cnt++
			}
		}
	}
	for p, i := base-nth, 0; cnt < want && p < base && p > nth && inWin(p) && i < 200000; p, i = p-nth, i+1 {
		if gen.IsPrime(p) {
			cnt++
		}
	}
	return cnt
}

// halfBitWindow: |log2 p - b| < 1/2, decided exactly: 2^(2b-1) < p^2 < 2^(2b+1).
func halfBitWindow(p uint64, b int) bool {
	sq := new(big.Int).SetUint64(p)
	sq.Mul(sq, sq)
	lo := new(big.Int).Lsh(big.NewInt(1), uint(2*b-1))
	hi := new(big.Int).Lsh(big.NewInt(1), uint(2*b+1))
	return sq.Cmp(lo) > 0 && sq.Cmp(hi) < 0
}

// ---------------------------------------------------------------------------------------------
// generation

var secretKinds = []dist{{}, {Kind: "tp", P: 2.0 / 3}, {Kind: "tp", P: 0.5}, {Kind: "th", H: 0 /* set later */}, {Kind: "dg", Sigma: 3.2, Bound: 19.2}}
var errorKinds = []dist{{}, {Kind: "dg", Sigma: 3.2, Bound: 19.2}, {Kind: "dg", Sigma: 1.5, Bound: 6}, {Kind: "tp", P: 0.5}, {Kind: "th", H: 0}}

// bit sizes the generator favours: the smallest sizes a ring admits, machine-word boundaries and
// the acceptance boundary around MaxModuliSize.
var qSizes = []int{20, 25, 30, 31, 32, 33, 36, 40, 45, 50, 55, 58, 59, 60}
var pSizes = []int{30, 36, 45, 55, 59, 60, 61}

func pickDist(r *eng.Rand, kinds []dist, logN int) dist {
	d := eng.Pick(r, kinds...)
	if d.Kind == "th" {
		n := 1 << logN
		d.H = eng.Pick(r, 1, 2, n/4, n/2, n-1, n, 1+r.N(n))
		if d.H < 1 {
			d.H = 1
		}
	}
	return d
}

// baseLit draws a literal that satisfies every documented requirement, with explicit primes.
func baseLit(r *eng.Rand, scheme string, logNs []int) (lit, bool) {
	l := lit{Scheme: scheme, Mut: "none"}
	l.LogN = eng.Pick(r, logNs...)
	if scheme != "bgv" && r.N(3) == 0 {
		l.Ring = 1
	}
	nth := l.nthRoot()
	minBits := bits.Len64(nth) + 1
	nq := 1 + r.N(4)
	np := r.N(3)
	skip := map[uint64]bool{}
	pickSize := func(set []int) int {
		b := eng.Pick(r, set...)
		if r.N(5) == 0 {
			b = minBits + r.N(3)
		}
		if b < minBits {
			b = minBits
		}
		return b
	}
	for i := 0; i < nq; i++ {
		pr := gen.Primes(pickSize(qSizes), nth, 1, r.N(4), skip)
		if len(pr) == 0 {
			continue
		}
		l.Q = append(l.Q, pr[0])
	}
	if len(l.Q) == 0 {
		return l, false
	}
	for i := 0; i < np; i++ {
		pr := gen.Primes(pickSize(pSizes), nth, 1, r.N(4), skip)
		if len(pr) == 0 {
			continue
		}
		l.P = append(l.P, pr[0])
	}
	l.Xs = pickDist(r, secretKinds, l.LogN)
	l.Xe = pickDist(r, errorKinds, l.LogN)
	switch scheme {
	case "rlwe":
		l.NTT = r.Bool()
		l.Scale = eng.Pick(r, 0, 1, 1<<30, 12345.678, math.Exp2(45))
	case "bgv":
		l.T = pickT(r, l, "valid")
		if l.T == 0 {
			return l, false
		}
	case "ckks":
		l.LogScale = eng.Pick(r, 0, 10, 20, 30, 40, 45, 55, 60, 64, 65, 90, 128)
	}
	return l, true
}

// pickT draws a plaintext modulus of the requested class relative to l.Q.
func pickT(r *eng.Rand, l lit, class string) uint64 {
	q0 := l.Q[0]
	inQ := func(t uint64) bool {
		for _, q := range l.Q {
			if q == t {
				return true
			}
		}
		return false
	}
	switch class {
	case "valid":
		// prime, = 1 mod 16 (any cyclotomic order >= 16, below, equal or above 2N), < Q0, not in Q
		for try := 0; try < 50; try++ {
			var t uint64
			switch r.N(6) {
			case 0:
				t = eng.Pick(r, uint64(17), 97, 193, 257, 65537, 786433)
			case 1: // order exactly 16 or 32: fewer slots than N
				ord := uint64(16) << r.N(2)
				t = firstPrime(ord+1+ord*2*uint64(r.N(50)), 2*ord, func(p uint64) bool { return p%(2*ord) == ord+1 })
			case 2: // largest admissible below Q0
				t = prevPrime(q0-1, 16)
			case 3: // NTT friendly for the full ring
				pr := gen.Primes(min(bits.Len64(q0)-1, 16+r.N(20)), uint64(2)<<l.LogN, 1, r.N(4), nil)
				if len(pr) > 0 {
					t = pr[0]
				}
			default:
				t = firstPrime(17+16*(r.U64()%(uint64(1)<<uint(10+r.N(20)))), 16, nil)
			}
			if t >= 17 && t < q0 && !inQ(t) && t%16 == 1 && gen.IsPrime(t) {
				return t
			}
		}
		return 0
	}
	return 0
}

// firstPrime returns the first prime on the progression start, start+step, ... that satisfies extra.
func firstPrime(start, step uint64, extra func(uint64) bool) uint64 {
	for i, p := 0, start; i < 100000; i, p = i+1, p+step {
		if gen.IsPrime(p) && (extra == nil || extra(p)) {
			return p
		}
	}
	return 0
}

func prevPrime(start, mod uint64) uint64 {
	p := start - start%mod + 1
	if p > start {
		p -= mod
	}
	for i := 0; i < 100000 && p > mod; i, p = i+1, p-mod {
		if gen.IsPrime(p) {
			return p
		}
	}
	return 0
}

func cloneU(a []uint64) []uint64 {
	if a == nil {
		return nil
	}
	return append([]uint64{}, a...)
}

// mutations: each returns a variant of a valid explicit-prime literal; the expectation is NOT
// taken from the mutator but from refValidate on the result.
var mutations = []string{
	"none", "none", "none",
	"logN-1", "logN+1", "logN-min-1", "logN-max+1", "logN-neg", "logN-0",
	"q-dup", "p-dup", "qp-dup",
	"q-composite", "p-composite", "q-semiprime-ntt", "q-one", "q-zero", "q-two", "q-even",
	"q-prime-not-ntt", "q-prime-half-root", "p-prime-half-root", "q-wrong-ring-root",
	"q-61bit", "q-62bit", "q-63bit", "q-64bit", "p-61bit", "p-62bit", "p-63bit", "p-64bit",
	"q-min-size", "q-empty", "q-nil", "p-empty", "q-and-logq", "p-and-logp",
	"ring-invalid", "xs-uniform", "xe-uniform",
	"logq", "logq", "logq", "logq-custom-root", "logq-size-0", "logq-size-neg", "logq-size-61", "logq-size-64", "logp-size-62", "logq-small", "logq-many",
	"scheme", "scheme", "scheme", "scheme",
}

func mutate(r *eng.Rand, l lit, m string) lit {
	l.Q, l.P = cloneU(l.Q), cloneU(l.P)
	l.Mut = m
	nth := l.nthRoot()
	iq := r.N(len(l.Q))
	ensureP := func() {
		if len(l.P) == 0 {
			pr := gen.Primes(40, nth, 1, gen.PosAbove, map[uint64]bool{})
			for _, q := range l.Q {
				if len(pr) > 0 && pr[0] == q {
					pr = gen.Primes(41, nth, 1, gen.PosAbove, nil)
				}
			}
			l.P = pr
		}
	}
	sized := func(b int) uint64 {
		pr := gen.Primes(b, nth, 1, eng.Pick(r, gen.PosBelow, gen.PosAbove, gen.PosMid13, gen.PosMid19), nil)
		if len(pr) == 0 {
			return 0
		}
		return pr[0]
	}
	switch m {
	case "none":
	case "logN-1":
		l.LogN--
	case "logN+1":
		l.LogN++
	case "logN-min-1":
		l.LogN = minLogN - 1
	case "logN-max+1":
		l.LogN = maxLogN + 1
	case "logN-neg":
		l.LogN = -1 - r.N(70)
	case "logN-0":
		l.LogN = 0
	case "q-dup":
		l.Q = append(l.Q, l.Q[iq])
	case "p-dup":
		ensureP()
		if len(l.P) > 0 {
			l.P = append(l.P, l.P[0])
		}
	case "qp-dup":
		if r.Bool() || len(l.P) == 0 {
			l.P = append(l.P, l.Q[iq])
		} else {
			l.P[r.N(len(l.P))] = l.Q[iq]
		}
	case "q-composite":
		l.Q[iq] += nth // = 1 mod NthRoot, almost surely composite (validator decides)
	case "p-composite":
		ensureP()
		if len(l.P) > 0 {
			l.P[0] += 2 * nth
		}
	case "q-semiprime-ntt":
		// product of two NTT-friendly primes: = 1 mod NthRoot, passes a Fermat-style sanity check badly done
		a := gen.Primes(bits.Len64(nth)+2, nth, 2, gen.PosAbove, nil)
		if len(a) == 2 && bits.Len64(a[0])+bits.Len64(a[1]) < 60 {
			l.Q[iq] = a[0] * a[1]
		}
	case "q-one":
		l.Q[iq] = 1
	case "q-zero":
		l.Q[iq] = 0
	case "q-two":
		l.Q[iq] = 2
	case "q-even":
		l.Q[iq] = l.Q[iq] + 1
	case "q-prime-not-ntt":
		l.Q[iq] = firstPrime(l.Q[iq]+2, 2, func(p uint64) bool { return p%nth != 1 })
	case "q-prime-half-root":
		// = 1 mod NthRoot/2 but not mod NthRoot: the root order of a ring of half the degree
		l.Q[iq] = firstPrime(nth/2+1+nth*(1+r.U64()%(1<<20)), nth, nil)
	case "p-prime-half-root":
		ensureP()
		if len(l.P) > 0 {
			l.P[0] = firstPrime(nth/2+1+nth*(1+r.U64()%(1<<30)), nth, nil)
		}
	case "q-wrong-ring-root":
		// primes fit for the other ring type: standard ring primes (1 mod 2N, not 4N) in a conjugate
		// invariant literal; for a standard literal the ring type is switched instead
		if l.Scheme == "bgv" {
			l.Q[iq] = firstPrime(nth/2+1+nth*(1+r.U64()%(1<<20)), nth, nil)
		} else if l.Ring == 1 {
			l.Q[iq] = firstPrime(nth/2+1+nth*(1+r.U64()%(1<<25)), nth, nil)
		} else {
			l.Ring = 1 // the primes are 1 mod 2N; they would need to be 1 mod 4N (validator decides)
		}
	case "q-61bit", "q-62bit", "q-63bit", "q-64bit":
		b := int(m[2]-'0')*10 + int(m[3]-'0')
		if b == 64 {
			l.Q[iq] = firstPrime((uint64(1)<<63)+1+nth*(r.U64()%(1<<20)), nth, nil)
		} else if v := sized(b); v != 0 {
			l.Q[iq] = v
		}
	case "p-61bit", "p-62bit", "p-63bit", "p-64bit":
		b := int(m[2]-'0')*10 + int(m[3]-'0')
		var v uint64
		if b == 64 {
			v = firstPrime((uint64(1)<<63)+1+nth*(r.U64()%(1<<20)), nth, nil)
		} else {
			v = sized(b)
		}
		if v != 0 {
			if len(l.P) == 0 {
				l.P = []uint64{v}
			} else {
				l.P[r.N(len(l.P))] = v
			}
		}
	case "q-min-size":
		// the smallest primes the ring admits (q = k*NthRoot + 1 for the first k)
		l.Q[iq] = firstPrime(nth+1, nth, func(p uint64) bool {
			for j, q := range l.Q {
				if j != iq && q == p {
					return false
				}
			}
			for _, q := range l.P {
				if q == p {
					return false
				}
			}
			return true
		})
		if l.Scheme == "bgv" && iq == 0 {
			l.T = 0
			for _, t := range []uint64{17, 97, 113, 193} {
				if t < l.Q[0] {
					l.T = t
				}
			}
			if l.T == 0 {
				l.T = 17 // validator: t > Q0
			}
		}
	case "q-empty":
		l.Q = []uint64{}
	case "q-nil":
		l.Q = nil
	case "p-empty":
		l.P = []uint64{}
	case "q-and-logq":
		l.LogQ = []int{30}
	case "p-and-logp":
		ensureP()
		l.LogP = []int{40}
	case "ring-invalid":
		l.Ring = eng.Pick(r, 2, 3, -1, 255)
	case "xs-uniform":
		l.Xs = dist{Kind: "uniform"}
	case "xe-uniform":
		l.Xe = dist{Kind: "uniform"}
	case "logq", "logq-custom-root", "logq-size-0", "logq-size-neg", "logq-size-61", "logq-size-64", "logp-size-62", "logq-small", "logq-many":
		l = mutateLogQ(r, l, m)
	case "scheme":
		l = mutateScheme(r, l, "")
	default:
		if strings.HasPrefix(m, "scheme/") {
			l = mutateScheme(r, l, strings.TrimPrefix(m, "scheme/"))
		}
	}
	return l
}

// mutateLogQ replaces the explicit primes by size requests.
func mutateLogQ(r *eng.Rand, l lit, m string) lit {
	nq, np := len(l.Q), len(l.P)
	l.Q, l.P = nil, nil
	eff := l.effLogNthRoot()
	if m == "logq-custom-root" {
		l.LogNthRoot = l.LogN + 1 + r.N(6)
		if l.Scheme == "rlwe" && r.N(4) == 0 {
			l.LogNthRoot = eng.Pick(r, 17, 20, 24, 33) // above some requested sizes (Fermat seeds 2^16+1, ...)
		}
		eff = l.effLogNthRoot()
	}
	lo := eff + 1
	if l.Scheme == "rlwe" && r.N(3) == 0 {
		lo = max(1, eff-3) // sizes for which no or few primes exist
	}
	size := func(maxb int) int {
		b := lo + r.N(max(1, maxb-lo+1))
		if r.N(3) == 0 {
			b = eng.Pick(r, maxb, maxb-1, lo, lo+1, 16, 32, 33)
		}
		if l.Scheme != "rlwe" && b < eff+1 {
			b = eff + 1
		}
		return max(1, min(b, maxb))
	}
	if m == "logq-many" {
		nq, np = 6+r.N(6), 3
		b := size(60)
		for i := 0; i < nq; i++ {
			l.LogQ = append(l.LogQ, b) // many primes of one size: alternation up/down, distinctness
		}
		for i := 0; i < np; i++ {
			l.LogP = append(l.LogP, eng.Pick(r, b, 61, b+1))
		}
		for i := range l.LogP {
			l.LogP[i] = min(l.LogP[i], 61)
		}
	} else {
		for i := 0; i < nq; i++ {
			l.LogQ = append(l.LogQ, size(60))
		}
		for i := 0; i < np; i++ {
			l.LogP = append(l.LogP, size(61))
		}
	}
	switch m {
	case "logq-size-0":
		l.LogQ[r.N(len(l.LogQ))] = 0
	case "logq-size-neg":
		l.LogQ[r.N(len(l.LogQ))] = -1 - r.N(64)
	case "logq-size-61":
		l.LogQ[r.N(len(l.LogQ))] = 61
	case "logq-size-64":
		l.LogQ[r.N(len(l.LogQ))] = eng.Pick(r, 62, 63, 64, 65, 128)
	case "logp-size-62":
		l.LogP = append(l.LogP, eng.Pick(r, 62, 63, 64, 0, -3))
	case "logq-small":
		l.LogQ[r.N(len(l.LogQ))] = 1 + r.N(eff+1)
	}
	if l.Scheme == "bgv" {
		// keep t below the smallest possible generated Q0 unless the mutation is about sizes
		if len(l.LogQ) > 0 && l.LogQ[0] >= 6 && l.LogQ[0] <= 60 {
			t := prevPrime(uint64(1)<<(l.LogQ[0]-1)-1, 16)
			if r.Bool() && l.LogQ[0] > 18 {
				t = eng.Pick(r, uint64(65537), 97, 257, 786433)
				if bits.Len64(t) >= l.LogQ[0] {
					t = 97
				}
			}
			if t != 0 {
				l.T = t
			}
		}
	}
	return l
}

// mutateScheme applies a scheme-level mutation (plaintext modulus / default scale).
var bgvClasses = []string{"t-zero", "t-in-Q0", "t-in-Qi", "t-above-Q0", "t-just-above-Q0", "t-composite", "t-order-2", "t-order-4", "t-order-8", "t-pow2", "t-one", "t-even", "t-max-valid", "t-in-P", "t-order-16", "t-half-Q0"}
var ckksScales = []int{129, 130, 200, 1023, 1024, 2000, -1, -40, 128, 127}

// schemeClasses lists the scheme-level mutation classes of a scheme (for the systematic part).
func schemeClasses(scheme string) []string {
	switch scheme {
	case "bgv":
		return bgvClasses
	case "ckks":
		var o []string
		for _, s := range ckksScales {
			o = append(o, fmt.Sprintf("logscale%d", s))
		}
		return o
	}
	return []string{"scale"}
}

func mutateScheme(r *eng.Rand, l lit, class string) lit {
	switch l.Scheme {
	case "bgv":
		c := class
		if c == "" {
			c = eng.Pick(r, bgvClasses...)
		}
		l.Mut = "scheme/" + c
		if c == "t-in-Qi" {
			// a prime of Q other than Q[0] and below it (so that only the t|Q rule can refuse it)
			if len(l.Q) < 2 {
				if pr := gen.Primes(bits.Len64(l.Q[0])-1, l.nthRoot(), 1, gen.PosBelow, map[uint64]bool{l.Q[0]: true}); len(pr) > 0 {
					l.Q = append(l.Q, pr[0])
				}
			}
			mi := 0
			for i, q := range l.Q {
				if q > l.Q[mi] {
					mi = i
				}
			}
			l.Q[0], l.Q[mi] = l.Q[mi], l.Q[0]
		}
		q0 := l.Q[0]
		switch c {
		case "t-zero":
			l.T = 0
		case "t-in-Q0":
			l.T = l.Q[0]
		case "t-in-Qi":
			l.T = l.Q[len(l.Q)-1-r.N(max(1, len(l.Q)-1))]
		case "t-half-Q0":
			// between Q0/2 and Q0
			l.T = firstPrime(q0/2+16-(q0/2)%16+1, 16, nil)
		case "t-above-Q0":
			l.T = firstPrime(q0+16-(q0%16)+1+16*(r.U64()%(1<<16)), 16, nil)
		case "t-just-above-Q0":
			l.T = firstPrime(q0+2, 2, func(p uint64) bool { return p%16 == 1 })
		case "t-composite":
			l.T = 17 * 97
			if l.T >= q0 {
				l.T = 0
			}
			if l.T%16 != 1 {
				l.T = 17 * 113 // 1921 = 1 mod 16
			}
		case "t-order-2":
			l.T = firstPrime(3+4*(r.U64()%1000), 4, nil) // = 3 mod 4
		case "t-order-4":
			l.T = firstPrime(5+8*(r.U64()%1000), 8, nil)
		case "t-order-8":
			l.T = firstPrime(9+16*(r.U64()%1000), 16, func(p uint64) bool { return p%16 == 9 })
		case "t-pow2":
			l.T = uint64(1) << (4 + r.N(12))
		case "t-one":
			l.T = 1
		case "t-even":
			l.T = 65538
		case "t-max-valid":
			l.T = prevPrime(q0-1, 16)
		case "t-order-16":
			l.T = firstPrime(17+32*(r.U64()%64), 32, nil)
		case "t-in-P":
			if len(l.P) == 0 {
				pr := gen.Primes(bits.Len64(q0)-1, l.nthRoot(), 1, gen.PosBelow, nil)
				if len(pr) > 0 && pr[0] < q0 {
					l.P = pr
				}
			}
			if len(l.P) > 0 {
				l.T = l.P[0]
			}
		}
	case "ckks":
		l.LogScale = eng.Pick(r, ckksScales...)
		if class != "" {
			fmt.Sscanf(class, "logscale%d", &l.LogScale)
		}
		l.Mut = fmt.Sprintf("scheme/logscale%d", l.LogScale)
	default:
		l.Scale = eng.Pick(r, 0.5, 1e-9, math.Exp2(127), math.Exp2(200), 3)
		l.Mut = "scheme/scale"
	}
	return l
}
