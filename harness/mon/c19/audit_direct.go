package c19

// Coverage-audit extension: the constructors that take checked arguments instead of a literal
// (rlwe.NewParameters, bgv.NewParameters, rlwe.CheckModuli), differentially against the literal
// constructors and against the reference validator; accessors of the anchor files that no other
// case calls; parameter objects obtained through an encoding or a conversion instead of a
// constructor (they must be as usable as the original); the bootstrapping literal's getters and
// its BitConsumption estimate.

import (
	"encoding/json"
	"fmt"
	"math"
	"math/big"
	"math/bits"
	"reflect"

	"github.com/tuneinsight/lattigo/v6/circuits/ckks/bootstrapping"
	"github.com/tuneinsight/lattigo/v6/circuits/ckks/mod1"
	"github.com/tuneinsight/lattigo/v6/core/rlwe"
	"github.com/tuneinsight/lattigo/v6/ring"
	"github.com/tuneinsight/lattigo/v6/schemes/bgv"
	"github.com/tuneinsight/lattigo/v6/schemes/ckks"
	"github.com/tuneinsight/lattigo/v6/utils"

	"verif/harness/eng"
	"verif/harness/gen"
	"verif/harness/obs"
)

func directCases(tier string, seed int64) []eng.Case {
	n := 8
	if tier == "thorough" {
		n = 40
	}
	var out []eng.Case
	for i := 0; i < n; i++ {
		i := i
		out = append(out, eng.Case{ID: fmt.Sprintf("direct/rlwe/%02d", i), Sig: "C19|rlwe.NewParameters", Desc: map[string]int{"batch": i}, Run: func(c *eng.Ctx) { runDirectRLWE(c, i) }})
		out = append(out, eng.Case{ID: fmt.Sprintf("direct/bgv/%02d", i), Sig: "C19|bgv.NewParameters", Desc: map[string]int{"batch": i}, Run: func(c *eng.Ctx) { runDirectBGV(c, i) }})
	}
	for i := 0; i < n/2; i++ {
		i := i
		out = append(out, eng.Case{ID: fmt.Sprintf("direct/ckks/%02d", i), Sig: "C19|ckks.Parameters|derived", Desc: map[string]int{"batch": i}, Run: func(c *eng.Ctx) { runDirectCKKS(c, i) }})
		out = append(out, eng.Case{ID: fmt.Sprintf("bootlit/bitconsumption/%02d", i), Sig: "C19|bootstrapping.ParametersLiteral.BitConsumption", Desc: map[string]int{"batch": i}, Run: func(c *eng.Ctx) { runBitConsumption(c, i) }})
	}
	out = append(out, eng.Case{ID: "bootlit/getters", Sig: "C19|bootstrapping.ParametersLiteral", Desc: "defaults and refusals of the literal's getters", Run: runBootGetters})
	out = append(out, eng.Case{ID: "ringc/type-json", Sig: "C19|ring.Type", Desc: "ring.Type <-> JSON", Run: ringTypeCase})
	return out
}

// mutations of an explicit-prime literal that keep it expressible as arguments of rlwe.NewParameters
var directMutations = []string{"none", "none", "logN-1", "logN+1", "logN-min-1", "logN-max+1", "logN-neg", "logN-0", "q-dup", "p-dup", "qp-dup",
	"q-composite", "p-composite", "q-semiprime-ntt", "q-one", "q-zero", "q-two", "q-even", "q-prime-not-ntt", "q-prime-half-root", "p-prime-half-root",
	"q-wrong-ring-root", "q-61bit", "q-62bit", "q-63bit", "q-64bit", "p-61bit", "p-62bit", "p-63bit", "p-64bit", "q-min-size", "q-empty", "q-nil", "p-empty",
	"ring-invalid", "xs-uniform", "xe-uniform", "none"}

func (l lit) directArgs() (xs, xe rlwe.DistributionLiteral, scale rlwe.Scale) {
	xs, xe = rlwe.DefaultXs, rlwe.DefaultXe
	if x := l.Xs.params(); x != nil {
		xs = x
	}
	if x := l.Xe.params(); x != nil {
		xe = x
	}
	scale = rlwe.NewScale(1)
	if l.Scale != 0 {
		scale = rlwe.NewScale(l.Scale)
	}
	return
}

func isEmptyRLWE(p rlwe.Parameters) bool {
	return p.RingQ() == nil && p.RingP() == nil && len(p.Q()) == 0 && len(p.P()) == 0 && p.LogN() == 0
}

func runDirectRLWE(c *eng.Ctx, batch int) {
	r := c.Rand()
	entry := "C19|rlwe.NewParameters|"
	var st litStats
	sampled := false
	for rep := 0; rep < 12; rep++ {
		base, ok := baseLit(r, "rlwe", []int{4, 4, 5, 6, 7, 8, 9, 10})
		if !ok {
			continue
		}
		m := directMutations[(batch*12+rep)%len(directMutations)]
		if m == "none" {
			// level-dependent accessors (MaxBit, PiOverflowMargin, ...) need chains whose largest prime is not the first
			for len(base.P) < 2 {
				skip := map[uint64]bool{}
				for _, q := range append(cloneU(base.Q), base.P...) {
					skip[q] = true
				}
				pr := gen.Primes(eng.Pick(r, 45, 55, 61)-8*len(base.P), base.nthRoot(), 1, r.N(4), skip)
				if len(pr) == 0 {
					break
				}
				base.P = append(cloneU(base.P), pr[0])
			}
			if len(base.P) >= 2 && base.P[0] > base.P[1] {
				base.P = cloneU(base.P)
				base.P[0], base.P[1] = base.P[1], base.P[0]
			}
			if len(base.Q) >= 2 && base.Q[0] > base.Q[len(base.Q)-1] {
				base.Q = cloneU(base.Q)
				base.Q[0], base.Q[len(base.Q)-1] = base.Q[len(base.Q)-1], base.Q[0]
			}
		}
		l := mutate(r, base, m)
		if l.LogQ != nil || l.LogP != nil {
			continue
		}
		l.Mut = "direct/" + m
		v := refValidate(l)
		key, _ := l.key()
		c.Distinct(key, true)
		c.Count("direct_constructor_calls", 1)
		xs, xe, scale := l.directArgs()
		var p1, p2 rlwe.Parameters
		var e1, e2 error
		if pn, pv := eng.Panics(func() { p1, e1 = rlwe.NewParameters(l.LogN, l.Q, l.P, xs, xe, ring.Type(l.Ring), scale, l.NTT) }); pn {
			cls := "valid-arguments"
			if len(v.Bad) > 0 {
				cls = v.Bad[0]
			} else if len(v.Gray) > 0 {
				cls = v.Gray[0]
			}
			c.Violate(entry+"panic|"+cls, fmt.Sprintf("panic instead of an error: %v; arguments violate %v", pv, v.Bad), l)
			continue
		}
		if pn, _ := eng.Panics(func() { p2, e2 = rlwe.NewParametersFromLiteral(l.rlweLit()) }); pn {
			continue // judged by the lit/* cases
		}
		c.Eval(2)
		// rlwe.CheckModuli on the same lists: refuses what is not prime or beyond the supported size, nothing else
		cm := rlwe.CheckModuli(l.Q, l.P)
		np, tooBig, grayBig := false, false, false
		for _, q := range l.Q {
			np = np || !gen.IsPrime(q)
			tooBig = tooBig || bits.Len64(q) >= 63
			grayBig = grayBig || bits.Len64(q) > maxModuliSize
		}
		for _, q := range l.P {
			np = np || !gen.IsPrime(q)
			tooBig = tooBig || bits.Len64(q) >= 64
			grayBig = grayBig || bits.Len64(q) > maxModuliSize+1
		}
		switch {
		case np:
			c.Check(cm != nil, "C19|rlwe.CheckModuli|accepted-invalid|not-prime", func() string { return fmt.Sprintf("CheckModuli(%v, %v) = nil", l.Q, l.P) })
		case tooBig:
			c.Check(cm != nil, "C19|rlwe.CheckModuli|accepted-invalid|too-large", func() string { return fmt.Sprintf("CheckModuli(%v, %v) = nil", l.Q, l.P) })
		case !grayBig:
			c.Check(cm == nil, "C19|rlwe.CheckModuli|error-on-admissible", func() string { return fmt.Sprintf("CheckModuli(%v, %v) = %v", l.Q, l.P, cm) })
		}
		if !sampled && m != "none" {
			sampled = true
			c.Sample(map[string]any{"kind": "direct-constructor", "arguments": l, "verdict": v, "error": fmt.Sprint(e1)})
		}
		c.Check((e1 == nil) == (e2 == nil), entry+"differs-from-literal-constructor|"+m, func() string {
			return fmt.Sprintf("NewParameters: %v; NewParametersFromLiteral on the same values: %v", e1, e2)
		})
		if e1 != nil {
			c.Count("errors_observed", 1)
			c.Check(isEmptyRLWE(p1), entry+"error-with-non-empty-parameters|"+m, func() string { return fmt.Sprintf("error %v, but Q()=%v ring set: %v", e1, p1.Q(), p1.RingQ() != nil) })
			if v.mustAccept() {
				c.Violate(entry+"error-on-admissible|"+m, fmt.Sprintf("arguments satisfy every documented requirement but are refused: %v", e1), l)
			}
			continue
		}
		if v.mustReject() {
			c.Violate(entry+"accepted-invalid|"+v.Bad[0], fmt.Sprintf("arguments violate %v but are accepted", v.Bad), l)
			continue
		}
		c.Count("direct_constructor_accepted", 1)
		if e2 == nil {
			dd := diffRLWE(p1, p2)
			c.Check(dd == "" && p1.Equal(&p2), entry+"not-equal-to-literal-constructor", func() string { return dd })
		}
		if len(v.Gray) > 0 {
			continue // sizes between documentation and code: judged by lit/*
		}
		derivedRLWE(c, l, p1, r)
		derivedExtra(c, l, p1, r)
		// objects that do not come from a constructor call: JSON into a used receiver, binary, the
		// literal of the object, the standard dual of a conjugate-invariant set: they must describe
		// the same context and must be as usable
		alt := map[string]rlwe.Parameters{}
		if js, err := json.Marshal(p1); err == nil {
			q := dirtyRLWE()
			if json.Unmarshal(js, &q) == nil {
				alt["JSON-into-used-receiver"] = q
			}
		}
		if bin, err := p1.MarshalBinary(); err == nil {
			var q rlwe.Parameters
			if q.UnmarshalBinary(bin) == nil {
				alt["binary"] = q
			}
		}
		if q, err := rlwe.NewParametersFromLiteral(p1.ParametersLiteral()); err == nil {
			alt["ParametersLiteral"] = q
		}
		alt["GetRLWEParameters"] = *p1.GetRLWEParameters()
		for _, name := range []string{"JSON-into-used-receiver", "binary", "ParametersLiteral", "GetRLWEParameters"} {
			q, ok := alt[name]
			if !ok {
				continue // decode errors are judged by rt/*
			}
			c.Count("derived_objects_exercised", 1)
			if dd := diffRLWE(p1, q); dd != "" {
				c.Violate("C19|rlwe.Parameters|"+name+"|not-equal", dd, l)
				continue
			}
			derivedRLWE(c, l, q, r)
			if name != "GetRLWEParameters" || rep%4 == 0 {
				for _, f := range soundRLWE(q, r, &st.sound) {
					c.Violate("C19|rlwe.Parameters|"+name+"|decoded-object-unsound|"+f.Check, f.Detail, l)
				}
				c.Eval(1)
			}
		}
		if l.Ring == 1 {
			if sp, err := p1.StandardParameters(); err == nil {
				c.Count("derived_objects_exercised", 1)
				for _, f := range soundRLWE(sp, r, &st.sound) {
					c.Violate("C19|rlwe.Parameters.StandardParameters|accepted-unsound|"+f.Check, f.Detail, l)
				}
				c.Eval(1)
			}
		}
		// documented way to obtain a noiseless instance: NewParameters with a zero error distribution
		if rep%3 == 0 {
			noiseless(c, l, r)
		}
		// distribution arguments of other types must be refused with an error
		if rep%4 == 1 {
			for _, bad := range []struct {
				name string
				v    rlwe.DistributionLiteral
			}{{"nil", nil}, {"uniform", ring.Uniform{}}, {"pointer", &ring.Ternary{P: 0.5}}, {"string", "ternary"}, {"int", 3}} {
				for _, which := range []string{"xs", "xe"} {
					a, b := xs, xe
					if which == "xs" {
						a = bad.v
					} else {
						b = bad.v
					}
					var p rlwe.Parameters
					var err error
					pn, pv := eng.Panics(func() { p, err = rlwe.NewParameters(l.LogN, l.Q, l.P, a, b, ring.Type(l.Ring), scale, l.NTT) })
					c.Check(!pn, entry+"panic|"+which+"-not-ternary-or-gaussian", func() string { return fmt.Sprintf("%s = %T: %v", which, bad.v, pv) })
					c.Check(pn || (err != nil && isEmptyRLWE(p)), entry+"accepted-invalid|"+which+"-not-ternary-or-gaussian", func() string { return fmt.Sprintf("%s = %T (%v) accepted", which, bad.v, bad.v) })
				}
			}
		}
	}
	c.Count("ring_arithmetic_checks", int64(st.sound.ringOps))
	c.Count("noise_measurements", int64(st.sound.encDec))
}

// noiseless: core/rlwe/params.go documents "Users should use the NewParameters method to explicitly
// create noiseless instances": such an instance must be returned (possibly with a warning), and a
// secret-key encryption under it decrypts to the plaintext exactly.
func noiseless(c *eng.Ctx, l lit, r *eng.Rand) {
	entry := "C19|rlwe.NewParameters|noiseless-instance|"
	xs, _, scale := l.directArgs()
	var p rlwe.Parameters
	var err error
	if pn, pv := eng.Panics(func() {
		p, err = rlwe.NewParameters(l.LogN, l.Q, l.P, xs, ring.DiscreteGaussian{}, ring.Type(l.Ring), scale, l.NTT)
	}); pn {
		c.Violate(entry+"panic", fmt.Sprint(pv), l)
		return
	}
	c.Count("noiseless_instances", 1)
	if !c.Check(!isEmptyRLWE(p) && p.RingQ() != nil, entry+"not-returned", func() string { return fmt.Sprintf("empty parameters returned (%v)", err) }) {
		return
	}
	if pn, pv := eng.Panics(func() {
		kgen := rlwe.NewKeyGenerator(p)
		sk := kgen.GenSecretKeyNew()
		level := p.MaxLevel()
		pt := rlwe.NewPlaintext(p, level)
		for i, q := range p.Q() {
			copy(pt.Value.Coeffs[i], gen.Vec(r, p.N(), q-1, eng.Pick(r, gen.PatUniform, gen.PatTop), 0))
		}
		want := *pt.Value.CopyNew()
		ct, e := rlwe.NewEncryptor(p, sk).EncryptNew(pt)
		if e != nil {
			c.Violate(entry+"encrypt-error", e.Error(), l)
			return
		}
		out := rlwe.NewDecryptor(p, sk).DecryptNew(ct)
		c.Check(p.RingQ().Equal(out.Value, want), entry+"decryption-not-exact", func() string {
			return fmt.Sprintf("Decrypt(Encrypt_sk(m)) != m with Xe = DiscreteGaussian{} (N=%d Q=%v NTT=%v ring %d)", p.N(), p.Q(), l.NTT, l.Ring)
		})
	}); pn {
		c.Violate(entry+"panic", fmt.Sprint(pv), l)
	}
}

// derivedExtra: accessors of core/rlwe/params.go that derived/* does not reach.
func derivedExtra(c *eng.Ctx, l lit, p rlwe.Parameters, r *eng.Rand) {
	d := "C19|rlwe.Parameters."
	chk := func(ok bool, name string, detail func() string) {
		c.Check(ok, d+name+"|wrong-value", func() string { return detail() + fmt.Sprintf(" (LogN=%d ring=%d Q=%v P=%v)", l.LogN, l.Ring, l.Q, l.P) })
	}
	// digits of the base-2^w decomposition must cover the bit length of every qi in use
	for _, w := range []int{0, 1, 7, 16, 30, 59, 60, 61, 64} {
		for lvp := -1; lvp < len(l.P) && lvp < 2; lvp++ {
			lvq := r.N(len(l.Q))
			got := p.BaseTwoDecompositionVectorSize(lvq, lvp, w)
			ok := len(got) >= lvq+1
			for i := 0; ok && i <= lvq; i++ {
				if w == 0 || lvp > 0 {
					ok = got[i] == 1
				} else {
					b := bitlen(l.Q[i])
					ok = got[i]*w >= b && (got[i]-1)*w < b
				}
			}
			chk(ok, "BaseTwoDecompositionVectorSize", func() string { return fmt.Sprintf("(%d,%d,%d)=%v for bit lengths %v", lvq, lvp, w, got, bitLens(l.Q)) })
		}
	}
	c.Count("derived_extra_objects", 1)
	if len(l.P) >= 2 && l.P[0] < l.P[1] {
		c.Count("derived_extra_objects_with_ascending_P", 1)
	}
	chk(p.PiOverflowMargin(-1) == -1, "PiOverflowMargin", func() string { return fmt.Sprintf("(-1)=%d", p.PiOverflowMargin(-1)) })
	for lvp := 0; lvp < len(l.P); lvp++ {
		mx := uint64(0)
		for _, x := range l.P[:lvp+1] {
			mx = max(mx, x)
		}
		want := math.Exp2(64) / float64(mx)
		got := float64(p.PiOverflowMargin(lvp))
		chk(math.Abs(got-math.Floor(want)) <= want*1e-9+0.5, "PiOverflowMargin", func() string { return fmt.Sprintf("(%d)=%v want floor(%v)", lvp, got, want) })
	}
	if len(l.P) == 0 {
		chk(p.PiOverflowMargin(0) == -1, "PiOverflowMargin", func() string { return fmt.Sprintf("(0)=%d without P", p.PiOverflowMargin(0)) })
	}
	b, _ := obs.ErrBound(p)
	switch xe := p.Xe().(type) {
	case ring.DiscreteGaussian:
		chk(p.NoiseBound() == xe.Bound, "NoiseBound", func() string { return fmt.Sprintf("%v for %+v", p.NoiseBound(), xe) })
	default:
		chk(p.NoiseBound() == b, "NoiseBound", func() string { return fmt.Sprintf("%v for %+v", p.NoiseBound(), p.Xe()) })
	}
	lq, lp := p.UnpackLevelParams(nil)
	lq1, lp1 := p.UnpackLevelParams([]int{0})
	lq2, lp2 := p.UnpackLevelParams([]int{0, -1})
	chk(lq == len(l.Q)-1 && lp == len(l.P)-1 && lq1 == 0 && lp1 == len(l.P)-1 && lq2 == 0 && lp2 == -1, "UnpackLevelParams", func() string {
		return fmt.Sprint(lq, lp, lq1, lp1, lq2, lp2)
	})
	s := p.NewScale(12345)
	ds := p.DefaultScale()
	chk(s.Value.Cmp(big.NewFloat(12345)) == 0 && ((s.Mod == nil) == (ds.Mod == nil)) && (s.Mod == nil || s.Mod.Cmp(ds.Mod) == 0), "NewScale", func() string { return fmt.Sprint(s.Value.String(), s.Mod, ds.Mod) })
	qp := p.RingQP()
	chk(qp != nil && qp.RingQ == p.RingQ() && qp.RingP == p.RingP(), "RingQP", func() string { return "RingQP does not hold the rings of the parameters" })
	pl := p.ParametersLiteral()
	chk(pl.LogN == l.LogN && eqv(pl.Q, l.Q) && eqv(pl.P, l.P) && pl.LogQ == nil && pl.LogP == nil && pl.Xs == p.Xs() && pl.Xe == p.Xe() && pl.RingType == ring.Type(l.Ring) &&
		pl.NTTFlag == l.NTT && pl.DefaultScale.Value.Cmp(&ds.Value) == 0, "ParametersLiteral", func() string { return fmt.Sprintf("%+v", pl) })
	// the literal is a copy
	if len(pl.Q) > 0 {
		pl.Q[0] = 7
		chk(eqv(p.Q(), l.Q), "ParametersLiteral|aliases-internal-state", func() string { return "writing to the literal's Q changed the parameters" })
	}
	if l.Ring == 0 {
		sp, err := p.StandardParameters()
		chk(err == nil && diffRLWE(p, sp) == "", "StandardParameters", func() string { return fmt.Sprint(err) })
	}
}

// ---------------------------------------------------------------------------------------------
// bgv.NewParameters

func sameBGV(a, b bgv.Parameters) string {
	if d := diffRLWE(a.Parameters, b.Parameters); d != "" {
		return d
	}
	switch {
	case a.PlaintextModulus() != b.PlaintextModulus():
		return fmt.Sprintf("t %d vs %d", a.PlaintextModulus(), b.PlaintextModulus())
	case a.RingT().N() != b.RingT().N():
		return fmt.Sprintf("RingT degree %d vs %d", a.RingT().N(), b.RingT().N())
	case !eqv(a.RingQMul().ModuliChain(), b.RingQMul().ModuliChain()):
		return fmt.Sprintf("RingQMul %v vs %v", a.RingQMul().ModuliChain(), b.RingQMul().ModuliChain())
	}
	return ""
}

func runDirectBGV(c *eng.Ctx, batch int) {
	r := c.Rand()
	entry := "C19|bgv.NewParameters|"
	var st soundStats
	if batch == 0 {
		// found by this family: plaintext ring smaller than the ring, two moduli, conjugate-invariant ring
		judgeBGVConjInv(c, lit{Scheme: "rlwe", LogN: 4, Q: []uint64{4080220097, 449}, Ring: 1, NTT: true, T: 401, Mut: "direct/conjugate-invariant/fixed"}, r, &st)
	}
	for rep := 0; rep < 8; rep++ {
		base, ok := baseLit(r, "bgv", []int{4, 5, 6, 7, 8, 9, 10})
		if !ok {
			continue
		}
		l := base
		variant := []string{"literal-path", "t-class", "t-class", "conjugate-invariant", "ntt-false", "zero-value", "literal-path", "conjugate-invariant"}[(batch+rep)%8]
		if variant == "t-class" {
			l = mutateScheme(r, base, bgvClasses[(batch*8+rep)%len(bgvClasses)])
		}
		l.Mut = "direct/" + variant + "/" + l.Mut
		c.Count("direct_constructor_calls", 1)
		switch variant {
		case "literal-path", "t-class":
			v := refValidate(l)
			key, _ := l.key()
			c.Distinct(key, true)
			pl := l.bgvLit()
			// the rlwe literal the scheme literal stands for
			rll := pl.GetRLWEParametersLiteral()
			okl := rll.LogN == pl.LogN && rll.LogNthRoot == pl.LogNthRoot && eqv(rll.Q, pl.Q) && eqv(rll.P, pl.P) && reflect.DeepEqual(rll.LogQ, pl.LogQ) && reflect.DeepEqual(rll.LogP, pl.LogP) &&
				rll.Xs == pl.Xs && rll.Xe == pl.Xe && rll.RingType == ring.Standard && rll.NTTFlag &&
				rll.DefaultScale.Value.Cmp(big.NewFloat(1)) == 0 && (pl.PlaintextModulus == 0 || rll.DefaultScale.Mod != nil && rll.DefaultScale.Mod.Cmp(new(big.Int).SetUint64(pl.PlaintextModulus)) == 0)
			c.Check(okl, "C19|bgv.ParametersLiteral.GetRLWEParametersLiteral|wrong-value", func() string { return fmt.Sprintf("%+v from %+v", rll, pl) })
			rl, erl := rlwe.NewParametersFromLiteral(rll)
			var p1, p2 bgv.Parameters
			var e1, e2 error
			if pn, _ := eng.Panics(func() { p2, e2 = bgv.NewParametersFromLiteral(pl) }); pn {
				continue // judged by lit/*
			}
			if erl != nil {
				c.Check(e2 != nil, "C19|bgv.NewParametersFromLiteral|accepted-invalid|rlwe-literal-refused", func() string { return erl.Error() })
				continue
			}
			if pn, pv := eng.Panics(func() { p1, e1 = bgv.NewParameters(rl, l.T) }); pn {
				cls := "valid-arguments"
				if len(v.Bad) > 0 {
					cls = v.Bad[0]
				}
				c.Violate(entry+"panic|"+cls, fmt.Sprintf("panic instead of an error: %v (t=%d Q=%v)", pv, l.T, l.Q), l)
				continue
			}
			c.Eval(2)
			c.Check((e1 == nil) == (e2 == nil), entry+"differs-from-literal-constructor", func() string { return fmt.Sprintf("NewParameters: %v; NewParametersFromLiteral: %v", e1, e2) })
			if e1 != nil {
				c.Count("errors_observed", 1)
				c.Check(p1.RingT() == nil && p1.RingQMul() == nil && isEmptyRLWE(p1.Parameters), entry+"error-with-non-empty-parameters", func() string { return e1.Error() })
				if v.mustAccept() {
					c.Violate(entry+"error-on-admissible|"+variant, e1.Error(), l)
				}
				continue
			}
			if v.mustReject() {
				c.Violate(entry+"accepted-invalid|"+v.Bad[0], fmt.Sprintf("arguments violate %v but are accepted", v.Bad), l)
				continue
			}
			c.Count("direct_constructor_accepted", 1)
			if e2 == nil {
				dd := sameBGV(p1, p2)
				c.Check(dd == "" && p1.Equal(&p2), entry+"not-equal-to-literal-constructor", func() string { return dd })
			}
			derivedBGV(c, l, p1, r)
			bgvExtra(c, l, p1, r)
		case "conjugate-invariant":
			// bgv.NewParameters takes any rlwe.Parameters; Parameters.MaxDimensions has a branch for the
			// conjugate-invariant ring: accepted or refused, but sound if accepted
			var cl lit
			found := false
			for try := 0; try < 8 && !found; try++ {
				cl, found = baseLit(r, "rlwe", []int{4, 5, 6, 7, 8, 9})
				found = found && cl.Ring == 1
			}
			if !found {
				continue
			}
			t := pickT(r, cl, "valid")
			if t == 0 || t > cl.Q[0]/2 {
				continue // t in (Q0/2, Q0) is the triaged decoder-lift finding of the standard ring, not a ring-type question
			}
			cl.Mut, cl.T = l.Mut, t
			judgeBGVConjInv(c, cl, r, &st)
		case "ntt-false":
			c.Distinct("directbgv|ntt-false", true)
			rll := l.bgvLit().GetRLWEParametersLiteral()
			rll.NTTFlag = false
			rl, err := rlwe.NewParametersFromLiteral(rll)
			if err != nil {
				continue
			}
			var p bgv.Parameters
			pn, pv := eng.Panics(func() { p, err = bgv.NewParameters(rl, l.T) })
			c.Check(!pn, entry+"panic|NTTFlag-false", func() string { return fmt.Sprint(pv) })
			c.Check(pn || (err != nil && p.RingT() == nil), entry+"accepted-invalid|NTTFlag-false", func() string {
				return "rlwe parameters with NTTFlag = false are accepted (the scheme stores plaintexts and ciphertexts in the NTT domain)"
			})
		case "zero-value":
			c.Distinct("directbgv|zero-value", true)
			var p bgv.Parameters
			var err error
			pn, pv := eng.Panics(func() { p, err = bgv.NewParameters(rlwe.Parameters{}, l.T) })
			c.Check(!pn, entry+"panic|zero-value-rlwe-parameters", func() string { return fmt.Sprint(pv) })
			c.Check(pn || (err != nil && p.RingT() == nil), entry+"accepted-invalid|zero-value-rlwe-parameters", nil)
		}
	}
	c.Count("encode_decode_checks", int64(st.encodings))
}

// judgeBGVConjInv: bgv.NewParameters over rlwe parameters of the conjugate-invariant ring (cl.T = t).
func judgeBGVConjInv(c *eng.Ctx, cl lit, r *eng.Rand, st *soundStats) {
	entry := "C19|bgv.NewParameters|"
	t := cl.T
	for once := true; once; once = false {
		c.Distinct(fmt.Sprintf("directbgv|ci|%d|%d|%d|t%d", cl.LogN, len(cl.Q), len(cl.P), bitlen(t)), true)
		rll := cl.rlweLit()
		rll.NTTFlag, rll.DefaultScale = true, rlwe.NewScaleModT(1, t)
		rl, err := rlwe.NewParametersFromLiteral(rll)
		if err != nil {
			continue
		}
		var p bgv.Parameters
		if pn, pv := eng.Panics(func() { p, err = bgv.NewParameters(rl, t) }); pn {
			c.Violate(entry+"panic|conjugate-invariant-ring", fmt.Sprint(pv), cl)
			continue
		}
		c.Eval(1)
		if err != nil {
			c.Count("bgv_conjugate_invariant_refused", 1)
			continue
		}
		c.Count("bgv_conjugate_invariant_accepted", 1)
		var fs []failure
		guard("bgv-dimensions", &fs, func() {
			md, lmd := p.MaxDimensions(), p.LogMaxDimensions()
			if !(md.Rows == 1 && md.Cols == p.RingT().N() && p.MaxSlots() == p.RingT().N() && lmd.Rows == 0 && 1<<lmd.Cols == md.Cols && 1<<p.LogMaxSlots() == p.MaxSlots()) {
				fs = append(fs, failure{"bgv-dimensions", fmt.Sprintf("MaxDimensions %v LogMaxDimensions %v slots %d RingT degree %d", md, lmd, p.MaxSlots(), p.RingT().N())})
			}
		})
		fs = append(fs, soundBGV(p, r, st)...)
		for _, f := range fs {
			c.Violate(entry+"accepted-unsound|"+f.Check+"|conjugate-invariant-ring", f.Detail, cl)
		}
	}
}

// bgvExtra: accessors of schemes/bgv/params.go that derived/* does not reach.
func bgvExtra(c *eng.Ctx, l lit, p bgv.Parameters, r *eng.Rand) {
	d := "C19|bgv.Parameters."
	chk := func(ok bool, name string, detail func() string) {
		c.Check(ok, d+name+"|wrong-value", func() string { return detail() + fmt.Sprintf(" (LogN=%d Q=%v t=%d)", l.LogN, l.Q, l.T) })
	}
	nth := l.nthRoot()
	chk(diffRLWE(p.Parameters, *p.GetRLWEParameters()) == "", "GetRLWEParameters", func() string { return diffRLWE(p.Parameters, *p.GetRLWEParameters()) })
	sc := p.NewScale(12345 % l.T)
	chk(sc.Mod != nil && sc.Mod.Cmp(new(big.Int).SetUint64(l.T)) == 0 && sc.Uint64() == 12345%l.T, "NewScale", func() string {
		return fmt.Sprintf("NewScale(%d) = %s mod %v, the scale of a BGV context lives modulo t", 12345%l.T, sc.Value.String(), sc.Mod)
	})
	pl := p.ParametersLiteral()
	chk(pl.LogN == l.LogN && eqv(pl.Q, l.Q) && eqv(pl.P, l.P) && pl.PlaintextModulus == l.T && pl.Xs == p.Xs() && pl.Xe == p.Xe() && pl.LogNthRoot == l.LogN+1, "ParametersLiteral", func() string { return fmt.Sprintf("%+v", pl) })
	for _, ln := range []int{0, 1, l.LogN / 2, l.LogN - 1} {
		want := traceModel(l, ln)
		got := p.GaloisElementsForTrace(ln)
		chk(eqv(sortedU(got), sortedU(want)), "GaloisElementsForTrace", func() string { return fmt.Sprintf("(%d)=%v want %v", ln, got, want) })
	}
	// Replicate: at least the rotations the generic replicate needs, all of them Galois elements of the ring
	batch, nn := 1<<r.N(3), 1+r.N(max(2, p.MaxSlots()/8))
	got := p.GaloisElementsForReplicate(batch, nn)
	has := map[uint64]bool{}
	ok := true
	for _, g := range got {
		has[g] = true
		ok = ok && g&1 == 1 && g < nth
	}
	for _, g := range innerSumModel(nth, -batch, nn) {
		ok = ok && has[g]
	}
	chk(ok, "GaloisElementsForReplicate", func() string {
		return fmt.Sprintf("(batch=%d,n=%d)=%v, needs %v", batch, nn, got, innerSumModel(nth, -batch, nn))
	})
}

// ---------------------------------------------------------------------------------------------
// ckks: accessors not reached by derived/*, and objects that do not come from the constructor

func runDirectCKKS(c *eng.Ctx, batch int) {
	r := c.Rand()
	var st soundStats
	for rep := 0; rep < 6; rep++ {
		l, ok := baseLit(r, "ckks", []int{4, 5, 6, 7, 8, 9, 10})
		if !ok {
			continue
		}
		l.Mut = "direct/ckks"
		key, _ := l.key()
		c.Distinct(key, true)
		pl := l.ckksLit()
		rll := pl.GetRLWEParametersLiteral()
		want := new(big.Float).SetMantExp(big.NewFloat(1), l.LogScale)
		okl := rll.LogN == pl.LogN && rll.LogNthRoot == pl.LogNthRoot && eqv(rll.Q, pl.Q) && eqv(rll.P, pl.P) && rll.Xs == pl.Xs && rll.Xe == pl.Xe && rll.RingType == pl.RingType && rll.NTTFlag &&
			rll.DefaultScale.Value.Cmp(want) == 0 && rll.DefaultScale.Mod == nil
		c.Check(okl, "C19|ckks.ParametersLiteral.GetRLWEParametersLiteral|wrong-value", func() string { return fmt.Sprintf("%+v from %+v", rll, pl) })
		p, err := ckks.NewParametersFromLiteral(pl)
		if err != nil {
			c.Violate("C19|ckks.NewParametersFromLiteral|error-on-admissible|none", err.Error(), l)
			continue
		}
		d := "C19|ckks.Parameters."
		chk := func(ok bool, name string, detail func() string) {
			c.Check(ok, d+name+"|wrong-value", func() string {
				return detail() + fmt.Sprintf(" (LogN=%d ring=%d Q=%v logscale=%d)", l.LogN, l.Ring, l.Q, l.LogScale)
			})
		}
		nth := l.nthRoot()
		chk(diffRLWE(p.Parameters, *p.GetRLWEParameters()) == "", "GetRLWEParameters", func() string { return diffRLWE(p.Parameters, *p.GetRLWEParameters()) })
		q := p.ParametersLiteral()
		chk(q.LogN == l.LogN && eqv(q.Q, l.Q) && eqv(q.P, l.P) && q.LogDefaultScale == l.LogScale && q.RingType == ring.Type(l.Ring) && q.Xs == p.Xs() && q.Xe == p.Xe() && 1<<q.LogNthRoot == int(nth),
			"ParametersLiteral", func() string { return fmt.Sprintf("%+v", q) })
		for _, ln := range []int{0, 1, l.LogN / 2, l.LogN - 1} {
			if ln == 0 && l.Ring == 1 {
				continue // documented panic (no conjugation in the conjugate-invariant ring)
			}
			want := traceModel(l, ln)
			got := p.GaloisElementsForTrace(ln)
			chk(eqv(sortedU(got), sortedU(want)), "GaloisElementsForTrace", func() string { return fmt.Sprintf("(%d)=%v want %v", ln, got, want) })
		}
		bt, nn := 1<<r.N(3), 1+r.N(max(2, p.MaxSlots()/8))
		got := dedupSorted(p.GaloisElementsForReplicate(bt, nn))
		chk(eqv(got, innerSumModel(nth, -bt, nn)), "GaloisElementsForReplicate", func() string {
			return fmt.Sprintf("(batch=%d,n=%d)=%v want %v", bt, nn, got, innerSumModel(nth, -bt, nn))
		})
		// decoded / converted objects are as usable as the original
		alt := map[string]ckks.Parameters{}
		if js, e := json.Marshal(p); e == nil {
			b, _ := ckks.NewParametersFromLiteral(ckks.ParametersLiteral{LogN: 5, Q: []uint64{0x800280001}, P: []uint64{0x7ffd80001}, LogDefaultScale: 7, Xs: ring.Ternary{H: 3}, RingType: ring.ConjugateInvariant})
			if json.Unmarshal(js, &b) == nil {
				alt["JSON-into-used-receiver"] = b
			}
		}
		if sp, e := p.StandardParameters(); e == nil && l.Ring == 1 {
			alt["StandardParameters"] = sp
		}
		for _, name := range []string{"JSON-into-used-receiver", "StandardParameters"} {
			o, ok := alt[name]
			if !ok {
				continue
			}
			c.Count("derived_objects_exercised", 1)
			if name == "JSON-into-used-receiver" {
				if dd := diffRLWE(p.Parameters, o.Parameters); dd != "" {
					c.Violate("C19|ckks.Parameters|"+name+"|not-equal", dd, l)
					continue
				}
				derivedCKKS(c, l, o, r)
			}
			for _, f := range soundCKKS(o, r, &st) {
				c.Violate("C19|ckks.Parameters|"+name+"|decoded-object-unsound|"+f.Check, f.Detail, l)
			}
			c.Eval(1)
		}
	}
	c.Count("encode_decode_checks", int64(st.encodings))
}

// ---------------------------------------------------------------------------------------------
// bootstrapping literal: getters and BitConsumption

func runBootGetters(c *eng.Ctx) {
	c.Distinct("bootlit|getters", true)
	d := "C19|bootstrapping.ParametersLiteral."
	var z bootstrapping.ParametersLiteral
	chk := func(ok bool, name string, detail func() string) { c.Check(ok, d+name+"|wrong-value", detail) }
	chk(z.GetLogN() == 16 && (bootstrapping.ParametersLiteral{LogN: utils.Pointy(11)}).GetLogN() == 11, "GetLogN", func() string { return fmt.Sprint(z.GetLogN()) })
	chk(z.GetDefaultXs() == ring.DistributionParameters(ring.Ternary{H: 192}) && z.GetDefaultXe() == ring.DistributionParameters(rlwe.DefaultXe), "GetDefaultXs", func() string {
		return fmt.Sprintf("%+v %+v", z.GetDefaultXs(), z.GetDefaultXe())
	})
	x := bootstrapping.ParametersLiteral{Xs: ring.Ternary{P: 0.5}, Xe: ring.DiscreteGaussian{Sigma: 1, Bound: 6}}
	chk(x.GetDefaultXs() == ring.DistributionParameters(ring.Ternary{P: 0.5}) && x.GetDefaultXe() == ring.DistributionParameters(ring.DiscreteGaussian{Sigma: 1, Bound: 6}), "GetDefaultXs", func() string {
		return fmt.Sprintf("%+v %+v", x.GetDefaultXs(), x.GetDefaultXe())
	})
	// documented default: 61 bits x max(1, floor(sqrt(#Qi)))
	for n := 0; n <= 400; n++ {
		k := 1
		for (k+1)*(k+1) <= n {
			k++
		}
		got := z.GetLogP(n)
		ok := len(got) == k
		for _, b := range got {
			ok = ok && b == 61
		}
		c.Check(ok, d+"GetLogP|wrong-default-P", func() string { return fmt.Sprintf("GetLogP(%d) = %v, documented: %d primes of 61 bits", n, got, k) })
	}
	e := bootstrapping.ParametersLiteral{LogP: []int{55, 61, 30}}
	chk(reflect.DeepEqual(e.GetLogP(9), []int{55, 61, 30}), "GetLogP", func() string { return fmt.Sprint(e.GetLogP(9)) })
	type ig func(bootstrapping.ParametersLiteral) (int, error)
	intGetter := func(name string, def int, lo, hi int, set func(*bootstrapping.ParametersLiteral, *int), get ig) {
		var l bootstrapping.ParametersLiteral
		v, err := get(l)
		chk(err == nil && v == def, name, func() string { return fmt.Sprintf("default %d (%v), documented %d", v, err, def) })
		for _, x := range []int{lo - 3, lo - 1, lo, lo + 1, (lo + hi) / 2, hi - 1, hi, hi + 1, hi + 40} {
			if x > 1<<20 {
				continue
			}
			var l bootstrapping.ParametersLiteral
			set(&l, utils.Pointy(x))
			v, err := get(l)
			c.Eval(1)
			if x < lo || x > hi {
				c.Check(err != nil, d+name+"|accepted-invalid", func() string { return fmt.Sprintf("%d accepted, documented range [%d, %d]", x, lo, hi) })
				c.Count("errors_observed", 1)
			} else {
				chk(err == nil && v == x, name, func() string { return fmt.Sprintf("%d -> %d (%v)", x, v, err) })
			}
		}
	}
	inf := 1 << 30
	intGetter("GetEvalMod1LogScale", 60, 0, 60, func(l *bootstrapping.ParametersLiteral, v *int) { l.EvalModLogScale = v }, func(l bootstrapping.ParametersLiteral) (int, error) { return l.GetEvalMod1LogScale() })
	intGetter("GetLogMessageRatio", 8, 0, inf, func(l *bootstrapping.ParametersLiteral, v *int) { l.LogMessageRatio = v }, func(l bootstrapping.ParametersLiteral) (int, error) { return l.GetLogMessageRatio() })
	intGetter("GetK", 16, 0, inf, func(l *bootstrapping.ParametersLiteral, v *int) { l.K = v }, func(l bootstrapping.ParametersLiteral) (int, error) { return l.GetK() })
	intGetter("GetDoubleAngle", 3, 0, inf, func(l *bootstrapping.ParametersLiteral, v *int) { l.DoubleAngle = v }, func(l bootstrapping.ParametersLiteral) (int, error) { return l.GetDoubleAngle() })
	intGetter("GetMod1Degree", 30, 0, inf, func(l *bootstrapping.ParametersLiteral, v *int) { l.Mod1Degree = v }, func(l bootstrapping.ParametersLiteral) (int, error) { return l.GetMod1Degree() })
	intGetter("GetMod1InvDegree", 0, 0, inf, func(l *bootstrapping.ParametersLiteral, v *int) { l.Mod1InvDegree = v }, func(l bootstrapping.ParametersLiteral) (int, error) { return l.GetMod1InvDegree() })
	intGetter("GetEphemeralSecretWeight", 32, 0, inf, func(l *bootstrapping.ParametersLiteral, v *int) { l.EphemeralSecretWeight = v }, func(l bootstrapping.ParametersLiteral) (int, error) {
		return l.GetEphemeralSecretWeight()
	})
	for _, ln := range []int{4, 10, 16} {
		ln := ln
		intGetter("GetLogSlots", ln-1, 1, ln-1, func(l *bootstrapping.ParametersLiteral, v *int) { l.LogN, l.LogSlots = utils.Pointy(ln), v }, func(l bootstrapping.ParametersLiteral) (int, error) {
			if l.LogN == nil {
				l.LogN = utils.Pointy(ln)
			}
			return l.GetLogSlots()
		})
	}
	da, err := (bootstrapping.ParametersLiteral{Mod1Type: mod1.SinContinuous}).GetDoubleAngle()
	chk(err == nil && da == 0, "GetDoubleAngle", func() string { return fmt.Sprintf("default %d for SinContinuous (documented: no double angle)", da) })
	chk(z.GetMod1Type() == mod1.CosDiscrete && (bootstrapping.ParametersLiteral{Mod1Type: mod1.CosContinuous}).GetMod1Type() == mod1.CosContinuous, "GetMod1Type", nil)
	it, err := z.GetIterationsParameters()
	chk(it == nil && err == nil, "GetIterationsParameters", nil)
	// default factorisations: min(4, max(LogSlots, 1)) x [56], min(3, max(LogSlots, 1)) x [39]
	for ls := 1; ls <= 15; ls++ {
		c2s, e1 := z.GetCoeffsToSlotsFactorizationDepthAndLogScales(ls)
		s2c, e2 := z.GetSlotsToCoeffsFactorizationDepthAndLogScales(ls)
		ok := e1 == nil && e2 == nil && len(c2s) == min(4, ls) && len(s2c) == min(3, ls)
		for _, x := range c2s {
			ok = ok && reflect.DeepEqual(x, []int{56})
		}
		for _, x := range s2c {
			ok = ok && reflect.DeepEqual(x, []int{39})
		}
		chk(ok, "GetCoeffsToSlotsFactorizationDepthAndLogScales", func() string { return fmt.Sprintf("LogSlots=%d: %v %v", ls, c2s, s2c) })
	}
}

// runBitConsumption: "BitConsumption returns the expected consumption in bits of bootstrapping
// circuit ... rounded up and thus will overestimate the value by up to 1 bit": compared with the
// modulus the constructor actually adds on top of the residual parameters.
func runBitConsumption(c *eng.Ctx, batch int) {
	r := c.Rand()
	for rep := 0; rep < 5; rep++ {
		b := bootBase(r)
		b.Mut = "bitconsumption"
		if batch == 0 && rep < 2 {
			// found by this family: one instance of each class the estimate gets wrong, every run
			b.IterSet, b.MsgRatio, b.Mod1Inv = false, nil, nil
			if rep == 0 {
				b.Mod1Type, b.K, b.Mod1Degree, b.DoubleAngle = 0, ptr(25), ptr(30), ptr(3)
			} else {
				b.Mod1Type, b.K, b.Mod1Degree, b.DoubleAngle = 1, ptr(16), ptr(30), ptr(2)
			}
		}
		res, err := bootResidual(b)
		if err != nil || len(bootViolations(b, res)) > 0 {
			continue
		}
		lt := b.lit()
		p, err := bootstrapping.NewParametersFromLiteral(res, lt)
		if err != nil {
			continue // judged by boot/*
		}
		checkBitConsumption(c, lt, p, res, b)
	}
}

func checkBitConsumption(c *eng.Ctx, lt bootstrapping.ParametersLiteral, p bootstrapping.Parameters, res ckks.Parameters, witness any) {
	sig := "C19|bootstrapping.ParametersLiteral.BitConsumption|"
	get := func(p *int, def int) int {
		if p == nil {
			return def
		}
		return *p
	}
	k, deg := get(lt.K, 16), get(lt.Mod1Degree, 30)
	da := get(lt.DoubleAngle, 3)
	cls := "documented-domain"
	switch {
	case lt.Mod1Type == mod1.CosDiscrete && bits.Len64(uint64(max(deg, 2*k-1))) != bits.Len64(uint64(deg)):
		cls = "CosDiscrete-degree-below-2K-1" // mod1 raises the degree to 2K-1, the estimate does not
	case lt.Mod1Type == mod1.SinContinuous && lt.DoubleAngle != nil && da > 0:
		cls = "SinContinuous-with-DoubleAngle" // the circuit ignores DoubleAngle for the sine, the estimate counts it
	}
	c.Distinct(fmt.Sprintf("bitconsumption|%s|%d|%d|%d|%d|%v", cls, lt.Mod1Type, k, deg, da, lt.IterationsParameters != nil), true)
	var got int
	var err error
	if pn, pv := eng.Panics(func() { got, err = lt.BitConsumption(p.LogMaxSlots()) }); pn {
		c.Violate(sig+"panic", fmt.Sprint(pv), witness)
		return
	}
	if err != nil {
		c.Violate(sig+"error-on-admissible", err.Error(), witness)
		return
	}
	bq, rq := p.BootstrappingParameters.Q(), res.Q()
	if len(bq) < len(rq) {
		return
	}
	actual := log2Big(bigProd(bq[len(rq):]))
	// parameters.go folds the residual default scale into every SlotsToCoeffs prime that stays below 61
	// bits; the literal cannot know the residual parameters, so that part is not the estimate's to count
	s2c := lt.SlotsToCoeffsFactorizationDepthAndLogScales
	if s2c == nil {
		s2c, _ = lt.GetSlotsToCoeffsFactorizationDepthAndLogScales(p.LogMaxSlots())
	}
	for _, lv := range s2c {
		sum := 0
		for _, x := range lv {
			sum += x
		}
		if sum+res.LogDefaultScale() < 61 {
			actual -= float64(res.LogDefaultScale())
		}
	}
	c.Count("bit_consumption_estimates", 1)
	// primes of a requested size deviate from 2^size by far less than 2^-10 bit each
	c.Check(float64(got) >= actual-0.25 && float64(got) <= actual+1.25, sig+"wrong-value|"+cls, func() string {
		return fmt.Sprintf("BitConsumption(%d) = %d, the constructor adds %d primes of %.2f bits in total (Mod1Type=%d K=%d Mod1Degree=%d DoubleAngle=%d Mod1InvDegree=%d depth of the modular reduction %d)",
			p.LogMaxSlots(), got, len(bq)-len(rq), actual, lt.Mod1Type, k, deg, da, get(lt.Mod1InvDegree, 0), p.DepthEvalMod())
	})
}
