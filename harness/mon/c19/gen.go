package c19

import (
	"fmt"
	"math"
	"time"

	"github.com/tuneinsight/lattigo/v6/core/rlwe"
	"github.com/tuneinsight/lattigo/v6/ring"

	"verif/harness/eng"
	"verif/harness/gen"
)

func log2u(q uint64) float64 { return math.Log2(float64(q)) }

// genCases: rlwe.GenModuli and ring.NTTFriendlyPrimesGenerator, one case per root order, every
// size 1..61 (and a few outside), several multiplicities.
func genCases(tier string, seed int64) []eng.Case {
	roots := []int{5, 6, 8, 11, 13, 15, 17}
	if tier == "thorough" {
		roots = []int{5, 6, 7, 8, 9, 10, 11, 12, 13, 14, 15, 16, 17, 18, 19, 21}
	}
	var out []eng.Case
	for _, lr := range roots {
		lr := lr
		out = append(out, eng.Case{ID: fmt.Sprintf("gen/GenModuli/root%d", lr), Sig: "C19|rlwe.GenModuli", Desc: map[string]int{"logNthRoot": lr},
			Run: func(c *eng.Ctx) { runGenModuli(c, lr) }})
		out = append(out, eng.Case{ID: fmt.Sprintf("gen/generator/root%d", lr), Sig: "C19|ring.NTTFriendlyPrimesGenerator", Desc: map[string]int{"logNthRoot": lr},
			Run: func(c *eng.Ctx) { runGenerator(c, lr) }})
	}
	return out
}

func genNontrivial(b, lr, k int) bool { return k >= 2 || b <= lr+3 || b >= 59 }

func runGenModuli(c *eng.Ctx, lr int) {
	r := c.Rand()
	type req struct{ q, p []int }
	var reqs []req
	rep := func(b, k int) []int {
		o := make([]int, k)
		for i := range o {
			o[i] = b
		}
		return o
	}
	for b := -1; b <= 63; b++ {
		reqs = append(reqs, req{rep(b, 1), nil})
		if b >= 1 && b <= 61 {
			reqs = append(reqs, req{rep(min(b, 60), 2), rep(b, 1)})
			reqs = append(reqs, req{rep(min(b, 60), 4+r.N(4)), rep(b, 2)})
			reqs = append(reqs, req{nil, rep(b, 1+r.N(3))})
		}
	}
	for i := 0; i < 40; i++ { // mixed requests
		var q, p []int
		for j := 1 + r.N(6); j > 0; j-- {
			q = append(q, eng.Pick(r, lr, lr+1, lr+2, lr+1+r.N(60-lr), 59, 60, 16, 32))
		}
		for j := r.N(4); j > 0; j-- {
			p = append(p, eng.Pick(r, lr+1, lr+2, lr+1+r.N(61-lr), 60, 61))
		}
		reqs = append(reqs, req{q, p})
	}
	sampled := false
	for _, rq := range reqs {
		var q, p []uint64
		var err error
		need := map[int]int{}
		valid := true
		for _, b := range rq.q {
			need[b]++
			if b <= 0 || b > 60 {
				valid = false
			}
		}
		for _, b := range rq.p {
			need[b]++
			if b <= 0 || b > 61 {
				valid = false
			}
		}
		for b, k := range need {
			c.Distinct(fmt.Sprintf("GenModuli|%d|%d|%d", lr, b, k), genNontrivial(b, lr, k))
		}
		if pn, pv := eng.Panics(func() { q, p, err = rlwe.GenModuli(lr, rq.q, rq.p) }); pn {
			c.Violate("C19|rlwe.GenModuli|panic", fmt.Sprintf("GenModuli(%d, %v, %v) panics: %v", lr, rq.q, rq.p, pv), nil)
			continue
		}
		c.Eval(1)
		if !valid {
			if err == nil {
				c.Violate("C19|rlwe.GenModuli|accepted-invalid|size-outside-documented-range", fmt.Sprintf("GenModuli(%d, %v, %v) = %v, %v without error", lr, rq.q, rq.p, q, p), nil)
			} else {
				c.Count("errors_observed", 1)
			}
			continue
		}
		satisfiable := true
		for b, k := range need {
			if countCandidates(b, lr, k+2) < k+2 {
				satisfiable = false
			}
		}
		if err != nil {
			c.Count("errors_observed", 1)
			if satisfiable {
				c.Violate("C19|rlwe.GenModuli|error-on-satisfiable-request", fmt.Sprintf("GenModuli(%d, %v, %v): %v, although enough primes of the documented form exist", lr, rq.q, rq.p, err), nil)
			}
			continue
		}
		c.Count("genmoduli_requests_served", 1)
		l := lit{Scheme: "rlwe", LogN: lr - 1, LogNthRoot: lr, LogQ: rq.q, LogP: rq.p}
		for _, f := range checkGeneratedRaw(l, q, p) {
			sig := "C19|rlwe.GenModuli|wrong-moduli|" + f.Check
			if f.Check == "not-1-mod-NthRoot" {
				sig += "|" + seedClass(q, p, lr)
			}
			c.Violate(sig, fmt.Sprintf("GenModuli(%d, %v, %v) = %v, %v: %s", lr, rq.q, rq.p, q, p, f.Detail), nil)
		}
		c.Eval(1)
		// same request, same answer
		q2, p2, err2 := rlwe.GenModuli(lr, rq.q, rq.p)
		c.Check(err2 == nil && eqv(q, q2) && eqv(p, p2), "C19|rlwe.GenModuli|not-deterministic", func() string {
			return fmt.Sprintf("GenModuli(%d, %v, %v) first %v %v then %v %v (%v)", lr, rq.q, rq.p, q, p, q2, p2, err2)
		})
		if !sampled && len(q) > 1 {
			sampled = true
			c.Sample(map[string]any{"kind": "GenModuli", "logNthRoot": lr, "logQ": rq.q, "logP": rq.p, "Q": q, "P": p})
		}
	}
}

// seedClass discriminates the "2^b+1 returned although it is below the root order" defect from
// any other incongruent output.
func seedClass(q, p []uint64, lr int) string {
	for _, x := range append(append([]uint64{}, q...), p...) {
		if lr < 63 && x%(uint64(1)<<lr) != 1 {
			if x > 2 && (x-1)&(x-2) == 0 && bitlen(x)-1 < lr { // x = 2^b + 1 with b < logNthRoot
				continue
			}
			return "other"
		}
	}
	return "fermat-seed-below-root-order"
}

// checkGeneratedRaw is checkGenerated on plain slices.
func checkGeneratedRaw(l lit, q, p []uint64) []failure {
	eff := l.effLogNthRoot()
	var fs []failure
	seen := map[uint64]bool{}
	one := func(name string, got []uint64, req []int) {
		if len(got) != len(req) {
			fs = append(fs, failure{"wrong-count", fmt.Sprintf("%s: sizes requested %v, moduli returned %v", name, req, got)})
			return
		}
		for i, x := range got {
			b := req[i]
			switch {
			case !gen.IsPrime(x):
				fs = append(fs, failure{"not-prime", fmt.Sprintf("%s[%d]=%d for size %d", name, i, x, b)})
			case eff < 63 && x%(uint64(1)<<eff) != 1:
				fs = append(fs, failure{"not-1-mod-NthRoot", fmt.Sprintf("%s[%d]=%d for size %d is not 1 mod 2^%d", name, i, x, b, eff)})
			case !halfBitWindow(x, b):
				fs = append(fs, failure{"wrong-size", fmt.Sprintf("%s[%d]=%d (log2 = %.3f) for requested size %d", name, i, x, log2u(x), b)})
			case b == 61 && x > uint64(1)<<61:
				fs = append(fs, failure{"wrong-size", fmt.Sprintf("%s[%d]=%d above 2^61 for size 61", name, i, x)})
			}
			if seen[x] {
				fs = append(fs, failure{"duplicate", fmt.Sprintf("%s[%d]=%d generated twice", name, i, x)})
			}
			seen[x] = true
		}
	}
	one("Q", q, l.LogQ)
	one("P", p, l.LogP)
	return fs
}

// runGenerator: the prime generator returns, in each direction, exactly the next prime of the
// documented form (nothing skipped, nothing outside the half-bit window, nothing repeated).
func runGenerator(c *eng.Ctx, lr int) { runGeneratorRange(c, lr, lr, 61) }

// runGeneratorRange: the same judgement for the sizes lo..hi (62 and 63 are the sizes above what
// GenModuli requests; the generator documents no upper limit below 64).
func runGeneratorRange(c *eng.Ctx, lr, lo, hi int) {
	nth := uint64(1) << lr
	sampled := false
	for b := lo; b <= hi; b++ {
		base := uint64(1)<<b + 1
		for _, dir := range []string{"up", "down", "alt"} {
			g := ring.NewNTTFriendlyPrimesGenerator(uint64(b), nth)
			k := 4
			c.Distinct(fmt.Sprintf("generator|%s|%d|%d", dir, lr, b), genNontrivial(b, lr, k))
			nextUp, nextDown := base, base-nth
			var got []uint64
			for i := 0; i < k; i++ {
				var x uint64
				var err error
				if pn, pv := eng.Panics(func() {
					switch dir {
					case "up":
						x, err = g.NextUpstreamPrime()
					case "down":
						x, err = g.NextDownstreamPrime()
					default:
						x, err = g.NextAlternatingPrime()
					}
				}); pn {
					c.Violate("C19|ring.NTTFriendlyPrimesGenerator|panic", fmt.Sprintf("bits=%d NthRoot=2^%d dir=%s: %v", b, lr, dir, pv), nil)
					break
				}
				c.Eval(1)
				if err != nil {
					c.Count("errors_observed", 1)
					// exhaustion must be real: no prime of the form left in the window, in that direction
					left := false
					if dir != "down" {
						for p := nextUp; p >= base && halfBitWindow(p, b); p += nth {
							if gen.IsPrime(p) {
								left = true
								break
							}
						}
					}
					if dir != "up" {
						for p := nextDown; p < base && p > nth && halfBitWindow(p, b); p -= nth {
							if gen.IsPrime(p) {
								left = true
								break
							}
						}
					}
					c.Check(!left, "C19|ring.NTTFriendlyPrimesGenerator|exhausted-too-early", func() string {
						return fmt.Sprintf("bits=%d NthRoot=2^%d dir=%s after %v: %v, but a prime of the form is left", b, lr, dir, got, err)
					})
					break // calling a generator again after exhaustion is outside what in-tree callers do
				}
				got = append(got, x)
				ok := gen.IsPrime(x) && x%nth == 1 && halfBitWindow(x, b)
				// it must be the next prime in one of the admissible directions
				isUp, isDown := false, false
				if ok && x >= base && dir != "down" {
					isUp = true
					for p := nextUp; p < x; p += nth {
						if gen.IsPrime(p) {
							isUp = false
						}
					}
					if x < nextUp {
						isUp = false
					}
				}
				if ok && x < base && dir != "up" {
					isDown = true
					for p := nextDown; p > x; p -= nth {
						if gen.IsPrime(p) {
							isDown = false
						}
					}
					if x > nextDown {
						isDown = false
					}
				}
				if !c.Check(ok && (isUp || isDown), "C19|ring.NTTFriendlyPrimesGenerator|wrong-prime", func() string {
					return fmt.Sprintf("bits=%d NthRoot=2^%d dir=%s outputs %v: %d is not the next prime of the form 2^%d +- k*2^%d + 1 within half a bit (prime=%v, =1 mod NthRoot: %v, window=%v)", b, lr, dir, got, x, b, lr, gen.IsPrime(x), x%nth == 1, halfBitWindow(x, b))
				}) {
					break
				}
				if isUp {
					nextUp = x + nth
				} else {
					nextDown = x - nth
				}
			}
			if !sampled && len(got) == k && dir == "alt" {
				sampled = true
				c.Sample(map[string]any{"kind": "generator", "bits": b, "logNthRoot": lr, "alternating": got})
			}
		}
	}
}

// ---------------------------------------------------------------------------------------------
// hang probes

type hangProbe struct {
	ID    string
	Entry string
	Pred  string
	Call  func() (any, error)
}

func hangCases(tier string, seed int64) []eng.Case {
	q10 := gen.Primes(40, 2048, 2, gen.PosAbove, nil)
	probes := []hangProbe{
		{"hang/literal/LogNthRoot64", "rlwe.NewParametersFromLiteral", "effective-LogNthRoot>=62", func() (any, error) {
			p, err := rlwe.NewParametersFromLiteral(rlwe.ParametersLiteral{LogN: 10, LogNthRoot: 64, LogQ: []int{30}})
			return p.Q(), err
		}},
		{"hang/literal/LogNthRoot62-LogP61", "rlwe.NewParametersFromLiteral", "effective-LogNthRoot>=62", func() (any, error) {
			p, err := rlwe.NewParametersFromLiteral(rlwe.ParametersLiteral{LogN: 10, LogNthRoot: 62, Q: q10, LogP: []int{61}})
			return p.P(), err
		}},
		{"hang/GenModuli/LogNthRoot64", "rlwe.GenModuli", "LogNthRoot>=62", func() (any, error) {
			q, _, err := rlwe.GenModuli(64, []int{40}, nil)
			return q, err
		}},
	}
	if tier == "thorough" {
		probes = append(probes,
			hangProbe{"hang/literal/LogN70", "rlwe.NewParametersFromLiteral", "effective-LogNthRoot>=62", func() (any, error) {
				p, err := rlwe.NewParametersFromLiteral(rlwe.ParametersLiteral{LogN: 70, LogQ: []int{30}})
				return p.Q(), err
			}},
			hangProbe{"hang/GenModuli/LogNthRoot62-61bit", "rlwe.GenModuli", "LogNthRoot>=62", func() (any, error) {
				_, p, err := rlwe.GenModuli(62, nil, []int{61})
				return p, err
			}})
	}
	var out []eng.Case
	for _, pr := range probes {
		pr := pr
		out = append(out, eng.Case{ID: pr.ID, Sig: "C19|" + pr.Entry, Desc: map[string]string{"probe": pr.ID}, Run: func(c *eng.Ctx) {
			c.Distinct(pr.ID, true)
			type res struct {
				v     any
				err   error
				panic any
			}
			ch := make(chan res, 1)
			go func() {
				var r res
				defer func() {
					if x := recover(); x != nil {
						r.panic = x
					}
					ch <- r
				}()
				r.v, r.err = pr.Call()
			}()
			c.Eval(1)
			select {
			case r := <-ch:
				switch {
				case r.panic != nil:
					c.Violate("C19|"+pr.Entry+"|panic|"+pr.Pred, fmt.Sprintf("%s: panic instead of an error: %v", pr.ID, r.panic), nil)
				case r.err == nil:
					c.Violate("C19|"+pr.Entry+"|accepted-invalid|"+pr.Pred, fmt.Sprintf("%s: accepted, moduli %v; no prime below 2^64 is 1 modulo a root order >= 2^62", pr.ID, r.v), nil)
				default:
					c.Count("errors_observed", 1)
				}
			case <-time.After(120 * time.Second): // generous: a valid request takes milliseconds, a loaded machine must not turn into a verdict
				// the goroutine keeps spinning until the worker exits; hang cases are last in the list
				c.Violate("C19|"+pr.Entry+"|hang|"+pr.Pred, pr.ID+": the call did not return within 120 s (valid requests take milliseconds); the generator loops forever once its search flags are false / its step is 0", nil)
				c.Count("hangs_observed", 1)
			}
		}})
	}
	return out
}
