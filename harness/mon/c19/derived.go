package c19

import (
	"fmt"
	"math"
	"math/big"
	"sort"

	"github.com/tuneinsight/lattigo/v6/core/rlwe"
	"github.com/tuneinsight/lattigo/v6/ring"
	"github.com/tuneinsight/lattigo/v6/schemes/bgv"
	"github.com/tuneinsight/lattigo/v6/schemes/ckks"

	"verif/harness/eng"
	"verif/harness/gen"
	"verif/harness/ref"
)

// galoisModel: 5^k mod nthRoot for any integer k (5 has order nthRoot/4 modulo a power of two).
func galoisModel(nth uint64, k int) uint64 {
	ord := int64(nth / 4)
	e := ((int64(k) % ord) + ord) % ord
	r := uint64(1)
	b := uint64(5) % nth
	for x := uint64(e); x > 0; x >>= 1 {
		if x&1 == 1 {
			r = r * b % nth
		}
		b = b * b % nth
	}
	return r
}

// traceModel: Galois elements of the trace onto the subring of degree 2^ln: the powers 5^(2^i) that
// generate the subgroup <5^(2^ln)>, i.e. i below log2 of the order of 5 (N/2 modulo 2N in the
// standard ring, N modulo 4N in the conjugate-invariant ring, see core/rlwe/inner_sum.go), plus the
// conjugation X -> X^-1 for the full trace of the standard ring.
func traceModel(l lit, ln int) (want []uint64) {
	nth := l.nthRoot()
	last := l.LogN - 1
	if l.Ring == 1 {
		last = l.LogN
	}
	for i := ln; i < last; i++ {
		want = append(want, galoisModel(nth, 1<<i))
	}
	if ln == 0 && l.Ring == 0 {
		want = append(want, nth-1)
	}
	return
}

func sortedU(v []uint64) []uint64 {
	o := append([]uint64{}, v...)
	sort.Slice(o, func(i, j int) bool { return o[i] < o[j] })
	return o
}

// innerSumModel: rotations the documented log2(n)+HW(n) inner-sum needs (core/rlwe/inner_sum.go:
// "i*batch for i a power of two below n, and (n - (n mod 2i))*batch").
func innerSumModel(nth uint64, batch, n int) []uint64 {
	set := map[uint64]bool{}
	for i := 1; i < n; i <<= 1 {
		set[galoisModel(nth, i*batch)] = true
		set[galoisModel(nth, (n-(n&((i<<1)-1)))*batch)] = true
	}
	var o []uint64
	for g := range set {
		o = append(o, g)
	}
	return sortedU(o)
}

func dedupSorted(v []uint64) []uint64 {
	s := sortedU(v)
	var o []uint64
	for i, x := range s {
		if i == 0 || x != s[i-1] {
			o = append(o, x)
		}
	}
	return o
}

func log2Big(x *big.Int) float64 {
	f := new(big.Float).SetInt(x)
	m := new(big.Float)
	e := f.MantExp(m)
	mf, _ := m.Float64()
	return float64(e) + math.Log2(mf)
}

func derivedCases(tier string, seed int64) []eng.Case {
	n := 8
	if tier == "thorough" {
		n = 40
	}
	var out []eng.Case
	for _, scheme := range []string{"rlwe", "bgv", "ckks"} {
		for i := 0; i < n; i++ {
			scheme, i := scheme, i
			out = append(out, eng.Case{ID: fmt.Sprintf("derived/%s/%02d", scheme, i), Sig: "C19|" + scheme + ".Parameters|derived", Desc: map[string]any{"scheme": scheme, "i": i},
				Run: func(c *eng.Ctx) {
					r := c.Rand()
					for rep := 0; rep < 5; rep++ {
						l, ok := baseLit(r, scheme, []int{4, 5, 6, 7, 8, 9, 10, 11})
						if !ok {
							continue
						}
						cx, err := construct(l)
						if err != nil {
							c.Violate("C19|"+scheme+".NewParametersFromLiteral|error-on-admissible|none", err.Error(), l)
							continue
						}
						c.Distinct(fmt.Sprintf("derived|%s|%d|r%d|%d|%d|%s|%d|%d", scheme, l.LogN, l.Ring, len(l.Q), len(l.P), l.Xs.Kind, l.LogScale, bitlen(l.T)), true)
						if rep == 0 {
							c.Sample(map[string]any{"kind": "derived", "literal": l})
						}
						derivedRLWE(c, l, cx.rl, r)
						if cx.bg != nil {
							derivedBGV(c, l, *cx.bg, r)
						}
						if cx.ck != nil {
							derivedCKKS(c, l, *cx.ck, r)
						}
					}
				}})
		}
	}
	return out
}

func derivedRLWE(c *eng.Ctx, l lit, p rlwe.Parameters, r *eng.Rand) {
	d := "C19|rlwe.Parameters."
	chk := func(ok bool, name string, detail func() string) {
		c.Check(ok, d+name+"|wrong-value", func() string { return detail() + fmt.Sprintf(" (LogN=%d ring=%d Q=%v P=%v)", l.LogN, l.Ring, l.Q, l.P) })
	}
	n := 1 << l.LogN
	nth := l.nthRoot()
	chk(p.N() == n && p.LogN() == l.LogN, "N", func() string { return fmt.Sprintf("N=%d LogN=%d", p.N(), p.LogN()) })
	chk(uint64(p.NthRoot()) == nth && p.LogNthRoot() == bitlen(nth)-1, "NthRoot", func() string {
		return fmt.Sprintf("NthRoot=%d LogNthRoot=%d want %d", p.NthRoot(), p.LogNthRoot(), nth)
	})
	chk(p.RingType() == ring.Type(l.Ring), "RingType", func() string { return fmt.Sprint(p.RingType()) })
	chk(p.QCount() == len(l.Q) && p.PCount() == len(l.P) && p.QPCount() == len(l.Q)+len(l.P), "QCount", func() string { return fmt.Sprint(p.QCount(), p.PCount(), p.QPCount()) })
	chk(p.MaxLevel() == len(l.Q)-1 && p.MaxLevelQ() == len(l.Q)-1 && p.MaxLevelP() == len(l.P)-1, "MaxLevel", func() string { return fmt.Sprint(p.MaxLevel(), p.MaxLevelQ(), p.MaxLevelP()) })
	chk(eqv(p.Q(), l.Q) && eqv(p.P(), l.P) && eqv(p.QP(), append(append([]uint64{}, l.Q...), l.P...)), "Q", func() string { return fmt.Sprint(p.Q(), p.P(), p.QP()) })
	// accessors return copies
	q := p.Q()
	q[0] = 12345
	if len(l.P) > 0 {
		pp := p.P()
		pp[0] = 6789
	}
	chk(eqv(p.Q(), l.Q) && eqv(p.P(), l.P), "Q|aliases-internal-state", func() string { return "writing to the slice returned by Q()/P() changed the parameters" })
	bq, bp := bigProd(l.Q), bigProd(l.P)
	chk(p.QBigInt().Cmp(bq) == 0 && p.PBigInt().Cmp(bp) == 0 && p.QPBigInt().Cmp(new(big.Int).Mul(bq, bp)) == 0, "QBigInt", func() string { return fmt.Sprint(p.QBigInt(), p.PBigInt()) })
	lq, lp := log2Big(bq), log2Big(bp)
	chk(math.Abs(p.LogQ()-lq) < 1e-6 && math.Abs(p.LogP()-lp) < 1e-6 && math.Abs(p.LogQP()-lq-lp) < 1e-6, "LogQP", func() string { return fmt.Sprintf("LogQ=%v want %v LogP=%v want %v", p.LogQ(), lq, p.LogP(), lp) })
	okl := true
	for i, b := range p.LogQi() {
		okl = okl && halfBitOrBoundary(l.Q[i], b)
	}
	for i, b := range p.LogPi() {
		okl = okl && halfBitOrBoundary(l.P[i], b)
	}
	chk(okl && len(p.LogQi()) == len(l.Q) && len(p.LogPi()) == len(l.P), "LogQi", func() string { return fmt.Sprint(p.LogQi(), p.LogPi()) })
	for lvq := 0; lvq < len(l.Q); lvq++ {
		for lvp := -1; lvp < len(l.P); lvp++ {
			mb := 0
			for _, x := range l.Q[:lvq+1] {
				mb = max(mb, bitlen(x))
			}
			for _, x := range l.P[:lvp+1] {
				mb = max(mb, bitlen(x))
			}
			if len(l.P) > 0 || lvp == -1 {
				chk(p.MaxBit(lvq, lvp) == mb, "MaxBit", func() string { return fmt.Sprintf("MaxBit(%d,%d)=%d want %d", lvq, lvp, p.MaxBit(lvq, lvp), mb) })
			}
			want := lvq + 1
			if lvp >= 0 {
				want = (lvq + 1 + lvp) / (lvp + 1) // ceil((lvq+1)/(lvp+1))
			}
			chk(p.BaseRNSDecompositionVectorSize(lvq, lvp) == want, "BaseRNSDecompositionVectorSize", func() string {
				return fmt.Sprintf("(%d,%d)=%d want %d", lvq, lvp, p.BaseRNSDecompositionVectorSize(lvq, lvp), want)
			})
		}
		mx := uint64(0)
		for _, x := range l.Q[:lvq+1] {
			mx = max(mx, x)
		}
		want := math.Exp2(64) / float64(mx)
		got := float64(p.QiOverflowMargin(lvq))
		chk(math.Abs(got-math.Floor(want)) <= want*1e-9+0.5, "QiOverflowMargin", func() string { return fmt.Sprintf("(%d)=%v want floor(%v)", lvq, got, want) })
	}
	// secret weight by definition
	var hw int
	switch xs := p.Xs().(type) {
	case ring.Ternary:
		if xs.H != 0 {
			hw = xs.H
		} else {
			hw = int(math.Ceil(float64(n) * xs.P))
		}
	case ring.DiscreteGaussian:
		hw = int(math.Ceil(float64(n) * xs.Sigma * math.Sqrt(2/math.Pi)))
	}
	chk(p.XsHammingWeight() == hw, "XsHammingWeight", func() string { return fmt.Sprintf("%d want %d for %+v", p.XsHammingWeight(), hw, p.Xs()) })
	// Galois elements
	ks := []int{0, 1, -1, 2, 3, n / 2, n/2 - 1, n, -n, 2*n + 1, r.N(1 << 20), -r.N(1 << 20), 1<<40 + 7, -(1<<40 + 7)}
	okg := true
	var bad string
	for _, k := range ks {
		g := p.GaloisElement(k)
		if g != galoisModel(nth, k) {
			okg, bad = false, fmt.Sprintf("GaloisElement(%d)=%d want %d", k, g, galoisModel(nth, k))
		}
		inv := p.ModInvGaloisElement(g)
		if ref.MulMod(inv, g, nth) != 1 {
			okg, bad = false, fmt.Sprintf("ModInvGaloisElement(%d)=%d is not the inverse mod %d", g, inv, nth)
		}
		dl := p.SolveDiscreteLogGaloisElement(g)
		if dl < 0 || galoisModel(nth, dl) != g || uint64(dl) >= nth/4 {
			okg, bad = false, fmt.Sprintf("SolveDiscreteLogGaloisElement(5^%d=%d)=%d", k, g, dl)
		}
	}
	gl := p.GaloisElements(ks)
	for i := range ks {
		okg = okg && len(gl) == len(ks) && gl[i] == galoisModel(nth, ks[i])
	}
	chk(okg, "GaloisElement", func() string { return bad })
	if l.Ring == 0 {
		chk(p.GaloisElementOrderTwoOrthogonalSubgroup() == nth-1, "GaloisElementOrderTwoOrthogonalSubgroup", func() string { return fmt.Sprint(p.GaloisElementOrderTwoOrthogonalSubgroup()) })
	}
	for i := 0; i < 4; i++ {
		batch := 1 << r.N(3)
		nn := 1 + r.N(max(2, n/(2*batch)))
		if i == 0 {
			nn = max(1, n/(2*batch)) // full power of two
		}
		got := dedupSorted(rlwe.GaloisElementsForInnerSum(p, batch, nn))
		chk(eqv(got, innerSumModel(nth, batch, nn)), "GaloisElementsForInnerSum", func() string {
			return fmt.Sprintf("(batch=%d,n=%d)=%v want %v", batch, nn, got, innerSumModel(nth, batch, nn))
		})
		got = dedupSorted(rlwe.GaloisElementsForReplicate(p, batch, nn))
		chk(eqv(got, innerSumModel(nth, -batch, nn)), "GaloisElementsForReplicate", func() string {
			return fmt.Sprintf("(batch=%d,n=%d)=%v want %v", batch, nn, got, innerSumModel(nth, -batch, nn))
		})
	}
	for _, ln := range []int{0, 1, l.LogN / 2, l.LogN - 1} {
		if ln == 0 && l.Ring == 1 {
			continue // documented panic
		}
		want := traceModel(l, ln)
		got := rlwe.GaloisElementsForTrace(p, ln)
		chk(eqv(sortedU(got), sortedU(want)), "GaloisElementsForTrace", func() string { return fmt.Sprintf("(%d)=%v want %v", ln, got, want) })
	}
	// conjugate invariant parameters have a standard dual of twice the degree
	if l.Ring == 1 {
		sp, err := p.StandardParameters()
		chk(err == nil && sp.LogN() == l.LogN+1 && sp.RingType() == ring.Standard && eqv(sp.Q(), l.Q) && eqv(sp.P(), l.P) && uint64(sp.NthRoot()) == nth, "StandardParameters", func() string {
			return fmt.Sprintf("err=%v LogN=%d ring=%v NthRoot=%d", err, sp.LogN(), sp.RingType(), sp.NthRoot())
		})
	}
}

// LogQi is documented as round(log2 q): b such that |log2 q - b| <= 1/2.
func halfBitOrBoundary(q uint64, b int) bool {
	return b >= 1 && b <= 64 && math.Abs(log2u(q)-float64(b)) <= 0.5+1e-9
}

func derivedCKKS(c *eng.Ctx, l lit, p ckks.Parameters, r *eng.Rand) {
	d := "C19|ckks.Parameters."
	chk := func(ok bool, name string, detail func() string) {
		c.Check(ok, d+name+"|wrong-value", func() string {
			return detail() + fmt.Sprintf(" (LogN=%d ring=%d Q=%v logscale=%d)", l.LogN, l.Ring, l.Q, l.LogScale)
		})
	}
	n := 1 << l.LogN
	nth := l.nthRoot()
	slots, logSlots := n/2, l.LogN-1
	if l.Ring == 1 {
		slots, logSlots = n, l.LogN
	}
	chk(p.MaxSlots() == slots && p.LogMaxSlots() == logSlots, "MaxSlots", func() string { return fmt.Sprint(p.MaxSlots(), p.LogMaxSlots()) })
	md, lmd := p.MaxDimensions(), p.LogMaxDimensions()
	chk(md.Rows == 1 && md.Cols == slots && lmd.Rows == 0 && lmd.Cols == logSlots, "MaxDimensions", func() string { return fmt.Sprint(md, lmd) })
	chk(p.LogDefaultScale() == l.LogScale, "LogDefaultScale", func() string { return fmt.Sprint(p.LogDefaultScale()) })
	want := new(big.Float).SetMantExp(big.NewFloat(1), l.LogScale)
	ds := p.DefaultScale()
	chk(ds.Value.Cmp(want) == 0, "DefaultScale", func() string { return ds.Value.Text('g', 40) })
	consumed := 1
	mode := ckks.PREC64
	if l.LogScale > 64 {
		consumed, mode = 2, ckks.PREC128
	}
	chk(p.PrecisionMode() == mode && p.LevelsConsumedPerRescaling() == consumed, "PrecisionMode", func() string { return fmt.Sprint(p.PrecisionMode(), p.LevelsConsumedPerRescaling()) })
	chk(p.MaxLevel() == len(l.Q)-1 && p.MaxDepth() == (len(l.Q)-1)/consumed, "MaxDepth", func() string { return fmt.Sprint(p.MaxLevel(), p.MaxDepth()) })
	chk(p.EncodingPrecision() == uint(max(53, l.LogScale)), "EncodingPrecision", func() string { return fmt.Sprint(p.EncodingPrecision()) })
	for lv := 0; lv < len(l.Q); lv++ {
		prod := bigProd(l.Q[:lv+1])
		chk(p.QLvl(lv).Cmp(prod) == 0 && p.LogQLvl(lv) == prod.BitLen(), "QLvl", func() string { return fmt.Sprintf("QLvl(%d)=%v LogQLvl=%d", lv, p.QLvl(lv), p.LogQLvl(lv)) })
		if lv-consumed+1 >= 0 {
			osf := p.GetOptimalScalingFactor(rlwe.NewScale(1), rlwe.NewScale(1), lv)
			w := big.NewInt(1)
			for i := 0; i < consumed; i++ {
				w.Mul(w, new(big.Int).SetUint64(l.Q[lv-i]))
			}
			chk(osf.Value.Cmp(new(big.Float).SetPrec(256).SetInt(w)) == 0 || osf.BigInt().Cmp(w) == 0, "GetOptimalScalingFactor", func() string { return fmt.Sprintf("(level %d)=%s want %v", lv, osf.Value.Text('g', 45), w) })
		}
	}
	for _, k := range []int{1, -1, 5, n / 4, r.N(1 << 16)} {
		chk(p.GaloisElementForRotation(k) == galoisModel(nth, k), "GaloisElementForRotation", func() string {
			return fmt.Sprintf("(%d)=%d want %d", k, p.GaloisElementForRotation(k), galoisModel(nth, k))
		})
	}
	if l.Ring == 0 {
		chk(p.GaloisElementForComplexConjugation() == nth-1, "GaloisElementForComplexConjugation", func() string { return fmt.Sprint(p.GaloisElementForComplexConjugation()) })
		sp, err := p.StandardParameters()
		chk(err == nil && sp.Equal(&p), "StandardParameters", func() string { return fmt.Sprint(err) })
	} else {
		sp, err := p.StandardParameters()
		chk(err == nil && sp.LogN() == l.LogN+1 && sp.RingType() == ring.Standard && sp.MaxSlots() == n && eqv(sp.Q(), l.Q), "StandardParameters", func() string {
			return fmt.Sprintf("err=%v LogN=%d slots=%d", err, sp.LogN(), sp.MaxSlots())
		})
	}
	batch, nn := 1<<r.N(3), 1+r.N(max(2, slots/8))
	got := dedupSorted(p.GaloisElementsForInnerSum(batch, nn))
	chk(eqv(got, innerSumModel(nth, batch, nn)), "GaloisElementsForInnerSum", func() string { return fmt.Sprintf("(batch=%d,n=%d)=%v", batch, nn, got) })
}

func derivedBGV(c *eng.Ctx, l lit, p bgv.Parameters, r *eng.Rand) {
	d := "C19|bgv.Parameters."
	chk := func(ok bool, name string, detail func() string) {
		c.Check(ok, d+name+"|wrong-value", func() string { return detail() + fmt.Sprintf(" (LogN=%d Q=%v t=%d)", l.LogN, l.Q, l.T) })
	}
	n := 1 << l.LogN
	nth := l.nthRoot()
	t := l.T
	// the plaintext ring: degree min(N, order/2) for the largest power of two `order` with t = 1 mod order
	order := uint64(1)
	for (t-1)%(order*2) == 0 {
		order *= 2
	}
	nt := min(n, int(order/2))
	chk(p.PlaintextModulus() == t && math.Abs(p.LogT()-math.Log2(float64(t))) < 1e-9, "PlaintextModulus", func() string { return fmt.Sprint(p.PlaintextModulus(), p.LogT()) })
	chk(p.RingT().N() == nt && eqv(p.RingT().ModuliChain(), []uint64{t}), "RingT", func() string { return fmt.Sprintf("degree %d want %d", p.RingT().N(), nt) })
	chk(p.MaxSlots() == nt && 1<<p.LogMaxSlots() == nt, "MaxSlots", func() string { return fmt.Sprint(p.MaxSlots(), p.LogMaxSlots()) })
	md, lmd := p.MaxDimensions(), p.LogMaxDimensions()
	chk(md.Rows == 2 && md.Cols == nt/2 && lmd.Rows == 1 && 1<<lmd.Cols == nt/2, "MaxDimensions", func() string { return fmt.Sprint(md, lmd) })
	ds := p.DefaultScale()
	chk(ds.Value.Cmp(big.NewFloat(1)) == 0 && ds.Mod != nil && ds.Mod.Cmp(new(big.Int).SetUint64(t)) == 0, "DefaultScale", func() string { return fmt.Sprint(ds.Value.String(), ds.Mod) })
	chk(p.NTTFlag(), "NTTFlag", func() string { return "false" })
	// auxiliary basis of the scale-invariant multiplication: documented size ceil((log Q + log N)/61) primes of 61 bits
	qm := p.RingQMul().ModuliChain()
	want := (bigProd(l.Q).BitLen() + l.LogN + 60) / 61
	okm := len(qm) == want && p.RingQMul().N() == n
	seen := map[uint64]bool{}
	for _, q := range qm {
		okm = okm && gen.IsPrime(q) && q%nth == 1 && bitlen(q) == 61 && !seen[q]
		seen[q] = true
	}
	chk(okm, "RingQMul", func() string { return fmt.Sprintf("%v, expected %d distinct 61-bit NTT-friendly primes", qm, want) })
	for _, k := range []int{1, -1, 7, n / 4, r.N(1 << 16)} {
		chk(p.GaloisElementForColRotation(k) == galoisModel(nth, k), "GaloisElementForColRotation", func() string { return fmt.Sprintf("(%d)=%d", k, p.GaloisElementForColRotation(k)) })
	}
	chk(p.GaloisElementForRowRotation() == nth-1, "GaloisElementForRowRotation", func() string { return fmt.Sprint(p.GaloisElementForRowRotation()) })
	for i := 0; i < 3; i++ {
		batch, nn := 1<<r.N(3), 1+r.N(max(2, nt/4))
		if i == 0 {
			nn = max(1, nt/batch) // spans both rows
		}
		wantL := innerSumModel(nth, batch, nn)
		if nn*batch > nt/2 {
			wantL = dedupSorted(append(wantL, nth-1))
		}
		got := dedupSorted(p.GaloisElementsForInnerSum(batch, nn))
		chk(eqv(got, wantL), "GaloisElementsForInnerSum", func() string { return fmt.Sprintf("(batch=%d,n=%d)=%v want %v", batch, nn, got, wantL) })
	}
}
