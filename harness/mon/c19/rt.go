package c19

import (
	"bytes"
	"encoding/json"
	"fmt"
	"math"
	"math/big"
	"reflect"

	"github.com/tuneinsight/lattigo/v6/circuits/ckks/bootstrapping"
	"github.com/tuneinsight/lattigo/v6/core/rlwe"
	"github.com/tuneinsight/lattigo/v6/ring"
	"github.com/tuneinsight/lattigo/v6/schemes/bgv"
	"github.com/tuneinsight/lattigo/v6/schemes/ckks"
	"github.com/tuneinsight/lattigo/v6/utils"

	"verif/harness/eng"
)

// diffRLWE compares two parameter objects through their accessors (independent of Equal).
func diffRLWE(a, b rlwe.Parameters) string {
	if b.RingQ() == nil {
		return "second object has no ring (zero value)"
	}
	switch {
	case a.LogN() != b.LogN():
		return fmt.Sprintf("LogN %d vs %d", a.LogN(), b.LogN())
	case !eqv(a.Q(), b.Q()):
		return fmt.Sprintf("Q %v vs %v", a.Q(), b.Q())
	case !eqv(a.P(), b.P()):
		return fmt.Sprintf("P %v vs %v", a.P(), b.P())
	case a.Xs() != b.Xs():
		return fmt.Sprintf("Xs %+v vs %+v", a.Xs(), b.Xs())
	case a.Xe() != b.Xe():
		return fmt.Sprintf("Xe %+v vs %+v", a.Xe(), b.Xe())
	case a.RingType() != b.RingType():
		return fmt.Sprintf("RingType %v vs %v", a.RingType(), b.RingType())
	case a.NTTFlag() != b.NTTFlag():
		return fmt.Sprintf("NTTFlag %v vs %v", a.NTTFlag(), b.NTTFlag())
	case a.NthRoot() != b.NthRoot():
		return fmt.Sprintf("NthRoot %d vs %d", a.NthRoot(), b.NthRoot())
	case (a.RingP() == nil) != (b.RingP() == nil):
		return "RingP nil-ness differs"
	}
	sa, sb := a.DefaultScale(), b.DefaultScale()
	if sa.Value.Cmp(&sb.Value) != 0 {
		return fmt.Sprintf("DefaultScale %s vs %s", sa.Value.Text('g', 45), sb.Value.Text('g', 45))
	}
	if (sa.Mod == nil) != (sb.Mod == nil) || (sa.Mod != nil && sa.Mod.Cmp(sb.Mod) != 0) {
		return fmt.Sprintf("DefaultScale.Mod %v vs %v", sa.Mod, sb.Mod)
	}
	if !eqv(a.RingQ().ModuliChain(), b.RingQ().ModuliChain()) {
		return "RingQ moduli differ"
	}
	return ""
}

func rtCases(tier string, seed int64) []eng.Case {
	n := 10
	if tier == "thorough" {
		n = 60
	}
	var out []eng.Case
	for _, scheme := range []string{"rlwe", "bgv", "ckks"} {
		for i := 0; i < n; i++ {
			scheme, i := scheme, i
			out = append(out, eng.Case{ID: fmt.Sprintf("rt/%s/%02d", scheme, i), Sig: "C19|" + scheme + ".Parameters|round-trip", Desc: map[string]any{"scheme": scheme, "i": i},
				Run: func(c *eng.Ctx) { runRT(c, scheme, i) }})
		}
	}
	out = append(out, eng.Case{ID: "rt/bootstrapping", Sig: "C19|bootstrapping.Parameters|round-trip", Desc: "bootstrapping parameters and literals", Run: runRTBoot})
	return out
}

var rtLogNs = []int{4, 5, 6, 7, 8, 9, 10}

// exotic default scales for rlwe parameters (the scale is a 128-bit float, optionally with a modulus)
func exoticScale(r *eng.Rand) (rlwe.Scale, string) {
	switch r.N(7) {
	case 0:
		return rlwe.NewScale(1), "one"
	case 1:
		return rlwe.NewScale(math.Exp2(40)), "pow2"
	case 2:
		return rlwe.NewScale(12345.6789), "float"
	case 3:
		v := new(big.Int).Lsh(big.NewInt(1), 100)
		v.Add(v, big.NewInt(1))
		return rlwe.NewScale(v), "2^100+1"
	case 4:
		f := new(big.Float).SetPrec(128).Quo(big.NewFloat(1).SetPrec(128), big.NewFloat(3).SetPrec(128))
		f.Mul(f, new(big.Float).SetPrec(128).SetFloat64(math.Exp2(60)))
		return rlwe.NewScale(f), "2^60/3"
	case 5:
		return rlwe.NewScaleModT(r.U64()%65537, 65537), "modT"
	default:
		v := new(big.Int).SetUint64(r.U64())
		v.Lsh(v, 64)
		v.Add(v, new(big.Int).SetUint64(r.U64()|1))
		return rlwe.NewScale(v), "128-bit-integer"
	}
}

func runRT(c *eng.Ctx, scheme string, idx int) {
	r := c.Rand()
	sampled := false
	for rep := 0; rep < 6; rep++ {
		base, ok := baseLit(r, scheme, rtLogNs)
		if !ok {
			continue
		}
		l := base
		variant := "explicit"
		if rep%3 == 2 {
			l = mutate(r, base, eng.Pick(r, "logq", "logq-custom-root", "logq-many"))
			variant = "sizes"
			if !refValidate(l).mustAccept() {
				continue
			}
		}
		switch scheme {
		case "rlwe":
			pl := l.rlweLit()
			sc, scName := exoticScale(r)
			pl.DefaultScale = sc
			variant += "/" + scName
			c.Distinct("rt|rlwe|"+variant+fmt.Sprintf("|%d|%s|%s|%v", l.Ring, l.Xs.Kind, l.Xe.Kind, l.NTT), true)
			p, err := rlwe.NewParametersFromLiteral(pl)
			if err != nil {
				c.Violate("C19|rlwe.NewParametersFromLiteral|error-on-admissible|"+l.Mut, err.Error(), l)
				continue
			}
			rtRLWE(c, p, pl, r)
		case "bgv":
			pl := l.bgvLit()
			c.Distinct("rt|bgv|"+variant+fmt.Sprintf("|%s|%s|t%d", l.Xs.Kind, l.Xe.Kind, bitlen(l.T)), true)
			p, err := bgv.NewParametersFromLiteral(pl)
			if err != nil {
				c.Violate("C19|bgv.NewParametersFromLiteral|error-on-admissible|"+l.Mut, err.Error(), l)
				continue
			}
			rtBGV(c, p, pl, r)
		case "ckks":
			pl := l.ckksLit()
			c.Distinct("rt|ckks|"+variant+fmt.Sprintf("|%d|%s|%s|s%d", l.Ring, l.Xs.Kind, l.Xe.Kind, l.LogScale), true)
			p, err := ckks.NewParametersFromLiteral(pl)
			if err != nil {
				c.Violate("C19|ckks.NewParametersFromLiteral|error-on-admissible|"+l.Mut, err.Error(), l)
				continue
			}
			rtCKKS(c, p, pl, r)
		}
		if !sampled {
			sampled = true
			c.Sample(map[string]any{"kind": "round-trip", "scheme": scheme, "variant": variant, "literal": l})
		}
	}
}

func scaleText(s rlwe.Scale) string { return s.Value.Text('g', 45) }

// a receiver that already holds other parameters (state must not leak)
func dirtyRLWE() rlwe.Parameters {
	p, _ := rlwe.NewParametersFromLiteral(rlwe.ParametersLiteral{LogN: 5, Q: []uint64{0x7fff80001}, P: []uint64{0x800280001}, Xs: ring.Ternary{H: 3},
		Xe: ring.Ternary{P: 0.25}, NTTFlag: true, DefaultScale: rlwe.NewScaleModT(77, 257), RingType: ring.ConjugateInvariant})
	return p
}

func rtRLWE(c *eng.Ctx, p rlwe.Parameters, pl rlwe.ParametersLiteral, r *eng.Rand) {
	sig := "C19|rlwe.Parameters|"
	chk := func(enc string, q rlwe.Parameters, err error) {
		c.Count("round_trips", 1)
		if err != nil {
			c.Violate(sig+enc+"|decode-error", fmt.Sprintf("decoding what the object encoded to fails: %v (Q=%v P=%v Xs=%+v Xe=%+v scale=%s)", err, p.Q(), p.P(), p.Xs(), p.Xe(), scaleText(p.DefaultScale())), nil)
			return
		}
		d := diffRLWE(p, q)
		c.Check(d == "", sig+enc+"|not-equal", func() string { return d })
		c.Check(p.Equal(&q) && q.Equal(&p), sig+enc+"|Equal-false", func() string { return "accessors agree: " + fmt.Sprint(d == "") })
	}
	// JSON
	js, err := json.Marshal(p)
	if err != nil {
		c.Violate(sig+"MarshalJSON|error", err.Error(), nil)
		return
	}
	var a rlwe.Parameters
	e := json.Unmarshal(js, &a)
	chk("JSON", a, e)
	if e == nil {
		js2, _ := json.Marshal(a)
		c.Check(bytes.Equal(js, js2), sig+"JSON|re-marshal-differs", func() string { return string(js) + " vs " + string(js2) })
	}
	b := dirtyRLWE()
	e = json.Unmarshal(js, &b)
	chk("JSON-into-used-receiver", b, e)
	// binary
	bin, err := p.MarshalBinary()
	if err != nil {
		c.Violate(sig+"MarshalBinary|error", err.Error(), nil)
		return
	}
	c.Check(len(bin) == p.BinarySize(), sig+"BinarySize|wrong", func() string {
		return fmt.Sprintf("BinarySize()=%d, MarshalBinary gives %d bytes", p.BinarySize(), len(bin))
	})
	var d rlwe.Parameters
	e = d.UnmarshalBinary(bin)
	chk("binary", d, e)
	var buf bytes.Buffer
	nw, e := p.WriteTo(&buf)
	if e != nil || int(nw) != buf.Len() || buf.Len() != p.BinarySize() {
		c.Violate(sig+"WriteTo|wrong-count", fmt.Sprintf("WriteTo reports %d bytes (%v), %d written, BinarySize %d", nw, e, buf.Len(), p.BinarySize()), nil)
	}
	f := dirtyRLWE()
	nr, e := f.ReadFrom(bytes.NewReader(buf.Bytes()))
	chk("WriteTo-ReadFrom", f, e)
	if e == nil {
		c.Check(nr == nw, sig+"ReadFrom|wrong-count", func() string { return fmt.Sprintf("ReadFrom reports %d bytes, WriteTo %d", nr, nw) })
	}
	// literal <-> parameters
	g, e := rlwe.NewParametersFromLiteral(p.ParametersLiteral())
	chk("ParametersLiteral", g, e)
	// the literal itself through JSON, then constructed
	jl, e := json.Marshal(pl)
	if e != nil {
		c.Violate("C19|rlwe.ParametersLiteral|MarshalJSON|error", e.Error(), nil)
		return
	}
	var pl2 rlwe.ParametersLiteral
	if e = json.Unmarshal(jl, &pl2); e != nil {
		c.Violate("C19|rlwe.ParametersLiteral|JSON|decode-error", fmt.Sprintf("%v: %s", e, jl), nil)
		return
	}
	c.Count("round_trips", 1)
	lost := ""
	switch {
	case pl2.LogN != pl.LogN:
		lost = "LogN"
	case pl2.LogNthRoot != pl.LogNthRoot:
		lost = "LogNthRoot"
	case !reflect.DeepEqual(pl2.Q, pl.Q) && (len(pl2.Q) != 0 || len(pl.Q) != 0):
		lost = "Q"
	case !reflect.DeepEqual(pl2.P, pl.P) && (len(pl2.P) != 0 || len(pl.P) != 0):
		lost = "P"
	case !reflect.DeepEqual(pl2.LogQ, pl.LogQ) && (len(pl2.LogQ) != 0 || len(pl.LogQ) != 0):
		lost = "LogQ"
	case !reflect.DeepEqual(pl2.LogP, pl.LogP) && (len(pl2.LogP) != 0 || len(pl.LogP) != 0):
		lost = "LogP"
	case pl2.Xs != pl.Xs:
		lost = "Xs"
	case pl2.Xe != pl.Xe:
		lost = "Xe"
	case pl2.RingType != pl.RingType:
		lost = "RingType"
	case pl2.NTTFlag != pl.NTTFlag:
		lost = "NTTFlag"
	case pl2.DefaultScale.Value.Cmp(&pl.DefaultScale.Value) != 0:
		lost = "DefaultScale"
	}
	if lost != "" {
		c.Violate("C19|rlwe.ParametersLiteral|JSON|field-not-restored|"+lost, fmt.Sprintf("literal %+v encodes to %s which decodes to %+v", pl, jl, pl2), nil)
		return
	}
	h, e := rlwe.NewParametersFromLiteral(pl2)
	if e != nil {
		c.Violate("C19|rlwe.ParametersLiteral|JSON|decode-error", fmt.Sprintf("constructing from the decoded literal fails: %v: %s", e, jl), nil)
	} else if dd := diffRLWE(p, h); dd != "" {
		c.Violate("C19|rlwe.ParametersLiteral|JSON|not-equal", dd+": "+string(jl), nil)
	}
}

func rtBGV(c *eng.Ctx, p bgv.Parameters, pl bgv.ParametersLiteral, r *eng.Rand) {
	sig := "C19|bgv.Parameters|"
	chk := func(enc string, q bgv.Parameters, err error) {
		c.Count("round_trips", 1)
		if err != nil {
			c.Violate(sig+enc+"|decode-error", fmt.Sprintf("%v (Q=%v P=%v t=%d)", err, p.Q(), p.P(), p.PlaintextModulus()), nil)
			return
		}
		if q.RingT() == nil {
			c.Violate(sig+enc+"|not-equal", "decoded object has no plaintext ring", nil)
			return
		}
		d := diffRLWE(p.Parameters, q.Parameters)
		if d == "" && p.PlaintextModulus() != q.PlaintextModulus() {
			d = fmt.Sprintf("t %d vs %d", p.PlaintextModulus(), q.PlaintextModulus())
		}
		if d == "" && (p.RingT().N() != q.RingT().N() || !eqv(p.RingQMul().ModuliChain(), q.RingQMul().ModuliChain())) {
			d = "RingT degree or RingQMul differ"
		}
		c.Check(d == "", sig+enc+"|not-equal", func() string { return d })
		c.Check(p.Equal(&q) && q.Equal(&p), sig+enc+"|Equal-false", nil)
	}
	js, err := json.Marshal(p)
	if err != nil {
		c.Violate(sig+"MarshalJSON|error", err.Error(), nil)
		return
	}
	var a bgv.Parameters
	e := json.Unmarshal(js, &a)
	chk("JSON", a, e)
	if e == nil {
		js2, _ := json.Marshal(a)
		c.Check(bytes.Equal(js, js2), sig+"JSON|re-marshal-differs", func() string { return string(js) + " vs " + string(js2) })
	}
	b, _ := bgv.NewParametersFromLiteral(bgv.ParametersLiteral{LogN: 5, Q: []uint64{0x7fff80001}, P: []uint64{0x800280001}, PlaintextModulus: 97, Xs: ring.Ternary{H: 3}})
	e = json.Unmarshal(js, &b)
	chk("JSON-into-used-receiver", b, e)
	bin, err := p.MarshalBinary()
	if err != nil {
		c.Violate(sig+"MarshalBinary|error", err.Error(), nil)
		return
	}
	var d bgv.Parameters
	e = d.UnmarshalBinary(bin)
	chk("binary", d, e)
	g, e := bgv.NewParametersFromLiteral(p.ParametersLiteral())
	chk("ParametersLiteral", g, e)
	jl, e := json.Marshal(pl)
	if e == nil {
		var pl2 bgv.ParametersLiteral
		if e = json.Unmarshal(jl, &pl2); e == nil {
			h, e2 := bgv.NewParametersFromLiteral(pl2)
			chk("literal-JSON", h, e2)
		} else {
			c.Violate("C19|bgv.ParametersLiteral|JSON|decode-error", fmt.Sprintf("%v: %s", e, jl), nil)
		}
	} else {
		c.Violate("C19|bgv.ParametersLiteral|MarshalJSON|error", e.Error(), nil)
	}
}

func rtCKKS(c *eng.Ctx, p ckks.Parameters, pl ckks.ParametersLiteral, r *eng.Rand) {
	sig := "C19|ckks.Parameters|"
	chk := func(enc string, q ckks.Parameters, err error) {
		c.Count("round_trips", 1)
		if err != nil {
			c.Violate(sig+enc+"|decode-error", fmt.Sprintf("%v (Q=%v P=%v scale 2^%d ring %v)", err, p.Q(), p.P(), p.LogDefaultScale(), p.RingType()), nil)
			return
		}
		d := diffRLWE(p.Parameters, q.Parameters)
		if d == "" && p.LogDefaultScale() != q.LogDefaultScale() {
			d = fmt.Sprintf("LogDefaultScale %d vs %d", p.LogDefaultScale(), q.LogDefaultScale())
		}
		c.Check(d == "", sig+enc+"|not-equal", func() string { return d })
		c.Check(p.Equal(&q) && q.Equal(&p), sig+enc+"|Equal-false", nil)
	}
	js, err := json.Marshal(p)
	if err != nil {
		c.Violate(sig+"MarshalJSON|error", err.Error(), nil)
		return
	}
	var a ckks.Parameters
	e := json.Unmarshal(js, &a)
	chk("JSON", a, e)
	if e == nil {
		js2, _ := json.Marshal(a)
		c.Check(bytes.Equal(js, js2), sig+"JSON|re-marshal-differs", func() string { return string(js) + " vs " + string(js2) })
	}
	b, _ := ckks.NewParametersFromLiteral(ckks.ParametersLiteral{LogN: 5, Q: []uint64{0x800280001}, P: []uint64{0x7ffd80001}, LogDefaultScale: 7, Xs: ring.Ternary{H: 3}, RingType: ring.ConjugateInvariant})
	e = json.Unmarshal(js, &b)
	chk("JSON-into-used-receiver", b, e)
	bin, err := p.MarshalBinary()
	if err != nil {
		c.Violate(sig+"MarshalBinary|error", err.Error(), nil)
		return
	}
	var d ckks.Parameters
	e = d.UnmarshalBinary(bin)
	chk("binary", d, e)
	g, e := ckks.NewParametersFromLiteral(p.ParametersLiteral())
	chk("ParametersLiteral", g, e)
	jl, e := json.Marshal(pl)
	if e == nil {
		var pl2 ckks.ParametersLiteral
		if e = json.Unmarshal(jl, &pl2); e == nil {
			h, e2 := ckks.NewParametersFromLiteral(pl2)
			chk("literal-JSON", h, e2)
		} else {
			c.Violate("C19|ckks.ParametersLiteral|JSON|decode-error", fmt.Sprintf("%v: %s", e, jl), nil)
		}
	} else {
		c.Violate("C19|ckks.ParametersLiteral|MarshalJSON|error", e.Error(), nil)
	}
}

// small bootstrapping parameter objects and literals through their binary (JSON) encodings
func runRTBoot(c *eng.Ctx) {
	r := c.Rand()
	for i, bl := range bootLiterals(r, 8) {
		res, err := bootResidual(bl)
		if err != nil {
			continue
		}
		c.Distinct(fmt.Sprintf("rt|boot|%d", i), true)
		p, err := bootstrapping.NewParametersFromLiteral(res, bl.lit())
		if err != nil {
			continue
		}
		bin, err := p.MarshalBinary()
		if err != nil {
			c.Violate("C19|bootstrapping.Parameters|MarshalBinary|error", err.Error(), bl)
			continue
		}
		var q bootstrapping.Parameters
		c.Count("round_trips", 1)
		if err = q.UnmarshalBinary(bin); err != nil {
			c.Violate("C19|bootstrapping.Parameters|binary|decode-error", err.Error(), bl)
			continue
		}
		d := diffRLWE(p.ResidualParameters.Parameters, q.ResidualParameters.Parameters)
		if d == "" {
			d = diffRLWE(p.BootstrappingParameters.Parameters, q.BootstrappingParameters.Parameters)
		}
		if d == "" && !(reflect.DeepEqual(p.SlotsToCoeffsParameters.Levels, q.SlotsToCoeffsParameters.Levels) && reflect.DeepEqual(p.CoeffsToSlotsParameters.Levels, q.CoeffsToSlotsParameters.Levels) &&
			p.SlotsToCoeffsParameters.LevelQ == q.SlotsToCoeffsParameters.LevelQ && p.CoeffsToSlotsParameters.LevelQ == q.CoeffsToSlotsParameters.LevelQ &&
			p.SlotsToCoeffsParameters.LevelP == q.SlotsToCoeffsParameters.LevelP && p.CoeffsToSlotsParameters.LogSlots == q.CoeffsToSlotsParameters.LogSlots &&
			p.Mod1ParametersLiteral == q.Mod1ParametersLiteral && p.EphemeralSecretWeight == q.EphemeralSecretWeight && p.CircuitOrder == q.CircuitOrder &&
			reflect.DeepEqual(p.IterationsParameters, q.IterationsParameters)) {
			d = "circuit fields differ"
		}
		c.Check(d == "", "C19|bootstrapping.Parameters|binary|not-equal", func() string { return d })
		c.Check(p.Equal(&q), "C19|bootstrapping.Parameters|binary|Equal-false", nil)
	}
	// the literal: MarshalBinary / UnmarshalBinary are provided for it
	lits := []struct {
		name string
		l    bootstrapping.ParametersLiteral
	}{
		{"pointers-only", bootstrapping.ParametersLiteral{LogN: utils.Pointy(12), LogSlots: utils.Pointy(5), LogP: []int{61, 61}, EvalModLogScale: utils.Pointy(55), K: utils.Pointy(12),
			CoeffsToSlotsFactorizationDepthAndLogScales: [][]int{{50}, {50, 3}}, IterationsParameters: &bootstrapping.IterationsParameters{BootstrappingPrecision: []float64{20.5}, ReservedPrimeBitSize: 20}}},
		{"with-Xs", bootstrapping.ParametersLiteral{LogN: utils.Pointy(12), Xs: ring.Ternary{H: 192}}},
		{"with-Xe", bootstrapping.ParametersLiteral{Xe: ring.DiscreteGaussian{Sigma: 3.2, Bound: 19.2}}},
	}
	for _, x := range lits {
		c.Distinct("rt|bootlit|"+x.name, true)
		bin, err := x.l.MarshalBinary()
		if err != nil {
			c.Violate("C19|bootstrapping.ParametersLiteral|MarshalBinary|error", err.Error(), nil)
			continue
		}
		var l2 bootstrapping.ParametersLiteral
		c.Count("round_trips", 1)
		if err = l2.UnmarshalBinary(bin); err != nil {
			cls := "other"
			if x.l.Xs != nil || x.l.Xe != nil {
				cls = "distribution-field-set"
			}
			c.Violate("C19|bootstrapping.ParametersLiteral|binary|decode-error|"+cls, fmt.Sprintf("UnmarshalBinary(MarshalBinary(literal %s)) fails: %v; encoding: %s", x.name, err, bin), nil)
			continue
		}
		c.Check(reflect.DeepEqual(x.l, l2), "C19|bootstrapping.ParametersLiteral|binary|not-equal", func() string { return fmt.Sprintf("%+v vs %+v", x.l, l2) })
	}
}
