package c19

import (
	"github.com/tuneinsight/lattigo/v6/circuits/ckks/bootstrapping"
	"github.com/tuneinsight/lattigo/v6/core/rlwe"
	"github.com/tuneinsight/lattigo/v6/examples"
	"github.com/tuneinsight/lattigo/v6/schemes/bgv"
	"github.com/tuneinsight/lattigo/v6/schemes/ckks"
)

// Bound table: largest log2(QP) for which 128-bit (classical) security is tabulated for a ring
// degree and a secret class.
//
//   - "dense": uniform ternary secrets (density 2/3) or fixed weight >= N/2.
//     log N 10..15: HomomorphicEncryption.org security standard (2018) (classical, 128 bit,
//     uniform ternary secret, sigma = 3.2): 27, 54, 109, 218, 438, 881. These are the values lattigo
//     itself quotes (schemes/ckks/README.md, the names of the sets in examples/params.go).
//     log N 16: 1793 = the largest modulus of the dense (H = N/2) sets of eprint 2022/024,
//     which is the paper the bootstrapping defaults cite and are named after.
//   - "sparse": fixed Hamming weight 192 <= H < N/2, only tabulated by eprint 2022/024 for
//     log N 15 (768) and log N 16 (1553).
//
// The tabulated values are integers (rounded); a measured log2(QP) conforms when it rounds to a
// value <= the entry.
var boundDense = map[int]int{10: 27, 11: 54, 12: 109, 13: 218, 14: 438, 15: 881, 16: 1793}
var boundSparse = map[int]int{15: 768, 16: 1553}

// minimal error standard deviation the tables assume
const tableSigma = 3.19

// minimal Hamming weight of the sparse class
const sparseMinH = 192

// Documented in bootstrapping/parameters_literal.go: "EphemeralSecretWeight: ... by default set to
// 32, which ensure over 128-bit security for an evaluation key of modulus 121 bits".
const ephemeralMinH = 32
const ephemeralMaxLogQP = 121

// shipped is one exported example/default parameter literal.
type shipped struct {
	Name   string // package-qualified variable name
	Kind   string // rlwe | bgv | ckks | boot
	NameQP int    // logQP advertised in the variable name (0 if none)
	rlwe   *rlwe.ParametersLiteral
	bgv    *bgv.ParametersLiteral
	ckks   *ckks.ParametersLiteral
	boot   *bootstrapping.ParametersLiteral // with ckks = residual scheme literal
}

// registry of every exported example / default parameter literal of rlwe, bgv, ckks,
// bootstrapping and examples (go has no reflection over package-level variables, hence a table;
// the slices exported next to the variables are cross-checked against it in runShippedLists).
func registry() []shipped {
	r := []shipped{
		{Name: "rlwe.ExampleParametersLogN14LogQP438", Kind: "rlwe", NameQP: 438, rlwe: &rlwe.ExampleParametersLogN14LogQP438},
		{Name: "bgv.ExampleParameters128BitLogN14LogQP438", Kind: "bgv", NameQP: 438, bgv: &bgv.ExampleParameters128BitLogN14LogQP438},
		{Name: "ckks.ExampleParameters128BitLogN14LogQP438", Kind: "ckks", NameQP: 438, ckks: &ckks.ExampleParameters128BitLogN14LogQP438},

		{Name: "examples.BGVParamsN12QP109", Kind: "bgv", NameQP: 109, bgv: &examples.BGVParamsN12QP109},
		{Name: "examples.BGVParamsN13QP218", Kind: "bgv", NameQP: 218, bgv: &examples.BGVParamsN13QP218},
		{Name: "examples.BGVParamsN14QP438", Kind: "bgv", NameQP: 438, bgv: &examples.BGVParamsN14QP438},
		{Name: "examples.BGVParamsN15QP880", Kind: "bgv", NameQP: 880, bgv: &examples.BGVParamsN15QP880},
		{Name: "examples.BGVScaleInvariantParamsN12QP109", Kind: "bgv", NameQP: 109, bgv: &examples.BGVScaleInvariantParamsN12QP109},
		{Name: "examples.BGVScaleInvariantParamsN13QP218", Kind: "bgv", NameQP: 218, bgv: &examples.BGVScaleInvariantParamsN13QP218},
		{Name: "examples.BGVScaleInvariantParamsN14QP438", Kind: "bgv", NameQP: 438, bgv: &examples.BGVScaleInvariantParamsN14QP438},
		{Name: "examples.BGVScaleInvariantParamsN15QP880", Kind: "bgv", NameQP: 880, bgv: &examples.BGVScaleInvariantParamsN15QP880},

		{Name: "examples.CKKSComplexParamsN12QP109", Kind: "ckks", NameQP: 109, ckks: &examples.CKKSComplexParamsN12QP109},
		{Name: "examples.CKKSComplexParamsN13QP218", Kind: "ckks", NameQP: 218, ckks: &examples.CKKSComplexParamsN13QP218},
		{Name: "examples.CKKSComplexParamsN14QP438", Kind: "ckks", NameQP: 438, ckks: &examples.CKKSComplexParamsN14QP438},
		{Name: "examples.CKKSComplexParamsN15QP881", Kind: "ckks", NameQP: 881, ckks: &examples.CKKSComplexParamsN15QP881},
		{Name: "examples.CKKSComplexParamsPN16QP1761", Kind: "ckks", NameQP: 1761, ckks: &examples.CKKSComplexParamsPN16QP1761},
		{Name: "examples.CKKSRealParamsN12QP109", Kind: "ckks", NameQP: 109, ckks: &examples.CKKSRealParamsN12QP109},
		{Name: "examples.CKKSRealParamsN13QP218", Kind: "ckks", NameQP: 218, ckks: &examples.CKKSRealParamsN13QP218},
		{Name: "examples.CKKSRealParamsN14QP438", Kind: "ckks", NameQP: 438, ckks: &examples.CKKSRealParamsN14QP438},
		{Name: "examples.CKKSRealParamsN15QP881", Kind: "ckks", NameQP: 881, ckks: &examples.CKKSRealParamsN15QP881},
		{Name: "examples.CKKSRealParamsPN16QP1761", Kind: "ckks", NameQP: 1761, ckks: &examples.CKKSRealParamsPN16QP1761},

		{Name: "bootstrapping.N16QP1546H192H32", Kind: "boot", NameQP: 1546, ckks: &bootstrapping.N16QP1546H192H32.SchemeParams, boot: &bootstrapping.N16QP1546H192H32.BootstrappingParams},
		{Name: "bootstrapping.N16QP1547H192H32", Kind: "boot", NameQP: 1547, ckks: &bootstrapping.N16QP1547H192H32.SchemeParams, boot: &bootstrapping.N16QP1547H192H32.BootstrappingParams},
		{Name: "bootstrapping.N16QP1553H192H32", Kind: "boot", NameQP: 1553, ckks: &bootstrapping.N16QP1553H192H32.SchemeParams, boot: &bootstrapping.N16QP1553H192H32.BootstrappingParams},
		{Name: "bootstrapping.N15QP768H192H32", Kind: "boot", NameQP: 768, ckks: &bootstrapping.N15QP768H192H32.SchemeParams, boot: &bootstrapping.N15QP768H192H32.BootstrappingParams},
		{Name: "bootstrapping.N16QP1767H32768H32", Kind: "boot", NameQP: 1767, ckks: &bootstrapping.N16QP1767H32768H32.SchemeParams, boot: &bootstrapping.N16QP1767H32768H32.BootstrappingParams},
		{Name: "bootstrapping.N16QP1788H32768H32", Kind: "boot", NameQP: 1788, ckks: &bootstrapping.N16QP1788H32768H32.SchemeParams, boot: &bootstrapping.N16QP1788H32768H32.BootstrappingParams},
		{Name: "bootstrapping.N16QP1793H32768H32", Kind: "boot", NameQP: 1793, ckks: &bootstrapping.N16QP1793H32768H32.SchemeParams, boot: &bootstrapping.N16QP1793H32768H32.BootstrappingParams},
		{Name: "bootstrapping.N15QP880H16384H32", Kind: "boot", NameQP: 880, ckks: &bootstrapping.N15QP880H16384H32.SchemeParams, boot: &bootstrapping.N15QP880H16384H32.BootstrappingParams},
	}
	return r
}
