// Package c19: accepted parameters are sound; shipped sets meet their 128-bit security claim.
//
// Oracles (all independent of the constructors under test):
//
//	(a) acceptance => soundness: every literal a constructor accepts is immediately exercised:
//	    NTT round trip / product against exact models on every modulus of Q and P with extreme
//	    inputs, secret- and public-key encryption + decryption against worst-case noise bounds,
//	    BGV / CKKS encode-decode (also through encryption);
//	(b) a reference validator (own primality test, congruences, distinctness, documented ranges)
//	    decides for every generated literal whether a stated requirement is violated; such a literal
//	    must be refused with an error: acceptance, a panic or a hang is a violation;
//	(c) moduli generated from size requests: independent primality, congruence mod the requested
//	    root order, half-bit size window, distinctness, counts;
//	(d) JSON / binary / literal round trips compared through accessors (not only through Equal);
//	(e) exported example/default sets: log2(QP) recomputed with math/big against the bound table;
//	(f) derived quantities recomputed from their definitions.
package c19

import (
	"fmt"
	"strings"

	"github.com/tuneinsight/lattigo/v6/core/rlwe"
	"github.com/tuneinsight/lattigo/v6/schemes/bgv"
	"github.com/tuneinsight/lattigo/v6/schemes/ckks"

	"verif/harness/eng"
	"verif/harness/gen"
)

func init() {
	eng.Register(&eng.Monitor{
		ID: "C19", Level: "exploration",
		Rule:  "cases: lit/* = batches of generated rlwe/bgv/ckks parameter literals (a valid boundary-heavy base literal with explicit primes, then at most one mutation out of ~55: logN outside [4,20], duplicate/composite/non-NTT-friendly/oversized primes, empty or doubly specified moduli, size requests of every size incl. custom root orders, invalid ring type/distributions, plaintext-modulus and default-scale classes); a reference validator decides whether the literal must be refused, may be refused, or must be accepted, and every accepted literal is exercised (ring arithmetic, encryption/decryption, encoding). gen/* = rlwe.GenModuli and ring.NTTFriendlyPrimesGenerator for every size 1..61 at one root order; rt/* = JSON/binary/literal round trips; derived/* = accessors vs definitions; shipped/* = one case per exported example/default set; boot/* = bootstrapping literals at small ring degree; lit/boundary-logN* = the ends of the admissible ring degrees (logN 3, 4, 20, 21) with primes that fit every degree; hang/* = size requests whose effective root order is >= 2^62, run under a 10 s deadline; ringc/* = direct calls of ring.NewRing / NewRingConjugateInvariant / NewRingFromType / NewRingWithCustomNTT (a valid call, then at most one mutation out of ~20: degree not a power of two or below 8, empty/duplicate/composite/zero/non-NTT-friendly moduli, primes of the other ring type, invalid ring type, 1 or up to 16 moduli) judged by a reference validator, every accepted ring exercised (accessors, reduction constants, factor lists and primitive roots of the sub-rings, arithmetic, ring-type conversion at a random level, binary and JSON encodings) and ring.Type through JSON; prim/* = ring.IsPrime and factorization.IsPrime against exact answers (trial division, known primes, Carmichael numbers and strong pseudoprimes), GetFactors / GetFactorPollardRho / GetFactorECM on integers whose prime factors are known by construction, PrimitiveRoot / CheckFactors / CheckPrimitiveRoot on NTT-friendly primes; gen/plural/* = the k-prime generator calls against k single calls, gen/generator-62-63/* = the generator at sizes 62 and 63; direct/* = rlwe.NewParameters, bgv.NewParameters and rlwe.CheckModuli called with the values of generated literals, differentially against the literal constructors and the reference validator (also rlwe parameters over the conjugate-invariant ring, with NTTFlag = false and the zero value given to bgv.NewParameters; distributions of foreign types; the documented noiseless instance), accessors not reached by derived/*, and parameter objects obtained through JSON, binary, ParametersLiteral, GetRLWEParameters and StandardParameters exercised like constructed ones; bootlit/* = defaults and refusals of the bootstrapping literal's getters, BitConsumption against the modulus the constructor adds. distinct key = (scheme, mutation, logN, ring type, #Q, #P, prime bit-lengths or requested sizes, distribution kinds, plaintext-modulus/scale class) for literals, (function, root order, size, count) for generators, (object kind, encoding, variant) for round trips, set name for shipped sets, (constructor, mutation, degree, ring type, modulus bit-lengths) for ring constructor calls, (class, bit-length) for primality/factorisation/primitive-root instances, (circuit class, Mod1 type, K, degrees) for BitConsumption; non-trivial = the literal is mutated, or carries a prime of <= logNthRoot+3 or >= 59 bits, or a size request, or a non-default distribution/ring type; generator requests with count >= 2 or size within 3 of the root order or >= 59; every round-trip, derived, shipped, boot, hang, ringc, prim, direct and bootlit case.",
		Cases: cases,
		Assumptions: []string{
			"math/big (ProbablyPrime(24), products, comparisons) and the harness reference arithmetic are correct",
			"the security bound table of mon/c19/table.go (HomomorphicEncryption.org standard for log N 10..15, the envelope of eprint 2022/024 for log N 16 and for sparse secrets) is the claim being checked; no lattice estimator is run",
			"sizes of explicit primes between the documented maximum (60 bits for Q, 61 for P) and what CheckModuli's code refuses (63 / 64 bits) may be accepted or refused; if accepted the context must be sound",
			"noise bounds are worst-case bounds derived from the declared distributions (truncation bound of the Gaussian, |s| <= 1 or the Gaussian bound)",
			"a call that does not return within 10 s although the same call with valid arguments takes milliseconds is a hang",
			"ring-level constructors are only given moduli of at most 61 bits (the sizes the scheme constructors let through) and the root orders 2N / 4N their documentation names; a ring degree of 8 may be accepted or refused",
			"bootstrapping.ParametersLiteral.BitConsumption is compared with the modulus the constructor adds minus the residual default scale that parameters.go folds into the SlotsToCoeffs primes (the literal cannot know it)",
		},
	})
}

func sizeTag(bits []int) string {
	return strings.Trim(strings.Join(strings.Fields(fmt.Sprint(bits)), ","), "[]")
}

func bitLens(v []uint64) []int {
	o := make([]int, len(v))
	for i, x := range v {
		o[i] = bitlen(x)
	}
	return o
}

func bitlen(x uint64) int {
	n := 0
	for ; x != 0; x >>= 1 {
		n++
	}
	return n
}

func (l lit) key() (string, bool) {
	tcls := ""
	switch l.Scheme {
	case "bgv":
		tcls = fmt.Sprintf("t%d/%d", bitlen(l.T), l.T%32)
	case "ckks":
		tcls = fmt.Sprintf("s%d", l.LogScale)
	case "rlwe":
		tcls = fmt.Sprintf("s%g/%v", l.Scale, l.NTT)
	}
	k := fmt.Sprintf("%s|%s|%d|%d|r%d|Q%s|P%s|lq%s|lp%s|%s%d|%s|%s", l.Scheme, l.Mut, l.LogN, l.LogNthRoot, l.Ring,
		sizeTag(bitLens(l.Q)), sizeTag(bitLens(l.P)), sizeTag(l.LogQ), sizeTag(l.LogP), l.Xs.Kind, l.Xs.H, l.Xe.Kind, tcls)
	nt := l.Mut != "none" || l.Ring != 0 || l.Xs.Kind != "" || l.Xe.Kind != "" || l.LogQ != nil || l.LogP != nil
	lnr := l.effLogNthRoot()
	for _, q := range append(append([]uint64{}, l.Q...), l.P...) {
		if b := bitlen(q); b <= lnr+3 || b >= 59 {
			nt = true
		}
	}
	return k, nt
}

// accepted context of any scheme
type ctxt struct {
	rl rlwe.Parameters
	bg *bgv.Parameters
	ck *ckks.Parameters
}

func construct(l lit) (ctxt, error) {
	switch l.Scheme {
	case "bgv":
		p, err := bgv.NewParametersFromLiteral(l.bgvLit())
		return ctxt{rl: p.Parameters, bg: &p}, err
	case "ckks":
		p, err := ckks.NewParametersFromLiteral(l.ckksLit())
		return ctxt{rl: p.Parameters, ck: &p}, err
	}
	p, err := rlwe.NewParametersFromLiteral(l.rlweLit())
	return ctxt{rl: p}, err
}

// entry point a rule belongs to (all wrappers funnel the rlwe-level rules into rlwe.NewParametersFromLiteral)
func ruleEntry(l lit, rule string) string {
	switch {
	case strings.HasPrefix(rule, "t-"):
		return "bgv.NewParametersFromLiteral"
	case strings.HasPrefix(rule, "LogDefaultScale"):
		return "ckks.NewParametersFromLiteral"
	}
	return "rlwe.NewParametersFromLiteral"
}

func sizeClass(v verdict) string {
	if len(v.Gray) == 0 {
		return "documented-domain"
	}
	seen := map[string]bool{}
	var u []string
	for _, g := range v.Gray {
		if !seen[g] {
			seen[g] = true
			u = append(u, g)
		}
	}
	return strings.Join(u, "+")
}

// checkGenerated judges the moduli a size request produced (clause (c)) on an accepted literal.
func checkGenerated(l lit, p rlwe.Parameters) (fs []failure) {
	if l.LogQ == nil && l.LogP == nil {
		return
	}
	eff := l.effLogNthRoot()
	seen := map[uint64]bool{}
	one := func(name string, got []uint64, req []int) {
		if req == nil {
			return
		}
		if len(got) != len(req) {
			fs = append(fs, failure{"wrong-count", fmt.Sprintf("%s: %d sizes requested %v, %d moduli returned %v", name, len(req), req, len(got), got)})
			return
		}
		for i, q := range got {
			b := req[i]
			switch {
			case !gen.IsPrime(q):
				fs = append(fs, failure{"not-prime", fmt.Sprintf("%s[%d]=%d for size %d", name, i, q, b)})
			case eff < 63 && q%(uint64(1)<<eff) != 1:
				fs = append(fs, failure{"not-1-mod-NthRoot", fmt.Sprintf("%s[%d]=%d for size %d is not 1 mod 2^%d (LogN=%d, LogNthRoot=%d, ring type %d)", name, i, q, b, eff, l.LogN, l.LogNthRoot, l.Ring)})
			case !halfBitWindow(q, b):
				fs = append(fs, failure{"wrong-size", fmt.Sprintf("%s[%d]=%d (log2 = %.3f) for requested size %d", name, i, q, log2u(q), b)})
			case b == 61 && q > uint64(1)<<61:
				fs = append(fs, failure{"wrong-size", fmt.Sprintf("%s[%d]=%d above 2^61 for size 61 (GenModuli generates 61-bit primes downwards)", name, i, q)})
			}
			if seen[q] {
				fs = append(fs, failure{"duplicate", fmt.Sprintf("%s[%d]=%d generated twice", name, i, q)})
			}
			seen[q] = true
		}
	}
	if l.LogQ != nil {
		one("Q", p.Q(), l.LogQ)
	} else {
		for _, q := range p.Q() {
			seen[q] = true
		}
	}
	if l.LogP != nil {
		one("P", p.P(), l.LogP)
	}
	return
}

type litStats struct {
	sound                                                soundStats
	accepted, refused, mustReject, mustAccept, gray, gen int
}

// runLit is the judgement of one literal.
func runLit(c *eng.Ctx, l lit, st *litStats) {
	v := refValidate(l)
	key, nt := l.key()
	c.Distinct(key, nt)
	c.Eval(1)
	switch {
	case v.mustReject():
		st.mustReject++
	case v.mustAccept():
		st.mustAccept++
	default:
		st.gray++
	}
	var cx ctxt
	var err error
	entry := l.Scheme + ".NewParametersFromLiteral"
	if p, pv := eng.Panics(func() { cx, err = construct(l) }); p {
		cls := "valid-literal"
		if len(v.Bad) > 0 {
			cls = v.Bad[0]
		} else if len(v.Gray) > 0 {
			cls = v.Gray[0]
		}
		c.Violate("C19|"+entry+"|panic|"+cls, fmt.Sprintf("panic instead of an error: %v; literal violates %v (gray %v)", pv, v.Bad, v.Gray), l)
		return
	}
	if err != nil {
		st.refused++
		c.Count("errors_observed", 1)
		if v.mustAccept() {
			c.Violate("C19|"+entry+"|error-on-admissible|"+l.Mut, fmt.Sprintf("literal satisfies every documented requirement but is refused: %v", err), l)
		}
		return
	}
	st.accepted++
	rnd := c.Rand()
	var fs []failure
	if l.LogQ != nil || l.LogP != nil {
		st.gen++
		for _, f := range checkGenerated(l, cx.rl) {
			c.Violate("C19|rlwe.NewParametersFromLiteral|wrong-generated-moduli|"+f.Check, f.Detail, l)
		}
		c.Eval(1)
	}
	fs = append(fs, soundRLWE(cx.rl, rnd, &st.sound)...)
	var sfs []failure
	if cx.bg != nil {
		if cx.bg.PlaintextModulus() != l.T {
			sfs = append(sfs, failure{"plaintext-modulus-differs", fmt.Sprintf("PlaintextModulus()=%d literal %d", cx.bg.PlaintextModulus(), l.T)})
		}
		sfs = append(sfs, soundBGV(*cx.bg, rnd, &st.sound)...)
	}
	if cx.ck != nil {
		sfs = append(sfs, soundCKKS(*cx.ck, rnd, &st.sound)...)
	}
	c.Eval(3)
	if v.mustReject() {
		var d []string
		for _, f := range append(fs, sfs...) {
			d = append(d, f.Check+": "+f.Detail)
		}
		what := "the accepted context passed the soundness checks that were run"
		if len(d) > 0 {
			what = "the accepted context is unsound: " + strings.Join(d, "; ")
		}
		c.Violate("C19|"+ruleEntry(l, v.Bad[0])+"|accepted-invalid|"+v.Bad[0], fmt.Sprintf("literal violates %v but is accepted; %s", v.Bad, what), l)
		c.Count("invalid_accepted", 1)
		return
	}
	for _, x := range classify(l, v, entry, fs, sfs) {
		c.Violate(x.Check, x.Detail, l)
	}
}

// classify turns the failed soundness checks of one accepted literal into violations. Failures
// that are consequences of one cause the literal itself exhibits are reported once, under a
// signature that names the cause (computed from the literal, not from the failure text).
func classify(l lit, v verdict, entry string, fs, sfs []failure) (out []failure) {
	all := append(append([]failure{}, fs...), sfs...)
	isScheme := map[string]bool{}
	for _, f := range sfs {
		isScheme[f.Check] = true
	}
	var rest []failure
	for _, f := range all {
		switch {
		case f.Check == "bgv-qmul-shares-prime-with-Q":
			out = append(out, failure{"C19|bgv.NewParametersFromLiteral|accepted-unsound|" + f.Check, f.Detail})
		case f.Check == "bgv-encode-decode|t-above-half-Q0":
			out = append(out, failure{"C19|bgv.NewParametersFromLiteral|accepted-unsound|" + f.Check, f.Detail})
		default:
			rest = append(rest, f)
		}
	}
	if len(rest) == 0 {
		return
	}
	// moduli larger than the documented maximum that the constructor nevertheless accepted
	big := ""
	for _, tag := range []string{"P-bitlen-63", "Q-bitlen-62", "P-bitlen-62", "Q-bitlen-61"} {
		for _, g := range v.Gray {
			if g == tag && big == "" {
				big = tag
			}
		}
	}
	if big != "" {
		var d []string
		for _, f := range rest {
			d = append(d, f.Check+": "+f.Detail)
		}
		out = append(out, failure{"C19|rlwe.NewParametersFromLiteral|accepted-unsound|modulus-beyond-documented-size|" + big, strings.Join(d, "; ")})
		return
	}
	// fixed-weight ternary error distribution: every encryption-type check fails for one reason
	if l.Xe.Kind == "th" {
		enc := true
		for _, f := range rest {
			if !(strings.HasPrefix(f.Check, "decrypt-") || strings.HasSuffix(f.Check, "-encrypt-decrypt")) {
				enc = false
			}
		}
		if enc {
			var d []string
			for _, f := range rest {
				d = append(d, f.Check+": "+f.Detail)
			}
			out = append(out, failure{"C19|rlwe.NewParametersFromLiteral|accepted-unsound|encryption|xe-ternary-fixed-weight", strings.Join(d, "; ")})
			return
		}
	}
	cls := sizeClass(v)
	for _, f := range rest {
		e := "rlwe.NewParametersFromLiteral"
		if isScheme[f.Check] {
			e = entry
		}
		out = append(out, failure{"C19|" + e + "|accepted-unsound|" + f.Check + "|" + cls, f.Detail})
	}
	return
}

func flushStats(c *eng.Ctx, st *litStats) {
	c.Count("literals", int64(st.accepted+st.refused))
	c.Count("literals_accepted", int64(st.accepted))
	c.Count("literals_refused", int64(st.refused))
	c.Count("literals_must_reject", int64(st.mustReject))
	c.Count("literals_must_accept", int64(st.mustAccept))
	c.Count("literals_gray", int64(st.gray))
	c.Count("literals_with_generated_moduli_accepted", int64(st.gen))
	c.Count("ring_arithmetic_checks", int64(st.sound.ringOps))
	c.Count("noise_measurements", int64(st.sound.encDec))
	c.Count("encode_decode_checks", int64(st.sound.encodings))
	c.Count("vacuous_noise_checks_skipped", int64(st.sound.vacuous))
	c.Max("max_fresh_noise_within_bound_log2_x10", int64(10*st.sound.maxNoiseLog2))
}

func cases(tier string, seed int64) []eng.Case {
	var out []eng.Case
	out = append(out, litCases(tier, seed)...)
	out = append(out, genCases(tier, seed)...)
	out = append(out, rtCases(tier, seed)...)
	out = append(out, derivedCases(tier, seed)...)
	out = append(out, shippedCases(tier, seed)...)
	out = append(out, bootCases(tier, seed)...)
	out = append(out, ringCases(tier, seed)...)
	out = append(out, primCases(tier, seed)...)
	out = append(out, directCases(tier, seed)...)
	out = append(out, hangCases(tier, seed)...) // last: a hanging call keeps spinning until the worker exits
	return out
}

// litCases: batches of generated literals. Every (scheme, mutation) pair occurs at least once per
// run; the rest of the budget is drawn at random.
func litCases(tier string, seed int64) []eng.Case {
	perBatch, batches := 24, 150
	logNs := []int{4, 4, 5, 5, 6, 6, 7, 8, 8, 9, 10}
	if tier == "thorough" {
		perBatch, batches = 40, 900
		logNs = []int{4, 4, 5, 5, 6, 6, 7, 7, 8, 8, 9, 9, 10, 10, 11, 12}
	}
	// distinct mutation names
	var muts []string
	seen := map[string]bool{}
	for _, m := range mutations {
		if !seen[m] {
			seen[m] = true
			muts = append(muts, m)
		}
	}
	schemes := []string{"rlwe", "bgv", "ckks"}
	var out []eng.Case
	for b := 0; b < batches; b++ {
		b := b
		id := fmt.Sprintf("lit/%03d", b)
		out = append(out, eng.Case{ID: id, Sig: "C19|literals", Desc: map[string]any{"batch": b, "literals": perBatch},
			Run: func(c *eng.Ctx) {
				r := c.Rand().Sub("gen")
				st := &litStats{}
				sampled := false
				for i := 0; i < perBatch; i++ {
					idx := b*perBatch + i
					scheme := schemes[idx%3]
					var m string
					sc := schemeClasses(scheme)
					switch k := idx / 3; {
					case k < len(muts)*2:
						m = muts[k%len(muts)] // systematic part: every mutation twice per scheme
					case k < len(muts)*2+len(sc)*3:
						m = "scheme/" + sc[(k-len(muts)*2)%len(sc)] // every scheme-level class three times
					default:
						m = eng.Pick(r, mutations...)
					}
					base, ok := baseLit(r, scheme, logNs)
					if !ok {
						continue
					}
					l := mutate(r, base, m)
					if l.effLogNthRoot() >= 62 && (l.LogQ != nil || l.LogP != nil) {
						continue // would hang (see hang/* cases)
					}
					if !sampled && m != "none" {
						sampled = true
						c.Sample(map[string]any{"kind": "literal", "literal": l, "verdict": refValidate(l)})
					}
					runLit(c, l, st)
				}
				flushStats(c, st)
			}})
	}
	// the ends of the admissible ring degrees, with primes that are NTT-friendly for every degree up
	// to 2^22 (so that only the degree decides): MinLogN-1, MinLogN, MaxLogN, MaxLogN+1
	for _, ln := range []int{minLogN - 1, minLogN, maxLogN, maxLogN + 1} {
		for _, rt := range []int{0, 1} {
			if ln == maxLogN && rt == 1 && tier != "thorough" {
				continue
			}
			ln, rt := ln, rt
			out = append(out, eng.Case{ID: fmt.Sprintf("lit/boundary-logN%d-ring%d", ln, rt), Sig: "C19|literals", Desc: map[string]int{"logN": ln, "ring": rt},
				Run: func(c *eng.Ctx) {
					q := gen.Primes(45, 1<<24, 2, gen.PosAbove, nil)
					p := gen.Primes(50, 1<<24, 1, gen.PosBelow, nil)
					st := &litStats{}
					for _, scheme := range []string{"rlwe", "ckks", "bgv"} {
						if ln == maxLogN && scheme != "rlwe" || scheme == "bgv" && rt == 1 {
							continue // one full-size context is enough
						}
						l := lit{Scheme: scheme, LogN: ln, Q: q, P: p, Ring: rt, NTT: true, LogScale: 30, T: 65537, Mut: "boundary-logN"}
						runLit(c, l, st)
					}
					flushStats(c, st)
				}})
		}
	}
	return out
}
