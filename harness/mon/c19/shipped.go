package c19

import (
	"encoding/json"
	"fmt"
	"math"
	"math/big"
	"reflect"
	"strings"

	"github.com/tuneinsight/lattigo/v6/circuits/ckks/bootstrapping"
	"github.com/tuneinsight/lattigo/v6/core/rlwe"
	"github.com/tuneinsight/lattigo/v6/examples"
	"github.com/tuneinsight/lattigo/v6/ring"
	"github.com/tuneinsight/lattigo/v6/schemes/bgv"
	"github.com/tuneinsight/lattigo/v6/schemes/ckks"
	"github.com/tuneinsight/lattigo/v6/utils"

	"verif/harness/eng"
	"verif/harness/gen"
)

func shippedCases(tier string, seed int64) []eng.Case {
	var out []eng.Case
	for _, s := range registry() {
		s := s
		out = append(out, eng.Case{ID: "shipped/" + s.Name, Sig: "C19|" + s.Name, Desc: map[string]any{"set": s.Name, "kind": s.Kind},
			Run: func(c *eng.Ctx) { runShipped(c, s, tier) }})
	}
	out = append(out, eng.Case{ID: "shipped/lists", Sig: "C19|exported-lists", Desc: "exported slices of parameter sets", Run: runShippedLists})
	return out
}

// measured log2 of the product of the moduli, with math/big.
func measureLogQP(p rlwe.Parameters) (logQ, logP float64) {
	logQ = log2Big(bigProd(p.Q()))
	if len(p.P()) > 0 {
		logP = log2Big(bigProd(p.P()))
	}
	return
}

// secretClass classifies the secret distribution for the bound table.
func secretClass(p rlwe.Parameters, dist ring.DistributionParameters) (class string, h int) {
	n := p.N()
	switch xs := dist.(type) {
	case ring.Ternary:
		if xs.H != 0 {
			if 2*xs.H >= n {
				return "dense", xs.H
			}
			return "sparse", xs.H
		}
		if xs.P >= 0.5 {
			return "dense", int(float64(n) * xs.P)
		}
		return "sparse", int(float64(n) * xs.P)
	case ring.DiscreteGaussian:
		return "dense", n
	}
	return "unknown", 0
}

// judgeSecurity checks one accepted context against the bound table. name is the set, what says
// which context of the set (residual / bootstrapping / the set itself).
func judgeSecurity(c *eng.Ctx, name, what string, p rlwe.Parameters, xs ring.DistributionParameters) (total float64) {
	lq, lp := measureLogQP(p)
	total = lq + lp
	class, h := secretClass(p, xs)
	sig := "C19|" + name + "|"
	suffix := ""
	if what != "" {
		suffix = "|" + what
	}
	c.Eval(1)
	c.Count("security_judgements", 1)
	var bound int
	var ok bool
	switch class {
	case "dense":
		bound, ok = boundDense[p.LogN()]
	case "sparse":
		if h < sparseMinH {
			c.Violate(sig+"secret-sparser-than-any-tabulated-class"+suffix, fmt.Sprintf("%s %s: secret %+v has weight %d < %d, no tabulated 128-bit bound covers it", name, what, xs, h, sparseMinH), nil)
			return
		}
		bound, ok = boundSparse[p.LogN()]
	default:
		c.Violate(sig+"secret-distribution-not-tabulated"+suffix, fmt.Sprintf("%+v", xs), nil)
		return
	}
	if !ok {
		if p.LogN() > 16 {
			// larger rings only get safer for the same modulus: use the largest tabulated degree
			if class == "dense" {
				bound = boundDense[16]
			} else {
				bound = boundSparse[16]
			}
		} else {
			c.Violate(sig+"no-tabulated-bound-for-ring-degree"+suffix, fmt.Sprintf("%s %s: log N = %d with a %s secret (%+v) has no entry in the 128-bit table", name, what, p.LogN(), class, xs), nil)
			return
		}
	}
	switch xe := p.Xe().(type) {
	case ring.DiscreteGaussian:
		if xe.Sigma < tableSigma {
			c.Violate(sig+"error-narrower-than-the-table-assumes"+suffix, fmt.Sprintf("sigma = %v < 3.2", xe.Sigma), nil)
		}
	default:
		c.Violate(sig+"error-distribution-not-tabulated"+suffix, fmt.Sprintf("%+v", p.Xe()), nil)
	}
	c.Max("max_logQP_over_bound_x1000", int64(1000*total/float64(bound)))
	if math.Round(total) > float64(bound) {
		c.Violate(sig+"logQP-above-128bit-bound"+suffix, fmt.Sprintf("%s %s: measured log2(QP) = %.2f (log2 Q = %.2f over %d primes, log2 P = %.2f over %d primes) exceeds the tabulated 128-bit bound %d for log N = %d with a %s secret (%+v)",
			name, what, total, lq, p.QCount(), lp, p.PCount(), bound, p.LogN(), class, xs), nil)
	}
	return
}

func runShipped(c *eng.Ctx, s shipped, tier string) {
	c.Distinct("shipped|"+s.Name, true)
	var rl rlwe.Parameters
	var err error
	var bg *bgv.Parameters
	var ck *ckks.Parameters
	entry := map[string]string{"rlwe": "rlwe", "bgv": "bgv", "ckks": "ckks", "boot": "ckks"}[s.Kind] + ".NewParametersFromLiteral"
	if pn, pv := eng.Panics(func() {
		switch s.Kind {
		case "rlwe":
			rl, err = rlwe.NewParametersFromLiteral(*s.rlwe)
		case "bgv":
			var p bgv.Parameters
			p, err = bgv.NewParametersFromLiteral(*s.bgv)
			rl, bg = p.Parameters, &p
		default:
			var p ckks.Parameters
			p, err = ckks.NewParametersFromLiteral(*s.ckks)
			rl, ck = p.Parameters, &p
		}
	}); pn {
		c.Violate("C19|"+s.Name+"|panic", fmt.Sprintf("%s panics on the shipped literal: %v", entry, pv), nil)
		return
	}
	if err != nil {
		c.Violate("C19|"+s.Name+"|rejected-as-shipped", fmt.Sprintf("%s refuses the shipped literal: %v", entry, err), nil)
		return
	}
	sample := map[string]any{"kind": "shipped", "set": s.Name, "logN": rl.LogN()}
	what := ""
	if s.Kind == "boot" {
		what = "residual"
	}
	total := judgeSecurity(c, s.Name, what, rl, rl.Xs())
	sample["logQP"] = math.Round(total*100) / 100
	measured := total
	// structure of the accepted set
	seen := map[uint64]bool{}
	nth := uint64(rl.NthRoot())
	okm := true
	for _, q := range rl.QP() {
		okm = okm && gen.IsPrime(q) && q%nth == 1 && !seen[q]
		seen[q] = true
	}
	c.Check(okm, "C19|"+s.Name+"|moduli-not-distinct-NTT-friendly-primes", func() string { return fmt.Sprint(rl.QP()) })

	if s.Kind == "boot" {
		measured = runShippedBoot(c, s, *ck, sample, tier)
	}
	// name / comment drift is recorded, not judged (a smaller modulus than advertised is not a violation of the bound)
	if s.NameQP != 0 && measured > 0 {
		drift := math.Round(measured) - float64(s.NameQP)
		sample["logQP_in_name"] = s.NameQP
		switch {
		case drift > 1:
			c.Count("sets_with_logQP_above_name_by_more_than_1", 1)
		case drift < -1:
			c.Count("sets_with_logQP_below_name_by_more_than_1", 1)
		default:
			c.Count("sets_with_logQP_matching_name", 1)
		}
	}
	c.Sample(sample)

	// round trip and soundness of the shipped context (degree permitting)
	r := c.Rand()
	switch {
	case bg != nil:
		rtBGV(c, *bg, *s.bgv, r)
	case ck != nil:
		rtCKKS(c, *ck, *s.ckks, r)
	default:
		js, e := json.Marshal(rl)
		var q rlwe.Parameters
		if e == nil {
			e = json.Unmarshal(js, &q)
		}
		c.Check(e == nil && diffRLWE(rl, q) == "", "C19|rlwe.Parameters|JSON|not-equal", func() string { return fmt.Sprint(e, diffRLWE(rl, q)) })
	}
	limit := 13
	if tier == "thorough" {
		limit = 16
	}
	if rl.LogN() <= limit {
		var st soundStats
		fs := soundRLWE(rl, r, &st)
		if bg != nil && rl.LogN() <= limit-1 {
			fs = append(fs, soundBGV(*bg, r, &st)...)
		}
		if ck != nil && rl.LogN() <= limit-1 {
			fs = append(fs, soundCKKS(*ck, r, &st)...)
		}
		for _, f := range fs {
			c.Violate("C19|"+s.Name+"|accepted-unsound|"+f.Check, f.Detail, nil)
		}
		c.Eval(3)
		c.Count("ring_arithmetic_checks", int64(st.ringOps))
		c.Count("noise_measurements", int64(st.encDec))
		c.Count("encode_decode_checks", int64(st.encodings))
		c.Count("shipped_sets_exercised", 1)
	}
}

// runShippedBoot instantiates the bootstrapping parameters of a default set and judges the
// largest modulus in use (the bootstrapping context) and the sparse-secret encapsulation.
func runShippedBoot(c *eng.Ctx, s shipped, res ckks.Parameters, sample map[string]any, tier string) float64 {
	build := func(l bootstrapping.ParametersLiteral) (p bootstrapping.Parameters, err error, pv any) {
		if pn, v := eng.Panics(func() { p, err = bootstrapping.NewParametersFromLiteral(res, l) }); pn {
			pv = v
		}
		return
	}
	usedLit := *s.boot
	p, err, pv := build(*s.boot)
	if pv != nil {
		c.Violate("C19|"+s.Name+"|panic", fmt.Sprintf("bootstrapping.NewParametersFromLiteral panics on the shipped literal: %v", pv), nil)
		return 0
	}
	asShipped := true
	if err != nil {
		asShipped = false
		c.Violate("C19|"+s.Name+"|rejected-as-shipped", fmt.Sprintf("bootstrapping.NewParametersFromLiteral(residual, %s.BootstrappingParams) fails: %v (the literal leaves LogN unset, i.e. %d, while the scheme literal has LogN = %d)",
			s.Name, err, bootstrapping.DefaultLogN, res.LogN()), nil)
		// the only reading under which the set's name makes sense: bootstrap in the ring of the scheme parameters
		l := *s.boot
		if l.LogN == nil {
			l.LogN = utils.Pointy(res.LogN())
			p, err, pv = build(l)
			usedLit = l
		}
		if err != nil || pv != nil {
			return 0
		}
	}
	what := "bootstrapping"
	if !asShipped {
		what = "bootstrapping-with-LogN-of-the-scheme-literal"
	}
	// the secret the bootstrapping keys are generated under (keys.go, GenEvaluationKeys): the user's
	// residual secret when both contexts share the ring degree, a fresh one drawn from the bootstrapping
	// context's own distribution otherwise
	xs := p.BootstrappingParameters.Xs()
	if p.BootstrappingParameters.N() == res.N() {
		xs = res.Xs()
	}
	total := judgeSecurity(c, s.Name, what, p.BootstrappingParameters.Parameters, xs)
	sample["bootstrapping_logQP"] = math.Round(total*100) / 100
	sample["bootstrapping_logN"] = p.BootstrappingParameters.LogN()
	// sparse-secret encapsulation: key of modulus Q[0]*P[0] under a secret of weight EphemeralSecretWeight
	if p.EphemeralSecretWeight != 0 {
		bp := p.BootstrappingParameters
		m := new(big.Int).SetUint64(bp.Q()[0])
		if bp.PCount() > 0 {
			m.Mul(m, new(big.Int).SetUint64(bp.P()[0]))
		}
		lg := log2Big(m)
		c.Check(p.EphemeralSecretWeight >= ephemeralMinH && math.Round(lg) <= ephemeralMaxLogQP, "C19|"+s.Name+"|ephemeral-secret-outside-documented-envelope", func() string {
			return fmt.Sprintf("ephemeral secret weight %d with key modulus 2^%.2f; documented: weight 32 is secure up to 121 bits", p.EphemeralSecretWeight, lg)
		})
	}
	// derived quantities of the shipped object
	c2s, s2c := len(p.CoeffsToSlotsParameters.Levels), len(p.SlotsToCoeffsParameters.Levels)
	d := "C19|bootstrapping.Parameters."
	c.Check(p.DepthCoeffsToSlots() == c2s, d+"DepthCoeffsToSlots|wrong-value", func() string {
		return fmt.Sprintf("%s: DepthCoeffsToSlots() = %d but the CoeffsToSlots step has %d levels (SlotsToCoeffs has %d)", s.Name, p.DepthCoeffsToSlots(), c2s, s2c)
	})
	c.Check(p.DepthSlotsToCoeffs() == s2c, d+"DepthSlotsToCoeffs|wrong-value", func() string {
		return fmt.Sprintf("%s: DepthSlotsToCoeffs() = %d but the SlotsToCoeffs step has %d levels (CoeffsToSlots has %d)", s.Name, p.DepthSlotsToCoeffs(), s2c, c2s)
	})
	c.Check(p.Depth() == c2s+s2c+p.Mod1ParametersLiteral.Depth() && p.BootstrappingParameters.MaxLevel() == res.MaxLevel()+p.Depth()+boolInt(p.IterationsParameters != nil && p.IterationsParameters.ReservedPrimeBitSize > 0),
		d+"Depth|wrong-value", func() string {
			return fmt.Sprintf("%s: Depth()=%d, levels of the bootstrapping context %d, residual %d", s.Name, p.Depth(), p.BootstrappingParameters.MaxLevel(), res.MaxLevel())
		})
	bq := p.BootstrappingParameters.Q()
	c.Check(len(bq) > res.QCount() && eqv(bq[:res.QCount()], res.Q()), "C19|"+s.Name+"|residual-moduli-not-a-prefix", nil)
	checkBitConsumption(c, usedLit, p, res, nil)
	return total
}

func boolInt(b bool) int {
	if b {
		return 1
	}
	return 0
}

// runShippedLists: the exported slices contain exactly the exported variables (so the registry,
// which names the variables, covers everything the slices export).
func runShippedLists(c *eng.Ctx) {
	c.Distinct("shipped|lists", true)
	reg := map[string]shipped{}
	for _, s := range registry() {
		reg[s.Name] = s
	}
	cmpB := func(list string, got []bgv.ParametersLiteral, names ...string) {
		ok := len(got) == len(names)
		for i := 0; ok && i < len(names); i++ {
			ok = reflect.DeepEqual(got[i], *reg["examples."+names[i]].bgv)
		}
		c.Check(ok, "C19|examples."+list+"|list-differs-from-variables", func() string { return strings.Join(names, ",") })
	}
	cmpC := func(list string, got []ckks.ParametersLiteral, names ...string) {
		ok := len(got) == len(names)
		for i := 0; ok && i < len(names); i++ {
			ok = reflect.DeepEqual(got[i], *reg["examples."+names[i]].ckks)
		}
		c.Check(ok, "C19|examples."+list+"|list-differs-from-variables", func() string { return strings.Join(names, ",") })
	}
	cmpB("BGVParams", examples.BGVParams, "BGVParamsN12QP109", "BGVParamsN13QP218", "BGVParamsN14QP438", "BGVParamsN15QP880")
	cmpB("BGVScaleInvariantParams", examples.BGVScaleInvariantParams, "BGVScaleInvariantParamsN12QP109", "BGVScaleInvariantParamsN13QP218", "BGVScaleInvariantParamsN14QP438", "BGVScaleInvariantParamsN15QP880")
	cmpC("CKKSComplexParams", examples.CKKSComplexParams, "CKKSComplexParamsN12QP109", "CKKSComplexParamsN13QP218", "CKKSComplexParamsN14QP438", "CKKSComplexParamsN15QP881", "CKKSComplexParamsPN16QP1761")
	cmpC("CKKSRealParams", examples.CKKSRealParams, "CKKSRealParamsN12QP109", "CKKSRealParamsN13QP218", "CKKSRealParamsN14QP438", "CKKSRealParamsN15QP881", "CKKSRealParamsPN16QP1761")
	boot := func(list string, n int, at func(i int) (ckks.ParametersLiteral, bootstrapping.ParametersLiteral), names ...string) {
		ok := n == len(names)
		for i := 0; ok && i < len(names); i++ {
			s, b := at(i)
			r := reg["bootstrapping."+names[i]]
			ok = reflect.DeepEqual(s, *r.ckks) && reflect.DeepEqual(b, *r.boot)
		}
		c.Check(ok, "C19|bootstrapping."+list+"|list-differs-from-variables", func() string { return strings.Join(names, ",") })
	}
	boot("DefaultParametersSparse", len(bootstrapping.DefaultParametersSparse), func(i int) (ckks.ParametersLiteral, bootstrapping.ParametersLiteral) {
		return bootstrapping.DefaultParametersSparse[i].SchemeParams, bootstrapping.DefaultParametersSparse[i].BootstrappingParams
	}, "N16QP1546H192H32", "N16QP1547H192H32", "N16QP1553H192H32", "N15QP768H192H32")
	boot("DefaultParametersDense", len(bootstrapping.DefaultParametersDense), func(i int) (ckks.ParametersLiteral, bootstrapping.ParametersLiteral) {
		return bootstrapping.DefaultParametersDense[i].SchemeParams, bootstrapping.DefaultParametersDense[i].BootstrappingParams
	}, "N16QP1767H32768H32", "N16QP1788H32768H32", "N16QP1793H32768H32", "N15QP880H16384H32")
}
