package c19

// Coverage-audit extension: the ring-level constructors of the anchor files ring/ring.go and
// ring/subring.go (NewRing, NewRingConjugateInvariant, NewRingFromType, NewRingWithCustomNTT),
// which every scheme constructor funnels into, called directly: acceptance against a reference
// validator, then arithmetic, accessors, NTT constants, ring-type conversions and encodings of
// every accepted ring.

import (
	"encoding/json"
	"fmt"
	"math"
	"math/big"
	"math/bits"

	"github.com/tuneinsight/lattigo/v6/ring"

	"verif/harness/eng"
	"verif/harness/gen"
	"verif/harness/ref"
)

// ringLit describes one call of a ring constructor.
type ringLit struct {
	Ctor   string   `json:"ctor"` // NewRing | NewRingConjugateInvariant | NewRingFromType | NewRingWithCustomNTT
	N      int      `json:"N"`
	Moduli []uint64 `json:"moduli"`
	Type   int      `json:"type"` // 0 standard, 1 conjugate invariant, other: invalid (NewRingFromType only)
	Mut    string   `json:"mut"`
}

func (l ringLit) ci() bool { return l.Type == 1 }

// root order the constructor is documented to use (2N standard, 4N conjugate invariant).
func (l ringLit) nthRoot() uint64 {
	if l.N <= 0 || l.N > 1<<40 {
		return 0
	}
	if l.ci() {
		return uint64(4 * l.N)
	}
	return uint64(2 * l.N)
}

func (l ringLit) build() (*ring.Ring, error) {
	switch l.Ctor {
	case "NewRing":
		return ring.NewRing(l.N, l.Moduli)
	case "NewRingConjugateInvariant":
		return ring.NewRingConjugateInvariant(l.N, l.Moduli)
	case "NewRingFromType":
		return ring.NewRingFromType(l.N, l.Moduli, ring.Type(l.Type))
	default:
		if l.ci() {
			return ring.NewRingWithCustomNTT(l.N, l.Moduli, ring.NewNumberTheoreticTransformerConjugateInvariant, 4*l.N)
		}
		return ring.NewRingWithCustomNTT(l.N, l.Moduli, ring.NewNumberTheoreticTransformerStandard, 2*l.N)
	}
}

// ringViolations: documented requirements (ring.go, doc of the four constructors) the call violates.
// N = 8 is the documented lower end by the constant MinimumRingDegreeForLoopUnrolledOperations and
// by the code, while the prose says "larger than 8": gray (accept or refuse; sound if accepted).
func ringViolations(l ringLit) (bad []string, gray []string) {
	if l.N < 8 || l.N&(l.N-1) != 0 {
		bad = append(bad, "N-not-a-power-of-two-at-least-8")
	} else if l.N == 8 {
		gray = append(gray, "N-equal-8")
	}
	if l.Ctor == "NewRingFromType" && l.Type != 0 && l.Type != 1 {
		bad = append(bad, "ring-type-invalid")
	}
	if len(l.Moduli) == 0 {
		bad = append(bad, "moduli-empty")
	}
	nth := l.nthRoot()
	seen := map[uint64]bool{}
	for _, q := range l.Moduli {
		switch {
		case q < 2 || !gen.IsPrime(q):
			bad = append(bad, "modulus-not-prime")
		case nth != 0 && q%nth != 1:
			bad = append(bad, "modulus-not-1-mod-NthRoot")
		}
		if seen[q] {
			bad = append(bad, "moduli-not-distinct")
		}
		seen[q] = true
	}
	return
}

var ringCtors = []string{"NewRing", "NewRingConjugateInvariant", "NewRingFromType", "NewRingFromType", "NewRingWithCustomNTT", "NewRingWithCustomNTT"}

var ringMutations = []string{"none", "none", "none", "dup", "composite", "semiprime", "one", "zero", "two", "even", "prime-not-ntt", "prime-half-root",
	"wrong-ring-root", "empty", "nil", "N-not-pow2", "N-4", "N-0", "N-neg", "N-1", "type-invalid", "N-8", "single-modulus", "many-moduli"}

// ringBase draws a call that satisfies every documented requirement.
func ringBase(r *eng.Rand, logNs []int) (ringLit, bool) {
	l := ringLit{Ctor: eng.Pick(r, ringCtors...), Mut: "none"}
	l.N = 1 << eng.Pick(r, logNs...)
	switch l.Ctor {
	case "NewRingConjugateInvariant":
		l.Type = 1
	case "NewRingFromType", "NewRingWithCustomNTT":
		l.Type = r.N(2)
	}
	nth := l.nthRoot()
	minBits := bits.Len64(nth) + 1
	skip := map[uint64]bool{}
	for i, k := 0, 1+r.N(4); i < k; i++ {
		b := eng.Pick(r, 20, 30, 31, 32, 33, 45, 55, 59, 60, 61)
		if r.N(4) == 0 {
			b = minBits + r.N(3)
		}
		if b < minBits {
			b = minBits
		}
		if pr := gen.Primes(b, nth, 1, r.N(4), skip); len(pr) > 0 {
			l.Moduli = append(l.Moduli, pr[0])
		}
	}
	return l, len(l.Moduli) > 0
}

func ringMutate(r *eng.Rand, l ringLit, m string) ringLit {
	l.Moduli = cloneU(l.Moduli)
	l.Mut = m
	nth := l.nthRoot()
	i := r.N(len(l.Moduli))
	switch m {
	case "dup":
		l.Moduli = append(l.Moduli, l.Moduli[i])
	case "composite":
		l.Moduli[i] += nth
	case "semiprime":
		if a := gen.Primes(bits.Len64(nth)+2, nth, 2, gen.PosAbove, nil); len(a) == 2 && bits.Len64(a[0])+bits.Len64(a[1]) < 60 {
			l.Moduli[i] = a[0] * a[1]
		}
	case "one":
		l.Moduli[i] = 1
	case "zero":
		l.Moduli[i] = 0
	case "two":
		l.Moduli[i] = 2
	case "even":
		l.Moduli[i]++
	case "prime-not-ntt":
		l.Moduli[i] = firstPrime(l.Moduli[i]+2, 2, func(p uint64) bool { return p%nth != 1 })
	case "prime-half-root":
		l.Moduli[i] = firstPrime(nth/2+1+nth*(1+r.U64()%(1<<20)), nth, nil)
	case "wrong-ring-root":
		// primes of the other ring type: 1 mod 2N but not 4N in a conjugate invariant ring; for a standard
		// call the constructor is switched to the conjugate invariant one with the same primes
		if l.ci() {
			l.Moduli[i] = firstPrime(nth/2+1+nth*(1+r.U64()%(1<<25)), nth, nil)
		} else {
			l.Ctor, l.Type = "NewRingConjugateInvariant", 1
		}
	case "empty":
		l.Moduli = []uint64{}
	case "nil":
		l.Moduli = nil
	case "N-not-pow2":
		l.N = eng.Pick(r, 12, 24, 48, 96, 9, 15, 17, 1000, 3*l.N/2, l.N+1, l.N-1)
	case "N-4":
		l.N = eng.Pick(r, 4, 2)
	case "N-0":
		l.N = 0
	case "N-neg":
		l.N = -eng.Pick(r, 1, 8, 16, 64)
	case "N-1":
		l.N = 1
	case "type-invalid":
		l.Ctor, l.Type = "NewRingFromType", eng.Pick(r, 2, 3, -1, 255)
	case "N-8":
		// the smallest degree: primes that fit (1 mod 32 covers both ring types)
		l.N = 8
		l.Moduli = gen.Primes(eng.Pick(r, 7, 13, 30, 60), 32, 1+r.N(2), r.N(4), map[uint64]bool{})
	case "single-modulus":
		l.Moduli = l.Moduli[:1]
	case "many-moduli":
		skip := map[uint64]bool{}
		for _, q := range l.Moduli {
			skip[q] = true
		}
		for k := 8 + r.N(8); len(l.Moduli) < k; {
			pr := gen.Primes(eng.Pick(r, 40, 50, 60, 61), nth, 1, r.N(4), skip)
			if len(pr) == 0 {
				break
			}
			l.Moduli = append(l.Moduli, pr[0])
		}
	}
	return l
}

func ringCases(tier string, seed int64) []eng.Case {
	batches, per := 12, 24
	logNs := []int{3, 4, 4, 5, 6, 7, 8, 9, 10}
	if tier == "thorough" {
		batches, per = 60, 32
		logNs = []int{3, 4, 4, 5, 5, 6, 7, 8, 9, 10, 11, 12}
	}
	var out []eng.Case
	for b := 0; b < batches; b++ {
		b := b
		out = append(out, eng.Case{ID: fmt.Sprintf("ringc/%03d", b), Sig: "C19|ring-constructors", Desc: map[string]int{"batch": b, "calls": per},
			Run: func(c *eng.Ctx) {
				r := c.Rand()
				var st soundStats
				sampled := false
				for i := 0; i < per; i++ {
					base, ok := ringBase(r, logNs)
					if !ok {
						continue
					}
					l := ringMutate(r, base, ringMutations[(b*per+i)%len(ringMutations)])
					if len(l.Moduli) == 0 && (l.Mut != "empty" && l.Mut != "nil") {
						continue
					}
					if !sampled && l.Mut != "none" {
						sampled = true
						bad, gray := ringViolations(l)
						c.Sample(map[string]any{"kind": "ring-constructor", "call": l, "violates": bad, "gray": gray})
					}
					runRingLit(c, l, r, &st)
				}
				c.Count("ring_arithmetic_checks", int64(st.ringOps))
			}})
	}
	return out
}

func runRingLit(c *eng.Ctx, l ringLit, rnd *eng.Rand, st *soundStats) {
	bad, gray := ringViolations(l)
	// the four constructors funnel into NewRingWithCustomNTT: one entry point for the verdicts on the
	// arguments they share (the constructor called is in the witness), the own name for the ring type
	entry := "C19|ring.NewRingWithCustomNTT|"
	if len(bad) > 0 && bad[0] == "ring-type-invalid" {
		entry = "C19|ring.NewRingFromType|"
	}
	c.Distinct(fmt.Sprintf("ringc|%s|%s|%d|t%d|%s", l.Ctor, l.Mut, l.N, l.Type, sizeTag(bitLens(l.Moduli))), true)
	c.Count("ring_constructor_calls", 1)
	var rg *ring.Ring
	var err error
	c.Eval(1)
	if p, pv := eng.Panics(func() { rg, err = l.build() }); p {
		cls := "valid-call"
		if len(bad) > 0 {
			cls = bad[0]
		} else if len(gray) > 0 {
			cls = gray[0]
		}
		for _, q := range l.Moduli {
			if q == 0 && l.N >= 8 && l.N&(l.N-1) == 0 {
				cls = "modulus-zero" // the reduction constants are computed (division by q) before anything is validated
			}
		}
		c.Violate(entry+"panic|"+cls, fmt.Sprintf("panic instead of an error: %v; call violates %v", pv, bad), l)
		return
	}
	if err != nil {
		c.Count("errors_observed", 1)
		c.Count("ring_constructor_refused", 1)
		if rg != nil {
			// ring.go documents "an error is returned with a nil *Ring"; the refusal itself is what the
			// property asks for, so this deviation is only counted
			c.Count("ring_constructor_error_with_non_nil_ring", 1)
		}
		if len(bad) == 0 && len(gray) == 0 {
			c.Violate(entry+"error-on-admissible|"+l.Mut, fmt.Sprintf("call satisfies every documented requirement but is refused: %v", err), l)
		}
		return
	}
	if len(bad) > 0 {
		c.Violate(entry+"accepted-invalid|"+bad[0], fmt.Sprintf("call violates %v but returns a ring", bad), l)
		return
	}
	c.Count("ring_constructor_accepted", 1)
	checkRingObject(c, entry, l, rg, rnd, st)
}

// bredModel: floor(2^128 / q) as (hi, lo).
func bredModel(q uint64) [2]uint64 {
	x := new(big.Int).Lsh(big.NewInt(1), 128)
	x.Quo(x, new(big.Int).SetUint64(q))
	lo := new(big.Int).And(x, new(big.Int).SetUint64(^uint64(0))).Uint64()
	hi := new(big.Int).Rsh(x, 64).Uint64()
	return [2]uint64{hi, lo}
}

// oddPartFactors factors m by trial division (m's odd part must be small enough; callers ensure it).
func trialFactors(m uint64) (fs []uint64, ok bool) {
	if m%2 == 0 {
		fs = append(fs, 2)
		for m%2 == 0 {
			m /= 2
		}
	}
	for d := uint64(3); d*d <= m; d += 2 {
		if d > 1<<22 {
			return nil, false
		}
		if m%d == 0 {
			fs = append(fs, d)
			for m%d == 0 {
				m /= d
			}
		}
	}
	if m > 1 {
		fs = append(fs, m)
	}
	return fs, true
}

// checkRingObject: accessors, per-modulus constants, arithmetic, conversions and encodings of an accepted ring.
func checkRingObject(c *eng.Ctx, entry string, l ringLit, rg *ring.Ring, rnd *eng.Rand, st *soundStats) {
	n, nth, k := l.N, l.nthRoot(), len(l.Moduli)
	d := "C19|ring.Ring."
	wantType := ring.Standard
	if l.ci() {
		wantType = ring.ConjugateInvariant
	}
	c.Check(rg.N() == n && 1<<rg.LogN() == n && rg.NthRoot() == nth && rg.Type() == wantType, d+"N|wrong-value", func() string {
		return fmt.Sprintf("%s: N=%d LogN=%d NthRoot=%d Type=%v, want N=%d NthRoot=%d %v", l.Ctor, rg.N(), rg.LogN(), rg.NthRoot(), rg.Type(), n, nth, wantType)
	})
	c.Check(eqv(rg.ModuliChain(), l.Moduli) && rg.ModuliChainLength() == k && rg.MaxLevel() == k-1 && rg.Level() == k-1, d+"ModuliChain|wrong-value", func() string {
		return fmt.Sprintf("%v len %d MaxLevel %d Level %d for %v", rg.ModuliChain(), rg.ModuliChainLength(), rg.MaxLevel(), rg.Level(), l.Moduli)
	})
	okm, lg := true, 0.0
	for lv := 0; lv < k; lv++ {
		at := rg.AtLevel(lv)
		okm = okm && at.Level() == lv && at.MaxLevel() == k-1 && at.Modulus().Cmp(bigProd(l.Moduli[:lv+1])) == 0 && at.N() == n
		lg += log2u(l.Moduli[lv])
	}
	c.Check(okm && rg.Modulus().Cmp(bigProd(l.Moduli)) == 0, d+"Modulus|wrong-value", func() string { return fmt.Sprintf("Modulus()=%v for %v", rg.Modulus(), l.Moduli) })
	c.Check(math.Abs(rg.LogModuli()-lg) < 1e-6, d+"LogModuli|wrong-value", func() string { return fmt.Sprintf("%v want %v", rg.LogModuli(), lg) })
	mrc, brc := rg.MRedConstants(), rg.BRedConstants()
	okc := len(mrc) == k && len(brc) == k
	for i := 0; okc && i < k; i++ {
		q := l.Moduli[i]
		okc = mrc[i]*q == 1 && brc[i] == bredModel(q)
	}
	c.Check(okc, d+"MRedConstants|wrong-value", func() string { return fmt.Sprintf("MRed %v BRed %v for %v", mrc, brc, l.Moduli) })
	// per-modulus NTT constants: complete factor list of q-1, a generator of Z_q^*, the mask
	for i, s := range rg.SubRings {
		q := l.Moduli[i]
		okf := len(s.Factors) > 0
		m := q - 1
		for _, f := range s.Factors {
			okf = okf && f >= 2 && gen.IsPrime(f) && (q-1)%f == 0
			for f >= 2 && m%f == 0 {
				m /= f
			}
		}
		okf = okf && m == 1
		g := s.PrimitiveRoot
		okg := g%q != 0
		for _, f := range s.Factors {
			if f >= 2 && (q-1)%f == 0 {
				okg = okg && ref.PowMod(g%q, (q-1)/f, q) != 1
			}
		}
		fsig := "C19|ring.SubRing.Factors|wrong-value"
		if compositeIn(s.Factors) {
			fsig = "C19|factorization.GetFactors|wrong-factors|composite-factor-returned"
		}
		c.Check(okf, fsig, func() string {
			return fmt.Sprintf("q=%d: Factors=%v is not the set of prime factors of q-1", q, s.Factors)
		})
		c.Check(!okf || okg, "C19|ring.SubRing.PrimitiveRoot|wrong-value", func() string {
			return fmt.Sprintf("q=%d: %d is not a generator of Z_q^* (factors %v)", q, g, s.Factors)
		})
		c.Check(s.Mask == uint64(1)<<uint(bits.Len64(q-1))-1 && s.N == n && s.Modulus == q && s.NthRoot == nth, "C19|ring.SubRing.Mask|wrong-value", func() string {
			return fmt.Sprintf("q=%d: Mask=%x N=%d NthRoot=%d", q, s.Mask, s.N, s.NthRoot)
		})
	}
	// arithmetic
	report := func(e string, fs []failure) {
		for _, f := range fs {
			c.Violate(e+"accepted-unsound|"+f.Check, f.Detail, l)
		}
	}
	var fs []failure
	guard("ring-arithmetic", &fs, func() { fs = append(fs, ringCheck(rg, l.ci(), rnd, "ring", st)...) })
	c.Eval(1)
	report(entry, fs)
	// ring-type conversions (schemes/ckks/bridge.go uses both)
	convEntry := "C19|ring.Ring.StandardRing|"
	if !l.ci() {
		convEntry = "C19|ring.Ring.ConjugateInvariantRing|"
	}
	var cv *ring.Ring
	var err error
	lvl := rnd.N(k)
	src := rg.AtLevel(lvl)
	if p, pv := eng.Panics(func() {
		if l.ci() {
			cv, err = src.StandardRing()
		} else {
			cv, err = src.ConjugateInvariantRing()
		}
	}); p {
		c.Violate(convEntry+"panic", fmt.Sprint(pv), l)
		return
	}
	c.Eval(1)
	c.Count("ring_type_conversions", 1)
	switch {
	case !l.ci() && n == 8:
		// the conjugate invariant ring would have degree 4 < 8
		c.Check(err != nil, convEntry+"accepted-invalid|N-not-a-power-of-two-at-least-8", func() string { return "conversion of a ring of degree 8 returns a ring of degree 4" })
	case err != nil:
		c.Violate(convEntry+"error-on-admissible", err.Error(), l)
	default:
		wn, wt := 2*n, ring.Standard
		if !l.ci() {
			wn, wt = n/2, ring.ConjugateInvariant
		}
		ok := cv.N() == wn && cv.Type() == wt && cv.NthRoot() == nth && eqv(cv.ModuliChain(), l.Moduli) && cv.Level() == lvl
		c.Check(ok, convEntry+"wrong-ring", func() string {
			return fmt.Sprintf("from N=%d %v NthRoot=%d level %d: N=%d %v NthRoot=%d level %d moduli %v", n, wantType, nth, lvl, cv.N(), cv.Type(), cv.NthRoot(), cv.Level(), cv.ModuliChain())
		})
		if ok {
			var cf []failure
			guard("ring-arithmetic", &cf, func() { cf = append(cf, ringCheck(cv.AtLevel(cv.MaxLevel()), !l.ci(), rnd, "ring", st)...) })
			report(convEntry, cf)
			// the source ring must not have been touched by the (shallow) conversion
			c.Check(rg.N() == n && rg.Type() == wantType && eqv(rg.ModuliChain(), l.Moduli), convEntry+"source-modified", nil)
		}
	}
	// same-type conversion returns the receiver's ring
	var same *ring.Ring
	if l.ci() {
		same, err = rg.ConjugateInvariantRing()
	} else {
		same, err = rg.StandardRing()
	}
	c.Check(err == nil && same != nil && same.N() == n && same.Type() == wantType && eqv(same.ModuliChain(), l.Moduli), d+"same-type-conversion|wrong-ring", nil)
	// encodings of the ring (binary = JSON): the decoded ring computes what the original computes
	for _, enc := range []string{"binary", "JSON"} {
		var data []byte
		var back ring.Ring
		if enc == "binary" {
			if data, err = rg.MarshalBinary(); err == nil {
				err = back.UnmarshalBinary(data)
			}
		} else {
			if data, err = json.Marshal(rg); err == nil {
				err = json.Unmarshal(data, &back)
			}
		}
		c.Count("round_trips", 1)
		if err != nil {
			c.Violate(d+enc+"|decode-error", fmt.Sprintf("%v (N=%d %v moduli %v)", err, n, wantType, l.Moduli), l)
			continue
		}
		ok := back.N() == n && back.Type() == wantType && back.NthRoot() == nth && eqv(back.ModuliChain(), l.Moduli) && back.Level() == k-1
		c.Check(ok, d+enc+"|not-equal", func() string {
			return fmt.Sprintf("decoded: N=%d %v NthRoot=%d moduli %v level %d", back.N(), back.Type(), back.NthRoot(), back.ModuliChain(), back.Level())
		})
		if !ok {
			continue
		}
		a := rg.NewPoly()
		for i, q := range l.Moduli {
			copy(a.Coeffs[i], gen.Vec(rnd, n, q-1, gen.PatUniform, 0))
		}
		x, y := rg.NewPoly(), back.NewPoly()
		rg.NTT(a, x)
		back.NTT(a, y)
		c.Check(rg.Equal(x, y), d+enc+"|decoded-ring-computes-differently", func() string { return fmt.Sprintf("NTT differs (N=%d moduli %v)", n, l.Moduli) })
	}
	// ring.Type through JSON
}

// ringTypeCase: ring.Type <-> JSON (ring.go: String, MarshalJSON, UnmarshalJSON).
func ringTypeCase(c *eng.Ctx) {
	c.Distinct("ringtype", true)
	for _, t := range []ring.Type{ring.Standard, ring.ConjugateInvariant} {
		b, err := json.Marshal(t)
		u := ring.Type(7)
		if err == nil {
			err = json.Unmarshal(b, &u)
		}
		c.Check(err == nil && u == t && string(b) == `"`+t.String()+`"`, "C19|ring.Type|JSON|not-equal", func() string { return fmt.Sprintf("%v -> %s -> %v (%v)", t, b, u, err) })
	}
	for _, t := range []ring.Type{2, -1, 255} {
		c.Check(t.String() == "Invalid", "C19|ring.Type.String|wrong-value", func() string { return t.String() })
		b, err := json.Marshal(t)
		if err != nil {
			c.Count("errors_observed", 1)
			continue // refusing to encode an invalid type is fine
		}
		u := ring.Standard
		err = json.Unmarshal(b, &u)
		c.Check(err != nil, "C19|ring.Type|JSON|accepted-invalid|ring-type-invalid", func() string { return fmt.Sprintf("%s decodes to %v", b, u) })
	}
	for _, s := range []string{`"standard"`, `""`, `"Invalid"`, `0`, `1`, `null`, `"ConjugateInvariant "`} {
		u := ring.Type(7)
		p, pv := eng.Panics(func() { _ = json.Unmarshal([]byte(s), &u) })
		c.Check(!p, "C19|ring.Type|JSON|panic", func() string { return fmt.Sprint(s, pv) })
		// null leaves the receiver untouched (encoding/json), everything else here is not a ring type name
		c.Check(u == 7 || s == `null`, "C19|ring.Type|JSON|accepted-invalid|ring-type-invalid", func() string { return fmt.Sprintf("%s decodes to %v", s, u) })
	}
}
