package c19

import (
	"fmt"
	"math/bits"
	"sort"
	"time"

	"github.com/tuneinsight/lattigo/v6/circuits/ckks/bootstrapping"
	"github.com/tuneinsight/lattigo/v6/circuits/ckks/mod1"
	"github.com/tuneinsight/lattigo/v6/ring"
	"github.com/tuneinsight/lattigo/v6/schemes/ckks"

	"verif/harness/eng"
	"verif/harness/gen"
)

// bootLit describes a residual ckks literal plus a bootstrapping literal at small ring degree.
type bootLit struct {
	ResLogN     int     `json:"resLogN"`
	ResRing     int     `json:"resRing"`
	ResLogQ     []int   `json:"resLogQ"`
	ResLogP     []int   `json:"resLogP"`
	ResLogScale int     `json:"resLogScale"`
	ResRoot     int     `json:"resLogNthRoot"` // LogNthRoot given to the residual literal
	LogN        *int    `json:"logN"`
	LogSlots    *int    `json:"logSlots"`
	LogP        []int   `json:"logP"`
	C2S         [][]int `json:"c2s"`
	S2C         [][]int `json:"s2c"`
	EvalScale   *int    `json:"evalModLogScale"`
	Eph         *int    `json:"ephemeralSecretWeight"`
	IterPrec    []float64
	IterSet     bool
	Reserved    int
	MsgRatio    *int
	K           *int
	Mod1Degree  *int
	DoubleAngle *int
	Mod1Inv     *int
	Mod1Type    int
	Mut         string `json:"mut"`
}

func ptr(v int) *int { return &v }

func (b bootLit) lit() bootstrapping.ParametersLiteral {
	l := bootstrapping.ParametersLiteral{LogN: b.LogN, LogSlots: b.LogSlots, LogP: b.LogP,
		CoeffsToSlotsFactorizationDepthAndLogScales: b.C2S, SlotsToCoeffsFactorizationDepthAndLogScales: b.S2C,
		EvalModLogScale: b.EvalScale, EphemeralSecretWeight: b.Eph, LogMessageRatio: b.MsgRatio, K: b.K, Mod1Degree: b.Mod1Degree,
		DoubleAngle: b.DoubleAngle, Mod1InvDegree: b.Mod1Inv, Mod1Type: mod1.Type(b.Mod1Type)}
	if b.IterSet {
		l.IterationsParameters = &bootstrapping.IterationsParameters{BootstrappingPrecision: b.IterPrec, ReservedPrimeBitSize: b.Reserved}
	}
	return l
}

func bootResidual(b bootLit) (ckks.Parameters, error) {
	return ckks.NewParametersFromLiteral(ckks.ParametersLiteral{LogN: b.ResLogN, LogNthRoot: b.ResRoot, LogQ: b.ResLogQ, LogP: b.ResLogP,
		LogDefaultScale: b.ResLogScale, RingType: ring.Type(b.ResRing)})
}

func (b bootLit) btpLogN() int {
	if b.LogN == nil {
		return bootstrapping.DefaultLogN
	}
	return *b.LogN
}

// valid base literals (all of them must be accepted)
func bootBase(r *eng.Rand) bootLit {
	b := bootLit{Mut: "none"}
	b.ResLogN = eng.Pick(r, 7, 8, 9)
	btp := b.ResLogN + r.N(3)
	if r.N(4) == 0 {
		b.ResRing = 1
		btp = b.ResLogN + 1
	}
	b.LogN = ptr(btp)
	b.ResRoot = btp + 1
	b.ResLogScale = eng.Pick(r, 30, 40, 45)
	b.ResLogQ = []int{eng.Pick(r, 55, 60)}
	for i := r.N(4); i > 0; i-- {
		b.ResLogQ = append(b.ResLogQ, b.ResLogScale)
	}
	b.ResLogP = []int{61}
	switch r.N(3) {
	case 0: // defaults wherever possible
	case 1:
		b.LogSlots = ptr(1 + r.N(btp-1))
	case 2:
		b.LogSlots = ptr(btp - 1)
		b.LogP = []int{eng.Pick(r, 55, 60, 61), 61}
	}
	ls := btp - 1
	if b.LogSlots != nil {
		ls = *b.LogSlots
	}
	if r.Bool() {
		// explicit factorisations within the admissible depth
		d := 1 + r.N(min(ls, 3))
		for i := 0; i < d; i++ {
			b.C2S = append(b.C2S, []int{eng.Pick(r, 50, 53, 56)})
		}
		d = 1 + r.N(min(ls, 3))
		rem := ls
		for i := 0; i < d && rem > 0; i++ {
			if r.N(3) == 0 && rem >= 2 {
				b.S2C = append(b.S2C, []int{30, 30})
				rem -= 2
			} else {
				b.S2C = append(b.S2C, []int{eng.Pick(r, 39, 42)})
				rem--
			}
		}
	} else if ls < 4 {
		// the default factorisations have depth min(4, LogSlots) / min(3, LogSlots): always admissible
	}
	if r.Bool() {
		b.EvalScale = ptr(eng.Pick(r, 50, 55, 60))
	}
	if r.N(3) == 0 {
		b.Eph = ptr(eng.Pick(r, 0, 16, 32))
	}
	if r.N(3) == 0 {
		b.IterSet = true
		b.IterPrec = []float64{eng.Pick(r, 16.0, 20.5)}
		b.Reserved = eng.Pick(r, 0, 16, 28)
	}
	if r.N(3) == 0 {
		b.MsgRatio = ptr(eng.Pick(r, 2, 4, 8))
		b.Mod1Inv = ptr(eng.Pick(r, 0, 5, 7))
	}
	if r.N(3) == 0 {
		b.K = ptr(eng.Pick(r, 12, 16, 25))
		b.Mod1Degree = ptr(eng.Pick(r, 30, 63))
		b.DoubleAngle = ptr(eng.Pick(r, 0, 2, 3))
	}
	b.Mod1Type = eng.Pick(r, 0, 0, 1, 2)
	return b
}

var bootMutations = []string{"none", "none", "logslots-0", "logslots-neg", "logslots-logN", "c2s-too-deep", "s2c-too-deep", "evalscale-61", "evalscale-neg",
	"k-neg", "doubleangle-neg", "mod1degree-neg", "mod1inv-neg", "eph-neg", "msgratio-neg", "iter-empty", "iter-zero-prec", "reserved-62",
	"logN-below-residual", "ci-wrong-logN", "residual-not-1-mod-2N"}

// bootMutate applies one mutation; the returned string is the violated requirement ("" = valid),
// decided from the resulting literal (parameters_literal.go documents each of them in its Get* method).
func bootMutate(r *eng.Rand, b bootLit, m string) bootLit {
	b.Mut = m
	btp := b.btpLogN()
	switch m {
	case "logslots-0":
		b.LogSlots = ptr(0)
		b.C2S, b.S2C = nil, nil
	case "logslots-neg":
		b.LogSlots = ptr(-1 - r.N(5))
		b.C2S, b.S2C = nil, nil
	case "logslots-logN":
		b.LogSlots = ptr(btp + r.N(2))
	case "c2s-too-deep":
		ls := btp - 1
		if b.LogSlots != nil {
			ls = *b.LogSlots
		}
		b.C2S = nil
		for i := 0; i <= ls; i++ {
			b.C2S = append(b.C2S, []int{50})
		}
	case "s2c-too-deep":
		ls := btp - 1
		if b.LogSlots != nil {
			ls = *b.LogSlots
		}
		b.S2C = [][]int{}
		for i := 0; i < ls; i += 2 {
			b.S2C = append(b.S2C, []int{25, 25})
		}
		b.S2C = append(b.S2C, []int{30, 20})
	case "evalscale-61":
		b.EvalScale = ptr(61 + r.N(4))
	case "evalscale-neg":
		b.EvalScale = ptr(-1 - r.N(4))
	case "k-neg":
		b.K = ptr(-1 - r.N(4))
	case "doubleangle-neg":
		b.DoubleAngle = ptr(-1)
	case "mod1degree-neg":
		b.Mod1Degree = ptr(-1)
	case "mod1inv-neg":
		b.Mod1Inv = ptr(-3)
	case "eph-neg":
		b.Eph = ptr(-1)
	case "msgratio-neg":
		b.MsgRatio = ptr(-2)
	case "iter-empty":
		b.IterSet, b.IterPrec = true, nil
	case "iter-zero-prec":
		b.IterSet, b.IterPrec = true, []float64{16, 0}
	case "reserved-62":
		b.IterSet, b.IterPrec, b.Reserved = true, []float64{16}, 62+r.N(3)
	case "logN-below-residual":
		if b.ResRing == 0 {
			b.LogN = ptr(b.ResLogN - 1)
		} else {
			b.LogN = ptr(b.ResLogN)
		}
	case "ci-wrong-logN":
		b.ResRing = 1
		b.LogN = ptr(b.ResLogN + 2)
		b.ResRoot = b.ResLogN + 3
	case "residual-not-1-mod-2N":
		b.ResRoot = 0 // residual primes only 1 mod 2N_residual (4N for the conjugate invariant ring)
		b.LogN = ptr(b.ResLogN + 3)
		b.ResRing = 0
	}
	return b
}

// bootViolations: documented requirements of bootstrapping.NewParametersFromLiteral a literal violates.
func bootViolations(b bootLit, res ckks.Parameters) (bad []string) {
	btp := b.btpLogN()
	if b.ResRing == 1 {
		if btp != b.ResLogN+1 {
			bad = append(bad, "conjugate-invariant-residual-needs-LogN+1")
		}
	} else if btp < b.ResLogN {
		bad = append(bad, "LogN-below-residual-LogN")
	}
	nth := uint64(2) << btp
	if b.ResRing == 1 && uint64(4)<<b.ResLogN > nth {
		nth = uint64(4) << b.ResLogN
	}
	for _, q := range res.Q() {
		if q%nth != 1 {
			bad = append(bad, "residual-Q-not-1-mod-bootstrapping-root")
			break
		}
	}
	ls := btp - 1
	if b.LogSlots != nil {
		ls = *b.LogSlots
		if ls < 1 || ls > btp-1 {
			bad = append(bad, "LogSlots-outside-[1,LogN-1]")
		}
	}
	depth := func(f [][]int) int {
		d := 0
		for _, l := range f {
			d += len(l)
		}
		return d
	}
	if b.C2S != nil && depth(b.C2S) > ls {
		bad = append(bad, "CoeffsToSlots-depth-above-LogSlots")
	}
	if b.S2C != nil && depth(b.S2C) > ls {
		bad = append(bad, "SlotsToCoeffs-depth-above-LogSlots")
	}
	if b.EvalScale != nil && (*b.EvalScale < 0 || *b.EvalScale > 60) {
		bad = append(bad, "EvalModLogScale-outside-[0,60]")
	}
	neg := func(p *int, name string) {
		if p != nil && *p < 0 {
			bad = append(bad, name+"-negative")
		}
	}
	neg(b.K, "K")
	neg(b.DoubleAngle, "DoubleAngle")
	neg(b.Mod1Degree, "Mod1Degree")
	neg(b.Mod1Inv, "Mod1InvDegree")
	neg(b.Eph, "EphemeralSecretWeight")
	neg(b.MsgRatio, "LogMessageRatio")
	if b.IterSet {
		if len(b.IterPrec) < 1 {
			bad = append(bad, "BootstrappingPrecision-empty")
		}
		for _, p := range b.IterPrec {
			if p == 0 {
				bad = append(bad, "BootstrappingPrecision-zero")
			}
		}
		if b.Reserved > 61 {
			bad = append(bad, "ReservedPrimeBitSize-above-61")
		}
	}
	return
}

func bootLiterals(r *eng.Rand, n int) []bootLit {
	var o []bootLit
	for i := 0; i < n; i++ {
		o = append(o, bootBase(r))
	}
	return o
}

func bootCases(tier string, seed int64) []eng.Case {
	n := 12
	if tier == "thorough" {
		n = 60
	}
	var out []eng.Case
	for i := 0; i < n; i++ {
		i := i
		out = append(out, eng.Case{ID: fmt.Sprintf("boot/%02d", i), Sig: "C19|bootstrapping.NewParametersFromLiteral", Desc: map[string]int{"batch": i},
			Run: func(c *eng.Ctx) { runBoot(c, i) }})
	}
	return out
}

func mod1DepthModel(typ, degree, k, doubleAngle, inv int) int {
	d := 0
	if typ == 0 {
		d += bits.Len64(uint64(max(degree, 2*k-1)))
	} else {
		d += bits.Len64(uint64(degree))
	}
	if typ != 1 {
		d += doubleAngle
	}
	return d + bits.Len64(uint64(inv))
}

func runBoot(c *eng.Ctx, batch int) {
	r := c.Rand()
	sampled := false
	for rep := 0; rep < 6; rep++ {
		base := bootBase(r)
		m := bootMutations[(batch*6+rep)%len(bootMutations)]
		b := bootMutate(r, base, m)
		res, err := bootResidual(b)
		if err != nil {
			c.Count("boot_residual_rejected", 1)
			continue
		}
		bad := bootViolations(b, res)
		c.Distinct(fmt.Sprintf("boot|%s|%d|%d|r%d|%v|%v|%v|%v", m, b.ResLogN, b.btpLogN(), b.ResRing, b.LogSlots != nil, len(b.C2S), len(b.S2C), b.IterSet), true)
		var p bootstrapping.Parameters
		entry := "C19|bootstrapping.NewParametersFromLiteral|"
		// the constructor can spin for a very long time on sizes it does not validate; never give it such sizes here
		done := make(chan struct{})
		var pv any
		var panicked bool
		go func() {
			defer close(done)
			panicked, pv = eng.Panics(func() { p, err = bootstrapping.NewParametersFromLiteral(res, b.lit()) })
		}()
		select {
		case <-done:
		case <-time.After(300 * time.Second):
			c.Violate(entry+"hang|"+m, "constructor did not return within 300 s", b)
			return
		}
		c.Eval(1)
		if panicked {
			cls := "valid-literal"
			if len(bad) > 0 {
				cls = bad[0]
			}
			c.Violate(entry+"panic|"+cls, fmt.Sprintf("panic instead of an error: %v", pv), b)
			continue
		}
		if !sampled && m != "none" {
			sampled = true
			c.Sample(map[string]any{"kind": "bootstrapping-literal", "literal": b, "violates": bad, "error": fmt.Sprint(err)})
		}
		if err != nil {
			c.Count("errors_observed", 1)
			if len(bad) == 0 {
				c.Violate(entry+"error-on-admissible|"+m, fmt.Sprintf("literal satisfies every documented requirement but is refused: %v", err), b)
			}
			continue
		}
		if len(bad) > 0 {
			c.Violate(entry+"accepted-invalid|"+bad[0], fmt.Sprintf("literal violates %v but is accepted", bad), b)
			continue
		}
		c.Count("boot_literals_accepted", 1)
		checkBoot(c, b, res, p, r)
	}
}

// checkBoot: structure and derived quantities of an accepted bootstrapping parameter object.
func checkBoot(c *eng.Ctx, b bootLit, res ckks.Parameters, p bootstrapping.Parameters, r *eng.Rand) {
	entry := "C19|bootstrapping.NewParametersFromLiteral|"
	bp := p.BootstrappingParameters
	btp := b.btpLogN()
	Q, P := bp.Q(), bp.P()
	nth := uint64(2) << btp
	c.Check(bp.LogN() == btp && bp.RingType() == ring.Standard, entry+"wrong-ring", func() string { return fmt.Sprintf("LogN %d ring %v", bp.LogN(), bp.RingType()) })
	ok := len(Q) >= len(res.Q()) && eqv(Q[:len(res.Q())], res.Q())
	c.Check(ok, entry+"residual-moduli-not-a-prefix", func() string { return fmt.Sprintf("residual Q %v, bootstrapping Q %v", res.Q(), Q) })
	seen := map[uint64]bool{}
	for _, q := range append(append([]uint64{}, Q...), P...) {
		if !gen.IsPrime(q) || q%nth != 1 || seen[q] {
			c.Violate(entry+"wrong-generated-moduli", fmt.Sprintf("modulus %d: prime=%v, mod 2N = %d, duplicate=%v", q, gen.IsPrime(q), q%nth, seen[q]), b)
		}
		seen[q] = true
	}
	c.Eval(1)
	// layout of the added moduli: [reserved] S2C... EvalMod x depth, C2S...
	ls := btp - 1
	if b.LogSlots != nil {
		ls = *b.LogSlots
	}
	nS2C, nC2S := len(b.S2C), len(b.C2S)
	if b.S2C == nil {
		nS2C = min(3, max(ls, 1))
	}
	if b.C2S == nil {
		nC2S = min(4, max(ls, 1))
	}
	get := func(p *int, def int) int {
		if p == nil {
			return def
		}
		return *p
	}
	da := get(b.DoubleAngle, 3)
	if b.DoubleAngle == nil && b.Mod1Type == 1 {
		da = 0
	}
	depth := mod1DepthModel(b.Mod1Type, get(b.Mod1Degree, 30), get(b.K, 16), da, get(b.Mod1Inv, 0))
	reserved := 0
	if b.IterSet && b.Reserved > 0 {
		reserved = 1
	}
	wantQ := len(res.Q()) + reserved + nS2C + depth + nC2S
	if !c.Check(len(Q) == wantQ, entry+"wrong-modulus-count", func() string {
		return fmt.Sprintf("#Q = %d, expected %d residual + %d reserved + %d SlotsToCoeffs + %d EvalMod + %d CoeffsToSlots", len(Q), len(res.Q()), reserved, nS2C, depth, nC2S)
	}) {
		return
	}
	off := len(res.Q())
	if reserved == 1 {
		c.Check(halfBitWindow(Q[off], b.Reserved), entry+"wrong-size|reserved-prime", func() string { return fmt.Sprintf("%d for size %d", Q[off], b.Reserved) })
		off++
	}
	off += nS2C
	es := get(b.EvalScale, 60)
	for i := 0; i < depth; i++ {
		q := Q[off+i]
		c.Check(halfBitWindow(q, es), entry+"wrong-size|EvalMod-prime", func() string { return fmt.Sprintf("%d (log2 %.2f) for size %d", q, log2u(q), es) })
	}
	off += depth
	for i := 0; i < nC2S; i++ {
		want := 56
		if b.C2S != nil {
			want = 0
			for _, x := range b.C2S[i] {
				want += x
			}
		}
		q := Q[off+i]
		c.Check(halfBitWindow(q, want), entry+"wrong-size|CoeffsToSlots-prime", func() string { return fmt.Sprintf("%d (log2 %.2f) for size %d", q, log2u(q), want) })
	}
	if b.LogP != nil {
		okp := len(P) == len(b.LogP)
		for i := 0; okp && i < len(P); i++ {
			okp = halfBitWindow(P[i], b.LogP[i])
		}
		c.Check(okp, entry+"wrong-size|P", func() string { return fmt.Sprintf("P=%v for sizes %v", P, b.LogP) })
	} else {
		// documented default: 61 bits x max(1, floor(sqrt(#Qi)))
		k := 1
		for (k+1)*(k+1) <= len(Q) {
			k++
		}
		okp := len(P) == k
		for i := 0; okp && i < len(P); i++ {
			okp = halfBitWindow(P[i], 61)
		}
		c.Check(okp, entry+"wrong-default-P", func() string {
			return fmt.Sprintf("P=%v, documented default: %d primes of 61 bits for %d Qi", P, k, len(Q))
		})
	}
	// bookkeeping levels
	c.Check(p.SlotsToCoeffsParameters.LevelQ == len(res.Q())-1+nS2C+reserved && p.Mod1ParametersLiteral.LevelQ == p.SlotsToCoeffsParameters.LevelQ+depth &&
		p.CoeffsToSlotsParameters.LevelQ == bp.MaxLevel() && p.CoeffsToSlotsParameters.LevelP == len(P)-1 && p.SlotsToCoeffsParameters.LevelP == len(P)-1,
		entry+"wrong-circuit-levels", func() string {
			return fmt.Sprintf("S2C.LevelQ=%d Mod1.LevelQ=%d C2S.LevelQ=%d MaxLevel=%d", p.SlotsToCoeffsParameters.LevelQ, p.Mod1ParametersLiteral.LevelQ, p.CoeffsToSlotsParameters.LevelQ, bp.MaxLevel())
		})
	// derived quantities
	d := "C19|bootstrapping.Parameters."
	c.Check(p.LogMaxSlots() == ls && p.LogMaxDimensions().Cols == ls && p.LogMaxDimensions().Rows == 0, d+"LogMaxSlots|wrong-value", func() string { return fmt.Sprintf("%d vs %d", p.LogMaxSlots(), ls) })
	c.Check(p.DepthEvalMod() == depth, d+"DepthEvalMod|wrong-value", func() string { return fmt.Sprintf("%d vs %d", p.DepthEvalMod(), depth) })
	c.Check(p.Depth() == nC2S+depth+nS2C, d+"Depth|wrong-value", func() string { return fmt.Sprintf("%d vs %d", p.Depth(), nC2S+depth+nS2C) })
	c.Check(p.DepthCoeffsToSlots() == nC2S, d+"DepthCoeffsToSlots|wrong-value", func() string {
		return fmt.Sprintf("DepthCoeffsToSlots() = %d but the CoeffsToSlots step has %d levels (SlotsToCoeffs has %d)", p.DepthCoeffsToSlots(), nC2S, nS2C)
	})
	c.Check(p.DepthSlotsToCoeffs() == nS2C, d+"DepthSlotsToCoeffs|wrong-value", func() string {
		return fmt.Sprintf("DepthSlotsToCoeffs() = %d but the SlotsToCoeffs step has %d levels (CoeffsToSlots has %d)", p.DepthSlotsToCoeffs(), nS2C, nC2S)
	})
	if nC2S != nS2C {
		c.Count("boot_sets_with_unequal_c2s_s2c_depth", 1)
	}
	c.Check(p.EphemeralSecretWeight == get(b.Eph, 32), d+"EphemeralSecretWeight|wrong-value", nil)
	// Galois elements: valid, distinct, sorted, contain the conjugation and the sub-sum rotations
	gals := p.GaloisElements(bp)
	okg := sort.SliceIsSorted(gals, func(i, j int) bool { return gals[i] < gals[j] })
	has := map[uint64]bool{}
	for _, g := range gals {
		if g&1 == 0 || g >= nth || has[g] {
			okg = false
		}
		has[g] = true
	}
	okg = okg && has[nth-1]
	for i := ls; i < btp-1; i++ {
		okg = okg && has[galoisModel(nth, 1<<i)]
	}
	c.Check(okg, d+"GaloisElements|wrong-list", func() string { return fmt.Sprint(gals) })
	// the generated context itself must be sound
	var st soundStats
	for _, f := range soundRLWE(bp.Parameters, r, &st) {
		c.Violate(entry+"accepted-unsound|"+f.Check, f.Detail, b)
	}
	c.Eval(2)
	c.Count("ring_arithmetic_checks", int64(st.ringOps))
	c.Count("noise_measurements", int64(st.encDec))
}
