package c19

import (
	"fmt"
	"math"
	"math/big"
	"math/cmplx"

	"github.com/tuneinsight/lattigo/v6/core/rlwe"
	"github.com/tuneinsight/lattigo/v6/ring"
	"github.com/tuneinsight/lattigo/v6/schemes/bgv"
	"github.com/tuneinsight/lattigo/v6/schemes/ckks"

	"verif/harness/eng"
	"verif/harness/gen"
	"verif/harness/obs"
	"verif/harness/ref"
)

// failure of one soundness check on an accepted context.
type failure struct {
	Check  string // stable name (goes into the signature)
	Detail string
}

type soundStats struct {
	ringOps, encDec, encodings, vacuous int
	maxNoiseLog2                        float64
}

func guard(check string, fs *[]failure, f func()) {
	if p, v := eng.Panics(f); p {
		*fs = append(*fs, failure{check + "|panic", fmt.Sprintf("panic: %v", v)})
	}
}

func eqv(a, b []uint64) bool {
	if len(a) != len(b) {
		return false
	}
	for i := range a {
		if a[i] != b[i] {
			return false
		}
	}
	return true
}

// ringCheck: C01 round-trip / product oracle on every modulus of r, with extreme-valued inputs.
func ringCheck(r *ring.Ring, ci bool, rnd *eng.Rand, name string, st *soundStats) (fs []failure) {
	n := r.N()
	mods := r.ModuliChain()
	mk := func(pat int) ring.Poly {
		p := r.NewPoly()
		for i, q := range mods {
			copy(p.Coeffs[i], gen.Vec(rnd, n, q-1, pat, rnd.N(8)))
		}
		return p
	}
	fail := func(check, detail string) { fs = append(fs, failure{name + "-" + check, detail}) }
	for _, pat := range []int{gen.PatTop, gen.PatUniform, gen.PatAlternate} {
		a := mk(pat)
		a0 := *a.CopyNew()
		na, back := r.NewPoly(), r.NewPoly()
		r.NTT(a, na)
		r.INTT(na, back)
		st.ringOps++
		for i, q := range mods {
			bad := false
			for _, x := range na.Coeffs[i] {
				if x >= q {
					bad = true
				}
			}
			if bad {
				fail("ntt-range", fmt.Sprintf("NTT output not in [0,q) for q=%d (%d bits) N=%d pattern=%d", q, ref.BitLen(q), n, pat))
				break
			}
		}
		for i, q := range mods {
			if !eqv(back.Coeffs[i], a0.Coeffs[i]) {
				fail("ntt-roundtrip", fmt.Sprintf("INTT(NTT(a)) != a for q=%d (%d bits) N=%d pattern=%d: a=%s got=%s", q, ref.BitLen(q), n, pat, eng.U64s(a0.Coeffs[i], 4), eng.U64s(back.Coeffs[i], 4)))
				break
			}
		}
		// product with a sparse (standard ring) or constant (conjugate invariant ring) polynomial
		b := r.NewPoly()
		type term struct {
			k int
			c []uint64
		}
		var terms []term
		nt := 3
		if ci {
			nt = 1
		}
		for t := 0; t < nt; t++ {
			k := 0
			if t > 0 {
				k = 1 + rnd.N(n-1)
			}
			cs := make([]uint64, len(mods))
			for i, q := range mods {
				cs[i] = eng.Pick(rnd, q-1, 1, rnd.U64()%q, q-2)
				b.Coeffs[i][k] = ref.AddMod(b.Coeffs[i][k], cs[i], q)
			}
			terms = append(terms, term{k, cs})
		}
		nb, prod := r.NewPoly(), r.NewPoly()
		r.NTT(b, nb)
		r.MForm(nb, nb)
		r.MulCoeffsMontgomery(na, nb, prod)
		r.INTT(prod, prod)
		st.ringOps++
		for i, q := range mods {
			want := make([]uint64, n)
			for _, t := range terms {
				for j := 0; j < n; j++ {
					v := ref.MulMod(a0.Coeffs[i][j], t.c[i], q)
					d := j + t.k
					if d >= n {
						want[d-n] = ref.SubMod(want[d-n], v, q)
					} else {
						want[d] = ref.AddMod(want[d], v, q)
					}
				}
			}
			if !eqv(prod.Coeffs[i], want) {
				fail("ntt-product", fmt.Sprintf("INTT(NTT(a).NTT(b)) != a*b (b sparse) for q=%d (%d bits) N=%d pattern=%d: got=%s want=%s", q, ref.BitLen(q), n, pat, eng.U64s(prod.Coeffs[i], 4), eng.U64s(want, 4)))
				break
			}
		}
		// dense product against the naive model for small degrees
		if (ci && n <= 32) || (!ci && n <= 64) {
			bd := mk(gen.PatUniform)
			r.NTT(bd, nb)
			r.MForm(nb, nb)
			r.MulCoeffsMontgomery(na, nb, prod)
			r.INTT(prod, prod)
			st.ringOps++
			for i, q := range mods {
				var want []uint64
				if ci {
					want = ref.ConjInvMul(a0.Coeffs[i], bd.Coeffs[i], q)
				} else {
					want = ref.NegacyclicMul(a0.Coeffs[i], bd.Coeffs[i], q)
				}
				if !eqv(prod.Coeffs[i], want) {
					fail("ntt-product", fmt.Sprintf("INTT(NTT(a).NTT(b)) != a*b (naive model) for q=%d (%d bits) N=%d pattern=%d", q, ref.BitLen(q), n, pat))
					break
				}
			}
		}
	}
	return
}

func bigProd(m []uint64) *big.Int {
	p := big.NewInt(1)
	for _, q := range m {
		p.Mul(p, new(big.Int).SetUint64(q))
	}
	return p
}

// noiseBounds returns worst-case bounds on the decryption noise of a fresh secret-key and a fresh
// public-key encryption (see encryptor.go: sk: c0 = -c1*s + e; pk: (u*pk + (e0,e1)) [/ P[0]]).
func noiseBounds(p rlwe.Parameters) (sk, pk float64) {
	b, _ := obs.ErrBound(p)
	s, _ := obs.SecretBound(p)
	k := float64(p.N())
	if p.RingType() == ring.ConjugateInvariant {
		k *= 2 // products are taken in the ring of degree 2N
	}
	sk = b
	pk = 2*k*s*b + b
	if p.PCount() > 0 {
		p0 := float64(p.P()[0])
		pk = pk/p0 + 2 + 1.5*k*s // division rounding on c0 and on c1 (times s)
	}
	return
}

// encDecCheck: encrypt a uniformly random plaintext polynomial with sk and with pk, decrypt, and
// bound the difference by the worst-case noise.
func encDecCheck(p rlwe.Parameters, rnd *eng.Rand, st *soundStats) (fs []failure) {
	level := p.MaxLevel()
	rq := p.RingQ().AtLevel(level)
	bigQ := bigProd(p.Q())
	kgen := rlwe.NewKeyGenerator(p)
	sk := kgen.GenSecretKeyNew()
	pk := kgen.GenPublicKeyNew(sk)
	dec := rlwe.NewDecryptor(p, sk)
	bsk, bpk := noiseBounds(p)
	for _, mode := range []string{"sk", "pk"} {
		bound := bsk
		var key rlwe.EncryptionKey = sk
		if mode == "pk" {
			bound, key = bpk, pk
		}
		// the bound must leave room inside Q, otherwise nothing can be decided
		bq, _ := new(big.Float).SetInt(bigQ).Float64()
		if 4*bound >= bq {
			st.vacuous++
			continue
		}
		pt := rlwe.NewPlaintext(p, level)
		for i, q := range rq.ModuliChain()[:level+1] {
			copy(pt.Value.Coeffs[i], gen.Vec(rnd, p.N(), q-1, eng.Pick(rnd, gen.PatUniform, gen.PatTop, gen.PatSmall), 0))
		}
		want := *pt.Value.CopyNew()
		enc := rlwe.NewEncryptor(p, key)
		ct := rlwe.NewCiphertext(p, 1, level)
		if err := enc.Encrypt(pt, ct); err != nil {
			fs = append(fs, failure{"encrypt-" + mode + "|error", err.Error()})
			continue
		}
		out := dec.DecryptNew(ct)
		st.encDec++
		d := rq.NewPoly()
		rq.Sub(out.Value, want, d)
		if out.IsNTT {
			rq.INTT(d, d)
		}
		s := obs.Stat(obs.Centered(rq, d))
		mx, _ := new(big.Float).SetInt(s.Max).Float64()
		if mx <= bound && s.MaxLog2 > st.maxNoiseLog2 {
			st.maxNoiseLog2 = s.MaxLog2 // largest noise among the measurements that met their bound
		}
		if mx > bound {
			fs = append(fs, failure{"decrypt-" + mode + "-noise", fmt.Sprintf("Decrypt(Encrypt_%s(m)) - m has |.|_inf = 2^%.1f > worst-case bound 2^%.1f (log2 Q = %.1f, N=%d, Q=%v P=%v)", mode, s.MaxLog2, math.Log2(bound), p.LogQ(), p.N(), p.Q(), p.P())})
		}
		if mode == "sk" && p.N() >= 64 && s.NonZero == 0 {
			fs = append(fs, failure{"decrypt-sk-noiseless", "secret-key encryption carries no error at all"})
		}
	}
	return
}

// soundRLWE runs the ring-arithmetic and the encryption/decryption oracle on an accepted context.
func soundRLWE(p rlwe.Parameters, rnd *eng.Rand, st *soundStats) (fs []failure) {
	ci := p.RingType() == ring.ConjugateInvariant
	guard("ring-arithmetic", &fs, func() { fs = append(fs, ringCheck(p.RingQ(), ci, rnd, "Q", st)...) })
	if p.RingP() != nil {
		guard("ring-arithmetic", &fs, func() { fs = append(fs, ringCheck(p.RingP(), ci, rnd, "P", st)...) })
	}
	guard("encrypt-decrypt", &fs, func() { fs = append(fs, encDecCheck(p, rnd, st)...) })
	return
}

// soundBGV: encode / decode is the identity on Z_t^slots, also through encryption when the
// noise provably fits.
func soundBGV(p bgv.Parameters, rnd *eng.Rand, st *soundStats) (fs []failure) {
	guard("bgv-encoding", &fs, func() {
		t := p.PlaintextModulus()
		edName := "bgv-encode-decode"
		if t > p.Q()[0]/2 {
			edName += "|t-above-half-Q0" // the decoder lifts coefficients to (-Q/2, Q/2]: values >= Q0/2 cannot come back
		}
		ecd := bgv.NewEncoder(p)
		slots := p.MaxSlots()
		level := p.MaxLevel()
		vals := gen.Vec(rnd, slots, t-1, eng.Pick(rnd, gen.PatUniform, gen.PatLaneTop, gen.PatSmall), rnd.N(8))
		pt := bgv.NewPlaintext(p, level)
		if err := ecd.Encode(vals, pt); err != nil {
			fs = append(fs, failure{"bgv-encode|error", err.Error()})
			return
		}
		out := make([]uint64, slots)
		if err := ecd.Decode(pt, out); err != nil {
			fs = append(fs, failure{"bgv-decode|error", err.Error()})
			return
		}
		st.encodings++
		if !eqv(out, vals) {
			fs = append(fs, failure{edName, fmt.Sprintf("Decode(Encode(v)) != v at level %d: t=%d Q=%v slots=%d N=%d v=%s got=%s", level, t, p.Q(), slots, p.N(), eng.U64s(vals, 6), eng.U64s(out, 6))})
			return
		}
		if level > 0 {
			// the lowest level is part of the context as well
			pt0 := bgv.NewPlaintext(p, 0)
			out0 := make([]uint64, slots)
			if err := ecd.Encode(vals, pt0); err != nil {
				fs = append(fs, failure{"bgv-encode|error", err.Error()})
				return
			}
			if err := ecd.Decode(pt0, out0); err != nil {
				fs = append(fs, failure{"bgv-decode|error", err.Error()})
				return
			}
			st.encodings++
			if !eqv(out0, vals) {
				fs = append(fs, failure{edName, fmt.Sprintf("Decode(Encode(v)) != v at level 0: t=%d Q0=%d slots=%d N=%d v=%s got=%s", t, p.Q()[0], slots, p.N(), eng.U64s(vals, 6), eng.U64s(out0, 6))})
				return
			}
		}
		// through a secret-key encryption: decryption is exact iff t*(|e|+1) < Q/2
		b, _ := obs.ErrBound(p.Parameters)
		lim := new(big.Int).Mul(new(big.Int).SetUint64(t), big.NewInt(int64(b)+2))
		lim.Lsh(lim, 2)
		if lim.Cmp(bigProd(p.Q())) >= 0 {
			st.vacuous++
			return
		}
		kgen := rlwe.NewKeyGenerator(p)
		sk := kgen.GenSecretKeyNew()
		ct, err := rlwe.NewEncryptor(p, sk).EncryptNew(pt)
		if err != nil {
			fs = append(fs, failure{"bgv-encrypt|error", err.Error()})
			return
		}
		pt2 := rlwe.NewDecryptor(p, sk).DecryptNew(ct)
		out2 := make([]uint64, slots)
		if err := ecd.Decode(pt2, out2); err != nil {
			fs = append(fs, failure{"bgv-decode|error", err.Error()})
			return
		}
		st.encodings++
		if !eqv(out2, vals) {
			fs = append(fs, failure{"bgv-encrypt-decrypt", fmt.Sprintf("Decode(Decrypt(Encrypt(Encode(v)))) != v: t=%d Q=%v N=%d v=%s got=%s", t, p.Q(), p.N(), eng.U64s(vals, 6), eng.U64s(out2, 6))})
		}
	})
	// the auxiliary basis used by scale-invariant multiplication must be coprime to Q
	guard("bgv-qmul", &fs, func() {
		inQ := map[uint64]bool{}
		for _, q := range p.Q() {
			inQ[q] = true
		}
		for _, q := range p.RingQMul().ModuliChain() {
			if inQ[q] {
				fs = append(fs, failure{"bgv-qmul-shares-prime-with-Q", fmt.Sprintf("RingQMul contains %d which is also in Q=%v: the basis Q u QMul is not an RNS basis", q, p.Q())})
				break
			}
		}
	})
	return
}

// soundCKKS: decode(encode(v)) = v up to the rounding the scale implies, also through encryption.
func soundCKKS(p ckks.Parameters, rnd *eng.Rand, st *soundStats) (fs []failure) {
	guard("ckks-encoding", &fs, func() {
		level := p.MaxLevel()
		logQ := bigProd(p.Q()).BitLen() - 1
		k := p.LogDefaultScale()
		if k < p.LogN()+10 {
			k = p.LogN() + 10
		}
		if k > logQ-4 {
			k = logQ - 4
		}
		if k < p.LogN()+8 {
			st.vacuous++
			return
		}
		scale := math.Exp2(float64(k))
		ecd := ckks.NewEncoder(p)
		slots := p.MaxSlots()
		kk := float64(p.N())
		ci := p.RingType() == ring.ConjugateInvariant
		if ci {
			kk *= 2
		}
		b, _ := obs.ErrBound(p.Parameters)
		pt := ckks.NewPlaintext(p, level)
		pt.Scale = rlwe.NewScale(scale)
		var diff func(dec func(*rlwe.Plaintext) *rlwe.Plaintext) (float64, error)
		if ci {
			vals := make([]float64, slots)
			for i := range vals {
				vals[i] = 2*rnd.F64() - 1
			}
			vals[rnd.N(slots)] = 1
			vals[rnd.N(slots)] = -1
			if err := ecd.Encode(vals, pt); err != nil {
				fs = append(fs, failure{"ckks-encode|error", err.Error()})
				return
			}
			diff = func(dec func(*rlwe.Plaintext) *rlwe.Plaintext) (float64, error) {
				out := make([]float64, slots)
				if err := ecd.Decode(dec(pt), out); err != nil {
					return 0, err
				}
				m := 0.0
				for i := range out {
					m = math.Max(m, math.Abs(out[i]-vals[i]))
				}
				return m, nil
			}
		} else {
			vals := make([]complex128, slots)
			for i := range vals {
				vals[i] = complex(2*rnd.F64()-1, 2*rnd.F64()-1)
			}
			vals[rnd.N(slots)] = complex(1, -1)
			if err := ecd.Encode(vals, pt); err != nil {
				fs = append(fs, failure{"ckks-encode|error", err.Error()})
				return
			}
			diff = func(dec func(*rlwe.Plaintext) *rlwe.Plaintext) (float64, error) {
				out := make([]complex128, slots)
				if err := ecd.Decode(dec(pt), out); err != nil {
					return 0, err
				}
				m := 0.0
				for i := range out {
					m = math.Max(m, cmplx.Abs(out[i]-vals[i]))
				}
				return m, nil
			}
		}
		tol := kk*2/scale + math.Exp2(-30)
		d, err := diff(func(pt *rlwe.Plaintext) *rlwe.Plaintext { return pt })
		st.encodings++
		if err != nil {
			fs = append(fs, failure{"ckks-decode|error", err.Error()})
			return
		}
		if !(d <= tol) {
			fs = append(fs, failure{"ckks-encode-decode", fmt.Sprintf("|Decode(Encode(v)) - v|_inf = %.3g > %.3g (scale 2^%d, N=%d, ring %v, Q=%v)", d, tol, k, p.N(), p.RingType(), p.Q())})
			return
		}
		kgen := rlwe.NewKeyGenerator(p)
		sk := kgen.GenSecretKeyNew()
		enc := rlwe.NewEncryptor(p, sk)
		decr := rlwe.NewDecryptor(p, sk)
		tol = kk*(b+2)*2/scale + math.Exp2(-30)
		d, err = diff(func(pt *rlwe.Plaintext) *rlwe.Plaintext {
			ct, e := enc.EncryptNew(pt)
			if e != nil {
				panic(e)
			}
			return decr.DecryptNew(ct)
		})
		st.encodings++
		if err != nil {
			fs = append(fs, failure{"ckks-decode|error", err.Error()})
			return
		}
		if !(d <= tol) {
			fs = append(fs, failure{"ckks-encrypt-decrypt", fmt.Sprintf("|Decode(Decrypt(Encrypt(Encode(v)))) - v|_inf = %.3g > %.3g (scale 2^%d, N=%d, ring %v, Q=%v)", d, tol, k, p.N(), p.RingType(), p.Q())})
		}
	})
	return
}
