package c17

// ext_util.go: the scalar samplers of the anchor files (ring.RandUniform, bignum.RandInt,
// sampling.Rand*) and further clauses on sampling.KeyedPRNG.

import (
	"bytes"
	"encoding/json"
	"fmt"
	"math"
	"math/big"
	"math/bits"

	"github.com/tuneinsight/lattigo/v6/ring"
	"github.com/tuneinsight/lattigo/v6/utils/bignum"
	"github.com/tuneinsight/lattigo/v6/utils/sampling"

	"verif/harness/eng"
)

type randUCase struct {
	V     uint64 `json:"v"`
	Mask  uint64 `json:"mask"`
	Draws int    `json:"draws"`
}

type randBigCase struct {
	Max   string `json:"max"`
	Draws int    `json:"draws"`
}

func utilCases(r *eng.Rand, thorough bool) (out []eng.Case) {
	draws := 1 << 15
	if thorough {
		draws = 1 << 18
	}
	// ring.RandUniform: v at and around powers of two, the tightest mask and the next larger one
	vs := []uint64{1, 2, 3, 5, 64, 65, 97, 1<<20 - 3, 1 << 32, 1<<32 + 1, 3 << 40, 1<<61 - 1, 1<<63 + 12345, math.MaxUint64}
	for i := 0; i < 4; i++ {
		vs = append(vs, r.U64()>>uint(r.N(36))|1<<27|1)
	}
	seenV := map[uint64]bool{}
	for i, v := range vs {
		if seenV[v] {
			continue
		}
		seenV[v] = true
		mask := uint64(1)<<uint(bits.Len64(v-1)) - 1
		if v-1 >= 1<<63 {
			mask = math.MaxUint64
		}
		if i%3 == 2 && mask < 1<<62 {
			mask = mask<<1 | 1
		}
		uc := randUCase{V: v, Mask: mask, Draws: draws}
		out = append(out, eng.Case{ID: fmt.Sprintf("xrand/RandUniform/v%d/mask%x", v, mask), Sig: "C17|ring.RandUniform", Desc: uc, Run: func(c *eng.Ctx) { runRandUniform(c, uc) }})
	}
	two := big.NewInt(2)
	pow := func(e int64) *big.Int { return new(big.Int).Exp(two, big.NewInt(e), nil) }
	maxes := []*big.Int{big.NewInt(1), big.NewInt(2), big.NewInt(3), big.NewInt(255), big.NewInt(256), big.NewInt(257),
		pow(64), new(big.Int).Add(pow(64), big.NewInt(1)), new(big.Int).Sub(pow(127), big.NewInt(1)),
		new(big.Int).Mul(big.NewInt(3), pow(100)), new(big.Int).Add(pow(200), big.NewInt(7)), pow(17)}
	for _, m := range maxes {
		bc := randBigCase{Max: m.String(), Draws: draws / 2}
		out = append(out, eng.Case{ID: "xrand/bignum.RandInt/max" + m.Text(36), Sig: "C17|bignum.RandInt", Desc: bc, Run: func(c *eng.Ctx) { runRandBig(c, bc) }})
	}
	d := draws
	out = append(out, eng.Case{ID: "xrand/sampling-package", Sig: "C17|sampling", Desc: map[string]int{"draws": d}, Run: func(c *eng.Ctx) { runSamplingPkg(c, d) }})
	out = append(out, eng.Case{ID: "xapi/distribution-json", Sig: "C17|ring.ParametersFromMap", Run: runAPIExt})
	for i := 0; i < 3; i++ {
		ii := i
		out = append(out, eng.Case{ID: fmt.Sprintf("xprng/stream/%d", i), Sig: "C17|KeyedPRNG", Desc: map[string]int{"variant": i}, Run: func(c *eng.Ctx) { runPRNGExt(c, ii) }})
	}
	return
}

// chiUniform: chi-square of counts against the exact class sizes of floor(x*nb/v), x in [0,v).
func chiUniform(cnt []float64, size []float64, total, v float64) float64 {
	chi := 0.0
	for b := range cnt {
		exp := total * size[b] / v
		chi += (cnt[b] - exp) * (cnt[b] - exp) / exp
	}
	return chi
}

// chiLimit: p < 1e-9 quantile of chi-square with df degrees of freedom (Wilson-Hilferty, rounded up;
// exact constants for the two sizes used most).
func chiLimit(df int) float64 {
	switch df {
	case 63:
		return chi63
	case 255:
		return chi255
	}
	z := 6.2 // normal quantile of 1e-9 is 5.998
	k := float64(df)
	t := 1 - 2/(9*k) + z*math.Sqrt(2/(9*k))
	return k*t*t*t + 4
}

func runRandUniform(c *eng.Ctx, uc randUCase) {
	pre := "C17|ring.RandUniform"
	rnd := c.Rand()
	key := make([]byte, 32)
	rnd.Read(key)
	other := append([]byte(nil), key...)
	other[3] ^= 0x10
	c.Sample(uc)
	var seq [3][]uint64
	ok := c.Try(pre, func() {
		for k := 0; k < 3; k++ {
			kk := key
			if k == 2 {
				kk = other
			}
			prng, _ := sampling.NewKeyedPRNG(kk)
			n := uc.Draws
			if k > 0 {
				n = 512
			}
			seq[k] = make([]uint64, n)
			for i := range seq[k] {
				seq[k][i] = ring.RandUniform(prng, uc.V, uc.Mask)
			}
		}
	})
	if !ok {
		return
	}
	v := uc.V
	nb := uint64(64)
	if v < nb {
		nb = v
	}
	cnt := make([]float64, nb)
	size := make([]float64, nb)
	for b := uint64(0); b < nb; b++ {
		size[b] = float64(ceilMulDiv(b+1, v, nb) - ceilMulDiv(b, v, nb))
	}
	bad := false
	var top uint64
	for _, x := range seq[0] {
		if x >= v {
			bad = true
			continue
		}
		top = max(top, x)
		cnt[bucket(x, nb, v)]++
	}
	c.Check(!bad, pre+"|out-of-range", func() string { return fmt.Sprintf("v=%d mask=%#x: a value >= v was returned", v, uc.Mask) })
	same := true
	for i := range seq[1] {
		if seq[1][i] != seq[0][i] {
			same = false
		}
	}
	c.Check(same, pre+"|not-reproducible", func() string {
		return fmt.Sprintf("v=%d: two generators with the same key give different sequences", v)
	})
	if v >= 4 {
		eq := 0
		for i := range seq[2] {
			if seq[2][i] == seq[0][i] {
				eq++
			}
		}
		// P(equal) = 1/v per position; 512 positions: more than 256+ equal has probability < 2^-200 for v >= 4
		c.Check(eq <= len(seq[2])/2+64, pre+"|distinct-keys-same-output", func() string {
			return fmt.Sprintf("v=%d: %d of %d positions equal under another key", v, eq, len(seq[2]))
		})
	}
	if nb >= 2 {
		chi := chiUniform(cnt, size, float64(len(seq[0])), float64(v))
		c.Max("max_randuniform_chi2_x100", int64(chi*100))
		c.Check(chi <= chiLimit(int(nb)-1), pre+"|not-uniform", func() string {
			return fmt.Sprintf("v=%d mask=%#x: chi2(%d buckets)=%.1f over %d draws", v, uc.Mask, nb, chi, len(seq[0]))
		})
	}
	// the upper part of the range is reached: with >= 2^15 draws the largest value lies above v - v/64 - 1
	if v >= 2 {
		c.Check(top >= v-1-v/64, pre+"|upper-range-never-reached", func() string { return fmt.Sprintf("v=%d: largest of %d draws is %d", v, len(seq[0]), top) })
	}
	c.Count("randuniform_draws", int64(len(seq[0])))
	c.Distinct(fmt.Sprintf("randuniform/%d/%x", v, uc.Mask), true)
}

func runRandBig(c *eng.Ctx, bc randBigCase) {
	pre := "C17|bignum.RandInt"
	mx, _ := new(big.Int).SetString(bc.Max, 10)
	rnd := c.Rand()
	key := make([]byte, 32)
	rnd.Read(key)
	other := append([]byte(nil), key...)
	other[9] ^= 2
	c.Sample(bc)
	var seq [3][]*big.Int
	ok := c.Try(pre, func() {
		for k := 0; k < 3; k++ {
			kk := key
			if k == 2 {
				kk = other
			}
			prng, _ := sampling.NewKeyedPRNG(kk)
			n := bc.Draws
			if k > 0 {
				n = 512
			}
			for i := 0; i < n; i++ {
				seq[k] = append(seq[k], bignum.RandInt(prng, mx))
			}
		}
	})
	if !ok {
		return
	}
	nb := int64(64)
	if mx.IsInt64() && mx.Int64() < nb {
		nb = mx.Int64()
	}
	cnt := make([]float64, nb)
	size := make([]float64, nb)
	bnb := big.NewInt(nb)
	ceil := func(b int64) *big.Int { // ceil(b*max/nb)
		t := new(big.Int).Mul(big.NewInt(b), mx)
		t.Add(t, big.NewInt(nb-1))
		return t.Quo(t, bnb)
	}
	mxf, _ := new(big.Float).SetInt(mx).Float64()
	for b := int64(0); b < nb; b++ {
		d := new(big.Int).Sub(ceil(b+1), ceil(b))
		size[b], _ = new(big.Float).SetInt(d).Float64()
	}
	bad := false
	top := new(big.Int)
	for _, x := range seq[0] {
		if x.Sign() < 0 || x.Cmp(mx) >= 0 {
			bad = true
			continue
		}
		if x.Cmp(top) > 0 {
			top = x
		}
		t := new(big.Int).Mul(x, bnb)
		cnt[t.Quo(t, mx).Int64()]++
	}
	c.Check(!bad, pre+"|out-of-range", func() string { return "max=" + bc.Max })
	same := true
	for i := range seq[1] {
		if seq[1][i].Cmp(seq[0][i]) != 0 {
			same = false
		}
	}
	c.Check(same, pre+"|not-reproducible", func() string { return "max=" + bc.Max })
	if mx.Cmp(big.NewInt(4)) >= 0 {
		eq := 0
		for i := range seq[2] {
			if seq[2][i].Cmp(seq[0][i]) == 0 {
				eq++
			}
		}
		c.Check(eq <= len(seq[2])/2+64, pre+"|distinct-keys-same-output", func() string { return fmt.Sprintf("max=%s: %d of %d equal", bc.Max, eq, len(seq[2])) })
	}
	if nb >= 2 {
		chi := chiUniform(cnt, size, float64(len(seq[0])), mxf)
		c.Max("max_bigrandint_chi2_x100", int64(chi*100))
		c.Check(chi <= chiLimit(int(nb)-1), pre+"|not-uniform", func() string {
			return fmt.Sprintf("max=%s: chi2(%d buckets)=%.1f over %d draws", bc.Max, nb, chi, len(seq[0]))
		})
		lim := new(big.Int).Sub(mx, big.NewInt(1))
		lim.Sub(lim, new(big.Int).Quo(mx, big.NewInt(64)))
		c.Check(top.Cmp(lim) >= 0, pre+"|upper-range-never-reached", func() string { return fmt.Sprintf("max=%s: largest draw %v", bc.Max, top) })
	}
	c.Count("bigrandint_draws", int64(len(seq[0])))
	c.Distinct("bigrandint/"+bc.Max, true)
}

// runSamplingPkg: the helpers of utils/sampling/sampling.go (they read crypto/rand, which the engine
// has replaced by a keyed stream: only range and shape are judged, not reproducibility).
func runSamplingPkg(c *eng.Ctx, draws int) {
	N := float64(draws)
	c.Try("C17|sampling.RandUint64", func() {
		var ones [64]float64
		seen := map[uint64]bool{}
		dup := false
		for i := 0; i < draws; i++ {
			x := sampling.RandUint64()
			if seen[x] {
				dup = true
			}
			seen[x] = true
			for b := 0; b < 64; b++ {
				ones[b] += float64(x >> uint(b) & 1)
			}
		}
		worst := 0.0
		for b := range ones {
			worst = math.Max(worst, math.Abs(ones[b]-N/2)/math.Sqrt(N/4))
		}
		c.Max("max_randuint64_bit_dev_in_se_x100", int64(worst*100))
		c.Check(worst <= 7, "C17|sampling.RandUint64|biased-bit", func() string {
			return fmt.Sprintf("a bit deviates by %.1f standard errors over %d draws", worst, draws)
		})
		c.Check(!dup, "C17|sampling.RandUint64|repeated-value", nil)
	})
	for _, rg := range [][2]float64{{0, 1}, {-1, 1}, {-8, 8}, {3, 3.5}, {-1e6, 1e6}, {2, 2}} {
		lo, hi := rg[0], rg[1]
		c.Try("C17|sampling.RandFloat64", func() {
			cnt := make([]float64, 64)
			size := make([]float64, 64)
			bad := false
			var sum float64
			for i := 0; i < draws; i++ {
				x := sampling.RandFloat64(lo, hi)
				if !(x >= lo && x <= hi) {
					bad = true
					continue
				}
				sum += x
				if hi > lo {
					b := int((x - lo) / (hi - lo) * 64)
					if b > 63 {
						b = 63
					}
					cnt[b]++
				}
			}
			c.Check(!bad, "C17|sampling.RandFloat64|out-of-range", func() string { return fmt.Sprintf("range [%g,%g]", lo, hi) })
			if hi > lo {
				for b := range size {
					size[b] = 1
				}
				chi := chiUniform(cnt, size, N, 64)
				c.Max("max_randfloat_chi2_x100", int64(chi*100))
				c.Check(chi <= chi63, "C17|sampling.RandFloat64|not-uniform", func() string { return fmt.Sprintf("range [%g,%g]: chi2(64)=%.1f", lo, hi, chi) })
				se := (hi - lo) / math.Sqrt(12*N)
				c.Check(math.Abs(sum/N-(lo+hi)/2) <= 6*se, "C17|sampling.RandFloat64|biased-mean", func() string { return fmt.Sprintf("range [%g,%g]: mean %g", lo, hi, sum/N) })
			}
		})
	}
	c.Try("C17|sampling.RandComplex128", func() {
		bad := false
		var sr, si, sri float64
		for i := 0; i < draws; i++ {
			z := sampling.RandComplex128(-1, 1)
			re, im := real(z), imag(z)
			if !(re >= -1 && re <= 1 && im >= -1 && im <= 1) {
				bad = true
			}
			sr, si, sri = sr+re, si+im, sri+re*im
		}
		c.Check(!bad, "C17|sampling.RandComplex128|out-of-range", nil)
		se := 2 / math.Sqrt(12*N)
		c.Check(math.Abs(sr/N) <= 6*se && math.Abs(si/N) <= 6*se, "C17|sampling.RandComplex128|biased-mean", nil)
		// real and imaginary parts are independent draws: E[re*im] = 0, Var = 1/9
		c.Check(math.Abs(sri/N) <= 6/(3*math.Sqrt(N)), "C17|sampling.RandComplex128|parts-correlated", func() string { return fmt.Sprintf("E[re*im]=%g", sri/N) })
	})
	for _, ms := range []string{"1", "2", "7", "256", "18446744073709551617", "1267650600228229401496703205376"} {
		mx, _ := new(big.Int).SetString(ms, 10)
		c.Try("C17|sampling.RandInt", func() {
			bad := false
			top := new(big.Int)
			for i := 0; i < draws/8; i++ {
				x := sampling.RandInt(mx)
				if x.Sign() < 0 || x.Cmp(mx) >= 0 {
					bad = true
				}
				if x.Cmp(top) > 0 {
					top = x
				}
			}
			c.Check(!bad, "C17|sampling.RandInt|out-of-range", func() string { return "max=" + ms })
			lim := new(big.Int).Sub(mx, big.NewInt(1))
			lim.Sub(lim, new(big.Int).Quo(mx, big.NewInt(64)))
			c.Check(top.Cmp(lim) >= 0, "C17|sampling.RandInt|upper-range-never-reached", func() string { return fmt.Sprintf("max=%s largest %v", ms, top) })
		})
	}
	c.Count("sampling_pkg_draws", int64(draws))
	c.Distinct("sampling-package", true)
}

// runPRNGExt: clauses on KeyedPRNG the prng family does not state.
func runPRNGExt(c *eng.Ctx, variant int) {
	pre := "C17|KeyedPRNG"
	rnd := c.Rand()
	key := make([]byte, []int{32, 1, 64}[variant])
	rnd.Read(key)
	const tot = 1 << 14
	// 1. the stream does not depend on how it is cut into Read calls
	c.Try(pre+".Read", func() {
		p0, _ := sampling.NewKeyedPRNG(key)
		whole := make([]byte, tot)
		if n, err := p0.Read(whole); n != tot || err != nil {
			c.Violate(pre+".Read|short-or-error", fmt.Sprintf("Read(%d) returned n=%d err=%v", tot, n, err), nil)
			return
		}
		for rep := 0; rep < 4; rep++ {
			p, _ := sampling.NewKeyedPRNG(key)
			var got []byte
			for len(got) < tot {
				n := eng.Pick(rnd, 0, 1, 3, 8, 63, 64, 65, 127, 128, 129, 1024, 1+rnd.N(700))
				if n > tot-len(got) {
					n = tot - len(got)
				}
				b := make([]byte, n)
				m, err := p.Read(b)
				if m != n || err != nil {
					c.Violate(pre+".Read|short-or-error", fmt.Sprintf("Read(%d) returned n=%d err=%v", n, m, err), nil)
					return
				}
				got = append(got, b...)
			}
			c.Check(bytes.Equal(got, whole), pre+".Read|chunking-changes-stream", func() string {
				return fmt.Sprintf("key of %d bytes: %d bytes read in pieces differ from the same bytes read at once", len(key), tot)
			})
		}
		// 2. Reset in the middle of a stream, twice in a row, and right after construction
		p, _ := sampling.NewKeyedPRNG(key)
		p.Reset()
		for rep := 0; rep < 3; rep++ {
			n := 1 + rnd.N(5000)
			b := make([]byte, n)
			p.Read(b)
			c.Check(bytes.Equal(b, whole[:n]), pre+".Reset|does-not-replay|mid-stream", func() string { return fmt.Sprintf("after %d Reset calls, %d bytes", rep+1, n) })
			p.Reset()
			if rep == 1 {
				p.Reset()
			}
		}
		c.Check(bytes.Equal(p.Key(), key), pre+".Key|changed-by-use", nil)
	})
	// 3. nil key = empty key (documented)
	c.Try(pre, func() {
		a, e1 := sampling.NewKeyedPRNG(nil)
		b, e2 := sampling.NewKeyedPRNG([]byte{})
		if e1 != nil || e2 != nil {
			c.Violate(pre+"|constructor-error", fmt.Sprint(e1, e2), nil)
			return
		}
		x, y := make([]byte, 4096), make([]byte, 4096)
		a.Read(x)
		b.Read(y)
		c.Check(bytes.Equal(x, y), pre+"|nil-key-differs-from-empty-key", nil)
		c.Check(len(a.Key()) == 0, pre+".Key|not-replayable|nil-key", nil)
	})
	// 4. a key longer than the hash accepts: refused with an error, or a working generator; never a panic
	for _, kl := range []int{65, 128, 1000} {
		long := make([]byte, kl)
		rnd.Read(long)
		c.Try(pre+"|oversized-key", func() {
			p, err := sampling.NewKeyedPRNG(long)
			c.Count("prng_oversized_keys_tried", 1)
			if err != nil {
				c.Count("prng_oversized_keys_refused", 1)
				c.Eval(1)
				return
			}
			q, _ := sampling.NewKeyedPRNG(long)
			x, y := make([]byte, 1024), make([]byte, 1024)
			n1, e1 := p.Read(x)
			n2, e2 := q.Read(y)
			c.Check(n1 == 1024 && n2 == 1024 && e1 == nil && e2 == nil && bytes.Equal(x, y), pre+"|oversized-key|accepted-but-not-reproducible", nil)
			// an accepted key is the key: it is reported back as given, and another key that differs from it only
			// beyond the 64th byte is another key (distinct keys give unrelated streams)
			c.Check(bytes.Equal(p.Key(), long), pre+".Key|oversized-key|not-the-key-given", nil)
			other := append([]byte(nil), long...)
			other[len(other)-1] ^= 0x5a
			if o, err := sampling.NewKeyedPRNG(other); err == nil {
				z := make([]byte, 1024)
				o.Read(z)
				c.Check(!bytes.Equal(x, z), pre+"|oversized-key|keys-equal-on-64-bytes-give-one-stream", nil)
			}
		})
	}
	// 5. two generators made by NewPRNG are keyed differently (64-byte keys)
	c.Try("C17|sampling.NewPRNG", func() {
		a, e1 := sampling.NewPRNG()
		b, e2 := sampling.NewPRNG()
		if e1 != nil || e2 != nil {
			c.Violate("C17|sampling.NewPRNG|constructor-error", fmt.Sprint(e1, e2), nil)
			return
		}
		c.Check(len(a.Key()) == 64 && !bytes.Equal(a.Key(), b.Key()), "C17|sampling.NewPRNG|keys-not-fresh", nil)
		x, y := make([]byte, 256), make([]byte, 256)
		a.Read(x)
		b.Read(y)
		c.Check(!bytes.Equal(x, y), "C17|sampling.NewPRNG|distinct-keys-related-streams", nil)
	})
	c.Distinct(fmt.Sprintf("prngx/%d", variant), true)
}

// runAPIExt: distribution parameters survive their own JSON form; ring.NewSampler refuses a missing
// distribution with an error.
func runAPIExt(c *eng.Ctx) {
	dists := []ring.DistributionParameters{
		ring.Uniform{}, ring.Ternary{P: 0.5}, ring.Ternary{P: 2.0 / 3}, ring.Ternary{P: 1e-3}, ring.Ternary{H: 1}, ring.Ternary{H: 192}, ring.Ternary{H: 1 << 16},
		ring.DiscreteGaussian{Sigma: 3.2, Bound: 19.2}, ring.DiscreteGaussian{Sigma: 0.5, Bound: 1}, ring.DiscreteGaussian{Sigma: p2(70), Bound: 6 * p2(70)},
		ring.DiscreteGaussian{Sigma: math.Nextafter(p2(53), p2(54)), Bound: p2(65)},
	}
	for _, d := range dists {
		dd := d
		c.Try("C17|ring.ParametersFromMap", func() {
			b, err := json.Marshal(dd)
			if !c.Check(err == nil, "C17|ring.DistributionParameters.MarshalJSON|error", func() string { return fmt.Sprintf("%+v: %v", dd, err) }) {
				return
			}
			var m map[string]interface{}
			if err := json.Unmarshal(b, &m); err != nil {
				c.Violate("C17|ring.DistributionParameters.MarshalJSON|not-json", fmt.Sprintf("%+v: %s: %v", dd, b, err), nil)
				return
			}
			got, err := ring.ParametersFromMap(m)
			c.Check(err == nil && got == dd, "C17|ring.ParametersFromMap|json-round-trip-changes-distribution", func() string {
				return fmt.Sprintf("%T%+v -> %s -> %T%+v (err %v)", dd, dd, b, got, got, err)
			})
			c.Check(m["Type"] == dd.Type(), "C17|ring.DistributionParameters.Type|differs-from-json", nil)
		})
	}
	r, err := ring.NewRing(16, []uint64{97})
	if err == nil {
		prng, _ := sampling.NewKeyedPRNG([]byte("k"))
		c.Try("C17|ring.NewSampler|missing-distribution", func() {
			s, err := ring.NewSampler(prng, r, nil, false)
			c.Check(err != nil && s == nil, "C17|ring.NewSampler|invalid-parameters-accepted", nil)
		})
	}
	c.Distinct("xapi", true)
}
