package c17

import (
	"bytes"
	"fmt"
	"math/big"
	"sync"

	"github.com/tuneinsight/lattigo/v6/core/rlwe"
	"github.com/tuneinsight/lattigo/v6/multiparty"
	"github.com/tuneinsight/lattigo/v6/ring"
	"github.com/tuneinsight/lattigo/v6/ring/ringqp"
	"github.com/tuneinsight/lattigo/v6/utils/sampling"

	"verif/harness/eng"
	"verif/harness/gen"
	"verif/harness/obs"
	"verif/harness/ref"
)

type prngCase struct {
	KeyLen int `json:"keyLen"`
	Bytes  int `json:"bytes"`
}

type rlweCase struct {
	Kind   string   `json:"kind"` // expand | seeded | crp
	LogN   int      `json:"logN"`
	Q      []uint64 `json:"q"`
	P      []uint64 `json:"p"`
	LevelQ int      `json:"levelQ"`
	LevelP int      `json:"levelP"`
	Base2  int      `json:"base2"`
	Key    string   `json:"key"` // evk | gal | rlk
}

func miscCases(r *eng.Rand, thorough bool) (out []eng.Case) {
	for i, kl := range []int{0, 1, 16, 32, 33, 64} {
		pc := prngCase{KeyLen: kl, Bytes: 1 << 18}
		out = append(out, eng.Case{ID: fmt.Sprintf("prng/key%d/%d", kl, i), Sig: "C17|KeyedPRNG", Desc: pc, Run: func(c *eng.Ctx) { runPRNG(c, pc) }})
	}
	out = append(out, eng.Case{ID: "api/distribution-parameters", Sig: "C17|ring.NewSampler", Run: runAPI})
	nr := 48
	if thorough {
		nr = 400
	}
	for i := 0; i < nr; i++ {
		logN := eng.Pick(r, 4, 5, 6, 8)
		if thorough && i%8 == 7 {
			logN = 10
		}
		nth := uint64(2) << logN
		nq, np := 1+r.N(4), r.N(3)
		var qb, pb []int
		for k := 0; k < nq; k++ {
			qb = append(qb, eng.Pick(r, 30, 45, 55, 60))
		}
		for k := 0; k < np; k++ {
			pb = append(pb, eng.Pick(r, 45, 55, 60))
		}
		q, p := gen.Chain(r, nth, qb, pb)
		if q == nil {
			continue
		}
		rc := rlweCase{LogN: logN, Q: q, P: p, LevelQ: nq - 1, LevelP: np - 1}
		if r.N(3) == 0 {
			rc.LevelQ = r.N(nq)
		}
		if np > 0 && r.N(3) == 0 {
			rc.LevelP = r.N(np)
		}
		if np == 0 || r.N(3) == 0 {
			rc.Base2 = eng.Pick(r, 8, 13, 20)
		}
		for _, kind := range []string{"expand", "crp"} {
			cc := rc
			cc.Kind = kind
			cc.Key = []string{"evk", "gal", "rlk"}[i%3]
			if kind == "crp" && i%2 == 1 {
				continue
			}
			out = append(out, eng.Case{ID: fmt.Sprintf("%s/%s/logN%d/q%d/p%d/lq%d/lp%d/b%d/%d", kind, cc.Key, logN, nq, np, cc.LevelQ, cc.LevelP, cc.Base2, i),
				Sig: "C17|" + kind, Desc: cc, Run: func(c *eng.Ctx) { runRLWE(c, cc) }})
		}
	}
	if thorough {
		for _, kind := range []string{"uniform", "gauss", "ternP", "ternH"} {
			k := kind
			out = append(out, eng.Case{ID: "race/owners/" + k, Sig: "C17|race", Run: func(c *eng.Ctx) { runRace(c, k) }})
		}
	}
	return
}

func stream(p *sampling.KeyedPRNG, chunks []int) ([]byte, error) {
	var out []byte
	for _, n := range chunks {
		b := make([]byte, n)
		m, err := p.Read(b)
		if err != nil || m != n {
			return nil, fmt.Errorf("Read(%d) returned n=%d err=%v", n, m, err)
		}
		out = append(out, b...)
	}
	return out, nil
}

func runPRNG(c *eng.Ctx, pc prngCase) {
	rnd := c.Rand()
	key := make([]byte, pc.KeyLen)
	rnd.Read(key)
	var chunks []int
	tot := 0
	for tot < 8192 {
		n := eng.Pick(rnd, 1, 7, 8, 32, 64, 65, 128, 1024, rnd.N(300)+1)
		chunks = append(chunks, n)
		tot += n
	}
	c.Sample(map[string]any{"case": pc, "chunks": len(chunks)})
	pre := "C17|KeyedPRNG"
	p1, e1 := sampling.NewKeyedPRNG(key)
	p2, e2 := sampling.NewKeyedPRNG(append([]byte(nil), key...))
	if e1 != nil || e2 != nil {
		c.Violate(pre+"|constructor-error", fmt.Sprint(e1, e2), pc)
		return
	}
	s1, err1 := stream(p1, chunks)
	s2, err2 := stream(p2, chunks)
	if err1 != nil || err2 != nil {
		c.Violate(pre+".Read|short-or-error", fmt.Sprint(err1, err2), pc)
		return
	}
	c.Check(bytes.Equal(s1, s2), pre+"|same-key-different-stream", nil)
	// Reset replays
	p1.Reset()
	s3, _ := stream(p1, chunks)
	c.Check(bytes.Equal(s1, s3), pre+".Reset|does-not-replay", func() string { return fmt.Sprintf("key length %d", pc.KeyLen) })
	// another key: unrelated
	var key2 []byte
	if len(key) == 0 {
		key2 = []byte{1}
	} else {
		key2 = append([]byte(nil), key...)
		key2[rnd.N(len(key2))] ^= 1 << rnd.N(8)
	}
	p3, _ := sampling.NewKeyedPRNG(key2)
	s4, _ := stream(p3, chunks)
	diff := 0
	for i := range s1 {
		if s1[i] != s4[i] {
			diff++
		}
	}
	c.Check(diff*10 >= len(s1)*4, pre+"|distinct-keys-related-streams", func() string {
		return fmt.Sprintf("only %d of %d bytes differ between keys %x and %x", diff, len(s1), key, key2)
	})
	c.Distinct(fmt.Sprintf("prng/%d", pc.KeyLen), true)
	// the generator owns its key: a caller that reuses the byte slice it passed to NewKeyedPRNG (one seed buffer
	// patched per party, a buffer returned to a pool) must not change what Reset replays nor what Key returns
	if pc.KeyLen > 0 {
		kbuf := append([]byte(nil), key...)
		p4, err := sampling.NewKeyedPRNG(kbuf)
		if err == nil {
			a, _ := stream(p4, chunks[:8])
			for i := range kbuf {
				kbuf[i] ^= 0xa5
			}
			p4.Reset()
			b, _ := stream(p4, chunks[:8])
			c.Check(bytes.Equal(a, b) && bytes.Equal(a, s1[:len(a)]), pre+".Reset|does-not-replay|caller-key-buffer-overwritten", func() string {
				return fmt.Sprintf("key length %d: after the caller overwrote its key slice, Reset replays another stream", pc.KeyLen)
			})
			c.Check(bytes.Equal(p4.Key(), key), pre+".Key|follows-caller-buffer", func() string {
				return fmt.Sprintf("Key()=%x want %x", p4.Key(), key)
			})
			// and the slice returned by Key is not a handle on the generator's state either
			k := p4.Key()
			for i := range k {
				k[i] ^= 0x5a
			}
			p4.Reset()
			b2, _ := stream(p4, chunks[:8])
			c.Check(bytes.Equal(a, b2), pre+".Reset|does-not-replay|Key-result-overwritten", nil)
		}
	}
	// Key(): documented to allow re-instantiation of the same stream through NewKeyedPRNG
	for _, ctor := range []string{"NewKeyedPRNG", "NewPRNG"} {
		var p *sampling.KeyedPRNG
		if ctor == "NewPRNG" {
			p, _ = sampling.NewPRNG()
		} else {
			if pc.KeyLen == 0 {
				continue
			}
			p, _ = sampling.NewKeyedPRNG(key)
		}
		a, _ := stream(p, chunks[:8])
		k := p.Key()
		pp, err := sampling.NewKeyedPRNG(k)
		if err != nil {
			c.Violate(pre+".Key|not-replayable|"+ctor, err.Error(), pc)
			continue
		}
		b, _ := stream(pp, chunks[:8])
		c.Check(bytes.Equal(a, b), pre+".Key|not-replayable|"+ctor, func() string {
			return fmt.Sprintf("generator built by %s (key of %d bytes): Key() returns %d bytes and NewKeyedPRNG(Key()) yields another stream", ctor, len(key), len(k))
		})
		c.Distinct("prng/key/"+ctor, true)
	}
	// byte histogram
	p1.Reset()
	buf := make([]byte, pc.Bytes)
	p1.Read(buf)
	var cnt [256]float64
	for _, b := range buf {
		cnt[b]++
	}
	exp := float64(len(buf)) / 256
	chi := 0.0
	for _, x := range cnt {
		chi += (x - exp) * (x - exp) / exp
	}
	c.Max("max_prng_byte_chi2_x100", int64(chi*100))
	c.Check(chi <= chi255, pre+"|bytes-not-uniform", func() string { return fmt.Sprintf("chi2(255)=%.1f over %d bytes", chi, len(buf)) })
	// a sampler built on a Reset generator replays the first sampler's outputs
	r, err := ring.NewRing(64, gen.Primes(45, 128, 2, gen.PosBelow, nil))
	if err != nil {
		return
	}
	for _, dc := range []distCfg{{Kind: "uniform"}, {Kind: "gauss", Sigma: 3.2, Bound: 19.2}, {Kind: "ternP", P: 2.0 / 3}, {Kind: "ternH", H: 9}} {
		s, prng, err := mkSampler(key, r, dc, false)
		if err != nil {
			continue
		}
		a1, a2 := copyPoly(s.ReadNew()), copyPoly(s.AtLevel(0).ReadNew())
		prng.Reset()
		var X ring.DistributionParameters = ring.Uniform{}
		switch dc.Kind {
		case "gauss":
			X = ring.DiscreteGaussian{Sigma: dc.Sigma, Bound: dc.Bound}
		case "ternP":
			X = ring.Ternary{P: dc.P}
		case "ternH":
			X = ring.Ternary{H: dc.H}
		}
		s2, _ := ring.NewSampler(prng, r, X, false)
		b1, b2 := s2.ReadNew(), s2.AtLevel(0).ReadNew()
		c.Check(samePoly(a1, b1) && samePoly(a2, b2), "C17|"+dc.name()+"|not-replayed-after-Reset", nil)
		// and another key gives another polynomial
		s3, _, _ := mkSampler(key2, r, dc, false)
		c1 := s3.ReadNew()
		c.Check(!samePoly(a1, c1), "C17|"+dc.name()+"|distinct-keys-same-output", nil)
		c.Distinct("prng/sampler-reset/"+dc.Kind, true)
	}
}

func runAPI(c *eng.Ctx) {
	r, err := ring.NewRing(16, gen.Primes(30, 32, 1, gen.PosBelow, nil))
	if err != nil {
		c.Inconclusive(err.Error())
		return
	}
	prng, _ := sampling.NewKeyedPRNG([]byte("k"))
	for _, x := range []ring.Ternary{{}, {P: 0.5, H: 3}} {
		xx := x
		c.Try("C17|ring.NewTernarySampler|invalid-parameters", func() {
			_, err := ring.NewTernarySampler(prng, r, xx, false)
			c.Check(err != nil, "C17|ring.NewTernarySampler|invalid-parameters-accepted", func() string { return fmt.Sprintf("%+v", xx) })
			_, err = ring.NewSampler(prng, r, xx, false)
			c.Check(err != nil, "C17|ring.NewSampler|invalid-parameters-accepted", func() string { return fmt.Sprintf("%+v", xx) })
		})
	}
	for _, m := range []map[string]any{
		{"Type": "Ternary", "P": 0.5, "H": 3.0}, {"Type": "Ternary"}, {"Type": "Nope"}, {},
	} {
		mm := m
		c.Try("C17|ring.ParametersFromMap", func() {
			_, err := ring.ParametersFromMap(mm)
			c.Check(err != nil, "C17|ring.ParametersFromMap|invalid-parameters-accepted", func() string { return fmt.Sprint(mm) })
		})
	}
	c.Try("C17|ring.ParametersFromMap", func() {
		d, err := ring.ParametersFromMap(map[string]any{"Type": "DiscreteGaussian", "Sigma": 3.2, "Bound": 19.2})
		c.Check(err == nil && d == ring.DiscreteGaussian{Sigma: 3.2, Bound: 19.2}, "C17|ring.ParametersFromMap|wrong-value", nil)
		d, err = ring.ParametersFromMap(map[string]any{"Type": "Ternary", "H": 7.0})
		c.Check(err == nil && d == ring.Ternary{H: 7}, "C17|ring.ParametersFromMap|wrong-value", nil)
	})
	c.Distinct("api", false)
}

func sameQP(a, b ringqp.Poly) bool { return samePoly(a.Q, b.Q) && samePoly(a.P, b.P) }

func inRangeQP(p ringqp.Poly, q, pm []uint64) bool {
	for k := range p.Q.Coeffs {
		for _, x := range p.Q.Coeffs[k] {
			if x >= q[k] {
				return false
			}
		}
	}
	for k := range p.P.Coeffs {
		for _, x := range p.P.Coeffs[k] {
			if x >= pm[k] {
				return false
			}
		}
	}
	return true
}

func copyEvk(e *rlwe.EvaluationKey) *rlwe.EvaluationKey {
	cp := &rlwe.EvaluationKey{GadgetCiphertext: *e.GadgetCiphertext.CopyNew()}
	if e.Seed != nil {
		s := *e.Seed
		cp.Seed = &s
	}
	return cp
}

func runRLWE(c *eng.Ctx, rc rlweCase) {
	params, err := rlwe.NewParametersFromLiteral(rlwe.ParametersLiteral{LogN: rc.LogN, Q: rc.Q, P: rc.P, NTTFlag: true})
	if err != nil {
		c.Inconclusive("parameters: " + err.Error())
		return
	}
	c.Sample(rc)
	rnd := c.Rand()
	evkp := rlwe.EvaluationKeyParameters{LevelQ: &rc.LevelQ, LevelP: &rc.LevelP, Compressed: true}
	if rc.Base2 > 0 {
		evkp.BaseTwoDecomposition = &rc.Base2
	}
	if rc.Kind == "crp" {
		runCRP(c, rc, params, evkp)
		return
	}
	pre := "C17|EvaluationKey.Expand"
	kgen := rlwe.NewKeyGenerator(params)
	sk := kgen.GenSecretKeyNew()
	var evk *rlwe.EvaluationKey
	zeroIn := false
	ok := c.Try("C17|KeyGenerator|compressed-"+rc.Key, func() {
		switch rc.Key {
		case "evk":
			zeroIn = true
			evk = kgen.GenEvaluationKeyNew(rlwe.NewSecretKey(params), sk, evkp)
		case "gal":
			gk := kgen.GenGaloisKeyNew(params.GaloisElement(1+rnd.N(5)), sk, evkp)
			evk = &gk.EvaluationKey
		case "rlk":
			rk := kgen.GenRelinearizationKeyNew(sk, evkp)
			evk = &rk.EvaluationKey
		}
	})
	if !ok {
		return
	}
	if !c.Check(evk.IsCompressed() && evk.Seed != nil, "C17|KeyGenerator|compressed-key-without-seed", nil) {
		return
	}
	c.Distinct(fmt.Sprintf("expand/%s/%d/%d/%d/%d/%d/%d", rc.Key, rc.LogN, len(rc.Q), len(rc.P), rc.LevelQ, rc.LevelP, rc.Base2), true)
	k1, k2 := copyEvk(evk), copyEvk(evk)
	b0 := copyEvk(evk)
	var err1, err2 error
	if !c.Try(pre, func() {
		err1 = k1.Expand(params, nil)
		err2 = k2.Expand(params, rlwe.NewGadgetCiphertext(params, 0, rc.LevelQ, rc.LevelP, rc.Base2))
	}) {
		return
	}
	if !c.Check(err1 == nil && err2 == nil, pre+"|error-on-compressed-key", func() string { return fmt.Sprint(err1, err2) }) {
		return
	}
	qm, pm := rc.Q[:rc.LevelQ+1], rc.P[:rc.LevelP+1]
	all := append(append([]uint64(nil), qm...), pm...)
	crt := ref.NewCRT(all)
	rqp := params.RingQP().AtLevel(rc.LevelQ, rc.LevelP)
	bound, _ := obs.ErrBound(params)
	B := big.NewInt(int64(bound + 0.5))
	n := params.N()
	det := &reuseDet{seen: map[uint64]bool{}}
	maxE := int64(0)
	for i := range k1.Value {
		for j := range k1.Value[i] {
			e1, e2 := k1.Value[i][j], k2.Value[i][j]
			if !c.Check(len(e1) == 2 && len(e2) == 2, pre+"|not-degree-1-after-expansion", nil) {
				return
			}
			c.Check(sameQP(e1[1], e2[1]), pre+"|not-reproducible", func() string {
				return fmt.Sprintf("component [%d][%d]: two expansions of the same compressed key differ", i, j)
			})
			c.Check(sameQP(e1[0], b0.Value[i][j][0]), pre+"|first-component-modified", nil)
			c.Check(inRangeQP(e1[1], qm, pm), pre+"|out-of-range", nil)
			for k := range e1[1].Q.Coeffs {
				if det.add(e1[1].Q.Coeffs[k], qm[k]) {
					c.Violate(pre+"|randomness-reuse", fmt.Sprintf("component [%d][%d] row %d repeats residues of an earlier component", i, j, k), rc)
				}
			}
			if !zeroIn {
				continue
			}
			// b + a*s = e, |e| <= floor(B+1/2), as one integer vector over all moduli of Q and P
			t := rqp.NewPoly()
			rqp.MulCoeffsMontgomery(e1[1], sk.Value, t)
			rqp.Add(t, e1[0], t)
			rqp.INTT(t, t)
			rqp.IMForm(t, t)
			rows := append(append([][]uint64(nil), t.Q.Coeffs[:rc.LevelQ+1]...), t.P.Coeffs[:rc.LevelP+1]...)
			bad := -1
			var worst *big.Int
			for x := 0; x < n; x++ {
				v := crt.Centered(crt.Column(rows, x))
				if v.CmpAbs(B) > 0 {
					bad, worst = x, v
					break
				}
				if a := new(big.Int).Abs(v).Int64(); a > maxE {
					maxE = a
				}
			}
			c.Check(bad < 0, pre+"|expanded-key-is-not-an-encryption-under-the-key", func() string {
				return fmt.Sprintf("component [%d][%d]: b + a*s has coefficient %d of %d bits (bound %v): the expanded a is not the a used at generation", i, j, bad, worst.BitLen(), B)
			})
			c.Count("expanded_components_decrypted", 1)
		}
	}
	c.Max("max_expanded_key_noise", maxE)
	// second Expand on an expanded key is refused with an error
	c.Try(pre, func() {
		c.Check(k1.Expand(params, nil) != nil, pre+"|accepts-uncompressed-key", nil)
	})
	// seeded encryption: the same key gives the same c1, the ciphertext decrypts to small noise
	key := make([]byte, 32)
	rnd.Read(key)
	lvl := rnd.N(len(rc.Q))
	var cts [3]*rlwe.Ciphertext
	if c.Try("C17|Encryptor.WithPRNG", func() {
		for k := 0; k < 3; k++ {
			kk := append([]byte(nil), key...)
			if k == 2 {
				kk[0] ^= 1
			}
			prng, _ := sampling.NewKeyedPRNG(kk)
			enc := rlwe.NewEncryptor(params, sk).WithPRNG(prng)
			cts[k] = rlwe.NewCiphertext(params, 1, lvl)
			if err := enc.EncryptZero(cts[k]); err != nil {
				panic(err)
			}
		}
	}) {
		c.Check(samePoly(cts[0].Value[1], cts[1].Value[1]), "C17|Encryptor.WithPRNG|not-reproducible", nil)
		c.Check(!samePoly(cts[0].Value[1], cts[2].Value[1]), "C17|Encryptor.WithPRNG|distinct-keys-same-output", nil)
		rq := params.RingQ().AtLevel(lvl)
		ph := obs.Centered(rq, obs.Phase(params, &cts[0].Element, sk))
		okp := true
		for _, v := range ph {
			if v.CmpAbs(B) > 0 {
				okp = false
			}
		}
		c.Check(okp, "C17|Encryptor.WithPRNG|seeded-ciphertext-does-not-decrypt", nil)
		c.Distinct(fmt.Sprintf("seeded/%d/%d/%d", rc.LogN, len(rc.Q), lvl), true)
	}
}

func runCRP(c *eng.Ctx, rc rlweCase, params rlwe.Parameters, evkp rlwe.EvaluationKeyParameters) {
	rnd := c.Rand()
	key := make([]byte, 32)
	rnd.Read(key)
	other := append([]byte(nil), key...)
	other[5] ^= 4
	evkp.Compressed = false
	qm, pm := rc.Q, rc.P
	// sample returns the common reference polynomials drawn by one fresh protocol instance
	sample := func(proto string, k []byte) (out []ringqp.Poly) {
		crs, _ := sampling.NewKeyedPRNG(k)
		flat := func(m [][]ringqp.Poly) {
			for i := range m {
				out = append(out, m[i]...)
			}
		}
		switch proto {
		case "PublicKeyGen":
			out = append(out, multiparty.NewPublicKeyGenProtocol(params).SampleCRP(crs).Value)
		case "EvaluationKeyGen":
			flat(multiparty.NewEvaluationKeyGenProtocol(params).SampleCRP(crs, evkp).Value)
		case "GaloisKeyGen":
			flat(multiparty.NewGaloisKeyGenProtocol(params).SampleCRP(crs, evkp).Value)
		case "RelinearizationKeyGen":
			flat(multiparty.NewRelinearizationKeyGenProtocol(params).SampleCRP(crs, evkp).Value)
		case "KeySwitch":
			p, err := multiparty.NewKeySwitchProtocol(params, ring.DiscreteGaussian{Sigma: 3.2, Bound: 19.2})
			if err != nil {
				panic(err)
			}
			out = append(out, ringqp.Poly{Q: p.SampleCRP(rc.LevelQ, crs).Value})
			out = append(out, ringqp.Poly{Q: p.SampleCRP(0, crs).Value})
		}
		return
	}
	for _, proto := range []string{"PublicKeyGen", "EvaluationKeyGen", "GaloisKeyGen", "RelinearizationKeyGen", "KeySwitch"} {
		pre := "C17|multiparty." + proto + ".SampleCRP"
		var a, b, d []ringqp.Poly
		if !c.Try(pre, func() { a = sample(proto, key); b = sample(proto, key); d = sample(proto, other) }) {
			continue
		}
		same, diff, rng := len(a) == len(b) && len(a) > 0, true, true
		for i := range a {
			if !sameQP(a[i], b[i]) {
				same = false
			}
			if i < len(d) && sameQP(a[i], d[i]) {
				diff = false
			}
			if !inRangeQP(a[i], qm, pm) {
				rng = false
			}
		}
		c.Check(same, pre+"|not-reproducible", func() string {
			return fmt.Sprintf("two parties with the same CRS key obtain different polynomials (%d vs %d)", len(a), len(b))
		})
		c.Check(diff, pre+"|distinct-keys-same-output", nil)
		c.Check(rng, pre+"|out-of-range", nil)
		c.Count("crp_polynomials_compared", int64(len(a)))
		c.Distinct(fmt.Sprintf("crp/%s/%d/%d/%d/%d/%d/%d", proto, rc.LogN, len(rc.Q), len(rc.P), rc.LevelQ, rc.LevelP, rc.Base2), true)
	}
}

// runRace: four goroutines, each the single owner of its own sampler (own keyed generator) and of
// the views derived from it, all on one shared *ring.Ring. No race report is expected and every
// goroutine must obtain what a sequential run obtains.
func runRace(c *eng.Ctx, kind string) {
	r, err := ring.NewRing(256, gen.Primes(55, 512, 3, gen.PosBelow, nil))
	if err != nil {
		c.Inconclusive(err.Error())
		return
	}
	dc := map[string]distCfg{
		"uniform": {Kind: "uniform"}, "gauss": {Kind: "gauss", Sigma: 3.2, Bound: 19.2, Mont: true},
		"ternP": {Kind: "ternP", P: 2.0 / 3, Mont: true}, "ternH": {Kind: "ternH", H: 64},
	}[kind]
	work := func(g int) []ring.Poly {
		s, _, err := mkSampler([]byte{byte(g), 7}, r, dc, dc.Mont)
		if err != nil {
			return nil
		}
		var out []ring.Poly
		v1 := s.AtLevel(1)
		v0 := v1.AtLevel(0)
		for i := 0; i < 40; i++ {
			out = append(out, s.ReadNew(), v1.ReadNew(), v0.ReadNew())
			p := r.NewPoly()
			v1.ReadAndAdd(p)
			out = append(out, p)
		}
		return out
	}
	var seq [4][]ring.Poly
	for g := range seq {
		seq[g] = work(g)
	}
	var par [4][]ring.Poly
	var wg sync.WaitGroup
	for g := range par {
		wg.Add(1)
		go func(g int) {
			defer wg.Done()
			par[g] = work(g)
		}(g)
	}
	wg.Wait()
	ok := true
	for g := range seq {
		if len(seq[g]) != len(par[g]) {
			ok = false
			continue
		}
		for i := range seq[g] {
			if !samePoly(seq[g][i], par[g][i]) {
				ok = false
			}
		}
	}
	c.Check(ok, "C17|"+dc.name()+"|concurrent-owners-interfere", nil)
	c.Distinct("race/"+kind, true)
}
