package c17

import (
	"fmt"
	"math"
	"math/big"
	"math/bits"

	"github.com/tuneinsight/lattigo/v6/ring"

	"verif/harness/eng"
	"verif/harness/gen"
	"verif/harness/ref"
)

// chi-square thresholds at p < 1e-9
const (
	chi63  = 160.0 // 63 degrees of freedom (1e-9 quantile ~ 156)
	chi255 = 420.0 // 255 degrees of freedom (~ 415)
	chi4   = 60.0  // 4 degrees of freedom (~ 48)
	chi15  = 85.0  // 15 degrees of freedom (~ 76)
)

type statCase struct {
	Ring    ringCfg `json:"ring"`
	Dist    distCfg `json:"dist"`
	Samples int     `json:"samples"` // coefficients per row
}

func statCases(r *eng.Rand, thorough bool) (out []eng.Case) {
	samples := 1 << 18
	if thorough {
		samples = 1 << 21
	}
	add := func(i int, rc ringCfg, dc distCfg) {
		sc := statCase{Ring: rc, Dist: dc, Samples: samples}
		id := fmt.Sprintf("stat/%s/%s/m%v/logN%d/%d", dc.Kind, dc.Tag, dc.Mont, rc.LogN, i)
		out = append(out, eng.Case{ID: id, Sig: "C17|" + dc.name(), Desc: sc, Run: func(c *eng.Ctx) { runStat(c, sc) }})
	}
	reps := 3
	if thorough {
		reps = 10
	}
	for rep := 0; rep < reps; rep++ {
		// uniform: chains mixing the smallest admissible primes with large ones
		for i, bits := range [][]int{{0, 20, 61}, {31, 45, 60}, {0, 30, 55, 61}} {
			logN := eng.Pick(r, 8, 10)
			nth := uint64(2) << logN
			b := append([]int(nil), bits...)
			for k := range b {
				if b[k] == 0 {
					b[k] = ref.BitLen(nth) + 1 + r.N(2)
				}
			}
			q, _ := gen.Chain(r, nth, b, nil)
			if q == nil {
				continue
			}
			add(rep*10+i, ringCfg{LogN: logN, Moduli: q}, distCfg{Kind: "uniform", Tag: fmt.Sprintf("bits%v", b)})
		}
		if rep == 0 {
			// uniform: every modulus size once (the rejection sampler's word size and mask depend on the bit
			// length of the modulus: 8 / 16 / 32 / 33 / 48 ... bits are where such code changes path)
			for lo := 14; lo <= 61; lo += 6 {
				var b []int
				for x := lo; x < lo+6 && x <= 61; x++ {
					b = append(b, x)
				}
				q, _ := gen.Chain(r, uint64(2)<<10, b, nil)
				if q == nil {
					continue
				}
				add(900+lo, ringCfg{LogN: 10, Moduli: q}, distCfg{Kind: "uniform", Tag: fmt.Sprintf("allsizes%v", b)})
			}
		}
		for gi, g := range gaussCfgs {
			if g.tag == "s3.2-b19" || g.tag == "s3.2-b19.5" {
				continue
			}
			dc := distCfg{Kind: "gauss", Sigma: g.s, Bound: g.b, Tag: g.tag, Mont: gi%4 == 3}
			k := 2
			if dc.bigPath() || g.b > p2(60) {
				k = 3
			}
			rc, ok := mkRing(r, eng.Pick(r, 8, 10), k, gaussMinBits(g), false)
			if ok {
				add(rep*100+gi, rc, dc)
			}
		}
		for ti, t := range ternPs {
			rc, ok := mkRing(r, eng.Pick(r, 8, 10), 2, 0, false)
			if ok {
				add(rep*10+ti, rc, distCfg{Kind: "ternP", P: t.p, Tag: t.tag, Mont: ti%2 == 1})
			}
		}
		for hi, hh := range []struct{ logN, h int }{{6, 16}, {6, 63}, {8, 7}, {4, 8}} {
			rc, ok := mkRing(r, hh.logN, 2, 0, false)
			if ok {
				add(rep*10+hi, rc, distCfg{Kind: "ternH", H: hh.h, Tag: fmt.Sprintf("h%d", hh.h), Mont: hi%2 == 1})
			}
		}
	}
	return
}

// gaussModel returns the standard deviation and the probability of zero of round(|z|*sigma) with
// random sign, |z|*sigma conditioned on being <= bound (the documented construction).
func gaussModel(sigma, bound float64) (std, p0 float64) {
	s := sigma * math.Sqrt2
	Z := math.Erf(bound / s)
	kmax := math.Floor(bound + 0.5)
	p0 = math.Erf(math.Min(0.5, bound)/s) / Z
	if kmax <= 1<<17 {
		var m2 float64
		for k := 1.0; k <= kmax; k++ {
			hi := math.Min(k+0.5, bound)
			m2 += k * k * (math.Erf(hi/s) - math.Erf((k-0.5)/s))
		}
		return math.Sqrt(m2 / Z), p0
	}
	t := bound / sigma
	phi := math.Exp(-t*t/2) / math.Sqrt(2*math.Pi)
	v := sigma*sigma*(1-2*t*phi/Z) + 1.0/12
	return math.Sqrt(v), p0
}

// drawAll collects the plain integer rows of `samples` coefficients, alternating between the base
// sampler and level views (Read / ReadNew), and returns the polynomials at full level.
func drawAll(c *eng.Ctx, sc statCase, r *ring.Ring) (pols []ring.Poly, ok bool) {
	rnd := c.Rand()
	key := make([]byte, 32)
	rnd.Read(key)
	s, _, err := mkSampler(key, r, sc.Dist, sc.Dist.Mont)
	if err != nil {
		c.Violate("C17|"+sc.Dist.name()+"|constructor-error", err.Error(), sc)
		return nil, false
	}
	n := r.N()
	reads := (sc.Samples + n - 1) / n
	ok = c.Try("C17|"+sc.Dist.name(), func() {
		view := s.AtLevel(r.MaxLevel())
		low := s.AtLevel(0)
		for i := 0; i < reads; i++ {
			switch i % 4 {
			case 0:
				pols = append(pols, s.ReadNew())
			case 1:
				p := r.NewPoly()
				view.Read(p)
				pols = append(pols, p)
			case 2:
				low.ReadNew() // a draw on another view in between
				pols = append(pols, view.ReadNew())
			default:
				p := r.NewPoly()
				s.Read(p)
				pols = append(pols, p)
			}
		}
	})
	return
}

func imformRef(x, q uint64) uint64 { return ref.MulMod(x%q, ref.InvMod(ref.TwoTo64Mod(q), q), q) }

func runStat(c *eng.Ctx, sc statCase) {
	dc := sc.Dist
	n := 1 << sc.Ring.LogN
	r, err := newRing(sc.Ring)
	if err != nil {
		c.Inconclusive(err.Error())
		return
	}
	pols, ok := drawAll(c, sc, r)
	if !ok {
		return
	}
	// back to plain representation with the harness' own arithmetic
	if dc.Mont {
		for _, p := range pols {
			for k := range p.Coeffs {
				q := sc.Ring.Moduli[k]
				inv := ref.InvMod(ref.TwoTo64Mod(q), q)
				for j := range p.Coeffs[k] {
					p.Coeffs[k][j] = ref.MulMod(p.Coeffs[k][j]%q, inv, q)
				}
			}
		}
	}
	total := len(pols) * n
	c.Sample(map[string]any{"case": sc, "coefficients": total})
	c.Distinct(fmt.Sprintf("stat/%s/%s/%v/%d/%v", dc.Kind, dc.Tag, dc.Mont, sc.Ring.LogN, sc.Ring.Moduli), total >= 1<<16)
	c.Count("stat_coefficients", int64(total))
	where := func() string {
		return fmt.Sprintf("%s %s mont=%v N=%d moduli=%v, %d coefficients", dc.name(), dc.Tag, dc.Mont, n, sc.Ring.Moduli, total)
	}
	switch dc.Kind {
	case "uniform":
		for k, q := range sc.Ring.Moduli {
			const nb = uint64(64)
			if q < 1024 {
				nbSmall(c, pols, k, q, total, where)
				continue
			}
			cnt := make([]float64, nb)
			bad := false
			for _, p := range pols {
				for _, x := range p.Coeffs[k] {
					if x >= q {
						bad = true
						continue
					}
					cnt[bucket(x, nb, q)]++
				}
			}
			c.Check(!bad, "C17|UniformSampler|out-of-range", where)
			var chi float64
			for b := uint64(0); b < nb; b++ {
				// number of integers x in [0,q) with floor(x*nb/q) == b
				size := ceilMulDiv(b+1, q, nb) - ceilMulDiv(b, q, nb)
				exp := float64(total) * float64(size) / float64(q)
				chi += (cnt[b] - exp) * (cnt[b] - exp) / exp
			}
			c.Max("max_uniform_chi2_x100", int64(chi*100))
			kk := k
			c.Check(chi <= chi63, "C17|UniformSampler|not-uniform", func() string {
				return fmt.Sprintf("%s: row %d q=%d chi2(64 buckets)=%.1f", where(), kk, q, chi)
			})
		}
	case "gauss":
		statGauss(c, sc, pols, where)
	case "ternP", "ternH":
		statTernary(c, sc, pols, where)
	}
}

// bucket = floor(x*nb/q), exact
func bucket(x, nb, q uint64) uint64 {
	hi, lo := bits.Mul64(x, nb)
	d, _ := bits.Div64(hi, lo, q)
	return d
}

// ceilDiv = ceil(a*q/nb), exact (a <= nb)
func ceilMulDiv(a, q, nb uint64) uint64 {
	hi, lo := bits.Mul64(a, q)
	lo, carry := bits.Add64(lo, nb-1, 0)
	hi += carry
	d, _ := bits.Div64(hi, lo, nb)
	return d
}

// nbSmall: small modulus, 64 buckets of residues taken modulo 64 would be biased; use value classes
// x*64/q computed directly (q < 1024 so sizes differ by at most one and are accounted for exactly).
func nbSmall(c *eng.Ctx, pols []ring.Poly, k int, q uint64, total int, where func() string) {
	const nb = uint64(64)
	cnt := make([]float64, nb)
	size := make([]float64, nb)
	for x := uint64(0); x < q; x++ {
		size[x*nb/q]++
	}
	bad := false
	for _, p := range pols {
		for _, x := range p.Coeffs[k] {
			if x >= q {
				bad = true
				continue
			}
			cnt[x*nb/q]++
		}
	}
	c.Check(!bad, "C17|UniformSampler|out-of-range", where)
	var chi float64
	for b := range cnt {
		exp := float64(total) * size[b] / float64(q)
		chi += (cnt[b] - exp) * (cnt[b] - exp) / exp
	}
	c.Max("max_uniform_chi2_x100", int64(chi*100))
	c.Check(chi <= chi63, "C17|UniformSampler|not-uniform", func() string {
		return fmt.Sprintf("%s: row %d q=%d chi2(64 buckets)=%.1f", where(), k, q, chi)
	})
}

func statGauss(c *eng.Ctx, sc statCase, pols []ring.Poly, where func() string) {
	dc := sc.Dist
	mods := sc.Ring.Moduli
	n := 1 << sc.Ring.LogN
	Bp := dc.boundInt()
	crt := ref.NewCRT(mods)
	twoB1 := new(big.Int).Lsh(Bp, 1)
	twoB1.Add(twoB1, big.NewInt(1))
	if crt.Q.Cmp(twoB1) <= 0 {
		c.Inconclusive("modulus too small to recover the Gaussian integers")
		return
	}
	// values as float64 (exact up to 2^53, relative error 2^-53 above)
	fast := Bp.BitLen() <= 61 && new(big.Int).SetUint64(mods[0]).Cmp(twoB1) > 0
	var vals []float64
	above := 0
	var worst *big.Int
	for _, p := range pols {
		for j := 0; j < n; j++ {
			if fast {
				x := p.Coeffs[0][j] % mods[0]
				var v int64
				if x > mods[0]/2 {
					v = -int64(mods[0] - x)
				} else {
					v = int64(x)
				}
				a := v
				if a < 0 {
					a = -a
				}
				if uint64(a) > Bp.Uint64() {
					above++
				}
				vals = append(vals, float64(v))
			} else {
				v := crt.Centered(crt.Column(p.Coeffs, j))
				if new(big.Int).Abs(v).Cmp(Bp) > 0 {
					above++
					if worst == nil {
						worst = v
					}
				}
				f, _ := new(big.Float).SetInt(v).Float64()
				vals = append(vals, f)
			}
		}
	}
	if above > 0 {
		sig := "C17|GaussianSampler|above-bound"
		if dc.bigPath() && worst != nil {
			if worst.Sign() < 0 {
				sig += "|bignum-negative"
			} else {
				sig += "|bignum-positive"
			}
		}
		c.Violate(sig, fmt.Sprintf("%s: %d coefficients exceed floor(B+1/2)=%v (first: %v)", where(), above, Bp, worst), sc)
	}
	c.Eval(1)
	t := dc.Bound / dc.Sigma
	if dc.bigPath() && t < 5 {
		// the shape under a tight bound on the big-number path is not judged (only the bound is)
		c.Count("gauss_shape_not_judged", 1)
		return
	}
	var std, p0 float64
	if dc.bigPath() {
		std, p0 = dc.Sigma, 0
	} else {
		std, p0 = gaussModel(dc.Sigma, dc.Bound)
	}
	N := float64(len(vals))
	var sum, sum2, pos, neg, zero float64
	for _, v := range vals {
		sum += v
		sum2 += v * v
		switch {
		case v > 0:
			pos++
		case v < 0:
			neg++
		default:
			zero++
		}
	}
	mean := sum / N
	emp := math.Sqrt(sum2/N - mean*mean)
	c.Max("max_gauss_std_rel_err_x1e4", int64(1e4*math.Abs(emp/std-1)))
	c.Check(math.Abs(emp/std-1) <= 0.03, "C17|GaussianSampler|wrong-standard-deviation", func() string {
		return fmt.Sprintf("%s: empirical std %.6g, model %.6g (sigma=%g bound=%g)", where(), emp, std, dc.Sigma, dc.Bound)
	})
	c.Check(math.Abs(mean) <= 6*std/math.Sqrt(N), "C17|GaussianSampler|biased-mean", func() string {
		return fmt.Sprintf("%s: mean %.6g, 6 standard errors = %.6g", where(), mean, 6*std/math.Sqrt(N))
	})
	c.Check(math.Abs(pos-neg) <= 6*math.Sqrt(pos+neg)+1, "C17|GaussianSampler|unbalanced-signs", func() string {
		return fmt.Sprintf("%s: %v positive, %v negative", where(), pos, neg)
	})
	if p0 > 1e-3 {
		se := math.Sqrt(p0 * (1 - p0) / N)
		c.Check(math.Abs(zero/N-p0) <= 6*se+0.002, "C17|GaussianSampler|wrong-zero-frequency", func() string {
			return fmt.Sprintf("%s: P(0) empirical %.5f model %.5f", where(), zero/N, p0)
		})
	}
	// lag-1 correlation inside polynomials
	var sxy float64
	var m float64
	for i := 0; i+1 < len(vals); i++ {
		if (i+1)%n == 0 {
			continue
		}
		sxy += (vals[i] - mean) * (vals[i+1] - mean)
		m++
	}
	if emp == 0 || m == 0 {
		return
	}
	rho := sxy / m / (emp * emp)
	c.Check(math.Abs(rho) <= 6/math.Sqrt(m), "C17|GaussianSampler|adjacent-coefficients-correlated", func() string {
		return fmt.Sprintf("%s: lag-1 correlation %.5f over %v pairs", where(), rho, m)
	})
}

func statTernary(c *eng.Ctx, sc statCase, pols []ring.Poly, where func() string) {
	dc := sc.Dist
	mods := sc.Ring.Moduli
	n := 1 << sc.Ring.LogN
	q0 := mods[0]
	var cnt [3]float64
	var pair [3][3]float64
	posHits := make([]float64, n)
	cls := func(x uint64) int {
		switch x {
		case 0:
			return 0
		case 1:
			return 1
		case q0 - 1:
			return 2
		}
		return -1
	}
	for _, p := range pols {
		prev := -1
		w := 0
		for j := 0; j < n; j++ {
			k := cls(p.Coeffs[0][j])
			if k < 0 {
				c.Violate("C17|TernarySampler|outside-support", fmt.Sprintf("%s: residue %d", where(), p.Coeffs[0][j]), sc)
				return
			}
			cnt[k]++
			if k != 0 {
				posHits[j]++
				w++
			}
			if prev >= 0 {
				pair[prev][k]++
			}
			prev = k
		}
		if dc.Kind == "ternH" && w != min(dc.H, n) {
			c.Violate("C17|TernarySampler|wrong-hamming-weight", fmt.Sprintf("%s: weight %d", where(), w), sc)
			return
		}
	}
	c.Eval(1)
	N := cnt[0] + cnt[1] + cnt[2]
	nz := cnt[1] + cnt[2]
	c.Check(math.Abs(cnt[1]-cnt[2]) <= 6*math.Sqrt(nz)+1, "C17|TernarySampler|unbalanced-signs", func() string {
		return fmt.Sprintf("%s: %v times +1, %v times -1", where(), cnt[1], cnt[2])
	})
	if dc.Kind == "ternP" {
		se := math.Sqrt(N * dc.P * (1 - dc.P))
		c.Max("max_ternary_density_dev_in_se_x100", int64(100*math.Abs(nz-N*dc.P)/se))
		c.Check(math.Abs(nz-N*dc.P) <= 6*se+1, "C17|TernarySampler|wrong-density", func() string {
			return fmt.Sprintf("%s: %v non-zero of %v, expected %.1f +- %.1f", where(), nz, N, N*dc.P, se)
		})
		// independence of adjacent coefficients: 3x3 contingency table
		var tot float64
		var row, col [3]float64
		for a := 0; a < 3; a++ {
			for b := 0; b < 3; b++ {
				row[a] += pair[a][b]
				col[b] += pair[a][b]
				tot += pair[a][b]
			}
		}
		chi, minExp := 0.0, math.Inf(1)
		for a := 0; a < 3; a++ {
			for b := 0; b < 3; b++ {
				e := row[a] * col[b] / tot
				minExp = math.Min(minExp, e)
				chi += (pair[a][b] - e) * (pair[a][b] - e) / e
			}
		}
		if minExp >= 25 {
			path := "knuth-yao-path"
			if dc.P == 0.5 {
				path = "p=0.5-path"
			}
			c.Count("ternary_independence_tests", 1)
			c.Check(chi <= chi4, "C17|TernarySampler|adjacent-coefficients-dependent|"+path, func() string {
				return fmt.Sprintf("%s: contingency table of (coefficient k, coefficient k+1) over classes (0,+1,-1): %v, chi2(4)=%.1f; P(next=0|prev=+1)=%.3f P(next=0|prev=-1)=%.3f",
					where(), pair, chi, pair[1][0]/row[1], pair[2][0]/row[2])
			})
		} else {
			c.Count("ternary_independence_tests_skipped_small_counts", 1)
		}
	} else if dc.H < n {
		// positions of the non-zero coefficients are uniform: 16 buckets of indices
		var b [16]float64
		for j, h := range posHits {
			b[j*16/n] += h
		}
		exp := nz / 16
		chi := 0.0
		for _, x := range b {
			chi += (x - exp) * (x - exp) / exp
		}
		// hits inside one polynomial are negatively correlated (fixed weight), which only lowers chi
		c.Check(chi <= chi15, "C17|TernarySampler|positions-not-uniform", func() string {
			return fmt.Sprintf("%s: hits per 16th of the index range %v, chi2(15)=%.1f", where(), b, chi)
		})
	}
}
