// Package c17: samplers respect their distribution contract and are reproducible from a seed.
//
// Oracles (all independent of the sampler code paths):
//   - support: exact per-coefficient checks through uint64 / math/big CRT models (range of uniform
//     residues, one integer per Gaussian coefficient with |v| <= floor(B+1/2), ternary residues all
//     0, all 1 or all q_i-1, exact Hamming weight);
//   - composition: three samplers fed by keyed generators with the same key run one random script
//     of Read/ReadNew/ReadAndAdd/AtLevel calls; the twin must be bit-identical, ReadAndAdd must be
//     prior + the sample the plain replay obtained with Read, Montgomery output must be the exact
//     Montgomery form (x*2^64 mod q_i) of the plain replay;
//   - shape: fixed-seed statistics over >= 2^16 draws with acceptance regions >= 6 standard errors;
//   - generators, compressed evaluation keys, seeded encryption and common reference polynomials:
//     same key => identical bytes, Reset replays, other key => unrelated.
package c17

import (
	"fmt"
	"math"
	"math/big"

	"github.com/tuneinsight/lattigo/v6/ring"

	"verif/harness/eng"
	"verif/harness/gen"
	"verif/harness/ref"
)

type ringCfg struct {
	LogN   int      `json:"logN"`
	Moduli []uint64 `json:"moduli"`
	// CI: conjugate-invariant ring (Z[X+X^-1]/(X^2N+1), moduli = 1 mod 4N); extension families only.
	CI bool `json:"ci,omitempty"`
}

// newRing instantiates the ring of a configuration.
func newRing(rc ringCfg) (*ring.Ring, error) {
	if rc.CI {
		return ring.NewRingConjugateInvariant(1<<rc.LogN, rc.Moduli)
	}
	return ring.NewRing(1<<rc.LogN, rc.Moduli)
}

type distCfg struct {
	Kind  string  `json:"kind"` // uniform | gauss | ternP | ternH
	Sigma float64 `json:"sigma,omitempty"`
	Bound float64 `json:"bound,omitempty"`
	P     float64 `json:"p,omitempty"`
	H     int     `json:"h,omitempty"`
	Mont  bool    `json:"mont,omitempty"`
	// ViaIface: built through ring.NewSampler instead of the concrete constructor.
	ViaIface bool `json:"viaNewSampler,omitempty"`
	// OverView k > 0: the sampler is constructed over the level view r.AtLevel(k-1) of the ring and then raised to
	// the maximum level with AtLevel (a sampler's level is a property of the view, not of its constructor).
	OverView int    `json:"builtOverLevelPlus1,omitempty"`
	Tag      string `json:"tag"`
}

func (d distCfg) name() string {
	switch d.Kind {
	case "uniform":
		return "UniformSampler"
	case "gauss":
		return "GaussianSampler"
	}
	return "TernarySampler"
}

// bigPath: the documented switch to the arbitrary-precision path (sigma above float64 integer
// precision and bound above uint64).
func (d distCfg) bigPath() bool {
	return d.Kind == "gauss" && d.Sigma > 9007199254740992.0 && d.Bound > 18446744073709551615.0
}

// boundInt = floor(B + 1/2) exactly (the bound rounded to the nearest integer).
func (d distCfg) boundInt() *big.Int {
	f := new(big.Float).SetPrec(256).SetFloat64(d.Bound)
	f.Add(f, big.NewFloat(0.5))
	z, _ := f.Int(nil)
	return z
}

type gaussP struct {
	s, b float64
	tag  string
}

var p2 = math.Exp2

var gaussCfgs = []gaussP{
	{0.5, 1, "s0.5-b1"}, {0.5, 3, "s0.5-b3"}, {3.2, 1, "s3.2-b1"}, {3.2, 19, "s3.2-b19"},
	{3.2, 19.2, "s3.2-b19.2"}, {3.2, 19.5, "s3.2-b19.5"}, {p2(20), 6 * p2(20), "s2^20-b6s"},
	{p2(20), p2(20), "s2^20-b1s"}, {p2(40), 6 * p2(40), "s2^40-b6s"}, {p2(54), 6 * p2(54), "s2^54-b6s-u64"},
	{3.2, p2(65), "s3.2-b2^65"},
	{p2(54), p2(66), "s2^54-b2^66-big"}, {p2(64), p2(65), "s2^64-b2s-big"}, {p2(70), 6 * p2(70), "s2^70-b6s-big"},
}

var ternPs = []struct {
	p   float64
	tag string
}{{0.5, "p0.5"}, {2.0 / 3, "p2/3"}, {1.0 / 3, "p1/3"}, {0.01, "p0.01"}, {0.99, "p0.99"}}

var bitPool = []int{20, 30, 31, 45, 55, 60, 61}

// mkRing draws k primes = 1 mod 2N with bit sizes from pool (all >= minBits).
func mkRing(r *eng.Rand, logN, k, minBits int, withMin bool) (ringCfg, bool) {
	nth := uint64(2) << logN
	var pool []int
	for _, b := range bitPool {
		if b >= minBits {
			pool = append(pool, b)
		}
	}
	if len(pool) == 0 {
		pool = []int{61}
	}
	var bits []int
	for i := 0; i < k; i++ {
		bits = append(bits, pool[r.N(len(pool))])
	}
	if withMin && minBits <= ref.BitLen(nth)+1 {
		bits[r.N(k)] = ref.BitLen(nth) + 1 + r.N(2)
	}
	q, _ := gen.Chain(r, nth, bits, nil)
	if q == nil {
		return ringCfg{}, false
	}
	return ringCfg{LogN: logN, Moduli: q}, true
}

func gaussMinBits(g gaussP) int {
	d := distCfg{Kind: "gauss", Sigma: g.s, Bound: g.b}
	if d.bigPath() {
		return 55
	}
	b := d.boundInt().BitLen() + 2
	if g.s < 100 { // the bound is far above any value the sampler can produce
		b = 8
		if g.b > p2(60) {
			b = 45
		}
	}
	if b > 61 {
		b = 61
	}
	return b
}

func cases(tier string, seed int64) []eng.Case {
	r := eng.NewRand("c17-cases", seed)
	thorough := tier == "thorough"
	var out []eng.Case
	mult := 8
	if thorough {
		mult = 60
	}
	logNs := []int{4, 5, 6, 8, 10}
	if thorough {
		logNs = []int{4, 5, 6, 7, 8, 10, 11}
	}
	steps := func() int {
		if thorough {
			return 20 + r.N(31)
		}
		return 10 + r.N(26)
	}
	addScript := func(i int, rc ringCfg, dc distCfg) {
		n := steps()
		id := fmt.Sprintf("script/%s/%s/m%v/logN%d/k%d/%d", dc.Kind, dc.Tag, dc.Mont, rc.LogN, len(rc.Moduli), i)
		if i%3 == 2 && len(rc.Moduli) >= 2 {
			dc.OverView = 1 + (i/3)%(len(rc.Moduli)-1)
			id += fmt.Sprintf("/over-view-l%d", dc.OverView-1)
		}
		sc := scriptCase{Ring: rc, Dist: dc, Steps: n}
		out = append(out, eng.Case{ID: id, Sig: "C17|" + dc.name(), Desc: sc, Run: func(c *eng.Ctx) { runScript(c, sc) }})
	}
	// 1. uniform scripts (ring.UniformSampler and ringqp.UniformSampler)
	for i := 0; i < 16*mult; i++ {
		logN := logNs[r.N(len(logNs))]
		rc, ok := mkRing(r, logN, 1+r.N(5), 0, i%3 == 0)
		if !ok {
			continue
		}
		addScript(i, rc, distCfg{Kind: "uniform", Tag: "u", ViaIface: i%4 == 1})
	}
	for i := 0; i < 8*mult; i++ {
		logN := logNs[r.N(len(logNs))]
		rc, ok := mkRing(r, logN, 2+r.N(5), 0, i%3 == 0)
		if !ok {
			continue
		}
		np := r.N(len(rc.Moduli)) // number of P moduli (0 = no P)
		if np == len(rc.Moduli) {
			np--
		}
		qc := qpCase{Ring: rc, NP: np, Steps: steps()}
		id := fmt.Sprintf("script/qpuniform/logN%d/k%d/p%d/%d", logN, len(rc.Moduli), np, i)
		out = append(out, eng.Case{ID: id, Sig: "C17|ringqp.UniformSampler", Desc: qc, Run: func(c *eng.Ctx) { runQPScript(c, qc) }})
	}
	// 2. Gaussian scripts: every (sigma, bound) x Montgomery x ring draws
	for gi, g := range gaussCfgs {
		for _, mont := range []bool{false, true} {
			for rep := 0; rep < mult; rep++ {
				logN := logNs[r.N(len(logNs))]
				k := 1 + r.N(4)
				dc := distCfg{Kind: "gauss", Sigma: g.s, Bound: g.b, Mont: mont, Tag: g.tag, ViaIface: (gi+rep)%3 == 0}
				if g.b > p2(60) && k < 3 {
					k = 3
				}
				if dc.bigPath() {
					k = 3 + r.N(2)
					if logN > 8 {
						logN = 8
					}
				}
				rc, ok := mkRing(r, logN, k, gaussMinBits(g), false)
				if !ok {
					continue
				}
				addScript(gi*100+rep, rc, dc)
			}
		}
	}
	// 2b. Gaussian with a standard deviation of the size of (or above) some modulus
	for i := 0; i < 2*mult; i++ {
		logN := logNs[r.N(3)]
		nth := uint64(2) << logN
		q, _ := gen.Chain(r, nth, []int{eng.Pick(r, 55, 60), 20, eng.Pick(r, 30, 45)}, nil)
		if q == nil {
			continue
		}
		addScript(i, ringCfg{LogN: logN, Moduli: q}, distCfg{Kind: "gauss", Sigma: p2(20), Bound: 6 * p2(20), Mont: i%2 == 1, Tag: "s2^20-b6s-smallq"})
	}
	for i := 0; i < mult; i++ {
		rc, ok := mkRing(r, 5, 3, 60, false)
		if ok {
			addScript(i, rc, distCfg{Kind: "gauss", Sigma: p2(60), Bound: p2(63), Tag: "s2^60-b2^63-u64"})
		}
	}
	// 3. ternary with density
	for ti, t := range ternPs {
		for _, mont := range []bool{false, true} {
			for rep := 0; rep < 2*mult; rep++ {
				logN := logNs[r.N(len(logNs))]
				rc, ok := mkRing(r, logN, 1+r.N(4), 0, rep%2 == 1)
				if !ok {
					continue
				}
				addScript(ti*100+rep, rc, distCfg{Kind: "ternP", P: t.p, Mont: mont, Tag: t.tag, ViaIface: rep%2 == 0})
			}
		}
	}
	// 4. ternary with fixed weight: every H of the list for several N
	hLogNs := []int{4, 5, 6, 8}
	if thorough {
		hLogNs = []int{4, 5, 6, 7, 8, 10}
	}
	for _, logN := range hLogNs {
		n := 1 << logN
		for hi, h := range []int{1, 2, 7, 8, 9, n / 2, n - 1, n, n + 5} {
			for rep := 0; rep < 1+(mult-1)/3; rep++ {
				rc, ok := mkRing(r, logN, 1+r.N(4), 0, (hi+rep)%3 == 0)
				if !ok {
					continue
				}
				addScript(hi*100+rep, rc, distCfg{Kind: "ternH", H: h, Mont: r.Bool(), Tag: fmt.Sprintf("h%d", h), ViaIface: hi%2 == 0})
			}
		}
	}
	// 5. statistics
	out = append(out, statCases(r, thorough)...)
	// 6. generators, key expansion, seeded encryption, common reference polynomials
	out = append(out, miscCases(r, thorough)...)
	// 7. extension families (coverage audit): their own generator stream, so the ids above are stable
	out = append(out, extCases(thorough, seed)...)
	return out
}

func init() {
	eng.Register(&eng.Monitor{
		ID: "C17", Level: "exploration",
		Rule:  "cases = script (sampler kind x distribution parameters x Montgomery flag x ring (logN 4..11, 1..6 primes of 6..61 bits) x a random script of <= 50 Read/ReadNew/ReadAndAdd/AtLevel calls over level views sharing one source, executed by three samplers keyed identically), stat (>= 2^16 coefficients per configuration), prng / expand / seeded / crp (reproducibility through generators, compressed evaluation keys, seeded encryption and common reference polynomials). distinct key = (sampler kind, parameter tag, Montgomery, logN, number of primes, operation, view depth 0/1/>=2, level class) for script steps and (kind, parameter tag, configuration) elsewhere; non-trivial = the step runs on a level view, or is ReadAndAdd, or produces Montgomery output, or the parameter sits on a boundary (H in {1,N-1,N,N+5}, big-number Gaussian path, bound 1, p in {0.01,0.99}); a statistics case is non-trivial when it judged >= 2^16 coefficients; reproducibility cases are non-trivial when both the equal-key and the distinct-key comparison were made. Extension families (own generator stream): xscript/xstat = the same script and shape oracles on ring degree 8, 10..24 moduli, the conjugate-invariant ring, degrees 2^12..2^15, dyadic and extreme densities, standard deviations on both sides of the big-number switch, every Hamming weight 1..N (N <= 32, thorough <= 128) and receivers pre-filled with 0 / q-1 / edge values; xmixed = a uniform, a Gaussian and a ternary sampler on ONE generator with interleaved calls over their level views (distinct key as for script steps, always non-trivial); xrand = ring.RandUniform, bignum.RandInt and the sampling.Rand* helpers (distinct = entry point and bound; range, reproducibility, chi-square, top of the range reached); xprng = chunking invariance, nil / oversized keys, Reset mid-stream, NewPRNG freshness; xexpand = compressed keys at LevelP=-1 under parameters with P, Expand after CopyNew / serialisation / refused buffers, one seed per key, rlwe.NewTestEncryptorWithPRNG twins, CRP sampling of the CKKS/BGV refresh protocols.",
		Cases: cases,
		Assumptions: []string{
			"math/big, math.Erf and the harness' 128-bit modular arithmetic are correct",
			"statistical acceptance regions are >= 6 standard errors wide (chi-square thresholds at p < 1e-9) and evaluated at fixed seeds; smaller distortions are not observable",
			"for a Gaussian coefficient the integer is recovered by CRT over the moduli of the level; levels whose modulus does not exceed 2*floor(B+1/2)+1 cannot be judged and are counted in gauss_level_vacuous",
			"a Gaussian sampler in plain mode may represent zero by q_i (counted in gauss_zero_as_q): no range is documented for its output",
			"the sampling.Rand* helpers read crypto/rand (replaced by the engine's keyed stream): only their range and shape are judged",
			"a sampler object is not required to replay after KeyedPRNG.Reset, nor to produce what a fresh sampler placed at the same stream position produces (byte look-ahead is legitimate); only identically keyed twins doing the same calls are compared",
		},
	})
}
