package c17

import (
	"fmt"
	"hash/fnv"
	"math"
	"math/big"

	"github.com/tuneinsight/lattigo/v6/ring"
	"github.com/tuneinsight/lattigo/v6/ring/ringqp"
	"github.com/tuneinsight/lattigo/v6/utils/sampling"

	"verif/harness/eng"
	"verif/harness/ref"
)

type scriptCase struct {
	Ring  ringCfg `json:"ring"`
	Dist  distCfg `json:"dist"`
	Steps int     `json:"steps"`
	// Fill: previous content of the receivers: "" uniform residues, "max" all q_i-1, "zero", "edge" {0,1,q_i-2,q_i-1}.
	Fill string `json:"fill,omitempty"`
}

type step struct {
	Op    string `json:"op"` // at | read | new | raa
	View  int    `json:"view"`
	Level int    `json:"level"`          // at: target level; others: level of the view
	Full  bool   `json:"full,omitempty"` // read/raa into a polynomial that has all rows of the base ring
}

type outRec struct {
	pol   ring.Poly // result (deep copy)
	prior ring.Poly // content before the call (read / raa)
}

func mkSampler(key []byte, r *ring.Ring, dc distCfg, mont bool) (ring.Sampler, *sampling.KeyedPRNG, error) {
	prng, err := sampling.NewKeyedPRNG(key)
	if err != nil {
		return nil, nil, err
	}
	var X ring.DistributionParameters
	switch dc.Kind {
	case "uniform":
		X = ring.Uniform{}
	case "gauss":
		X = ring.DiscreteGaussian{Sigma: dc.Sigma, Bound: dc.Bound}
	case "ternP":
		X = ring.Ternary{P: dc.P}
	case "ternH":
		X = ring.Ternary{H: dc.H}
	}
	full := r
	raise := func(s ring.Sampler, err error) (ring.Sampler, *sampling.KeyedPRNG, error) {
		if err == nil && dc.OverView > 0 {
			s = s.AtLevel(full.MaxLevel())
		}
		return s, prng, err
	}
	if dc.OverView > 0 {
		r = r.AtLevel(dc.OverView - 1)
	}
	if dc.ViaIface {
		return raise(ring.NewSampler(prng, r, X, mont))
	}
	switch x := X.(type) {
	case ring.Uniform:
		return raise(ring.NewUniformSampler(prng, r), nil)
	case ring.DiscreteGaussian:
		return raise(ring.NewGaussianSampler(prng, r, x, mont), nil)
	case ring.Ternary:
		return raise(ring.NewTernarySampler(prng, r, x, mont))
	}
	return nil, nil, fmt.Errorf("unknown kind")
}

func genScript(rnd *eng.Rand, maxLevel, n int) (script []step, depth []int) {
	levels := []int{maxLevel}
	depth = []int{0}
	// the first steps always create a view so that every script interleaves views
	for i := 0; i < n; i++ {
		v := rnd.N(len(levels))
		k := rnd.N(10)
		switch {
		case i == 1 || k < 2 && len(levels) < 8:
			l := rnd.N(maxLevel + 1)
			if rnd.N(4) == 0 {
				l = maxLevel
			}
			script = append(script, step{Op: "at", View: v, Level: l})
			levels = append(levels, l)
			depth = append(depth, depth[v]+1)
		case k < 5:
			script = append(script, step{Op: "read", View: v, Level: levels[v], Full: rnd.Bool()})
		case k < 7:
			script = append(script, step{Op: "new", View: v, Level: levels[v]})
		default:
			script = append(script, step{Op: "raa", View: v, Level: levels[v], Full: rnd.Bool()})
		}
	}
	return
}

func copyPoly(p ring.Poly) ring.Poly {
	o := ring.Poly{Coeffs: make([][]uint64, len(p.Coeffs))}
	for i := range p.Coeffs {
		o.Coeffs[i] = append([]uint64(nil), p.Coeffs[i]...)
	}
	return o
}

func samePoly(a, b ring.Poly) bool {
	if len(a.Coeffs) != len(b.Coeffs) {
		return false
	}
	for i := range a.Coeffs {
		if len(a.Coeffs[i]) != len(b.Coeffs[i]) {
			return false
		}
		for j := range a.Coeffs[i] {
			if a.Coeffs[i][j] != b.Coeffs[i][j] {
				return false
			}
		}
	}
	return true
}

// execScript runs the script on s. raaAsRead: ReadAndAdd steps are replaced by Read (the plain
// replay that yields the fresh sample). Prior contents are a function of (fillKey, step index).
func execScript(s ring.Sampler, r *ring.Ring, script []step, fillKey, fill string, raaAsRead bool) []outRec {
	views := []ring.Sampler{s}
	recs := make([]outRec, len(script))
	n := r.N()
	for i, st := range script {
		switch st.Op {
		case "at":
			views = append(views, views[st.View].AtLevel(st.Level))
		case "new":
			recs[i].pol = copyPoly(views[st.View].ReadNew())
		case "read", "raa":
			rows := st.Level + 1
			if st.Full {
				rows = r.MaxLevel() + 1
			}
			fr := eng.NewRand(fillKey, i)
			p := ring.Poly{Coeffs: make([][]uint64, rows)}
			for k := range p.Coeffs {
				q := r.SubRings[k].Modulus
				p.Coeffs[k] = make([]uint64, n)
				for j := range p.Coeffs[k] {
					p.Coeffs[k][j] = fillValue(fr, fill, q)
				}
			}
			recs[i].prior = copyPoly(p)
			if st.Op == "raa" && !raaAsRead {
				views[st.View].ReadAndAdd(p)
			} else {
				views[st.View].Read(p)
			}
			recs[i].pol = p
		}
	}
	return recs
}

// fillValue: one reduced residue of the previous content of a receiver.
func fillValue(fr *eng.Rand, fill string, q uint64) uint64 {
	switch fill {
	case "max":
		return q - 1
	case "zero":
		return 0
	case "edge":
		return []uint64{0, 1, q - 2, q - 1}[fr.U64()&3]
	}
	return fr.U64() % q
}

func mformRef(x, q uint64) uint64 { return ref.MulMod(x%q, ref.TwoTo64Mod(q), q) }

func lvlClass(l, max int) string {
	switch {
	case l == max:
		return "max"
	case l == 0:
		return "zero"
	}
	return "low"
}

func boundaryParam(dc distCfg, n int) bool {
	switch dc.Kind {
	case "ternH":
		return dc.H == 1 || dc.H >= n-1
	case "ternP":
		return dc.P == 0.01 || dc.P == 0.99
	case "gauss":
		return dc.bigPath() || dc.Bound == 1
	}
	return false
}

// runLimit: smallest run length L of one repeated value whose probability, N*pm^L with pm the
// largest single-value probability of the declared distribution, is below 1e-12 (0 = not judged).
func runLimit(dc distCfg, n int) int {
	var pm float64
	switch dc.Kind {
	case "gauss":
		if dc.bigPath() || dc.Sigma > 1e6 {
			pm = 1e-3
		} else {
			_, pm = gaussModel(dc.Sigma, dc.Bound)
		}
	case "ternP":
		pm = math.Max(1-dc.P, dc.P/2)
	default:
		return 0
	}
	if pm >= 1 {
		return 0
	}
	L := int(math.Ceil(math.Log(1e-12/float64(n))/math.Log(pm))) + 1
	if L > n {
		return 0
	}
	return L
}

// reuse detector for uniform outputs: no window of w consecutive residues (w*bits >= 100) may occur twice.
type reuseDet struct {
	seen map[uint64]bool
}

func (d *reuseDet) add(row []uint64, q uint64) (dup bool) {
	w := (100 + ref.BitLen(q) - 1) / (ref.BitLen(q) - 1)
	if w > len(row) {
		return false
	}
	for s := 0; s+w <= len(row); s++ {
		h := fnv.New64a()
		var b [8]byte
		for _, x := range row[s : s+w] {
			for k := 0; k < 8; k++ {
				b[k] = byte(x >> (8 * k))
			}
			h.Write(b[:])
		}
		v := h.Sum64() ^ uint64(w)<<56
		if d.seen[v] {
			return true
		}
		d.seen[v] = true
	}
	return false
}

func runScript(c *eng.Ctx, sc scriptCase) {
	rc, dc := sc.Ring, sc.Dist
	n := 1 << rc.LogN
	name := dc.name()
	pre := "C17|" + name
	r, err := newRing(rc)
	if err != nil {
		c.Inconclusive("ring.NewRing: " + err.Error())
		return
	}
	rnd := c.Rand()
	key := make([]byte, 1+rnd.N(64))
	rnd.Read(key)
	script, depth := genScript(rnd, r.MaxLevel(), sc.Steps)
	c.Sample(map[string]any{"case": sc, "script": script})

	var recs [3][]outRec
	okAll := true
	for k := 0; k < 3; k++ {
		mont := dc.Mont && k < 2
		s, _, err := mkSampler(key, r, dc, mont)
		if err != nil {
			c.Violate(pre+"|constructor-error", err.Error(), sc)
			return
		}
		kk := k
		if !c.Try(pre, func() { recs[kk] = execScript(s, r, script, "fill:"+c.CaseID, sc.Fill, kk == 2) }) {
			okAll = false
		}
	}
	if !okAll {
		return
	}
	mods := rc.Moduli
	Bp := dc.boundInt()
	negBp := new(big.Int).Neg(Bp)
	twoB1 := new(big.Int).Lsh(Bp, 1)
	twoB1.Add(twoB1, big.NewInt(1))
	crts := map[int]*ref.CRT{}
	det := &reuseDet{seen: map[uint64]bool{}}
	viewDepth := func(v int) int { return depth[v] }
	for i, st := range script {
		if st.Op == "at" {
			c.Distinct(fmt.Sprintf("%s/%s/%v/%d/%d/at/%d/%s", dc.Kind, dc.Tag, dc.Mont, rc.LogN, len(mods), min(viewDepth(st.View)+1, 2), lvlClass(st.Level, r.MaxLevel())), true)
			continue
		}
		opName := map[string]string{"read": "Read", "new": "ReadNew", "raa": "ReadAndAdd"}[st.Op]
		d := viewDepth(st.View)
		c.Distinct(fmt.Sprintf("%s/%s/%v/%d/%d/%s/%d/%s", dc.Kind, dc.Tag, dc.Mont, rc.LogN, len(mods), st.Op, min(d, 2), lvlClass(st.Level, r.MaxLevel())),
			d >= 1 || st.Op == "raa" || dc.Mont || boundaryParam(dc, n))
		c.Count("steps_"+st.Op, 1)
		if d >= 1 {
			c.Count("steps_on_level_views", 1)
		}
		o1, o2, e := recs[0][i], recs[1][i], recs[2][i]
		lvl := st.Level
		where := func() string {
			return fmt.Sprintf("%s %s mont=%v N=%d moduli=%v step %d %+v (view depth %d)", name, dc.Tag, dc.Mont, n, mods, i, st, d)
		}
		// 1. twin reproducibility
		c.Check(samePoly(o1.pol, o2.pol), pre+"."+opName+"|not-reproducible", where)
		// 2. shape of the result
		if st.Op == "new" {
			if !c.Check(len(o1.pol.Coeffs) == lvl+1, pre+".ReadNew|wrong-level", func() string {
				return fmt.Sprintf("%s: %d rows for a sampler at level %d", where(), len(o1.pol.Coeffs), lvl)
			}) {
				continue
			}
		} else {
			okRows := true
			for k := lvl + 1; k < len(o1.pol.Coeffs); k++ {
				for j := 0; j < n; j++ {
					if o1.pol.Coeffs[k][j] != o1.prior.Coeffs[k][j] {
						okRows = false
					}
				}
			}
			c.Check(okRows, pre+"."+opName+"|wrote-above-level", where)
		}
		// 3. support of the fresh sample e (plain replay)
		switch dc.Kind {
		case "uniform":
			bad := -1
			for k := 0; k <= lvl && bad < 0; k++ {
				for j := 0; j < n; j++ {
					if e.pol.Coeffs[k][j] >= mods[k] {
						bad = k
						break
					}
				}
			}
			c.Check(bad < 0, pre+"|out-of-range", func() string { return fmt.Sprintf("%s: row %d has a value >= q", where(), bad) })
			for k := 0; k <= lvl; k++ {
				if det.add(e.pol.Coeffs[k], mods[k]) {
					c.Violate(pre+"|randomness-reuse", where()+fmt.Sprintf(": a window of row %d repeats residues produced earlier in the script", k), sc)
					break
				}
			}
			c.Eval(1)
		case "gauss":
			checkGauss(c, sc, st, e.pol, crts, Bp, negBp, twoB1, where)
		case "ternP", "ternH":
			checkTernary(c, sc, st, e.pol, where)
		}
		// 3b. no implausibly long run of one value (probability < 1e-12 under the declared distribution)
		if L := runLimit(dc, n); L > 0 {
			best, cur := 1, 1
			for j := 1; j < n; j++ {
				if e.pol.Coeffs[0][j] == e.pol.Coeffs[0][j-1] {
					cur++
					best = max(best, cur)
				} else {
					cur = 1
				}
			}
			c.Max("max_run_of_equal_coefficients", int64(best))
			c.Check(best < L, pre+"|degenerate-run", func() string {
				return fmt.Sprintf("%s: %d consecutive equal coefficients (limit %d at p<1e-12)", where(), best, L)
			})
		}
		// 4. result = prior (ReadAndAdd) + M(e), M = exact Montgomery form when requested
		smallq := false
		if dc.Kind == "gauss" && !dc.bigPath() {
			for k := 0; k <= lvl; k++ {
				if new(big.Int).SetUint64(mods[k]).Cmp(Bp) <= 0 {
					smallq = true
				}
			}
		}
		mism, rng := -1, -1
		rescaled := true // mismatch explained by MForm(prior+e)
		zeroed := true   // mismatch explained by "unselected coefficients set to zero"
		for k := 0; k <= lvl; k++ {
			q := mods[k]
			for j := 0; j < n; j++ {
				ev := e.pol.Coeffs[k][j] % q
				add := ev
				if dc.Mont {
					add = mformRef(ev, q)
				}
				var base uint64
				if st.Op == "raa" {
					base = o1.prior.Coeffs[k][j]
				}
				want := ref.AddMod(base, add, q)
				got := o1.pol.Coeffs[k][j]
				if got%q != want {
					if mism < 0 {
						mism = k*n + j
					}
					if got%q != mformRef(ref.AddMod(base, ev, q), q) {
						rescaled = false
					}
					if !(ev == 0 && got == 0) {
						zeroed = false
					}
				}
				if got >= q {
					if got == q && dc.Kind == "gauss" && !dc.Mont && st.Op != "raa" {
						c.Count("gauss_zero_as_q", 1)
					} else if rng < 0 {
						rng = k*n + j
					}
				}
			}
		}
		c.Eval(2)
		if smallq && (rng >= 0 || mism >= 0) {
			x := max(rng, mism)
			c.Violate(smallqSig, fmt.Sprintf("%s: row %d idx %d got %d, prior %d, fresh sample (plain replay) %d, q=%d, floor(B+1/2)=%v", where(), x/n, x%n, o1.pol.Coeffs[x/n][x%n], priorAt(o1, x/n, x%n), e.pol.Coeffs[x/n][x%n], mods[x/n], Bp), sc)
			continue
		}
		if rng >= 0 {
			c.Violate(pre+"|out-of-range", fmt.Sprintf("%s: row %d idx %d value %d >= q=%d", where(), rng/n, rng%n, o1.pol.Coeffs[rng/n][rng%n], mods[rng/n]), sc)
		}
		if mism >= 0 {
			k, j := mism/n, mism%n
			det := fmt.Sprintf("%s: row %d idx %d got %d, prior %d, fresh sample (plain replay) %d, q=%d", where(), k, j, o1.pol.Coeffs[k][j], priorAt(o1, k, j), e.pol.Coeffs[k][j], mods[k])
			switch {
			case st.Op == "raa" && dc.Kind == "ternH" && zeroed:
				c.Violate(pre+".ReadAndAdd|not-additive|fixed-weight-zeroes-unselected", det, sc)
			case st.Op == "raa" && dc.Kind == "gauss" && dc.Mont && rescaled:
				c.Violate(pre+".ReadAndAdd|not-additive|montgomery-accumulator-rescaled", det, sc)
			case st.Op == "raa":
				c.Violate(pre+".ReadAndAdd|not-additive", det, sc)
			case dc.Mont:
				c.Violate(pre+"."+opName+"|montgomery-mismatch", det, sc)
			default:
				c.Violate(pre+"."+opName+"|not-reproducible", det, sc)
			}
		}
	}
}

// smallqSig: every failure of the uint64 Gaussian path observed while some modulus of the level
// is <= floor(B+1/2) (a coefficient can exceed that modulus).
const smallqSig = "C17|GaussianSampler|wrong-residues|bound>=qi"

func priorAt(o outRec, k, j int) uint64 {
	if k < len(o.prior.Coeffs) {
		return o.prior.Coeffs[k][j]
	}
	return 0
}

func checkGauss(c *eng.Ctx, sc scriptCase, st step, e ring.Poly, crts map[int]*ref.CRT, Bp, negBp, twoB1 *big.Int, where func() string) {
	dc := sc.Dist
	mods := sc.Ring.Moduli
	lvl := st.Level
	n := 1 << sc.Ring.LogN
	crt := crts[lvl]
	if crt == nil {
		crt = ref.NewCRT(mods[:lvl+1])
		crts[lvl] = crt
	}
	if crt.Q.Cmp(twoB1) <= 0 {
		c.Count("gauss_level_vacuous", 1)
		return
	}
	c.Count("gauss_level_judged", 1)
	smallq := false
	if !dc.bigPath() {
		for k := 0; k <= lvl; k++ {
			if new(big.Int).SetUint64(mods[k]).Cmp(Bp) <= 0 {
				smallq = true
			}
		}
	}
	far := new(big.Int).Lsh(Bp, 6) // 64*B'
	canSplit := crt.Q.Cmp(new(big.Int).Lsh(far, 2)) > 0
	c.Eval(1)
	maxAbs := new(big.Int)
	for j := 0; j < n; j++ {
		v := crt.Centered(crt.Column(e.Coeffs, j))
		if a := new(big.Int).Abs(v); a.Cmp(maxAbs) > 0 {
			maxAbs = a
		}
		if v.Cmp(Bp) <= 0 && v.Cmp(negBp) >= 0 {
			continue
		}
		class := "above-bound-or-rns-inconsistent"
		if canSplit {
			if new(big.Int).Abs(v).Cmp(far) <= 0 {
				class = "above-bound"
			} else {
				class = "rns-inconsistent"
			}
		}
		sig := "C17|GaussianSampler|" + class
		if smallq {
			sig = smallqSig
		}
		if dc.bigPath() && class == "above-bound" {
			if v.Sign() < 0 {
				sig += "|bignum-negative"
			} else {
				sig += "|bignum-positive"
			}
		}
		c.Violate(sig, fmt.Sprintf("%s: idx %d residues %v represent %v, allowed |v| <= %v (sigma=%g bound=%g)", where(), j, crt.Column(e.Coeffs, j), v, Bp, dc.Sigma, dc.Bound), sc)
		return
	}
	if dc.bigPath() {
		c.Max("max_gauss_bignum_bits", int64(maxAbs.BitLen()))
	}
}

func checkTernary(c *eng.Ctx, sc scriptCase, st step, e ring.Poly, where func() string) {
	dc := sc.Dist
	mods := sc.Ring.Moduli
	n := 1 << sc.Ring.LogN
	weight := 0
	c.Eval(1)
	for j := 0; j < n; j++ {
		v0 := e.Coeffs[0][j]
		var cls int
		switch {
		case v0 == 0:
			cls = 0
		case v0 == 1:
			cls = 1
		case v0 == mods[0]-1:
			cls = 2
		default:
			c.Violate("C17|TernarySampler|outside-support", fmt.Sprintf("%s: idx %d residue %d mod %d", where(), j, v0, mods[0]), sc)
			return
		}
		if cls != 0 {
			weight++
		}
		for k := 1; k <= st.Level; k++ {
			want := []uint64{0, 1, mods[k] - 1}[cls]
			if e.Coeffs[k][j] != want {
				c.Violate("C17|TernarySampler|rns-inconsistent", fmt.Sprintf("%s: idx %d row 0 = %d but row %d = %d (q=%d)", where(), j, v0, k, e.Coeffs[k][j], mods[k]), sc)
				return
			}
		}
	}
	if dc.Kind == "ternH" {
		want := min(dc.H, n)
		c.Check(weight == want, "C17|TernarySampler|wrong-hamming-weight", func() string {
			return fmt.Sprintf("%s: weight %d, want min(H,N)=%d", where(), weight, want)
		})
		c.Count("fixed_weight_polys_checked", 1)
	}
}

// ---------------------------------------------------------------------------------------------
// ringqp.UniformSampler

type qpCase struct {
	Ring  ringCfg `json:"ring"`
	NP    int     `json:"np"` // the last NP moduli form P
	Steps int     `json:"steps"`
}

type qpStep struct {
	Op     string `json:"op"` // at | read | new | withprng
	View   int    `json:"view"`
	LQ, LP int
}

func runQPScript(c *eng.Ctx, qc qpCase) {
	n := 1 << qc.Ring.LogN
	nq := len(qc.Ring.Moduli) - qc.NP
	qmods, pmods := qc.Ring.Moduli[:nq], qc.Ring.Moduli[nq:]
	rq, err := ring.NewRing(n, qmods)
	if err != nil {
		c.Inconclusive(err.Error())
		return
	}
	var rp *ring.Ring
	if qc.NP > 0 {
		if rp, err = ring.NewRing(n, pmods); err != nil {
			c.Inconclusive(err.Error())
			return
		}
	}
	rqp := ringqp.Ring{RingQ: rq, RingP: rp}
	rnd := c.Rand()
	key := make([]byte, 1+rnd.N(64))
	rnd.Read(key)
	key2 := append([]byte("other"), key...)
	if len(key2) > 64 {
		key2 = key2[:64]
	}
	// script
	type lv struct{ q, p int }
	levels := []lv{{rq.MaxLevel(), qc.NP - 1}}
	var script []qpStep
	for i := 0; i < qc.Steps; i++ {
		v := rnd.N(len(levels))
		k := rnd.N(10)
		switch {
		case i == 1 || k < 2 && len(levels) < 8:
			l := lv{rnd.N(rq.MaxLevel() + 1), rnd.N(qc.NP+1) - 1}
			if levels[v].p == -1 { // a view without P has no P sampler to derive from
				l.p = -1
			}
			script = append(script, qpStep{Op: "at", View: v, LQ: l.q, LP: l.p})
			levels = append(levels, l)
		case k == 2 && i > 2:
			script = append(script, qpStep{Op: "withprng", View: 0, LQ: levels[0].q, LP: levels[0].p})
			levels = append(levels, levels[0])
		case k < 7:
			script = append(script, qpStep{Op: "read", View: v, LQ: levels[v].q, LP: levels[v].p})
		default:
			script = append(script, qpStep{Op: "new", View: v, LQ: levels[v].q, LP: levels[v].p})
		}
	}
	c.Sample(map[string]any{"case": qc, "script": script})
	pre := "C17|ringqp.UniformSampler"
	type rec struct{ pol, prior ringqp.Poly }
	run := func() (recs []rec) {
		prng, _ := sampling.NewKeyedPRNG(key)
		prng2, _ := sampling.NewKeyedPRNG(key2)
		views := []ringqp.UniformSampler{ringqp.NewUniformSampler(prng, rqp)}
		recs = make([]rec, len(script))
		for i, st := range script {
			switch st.Op {
			case "at":
				views = append(views, views[st.View].AtLevel(st.LQ, st.LP))
			case "withprng":
				views = append(views, views[0].WithPRNG(prng2))
			case "new":
				p := views[st.View].ReadNew()
				recs[i].pol = ringqp.Poly{Q: copyPoly(p.Q), P: copyPoly(p.P)}
			case "read":
				fr := eng.NewRand("qpfill:"+c.CaseID, i)
				p := rqp.NewPoly()
				for k := range p.Q.Coeffs {
					for j := range p.Q.Coeffs[k] {
						p.Q.Coeffs[k][j] = fr.U64() % qmods[k]
					}
				}
				for k := range p.P.Coeffs {
					for j := range p.P.Coeffs[k] {
						p.P.Coeffs[k][j] = fr.U64() % pmods[k]
					}
				}
				recs[i].prior = ringqp.Poly{Q: copyPoly(p.Q), P: copyPoly(p.P)}
				views[st.View].Read(p)
				recs[i].pol = p
			}
		}
		return
	}
	var r1, r2 []rec
	if !c.Try(pre, func() { r1 = run(); r2 = run() }) {
		return
	}
	// WithPRNG(g) behaves as a new sampler on g, whatever the receiver has consumed
	c.Try(pre+".WithPRNG", func() {
		pa, _ := sampling.NewKeyedPRNG(key)
		base := ringqp.NewUniformSampler(pa, rqp)
		base.AtLevel(0, -1).ReadNew()
		base.ReadNew()
		g1, _ := sampling.NewKeyedPRNG(key2)
		g2, _ := sampling.NewKeyedPRNG(key2)
		w, f := base.WithPRNG(g1), ringqp.NewUniformSampler(g2, rqp)
		c.Check(sameQP(w.ReadNew(), f.ReadNew()) && sameQP(w.AtLevel(0, -1).ReadNew(), f.AtLevel(0, -1).ReadNew()),
			pre+".WithPRNG|differs-from-new-sampler-on-same-generator", nil)
		pa.Reset()
		bq := ring.NewUniformSampler(pa, rq)
		bq.AtLevel(0).ReadNew()
		g1.Reset()
		g2.Reset()
		wq, fq := bq.WithPRNG(g1), ring.NewUniformSampler(g2, rq)
		c.Check(samePoly(wq.ReadNew(), fq.ReadNew()), "C17|UniformSampler.WithPRNG|differs-from-new-sampler-on-same-generator", nil)
	})
	det := &reuseDet{seen: map[uint64]bool{}}
	for i, st := range script {
		if st.Op == "at" || st.Op == "withprng" {
			c.Distinct(fmt.Sprintf("qp/%d/%d/%d/%s", qc.Ring.LogN, nq, qc.NP, st.Op), true)
			continue
		}
		c.Distinct(fmt.Sprintf("qp/%d/%d/%d/%s/%s/%v", qc.Ring.LogN, nq, qc.NP, st.Op, lvlClass(st.LQ, rq.MaxLevel()), st.LP), st.View > 0)
		c.Count("steps_qp_"+st.Op, 1)
		where := func() string {
			return fmt.Sprintf("ringqp.UniformSampler N=%d Q=%v P=%v step %d %+v", n, qmods, pmods, i, st)
		}
		a, b := r1[i], r2[i]
		c.Check(samePoly(a.pol.Q, b.pol.Q) && samePoly(a.pol.P, b.pol.P), pre+"|not-reproducible", where)
		if st.Op == "new" {
			wantP := st.LP + 1
			c.Check(len(a.pol.Q.Coeffs) == st.LQ+1 && len(a.pol.P.Coeffs) == wantP, pre+".ReadNew|wrong-level", func() string {
				return fmt.Sprintf("%s: rows Q=%d P=%d", where(), len(a.pol.Q.Coeffs), len(a.pol.P.Coeffs))
			})
		}
		okR, okAbove, fresh := true, true, true
		chk := func(pol, prior ring.Poly, mods []uint64, lvl int) {
			for k := range pol.Coeffs {
				if k <= lvl {
					same := 0
					for j, x := range pol.Coeffs[k] {
						if x >= mods[k] {
							okR = false
						}
						if st.Op == "read" && x == prior.Coeffs[k][j] {
							same++
						}
					}
					// a row left (largely) at its previous content was not sampled
					if st.Op == "read" && ref.BitLen(mods[k]) >= 16 && same > n/2 {
						fresh = false
					}
					if det.add(pol.Coeffs[k], mods[k]) {
						c.Violate(pre+"|randomness-reuse", where()+fmt.Sprintf(": a window of row %d (q=%d) repeats residues produced earlier", k, mods[k]), qc)
					}
				} else if st.Op == "read" {
					for j, x := range pol.Coeffs[k] {
						if x != prior.Coeffs[k][j] {
							okAbove = false
						}
					}
				}
			}
		}
		chk(a.pol.Q, a.prior.Q, qmods, st.LQ)
		chk(a.pol.P, a.prior.P, pmods, st.LP)
		c.Check(okR, pre+"|out-of-range", where)
		c.Check(okAbove, pre+".Read|wrote-above-level", where)
		c.Check(fresh, pre+".Read|row-not-sampled", where)
	}
}
