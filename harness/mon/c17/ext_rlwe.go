package c17

// ext_rlwe.go: seed-based expansion and seeded encryption beyond the expand / seeded / crp families.

import (
	"fmt"
	"math/big"

	"github.com/tuneinsight/lattigo/v6/core/rlwe"
	"github.com/tuneinsight/lattigo/v6/multiparty/mpbgv"
	"github.com/tuneinsight/lattigo/v6/multiparty/mpckks"
	"github.com/tuneinsight/lattigo/v6/ring"
	"github.com/tuneinsight/lattigo/v6/schemes/bgv"
	"github.com/tuneinsight/lattigo/v6/schemes/ckks"
	"github.com/tuneinsight/lattigo/v6/utils/sampling"

	"verif/harness/eng"
	"verif/harness/gen"
	"verif/harness/obs"
)

func rlweExtCases(r *eng.Rand, thorough bool) (out []eng.Case) {
	nr := 14
	if thorough {
		nr = 120
	}
	for i := 0; i < nr; i++ {
		logN := eng.Pick(r, 4, 5, 6, 8)
		if i%5 == 4 {
			logN = 10
		}
		nth := uint64(2) << logN
		nq, np := 1+r.N(4), 1+r.N(2)
		var qb, pb []int
		for k := 0; k < nq; k++ {
			qb = append(qb, eng.Pick(r, 30, 45, 55, 60))
		}
		for k := 0; k < np; k++ {
			pb = append(pb, eng.Pick(r, 45, 55, 60))
		}
		q, p := gen.Chain(r, nth, qb, pb)
		if q == nil {
			continue
		}
		rc := rlweCase{LogN: logN, Q: q, P: p, LevelQ: nq - 1, LevelP: np - 1, Key: []string{"evk", "gal", "rlk"}[i%3]}
		if r.N(3) == 0 {
			rc.LevelQ = r.N(nq)
		}
		// (a) compressed key without the auxiliary modulus under parameters that have one
		a := rc
		a.Kind, a.LevelP = "expand", -1
		if r.Bool() {
			a.Base2 = eng.Pick(r, 8, 13, 20)
		}
		out = append(out, eng.Case{ID: fmt.Sprintf("xexpand/noP/%s/logN%d/q%d/p%d/lq%d/b%d/%d", a.Key, logN, nq, np, a.LevelQ, a.Base2, i),
			Sig: "C17|expand", Desc: a, Run: func(c *eng.Ctx) {
				c.Count("xexpand_levelP_minus1_with_P", 1)
				runRLWE(c, a)
			}})
		// (b) expansion through copies, refused buffers, seeds
		b := rc
		b.Kind = "expand-copies"
		b.LevelP = r.N(np+1) - 1
		if b.LevelP == -1 || r.N(3) == 0 {
			b.Base2 = eng.Pick(r, 0, 8, 13, 20)
		}
		out = append(out, eng.Case{ID: fmt.Sprintf("xexpand/copies/%s/logN%d/q%d/p%d/lq%d/lp%d/b%d/%d", b.Key, logN, nq, np, b.LevelQ, b.LevelP, b.Base2, i),
			Sig: "C17|EvaluationKey.Expand", Desc: b, Run: func(c *eng.Ctx) { runExpandExt(c, b) }})
		// (c) fully seeded encryptor twins
		if i%2 == 0 {
			e := rc
			e.Kind = "test-encryptor"
			if i%4 == 2 {
				e.P = nil
			}
			out = append(out, eng.Case{ID: fmt.Sprintf("xexpand/encryptor/logN%d/q%d/p%d/%d", logN, nq, len(e.P), i),
				Sig: "C17|rlwe.NewTestEncryptorWithPRNG", Desc: e, Run: func(c *eng.Ctx) { runTestEncryptor(c, e) }})
		}
		// (d) common reference polynomials of the scheme-level refresh protocols
		if i%4 == 1 {
			d := rc
			d.Kind = "crp-refresh"
			out = append(out, eng.Case{ID: fmt.Sprintf("xexpand/crp-refresh/logN%d/q%d/p%d/%d", logN, nq, np, i),
				Sig: "C17|crp", Desc: d, Run: func(c *eng.Ctx) { runRefreshCRP(c, d) }})
		}
	}
	return
}

func sameVecQP(a, b rlwe.VectorQP) bool {
	if len(a) != len(b) {
		return false
	}
	for i := range a {
		if !sameQP(a[i], b[i]) {
			return false
		}
	}
	return true
}

func sameGadget(a, b *rlwe.GadgetCiphertext) bool {
	if len(a.Value) != len(b.Value) || a.BaseTwoDecomposition != b.BaseTwoDecomposition {
		return false
	}
	for i := range a.Value {
		if len(a.Value[i]) != len(b.Value[i]) {
			return false
		}
		for j := range a.Value[i] {
			if !sameVecQP(a.Value[i][j], b.Value[i][j]) {
				return false
			}
		}
	}
	return true
}

func runExpandExt(c *eng.Ctx, rc rlweCase) {
	params, err := rlwe.NewParametersFromLiteral(rlwe.ParametersLiteral{LogN: rc.LogN, Q: rc.Q, P: rc.P, NTTFlag: true})
	if err != nil {
		c.Inconclusive("parameters: " + err.Error())
		return
	}
	c.Sample(rc)
	rnd := c.Rand()
	pre := "C17|EvaluationKey.Expand"
	evkp := rlwe.EvaluationKeyParameters{LevelQ: &rc.LevelQ, LevelP: &rc.LevelP, Compressed: true}
	if rc.Base2 > 0 {
		evkp.BaseTwoDecomposition = &rc.Base2
	}
	kgen := rlwe.NewKeyGenerator(params)
	sk := kgen.GenSecretKeyNew()
	var evk *rlwe.EvaluationKey
	var gk *rlwe.GaloisKey
	var others []*rlwe.EvaluationKey // further compressed keys made by the same generator
	if !c.Try("C17|KeyGenerator|compressed-"+rc.Key, func() {
		switch rc.Key {
		case "evk":
			evk = kgen.GenEvaluationKeyNew(kgen.GenSecretKeyNew(), sk, evkp)
			others = append(others, kgen.GenEvaluationKeyNew(kgen.GenSecretKeyNew(), sk, evkp))
		case "gal":
			gks := kgen.GenGaloisKeysNew([]uint64{params.GaloisElement(1 + rnd.N(5)), params.GaloisElement(7), params.GaloisElementOrderTwoOrthogonalSubgroup()}, sk, evkp)
			gk = gks[0]
			evk = &gk.EvaluationKey
			others = append(others, &gks[1].EvaluationKey, &gks[2].EvaluationKey)
		case "rlk":
			evk = &kgen.GenRelinearizationKeyNew(sk, evkp).EvaluationKey
			others = append(others, &kgen.GenRelinearizationKeyNew(sk, evkp).EvaluationKey)
		}
	}) {
		return
	}
	if !c.Check(evk.IsCompressed() && evk.Seed != nil, "C17|KeyGenerator|compressed-key-without-seed", nil) {
		return
	}
	c.Distinct(fmt.Sprintf("expand-copies/%s/%d/%d/%d/%d/%d/%d", rc.Key, rc.LogN, len(rc.Q), len(rc.P), rc.LevelQ, rc.LevelP, rc.Base2), true)
	// every compressed key gets its own seed
	for _, o := range others {
		if !c.Check(o.Seed != nil, "C17|KeyGenerator|compressed-key-without-seed", nil) {
			return
		}
		c.Check(*o.Seed != *evk.Seed, "C17|KeyGenerator|seed-reused-across-keys", func() string {
			return fmt.Sprintf("two compressed %s keys made by one key generator carry the same seed %x", rc.Key, *evk.Seed)
		})
	}
	if len(others) == 2 {
		c.Check(*others[0].Seed != *others[1].Seed, "C17|KeyGenerator|seed-reused-across-keys", nil)
	}
	orig := copyEvk(evk)
	refK := copyEvk(evk)
	var rerr error
	if !c.Try(pre, func() { rerr = refK.Expand(params, nil) }) {
		return
	}
	if !c.Check(rerr == nil, pre+"|error-on-compressed-key", func() string { return rerr.Error() }) {
		return
	}
	c.Check(!refK.IsCompressed() && refK.Degree() == 1 && refK.LevelQ() == rc.LevelQ && refK.LevelP() == rc.LevelP, pre+"|wrong-shape-after-expansion", func() string {
		return fmt.Sprintf("degree %d levelQ %d levelP %d", refK.Degree(), refK.LevelQ(), refK.LevelP())
	})
	expandAndCompare := func(how string, k *rlwe.EvaluationKey) {
		var e error
		if !c.Try(pre, func() { e = k.Expand(params, nil) }) {
			return
		}
		if !c.Check(e == nil, pre+"|error-on-compressed-key|"+how, func() string { return e.Error() }) {
			return
		}
		c.Check(sameGadget(&k.GadgetCiphertext, &refK.GadgetCiphertext), pre+"|not-reproducible|"+how, func() string {
			return fmt.Sprintf("%s key: the key expanded %s differs from the key expanded directly", rc.Key, how)
		})
		c.Count("expansions_compared", 1)
	}
	// 1. through CopyNew
	c.Try("C17|EvaluationKey.CopyNew", func() {
		cp := evk.CopyNew()
		if !c.Check(cp.Seed != nil && *cp.Seed == *evk.Seed && cp.IsCompressed(), "C17|EvaluationKey.CopyNew|seed-lost", nil) {
			return
		}
		expandAndCompare("after-CopyNew", cp)
	})
	if gk != nil {
		c.Try("C17|GaloisKey.CopyNew", func() {
			cp := gk.CopyNew()
			if !c.Check(cp.Seed != nil && *cp.Seed == *evk.Seed && cp.IsCompressed(), "C17|GaloisKey.CopyNew|seed-lost", nil) {
				return
			}
			expandAndCompare("after-GaloisKey.CopyNew", &cp.EvaluationKey)
		})
	}
	// 2. through a serialisation round trip
	c.Try("C17|EvaluationKey.MarshalBinary", func() {
		var k2 *rlwe.EvaluationKey
		if gk != nil {
			b, err := gk.MarshalBinary()
			g2 := new(rlwe.GaloisKey)
			if err == nil {
				err = g2.UnmarshalBinary(b)
			}
			if !c.Check(err == nil, "C17|GaloisKey.MarshalBinary|error-on-compressed-key", func() string { return err.Error() }) {
				return
			}
			k2 = &g2.EvaluationKey
		} else {
			b, err := evk.MarshalBinary()
			k2 = new(rlwe.EvaluationKey)
			if err == nil {
				err = k2.UnmarshalBinary(b)
			}
			if !c.Check(err == nil, "C17|EvaluationKey.MarshalBinary|error-on-compressed-key", func() string { return err.Error() }) {
				return
			}
		}
		if !c.Check(k2.Seed != nil && *k2.Seed == *evk.Seed && k2.IsCompressed(), "C17|EvaluationKey.MarshalBinary|seed-lost", nil) {
			return
		}
		expandAndCompare("after-serialisation", k2)
	})
	// 3. refused buffers: an error, and the key stays what it was
	k3 := copyEvk(evk)
	type badBuf struct {
		why string
		buf func() *rlwe.GadgetCiphertext
	}
	bufs := []badBuf{{"degree-1", func() *rlwe.GadgetCiphertext {
		return rlwe.NewGadgetCiphertext(params, 1, rc.LevelQ, rc.LevelP, rc.Base2)
	}}}
	if rc.LevelQ > 0 {
		bufs = append(bufs, badBuf{"lower-levelQ", func() *rlwe.GadgetCiphertext {
			return rlwe.NewGadgetCiphertext(params, 0, rc.LevelQ-1, rc.LevelP, rc.Base2)
		}})
	}
	if rc.LevelQ < len(rc.Q)-1 {
		bufs = append(bufs, badBuf{"higher-levelQ", func() *rlwe.GadgetCiphertext {
			return rlwe.NewGadgetCiphertext(params, 0, rc.LevelQ+1, rc.LevelP, rc.Base2)
		}})
	}
	if rc.LevelP >= 0 && (rc.LevelP > 0 || rc.Base2 == 0) {
		bufs = append(bufs, badBuf{"lower-levelP", func() *rlwe.GadgetCiphertext {
			return rlwe.NewGadgetCiphertext(params, 0, rc.LevelQ, rc.LevelP-1, rc.Base2)
		}})
	}
	for _, bb := range bufs {
		b := bb
		c.Try(pre+"|invalid-buffer", func() {
			e := k3.Expand(params, b.buf())
			c.Check(e != nil, pre+"|invalid-buffer-accepted|"+b.why, nil)
			c.Check(k3.IsCompressed() && k3.Seed != nil && *k3.Seed == *orig.Seed && sameGadget(&k3.GadgetCiphertext, &orig.GadgetCiphertext),
				pre+"|refusal-modifies-key|"+b.why, nil)
			c.Count("expand_refusals_checked", 1)
		})
	}
	c.Try(pre, func() {
		kn := copyEvk(evk)
		kn.Seed = nil
		c.Check(kn.Expand(params, nil) != nil, pre+"|missing-seed-accepted", nil)
		c.Check(sameGadget(&kn.GadgetCiphertext, &orig.GadgetCiphertext), pre+"|refusal-modifies-key|missing-seed", nil)
	})
	// after the refusals the key still expands to the same thing, into a caller-provided buffer
	c.Try(pre, func() {
		buf := rlwe.NewGadgetCiphertext(params, 0, rc.LevelQ, rc.LevelP, rc.Base2)
		// the buffer arrives with content: the expansion overwrites it
		pr, _ := sampling.NewKeyedPRNG([]byte("dirty"))
		us := ring.NewUniformSampler(pr, params.RingQ().AtLevel(rc.LevelQ))
		for i := range buf.Value {
			for j := range buf.Value[i] {
				us.Read(buf.Value[i][j][0].Q)
			}
		}
		e := k3.Expand(params, buf)
		if !c.Check(e == nil, pre+"|error-on-compressed-key|after-refusals", func() string { return e.Error() }) {
			return
		}
		c.Check(sameGadget(&k3.GadgetCiphertext, &refK.GadgetCiphertext), pre+"|not-reproducible|after-refusals-into-used-buffer", nil)
	})
	// 4. another seed: unrelated second component, still in range
	c.Try(pre, func() {
		kt := copyEvk(evk)
		kt.Seed[rnd.N(32)] ^= 1 << rnd.N(8)
		if e := kt.Expand(params, nil); e != nil {
			c.Violate(pre+"|error-on-compressed-key|other-seed", e.Error(), rc)
			return
		}
		diff, rng := true, true
		qm, pm := rc.Q[:rc.LevelQ+1], rc.P[:rc.LevelP+1]
		for i := range kt.Value {
			for j := range kt.Value[i] {
				if sameQP(kt.Value[i][j][1], refK.Value[i][j][1]) {
					diff = false
				}
				if !inRangeQP(kt.Value[i][j][1], qm, pm) {
					rng = false
				}
			}
		}
		c.Check(diff, pre+"|distinct-keys-same-output", nil)
		c.Check(rng, pre+"|out-of-range", nil)
	})
	// 5. the other keys of the generator expand to other second components
	for _, o := range others {
		oo := copyEvk(o)
		c.Try(pre, func() {
			if e := oo.Expand(params, nil); e != nil {
				c.Violate(pre+"|error-on-compressed-key", e.Error(), rc)
				return
			}
			c.Check(!sameQP(oo.Value[0][0][1], refK.Value[0][0][1]), "C17|KeyGenerator|seed-reused-across-keys", nil)
		})
	}
}

// runTestEncryptor: rlwe.NewTestEncryptorWithPRNG routes the uniform, the Gaussian and the ternary
// sampler of an encryptor to one generator. Two encryptors on identically keyed generators doing the
// same calls return bit-identical ciphertexts; another key gives other ciphertexts; the ciphertexts
// decrypt to worst-case-bounded noise.
func runTestEncryptor(c *eng.Ctx, rc rlweCase) {
	params, err := rlwe.NewParametersFromLiteral(rlwe.ParametersLiteral{LogN: rc.LogN, Q: rc.Q, P: rc.P, NTTFlag: true})
	if err != nil {
		c.Inconclusive("parameters: " + err.Error())
		return
	}
	c.Sample(rc)
	rnd := c.Rand()
	pre := "C17|rlwe.NewTestEncryptorWithPRNG"
	kgen := rlwe.NewKeyGenerator(params)
	sk, pk := kgen.GenKeyPairNew()
	key := make([]byte, 32)
	rnd.Read(key)
	nCalls := 6
	lvls := make([]int, nCalls)
	for i := range lvls {
		lvls[i] = rnd.N(len(rc.Q))
	}
	bound, _ := obs.ErrBound(params)
	n := float64(params.N())
	Bsk := big.NewInt(int64(bound))
	Bpk := big.NewInt(int64(bound*(2*n+1) + 2*(n+1)))
	for _, mode := range []string{"sk", "pk"} {
		var encKey rlwe.EncryptionKey = sk
		B := Bsk
		if mode == "pk" {
			encKey, B = pk, Bpk
		}
		var cts [3][]*rlwe.Ciphertext
		if !c.Try(pre, func() {
			for k := 0; k < 3; k++ {
				kk := append([]byte(nil), key...)
				if k == 2 {
					kk[7] ^= 0x40
				}
				prng, _ := sampling.NewKeyedPRNG(kk)
				enc := rlwe.NewTestEncryptorWithPRNG(params, encKey, prng)
				for _, l := range lvls {
					ct := rlwe.NewCiphertext(params, 1, l)
					if err := enc.EncryptZero(ct); err != nil {
						panic(err)
					}
					cts[k] = append(cts[k], ct)
				}
			}
		}) {
			continue
		}
		for i, l := range lvls {
			a, b, d := cts[0][i], cts[1][i], cts[2][i]
			where := func() string {
				return fmt.Sprintf("%s encryption, call %d at level %d (N=%d Q=%v P=%v)", mode, i, l, params.N(), rc.Q, rc.P)
			}
			c.Check(samePoly(a.Value[0], b.Value[0]) && samePoly(a.Value[1], b.Value[1]), pre+"|not-reproducible|"+mode, where)
			c.Check(!samePoly(a.Value[1], d.Value[1]) && !samePoly(a.Value[0], d.Value[0]), pre+"|distinct-keys-same-output|"+mode, where)
			rq := params.RingQ().AtLevel(l)
			ph := obs.Centered(rq, obs.Phase(params, &a.Element, sk))
			okp := true
			for _, v := range ph {
				if v.CmpAbs(B) > 0 {
					okp = false
				}
			}
			c.Check(okp, pre+"|seeded-ciphertext-does-not-decrypt|"+mode, where)
			if i > 0 {
				c.Check(!samePoly(a.Value[1], cts[0][i-1].Value[1]), pre+"|randomness-reuse|"+mode, where)
			}
			c.Count("seeded_encryptions_compared", 1)
		}
		c.Distinct(fmt.Sprintf("test-encryptor/%s/%d/%d/%d", mode, rc.LogN, len(rc.Q), len(rc.P)), true)
	}
}

// runRefreshCRP: the CRP sampling of the CKKS / BGV refresh and share-to-encryption protocols.
func runRefreshCRP(c *eng.Ctx, rc rlweCase) {
	rnd := c.Rand()
	key := make([]byte, 32)
	rnd.Read(key)
	other := append([]byte(nil), key...)
	other[11] ^= 8
	noise := ring.DiscreteGaussian{Sigma: 3.2, Bound: 19.2}
	c.Sample(rc)
	type sampler func(level int, crs sampling.PRNG) ring.Poly
	protos := map[string]func() (sampler, int, error){}
	protos["mpckks.RefreshProtocol"] = func() (sampler, int, error) {
		p, err := ckks.NewParametersFromLiteral(ckks.ParametersLiteral{LogN: rc.LogN, Q: rc.Q, P: rc.P, LogDefaultScale: 20})
		if err != nil {
			return nil, 0, err
		}
		rp, err := mpckks.NewRefreshProtocol(p, 64, noise)
		return func(l int, crs sampling.PRNG) ring.Poly { return rp.SampleCRP(l, crs).Value }, p.MaxLevel(), err
	}
	protos["mpckks.ShareToEncProtocol"] = func() (sampler, int, error) {
		p, err := ckks.NewParametersFromLiteral(ckks.ParametersLiteral{LogN: rc.LogN, Q: rc.Q, P: rc.P, LogDefaultScale: 20})
		if err != nil {
			return nil, 0, err
		}
		sp, err := mpckks.NewShareToEncProtocol(p, noise)
		return func(l int, crs sampling.PRNG) ring.Poly { return sp.SampleCRP(l, crs).Value }, p.MaxLevel(), err
	}
	if rc.LogN >= 4 && rc.LogN <= 15 {
		protos["mpbgv.RefreshProtocol"] = func() (sampler, int, error) {
			p, err := bgv.NewParametersFromLiteral(bgv.ParametersLiteral{LogN: rc.LogN, Q: rc.Q, P: rc.P, PlaintextModulus: 65537})
			if err != nil {
				return nil, 0, err
			}
			rp, err := mpbgv.NewRefreshProtocol(p, noise)
			return func(l int, crs sampling.PRNG) ring.Poly { return rp.SampleCRP(l, crs).Value }, p.MaxLevel(), err
		}
	}
	for _, name := range []string{"mpckks.RefreshProtocol", "mpckks.ShareToEncProtocol", "mpbgv.RefreshProtocol"} {
		mk := protos[name]
		if mk == nil {
			continue
		}
		pre := "C17|" + name + ".SampleCRP"
		c.Try(pre, func() {
			draw := func(k []byte) (out []ring.Poly, maxLevel int, err error) {
				s, ml, err := mk()
				if err != nil {
					return nil, 0, err
				}
				crs, _ := sampling.NewKeyedPRNG(k)
				for _, l := range []int{ml, 0, ml / 2, ml} {
					out = append(out, copyPoly(s(l, crs)))
				}
				return out, ml, nil
			}
			a, ml, err := draw(key)
			if err != nil {
				c.Count("crp_refresh_parameters_rejected", 1)
				return
			}
			b, _, _ := draw(key)
			d, _, _ := draw(other)
			lv := []int{ml, 0, ml / 2, ml}
			same, diff, rng, rows := true, true, true, true
			for i := range a {
				if !samePoly(a[i], b[i]) {
					same = false
				}
				if samePoly(a[i], d[i]) {
					diff = false
				}
				if len(a[i].Coeffs) != lv[i]+1 {
					rows = false
				}
				for k := range a[i].Coeffs {
					for _, x := range a[i].Coeffs[k] {
						if x >= rc.Q[k] {
							rng = false
						}
					}
				}
			}
			c.Check(same, pre+"|not-reproducible", nil)
			c.Check(diff, pre+"|distinct-keys-same-output", nil)
			c.Check(rng, pre+"|out-of-range", nil)
			c.Check(rows, pre+"|wrong-level", nil)
			c.Check(!samePoly(a[0], a[3]), pre+"|randomness-reuse", nil)
			c.Count("crp_polynomials_compared", int64(len(a)))
			c.Distinct(fmt.Sprintf("crp-refresh/%s/%d/%d/%d", name, rc.LogN, len(rc.Q), len(rc.P)), true)
		})
	}
}
