package c17

// ext.go: extension families added by the coverage audit of C17. They use their own case
// generator stream ("c17-cases-ext"), so the ids of the families of c17.go do not move.
//
//   xscript  the script oracle of script.go on dimensions the first families leave out: ring degree 8
//            (smallest accepted), 10..24 RNS moduli, the conjugate-invariant ring, degrees 2^12..2^15,
//            further densities / standard deviations (dyadic p, the two sides of the big-number
//            switch), every Hamming weight 1..N, receivers whose previous content is 0 / q-1 / edge;
//   xstat    the shape oracle of stat.go on the same new parameters;
//   xmixed   uniform + Gaussian + ternary samplers fed by ONE generator (what rlwe.Encryptor does),
//            random interleaving over their level views, one twin reading through a counting wrapper;
//   xrand    ring.RandUniform, bignum.RandInt, sampling.RandUint64/RandFloat64/RandComplex128/RandInt;
//   xprng    KeyedPRNG: chunking invariance, nil key, oversized key, Reset in the middle of a stream;
//   xexpand  compressed keys at LevelP=-1 under parameters with P, Expand after CopyNew / after a
//            serialisation round trip, refused buffers leave the key intact, distinct seeds per key,
//            rlwe.NewTestEncryptorWithPRNG twins, CRP sampling of the scheme-level refresh protocols.

import (
	"fmt"
	"math"
	"math/big"

	"github.com/tuneinsight/lattigo/v6/ring"
	"github.com/tuneinsight/lattigo/v6/utils/sampling"

	"verif/harness/eng"
	"verif/harness/gen"
	"verif/harness/ref"
)

// mkRingX draws a chain with the given bit sizes for the standard or conjugate-invariant ring;
// bit sizes that have no NTT-friendly prime are raised until one exists.
func mkRingX(r *eng.Rand, logN int, bits []int, ci bool) (ringCfg, bool) {
	nth := uint64(2) << logN
	if ci {
		nth <<= 1
	}
	b := append([]int(nil), bits...)
	for i := range b {
		if b[i] < ref.BitLen(nth) {
			b[i] = ref.BitLen(nth)
		}
	}
	for try := 0; try < 8; try++ {
		q, _ := gen.Chain(r, nth, b, nil)
		if q != nil {
			return ringCfg{LogN: logN, Moduli: q, CI: ci}, true
		}
		for i := range b {
			if b[i] < 40 {
				b[i]++
			}
		}
	}
	return ringCfg{}, false
}

func poolBits(r *eng.Rand, k, minBits int) []int {
	var pool []int
	for _, b := range bitPool {
		if b >= minBits {
			pool = append(pool, b)
		}
	}
	if len(pool) == 0 {
		pool = []int{61}
	}
	out := make([]int, k)
	for i := range out {
		out[i] = pool[r.N(len(pool))]
	}
	return out
}

var gaussCfgsX = []gaussP{
	{1, 6, "s1-b6"}, {8, 12, "s8-b12"}, {100, 600, "s100-b6s"}, {p2(30), p2(31), "s2^30-b2s"},
	{p2(53), p2(66), "s2^53-b2^66-u64-edge"}, {p2(54), p2(64), "s2^54-b2^64-u64-edge"},
	{math.Nextafter(p2(53), p2(54)), p2(65), "s2^53+-b2^65-big-edge"},
}

var ternPsX = []struct {
	p   float64
	tag string
}{{0.25, "p0.25"}, {0.75, "p0.75"}, {0.9, "p0.9"}, {0.001, "p0.001"}, {0.999, "p0.999"}}

// gaussRingX: number of moduli and minimal bit size such that the level-max modulus exceeds 2*floor(B+1/2)+1.
func gaussRingX(r *eng.Rand, g gaussP, k int) []int {
	d := distCfg{Kind: "gauss", Sigma: g.s, Bound: g.b}
	mb := gaussMinBits(g)
	need := d.boundInt().BitLen() + 2
	if g.s < 100 && !d.bigPath() && g.b <= p2(60) {
		need = 8
	}
	for k*(mb-1) < need {
		k++
	}
	return poolBits(r, k, mb)
}

func extCases(thorough bool, seed int64) (out []eng.Case) {
	r := eng.NewRand("c17-cases-ext", seed)
	rep := func(q, t int) int {
		if thorough {
			return t
		}
		return q
	}
	addX := func(why string, i int, rc ringCfg, dc distCfg, steps int, fill string) {
		if dc.Kind == "uniform" { // the uniform sampler has no Montgomery mode
			dc.Mont = false
		}
		id := fmt.Sprintf("xscript/%s/%s/%s/m%v/logN%d/k%d/%d", why, dc.Kind, dc.Tag, dc.Mont, rc.LogN, len(rc.Moduli), i)
		sc := scriptCase{Ring: rc, Dist: dc, Steps: steps, Fill: fill}
		out = append(out, eng.Case{ID: id, Sig: "C17|" + dc.name(), Desc: sc, Run: func(c *eng.Ctx) {
			c.Count("xscript_"+why, 1)
			runScript(c, sc)
		}})
	}
	g32 := gaussP{3.2, 19.2, "s3.2-b19.2"}
	gBig := gaussP{p2(64), p2(65), "s2^64-b2s-big"}
	// the default distribution list of a dimension sweep
	basic := func(n int) []distCfg {
		return []distCfg{
			{Kind: "uniform", Tag: "u"},
			{Kind: "gauss", Sigma: 3.2, Bound: 19.2, Tag: g32.tag},
			{Kind: "gauss", Sigma: gBig.s, Bound: gBig.b, Tag: gBig.tag},
			{Kind: "ternP", P: 2.0 / 3, Tag: "p2/3"},
			{Kind: "ternP", P: 0.5, Tag: "p0.5"},
			{Kind: "ternH", H: n / 2, Tag: fmt.Sprintf("h%d", n/2)},
		}
	}
	ringFor := func(dc distCfg, logN, k int, ci bool) (ringCfg, bool) {
		if dc.Kind == "gauss" {
			return mkRingX(r, logN, gaussRingX(r, gaussP{dc.Sigma, dc.Bound, dc.Tag}, k), ci)
		}
		return mkRingX(r, logN, poolBits(r, k, 0), ci)
	}

	// 1. ring degree 8, the smallest the ring constructor accepts
	{
		dl := basic(8)
		dl = append(dl, distCfg{Kind: "gauss", Sigma: 0.5, Bound: 1, Tag: "s0.5-b1"}, distCfg{Kind: "gauss", Sigma: p2(20), Bound: 6 * p2(20), Tag: "s2^20-b6s"},
			distCfg{Kind: "ternP", P: 0.01, Tag: "p0.01"}, distCfg{Kind: "ternP", P: 0.99, Tag: "p0.99"})
		for h := 1; h <= 9; h++ {
			if h != 4 {
				dl = append(dl, distCfg{Kind: "ternH", H: h, Tag: fmt.Sprintf("h%d", h)})
			}
		}
		for i := 0; i < rep(1, 6); i++ {
			for di, dc := range dl {
				dc.Mont = (di+i)%2 == 1
				dc.ViaIface = (di+i)%3 == 0
				rc, ok := ringFor(dc, 3, 1+r.N(4), false)
				if dc.Kind != "gauss" && (di+i)%2 == 0 {
					// with one of the smallest primes the ring accepts (17, 97, 113, ...)
					rc, ok = mkRingX(r, 3, append([]int{5 + r.N(3)}, poolBits(r, r.N(3), 0)...), false)
				}
				if ok {
					addX("n8", i, rc, dc, 10+r.N(20), "")
				}
			}
		}
	}
	// 2. many RNS moduli
	for i := 0; i < rep(1, 5); i++ {
		for _, k := range []int{10, 16, 24} {
			if k == 24 && !thorough {
				continue
			}
			logN := eng.Pick(r, 4, 5, 6)
			for di, dc := range basic(1 << logN) {
				dc.Mont = (di+i)%2 == 0
				rc, ok := ringFor(dc, logN, k, false)
				if ok {
					addX("rns", i, rc, dc, 8+r.N(10), "")
				}
			}
		}
	}
	// 3. conjugate-invariant ring
	for i := 0; i < rep(2, 10); i++ {
		logN := eng.Pick(r, 3, 4, 5, 6, 8)
		for di, dc := range basic(1 << logN) {
			dc.Mont = (di+i)%2 == 1
			dc.ViaIface = di%2 == 0
			rc, ok := ringFor(dc, logN, 1+r.N(4), true)
			if ok {
				addX("ci", i, rc, dc, 10+r.N(15), "")
			}
		}
	}
	// 4. large ring degrees
	{
		logNs := []int{12, 13}
		if thorough {
			logNs = []int{12, 13, 14, 15}
		}
		for i := 0; i < rep(1, 2); i++ {
			for _, logN := range logNs {
				for di, dc := range basic(1 << logN) {
					if dc.Kind == "ternH" {
						dc.H = eng.Pick(r, 32, 192, 1<<logN-1)
						dc.Tag = fmt.Sprintf("h%d", dc.H)
					}
					if !thorough && (di+logN)%2 == 0 {
						continue
					}
					dc.Mont = di%2 == 0
					rc, ok := ringFor(dc, logN, 2, false)
					if ok {
						addX("bigN", i, rc, dc, 5, "")
					}
				}
			}
		}
	}
	// 5. further distribution parameters
	for i := 0; i < rep(2, 12); i++ {
		for ti, t := range ternPsX {
			logN := eng.Pick(r, 3, 4, 5, 6, 8)
			rc, ok := mkRingX(r, logN, poolBits(r, 1+r.N(4), 0), false)
			if ok {
				addX("param", i, rc, distCfg{Kind: "ternP", P: t.p, Tag: t.tag, Mont: (ti+i)%2 == 0, ViaIface: i%2 == 0}, 10+r.N(20), "")
			}
		}
		for gi, g := range gaussCfgsX {
			logN := eng.Pick(r, 3, 4, 5, 6, 8)
			dc := distCfg{Kind: "gauss", Sigma: g.s, Bound: g.b, Tag: g.tag, Mont: (gi+i)%2 == 1, ViaIface: (gi+i)%3 == 0}
			rc, ok := ringFor(dc, logN, 1+r.N(3), false)
			if ok {
				addX("param", i, rc, dc, 10+r.N(20), "")
			}
		}
	}
	// 6. every Hamming weight 1..N
	{
		logNs := []int{3, 4, 5}
		if thorough {
			logNs = []int{3, 4, 5, 6, 7}
		}
		for _, logN := range logNs {
			for h := 1; h <= 1<<logN; h++ {
				rc, ok := mkRingX(r, logN, poolBits(r, 1+r.N(3), 0), h%7 == 0)
				if ok {
					addX("hsweep", 0, rc, distCfg{Kind: "ternH", H: h, Tag: fmt.Sprintf("h%d", h), Mont: h%2 == 0, ViaIface: h%3 == 0}, 6, "")
				}
			}
		}
	}
	// 7. previous content of the receivers at the edges of [0, q)
	for i := 0; i < rep(1, 6); i++ {
		for _, fill := range []string{"max", "zero", "edge"} {
			logN := eng.Pick(r, 3, 4, 5, 6)
			for di, dc := range basic(1 << logN) {
				dc.Mont = (di+i)%2 == 0
				rc, ok := ringFor(dc, logN, 1+r.N(4), i%3 == 2)
				if ok {
					addX("fill-"+fill, i, rc, dc, 12+r.N(12), fill)
				}
			}
		}
	}

	// xstat: shape of the new parameters
	{
		samples := 1 << 17
		if thorough {
			samples = 1 << 20
		}
		addS := func(why string, i int, rc ringCfg, dc distCfg) {
			if dc.Kind == "uniform" {
				dc.Mont = false
			}
			sc := statCase{Ring: rc, Dist: dc, Samples: samples}
			id := fmt.Sprintf("xstat/%s/%s/%s/m%v/logN%d/%d", why, dc.Kind, dc.Tag, dc.Mont, rc.LogN, i)
			out = append(out, eng.Case{ID: id, Sig: "C17|" + dc.name(), Desc: sc, Run: func(c *eng.Ctx) {
				c.Count("xstat_"+why, 1)
				runStat(c, sc)
			}})
		}
		for i := 0; i < rep(1, 4); i++ {
			for ti, t := range ternPsX {
				rc, ok := mkRingX(r, eng.Pick(r, 6, 8, 10), poolBits(r, 2, 0), false)
				if ok {
					addS("param", i, rc, distCfg{Kind: "ternP", P: t.p, Tag: t.tag, Mont: ti%2 == 0})
				}
			}
			for gi, g := range gaussCfgsX {
				dc := distCfg{Kind: "gauss", Sigma: g.s, Bound: g.b, Tag: g.tag, Mont: gi%2 == 0}
				rc, ok := ringFor(dc, eng.Pick(r, 6, 8, 10), 2, false)
				if ok {
					addS("param", i, rc, dc)
				}
			}
			// degree 8 and the conjugate-invariant ring (fixed weights only where the 16 position buckets exist)
			for di, dc := range basic(8) {
				if dc.Kind == "ternH" || (!thorough && di%2 == i%2) {
					continue
				}
				rc, ok := ringFor(dc, 3, 2, false)
				if ok {
					addS("n8", i, rc, dc)
				}
			}
			logN := eng.Pick(r, 4, 6, 8)
			for di, dc := range basic(1 << logN) {
				if !thorough && di%2 != i%2 {
					continue
				}
				dc.Mont = di%2 == 1
				rc, ok := ringFor(dc, logN, 2, true)
				if ok {
					addS("ci", i, rc, dc)
				}
			}
			for hi, hh := range []struct{ logN, h int }{{4, 1}, {5, 31}, {8, 255}, {7, 64}} {
				if !thorough && hi%2 != i%2 {
					continue
				}
				rc, ok := mkRingX(r, hh.logN, poolBits(r, 2, 0), false)
				if ok {
					addS("weights", i, rc, distCfg{Kind: "ternH", H: hh.h, Tag: fmt.Sprintf("h%d", hh.h), Mont: hi%2 == 0})
				}
			}
		}
	}

	// xmixed: three sampler kinds on one generator
	for i := 0; i < rep(24, 200); i++ {
		logN := eng.Pick(r, 3, 4, 5, 6, 8)
		n := 1 << logN
		big := i%3 == 0
		var rc ringCfg
		var ok bool
		g := eng.Pick(r, g32, gaussP{0.5, 3, "s0.5-b3"}, gaussP{p2(20), 6 * p2(20), "s2^20-b6s"})
		if big {
			g = eng.Pick(r, gBig, gaussP{p2(70), 6 * p2(70), "s2^70-b6s-big"})
			rc, ok = mkRingX(r, logN, poolBits(r, 3+r.N(2), 55), i%6 == 3)
		} else {
			rc, ok = mkRingX(r, logN, gaussRingX(r, g, 1+r.N(4)), i%4 == 1)
		}
		if !ok {
			continue
		}
		tern := distCfg{Kind: "ternP", P: eng.Pick(r, 0.5, 2.0/3, 0.25), Mont: r.Bool()}
		tern.Tag = fmt.Sprintf("p%.3g", tern.P)
		if i%2 == 1 {
			h := eng.Pick(r, 1, n/2, n-1, n)
			tern = distCfg{Kind: "ternH", H: h, Tag: fmt.Sprintf("h%d", h), Mont: r.Bool()}
		}
		mc := mixedCase{Ring: rc, Steps: 15 + r.N(rep(20, 35)), Fill: eng.Pick(r, "", "", "edge", "max"), Dists: []distCfg{
			{Kind: "uniform", Tag: "u"},
			{Kind: "gauss", Sigma: g.s, Bound: g.b, Tag: g.tag, Mont: r.Bool(), ViaIface: r.Bool()},
			tern,
		}}
		id := fmt.Sprintf("xmixed/%s/%s/logN%d/k%d/%d", g.tag, tern.Tag, logN, len(rc.Moduli), i)
		out = append(out, eng.Case{ID: id, Sig: "C17|shared-generator", Desc: mc, Run: func(c *eng.Ctx) { runMixed(c, mc) }})
	}

	out = append(out, utilCases(r, thorough)...)
	out = append(out, rlweExtCases(r, thorough)...)
	return out
}

// ---------------------------------------------------------------------------------------------
// xmixed

type mixedCase struct {
	Ring  ringCfg   `json:"ring"`
	Dists []distCfg `json:"dists"`
	Steps int       `json:"steps"`
	Fill  string    `json:"fill,omitempty"`
}

type mstep struct {
	Op    string `json:"op"`
	View  int    `json:"view"`
	Samp  int    `json:"sampler"`
	Level int    `json:"level"`
	Full  bool   `json:"full,omitempty"`
}

// countingPRNG: a sampling.PRNG that is not a *KeyedPRNG (the samplers take the interface) and
// counts what is drawn from the generator behind it.
type countingPRNG struct {
	in    *sampling.KeyedPRNG
	bytes int64
	reads int64
}

func (p *countingPRNG) Read(b []byte) (int, error) {
	n, err := p.in.Read(b)
	p.bytes += int64(n)
	p.reads++
	return n, err
}

func mkSamplerOn(prng sampling.PRNG, r *ring.Ring, dc distCfg, mont bool) (ring.Sampler, error) {
	var X ring.DistributionParameters
	switch dc.Kind {
	case "uniform":
		X = ring.Uniform{}
	case "gauss":
		X = ring.DiscreteGaussian{Sigma: dc.Sigma, Bound: dc.Bound}
	case "ternP":
		X = ring.Ternary{P: dc.P}
	case "ternH":
		X = ring.Ternary{H: dc.H}
	}
	if dc.ViaIface {
		return ring.NewSampler(prng, r, X, mont)
	}
	switch x := X.(type) {
	case ring.Uniform:
		return ring.NewUniformSampler(prng, r), nil
	case ring.DiscreteGaussian:
		return ring.NewGaussianSampler(prng, r, x, mont), nil
	case ring.Ternary:
		return ring.NewTernarySampler(prng, r, x, mont)
	}
	return nil, fmt.Errorf("unknown kind")
}

func genMixed(rnd *eng.Rand, maxLevel, ns, n int) (script []mstep, depth []int) {
	var levels, samp []int
	for s := 0; s < ns; s++ {
		levels, samp, depth = append(levels, maxLevel), append(samp, s), append(depth, 0)
	}
	for i := 0; i < n; i++ {
		v := rnd.N(len(levels))
		k := rnd.N(10)
		switch {
		case i < ns || k < 2 && len(levels) < 12:
			if i < ns {
				v = i // every sampler gets a level view first
			}
			l := rnd.N(maxLevel + 1)
			script = append(script, mstep{Op: "at", View: v, Samp: samp[v], Level: l})
			levels, samp, depth = append(levels, l), append(samp, samp[v]), append(depth, depth[v]+1)
		case k < 5:
			script = append(script, mstep{Op: "read", View: v, Samp: samp[v], Level: levels[v], Full: rnd.Bool()})
		case k < 7:
			script = append(script, mstep{Op: "new", View: v, Samp: samp[v], Level: levels[v]})
		default:
			script = append(script, mstep{Op: "raa", View: v, Samp: samp[v], Level: levels[v], Full: rnd.Bool()})
		}
	}
	return
}

func execMixed(prng sampling.PRNG, r *ring.Ring, mc mixedCase, script []mstep, fillKey string, plain bool) ([]outRec, error) {
	var views []ring.Sampler
	for _, dc := range mc.Dists {
		s, err := mkSamplerOn(prng, r, dc, dc.Mont && !plain)
		if err != nil {
			return nil, err
		}
		views = append(views, s)
	}
	recs := make([]outRec, len(script))
	n := r.N()
	for i, st := range script {
		switch st.Op {
		case "at":
			views = append(views, views[st.View].AtLevel(st.Level))
		case "new":
			recs[i].pol = copyPoly(views[st.View].ReadNew())
		default:
			rows := st.Level + 1
			if st.Full {
				rows = r.MaxLevel() + 1
			}
			fr := eng.NewRand(fillKey, i)
			p := ring.Poly{Coeffs: make([][]uint64, rows)}
			for k := range p.Coeffs {
				q := r.SubRings[k].Modulus
				p.Coeffs[k] = make([]uint64, n)
				for j := range p.Coeffs[k] {
					p.Coeffs[k][j] = fillValue(fr, mc.Fill, q)
				}
			}
			recs[i].prior = copyPoly(p)
			if st.Op == "raa" && !plain {
				views[st.View].ReadAndAdd(p)
			} else {
				views[st.View].Read(p)
			}
			recs[i].pol = p
		}
	}
	return recs, nil
}

func runMixed(c *eng.Ctx, mc mixedCase) {
	rc := mc.Ring
	n := 1 << rc.LogN
	r, err := newRing(rc)
	if err != nil {
		c.Inconclusive("ring: " + err.Error())
		return
	}
	rnd := c.Rand()
	key := make([]byte, 1+rnd.N(64))
	rnd.Read(key)
	script, depth := genMixed(rnd, r.MaxLevel(), len(mc.Dists), mc.Steps)
	c.Sample(map[string]any{"case": mc, "script": script})
	var recs [3][]outRec
	var cnt *countingPRNG
	for k := 0; k < 3; k++ {
		kp, err := sampling.NewKeyedPRNG(key)
		if err != nil {
			c.Violate("C17|KeyedPRNG|constructor-error", err.Error(), mc)
			return
		}
		var prng sampling.PRNG = kp
		if k == 0 {
			cnt = &countingPRNG{in: kp}
			prng = cnt
		}
		kk := k
		var xerr error
		if !c.Try("C17|shared-generator", func() { recs[kk], xerr = execMixed(prng, r, mc, script, "mfill:"+c.CaseID, kk == 2) }) {
			return
		}
		if xerr != nil {
			c.Violate("C17|shared-generator|constructor-error", xerr.Error(), mc)
			return
		}
	}
	c.Count("mixed_generator_bytes", cnt.bytes)
	c.Count("mixed_generator_reads", cnt.reads)
	mods := rc.Moduli
	crts := make([]map[int]*ref.CRT, len(mc.Dists))
	for i := range crts {
		crts[i] = map[int]*ref.CRT{}
	}
	det := &reuseDet{seen: map[uint64]bool{}}
	kindsSeen := map[string]bool{}
	for i, st := range script {
		dc := mc.Dists[st.Samp]
		pre := "C17|" + dc.name()
		d := depth[st.View]
		if st.Op == "at" {
			c.Distinct(fmt.Sprintf("mixed/%s/%s/%d/%d/at/%d/%s", dc.Kind, dc.Tag, rc.LogN, len(mods), min(d+1, 2), lvlClass(st.Level, r.MaxLevel())), true)
			continue
		}
		kindsSeen[dc.Kind] = true
		opName := map[string]string{"read": "Read", "new": "ReadNew", "raa": "ReadAndAdd"}[st.Op]
		c.Distinct(fmt.Sprintf("mixed/%s/%s/%v/%d/%d/%s/%d/%s", dc.Kind, dc.Tag, dc.Mont, rc.LogN, len(mods), st.Op, min(d, 2), lvlClass(st.Level, r.MaxLevel())), true)
		c.Count("mixed_steps_"+dc.Kind, 1)
		o1, o2, e := recs[0][i], recs[1][i], recs[2][i]
		lvl := st.Level
		where := func() string {
			return fmt.Sprintf("%s %s mont=%v on a generator shared with %d other samplers, N=%d moduli=%v step %d %+v (view depth %d)", dc.name(), dc.Tag, dc.Mont, len(mc.Dists)-1, n, mods, i, st, d)
		}
		c.Check(samePoly(o1.pol, o2.pol), pre+"."+opName+"|not-reproducible|shared-generator", where)
		if st.Op == "new" {
			if !c.Check(len(o1.pol.Coeffs) == lvl+1, pre+".ReadNew|wrong-level", where) {
				continue
			}
		} else {
			okRows := true
			for k := lvl + 1; k < len(o1.pol.Coeffs); k++ {
				for j := 0; j < n; j++ {
					if o1.pol.Coeffs[k][j] != o1.prior.Coeffs[k][j] {
						okRows = false
					}
				}
			}
			c.Check(okRows, pre+"."+opName+"|wrote-above-level", where)
		}
		sc := scriptCase{Ring: rc, Dist: dc, Steps: mc.Steps, Fill: mc.Fill}
		sst := step{Op: st.Op, View: st.View, Level: st.Level, Full: st.Full}
		switch dc.Kind {
		case "uniform":
			bad := false
			for k := 0; k <= lvl; k++ {
				for j := 0; j < n; j++ {
					if e.pol.Coeffs[k][j] >= mods[k] {
						bad = true
					}
				}
				if det.add(e.pol.Coeffs[k], mods[k]) {
					c.Violate(pre+"|randomness-reuse", where()+fmt.Sprintf(": a window of row %d repeats residues produced earlier in the script", k), mc)
					break
				}
			}
			c.Check(!bad, pre+"|out-of-range", where)
		case "gauss":
			Bp := dc.boundInt()
			negBp := new(big.Int).Neg(Bp)
			twoB1 := new(big.Int).Lsh(Bp, 1)
			twoB1.Add(twoB1, big.NewInt(1))
			checkGauss(c, sc, sst, e.pol, crts[st.Samp], Bp, negBp, twoB1, where)
		default:
			checkTernary(c, sc, sst, e.pol, where)
		}
		// result = previous content (ReadAndAdd) + M(fresh sample of the plain replay)
		mism := -1
		for k := 0; k <= lvl && mism < 0; k++ {
			q := mods[k]
			for j := 0; j < n; j++ {
				ev := e.pol.Coeffs[k][j] % q
				if dc.Mont {
					ev = mformRef(ev, q)
				}
				var base uint64
				if st.Op == "raa" {
					base = o1.prior.Coeffs[k][j]
				}
				got := o1.pol.Coeffs[k][j]
				zeroAsQ := got == q && dc.Kind == "gauss" && !dc.Mont && st.Op != "raa"
				if got%q != ref.AddMod(base, ev, q) || (got >= q && !zeroAsQ) {
					mism = k*n + j
					break
				}
			}
		}
		c.Eval(1)
		if mism >= 0 {
			k, j := mism/n, mism%n
			detail := fmt.Sprintf("%s: row %d idx %d got %d, prior %d, fresh sample (plain replay) %d, q=%d", where(), k, j, o1.pol.Coeffs[k][j], priorAt(o1, k, j), e.pol.Coeffs[k][j], mods[k])
			switch {
			case st.Op == "raa":
				c.Violate(pre+".ReadAndAdd|not-additive|shared-generator", detail, mc)
			case dc.Mont:
				c.Violate(pre+"."+opName+"|montgomery-mismatch|shared-generator", detail, mc)
			default:
				c.Violate(pre+"."+opName+"|not-reproducible|shared-generator", detail, mc)
			}
		}
	}
	if len(kindsSeen) == len(mc.Dists) {
		c.Count("mixed_scripts_with_all_kinds", 1)
	}
	// WithPRNG on a level view that has already drawn: a new sampler on the new generator, at the level of the view
	c.Try("C17|UniformSampler.WithPRNG", func() {
		l := rnd.N(r.MaxLevel() + 1)
		pa, _ := sampling.NewKeyedPRNG(key)
		g1, _ := sampling.NewKeyedPRNG(append([]byte("w"), key...)[:min(len(key)+1, 64)])
		g2, _ := sampling.NewKeyedPRNG(g1.Key())
		base := ring.NewUniformSampler(pa, r)
		base.ReadNew()
		v := base.AtLevel(l).(*ring.UniformSampler)
		v.ReadNew()
		w, f := v.WithPRNG(g1), ring.NewUniformSampler(g2, r.AtLevel(l))
		a1, b1 := w.ReadNew(), f.ReadNew()
		a2, b2 := w.AtLevel(0).ReadNew(), f.AtLevel(0).ReadNew()
		c.Check(samePoly(a1, b1) && samePoly(a2, b2) && len(a1.Coeffs) == l+1, "C17|UniformSampler.WithPRNG|differs-from-new-sampler-on-same-generator|level-view", func() string {
			return fmt.Sprintf("N=%d moduli=%v: sampler derived by WithPRNG from a view at level %d", n, mods, l)
		})
	})
}
