package c10

// blindrot.Evaluator: it embeds *rgsw.Evaluator and rebinds it with WithKey on every call of
// BlindRotateCore (core/rgsw/blindrot/evaluator.go). It offers no constructor of its own besides the
// promoted ones; what the property says about it:
//
//   - evaluators built from the same parameters and sharing one blind-rotation key set (documented
//     "must be safe for concurrent use"), one LWE ciphertext and one test polynomial give the same
//     results, sequentially and from parallel goroutines, and write nothing that they share;
//   - the rgsw.Evaluator that the blind rotation left behind (a WithKey result) can be shallow-copied
//     and the copy works with the keys that were bound.

import (
	"fmt"
	"sort"

	"github.com/tuneinsight/lattigo/v6/core/rgsw"
	"github.com/tuneinsight/lattigo/v6/core/rgsw/blindrot"
	"github.com/tuneinsight/lattigo/v6/core/rlwe"
	"github.com/tuneinsight/lattigo/v6/ring"
	"github.com/tuneinsight/lattigo/v6/utils"
)

type brEnv struct {
	ps, pl     pset
	pBR, pLWE  rlwe.Parameters
	skBR       *rlwe.SecretKey
	brk        blindrot.MemBlindRotationEvaluationKeySet
	ct         *rlwe.Ciphertext
	tp         ring.Poly
	tpMap      map[int]*ring.Poly
	tpMapOne   map[int]*ring.Poly
	acc        *rlwe.Ciphertext // deterministic input of the rgsw workload
	autGalEls  []uint64
	evkSetKeys *rlwe.MemEvaluationKeySet
}

func newBREnv(ps pset, pl *pset) (*brEnv, error) {
	if pl == nil {
		return nil, fmt.Errorf("blindrot: no LWE parameters")
	}
	e := &brEnv{ps: ps, pl: *pl}
	var err error
	if e.pBR, err = rlwe.NewParametersFromLiteral(rlwe.ParametersLiteral{LogN: ps.LogN, Q: ps.Q, P: ps.P, NTTFlag: true}); err != nil {
		return nil, err
	}
	if e.pLWE, err = rlwe.NewParametersFromLiteral(rlwe.ParametersLiteral{LogN: pl.LogN, Q: pl.Q, NTTFlag: true}); err != nil {
		return nil, err
	}
	skLWE := rlwe.NewKeyGenerator(e.pLWE).GenSecretKeyNew()
	e.skBR = rlwe.NewKeyGenerator(e.pBR).GenSecretKeyNew()
	var evkPs []rlwe.EvaluationKeyParameters
	if ps.Pow2 > 0 {
		evkPs = []rlwe.EvaluationKeyParameters{{BaseTwoDecomposition: utils.Pointy(ps.Pow2)}}
	}
	e.brk = blindrot.GenEvaluationKeyNew(e.pBR, e.skBR, e.pLWE, skLWE, evkPs...)
	sign := func(x float64) float64 {
		switch {
		case x > 0:
			return 1
		case x < 0:
			return -1
		}
		return 0
	}
	qBR, qLWE := float64(e.pBR.Q()[0]), float64(e.pLWE.Q()[0])
	e.tp = blindrot.InitTestPolynomial(sign, rlwe.NewScale(qBR/4), e.pBR.RingQ(), -1, 1)
	slots := 3
	e.tpMap, e.tpMapOne = map[int]*ring.Poly{}, map[int]*ring.Poly{0: &e.tp}
	pt := rlwe.NewPlaintext(e.pLWE, 0)
	for i := 0; i < slots; i++ {
		e.tpMap[i*2] = &e.tp
		v := -0.75 + 0.6*float64(i)
		if v < 0 {
			pt.Value.Coeffs[0][i*2] = e.pLWE.Q()[0] - uint64(-v*qLWE/4)
		} else {
			pt.Value.Coeffs[0][i*2] = uint64(v * qLWE / 4)
		}
	}
	e.pLWE.RingQ().NTT(pt.Value, pt.Value)
	if e.ct, err = rlwe.NewEncryptor(e.pLWE, skLWE).EncryptNew(pt); err != nil {
		return nil, err
	}
	e.acc = rlwe.NewCiphertext(e.pBR, 1, e.pBR.MaxLevel())
	for i := range e.acc.Value {
		fillPoly(e.pBR.RingQ(), e.acc.Value[i], uint64(500+i))
	}
	for _, gk := range e.brk.AutomorphismKeys {
		e.autGalEls = append(e.autGalEls, gk.GaloisElement)
	}
	e.evkSetKeys = rlwe.NewMemEvaluationKeySet(nil, e.brk.AutomorphismKeys...)
	return e, nil
}

func (e *brEnv) digestRes(res map[int]*rlwe.Ciphertext) string {
	keys := make([]int, 0, len(res))
	for k := range res {
		keys = append(keys, k)
	}
	sort.Ints(keys)
	s := ""
	for _, k := range keys {
		s += fmt.Sprintf("%d:%s;", k, digestCt(e.pBR.RingQ(), res[k]))
	}
	return digestAny(s)
}

// rgswOps: the operations of the embedded rgsw evaluator with the keys of the blind rotation.
func (e *brEnv) rgswOps(ev *rgsw.Evaluator, o *outs) {
	rq := e.pBR.RingQ()
	for gi, g := range e.autGalEls {
		if gi >= 2 && gi != len(e.autGalEls)-1 {
			continue
		}
		out := rlwe.NewCiphertext(e.pBR, 1, e.pBR.MaxLevel())
		if err := ev.Automorphism(e.acc, g, out); err != nil {
			o.add(fmt.Sprintf("Automorphism/g%d", gi), "error")
		} else {
			o.add(fmt.Sprintf("Automorphism/g%d", gi), digestCt(rq, out))
		}
	}
	out := rlwe.NewCiphertext(e.pBR, 1, e.pBR.MaxLevel())
	*out.MetaData = *e.acc.MetaData
	ev.ExternalProduct(e.acc, e.brk.BlindRotationKeys[0], out)
	o.add("ExternalProduct", digestCt(rq, out))
	in := e.acc.CopyNew()
	ev.ExternalProduct(in, e.brk.BlindRotationKeys[1], in)
	o.add("ExternalProduct/inplace", digestCt(rq, in))
}

func (e *brEnv) subjects() (subs []*subject) {
	tag := e.ps.Name + "+" + e.pl.Name
	work := func(x any) (o outs) {
		ev := x.(*blindrot.Evaluator)
		// (the workload ends on the larger evaluation: whatever state an evaluation leaves behind
		// differs from the state of a fresh evaluator when the workload is run again)
		res, err := ev.Evaluate(e.ct, e.tpMapOne, e.brk)
		if err != nil {
			o.add("Evaluate/one-slot", "error")
		} else {
			o.add("Evaluate/one-slot", "%d %s", len(res), e.digestRes(res))
		}
		// the embedded evaluator is now bound to the automorphism keys of the key set
		e.rgswOps(ev.Evaluator, &o)
		res, err = ev.Evaluate(e.ct, e.tpMap, e.brk)
		if err != nil {
			o.add("Evaluate", "error")
		} else {
			o.add("Evaluate", "%d %s", len(res), e.digestRes(res))
		}
		return
	}
	scratch := []string{"*.Evaluator*.Evaluator.EvaluatorBuffers", "*.Evaluator*.Evaluator.BasisExtender*.buffQ", "*.Evaluator*.Evaluator.BasisExtender*.buffP", "*.poolMod2N", "*.accumulator"}
	subs = append(subs, &subject{Ctor: "blindrot.NewEvaluator", Cfg: tag + "/sibling-sharing-keys", Safe: true, Scratch: scratch,
		Rebound: []string{"*.Evaluator*.Evaluator.EvaluationKeySet", "*.Evaluator*.Evaluator.automorphismIndex"},
		Make:    func() any { return blindrot.NewEvaluator(e.pBR, e.pLWE) },
		Copy:    func(o any) any { return blindrot.NewEvaluator(e.pBR, e.pLWE) }, Work: work})
	rscratch := []string{"*.Evaluator.EvaluatorBuffers", "*.Evaluator.BasisExtender*.buffQ", "*.Evaluator.BasisExtender*.buffP"}
	subs = append(subs, &subject{Ctor: "rgsw.Evaluator.ShallowCopy", Cfg: tag + "/of-blindrot-WithKey", Safe: true, Scratch: rscratch,
		Make: func() any {
			ev := blindrot.NewEvaluator(e.pBR, e.pLWE)
			if _, err := ev.Evaluate(e.ct, e.tpMapOne, e.brk); err != nil {
				panic(err)
			}
			return ev.Evaluator
		},
		Copy: func(o any) any { return o.(*rgsw.Evaluator).ShallowCopy() },
		Work: func(x any) (o outs) { e.rgswOps(x.(*rgsw.Evaluator), &o); return }})
	subs = append(subs, &subject{Ctor: "rgsw.Evaluator.WithKey", Cfg: tag + "/of-blindrot-WithKey->same-keys", Scratch: rscratch,
		Rebound: []string{"*.Evaluator.EvaluationKeySet", "*.Evaluator.automorphismIndex"},
		Make: func() any {
			ev := blindrot.NewEvaluator(e.pBR, e.pLWE)
			if _, err := ev.Evaluate(e.ct, e.tpMapOne, e.brk); err != nil {
				panic(err)
			}
			return ev.Evaluator
		},
		Copy: func(o any) any { return o.(*rgsw.Evaluator).WithKey(e.evkSetKeys) },
		Work: func(x any) (o outs) { e.rgswOps(x.(*rgsw.Evaluator), &o); return },
		Ref: func() outs {
			var o outs
			e.rgswOps(rgsw.NewEvaluator(e.pBR, e.evkSetKeys), &o)
			return o
		}})
	return
}
