package c10

// Scheme layer: bgv.Encoder.ShallowCopy, bgv.Evaluator.ShallowCopy / WithKey (BGV and BFV mode),
// ckks.Encoder.ShallowCopy (float64 and arbitrary precision), ckks.Evaluator.ShallowCopy / WithKey.

import (
	"fmt"
	"math/big"

	"github.com/tuneinsight/lattigo/v6/core/rlwe"
	"github.com/tuneinsight/lattigo/v6/ring"
	"github.com/tuneinsight/lattigo/v6/schemes/bgv"
	"github.com/tuneinsight/lattigo/v6/schemes/ckks"
	"github.com/tuneinsight/lattigo/v6/utils"
	"github.com/tuneinsight/lattigo/v6/utils/bignum"
)

// ---------------------------------------------------------------------------------------------
// bgv

type bgvEnv struct {
	ps         pset
	p          bgv.Parameters
	kgen       *rlwe.KeyGenerator
	sk, sk2    *rlwe.SecretKey
	evk, evk2  *rlwe.MemEvaluationKeySet
	enc        *rlwe.Encryptor
	ctA, ctB   *rlwe.Ciphertext
	ctLo       *rlwe.Ciphertext
	ptA        *rlwe.Plaintext
	vals, val2 []uint64
	rots       []int
}

func detVals(n int, t uint64, seed uint64) []uint64 {
	v := make([]uint64, n)
	s := seed*0x9E3779B97F4A7C15 | 1
	for i := range v {
		s ^= s << 13
		s ^= s >> 7
		s ^= s << 17
		v[i] = s % t
	}
	return v
}

func newBGVEnv(ps pset) (*bgvEnv, error) {
	p, err := bgv.NewParametersFromLiteral(bgv.ParametersLiteral{LogN: ps.LogN, Q: ps.Q, P: ps.P, PlaintextModulus: ps.T})
	if err != nil {
		return nil, err
	}
	e := &bgvEnv{ps: ps, p: p}
	e.kgen = rlwe.NewKeyGenerator(p)
	e.sk = e.kgen.GenSecretKeyNew()
	e.sk2 = e.kgen.GenSecretKeyNew()
	var evkPs []rlwe.EvaluationKeyParameters
	if ps.Pow2 > 0 {
		evkPs = []rlwe.EvaluationKeyParameters{{BaseTwoDecomposition: utils.Pointy(ps.Pow2)}}
	}
	e.rots = []int{1, 2}
	gs := p.GaloisElements(e.rots)
	gs = append(gs, p.GaloisElementForRowRotation())
	mk := func(sk *rlwe.SecretKey) *rlwe.MemEvaluationKeySet {
		var gks []*rlwe.GaloisKey
		for _, g := range gs {
			gks = append(gks, e.kgen.GenGaloisKeyNew(g, sk, evkPs...))
		}
		return rlwe.NewMemEvaluationKeySet(e.kgen.GenRelinearizationKeyNew(sk, evkPs...), gks...)
	}
	e.evk, e.evk2 = mk(e.sk), mk(e.sk2)
	e.enc = rlwe.NewEncryptor(p, e.sk)
	ecd := bgv.NewEncoder(p)
	e.vals = detVals(p.MaxSlots(), p.PlaintextModulus(), 1)
	e.val2 = detVals(p.MaxSlots(), p.PlaintextModulus(), 2)
	mkct := func(v []uint64, level int, scale uint64) *rlwe.Ciphertext {
		pt := bgv.NewPlaintext(p, level)
		pt.Scale = p.NewScale(scale)
		if err := ecd.Encode(v, pt); err != nil {
			panic(err)
		}
		ct, err := e.enc.EncryptNew(pt)
		if err != nil {
			panic(err)
		}
		return ct
	}
	e.ctA = mkct(e.vals, p.MaxLevel(), 1)
	e.ctB = mkct(e.val2, p.MaxLevel(), 3)
	e.ctLo = mkct(e.val2, 0, 1)
	e.ptA = bgv.NewPlaintext(p, p.MaxLevel())
	if err := ecd.Encode(e.val2, e.ptA); err != nil {
		return nil, err
	}
	return e, nil
}

func (e *bgvEnv) encoderWork(x any) (o outs) {
	ecd := x.(*bgv.Encoder)
	p := e.p
	rq := p.RingQ()
	t := p.PlaintextModulus()
	ivals := make([]int64, len(e.vals))
	for i, v := range e.vals {
		ivals[i] = int64(v) - int64(t/2)
	}
	for _, lvl := range []int{p.MaxLevel(), 0} {
		for _, batched := range []bool{true, false} {
			tag := fmt.Sprintf("/l%d/b%v", lvl, batched)
			pt := bgv.NewPlaintext(p, lvl)
			pt.IsBatched = batched
			pt.Scale = p.NewScale(5)
			var in any = e.vals
			if !batched {
				in = e.vals[:utils.Min(len(e.vals), p.N())]
			}
			if err := ecd.Encode(in, pt); err != nil {
				o.add("Encode"+tag, "error")
				continue
			}
			o.add("Encode"+tag, digestPt(rq, pt))
			pti := bgv.NewPlaintext(p, lvl)
			pti.IsBatched = batched
			if err := ecd.Encode(ivals, pti); err != nil {
				o.add("Encode/int64"+tag, "error")
			} else {
				o.add("Encode/int64"+tag, digestPt(rq, pti))
			}
			got := make([]uint64, len(e.vals))
			if err := ecd.Decode(pt, got); err != nil {
				o.add("Decode"+tag, "error")
			} else {
				o.add("Decode"+tag, "%s roundtrip=%v", digestAny(got), fmt.Sprint(got) == fmt.Sprint(e.vals))
			}
			goti := make([]int64, len(e.vals))
			if err := ecd.Decode(pti, goti); err != nil {
				o.add("Decode/int64"+tag, "error")
			} else {
				o.add("Decode/int64"+tag, digestAny(goti))
			}
		}
	}
	// plaintext-ring helpers
	rt := p.RingT()
	pT := rt.NewPoly()
	if err := ecd.EncodeRingT(e.vals, p.NewScale(3), pT); err != nil {
		o.add("EncodeRingT", "error")
	} else {
		o.add("EncodeRingT", digestPoly(rt, pT))
	}
	pQ := rq.NewPoly()
	ecd.RingT2Q(p.MaxLevel(), true, pT, pQ)
	o.add("RingT2Q", digestPoly(rq, pQ))
	back := rt.NewPoly()
	ecd.RingQ2T(p.MaxLevel(), true, pQ, back)
	o.add("RingQ2T", digestPoly(rt, back))
	dv := make([]uint64, len(e.vals))
	if err := ecd.DecodeRingT(back, p.NewScale(3), dv); err != nil {
		o.add("DecodeRingT", "error")
	} else {
		o.add("DecodeRingT", digestAny(dv))
	}
	return
}

func (e *bgvEnv) evalWork(x any) (o outs) {
	ev := x.(*bgv.Evaluator)
	p := e.p
	rq := p.RingQ()
	L := p.MaxLevel()
	rec := func(op string, err error, ct *rlwe.Ciphertext) {
		if err != nil {
			o.add(op, "error")
			return
		}
		o.add(op, digestCt(rq, ct))
	}
	o.add("mode", "%v", ev.ScaleInvariant)
	nc := func(deg int) *rlwe.Ciphertext { return bgv.NewCiphertext(p, deg, L) }
	out := nc(1)
	rec("Add/ct", ev.Add(e.ctA, e.ctB, out), out)
	out = nc(1)
	rec("Add/pt", ev.Add(e.ctA, e.ptA, out), out)
	out = nc(1)
	rec("Add/vec", ev.Add(e.ctA, e.val2, out), out)
	out = nc(1)
	rec("Add/scalar", ev.Add(e.ctA, uint64(12345), out), out)
	out = nc(1)
	rec("Sub/ct", ev.Sub(e.ctA, e.ctB, out), out)
	out = nc(2)
	rec("Mul/ct", ev.Mul(e.ctA, e.ctB, out), out)
	if out.Degree() == 2 {
		r2 := nc(1)
		rec("Relinearize", ev.Relinearize(out, r2), r2)
	}
	out = nc(1)
	rec("Mul/pt", ev.Mul(e.ctA, e.ptA, out), out)
	out = nc(1)
	rec("Mul/vec", ev.Mul(e.ctA, e.val2, out), out)
	out = nc(1)
	rec("Mul/bigint", ev.Mul(e.ctA, big.NewInt(-77), out), out)
	out = nc(1)
	err := ev.MulRelin(e.ctA, e.ctB, out)
	rec("MulRelin/ct", err, out)
	if err == nil && L > 0 {
		r := nc(1)
		rec("Rescale", ev.Rescale(out, r), r)
	}
	acc := e.ctB.CopyNew()
	rec("MulThenAdd/ct", ev.MulThenAdd(e.ctA, e.ctA, acc), acc)
	acc = e.ctB.CopyNew()
	rec("MulRelinThenAdd/ct", ev.MulRelinThenAdd(e.ctA, e.ctA, acc), acc)
	acc = e.ctB.CopyNew()
	rec("MulThenAdd/vec", ev.MulThenAdd(e.ctA, e.val2, acc), acc)
	out = nc(1)
	rec("RotateColumns", ev.RotateColumns(e.ctA, 1, out), out)
	out = nc(1)
	rec("RotateRows", ev.RotateRows(e.ctA, out), out)
	lo := bgv.NewCiphertext(p, 1, 0)
	rec("Add/level0", ev.Add(e.ctLo, e.ctA, lo), lo)
	lo = bgv.NewCiphertext(p, 1, 0)
	rec("MulRelin/level0", ev.MulRelin(e.ctLo, e.ctA, lo), lo)
	// the encoder embedded in the evaluator
	pt := bgv.NewPlaintext(p, L)
	if err := ev.Encode(e.vals, pt); err != nil {
		o.add("Encode", "error")
	} else {
		o.add("Encode", digestPt(rq, pt))
	}
	return
}

var bgvEncScratch = []string{"*.bufQ", "*.bufT", "*.bufB"}
var bgvEvalScratch = []string{"*.evaluatorBuffers", "*.Evaluator*.EvaluatorBuffers", "*.Evaluator*.BasisExtender*.buffQ", "*.Evaluator*.BasisExtender*.buffP",
	"*.Encoder*.bufQ", "*.Encoder*.bufT", "*.Encoder*.bufB", "*.evaluatorBase*.basisExtenderQ1toQ2*.buffQ", "*.evaluatorBase*.basisExtenderQ1toQ2*.buffP"}

func (e *bgvEnv) subjects() (subs []*subject) {
	tag := e.ps.Name
	subs = append(subs, &subject{Ctor: "bgv.Encoder.ShallowCopy", Cfg: tag, Safe: true, Scratch: bgvEncScratch,
		Make: func() any { return bgv.NewEncoder(e.p) }, Copy: func(o any) any { return o.(*bgv.Encoder).ShallowCopy() }, Work: e.encoderWork})
	for _, inv := range []bool{false, true} {
		inv := inv
		mode := map[bool]string{false: "bgv", true: "bfv"}[inv]
		for _, kc := range []string{"full", "nil"} {
			kc := kc
			mk := func() any {
				if kc == "nil" {
					return bgv.NewEvaluator(e.p, nil, inv)
				}
				return bgv.NewEvaluator(e.p, e.evk, inv)
			}
			subs = append(subs, &subject{Ctor: "bgv.Evaluator.ShallowCopy", Cfg: tag + "/" + mode + "/" + kc, Safe: true, Scratch: bgvEvalScratch,
				Make: mk, Copy: func(o any) any { return o.(*bgv.Evaluator).ShallowCopy() }, Work: e.evalWork})
			subs = append(subs, &subject{Ctor: "bgv.Evaluator.WithKey", Cfg: tag + "/" + mode + "/" + kc + "->full2", Scratch: bgvEvalScratch,
				Rebound: []string{"*.Evaluator*.EvaluationKeySet", "*.Evaluator*.automorphismIndex"},
				Make:    mk, Copy: func(o any) any { return o.(*bgv.Evaluator).WithKey(e.evk2) }, Work: e.evalWork,
				Ref: func() outs { return e.evalWork(bgv.NewEvaluator(e.p, e.evk2, inv)) }})
		}
		// chains: what the first constructor set (keys, mode) survives the second one
		subs = append(subs, &subject{Ctor: "bgv.Evaluator.ShallowCopy", Cfg: tag + "/" + mode + "/of-WithKey(full->full2)", Safe: true, Scratch: bgvEvalScratch,
			Make: func() any { return bgv.NewEvaluator(e.p, e.evk, inv).WithKey(e.evk2) },
			Copy: func(o any) any { return o.(*bgv.Evaluator).ShallowCopy() }, Work: e.evalWork})
		subs = append(subs, &subject{Ctor: "bgv.Evaluator.WithKey", Cfg: tag + "/" + mode + "/of-ShallowCopy(nil)->full2", Scratch: bgvEvalScratch,
			Rebound: []string{"*.Evaluator*.EvaluationKeySet", "*.Evaluator*.automorphismIndex"},
			Make:    func() any { return bgv.NewEvaluator(e.p, nil, inv).ShallowCopy() },
			Copy:    func(o any) any { return o.(*bgv.Evaluator).WithKey(e.evk2) }, Work: e.evalWork,
			Ref: func() outs { return e.evalWork(bgv.NewEvaluator(e.p, e.evk2, inv)) }})
	}
	return
}

// ---------------------------------------------------------------------------------------------
// ckks

type ckksEnv struct {
	ps        pset
	p         ckks.Parameters
	kgen      *rlwe.KeyGenerator
	sk, sk2   *rlwe.SecretKey
	evk, evk2 *rlwe.MemEvaluationKeySet
	ctA, ctB  *rlwe.Ciphertext
	ptA       *rlwe.Plaintext
	vals      []complex128
}

func newCKKSEnv(ps pset) (*ckksEnv, error) {
	p, err := ckks.NewParametersFromLiteral(ckks.ParametersLiteral{LogN: ps.LogN, Q: ps.Q, P: ps.P, LogDefaultScale: ps.LogScale, RingType: ps.ringType()})
	if err != nil {
		return nil, err
	}
	e := &ckksEnv{ps: ps, p: p}
	e.kgen = rlwe.NewKeyGenerator(p)
	e.sk = e.kgen.GenSecretKeyNew()
	e.sk2 = e.kgen.GenSecretKeyNew()
	var evkPs []rlwe.EvaluationKeyParameters
	if ps.Pow2 > 0 {
		evkPs = []rlwe.EvaluationKeyParameters{{BaseTwoDecomposition: utils.Pointy(ps.Pow2)}}
	}
	gs := p.GaloisElements([]int{1, 2})
	if p.RingType() == ring.Standard {
		gs = append(gs, p.GaloisElementForComplexConjugation())
	}
	mk := func(sk *rlwe.SecretKey) *rlwe.MemEvaluationKeySet {
		var gks []*rlwe.GaloisKey
		for _, g := range gs {
			gks = append(gks, e.kgen.GenGaloisKeyNew(g, sk, evkPs...))
		}
		return rlwe.NewMemEvaluationKeySet(e.kgen.GenRelinearizationKeyNew(sk, evkPs...), gks...)
	}
	e.evk, e.evk2 = mk(e.sk), mk(e.sk2)
	ecd := ckks.NewEncoder(p)
	n := p.MaxSlots()
	e.vals = make([]complex128, n)
	s := uint64(0x1234567)
	for i := range e.vals {
		s ^= s << 13
		s ^= s >> 7
		s ^= s << 17
		re := float64(int64(s%2001)-1000) / 1000
		im := float64(int64((s>>20)%2001)-1000) / 1000
		if p.RingType() == ring.ConjugateInvariant {
			im = 0
		}
		e.vals[i] = complex(re, im)
	}
	enc := rlwe.NewEncryptor(p, e.sk)
	mkct := func(shift int) *rlwe.Ciphertext {
		pt := ckks.NewPlaintext(p, p.MaxLevel())
		v := make([]complex128, n)
		for i := range v {
			v[i] = e.vals[(i+shift)%n]
		}
		if err := ecd.Encode(v, pt); err != nil {
			panic(err)
		}
		ct, err := enc.EncryptNew(pt)
		if err != nil {
			panic(err)
		}
		return ct
	}
	e.ctA, e.ctB = mkct(0), mkct(3)
	e.ptA = ckks.NewPlaintext(p, p.MaxLevel())
	if err := ecd.Encode(e.vals, e.ptA); err != nil {
		return nil, err
	}
	return e, nil
}

func (e *ckksEnv) encoderWork(prec uint) func(x any) outs {
	return func(x any) (o outs) {
		ecd := x.(*ckks.Encoder)
		p := e.p
		rq := p.RingQ()
		o.add("Prec", "%d", ecd.Prec())
		fl := make([]float64, len(e.vals))
		bc := make([]*bignum.Complex, len(e.vals))
		for i, v := range e.vals {
			fl[i] = real(v)
			bc[i] = &bignum.Complex{new(big.Float).SetPrec(prec + 10).SetFloat64(real(v)), new(big.Float).SetPrec(prec + 10).SetFloat64(imag(v))}
		}
		for _, lvl := range []int{p.MaxLevel(), 0} {
			for _, logSlots := range []int{p.LogMaxSlots(), 2} {
				tag := fmt.Sprintf("/l%d/s%d", lvl, logSlots)
				pt := ckks.NewPlaintext(p, lvl)
				pt.LogDimensions.Cols = logSlots
				in := e.vals[:1<<logSlots]
				if err := ecd.Encode(in, pt); err != nil {
					o.add("Encode/c128"+tag, "error")
					continue
				}
				o.add("Encode/c128"+tag, digestPt(rq, pt))
				ptb := ckks.NewPlaintext(p, lvl)
				ptb.LogDimensions.Cols = logSlots
				if err := ecd.Encode(bc[:1<<logSlots], ptb); err != nil {
					o.add("Encode/big"+tag, "error")
				} else {
					o.add("Encode/big"+tag, digestPt(rq, ptb))
				}
				got := make([]complex128, 1<<logSlots)
				if err := ecd.Decode(pt, got); err != nil {
					o.add("Decode/c128"+tag, "error")
				} else {
					o.add("Decode/c128"+tag, digestAny(got))
				}
				gotf := make([]float64, 1<<logSlots)
				if err := ecd.Decode(pt, gotf); err != nil {
					o.add("Decode/f64"+tag, "error")
				} else {
					o.add("Decode/f64"+tag, digestAny(gotf))
				}
				gotb := make([]*bignum.Complex, 1<<logSlots)
				if err := ecd.Decode(pt, gotb); err != nil {
					o.add("Decode/big"+tag, "error")
				} else {
					s := ""
					for _, c := range gotb {
						s += c[0].Text('p', 0) + "," + c[1].Text('p', 0) + ";"
					}
					o.add("Decode/big"+tag, digestAny(s))
				}
				if err := ecd.DecodePublic(pt, got, 20); err != nil {
					o.add("DecodePublic"+tag, "error")
				} else {
					o.add("DecodePublic"+tag, digestAny(got))
				}
			}
			// coefficient-domain encoding
			ptc := ckks.NewPlaintext(p, lvl)
			ptc.IsBatched = false
			if err := ecd.Encode(fl, ptc); err != nil {
				o.add(fmt.Sprintf("Encode/coeffs/l%d", lvl), "error")
			} else {
				o.add(fmt.Sprintf("Encode/coeffs/l%d", lvl), digestPt(rq, ptc))
				gf := make([]float64, len(fl))
				if err := ecd.Decode(ptc, gf); err != nil {
					o.add(fmt.Sprintf("Decode/coeffs/l%d", lvl), "error")
				} else {
					o.add(fmt.Sprintf("Decode/coeffs/l%d", lvl), digestAny(gf))
				}
			}
		}
		return
	}
}

func (e *ckksEnv) evalWork(x any) (o outs) {
	ev := x.(*ckks.Evaluator)
	p := e.p
	rq := p.RingQ()
	L := p.MaxLevel()
	rec := func(op string, err error, ct *rlwe.Ciphertext) {
		if err != nil {
			o.add(op, "error")
			return
		}
		o.add(op, digestCt(rq, ct))
	}
	nc := func(deg int) *rlwe.Ciphertext { return ckks.NewCiphertext(p, deg, L) }
	out := nc(1)
	rec("Add/ct", ev.Add(e.ctA, e.ctB, out), out)
	out = nc(1)
	rec("Add/pt", ev.Add(e.ctA, e.ptA, out), out)
	out = nc(1)
	rec("Add/scalar", ev.Add(e.ctA, complex(0.5, -0.25), out), out)
	out = nc(1)
	rec("Add/vec", ev.Add(e.ctA, e.vals, out), out)
	out = nc(1)
	rec("Sub/ct", ev.Sub(e.ctA, e.ctB, out), out)
	out = nc(2)
	rec("Mul/ct", ev.Mul(e.ctA, e.ctB, out), out)
	if out.Degree() == 2 {
		r2 := nc(1)
		rec("Relinearize", ev.Relinearize(out, r2), r2)
	}
	out = nc(1)
	rec("Mul/pt", ev.Mul(e.ctA, e.ptA, out), out)
	out = nc(1)
	rec("Mul/vec", ev.Mul(e.ctA, e.vals, out), out)
	out = nc(1)
	rec("Mul/scalar", ev.Mul(e.ctA, 1.5, out), out)
	out = nc(1)
	err := ev.MulRelin(e.ctA, e.ctB, out)
	rec("MulRelin/ct", err, out)
	if err == nil && L > 0 {
		r := nc(1)
		rec("Rescale", ev.Rescale(out, r), r)
	}
	acc := nc(2)
	acc.Scale = e.ctA.Scale.Mul(e.ctB.Scale)
	rec("MulThenAdd/ct", ev.MulThenAdd(e.ctA, e.ctB, acc), acc)
	acc = nc(1)
	acc.Scale = e.ctA.Scale.Mul(e.ctB.Scale)
	rec("MulRelinThenAdd/ct", ev.MulRelinThenAdd(e.ctA, e.ctB, acc), acc)
	out = nc(1)
	rec("Rotate", ev.Rotate(e.ctA, 1, out), out)
	if p.RingType() == ring.Standard {
		out = nc(1)
		rec("Conjugate", ev.Conjugate(e.ctA, out), out)
	}
	if p.PCount() > 0 && e.ps.Pow2 == 0 {
		m, err := ev.RotateHoistedNew(e.ctA, []int{1, 2})
		if err != nil {
			o.add("RotateHoistedNew", "error")
		} else {
			o.add("RotateHoistedNew", digestCt(rq, m[1])+" | "+digestCt(rq, m[2]))
		}
	}
	pt := ckks.NewPlaintext(p, L)
	if err := ev.Encode(e.vals, pt); err != nil {
		o.add("Encode", "error")
	} else {
		o.add("Encode", digestPt(rq, pt))
	}
	return
}

var ckksEncScratch = []string{"*.buff", "*.buffCmplx", "*.bigintCoeffs", "*.qHalf"}
var ckksEvalScratch = []string{"*.evaluatorBuffers", "*.Evaluator*.EvaluatorBuffers", "*.Evaluator*.BasisExtender*.buffQ", "*.Evaluator*.BasisExtender*.buffP",
	"*.Encoder*.buff", "*.Encoder*.buffCmplx", "*.Encoder*.bigintCoeffs", "*.Encoder*.qHalf"}

func (e *ckksEnv) subjects() (subs []*subject) {
	tag := e.ps.Name
	for _, prec := range []uint{0, 90} {
		prec := prec
		mk := func() any {
			if prec == 0 {
				return ckks.NewEncoder(e.p)
			}
			return ckks.NewEncoder(e.p, prec)
		}
		subs = append(subs, &subject{Ctor: "ckks.Encoder.ShallowCopy", Cfg: fmt.Sprintf("%s/prec%d", tag, prec), Safe: true, Scratch: ckksEncScratch,
			Make: mk, Copy: func(o any) any { return o.(*ckks.Encoder).ShallowCopy() }, Work: e.encoderWork(utils.Max(prec, 53))})
	}
	for _, kc := range []string{"full", "nil"} {
		kc := kc
		mk := func() any {
			if kc == "nil" {
				return ckks.NewEvaluator(e.p, nil)
			}
			return ckks.NewEvaluator(e.p, e.evk)
		}
		subs = append(subs, &subject{Ctor: "ckks.Evaluator.ShallowCopy", Cfg: tag + "/" + kc, Safe: true, Scratch: ckksEvalScratch,
			Make: mk, Copy: func(o any) any { return o.(*ckks.Evaluator).ShallowCopy() }, Work: e.evalWork})
		subs = append(subs, &subject{Ctor: "ckks.Evaluator.WithKey", Cfg: tag + "/" + kc + "->full2", Scratch: ckksEvalScratch,
			Rebound: []string{"*.Evaluator*.EvaluationKeySet", "*.Evaluator*.automorphismIndex"},
			Make:    mk, Copy: func(o any) any { return o.(*ckks.Evaluator).WithKey(e.evk2) }, Work: e.evalWork,
			Ref: func() outs { return e.evalWork(ckks.NewEvaluator(e.p, e.evk2)) }})
	}
	// chains
	subs = append(subs, &subject{Ctor: "ckks.Evaluator.ShallowCopy", Cfg: tag + "/of-WithKey(full->full2)", Safe: true, Scratch: ckksEvalScratch,
		Make: func() any { return ckks.NewEvaluator(e.p, e.evk).WithKey(e.evk2) },
		Copy: func(o any) any { return o.(*ckks.Evaluator).ShallowCopy() }, Work: e.evalWork})
	subs = append(subs, &subject{Ctor: "ckks.Evaluator.WithKey", Cfg: tag + "/of-ShallowCopy(nil)->full2", Scratch: ckksEvalScratch,
		Rebound: []string{"*.Evaluator*.EvaluationKeySet", "*.Evaluator*.automorphismIndex"},
		Make:    func() any { return ckks.NewEvaluator(e.p, nil).ShallowCopy() },
		Copy:    func(o any) any { return o.(*ckks.Evaluator).WithKey(e.evk2) }, Work: e.evalWork,
		Ref: func() outs { return e.evalWork(ckks.NewEvaluator(e.p, e.evk2)) }})
	return
}
