package c10

import (
	"fmt"
	"strings"

	"verif/harness/eng"
)

func runSubjects(c *eng.Ctx, cc caseCfg, subs []*subject) {
	names := map[string]bool{}
	for _, s := range subs {
		names[s.Ctor] = true
	}
	var l []string
	for n := range names {
		l = append(l, n)
	}
	c.Sample(map[string]any{"group": cc.Group, "params": cc.P.sample(), "constructors": l, "subjects": len(subs), "variant": cc.Var})
	for _, s := range subs {
		s := s
		c.Try(sigOf(s.Ctor, "run"), func() { runSubject(c, s) })
	}
}

// raceSubjects runs the concurrent driver on every non-deep subject of the list.
func raceSubjects(c *eng.Ctx, cc caseCfg, subs []*subject) {
	c.Sample(map[string]any{"group": cc.Group, "params": cc.P.sample(), "race": cc.Race, "subjects": len(subs), "variant": cc.Var})
	for _, s := range subs {
		s := s
		if s.Deep {
			continue
		}
		// quick tier: the chained-constructor subjects run concurrently on the fixed race parameter
		// sets only (every race case of the thorough tier runs them)
		if c.Tier != "thorough" && strings.HasPrefix(cc.P.Name, "rnd") && (strings.Contains(s.Cfg, "/of-") || strings.Contains(s.Cfg, "/then-")) {
			c.Count("race_chained_subjects_left_to_thorough", 1)
			continue
		}
		c.Try(sigOf(s.Ctor, "race-run"), func() { runConcurrent(c, s, *cc.Race) })
	}
}

func onlySafe(subs []*subject) (o []*subject) {
	for _, s := range subs {
		if s.Safe {
			o = append(o, s)
		}
	}
	return
}

func init() {
	regGroup(&groupDef{name: "ring",
		run: func(c *eng.Ctx, cc caseCfg) {
			subs, err := ringSubjects(cc.P)
			if err != nil {
				c.Inconclusive(err.Error())
				return
			}
			runSubjects(c, cc, subs)
		},
		race: func(c *eng.Ctx, cc caseCfg) {
			subs, err := ringSubjects(cc.P)
			if err != nil {
				c.Inconclusive(err.Error())
				return
			}
			raceSubjects(c, cc, onlySafe(subs))
		}})
	regGroup(&groupDef{name: "samplers", run: func(c *eng.Ctx, cc caseCfg) { runSamplers(c, cc.P) }})
	rl := func(f func(e *rlweEnv) []*subject, race bool) func(c *eng.Ctx, cc caseCfg) {
		return func(c *eng.Ctx, cc caseCfg) {
			e, err := newRLWEEnv(cc.P)
			if err != nil {
				c.Inconclusive(err.Error())
				return
			}
			if race {
				raceSubjects(c, cc, onlySafe(f(e)))
			} else {
				runSubjects(c, cc, f(e))
			}
		}
	}
	regGroup(&groupDef{name: "rlwe-encdec", run: rl((*rlweEnv).encDecSubjects, false), race: rl((*rlweEnv).encDecSubjects, true)})
	regGroup(&groupDef{name: "rlwe-eval",
		run: func(c *eng.Ctx, cc caseCfg) {
			rl((*rlweEnv).evalSubjects, false)(c, cc)
			e, err := newRLWEEnv(cc.P)
			if err != nil {
				return
			}
			if !e.p.NTTFlag() {
				return
			}
			c.Distinct("rlwe.Evaluator/late-key-on-empty-set/"+cc.P.Name, true)
			p, msg := e.lateKeyOnEmptySet()
			c.Check(!p, "C10|rlwe.Evaluator.Automorphism|panic|galois-key-added-after-construction-to-a-key-set-without-galois-keys", func() string {
				return fmt.Sprintf("NewEvaluator(params, ks) with ks holding no Galois key, then ks.GaloisKeys[g] = gk, then Automorphism(ct, g, out): %s", msg)
			})
		},
		race: func(c *eng.Ctx, cc caseCfg) {
			e, err := newRLWEEnv(cc.P)
			if err != nil {
				c.Inconclusive(err.Error())
				return
			}
			subs := e.evalSubjects()
			var keep []*subject
			for i, s := range subs {
				if i != e.lateCfg { // judged by its own case (rlwe-late)
					keep = append(keep, s)
				}
			}
			raceSubjects(c, cc, onlySafe(keep))
		}})
	regGroup(&groupDef{name: "rlwe-late",
		run: func(c *eng.Ctx, cc caseCfg) {},
		race: func(c *eng.Ctx, cc caseCfg) {
			e, err := newRLWEEnv(cc.P)
			if err != nil {
				c.Inconclusive(err.Error())
				return
			}
			raceSubjects(c, cc, []*subject{e.lateRaceSubject()})
		}})
	regGroup(&groupDef{name: "rlwe-deep", run: rl((*rlweEnv).deepSubjects, false)})
	bg := func(race bool) func(c *eng.Ctx, cc caseCfg) {
		return func(c *eng.Ctx, cc caseCfg) {
			e, err := newBGVEnv(cc.P)
			if err != nil {
				c.Inconclusive(err.Error())
				return
			}
			if race {
				raceSubjects(c, cc, onlySafe(e.subjects()))
			} else {
				runSubjects(c, cc, e.subjects())
			}
		}
	}
	regGroup(&groupDef{name: "bgv", run: bg(false), race: bg(true)})
	ck := func(race bool) func(c *eng.Ctx, cc caseCfg) {
		return func(c *eng.Ctx, cc caseCfg) {
			e, err := newCKKSEnv(cc.P)
			if err != nil {
				c.Inconclusive(err.Error())
				return
			}
			if race {
				raceSubjects(c, cc, onlySafe(e.subjects()))
			} else {
				runSubjects(c, cc, e.subjects())
			}
		}
	}
	regGroup(&groupDef{name: "ckks", run: ck(false), race: ck(true)})
	generic := func(name string, mk func(cc caseCfg) ([]*subject, error)) {
		regGroup(&groupDef{name: name,
			run: func(c *eng.Ctx, cc caseCfg) {
				subs, err := mk(cc)
				if err != nil {
					c.Inconclusive(err.Error())
					return
				}
				runSubjects(c, cc, subs)
			},
			race: func(c *eng.Ctx, cc caseCfg) {
				subs, err := mk(cc)
				if err != nil {
					c.Inconclusive(err.Error())
					return
				}
				raceSubjects(c, cc, onlySafe(subs))
			}})
	}
	generic("rgsw", func(cc caseCfg) ([]*subject, error) {
		e, err := newRGSWEnv(cc.P)
		if err != nil {
			return nil, err
		}
		return e.subjects(), nil
	})
	generic("ringpack", func(cc caseCfg) ([]*subject, error) {
		min, partial := cc.P.LogN-2, false
		switch cc.Var {
		case "min1":
			min = cc.P.LogN - 1
		case "partial":
			min, partial = cc.P.LogN-1, true
		}
		e, err := newRPackEnv(cc.P, min, partial)
		if err != nil {
			return nil, err
		}
		return e.subjects(), nil
	})
	parties := func(cc caseCfg) int {
		n := 3
		fmt.Sscanf(cc.Var, "n%d", &n)
		return n
	}
	generic("mp", func(cc caseCfg) ([]*subject, error) {
		e, err := newMPEnv(cc.P, parties(cc))
		if err != nil {
			return nil, err
		}
		return e.subjects(), nil
	})
	generic("mpbgv", func(cc caseCfg) ([]*subject, error) {
		e, err := newMPBGVEnv(cc.P, cc.Out, parties(cc))
		if err != nil {
			return nil, err
		}
		return e.subjects(), nil
	})
	regGroup(&groupDef{name: "btp",
		run: func(c *eng.Ctx, cc caseCfg) {
			e, err := newBTPEnv(btpCfgOf(cc))
			if err != nil {
				c.Inconclusive(err.Error())
				return
			}
			runSubjects(c, cc, e.subjects())
		},
		race: func(c *eng.Ctx, cc caseCfg) {
			e, err := newBTPEnv(btpCfgOf(cc))
			if err != nil {
				c.Inconclusive(err.Error())
				return
			}
			raceSubjects(c, cc, e.subjects())
		}})
	regGroup(&groupDef{name: "rlwe-inplace", run: runInplace})
	generic("circuits", circSubjects)
	generic("blindrot", func(cc caseCfg) ([]*subject, error) {
		e, err := newBREnv(cc.P, cc.Out)
		if err != nil {
			return nil, err
		}
		return e.subjects(), nil
	})
	generic("mpckks", func(cc caseCfg) ([]*subject, error) {
		e, err := newMPCKKSEnv(cc.P, cc.Out, parties(cc))
		if err != nil {
			return nil, err
		}
		return e.subjects(), nil
	})
}

// btpCfgOf decodes a bootstrapping configuration from the generic case descriptor: P.LogN is the
// residual ring degree, the variant names the bootstrapping ring degree and the options.
func btpCfgOf(cc caseCfg) btpCfg {
	cf := btpCfg{Name: cc.P.Name, ResLogN: cc.P.LogN, CI: cc.P.Ring == "ci"}
	var full int
	fmt.Sscanf(cc.Var, "btpLogN%d-full%d", &cf.BtpLogN, &full)
	cf.Full = full == 1
	return cf
}

func enumerate(r *eng.Rand, thorough bool, add func(group string, ps pset, variant string, po *pset), addRace func(group string, ps pset, variant string, po *pset, G, procs, reps int)) {
	mk := func(name string, logN int, ringT string, qb, pb []int) (pset, bool) {
		return mkPset(r, name, logN, ringT, qb, pb)
	}
	// ---- ring layer
	type rc struct {
		name   string
		logN   int
		ringT  string
		qb, pb []int
	}
	ringCfgs := []rc{
		{"ringA", 5, "", []int{55, 45, 40}, []int{50, 61}},
		{"ringB", 4, "", []int{60, 30}, []int{36}},
		{"ringCI", 5, "ci", []int{50, 40, 40}, []int{50}},
		{"ringNoP", 6, "", []int{58, 33, 45, 20}, nil},
	}
	if thorough {
		ringCfgs = append(ringCfgs, rc{"ringC", 7, "", []int{61, 61, 61, 61}, []int{61, 61, 61}}, rc{"ringD", 3, "", []int{45, 45}, []int{45, 45}},
			rc{"ringE", 8, "ci", []int{55, 55}, []int{56, 56}}, rc{"ringF", 9, "", []int{40, 40, 40, 40, 40, 40}, []int{50, 50}})
	}
	for _, x := range ringCfgs {
		if ps, ok := mk(x.name, x.logN, x.ringT, x.qb, x.pb); ok {
			add("ring", ps, "", nil)
			add("samplers", ps, "", nil)
		}
	}
	// ---- rlwe layer
	type lc struct {
		name   string
		logN   int
		ringT  string
		qb, pb []int
		pow2   int
		noNTT  bool
		xs     string
	}
	rlweCfgs := []lc{
		{"rlweA", 6, "", []int{50, 40, 40, 40}, []int{50, 50}, 0, false, ""},
		{"rlweCoef", 5, "", []int{50, 40, 40}, []int{50}, 0, true, "h"},
		{"rlweNoP", 5, "", []int{50, 45}, nil, 10, false, ""},
		{"rlweP1w", 6, "", []int{55, 45, 45}, []int{56}, 14, false, "gauss"},
		{"rlweCI", 6, "ci", []int{50, 40, 40}, []int{50}, 0, false, ""},
	}
	if thorough {
		rlweCfgs = append(rlweCfgs, lc{"rlweB", 8, "", []int{60, 60, 60}, []int{61, 61, 61}, 0, false, ""}, lc{"rlweC", 4, "", []int{50, 45}, []int{50}, 0, false, "h"},
			lc{"rlweD", 9, "", []int{55, 45, 45, 45, 45}, []int{55, 55}, 0, false, ""}, lc{"rlweCoefNoP", 5, "", []int{55, 50}, nil, 12, true, ""},
			lc{"rlweL0", 5, "", []int{58}, []int{60}, 0, false, ""})
	}
	for _, x := range rlweCfgs {
		ps, ok := mk(x.name, x.logN, x.ringT, x.qb, x.pb)
		if !ok {
			continue
		}
		ps.Pow2, ps.NoNTT, ps.Xs = x.pow2, x.noNTT, x.xs
		add("rlwe-encdec", ps, "", nil)
		add("rlwe-eval", ps, "", nil)
		add("rlwe-deep", ps, "", nil)
	}
	// ---- schemes
	type sc struct {
		name     string
		logN     int
		ringT    string
		qb, pb   []int
		t        uint64
		logScale int
		pow2     int
	}
	bgvCfgs := []sc{
		{"bgvA", 6, "", []int{45, 40, 40, 40}, []int{50, 50}, 65537, 0, 0},
		{"bgvGap", 7, "", []int{45, 40, 40}, []int{50}, 97, 0, 0},
		{"bgvNoP", 5, "", []int{50, 40, 40}, nil, 65537, 0, 12},
	}
	ckksCfgs := []sc{
		{"ckksA", 6, "", []int{55, 45, 45, 45}, []int{55, 55}, 0, 45, 0},
		{"ckksCI", 6, "ci", []int{55, 45, 45}, []int{55}, 0, 45, 0},
		{"ckksNoP", 5, "", []int{50, 40, 40}, nil, 0, 40, 12},
	}
	if thorough {
		bgvCfgs = append(bgvCfgs, sc{"bgvB", 8, "", []int{60, 45, 45, 45, 45}, []int{61, 61, 61}, 786433, 0, 0}, sc{"bgvC", 4, "", []int{36, 30, 30}, []int{40}, 97, 0, 0},
			sc{"bgvD", 7, "", []int{55, 55, 55}, []int{56}, 65537, 0, 0})
		ckksCfgs = append(ckksCfgs, sc{"ckksB", 8, "", []int{60, 40, 40, 40, 40, 40}, []int{61, 61}, 0, 40, 0}, sc{"ckksC", 4, "", []int{50, 35, 35}, []int{50}, 0, 35, 0},
			sc{"ckksD", 7, "ci", []int{60, 50, 50}, []int{60, 60}, 0, 50, 0})
	}
	for _, x := range bgvCfgs {
		if ps, ok := mk(x.name, x.logN, x.ringT, x.qb, x.pb); ok {
			ps.T, ps.Pow2 = x.t, x.pow2
			add("bgv", ps, "", nil)
		}
	}
	for _, x := range ckksCfgs {
		if ps, ok := mk(x.name, x.logN, x.ringT, x.qb, x.pb); ok {
			ps.LogScale, ps.Pow2 = x.logScale, x.pow2
			add("ckks", ps, "", nil)
		}
	}
	// ---- rgsw, ring packing
	for _, x := range []lc{{"rgswA", 5, "", []int{50, 40}, []int{50, 50}, 0, false, ""}, {"rgswP1w", 5, "", []int{50, 50}, []int{50}, 10, false, ""}, {"rgswNoP", 5, "", []int{50, 50}, nil, 10, false, ""}} {
		if ps, ok := mk(x.name, x.logN, x.ringT, x.qb, x.pb); ok {
			ps.Pow2 = x.pow2
			add("rgsw", ps, "", nil)
		}
	}
	if ps, ok := mk("rpackA", 6, "", []int{58}, []int{60}); ok {
		add("ringpack", ps, "", nil)
	}
	if thorough {
		if ps, ok := mk("rpackB", 8, "", []int{55, 45}, []int{60}); ok {
			add("ringpack", ps, "", nil)
		}
		if ps, ok := mk("rpackCoef", 6, "", []int{58}, []int{60}); ok {
			ps.NoNTT = true
			add("ringpack", ps, "", nil)
		}
	}
	// ---- multiparty
	for _, x := range []lc{{"mpA", 5, "", []int{55, 45, 45}, []int{50, 50}, 0, false, ""}, {"mpP1w", 5, "", []int{55, 50}, []int{50}, 10, false, "h"}, {"mpCoef", 5, "", []int{55, 45}, []int{55}, 0, true, ""}} {
		if ps, ok := mk(x.name, x.logN, x.ringT, x.qb, x.pb); ok {
			ps.Pow2, ps.NoNTT, ps.Xs = x.pow2, x.noNTT, x.xs
			add("mp", ps, "n3", nil)
		}
	}
	if thorough {
		if ps, ok := mk("mpB", 7, "", []int{60, 55, 55}, []int{61}); ok {
			add("mp", ps, "n5", nil)
			add("mp", ps, "n1", nil)
		}
	}
	if ps, ok := mk("mpbgvA", 5, "", []int{55, 45, 45}, []int{50}); ok {
		ps.T = 65537
		add("mpbgv", ps, "n3", nil)
		// output parameters with a longer chain: the recryption level exceeds every input level
		if po, ok := mk("mpbgvOutLong", 5, "", []int{55, 45, 45, 45, 45}, []int{50}); ok {
			po.T = 65537
			add("mpbgv", ps, "n2-out-long", &po)
		}
		if po, ok := mk("mpbgvOutShort", 5, "", []int{58, 50}, nil); ok {
			po.T = 65537
			add("mpbgv", ps, "n2-out-short", &po)
		}
	}
	if ps, ok := mk("mpbgvGap", 6, "", []int{55, 45}, []int{55}); ok {
		ps.T = 97 // plaintext ring of degree 16 inside a ciphertext ring of degree 64
		add("mpbgv", ps, "n2", nil)
	}
	if ps, ok := mk("mpckksA", 5, "", []int{55, 45, 45, 45, 45}, []int{55}); ok {
		ps.LogScale = 40
		add("mpckks", ps, "n3", nil)
		if po, ok := mk("mpckksOutLong", 5, "", []int{55, 45, 45, 45, 45, 45, 45}, []int{55}); ok {
			po.LogScale = 40
			add("mpckks", ps, "n2-out-long", &po)
		}
	}
	if ps, ok := mk("mpckksCI", 5, "ci", []int{55, 45, 45, 45, 45}, []int{55}); ok {
		ps.LogScale = 40
		add("mpckks", ps, "n2", nil)
	}
	// ---- bootstrapping (reduced ring degrees)
	add("btp", pset{Name: "btpSame", LogN: 8}, "btpLogN8-full1", nil)
	add("btp", pset{Name: "btpSwitch", LogN: 7}, "btpLogN8-full0", nil)
	add("btp", pset{Name: "btpCI", LogN: 7, Ring: "ci"}, "btpLogN8-full0", nil)
	if thorough {
		add("btp", pset{Name: "btpSwitchFull", LogN: 7}, "btpLogN8-full1", nil)
		add("btp", pset{Name: "btpCIFull", LogN: 7, Ring: "ci"}, "btpLogN8-full1", nil)
		add("btp", pset{Name: "btpSame9", LogN: 9}, "btpLogN9-full1", nil)
		addRace("btp", pset{Name: "raceBtp", LogN: 7}, "btpLogN8-full1", nil, 2, 4, 1)
	}
	enumerateRandom(r, thorough, add, addRace)
	enumerateAudit(r.Sub("audit"), thorough, add, addRace)
	// ---- concurrent variants
	if ps, ok := mk("raceRgsw", 6, "", []int{50, 40}, []int{50, 50}); ok {
		addRace("rgsw", ps, "", nil, 4, 4, 2)
	}
	if ps, ok := mk("raceMp", 6, "", []int{55, 45, 45}, []int{50, 50}); ok {
		addRace("mp", ps, "n3", nil, 4, 4, 1)
		if thorough {
			addRace("mp", ps, "n3", nil, 16, 16, 1)
		}
	}
	if ps, ok := mk("raceMpbgv", 5, "", []int{55, 45, 45}, []int{50}); ok {
		ps.T = 65537
		addRace("mpbgv", ps, "n2", nil, 3, 4, 1)
	}
	if ps, ok := mk("raceMpckks", 5, "", []int{55, 45, 45, 45, 45}, []int{55}); ok {
		ps.LogScale = 40
		addRace("mpckks", ps, "n2", nil, 3, 2, 1)
	}
	if thorough {
		if ps, ok := mk("raceRpack", 6, "", []int{58}, []int{60}); ok {
			addRace("ringpack", ps, "", nil, 4, 4, 1)
		}
	}
	if ps, ok := mk("raceBgv", 6, "", []int{45, 40, 40}, []int{50, 50}); ok {
		ps.T = 65537
		addRace("bgv", ps, "", nil, 4, 4, 1)
		if thorough {
			addRace("bgv", ps, "", nil, 12, 16, 1)
		}
	}
	if ps, ok := mk("raceCkks", 6, "", []int{55, 45, 45}, []int{55, 55}); ok {
		ps.LogScale = 45
		addRace("ckks", ps, "", nil, 4, 2, 1)
		if thorough {
			addRace("ckks", ps, "", nil, 16, 16, 1)
		}
	}
	if ps, ok := mk("raceRing", 6, "", []int{55, 45, 40}, []int{50, 61}); ok {
		addRace("ring", ps, "", nil, 4, 4, 2)
	}
	if ps, ok := mk("raceRlwe", 7, "", []int{50, 40, 40}, []int{50, 50}); ok {
		addRace("rlwe-eval", ps, "", nil, 4, 4, 2)
		addRace("rlwe-encdec", ps, "", nil, 3, 2, 2)
		addRace("rlwe-late", ps, "", nil, 4, 4, 1)
		if thorough {
			addRace("rlwe-eval", ps, "", nil, 16, 16, 2)
			addRace("rlwe-eval", ps, "", nil, 2, 2, 4)
			addRace("rlwe-encdec", ps, "", nil, 8, 16, 2)
		}
	}
}

// enumerateRandom draws, per seed, parameter sets inside the domains the groups support: ring degree,
// number and sizes of the Q and P primes, auxiliary modulus or power-of-two decomposition, ring
// type, NTT or coefficient domain, secret distribution, plaintext modulus, default scale, parties.
func enumerateRandom(r *eng.Rand, thorough bool, add func(group string, ps pset, variant string, po *pset), addRace func(group string, ps pset, variant string, po *pset, G, procs, reps int)) {
	n := 12
	maxLogN := 8
	if thorough {
		n, maxLogN = 96, 10
	}
	pick := func(xs ...int) int { return eng.Pick(r, xs...) }
	// goroutines / GOMAXPROCS / repetitions of the concurrent variants
	gsOf := func() int {
		if thorough {
			return pick(2, 3, 4, 6, 8, 12, 16)
		}
		return pick(2, 3, 4, 6, 8)
	}
	repsOf := func() int {
		if thorough {
			return 2
		}
		return 1
	}
	every := func(i, k, off int) bool { return thorough || i%k == off }
	bitsN := func(k int, xs ...int) []int {
		o := make([]int, k)
		for i := range o {
			o[i] = pick(xs...)
		}
		return o
	}
	maxOf := func(v []int) int {
		m := v[0]
		for _, x := range v {
			if x > m {
				m = x
			}
		}
		return m
	}
	pBits := func(qb []int, np int) []int {
		o := make([]int, np)
		for i := range o {
			o[i] = maxOf(qb) + r.N(2)
			if o[i] > 61 {
				o[i] = 61
			}
		}
		return o
	}
	for i := 0; i < n; i++ {
		// ring layer: any sizes, any counts
		{
			logN := 3 + r.N(maxLogN-2)
			ringT := eng.Pick(r, "", "", "ci")
			qb := bitsN(1+r.N(5), 20, 30, 36, 45, 55, 58, 60, 61)
			pb := bitsN(r.N(4), 30, 45, 55, 60, 61)
			if logN >= 8 && len(qb) > 3 {
				qb = qb[:3]
			}
			for j := range qb { // NTT-friendly primes of that size must exist
				if qb[j] < logN+8 {
					qb[j] = logN + 8
				}
			}
			if ps, ok := mkPset(r, fmt.Sprintf("rnd%d-ring", i), logN, ringT, qb, pb); ok {
				add("ring", ps, "", nil)
				add("samplers", ps, "", nil)
				if every(i, 6, 3) {
					ps.Name += "-race"
					addRace("ring", ps, "", nil, 16, 16, repsOf())
				}
			}
		}
		// rlwe layer
		{
			logN := 4 + r.N(maxLogN-3)
			ringT := eng.Pick(r, "", "", "", "ci")
			qb := append([]int{pick(50, 55, 58, 60)}, bitsN(r.N(4), 45, 50, 55, 58, 60)...)
			np := r.N(3)
			pb := pBits(qb, np)
			ps, ok := mkPset(r, fmt.Sprintf("rnd%d-rlwe", i), logN, ringT, qb, pb)
			if ok {
				switch np {
				case 0:
					ps.Pow2 = pick(8, 10, 12)
				case 1:
					ps.Pow2 = pick(0, 0, 12)
				}
				ps.NoNTT = r.N(4) == 0
				ps.Xs = eng.Pick(r, "", "", "h", "gauss")
				add("rlwe-encdec", ps, "", nil)
				add("rlwe-eval", ps, "", nil)
				add("rlwe-deep", ps, "", nil)
				if every(i, 2, 0) && logN <= 8 {
					ps.Name += "-race"
					addRace("rlwe-eval", ps, "", nil, gsOf(), pick(2, 4, 16), repsOf())
					if every(i, 4, 0) {
						addRace("rlwe-encdec", ps, "", nil, gsOf(), pick(2, 4, 16), repsOf())
					}
				}
			}
		}
		// bgv
		{
			logN := 4 + r.N(maxLogN-3)
			qb := append([]int{pick(45, 50, 55)}, bitsN(1+r.N(3), 40, 45, 50, 55)...)
			np := r.N(3)
			ps, ok := mkPset(r, fmt.Sprintf("rnd%d-bgv", i), logN, "", qb, pBits(qb, np))
			if ok {
				if np == 0 {
					ps.Pow2 = 12
				}
				ps.T = eng.Pick(r, uint64(65537), 65537, 257, 97, 786433)
				add("bgv", ps, "", nil)
				if every(i, 3, 0) && logN <= 8 {
					ps.Name += "-race"
					addRace("bgv", ps, "", nil, gsOf(), pick(2, 4, 16), repsOf())
				}
			}
		}
		// ckks
		{
			logN := 4 + r.N(maxLogN-3)
			ls := pick(35, 40, 45)
			qb := append([]int{ls + 15}, bitsN(1+r.N(4), ls)...)
			np := r.N(3)
			ps, ok := mkPset(r, fmt.Sprintf("rnd%d-ckks", i), logN, eng.Pick(r, "", "", "", "ci"), qb, pBits(qb, np))
			if ok {
				if np == 0 {
					ps.Pow2 = 12
				}
				ps.LogScale = ls
				add("ckks", ps, "", nil)
				if every(i, 2, 1) && logN <= 8 {
					ps.Name += "-race"
					addRace("ckks", ps, "", nil, gsOf(), pick(2, 4, 16), repsOf())
				}
			}
		}
		// rgsw
		{
			logN := 4 + r.N(3)
			qb := bitsN(1+r.N(2), 50, 55)
			np := r.N(3)
			ps, ok := mkPset(r, fmt.Sprintf("rnd%d-rgsw", i), logN, "", qb, pBits(qb, np))
			if ok {
				if np < 2 {
					ps.Pow2 = pick(8, 10, 12)
				}
				add("rgsw", ps, "", nil)
				if every(i, 6, 2) {
					ps.Name += "-race"
					addRace("rgsw", ps, "", nil, gsOf(), pick(2, 4, 16), repsOf())
				}
			}
		}
		// multiparty key generation and key switching
		{
			logN := 4 + r.N(3)
			qb := append([]int{pick(55, 58, 60)}, bitsN(1+r.N(2), 45, 50, 55)...)
			np := 1 + r.N(2)
			ps, ok := mkPset(r, fmt.Sprintf("rnd%d-mp", i), logN, "", qb, pBits(qb, np))
			if ok {
				ps.NoNTT = r.N(4) == 0
				ps.Xs = eng.Pick(r, "", "h")
				np := 1 + r.N(5)
				add("mp", ps, fmt.Sprintf("n%d", np), nil)
				if every(i, 4, 1) {
					ps.Name += "-race"
					addRace("mp", ps, fmt.Sprintf("n%d", np), nil, gsOf(), pick(2, 4, 16), repsOf())
				}
			}
		}
		// mpbgv with another output chain every other time
		{
			logN := 4 + r.N(3)
			qb := append([]int{pick(55, 58, 60)}, bitsN(1+r.N(3), 45, 50, 55)...)
			ps, ok := mkPset(r, fmt.Sprintf("rnd%d-mpbgv", i), logN, "", qb, pBits(qb, r.N(2)))
			if ok {
				ps.T = eng.Pick(r, uint64(65537), 65537, 257, 97)
				np := 1 + r.N(4)
				if i%2 == 0 {
					add("mpbgv", ps, fmt.Sprintf("n%d", np), nil)
					if every(i, 6, 4) {
						pr := ps
						pr.Name += "-race"
						addRace("mpbgv", pr, fmt.Sprintf("n%d", np), nil, gsOf(), pick(2, 4, 16), 1)
					}
				} else {
					// never longer than the input chain here: the longer case is the known defect, judged by its own case
					k := 1 + r.N(len(qb))
					ob := append([]int{pick(55, 58, 60)}, bitsN(k-1, 45, 50, 55)...)
					if po, ok := mkPset(r, fmt.Sprintf("rnd%d-mpbgvOut", i), logN, "", ob, nil); ok {
						po.T = ps.T
						add("mpbgv", ps, fmt.Sprintf("n%d-out", np), &po)
					}
				}
			}
		}
		// mpckks
		{
			logN := 4 + r.N(3)
			ls := pick(35, 40)
			qb := append([]int{55}, bitsN(4+r.N(2), 45, 50)...)
			ps, ok := mkPset(r, fmt.Sprintf("rnd%d-mpckks", i), logN, eng.Pick(r, "", "", "ci"), qb, pBits(qb, r.N(2)))
			if ok {
				ps.LogScale = ls
				np := 1 + r.N(3)
				add("mpckks", ps, fmt.Sprintf("n%d", np), nil)
				if every(i, 6, 5) {
					ps.Name += "-race"
					addRace("mpckks", ps, fmt.Sprintf("n%d", np), nil, gsOf(), pick(2, 4, 16), 1)
				}
			}
		}
	}
}
