package c10

import (
	"fmt"

	"verif/harness/eng"
)

func runSubjects(c *eng.Ctx, cc caseCfg, subs []*subject) {
	names := map[string]bool{}
	for _, s := range subs {
		names[s.Ctor] = true
	}
	var l []string
	for n := range names {
		l = append(l, n)
	}
	c.Sample(map[string]any{"group": cc.Group, "params": cc.P, "constructors": l, "subjects": len(subs)})
	for _, s := range subs {
		s := s
		c.Try(sigOf(s.Ctor, "run"), func() { runSubject(c, s) })
	}
}

// raceSubjects runs the concurrent driver on every non-deep subject of the list.
func raceSubjects(c *eng.Ctx, cc caseCfg, subs []*subject) {
	c.Sample(map[string]any{"group": cc.Group, "params": cc.P, "race": cc.Race, "subjects": len(subs)})
	for _, s := range subs {
		s := s
		if s.Deep {
			continue
		}
		c.Try(sigOf(s.Ctor, "race-run"), func() { runConcurrent(c, s, *cc.Race) })
	}
}

func onlySafe(subs []*subject) (o []*subject) {
	for _, s := range subs {
		if s.Safe {
			o = append(o, s)
		}
	}
	return
}

func init() {
	regGroup(&groupDef{name: "ring",
		run: func(c *eng.Ctx, cc caseCfg) {
			subs, err := ringSubjects(cc.P)
			if err != nil {
				c.Inconclusive(err.Error())
				return
			}
			runSubjects(c, cc, subs)
		},
		race: func(c *eng.Ctx, cc caseCfg) {
			subs, err := ringSubjects(cc.P)
			if err != nil {
				c.Inconclusive(err.Error())
				return
			}
			raceSubjects(c, cc, onlySafe(subs))
		}})
	regGroup(&groupDef{name: "samplers", run: func(c *eng.Ctx, cc caseCfg) { runSamplers(c, cc.P) }})
	rl := func(f func(e *rlweEnv) []*subject, race bool) func(c *eng.Ctx, cc caseCfg) {
		return func(c *eng.Ctx, cc caseCfg) {
			e, err := newRLWEEnv(cc.P)
			if err != nil {
				c.Inconclusive(err.Error())
				return
			}
			if race {
				raceSubjects(c, cc, onlySafe(f(e)))
			} else {
				runSubjects(c, cc, f(e))
			}
		}
	}
	regGroup(&groupDef{name: "rlwe-encdec", run: rl((*rlweEnv).encDecSubjects, false), race: rl((*rlweEnv).encDecSubjects, true)})
	regGroup(&groupDef{name: "rlwe-eval",
		run: func(c *eng.Ctx, cc caseCfg) {
			rl((*rlweEnv).evalSubjects, false)(c, cc)
			e, err := newRLWEEnv(cc.P)
			if err != nil {
				return
			}
			if !e.p.NTTFlag() {
				return
			}
			c.Distinct("rlwe.Evaluator/late-key-on-empty-set/"+cc.P.Name, true)
			p, msg := e.lateKeyOnEmptySet()
			c.Check(!p, "C10|rlwe.Evaluator.Automorphism|panic|galois-key-added-after-construction-to-a-key-set-without-galois-keys", func() string {
				return fmt.Sprintf("NewEvaluator(params, ks) with ks holding no Galois key, then ks.GaloisKeys[g] = gk, then Automorphism(ct, g, out): %s", msg)
			})
		},
		race: rl((*rlweEnv).evalSubjects, true)})
	regGroup(&groupDef{name: "rlwe-deep", run: rl((*rlweEnv).deepSubjects, false)})
	bg := func(race bool) func(c *eng.Ctx, cc caseCfg) {
		return func(c *eng.Ctx, cc caseCfg) {
			e, err := newBGVEnv(cc.P)
			if err != nil {
				c.Inconclusive(err.Error())
				return
			}
			if race {
				raceSubjects(c, cc, onlySafe(e.subjects()))
			} else {
				runSubjects(c, cc, e.subjects())
			}
		}
	}
	regGroup(&groupDef{name: "bgv", run: bg(false), race: bg(true)})
	ck := func(race bool) func(c *eng.Ctx, cc caseCfg) {
		return func(c *eng.Ctx, cc caseCfg) {
			e, err := newCKKSEnv(cc.P)
			if err != nil {
				c.Inconclusive(err.Error())
				return
			}
			if race {
				raceSubjects(c, cc, onlySafe(e.subjects()))
			} else {
				runSubjects(c, cc, e.subjects())
			}
		}
	}
	regGroup(&groupDef{name: "ckks", run: ck(false), race: ck(true)})
}

func enumerate(r *eng.Rand, thorough bool, add func(group string, ps pset, variant string, po *pset), addRace func(group string, ps pset, variant string, po *pset, G, procs, reps int)) {
	mk := func(name string, logN int, ringT string, qb, pb []int) (pset, bool) { return mkPset(r, name, logN, ringT, qb, pb) }
	// ---- ring layer
	type rc struct {
		name   string
		logN   int
		ringT  string
		qb, pb []int
	}
	ringCfgs := []rc{
		{"ringA", 5, "", []int{55, 45, 40}, []int{50, 61}},
		{"ringB", 4, "", []int{60, 30}, []int{36}},
		{"ringCI", 5, "ci", []int{50, 40, 40}, []int{50}},
		{"ringNoP", 6, "", []int{58, 33, 45, 20}, nil},
	}
	if thorough {
		ringCfgs = append(ringCfgs, rc{"ringC", 7, "", []int{61, 61, 61, 61}, []int{61, 61, 61}}, rc{"ringD", 3, "", []int{45, 45}, []int{45, 45}},
			rc{"ringE", 8, "ci", []int{55, 55}, []int{56, 56}}, rc{"ringF", 9, "", []int{40, 40, 40, 40, 40, 40}, []int{50, 50}})
	}
	for _, x := range ringCfgs {
		if ps, ok := mk(x.name, x.logN, x.ringT, x.qb, x.pb); ok {
			add("ring", ps, "", nil)
			add("samplers", ps, "", nil)
		}
	}
	// ---- rlwe layer
	type lc struct {
		name   string
		logN   int
		ringT  string
		qb, pb []int
		pow2   int
		noNTT  bool
		xs     string
	}
	rlweCfgs := []lc{
		{"rlweA", 6, "", []int{50, 40, 40, 40}, []int{50, 50}, 0, false, ""},
		{"rlweCoef", 5, "", []int{50, 40, 40}, []int{50}, 0, true, "h"},
		{"rlweNoP", 5, "", []int{50, 45}, nil, 10, false, ""},
		{"rlweP1w", 6, "", []int{55, 45, 45}, []int{56}, 14, false, "gauss"},
		{"rlweCI", 6, "ci", []int{50, 40, 40}, []int{50}, 0, false, ""},
	}
	if thorough {
		rlweCfgs = append(rlweCfgs, lc{"rlweB", 8, "", []int{60, 60, 60}, []int{61, 61, 61}, 0, false, ""}, lc{"rlweC", 4, "", []int{50, 45}, []int{50}, 0, false, "h"},
			lc{"rlweD", 9, "", []int{55, 45, 45, 45, 45}, []int{55, 55}, 0, false, ""}, lc{"rlweCoefNoP", 5, "", []int{55, 50}, nil, 12, true, ""},
			lc{"rlweL0", 5, "", []int{58}, []int{60}, 0, false, ""})
	}
	for _, x := range rlweCfgs {
		ps, ok := mk(x.name, x.logN, x.ringT, x.qb, x.pb)
		if !ok {
			continue
		}
		ps.Pow2, ps.NoNTT, ps.Xs = x.pow2, x.noNTT, x.xs
		add("rlwe-encdec", ps, "", nil)
		add("rlwe-eval", ps, "", nil)
		add("rlwe-deep", ps, "", nil)
	}
	// ---- schemes
	type sc struct {
		name     string
		logN     int
		ringT    string
		qb, pb   []int
		t        uint64
		logScale int
		pow2     int
	}
	bgvCfgs := []sc{
		{"bgvA", 6, "", []int{45, 40, 40, 40}, []int{50, 50}, 65537, 0, 0},
		{"bgvGap", 7, "", []int{45, 40, 40}, []int{50}, 257, 0, 0},
		{"bgvNoP", 5, "", []int{50, 40, 40}, nil, 65537, 0, 12},
	}
	ckksCfgs := []sc{
		{"ckksA", 6, "", []int{55, 45, 45, 45}, []int{55, 55}, 0, 45, 0},
		{"ckksCI", 6, "ci", []int{55, 45, 45}, []int{55}, 0, 45, 0},
		{"ckksNoP", 5, "", []int{50, 40, 40}, nil, 0, 40, 12},
	}
	if thorough {
		bgvCfgs = append(bgvCfgs, sc{"bgvB", 8, "", []int{60, 45, 45, 45, 45}, []int{61, 61, 61}, 786433, 0, 0}, sc{"bgvC", 4, "", []int{36, 30, 30}, []int{40}, 97, 0, 0},
			sc{"bgvD", 7, "", []int{55, 55, 55}, []int{56}, 65537, 0, 0})
		ckksCfgs = append(ckksCfgs, sc{"ckksB", 8, "", []int{60, 40, 40, 40, 40, 40}, []int{61, 61}, 0, 40, 0}, sc{"ckksC", 4, "", []int{50, 35, 35}, []int{50}, 0, 35, 0},
			sc{"ckksD", 7, "ci", []int{60, 50, 50}, []int{60, 60}, 0, 50, 0})
	}
	for _, x := range bgvCfgs {
		if ps, ok := mk(x.name, x.logN, x.ringT, x.qb, x.pb); ok {
			ps.T, ps.Pow2 = x.t, x.pow2
			add("bgv", ps, "", nil)
		}
	}
	for _, x := range ckksCfgs {
		if ps, ok := mk(x.name, x.logN, x.ringT, x.qb, x.pb); ok {
			ps.LogScale, ps.Pow2 = x.logScale, x.pow2
			add("ckks", ps, "", nil)
		}
	}
	// ---- concurrent variants
	if ps, ok := mk("raceBgv", 6, "", []int{45, 40, 40}, []int{50, 50}); ok {
		ps.T = 65537
		addRace("bgv", ps, "", nil, 4, 4, 1)
		if thorough {
			addRace("bgv", ps, "", nil, 12, 16, 1)
		}
	}
	if ps, ok := mk("raceCkks", 6, "", []int{55, 45, 45}, []int{55, 55}); ok {
		ps.LogScale = 45
		addRace("ckks", ps, "", nil, 4, 2, 1)
		if thorough {
			addRace("ckks", ps, "", nil, 16, 16, 1)
		}
	}
	if ps, ok := mk("raceRing", 6, "", []int{55, 45, 40}, []int{50, 61}); ok {
		addRace("ring", ps, "", nil, 4, 4, 2)
	}
	if ps, ok := mk("raceRlwe", 7, "", []int{50, 40, 40}, []int{50, 50}); ok {
		addRace("rlwe-eval", ps, "", nil, 4, 4, 2)
		addRace("rlwe-encdec", ps, "", nil, 3, 2, 2)
		if thorough {
			addRace("rlwe-eval", ps, "", nil, 16, 16, 2)
			addRace("rlwe-eval", ps, "", nil, 2, 2, 4)
			addRace("rlwe-encdec", ps, "", nil, 8, 16, 2)
		}
	}
}
