package c10

// Reflection + unsafe machinery of the structural monitor.
//
//   - regionsOf(x): every piece of memory reachable from x (pointer targets, slice backing arrays,
//     maps), unexported fields included, with the access path that leads to it.
//   - overlap(a, b): the regions of two objects that intersect (memory shared by original and copy).
//   - hashRegion: raw-byte digest of a region (map: digest of keys + value words), used to detect
//     writes to shared memory around a workload.
//   - compareObjects(o, c): parallel walk of original and copy: scalar leaves, nil-ness, shapes,
//     contents (fresh objects only), internal aliasing structure.
//   - mutateAll(x): flips every bit of every pointer-free leaf reachable from x (deep copies).

import (
	"fmt"
	"hash/fnv"
	"reflect"
	"regexp"
	"sort"
	"strings"
	"unsafe"
)

type region struct {
	ptr   unsafe.Pointer
	size  uintptr
	path  string
	isMap bool
	mv    reflect.Value // the map (isMap)
	pfree bool          // pointer-free payload
}

func (r region) lo() uintptr { return uintptr(r.ptr) }
func (r region) hi() uintptr { return uintptr(r.ptr) + r.size }

var idxRe = regexp.MustCompile(`\[[0-9]+\]|\{[^}]*\}`)

// normPath removes indices / map keys so that a path is a stable signature component.
func normPath(p string) string {
	p = idxRe.ReplaceAllStringFunc(p, func(s string) string {
		if s[0] == '[' {
			return "[]"
		}
		return "{}"
	})
	if len(p) > 120 {
		p = p[:120]
	}
	return p
}

// rw returns a readable and settable view of an addressable value (unexported fields included).
func rw(v reflect.Value) reflect.Value {
	if v.CanAddr() {
		return reflect.NewAt(v.Type(), unsafe.Pointer(v.UnsafeAddr())).Elem()
	}
	return v
}

// addressable returns an addressable copy of v when v is not addressable.
func addressable(v reflect.Value) reflect.Value {
	if v.CanAddr() {
		return v
	}
	p := reflect.New(v.Type())
	p.Elem().Set(v)
	return p.Elem()
}

func pointerFree(t reflect.Type) bool {
	switch t.Kind() {
	case reflect.Bool, reflect.Int, reflect.Int8, reflect.Int16, reflect.Int32, reflect.Int64,
		reflect.Uint, reflect.Uint8, reflect.Uint16, reflect.Uint32, reflect.Uint64, reflect.Uintptr,
		reflect.Float32, reflect.Float64, reflect.Complex64, reflect.Complex128:
		return true
	case reflect.Array:
		return pointerFree(t.Elem())
	case reflect.Struct:
		for i := 0; i < t.NumField(); i++ {
			if !pointerFree(t.Field(i).Type) {
				return false
			}
		}
		return true
	}
	return false
}

func isPRNGType(t reflect.Type) bool {
	return strings.HasSuffix(t.PkgPath(), "utils/sampling") || strings.Contains(t.PkgPath(), "x/crypto/blake2b")
}

type seenKey struct {
	p unsafe.Pointer
	t reflect.Type
	n int
}

// regionsOf lists the memory reachable from x (x must be a pointer to the object).
func regionsOf(x any) []region {
	var out []region
	seen := map[seenKey]bool{}
	var walk func(v reflect.Value, path string, depth int)
	walk = func(v reflect.Value, path string, depth int) {
		if !v.IsValid() || depth > 60 {
			return
		}
		v = rw(v)
		t := v.Type()
		switch v.Kind() {
		case reflect.Ptr:
			if v.IsNil() {
				return
			}
			k := seenKey{v.UnsafePointer(), t, 0}
			if seen[k] {
				return
			}
			seen[k] = true
			if sz := t.Elem().Size(); sz > 0 {
				out = append(out, region{ptr: v.UnsafePointer(), size: sz, path: path, pfree: pointerFree(t.Elem())})
			}
			walk(v.Elem(), path+"*", depth+1)
		case reflect.Interface:
			if v.IsNil() {
				return
			}
			e := v.Elem()
			switch e.Kind() {
			case reflect.Ptr, reflect.Map, reflect.Slice, reflect.Func, reflect.Chan:
				walk(e, path+"("+e.Type().String()+")", depth+1)
			default:
				walk(addressable(e), path+"("+e.Type().String()+")", depth+1)
			}
		case reflect.Struct:
			for i := 0; i < v.NumField(); i++ {
				walk(v.Field(i), path+"."+t.Field(i).Name, depth+1)
			}
		case reflect.Array:
			if pointerFree(t.Elem()) {
				return
			}
			for i := 0; i < v.Len(); i++ {
				walk(v.Index(i), fmt.Sprintf("%s[%d]", path, i), depth+1)
			}
		case reflect.Slice:
			if v.IsNil() || v.Len() == 0 {
				return
			}
			k := seenKey{v.UnsafePointer(), t, v.Len()}
			if seen[k] {
				return
			}
			seen[k] = true
			es := t.Elem().Size()
			pf := pointerFree(t.Elem())
			if es > 0 {
				out = append(out, region{ptr: v.UnsafePointer(), size: es * uintptr(v.Len()), path: path, pfree: pf})
			}
			if pf {
				return
			}
			for i := 0; i < v.Len(); i++ {
				walk(v.Index(i), fmt.Sprintf("%s[%d]", path, i), depth+1)
			}
		case reflect.Map:
			if v.IsNil() {
				return
			}
			k := seenKey{v.UnsafePointer(), t, 0}
			if seen[k] {
				return
			}
			seen[k] = true
			out = append(out, region{ptr: v.UnsafePointer(), size: 1, path: path, isMap: true, mv: v})
			it := v.MapRange()
			for it.Next() {
				e := it.Value()
				switch e.Kind() {
				case reflect.Ptr, reflect.Map, reflect.Slice, reflect.Interface:
					walk(e, fmt.Sprintf("%s{%v}", path, it.Key()), depth+1)
				default:
					if !pointerFree(e.Type()) {
						walk(addressable(e), fmt.Sprintf("%s{%v}", path, it.Key()), depth+1)
					}
				}
			}
		}
	}
	v := reflect.ValueOf(x)
	if v.Kind() != reflect.Ptr {
		v = addressable(v)
	}
	walk(v, "", 0)
	return out
}

type sharedRegion struct {
	o, c region // region on the original / on the copy side that intersect
}

// overlap returns the pairs of regions of a and b that intersect. Maps intersect iff identical.
func overlap(a, b []region) []sharedRegion {
	var out []sharedRegion
	bm := map[unsafe.Pointer]region{}
	var bs []region
	for _, r := range b {
		if r.isMap {
			bm[r.ptr] = r
		} else {
			bs = append(bs, r)
		}
	}
	sort.Slice(bs, func(i, j int) bool { return bs[i].lo() < bs[j].lo() })
	// prefix maximum of hi for early termination
	for _, r := range a {
		if r.isMap {
			if o, ok := bm[r.ptr]; ok {
				out = append(out, sharedRegion{r, o})
			}
			continue
		}
		// first b with lo >= r.hi is beyond; scan backwards limited by a window: regions are few
		// thousands at most, so a linear filtered scan from the insertion point is fine.
		i := sort.Search(len(bs), func(i int) bool { return bs[i].lo() >= r.hi() })
		for j := i - 1; j >= 0; j-- {
			if bs[j].hi() > r.lo() {
				out = append(out, sharedRegion{r, bs[j]})
			}
			// regions may nest (a struct and a slice inside it never nest, backing arrays are
			// disjoint from struct memory); stop once far below: a region never exceeds 1<<26 bytes.
			if r.lo() > bs[j].lo() && r.lo()-bs[j].lo() > 1<<26 {
				break
			}
		}
	}
	return out
}

func hashBytes(p unsafe.Pointer, n uintptr) uint64 {
	h := fnv.New64a()
	h.Write(unsafe.Slice((*byte)(p), int(n)))
	return h.Sum64()
}

// hashRegion digests the current content of a region.
func hashRegion(r region) uint64 {
	if !r.isMap {
		return hashBytes(r.ptr, r.size)
	}
	// map: keys and the raw words of the values (pointers as addresses)
	var ks []string
	it := r.mv.MapRange()
	for it.Next() {
		e := it.Value()
		s := fmt.Sprint(it.Key()) + "="
		switch e.Kind() {
		case reflect.Ptr, reflect.Map:
			s += fmt.Sprintf("%x", uintptr(e.UnsafePointer()))
		case reflect.Slice:
			s += fmt.Sprintf("%x/%d", uintptr(e.UnsafePointer()), e.Len())
		default:
			s += fmt.Sprint(e.Kind())
		}
		ks = append(ks, s)
	}
	sort.Strings(ks)
	h := fnv.New64a()
	for _, k := range ks {
		h.Write([]byte(k))
		h.Write([]byte{0})
	}
	return h.Sum64() ^ uint64(len(ks))<<56
}

// ---------------------------------------------------------------------------------------------
// parallel comparison

type issue struct {
	class  string // field-dropped | field-only-in-copy | config-differs | shape-smaller | shape-differs | content-differs | type-differs | aliasing-lost | aliasing-added | map-keys-differ
	path   string
	detail string
}

type cmpOpts struct {
	content bool     // compare the contents of re-allocated pointer-free memory (fresh objects)
	rebound []string // path prefixes that the constructor is asked to change (skipped)
	scratch []string // path prefixes of documented scratch memory: contents never compared
}

type cmpStats struct {
	scalars, shared, realloc, largerInCopy, funcs, skippedRebound int
}

// isScratch: declared scratch prefixes of the subject, plus the byte buffers of every sampler (their
// fill level depends on how much randomness was consumed).
func isScratch(p string, pre []string) bool {
	return strings.Contains(p, ".randomBuffer") || hasPrefixAny(p, pre)
}

func hasPrefixAny(p string, pre []string) bool {
	np := normPath(p)
	for _, x := range pre {
		if strings.HasPrefix(np, x) {
			return true
		}
	}
	return false
}

// compareObjects walks original o and copy c (both pointers to the same type) in parallel.
func compareObjects(o, c any, opt cmpOpts) (issues []issue, st cmpStats) {
	type pair struct {
		a, b unsafe.Pointer
		t    reflect.Type
	}
	seen := map[pair]bool{}
	aliasO := map[unsafe.Pointer]string{}
	aliasC := map[unsafe.Pointer]string{}
	add := func(class, path, detail string) {
		if !opt.content && class != "shape-smaller" && isScratch(path, opt.scratch) {
			// scratch memory of a used object: lazily filled big.Int / buffers legitimately differ
			return
		}
		issues = append(issues, issue{class, normPath(path), detail})
	}
	alias := func(pa, pb unsafe.Pointer, path string) {
		qa, oka := aliasO[pa]
		qb, okb := aliasC[pb]
		if !oka {
			aliasO[pa] = path
		}
		if !okb {
			aliasC[pb] = path
		}
		if oka && (!okb || normPath(qb) != normPath(qa)) && normPath(qa) != normPath(path) {
			add("aliasing-lost", path, fmt.Sprintf("in the original %s and %s are the same memory, in the copy they are not", path, qa))
		}
		if okb && !oka && normPath(qb) != normPath(path) {
			add("aliasing-added", path, fmt.Sprintf("in the copy %s and %s are the same memory, in the original they are not", path, qb))
		}
	}
	var walk func(a, b reflect.Value, path string, depth int)
	walk = func(a, b reflect.Value, path string, depth int) {
		if depth > 60 || !a.IsValid() || !b.IsValid() {
			return
		}
		if hasPrefixAny(path, opt.rebound) {
			st.skippedRebound++
			return
		}
		a, b = rw(a), rw(b)
		t := a.Type()
		if b.Type() != t {
			add("type-differs", path, fmt.Sprintf("%s vs %s", t, b.Type()))
			return
		}
		if t.Kind() == reflect.Struct && isPRNGType(t) {
			return
		}
		switch a.Kind() {
		case reflect.Ptr:
			if a.IsNil() || b.IsNil() {
				if !a.IsNil() {
					add("field-dropped", path, "set in the original, nil in the copy")
				} else if !b.IsNil() {
					add("field-only-in-copy", path, "nil in the original, set in the copy")
				}
				return
			}
			pa, pb := a.UnsafePointer(), b.UnsafePointer()
			alias(pa, pb, path)
			if pa == pb {
				st.shared++
				return
			}
			k := pair{pa, pb, t}
			if seen[k] {
				return
			}
			seen[k] = true
			st.realloc++
			walk(a.Elem(), b.Elem(), path+"*", depth+1)
		case reflect.Interface:
			if a.IsNil() || b.IsNil() {
				if !a.IsNil() {
					add("field-dropped", path, "set in the original, nil in the copy")
				} else if !b.IsNil() {
					add("field-only-in-copy", path, "nil in the original, set in the copy")
				}
				return
			}
			ea, eb := a.Elem(), b.Elem()
			if ea.Type() != eb.Type() {
				add("type-differs", path, fmt.Sprintf("%s vs %s", ea.Type(), eb.Type()))
				return
			}
			switch ea.Kind() {
			case reflect.Ptr, reflect.Map, reflect.Slice, reflect.Func:
				walk(ea, eb, path+"("+ea.Type().String()+")", depth+1)
			default:
				walk(addressable(ea), addressable(eb), path+"("+ea.Type().String()+")", depth+1)
			}
		case reflect.Struct:
			for i := 0; i < a.NumField(); i++ {
				walk(a.Field(i), b.Field(i), path+"."+t.Field(i).Name, depth+1)
			}
		case reflect.Array:
			if pointerFree(t.Elem()) {
				if opt.content && !isScratch(path, opt.scratch) && !reflect.DeepEqual(a.Interface(), b.Interface()) {
					add("content-differs", path, "array contents differ")
				}
				return
			}
			for i := 0; i < a.Len(); i++ {
				walk(a.Index(i), b.Index(i), fmt.Sprintf("%s[%d]", path, i), depth+1)
			}
		case reflect.Slice:
			la, lb := 0, 0
			if !a.IsNil() {
				la = a.Len()
			}
			if !b.IsNil() {
				lb = b.Len()
			}
			if la == 0 || lb == 0 {
				if la != 0 {
					add("field-dropped", path, fmt.Sprintf("length %d in the original, empty in the copy", la))
				} else if lb != 0 {
					add("field-only-in-copy", path, fmt.Sprintf("empty in the original, length %d in the copy", lb))
				}
				return
			}
			pa, pb := a.UnsafePointer(), b.UnsafePointer()
			alias(pa, pb, path)
			if la != lb {
				if lb < la {
					add("shape-smaller", path, fmt.Sprintf("length %d in the original, %d in the copy", la, lb))
				} else if isScratch(path, opt.scratch) {
					st.largerInCopy++
				} else {
					add("shape-differs", path, fmt.Sprintf("length %d in the original, %d in the copy", la, lb))
				}
			}
			if pa == pb {
				st.shared++
				return
			}
			k := pair{pa, pb, t}
			if seen[k] {
				return
			}
			seen[k] = true
			st.realloc++
			n := la
			if lb < n {
				n = lb
			}
			if pointerFree(t.Elem()) {
				if opt.content && !isScratch(path, opt.scratch) {
					sz := t.Elem().Size() * uintptr(n)
					if hashBytes(pa, sz) != hashBytes(pb, sz) {
						add("content-differs", path, fmt.Sprintf("first %d elements differ", n))
					}
				}
				return
			}
			for i := 0; i < n; i++ {
				walk(a.Index(i), b.Index(i), fmt.Sprintf("%s[%d]", path, i), depth+1)
			}
		case reflect.Map:
			if a.IsNil() || b.IsNil() || a.Len() == 0 || b.Len() == 0 {
				la, lb := 0, 0
				if !a.IsNil() {
					la = a.Len()
				}
				if !b.IsNil() {
					lb = b.Len()
				}
				if la != 0 && lb == 0 {
					add("field-dropped", path, fmt.Sprintf("%d entries in the original, none in the copy", la))
				} else if lb != 0 && la == 0 {
					add("field-only-in-copy", path, fmt.Sprintf("no entry in the original, %d in the copy", lb))
				}
				return
			}
			if a.UnsafePointer() == b.UnsafePointer() {
				st.shared++
				return
			}
			st.realloc++
			for _, k := range a.MapKeys() {
				eb := b.MapIndex(k)
				if !eb.IsValid() {
					add("map-keys-differ", path, fmt.Sprintf("key %v missing in the copy", k))
					continue
				}
				ea := a.MapIndex(k)
				switch ea.Kind() {
				case reflect.Ptr, reflect.Map, reflect.Slice, reflect.Interface:
					walk(ea, eb, fmt.Sprintf("%s{%v}", path, k), depth+1)
				default:
					walk(addressable(ea), addressable(eb), fmt.Sprintf("%s{%v}", path, k), depth+1)
				}
			}
			for _, k := range b.MapKeys() {
				if !a.MapIndex(k).IsValid() {
					add("map-keys-differ", path, fmt.Sprintf("key %v only in the copy", k))
				}
			}
		case reflect.Func, reflect.Chan, reflect.UnsafePointer:
			st.funcs++
			if a.IsNil() != b.IsNil() {
				if !a.IsNil() {
					add("field-dropped", path, "set in the original, nil in the copy")
				} else {
					add("field-only-in-copy", path, "nil in the original, set in the copy")
				}
			}
		case reflect.String:
			st.scalars++
			if a.String() != b.String() {
				add("config-differs", path, fmt.Sprintf("%q vs %q", a.String(), b.String()))
			}
		default:
			st.scalars++
			if isScratch(path, opt.scratch) {
				return
			}
			var eq bool
			switch a.Kind() {
			case reflect.Bool:
				eq = a.Bool() == b.Bool()
			case reflect.Int, reflect.Int8, reflect.Int16, reflect.Int32, reflect.Int64:
				eq = a.Int() == b.Int()
			case reflect.Uint, reflect.Uint8, reflect.Uint16, reflect.Uint32, reflect.Uint64, reflect.Uintptr:
				eq = a.Uint() == b.Uint()
			case reflect.Float32, reflect.Float64:
				eq = a.Float() == b.Float() || (a.Float() != a.Float() && b.Float() != b.Float())
			case reflect.Complex64, reflect.Complex128:
				eq = a.Complex() == b.Complex()
			default:
				eq = true
			}
			if !eq {
				add("config-differs", path, fmt.Sprintf("%v in the original, %v in the copy", a, b))
			}
		}
	}
	va, vb := reflect.ValueOf(o), reflect.ValueOf(c)
	walk(va, vb, "", 0)
	return
}

// ---------------------------------------------------------------------------------------------
// mutation of every pointer-free leaf (deep copies)

// mutateAll flips every bit of every pointer-free leaf reachable from x (scalars in structs, scalar
// slices). It returns the number of bytes flipped. The object must not be used afterwards.
func mutateAll(x any) (nbytes int) {
	seen := map[seenKey]bool{}
	flip := func(p unsafe.Pointer, n uintptr) {
		b := unsafe.Slice((*byte)(p), int(n))
		for i := range b {
			b[i] = ^b[i]
		}
		nbytes += int(n)
	}
	var walk func(v reflect.Value, depth int)
	walk = func(v reflect.Value, depth int) {
		if !v.IsValid() || depth > 60 {
			return
		}
		v = rw(v)
		t := v.Type()
		switch v.Kind() {
		case reflect.Ptr:
			if v.IsNil() {
				return
			}
			k := seenKey{v.UnsafePointer(), t, 0}
			if seen[k] {
				return
			}
			seen[k] = true
			walk(v.Elem(), depth+1)
		case reflect.Interface:
			if v.IsNil() {
				return
			}
			e := v.Elem()
			if e.Kind() == reflect.Ptr || e.Kind() == reflect.Slice || e.Kind() == reflect.Map {
				walk(e, depth+1)
			}
		case reflect.Struct:
			for i := 0; i < v.NumField(); i++ {
				walk(v.Field(i), depth+1)
			}
		case reflect.Array:
			if pointerFree(t.Elem()) {
				if v.CanAddr() && t.Size() > 0 {
					flip(unsafe.Pointer(v.UnsafeAddr()), t.Size())
				}
				return
			}
			for i := 0; i < v.Len(); i++ {
				walk(v.Index(i), depth+1)
			}
		case reflect.Slice:
			if v.IsNil() || v.Len() == 0 {
				return
			}
			k := seenKey{v.UnsafePointer(), t, v.Len()}
			if seen[k] {
				return
			}
			seen[k] = true
			if pointerFree(t.Elem()) {
				flip(v.UnsafePointer(), t.Elem().Size()*uintptr(v.Len()))
				return
			}
			for i := 0; i < v.Len(); i++ {
				walk(v.Index(i), depth+1)
			}
		case reflect.Map:
			if v.IsNil() {
				return
			}
			it := v.MapRange()
			for it.Next() {
				e := it.Value()
				if e.Kind() == reflect.Ptr || e.Kind() == reflect.Slice || e.Kind() == reflect.Map || e.Kind() == reflect.Interface {
					walk(e, depth+1)
				}
			}
		case reflect.Bool, reflect.Int, reflect.Int8, reflect.Int16, reflect.Int32, reflect.Int64,
			reflect.Uint, reflect.Uint8, reflect.Uint16, reflect.Uint32, reflect.Uint64, reflect.Uintptr,
			reflect.Float32, reflect.Float64, reflect.Complex64, reflect.Complex128:
			if v.CanAddr() {
				if v.Kind() == reflect.Bool {
					v.SetBool(!v.Bool())
					nbytes++
				} else {
					flip(unsafe.Pointer(v.UnsafeAddr()), t.Size())
				}
			}
		}
	}
	walk(reflect.ValueOf(x), 0)
	return
}

// deepDigest is a content digest of everything reachable from x that does not depend on addresses:
// used to show that an object did not change (original while its deep copy is mutated).
func deepDigest(x any) uint64 {
	h := fnv.New64a()
	seen := map[seenKey]bool{}
	var walk func(v reflect.Value, depth int)
	w := func(s string) { h.Write([]byte(s)); h.Write([]byte{0}) }
	walk = func(v reflect.Value, depth int) {
		if !v.IsValid() || depth > 60 {
			return
		}
		v = rw(v)
		t := v.Type()
		if t.Kind() == reflect.Struct && isPRNGType(t) {
			return
		}
		switch v.Kind() {
		case reflect.Ptr:
			if v.IsNil() {
				w("nil")
				return
			}
			k := seenKey{v.UnsafePointer(), t, 0}
			if seen[k] {
				w("cyc")
				return
			}
			seen[k] = true
			walk(v.Elem(), depth+1)
			delete(seen, k)
		case reflect.Interface:
			if v.IsNil() {
				w("nil")
				return
			}
			e := v.Elem()
			w(e.Type().String())
			switch e.Kind() {
			case reflect.Ptr, reflect.Map, reflect.Slice, reflect.Func:
				walk(e, depth+1)
			default:
				walk(addressable(e), depth+1)
			}
		case reflect.Struct:
			for i := 0; i < v.NumField(); i++ {
				walk(v.Field(i), depth+1)
			}
		case reflect.Array:
			for i := 0; i < v.Len(); i++ {
				walk(v.Index(i), depth+1)
			}
		case reflect.Slice:
			if v.IsNil() || v.Len() == 0 {
				w("empty")
				return
			}
			w(fmt.Sprint("len", v.Len()))
			if pointerFree(t.Elem()) {
				var b [8]byte
				x := hashBytes(v.UnsafePointer(), t.Elem().Size()*uintptr(v.Len()))
				for i := range b {
					b[i] = byte(x >> (8 * i))
				}
				h.Write(b[:])
				return
			}
			for i := 0; i < v.Len(); i++ {
				walk(v.Index(i), depth+1)
			}
		case reflect.Map:
			if v.IsNil() || v.Len() == 0 {
				w("empty")
				return
			}
			keys := v.MapKeys()
			sort.Slice(keys, func(i, j int) bool { return fmt.Sprint(keys[i]) < fmt.Sprint(keys[j]) })
			for _, k := range keys {
				w(fmt.Sprint(k))
				e := v.MapIndex(k)
				switch e.Kind() {
				case reflect.Ptr, reflect.Map, reflect.Slice, reflect.Interface:
					walk(e, depth+1)
				default:
					walk(addressable(e), depth+1)
				}
			}
		case reflect.Func, reflect.Chan, reflect.UnsafePointer:
			if v.IsNil() {
				w("nil")
			} else {
				w("fn")
			}
		case reflect.String:
			w(v.String())
		case reflect.Bool:
			w(fmt.Sprint(v.Bool()))
		case reflect.Int, reflect.Int8, reflect.Int16, reflect.Int32, reflect.Int64:
			w(fmt.Sprint(v.Int()))
		case reflect.Uint, reflect.Uint8, reflect.Uint16, reflect.Uint32, reflect.Uint64, reflect.Uintptr:
			w(fmt.Sprint(v.Uint()))
		case reflect.Float32, reflect.Float64:
			w(fmt.Sprintf("%x", v.Float()))
		case reflect.Complex64, reflect.Complex128:
			w(fmt.Sprint(v.Complex()))
		}
	}
	walk(reflect.ValueOf(x), 0)
	return h.Sum64()
}

// capOverlaps: pointer-free slices reachable from x whose spare capacity (the bytes between len and cap)
// covers the live elements of another slice of x. Growing such a slice in place - append, or a decoder that
// re-slices a receiver row up to its capacity - writes into its neighbour.
func capOverlaps(x any) []string {
	type span struct {
		lo, hi, capHi uintptr
		path          string
	}
	var spans []span
	seen := map[seenKey]bool{}
	var walk func(v reflect.Value, path string, depth int)
	walk = func(v reflect.Value, path string, depth int) {
		if !v.IsValid() || depth > 60 {
			return
		}
		v = rw(v)
		t := v.Type()
		switch v.Kind() {
		case reflect.Ptr:
			if v.IsNil() {
				return
			}
			k := seenKey{v.UnsafePointer(), t, 0}
			if seen[k] {
				return
			}
			seen[k] = true
			walk(v.Elem(), path+"*", depth+1)
		case reflect.Interface:
			if !v.IsNil() {
				e := v.Elem()
				if e.Kind() == reflect.Ptr || e.Kind() == reflect.Slice || e.Kind() == reflect.Map {
					walk(e, path, depth+1)
				}
			}
		case reflect.Struct:
			for i := 0; i < v.NumField(); i++ {
				walk(v.Field(i), path+"."+t.Field(i).Name, depth+1)
			}
		case reflect.Slice:
			if v.IsNil() || v.Cap() == 0 {
				return
			}
			es := t.Elem().Size()
			if pointerFree(t.Elem()) {
				if es > 0 {
					lo := uintptr(v.UnsafePointer())
					spans = append(spans, span{lo, lo + es*uintptr(v.Len()), lo + es*uintptr(v.Cap()), path})
				}
				return
			}
			for i := 0; i < v.Len(); i++ {
				walk(v.Index(i), fmt.Sprintf("%s[%d]", path, i), depth+1)
			}
		case reflect.Map:
			if v.IsNil() {
				return
			}
			it := v.MapRange()
			for it.Next() {
				e := it.Value()
				if e.Kind() == reflect.Ptr || e.Kind() == reflect.Slice || e.Kind() == reflect.Interface {
					walk(e, path+"{}", depth+1)
				}
			}
		}
	}
	walk(reflect.ValueOf(x), "", 0)
	var out []string
	for i, a := range spans {
		if a.capHi == a.hi {
			continue
		}
		for j, b := range spans {
			if i != j && b.hi > b.lo && a.hi < b.hi && b.lo < a.capHi && !(b.lo == a.lo && b.hi == a.hi) {
				out = append(out, normPath(a.path))
				break
			}
		}
	}
	sort.Strings(out)
	return out
}
