package c10

// multiparty: ShallowCopy of PublicKeyGenProtocol, RelinearizationKeyGenProtocol,
// EvaluationKeyGenProtocol, GaloisKeyGenProtocol, KeySwitchProtocol, PublicKeySwitchProtocol.
// The protocols draw fresh randomness, so the workload is judged functionally: the collective key
// (or the switched ciphertext) produced through the object under test must work under the ideal
// secret key with noise far below the modulus.

import (
	"fmt"

	"github.com/tuneinsight/lattigo/v6/core/rlwe"
	"github.com/tuneinsight/lattigo/v6/multiparty"
	"github.com/tuneinsight/lattigo/v6/ring"
	"github.com/tuneinsight/lattigo/v6/utils"
)

type mpEnv struct {
	ps      pset
	p       rlwe.Parameters
	n       int
	sks     []*rlwe.SecretKey // party shares of the input key
	skOuts  []*rlwe.SecretKey // party shares of the output key
	sk      *rlwe.SecretKey   // ideal input key
	skOut   *rlwe.SecretKey   // ideal output key
	tsk     *rlwe.SecretKey   // a target key pair for public key switching
	tpk     *rlwe.PublicKey
	msg     *rlwe.Plaintext
	ct      *rlwe.Ciphertext // encryption of msg under the ideal input key
	evkPs   []rlwe.EvaluationKeyParameters
	noise   ring.DiscreteGaussian
	galEl   uint64
	msgAut  *rlwe.Plaintext // automorphism galEl of msg
	ct2     *rlwe.Ciphertext
	nCRS    int
	crsBase string
}

func sumKeys(p rlwe.Parameters, ks []*rlwe.SecretKey) *rlwe.SecretKey {
	s := rlwe.NewSecretKey(p)
	rqp := p.RingQP()
	for _, k := range ks {
		rqp.Add(s.Value, k.Value, s.Value)
	}
	return s
}

func newMPEnv(ps pset, parties int) (*mpEnv, error) {
	p, err := ps.rlweParams()
	if err != nil {
		return nil, err
	}
	e := &mpEnv{ps: ps, p: p, n: parties, noise: ring.DiscreteGaussian{Sigma: 1 << 16, Bound: 6 * (1 << 16)}, crsBase: "crs/" + ps.Name}
	kgen := rlwe.NewKeyGenerator(p)
	for i := 0; i < parties; i++ {
		e.sks = append(e.sks, kgen.GenSecretKeyNew())
		e.skOuts = append(e.skOuts, kgen.GenSecretKeyNew())
	}
	e.sk, e.skOut = sumKeys(p, e.sks), sumKeys(p, e.skOuts)
	e.tsk, e.tpk = kgen.GenKeyPairNew()
	if ps.Pow2 > 0 {
		e.evkPs = []rlwe.EvaluationKeyParameters{{BaseTwoDecomposition: utils.Pointy(ps.Pow2)}}
	}
	be := &rlweEnv{ps: ps, p: p}
	e.msg = be.msgPt(p.MaxLevel(), 23)
	if e.ct, err = rlwe.NewEncryptor(p, e.sk).EncryptNew(e.msg); err != nil {
		return nil, err
	}
	e.galEl = p.GaloisElement(1)
	// expected plaintext after the automorphism
	rq := p.RingQ()
	e.msgAut = rlwe.NewPlaintext(p, p.MaxLevel())
	*e.msgAut.MetaData = *e.msg.MetaData
	tmp := rq.NewPoly()
	if e.msg.IsNTT {
		rq.INTT(e.msg.Value, tmp)
	} else {
		tmp.Copy(e.msg.Value)
	}
	rq.Automorphism(tmp, e.galEl, e.msgAut.Value)
	if e.msg.IsNTT {
		rq.NTT(e.msgAut.Value, e.msgAut.Value)
	}
	// degree-2 ciphertext of msg under (1, s, s^2): c0 = msg - a1 s - a2 s^2 + e
	e.ct2 = rlwe.NewCiphertext(p, 2, p.MaxLevel())
	*e.ct2.MetaData = *e.ct.MetaData
	fillPoly(rq, e.ct2.Value[1], 101)
	fillPoly(rq, e.ct2.Value[2], 102)
	toNTT := func(x ring.Poly) ring.Poly {
		y := *x.CopyNew()
		if !e.ct.IsNTT {
			rq.NTT(y, y)
		}
		return y
	}
	a1, a2 := toNTT(e.ct2.Value[1]), toNTT(e.ct2.Value[2])
	acc := rq.NewPoly()
	rq.MulCoeffsMontgomery(a2, e.sk.Value.Q, acc)
	rq.Add(acc, a1, acc)
	rq.MulCoeffsMontgomery(acc, e.sk.Value.Q, acc) // a1 s + a2 s^2
	c0 := toNTT(e.ct.Value[0])
	c1 := toNTT(e.ct.Value[1])
	rq.MulCoeffsMontgomery(c1, e.sk.Value.Q, c1)
	rq.Add(c0, c1, c0) // msg + e (phase of ct)
	rq.Sub(c0, acc, c0)
	if !e.ct.IsNTT {
		rq.INTT(c0, c0)
	}
	e.ct2.Value[0].Copy(c0)
	return e, nil
}

func (e *mpEnv) crs(tag string) multiparty.CRS { return keyedPRNG(e.crsBase + "/" + tag) }

func (e *mpEnv) verdict(ct *rlwe.Ciphertext, sk *rlwe.SecretKey, pt *rlwe.Plaintext) string {
	return noiseVerdict(e.p, ct, sk, pt)
}

func (e *mpEnv) subjects() (subs []*subject) {
	tag := fmt.Sprintf("%s/n%d", e.ps.Name, e.n)
	p := e.p
	add := func(s *subject) {
		s.Safe, s.Random, s.Cfg = true, true, tag
		subs = append(subs, s)
	}
	smp := []string{}
	// ---- collective public key
	add(&subject{Ctor: "multiparty.PublicKeyGenProtocol.ShallowCopy", Scratch: smp,
		Make: func() any { x := multiparty.NewPublicKeyGenProtocol(p); return &x },
		Copy: func(o any) any { x := o.(*multiparty.PublicKeyGenProtocol).ShallowCopy(); return &x },
		Work: func(x any) (o outs) {
			ckg := *x.(*multiparty.PublicKeyGenProtocol)
			crp := ckg.SampleCRP(e.crs("cpk"))
			agg := ckg.AllocateShare()
			for i, sk := range e.sks {
				sh := ckg.AllocateShare()
				ckg.GenShare(sk, crp, &sh)
				if i == 0 {
					agg = sh
				} else {
					ckg.AggregateShares(agg, sh, &agg)
				}
			}
			pk := rlwe.NewPublicKey(p)
			ckg.GenPublicKey(agg, crp, pk)
			ct, err := rlwe.NewEncryptor(p, pk).EncryptNew(e.msg)
			if err != nil {
				o.add("GenPublicKey", "error: %v", err)
				return
			}
			o.add("GenPublicKey", e.verdict(ct, e.sk, e.msg))
			return
		}})
	// ---- collective relinearization key
	add(&subject{Ctor: "multiparty.RelinearizationKeyGenProtocol.ShallowCopy", Scratch: append([]string{"*.buf"}, smp...),
		Make: func() any { x := multiparty.NewRelinearizationKeyGenProtocol(p); return &x },
		Copy: func(o any) any { x := o.(*multiparty.RelinearizationKeyGenProtocol).ShallowCopy(); return &x },
		Work: func(x any) (o outs) {
			rkg := *x.(*multiparty.RelinearizationKeyGenProtocol)
			crp := rkg.SampleCRP(e.crs("rlk"), e.evkPs...)
			eph := make([]*rlwe.SecretKey, e.n)
			var r1agg, r2agg multiparty.RelinearizationKeyGenShare
			r1s := make([]multiparty.RelinearizationKeyGenShare, e.n)
			for i, sk := range e.sks {
				var r1 multiparty.RelinearizationKeyGenShare
				eph[i], r1, _ = rkg.AllocateShare(e.evkPs...)
				rkg.GenShareRoundOne(sk, crp, eph[i], &r1)
				r1s[i] = r1
				if i == 0 {
					_, r1agg, _ = rkg.AllocateShare(e.evkPs...)
					rkg.AggregateShares(r1, r1agg, &r1agg)
				} else {
					rkg.AggregateShares(r1agg, r1, &r1agg)
				}
			}
			for i, sk := range e.sks {
				_, _, r2 := rkg.AllocateShare(e.evkPs...)
				rkg.GenShareRoundTwo(eph[i], sk, r1agg, &r2)
				if i == 0 {
					_, _, r2agg = rkg.AllocateShare(e.evkPs...)
					rkg.AggregateShares(r2, r2agg, &r2agg)
				} else {
					rkg.AggregateShares(r2agg, r2, &r2agg)
				}
			}
			rlk := rlwe.NewRelinearizationKey(p, e.evkPs...)
			rkg.GenRelinearizationKey(r1agg, r2agg, rlk)
			out := rlwe.NewCiphertext(p, 1, p.MaxLevel())
			if err := rlwe.NewEvaluator(p, rlwe.NewMemEvaluationKeySet(rlk)).Relinearize(e.ct2, out); err != nil {
				o.add("GenRelinearizationKey", "error: %v", err)
				return
			}
			o.add("GenRelinearizationKey", e.verdict(out, e.sk, e.msg))
			return
		}})
	// ---- collective evaluation key sk -> skOut
	add(&subject{Ctor: "multiparty.EvaluationKeyGenProtocol.ShallowCopy", Scratch: append([]string{"*.buff"}, smp...),
		Make: func() any { x := multiparty.NewEvaluationKeyGenProtocol(p); return &x },
		Copy: func(o any) any { x := o.(*multiparty.EvaluationKeyGenProtocol).ShallowCopy(); return &x },
		Work: func(x any) (o outs) {
			g := *x.(*multiparty.EvaluationKeyGenProtocol)
			crp := g.SampleCRP(e.crs("evk"), e.evkPs...)
			agg := g.AllocateShare(e.evkPs...)
			for i := range e.sks {
				sh := g.AllocateShare(e.evkPs...)
				if err := g.GenShare(e.sks[i], e.skOuts[i], crp, &sh); err != nil {
					o.add("GenShare", "error: %v", err)
					return
				}
				if i == 0 {
					agg = sh
				} else if err := g.AggregateShares(agg, sh, &agg); err != nil {
					o.add("AggregateShares", "error: %v", err)
					return
				}
			}
			evk := rlwe.NewEvaluationKey(p, e.evkPs...)
			if err := g.GenEvaluationKey(agg, crp, evk); err != nil {
				o.add("GenEvaluationKey", "error: %v", err)
				return
			}
			out := rlwe.NewCiphertext(p, 1, p.MaxLevel())
			if err := rlwe.NewEvaluator(p, nil).ApplyEvaluationKey(e.ct, evk, out); err != nil {
				o.add("GenEvaluationKey", "error: %v", err)
				return
			}
			o.add("GenEvaluationKey", e.verdict(out, e.skOut, e.msg))
			return
		}})
	// ---- collective Galois key
	if p.NTTFlag() {
		add(&subject{Ctor: "multiparty.GaloisKeyGenProtocol.ShallowCopy", Scratch: append([]string{"*.skOut", "*.EvaluationKeyGenProtocol.buff", "*.EvaluationKeyGenProtocol.buff"}, smp...),
			Make: func() any { x := multiparty.NewGaloisKeyGenProtocol(p); return &x },
			Copy: func(o any) any { x := o.(*multiparty.GaloisKeyGenProtocol).ShallowCopy(); return &x },
			Work: func(x any) (o outs) {
				g := *x.(*multiparty.GaloisKeyGenProtocol)
				crp := g.SampleCRP(e.crs("gk"), e.evkPs...)
				agg := g.AllocateShare(e.evkPs...)
				for i := range e.sks {
					sh := g.AllocateShare(e.evkPs...)
					if err := g.GenShare(e.sks[i], e.galEl, crp, &sh); err != nil {
						o.add("GenShare", "error: %v", err)
						return
					}
					if i == 0 {
						agg = sh
					} else if err := g.AggregateShares(agg, sh, &agg); err != nil {
						o.add("AggregateShares", "error: %v", err)
						return
					}
				}
				gk := rlwe.NewGaloisKey(p, e.evkPs...)
				if err := g.GenGaloisKey(agg, crp, gk); err != nil {
					o.add("GenGaloisKey", "error: %v", err)
					return
				}
				out := rlwe.NewCiphertext(p, 1, p.MaxLevel())
				if err := rlwe.NewEvaluator(p, rlwe.NewMemEvaluationKeySet(nil, gk)).Automorphism(e.ct, e.galEl, out); err != nil {
					o.add("GenGaloisKey", "error: %v", err)
					return
				}
				o.add("GenGaloisKey", e.verdict(out, e.sk, e.msgAut))
				return
			}})
	}
	// ---- collective key switching sk -> skOut
	add(&subject{Ctor: "multiparty.KeySwitchProtocol.ShallowCopy", Scratch: append([]string{"*.buf", "*.bufDelta"}, smp...),
		Make: func() any {
			x, err := multiparty.NewKeySwitchProtocol(p, e.noise)
			if err != nil {
				panic(err)
			}
			return &x
		},
		Copy: func(o any) any { x := o.(*multiparty.KeySwitchProtocol).ShallowCopy(); return &x },
		Work: func(x any) (o outs) {
			cks := *x.(*multiparty.KeySwitchProtocol)
			for _, lvl := range []int{p.MaxLevel(), 0} {
				ct := e.ct
				msg := e.msg
				if lvl != p.MaxLevel() {
					ct = e.ct.CopyNew()
					ct.Resize(1, lvl)
					msg = e.msg.CopyNew()
					msg.Resize(0, lvl)
				}
				agg := cks.AllocateShare(lvl)
				for i := range e.sks {
					sh := cks.AllocateShare(lvl)
					cks.GenShare(e.sks[i], e.skOuts[i], ct, &sh)
					if i == 0 {
						agg = sh
					} else if err := cks.AggregateShares(agg, sh, &agg); err != nil {
						o.add("AggregateShares", "error: %v", err)
						return
					}
				}
				out := rlwe.NewCiphertext(p, 1, lvl)
				cks.KeySwitch(ct, agg, out)
				o.add(fmt.Sprintf("KeySwitch/l%d", lvl), e.verdict(out, e.skOut, msg))
				if lvl == 0 {
					break
				}
			}
			return
		}})
	// ---- collective public-key switching sk -> tpk
	add(&subject{Ctor: "multiparty.PublicKeySwitchProtocol.ShallowCopy",
		Scratch: append([]string{"*.buf", "*.Encryptor*.encryptorBuffers", "*.Encryptor*.basisextender*.buffQ", "*.Encryptor*.basisextender*.buffP"}, smp...),
		Make: func() any {
			x, err := multiparty.NewPublicKeySwitchProtocol(p, e.noise)
			if err != nil {
				panic(err)
			}
			return &x
		},
		Copy: func(o any) any { x := o.(*multiparty.PublicKeySwitchProtocol).ShallowCopy(); return &x },
		Work: func(x any) (o outs) {
			pcks := *x.(*multiparty.PublicKeySwitchProtocol)
			lvl := p.MaxLevel()
			agg := pcks.AllocateShare(lvl)
			for i := range e.sks {
				sh := pcks.AllocateShare(lvl)
				pcks.GenShare(e.sks[i], e.tpk, e.ct, &sh)
				if i == 0 {
					agg = sh
				} else if err := pcks.AggregateShares(agg, sh, &agg); err != nil {
					o.add("AggregateShares", "error: %v", err)
					return
				}
			}
			out := rlwe.NewCiphertext(p, 1, lvl)
			pcks.KeySwitch(e.ct, agg, out)
			o.add("KeySwitch", e.verdict(out, e.tsk, e.msg))
			return
		}})
	return
}
