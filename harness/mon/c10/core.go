package c10

import (
	"fmt"
	"hash/fnv"
	"runtime"
	"sort"
	"strings"
	"sync"
	"sync/atomic"

	"github.com/tuneinsight/lattigo/v6/core/rlwe"
	"github.com/tuneinsight/lattigo/v6/ring"
	"github.com/tuneinsight/lattigo/v6/ring/ringqp"

	"verif/harness/eng"
)

// out is one named result of a workload step. For deterministic subjects Val is a digest of the
// canonical output; for randomised subjects it is the functional verdict ("ok" / what failed).
type out struct {
	Op  string
	Val string
}

type outs []out

func (o *outs) add(op, format string, a ...any) { *o = append(*o, out{op, fmt.Sprintf(format, a...)}) }

// subject = one copy constructor of one type, in one configuration.
type subject struct {
	Ctor string // e.g. "rlwe.Evaluator.ShallowCopy" (signature component)
	Cfg  string // configuration tag of the original (evidence key)
	// Safe: the constructor documents that original and copy can be used concurrently, so no memory
	// that any method writes may be shared. Deep: CopyNew, nothing at all may be shared.
	Safe, Deep bool
	// Random: outputs are not bit-reproducible (fresh randomness inside); Work returns verdicts.
	Random  bool
	Rebound []string        // normalised path prefixes the constructor is asked to change
	Scratch []string        // normalised path prefixes of scratch memory (contents / over-allocation not compared)
	Make    func() any      // a fresh original (pointer)
	Copy    func(o any) any // the constructor under test (returns a pointer)
	// Work runs the differential workload on x (original or copy) and returns its results. It must
	// not keep references to x's scratch memory in the results. g is the goroutine index (0 when
	// sequential): workloads may use it only to pick private scratch inputs.
	Work func(x any) outs
	// WorkO, when set, is the workload of the original (constructors that rebind something: the copy
	// answers under another key, the original must keep answering under its own).
	WorkO func(x any) outs
	// Ref, when set, is the independent reference the copy is compared with instead of a fresh
	// original (constructors that rebind something: WithKey, WithPRNG, AtLevel, WithParams).
	Ref func() outs
	// NoStruct: skip the parallel field comparison (constructors whose result is not the same type
	// configuration, e.g. AtLevel of another level).
	NoStruct bool
	// FreshStructOnly: no field comparison between a used original and its copy (objects whose scratch
	// state is spread over many nested evaluators).
	FreshStructOnly bool
}

func (s *subject) key() string { return s.Ctor + "/" + s.Cfg }

func sigOf(ctor, class string, more ...string) string {
	s := "C10|" + ctor + "|" + class
	for _, m := range more {
		if m != "" {
			s += "|" + m
		}
	}
	return s
}

// attribute maps a (constructor, path) pair to the constructor that owns the memory when the walk
// goes through a nested copy constructor that is judged on its own: ciphertexts, plaintexts and
// elements copy their metadata with MetaData.CopyNew, relinearization and Galois keys copy their
// payload with EvaluationKey.CopyNew. One root cause then has one signature.
func attribute(ctor, path string) (string, string) {
	switch {
	case strings.Contains(path, "PlaintextMetaData.Scale"):
		return "rlwe.MetaData.CopyNew", "Scale"
	case strings.HasSuffix(path, "EvaluationKey.Seed"):
		return "rlwe.EvaluationKey.CopyNew", "*.Seed"
	}
	return ctor, path
}

// diffOuts returns the first differing op ("" when equal).
func diffOuts(a, b outs) (op, detail string) {
	n := len(a)
	if len(b) < n {
		n = len(b)
	}
	for i := 0; i < n; i++ {
		if a[i].Op != b[i].Op {
			return a[i].Op, fmt.Sprintf("step %d is %s on one side and %s on the other", i, a[i].Op, b[i].Op)
		}
		if a[i].Val != b[i].Val {
			return a[i].Op, fmt.Sprintf("step %d (%s): %s vs %s", i, a[i].Op, clip(a[i].Val), clip(b[i].Val))
		}
	}
	if len(a) != len(b) {
		return "<steps>", fmt.Sprintf("%d steps vs %d", len(a), len(b))
	}
	return "", ""
}

func clip(s string) string {
	if len(s) > 160 {
		return s[:160] + "…"
	}
	return s
}

// tryWork runs a workload and converts a panic into a result entry, so that "the copy panics where
// the original does not" is a difference.
func tryWork(w func(any) outs, x any) (o outs) {
	defer func() {
		if r := recover(); r != nil {
			o = append(o, out{"<panic>", firstLine(fmt.Sprint(r))})
		}
	}()
	return w(x)
}

func firstLine(s string) string {
	if i := strings.IndexByte(s, '\n'); i >= 0 {
		s = s[:i]
	}
	// strip numbers that depend on the schedule / addresses
	return clip(s)
}

func hasPanic(o outs) (bool, string) {
	for _, x := range o {
		if x.Op == "<panic>" {
			return true, x.Val
		}
	}
	return false, ""
}

func allOK(o outs) (bool, string) {
	for _, x := range o {
		if x.Val != "ok" {
			return false, x.Op + ": " + x.Val
		}
	}
	return true, ""
}

// ---------------------------------------------------------------------------------------------
// structural judgement

func structural(c *eng.Ctx, s *subject, o, cp any, fresh bool) {
	if s.NoStruct {
		return
	}
	issues, st := compareObjects(o, cp, cmpOpts{content: fresh, rebound: s.Rebound, scratch: s.Scratch})
	c.Eval(st.scalars + st.shared + st.realloc + st.funcs)
	c.Count("fields_scalar_compared", int64(st.scalars))
	c.Count("fields_shared_same_pointer", int64(st.shared))
	c.Count("fields_reallocated", int64(st.realloc))
	c.Count("fields_rebound_skipped", int64(st.skippedRebound))
	c.Count("scratch_larger_in_copy", int64(st.largerInCopy))
	seen := map[string]bool{}
	for _, is := range issues {
		k := is.class + is.path
		if seen[k] {
			continue
		}
		seen[k] = true
		ctor, path := attribute(s.Ctor, is.path)
		c.Violate(sigOf(ctor, is.class, path), fmt.Sprintf("%s [%s]: %s at %s: %s", s.Ctor, s.Cfg, is.class, is.path, is.detail), nil)
	}
}

type sharedSet struct {
	regs []sharedRegion
	h    []uint64
}

func snapshotShared(o, cp any) *sharedSet {
	ss := &sharedSet{regs: overlap(regionsOf(o), regionsOf(cp))}
	ss.h = make([]uint64, len(ss.regs))
	for i, r := range ss.regs {
		ss.h[i] = hashRegion(r.o)
	}
	return ss
}

// changed returns the normalised paths (original side / copy side) of shared regions whose content
// is no longer what it was at snapshot time.
func (ss *sharedSet) changed() []string {
	var out []string
	seen := map[string]bool{}
	for i, r := range ss.regs {
		if hashRegion(r.o) != ss.h[i] {
			p := normPath(r.o.path)
			if !seen[p] {
				seen[p] = true
				out = append(out, p)
			}
		}
	}
	sort.Strings(out)
	return out
}

func (ss *sharedSet) paths() []string {
	seen := map[string]bool{}
	var out []string
	for _, r := range ss.regs {
		p := normPath(r.o.path) + " ~ " + normPath(r.c.path)
		if !seen[p] {
			seen[p] = true
			out = append(out, p)
		}
	}
	sort.Strings(out)
	return out
}

// ---------------------------------------------------------------------------------------------
// sequential driver: structural + differential + interleaving + sharing

// trivialSubject: the original is in its default configuration and the constructor has nothing to
// carry over or rebind - a keyless evaluator / encryptor that is only shallow-copied, a nil basis
// extender, a view at the level the ring already has, a container of plain numbers.
func trivialSubject(s *subject) bool {
	switch {
	case strings.HasSuffix(s.Ctor, ".ShallowCopy") && strings.HasSuffix(s.Cfg, "/nil"):
		return true
	case s.Ctor == "ring.Ring.AtLevel" && !s.NoStruct:
		return true
	case strings.HasPrefix(s.Ctor, "structs.") && (strings.HasSuffix(s.Cfg, "/uint64") || strings.Contains(s.Cfg, "/float64")):
		return true
	}
	return false
}

func runSubject(c *eng.Ctx, s *subject) {
	c.Distinct(s.key(), !trivialSubject(s))
	if trivialSubject(s) {
		c.Count("subjects_trivial", 1)
	}
	c.Count("subjects_run", 1)
	c.Count("ctor:"+s.Ctor, 1)
	if strings.Contains(s.Cfg, "/of-") || strings.Contains(s.Cfg, "/then-") {
		c.Count("chained_constructor_subjects", 1) // a constructor applied to the result of another one
	}
	if strings.Contains(s.Cfg, "Xe") {
		c.Count("nondefault_error_distribution_subjects", 1)
	}
	if s.Deep {
		runDeep(c, s)
		return
	}
	var o, cp any
	if !c.Try(sigOf(s.Ctor, "construct"), func() {
		o = s.Make()
		cp = s.Copy(o)
	}) {
		return
	}
	// (1) structure of a copy of a fresh original
	c.Try(sigOf(s.Ctor, "structural"), func() { structural(c, s, o, cp, true) })

	// (2) references: a fresh original that never sees a copy; for the copy either the same, or the
	//     independent reference of the subject
	workO := s.Work
	if s.WorkO != nil {
		workO = s.WorkO
	}
	refO, refC, ok := references(c, s)
	if !ok {
		return
	}
	ss := snapshotShared(o, cp)
	c.Count("shared_regions_watched", int64(len(ss.regs)))
	copyFailed := false
	judge := func(what string, ref, got outs, class string) {
		if copyFailed && class != "original-disturbed" {
			return // one defect, one signature: the first difference of the copy has been reported
		}
		c.Eval(len(got))
		c.Count("differential_steps", int64(len(got)))
		if p, msg := hasPanic(got); p {
			copyFailed = copyFailed || class != "original-nondeterministic" && class != "original-disturbed"
			c.Violate(sigOf(s.Ctor, class, "panic"), fmt.Sprintf("%s [%s]: %s panics where the reference does not: %s", s.Ctor, s.Cfg, what, msg), nil)
			return
		}
		if s.Random {
			if ok, w := allOK(got); !ok {
				copyFailed = copyFailed || class != "original-nondeterministic" && class != "original-disturbed"
				c.Violate(sigOf(s.Ctor, class, opOf(w)), fmt.Sprintf("%s [%s]: %s fails where the reference succeeds: %s", s.Ctor, s.Cfg, what, w), nil)
			}
			return
		}
		if op, d := diffOuts(ref, got); op != "" {
			copyFailed = copyFailed || class != "original-nondeterministic" && class != "original-disturbed"
			c.Violate(sigOf(s.Ctor, class, op), fmt.Sprintf("%s [%s]: %s differs from the reference: %s", s.Ctor, s.Cfg, what, d), nil)
		}
	}
	// (3) original / copy / original / copy
	judge("the original before the copy is used", refO, tryWork(workO, o), "original-nondeterministic")
	judge("the copy", refC, tryWork(s.Work, cp), "copy-differs")
	judge("the original after the copy was used", refO, tryWork(workO, o), "original-disturbed")
	judge("the copy after the original was used again", refC, tryWork(s.Work, cp), "copy-disturbed")
	// (4) memory shared by original and copy must not have been written (concurrency-safe constructors)
	ch := ss.changed()
	c.Eval(len(ss.regs))
	for _, p := range ch {
		if s.Safe {
			c.Violate(sigOf(s.Ctor, "shared-mutable", p), fmt.Sprintf("%s [%s]: memory reachable from both the original (%s) and the copy was written by the workload although the constructor documents concurrent use; shared: %v", s.Ctor, s.Cfg, p, clip(fmt.Sprint(ss.paths()))), nil)
		} else {
			c.Count("unsafe_ctor_shared_mutable_state", 1)
		}
	}
	// (5) copy of a used original, copy of a copy
	var cp2, cp3 any
	if c.Try(sigOf(s.Ctor, "construct"), func() { cp2 = s.Copy(o); cp3 = s.Copy(cp) }) {
		if !s.FreshStructOnly {
			c.Try(sigOf(s.Ctor, "structural"), func() { structural(c, s, o, cp2, false) })
		}
		judge("a copy of a used original", refC, tryWork(s.Work, cp2), "copy-of-used-differs")
		judge("a copy of a copy", refC, tryWork(s.Work, cp3), "copy-of-copy-differs")
	}
}

func opOf(w string) string {
	if i := strings.Index(w, ": "); i > 0 {
		return w[:i]
	}
	return w
}

// references returns the expected results of the original and of the copy.
func references(c *eng.Ctx, s *subject) (refO, refC outs, ok bool) {
	workO := s.Work
	if s.WorkO != nil {
		workO = s.WorkO
	}
	refO = tryWork(workO, s.Make())
	if p, what := hasPanic(refO); p {
		c.Count("baseline_panics_not_judged", 1)
		c.Inconclusive(fmt.Sprintf("%s [%s]: reference workload panics (%s)", s.Ctor, s.Cfg, what))
		return nil, nil, false
	}
	if s.Random {
		if ok, what := allOK(refO); !ok {
			c.Count("baseline_failures_not_judged", 1)
			c.Inconclusive(fmt.Sprintf("%s [%s]: reference workload fails on its own (%s)", s.Ctor, s.Cfg, what))
			return nil, nil, false
		}
		return refO, nil, true
	}
	switch {
	case s.Ref != nil:
		refC = tryWork(func(any) outs { return s.Ref() }, nil)
		if p, what := hasPanic(refC); p {
			c.Count("baseline_panics_not_judged", 1)
			c.Inconclusive(fmt.Sprintf("%s [%s]: independent reference panics (%s)", s.Ctor, s.Cfg, what))
			return nil, nil, false
		}
	case s.WorkO == nil:
		refC = refO
	default:
		panic("subject " + s.key() + ": deterministic subject with WorkO needs Ref")
	}
	return refO, refC, true
}

// runDeep: CopyNew. Equal content, no shared memory, mutation of one side invisible on the other,
// and the copy is usable in place of the original (Work).
func runDeep(c *eng.Ctx, s *subject) {
	var o, cp any
	if !c.Try(sigOf(s.Ctor, "construct"), func() {
		o = s.Make()
		cp = s.Copy(o)
	}) {
		return
	}
	c.Try(sigOf(s.Ctor, "structural"), func() { structural(c, s, o, cp, true) })
	sh := overlap(regionsOf(o), regionsOf(cp))
	c.Eval(1)
	seen := map[string]bool{}
	// owner of the shared memory when all of it has one owner (signature of the bit-flip checks)
	flipCtor, flipPath := s.Ctor, ""
	for _, r := range sh {
		ctor, p := attribute(s.Ctor, normPath(r.o.path))
		if seen[ctor+p] {
			continue
		}
		if len(seen) == 0 {
			flipCtor, flipPath = ctor, p
		} else if ctor != flipCtor || p != flipPath {
			flipCtor, flipPath = s.Ctor, ""
		}
		seen[ctor+p] = true
		c.Violate(sigOf(ctor, "deep-copy-shares-memory", p), fmt.Sprintf("%s [%s]: %s of the original and %s of the copy are the same memory", s.Ctor, s.Cfg, r.o.path, r.c.path), nil)
	}
	c.Count("deep_copy_regions", int64(len(regionsOf(cp))))
	// a deep copy is an object of its own also when it is grown in place: no slice of the copy may keep spare
	// capacity that covers live elements of another of its slices (unless the original is built that way)
	if ov := capOverlaps(cp); len(ov) > 0 && len(capOverlaps(o)) == 0 {
		ctor, p := attribute(s.Ctor, ov[0])
		c.Violate(sigOf(ctor, "deep-copy-spare-capacity-covers-another-row", p), fmt.Sprintf("%s [%s]: the spare capacity of %s in the copy overlaps the elements of another slice of the copy (%d such slices)", s.Ctor, s.Cfg, ov[0], len(ov)), nil)
	}
	if s.Work != nil {
		ref := tryWork(s.Work, o)
		got := tryWork(s.Work, cp)
		c.Eval(len(got))
		c.Count("differential_steps", int64(len(got)))
		if op, d := diffOuts(ref, got); op != "" {
			c.Violate(sigOf(s.Ctor, "copy-differs", op), fmt.Sprintf("%s [%s]: the copy does not behave like the original: %s", s.Ctor, s.Cfg, d), nil)
		}
		after := tryWork(s.Work, o)
		if op, d := diffOuts(ref, after); op != "" {
			c.Violate(sigOf(s.Ctor, "original-disturbed", op), fmt.Sprintf("%s [%s]: %s", s.Ctor, s.Cfg, d), nil)
		}
	}
	// mutate the copy: the original must keep its value; then the other way round with a new pair
	d0 := deepDigest(o)
	n := mutateAll(cp)
	c.Count("bytes_flipped", int64(n))
	c.Check(deepDigest(o) == d0, sigOf(flipCtor, "copy-mutation-visible-in-original", flipPath), func() string {
		return fmt.Sprintf("%s [%s]: flipping every bit of the copy (%d bytes) changed the original", s.Ctor, s.Cfg, n)
	})
	o2 := s.Make()
	cp2 := s.Copy(o2)
	d1 := deepDigest(cp2)
	n2 := mutateAll(o2)
	c.Count("bytes_flipped", int64(n2))
	c.Check(deepDigest(cp2) == d1, sigOf(flipCtor, "original-mutation-visible-in-copy", flipPath), func() string {
		return fmt.Sprintf("%s [%s]: flipping every bit of the original (%d bytes) changed the copy", s.Ctor, s.Cfg, n2)
	})
}

// ---------------------------------------------------------------------------------------------
// concurrent driver (race worker)

type raceCfg struct {
	Group      string `json:"group"`
	Param      string `json:"param"`
	Goroutines int    `json:"goroutines"`
	MaxProcs   int    `json:"gomaxprocs"`
	Reps       int    `json:"reps"`
}

// runConcurrent: G goroutines, goroutine 0 uses the original, the others one copy each (copies are
// made before the start); all run the workload reps times simultaneously. Every result must equal
// the sequential reference. Races are reported by the race detector (parsed by the driver).
func runConcurrent(c *eng.Ctx, s *subject, rc raceCfg) {
	c.Distinct(fmt.Sprintf("race/%s/g%d/p%d", s.key(), rc.Goroutines, rc.MaxProcs), !trivialSubject(s))
	c.Count("race_subjects_run", 1)
	c.Count("race_ctor:"+s.Ctor, 1)
	workO := s.Work
	if s.WorkO != nil {
		workO = s.WorkO
	}
	// The sequential references are computed AFTER the concurrent phase: whatever the library builds lazily on
	// first use and shares between objects (tables keyed by ring degree / Galois element ...) must be built safely
	// when the first users are concurrent, and a reference run before would build it for them.
	G := rc.Goroutines
	o := s.Make()
	xs := make([]any, G)
	for g := 0; g < G; g++ {
		if g == 0 {
			xs[g] = o
		} else {
			xs[g] = s.Copy(o)
		}
	}
	if rc.MaxProcs > 0 {
		old := runtime.GOMAXPROCS(rc.MaxProcs)
		defer runtime.GOMAXPROCS(old)
	}
	var active, overlapped, total int64
	var wg sync.WaitGroup
	start := make(chan struct{})
	res := make([][]outs, G)
	for g := 0; g < G; g++ {
		wg.Add(1)
		go func(g int) {
			defer wg.Done()
			<-start
			// staggered start offsets
			for k := 0; k < g%3; k++ {
				runtime.Gosched()
			}
			for r := 0; r < rc.Reps; r++ {
				n := atomic.AddInt64(&active, 1)
				ov := n > 1
				w := s.Work
				if g == 0 {
					w = workO
				}
				got := tryWork(w, xs[g])
				if atomic.AddInt64(&active, -1) > 0 {
					ov = true
				}
				if ov {
					atomic.AddInt64(&overlapped, 1)
				}
				atomic.AddInt64(&total, 1)
				res[g] = append(res[g], got)
			}
		}(g)
	}
	close(start)
	wg.Wait()
	refO, refC, ok := references(c, s)
	if !ok {
		return
	}
	c.Count("concurrent_workload_runs", total)
	c.Count("concurrent_workload_runs_overlapping", overlapped)
	c.Max("max_goroutines", int64(G))
	for g := 0; g < G; g++ {
		ref, who := refC, "a copy"
		if g == 0 {
			ref, who = refO, "the original"
		}
		for r, got := range res[g] {
			c.Eval(len(got))
			where := fmt.Sprintf("%s [%s]: %s (goroutine %d of %d, repetition %d, GOMAXPROCS %d)", s.Ctor, s.Cfg, who, g, G, r, rc.MaxProcs)
			if p, msg := hasPanic(got); p {
				c.Violate(sigOf(s.Ctor, "concurrent-panic"), where+" panics: "+msg, rc)
				continue
			}
			if s.Random {
				if ok, w := allOK(got); !ok {
					c.Violate(sigOf(s.Ctor, "concurrent-result-differs", opOf(w)), where+" fails: "+w, rc)
				}
				continue
			}
			if op, d := diffOuts(ref, got); op != "" {
				c.Violate(sigOf(s.Ctor, "concurrent-result-differs", op), where+" differs from the sequential reference: "+d, rc)
			}
		}
	}
}

// ---------------------------------------------------------------------------------------------
// canonical digests of outputs

func hashU64s(h uint64, v []uint64) uint64 {
	for _, x := range v {
		h ^= x
		h *= 1099511628211
	}
	return h
}

// digestRows hashes rows reduced modulo the moduli of r (all rows when r is nil: raw).
func digestRows(r *ring.Ring, rows [][]uint64) uint64 {
	h := uint64(1469598103934665603)
	for i, row := range rows {
		var q uint64
		if r != nil && i < len(r.SubRings) {
			q = r.SubRings[i].Modulus
		}
		h ^= uint64(len(row))<<32 | uint64(i)
		h *= 1099511628211
		for _, x := range row {
			if q != 0 {
				x %= q
			}
			h ^= x
			h *= 1099511628211
		}
	}
	return h
}

func digestPoly(r *ring.Ring, p ring.Poly) string {
	return fmt.Sprintf("L%d:%016x", p.Level(), digestRows(r, p.Coeffs))
}

func digestPolyQP(r *ringqp.Ring, p ringqp.Poly) string {
	var rq, rp *ring.Ring
	if r != nil {
		rq, rp = r.RingQ, r.RingP
	}
	return digestPoly(rq, p.Q) + "/" + digestPoly(rp, p.P)
}

func metaString(m *rlwe.MetaData) string {
	if m == nil {
		return "nil"
	}
	mod := "nil"
	if m.Scale.Mod != nil {
		mod = m.Scale.Mod.Text(10)
	}
	return fmt.Sprintf("scale=%s mod=%s dims=%d,%d b=%v br=%v ntt=%v mont=%v", m.Scale.Value.Text('p', 0), mod,
		m.LogDimensions.Rows, m.LogDimensions.Cols, m.IsBatched, m.IsBitReversed, m.IsNTT, m.IsMontgomery)
}

func digestCt(rq *ring.Ring, ct *rlwe.Ciphertext) string {
	if ct == nil {
		return "nil"
	}
	s := fmt.Sprintf("deg%d %s", ct.Degree(), metaString(ct.MetaData))
	for i := range ct.Value {
		s += " " + digestPoly(rq, ct.Value[i])
	}
	return s
}

func digestPt(rq *ring.Ring, pt *rlwe.Plaintext) string {
	if pt == nil {
		return "nil"
	}
	return metaString(pt.MetaData) + " " + digestPoly(rq, pt.Value)
}

func digestAny(x any) string {
	h := fnv.New64a()
	fmt.Fprintf(h, "%v", x)
	return fmt.Sprintf("%016x", h.Sum64())
}

func errString(err error) string {
	if err == nil {
		return "<nil>"
	}
	return "error"
}
