package c10

// rlwe layer: Encryptor (ShallowCopy, WithKey, WithPRNG), Decryptor (ShallowCopy, WithKey),
// Evaluator (ShallowCopy, WithKey), RingPackingEvaluator.ShallowCopy, MemEvaluationKeySet.ShallowCopy,
// deep copies of keys, plaintexts, ciphertexts, gadget ciphertexts and metadata.

import (
	"fmt"
	"math/big"
	"sort"

	"github.com/tuneinsight/lattigo/v6/core/rlwe"
	"github.com/tuneinsight/lattigo/v6/ring"
	"github.com/tuneinsight/lattigo/v6/ring/ringqp"
	"github.com/tuneinsight/lattigo/v6/utils"

	"verif/harness/obs"
)

func (p pset) xs() ring.DistributionParameters {
	switch p.Xs {
	case "h":
		return ring.Ternary{H: (1 << p.LogN) / 4}
	case "gauss":
		return ring.DiscreteGaussian{Sigma: 3.2, Bound: 19.2}
	}
	return ring.Ternary{P: 0.5}
}

// xe is the error distribution (nil: the default of the library).
func (p pset) xe() ring.DistributionParameters {
	switch p.Xe {
	case "wide":
		return ring.DiscreteGaussian{Sigma: 64, Bound: 384}
	case "tight":
		return ring.DiscreteGaussian{Sigma: 0.7, Bound: 2}
	case "tern":
		return ring.Ternary{P: 1.0 / 3}
	case "ternH":
		return ring.Ternary{H: (1 << p.LogN) / 8}
	}
	return nil
}

func (p pset) rlweParams() (rlwe.Parameters, error) {
	lit := rlwe.ParametersLiteral{LogN: p.LogN, Q: p.Q, P: p.P, Xs: p.xs(), RingType: p.ringType(), NTTFlag: !p.NoNTT}
	if xe := p.xe(); xe != nil {
		lit.Xe = xe
	}
	return rlwe.NewParametersFromLiteral(lit)
}

type rlweEnv struct {
	ps     pset
	p      rlwe.Parameters
	kgen   *rlwe.KeyGenerator
	sk     *rlwe.SecretKey
	sk2    *rlwe.SecretKey
	pk     *rlwe.PublicKey
	pk2    *rlwe.PublicKey
	rlk    *rlwe.RelinearizationKey
	rlk2   *rlwe.RelinearizationKey
	galEls []uint64
	gks    []*rlwe.GaloisKey
	gks2   []*rlwe.GaloisKey
	swk    *rlwe.EvaluationKey // sk -> sk2
	evkPs  []rlwe.EvaluationKeyParameters
	evk    *rlwe.MemEvaluationKeySet // rlk + all gks (sk)
	evk2   *rlwe.MemEvaluationKeySet // same under sk2
	// deterministic inputs
	ct1, ct1lo, ct2 *rlwe.Ciphertext
	innerN          int
	lateCfg         int // index of the late-galois-keys subject in evalSubjects()
}

// lateRaceSubject: shallow copies of an evaluator whose shared key set received Galois keys after
// the evaluator was built, restricted to plain automorphisms (the lazily filled index table).
func (e *rlweEnv) lateRaceSubject() *subject {
	s := *e.evalSubjects()[e.lateCfg]
	s.Work = func(x any) (o outs) {
		ev := x.(*rlwe.Evaluator)
		for gi, g := range e.galEls {
			out := rlwe.NewCiphertext(e.p, 1, e.ct1.Level())
			if err := ev.Automorphism(e.ct1, g, out); err != nil {
				o.add(fmt.Sprintf("Automorphism/g%d", gi), "error")
			} else {
				o.add(fmt.Sprintf("Automorphism/g%d", gi), digestCt(e.p.RingQ(), out))
			}
		}
		return
	}
	return &s
}

func newRLWEEnv(ps pset) (*rlweEnv, error) {
	p, err := ps.rlweParams()
	if err != nil {
		return nil, err
	}
	e := &rlweEnv{ps: ps, p: p}
	e.kgen = rlwe.NewKeyGenerator(p)
	e.sk, e.pk = e.kgen.GenKeyPairNew()
	e.sk2, e.pk2 = e.kgen.GenKeyPairNew()
	if ps.Pow2 > 0 {
		e.evkPs = []rlwe.EvaluationKeyParameters{{BaseTwoDecomposition: utils.Pointy(ps.Pow2)}}
	}
	e.rlk = e.kgen.GenRelinearizationKeyNew(e.sk, e.evkPs...)
	e.rlk2 = e.kgen.GenRelinearizationKeyNew(e.sk2, e.evkPs...)
	e.innerN = 4
	gs := []uint64{p.GaloisElement(1), p.GaloisElement(3)}
	if p.RingType() == ring.Standard {
		gs = append(gs, p.GaloisElementOrderTwoOrthogonalSubgroup())
	}
	gs = append(gs, rlwe.GaloisElementsForInnerSum(p, 1, e.innerN)...)
	seen := map[uint64]bool{}
	for _, g := range gs {
		if !seen[g] && g != 1 {
			seen[g] = true
			e.galEls = append(e.galEls, g)
			e.gks = append(e.gks, e.kgen.GenGaloisKeyNew(g, e.sk, e.evkPs...))
			e.gks2 = append(e.gks2, e.kgen.GenGaloisKeyNew(g, e.sk2, e.evkPs...))
		}
	}
	e.swk = e.kgen.GenEvaluationKeyNew(e.sk, e.sk2, e.evkPs...)
	e.evk = rlwe.NewMemEvaluationKeySet(e.rlk, e.gks...)
	e.evk2 = rlwe.NewMemEvaluationKeySet(e.rlk2, e.gks2...)
	e.ct1 = e.detCt(1, p.MaxLevel(), 1)
	e.ct1lo = e.detCt(1, 0, 2)
	e.ct2 = e.detCt(2, p.MaxLevel(), 3)
	return e, nil
}

// detCt is a deterministic pseudo-ciphertext (uniform residues): the differential workload compares
// outputs bit for bit, it does not need a meaningful plaintext.
func (e *rlweEnv) detCt(deg, level int, seed uint64) *rlwe.Ciphertext {
	ct := rlwe.NewCiphertext(e.p, deg, level)
	for i := range ct.Value {
		fillPoly(e.p.RingQ(), ct.Value[i], seed*16+uint64(i))
	}
	ct.Scale = rlwe.NewScale(3)
	ct.IsBatched = true
	ct.LogDimensions = ring.Dimensions{Rows: 0, Cols: e.p.LogN() - 1}
	return ct
}

// encCt is a genuine encryption (under sk) of a deterministic small message polynomial.
func (e *rlweEnv) msgPt(level int, seed uint64) *rlwe.Plaintext {
	pt := rlwe.NewPlaintext(e.p, level)
	rq := e.p.RingQ().AtLevel(level)
	fillSmall(rq, pt.Value, seed)
	rq.MulScalar(pt.Value, 1<<30, pt.Value)
	if pt.IsNTT {
		rq.NTT(pt.Value, pt.Value)
	}
	return pt
}

// noiseOK: |phase(ct, sk) - pt| stays far below the modulus (log2 <= log2(Q_level) - 12); the
// parameter sets of this monitor keep every worst-case fresh / key-switch / smudging bound below that.
func (e *rlweEnv) noiseOK(ct *rlwe.Ciphertext, sk *rlwe.SecretKey, pt *rlwe.Plaintext) string {
	return noiseVerdict(e.p, ct, sk, pt)
}

func noiseVerdict(p rlwe.Parameters, ct *rlwe.Ciphertext, sk *rlwe.SecretKey, pt *rlwe.Plaintext) string {
	level := ct.Level()
	rq := p.RingQ().AtLevel(level)
	ph := obs.Phase(p, ct.El(), sk)
	want := obs.Plain(rq, pt.Value, pt.IsNTT, pt.IsMontgomery)
	d := obs.Diff(rq, ph, want)
	st := obs.Stat(d)
	lim := float64(rq.ModulusAtLevel[level].BitLen()) - 12
	if st.MaxLog2 > lim {
		return fmt.Sprintf("noise 2^%.0f at level %d (limit 2^%.0f)", st.MaxLog2, level, lim)
	}
	return "ok"
}

// ---------------------------------------------------------------------------------------------

func (e *rlweEnv) encWork(key rlwe.EncryptionKey, dsk *rlwe.SecretKey) func(x any) outs {
	return func(x any) (o outs) {
		enc := x.(*rlwe.Encryptor)
		levels := []int{e.p.MaxLevel()}
		if e.p.MaxLevel() > 0 {
			levels = append(levels, 0)
		}
		for _, lvl := range levels {
			pt := e.msgPt(lvl, uint64(7+lvl))
			ct, err := enc.EncryptNew(pt)
			if key == nil {
				o.add(fmt.Sprintf("EncryptNew/l%d", lvl), "%v", map[bool]string{true: "ok", false: "no error without key"}[err != nil])
				continue
			}
			if err != nil {
				o.add(fmt.Sprintf("EncryptNew/l%d", lvl), "error: %v", err)
				continue
			}
			o.add(fmt.Sprintf("EncryptNew/l%d", lvl), e.noiseOK(ct, dsk, pt))
			// zero encryption at the level of the receiver ciphertext
			z := rlwe.NewCiphertext(e.p, 1, lvl)
			if err = enc.EncryptZero(z); err != nil {
				o.add(fmt.Sprintf("EncryptZero/l%d", lvl), "error: %v", err)
			} else {
				zp := rlwe.NewPlaintext(e.p, lvl)
				zp.IsNTT = z.IsNTT
				o.add(fmt.Sprintf("EncryptZero/l%d", lvl), e.noiseOK(z, dsk, zp))
			}
		}
		if sk, ok := key.(*rlwe.SecretKey); ok {
			e.qpZeroSteps(enc, sk, &o)
		}
		return
	}
}

func keyName(k rlwe.EncryptionKey) string {
	switch k.(type) {
	case *rlwe.SecretKey:
		return "sk"
	case *rlwe.PublicKey:
		return "pk"
	}
	return "nil"
}

func (e *rlweEnv) encDecSubjects() (subs []*subject) {
	tag := e.ps.Name
	encScratch := []string{"*.encryptorBuffers", "*.basisextender*.buffQ", "*.basisextender*.buffP"}
	for _, key := range []rlwe.EncryptionKey{e.sk, e.pk, nil} {
		key := key
		var wk func(any) outs
		if key == nil {
			wk = e.encWork(nil, nil)
		} else {
			wk = e.encWork(key, e.sk)
		}
		mk := func() any {
			if key == nil {
				return rlwe.NewEncryptor(e.p, nil)
			}
			return rlwe.NewEncryptor(e.p, key)
		}
		subs = append(subs, &subject{Ctor: "rlwe.Encryptor.ShallowCopy", Cfg: tag + "/" + keyName(key), Safe: true, Random: true, Scratch: encScratch,
			Make: mk, Copy: func(o any) any { return o.(*rlwe.Encryptor).ShallowCopy() }, Work: wk})
		// WithKey towards every kind of key
		for _, k2 := range []rlwe.EncryptionKey{e.sk2, e.pk2, nil} {
			k2 := k2
			s := &subject{Ctor: "rlwe.Encryptor.WithKey", Cfg: tag + "/" + keyName(key) + "->" + keyName(k2), Random: true, Rebound: []string{"*.encKey"}, Scratch: encScratch,
				Make: mk, WorkO: wk}
			switch kk := k2.(type) {
			case *rlwe.SecretKey:
				s.Copy = func(o any) any { return o.(*rlwe.Encryptor).WithKey(kk) }
				s.Work = e.encWork(kk, e.sk2)
			case *rlwe.PublicKey:
				s.Copy = func(o any) any { return o.(*rlwe.Encryptor).WithKey(kk) }
				s.Work = e.encWork(kk, e.sk2)
			default:
				// WithKey(nil) is documented by its code as "keep the key"
				s.Copy = func(o any) any { return o.(*rlwe.Encryptor).WithKey(nil) }
				s.Work = wk
				s.Rebound = nil
			}
			subs = append(subs, s)
		}
	}
	// KeyGenerator promotes the copy constructors of its embedded Encryptor
	subs = append(subs, &subject{Ctor: "rlwe.Encryptor.WithKey", Cfg: tag + "/keygen->sk", Random: true, Rebound: []string{"*.encKey"}, Scratch: encScratch,
		Make: func() any { return rlwe.NewKeyGenerator(e.p).Encryptor }, Copy: func(o any) any { return o.(*rlwe.Encryptor).WithKey(e.sk) },
		Work: e.encWork(e.sk, e.sk), WorkO: e.encWork(nil, nil)})

	// ---- WithPRNG: the uniform part c1 of a secret-key encryption is the stream of the given PRNG
	{
		type st struct{ ref ringqp.UniformSampler }
		refs := map[*rlwe.Encryptor]*st{}
		nmade := 0
		// deterministic variant: one encryption per level, compared with an independent sampler
		c1Work := func(x any) (o outs) {
			enc := x.(*rlwe.Encryptor)
			r, tracked := refs[enc]
			for _, lvl := range []int{e.p.MaxLevel(), 0} {
				pt := e.msgPt(lvl, 3)
				ct, err := enc.EncryptNew(pt)
				if err != nil {
					o.add(fmt.Sprintf("EncryptNew/l%d", lvl), "error: %v", err)
					continue
				}
				v := e.noiseOK(ct, e.sk, pt)
				if tracked && v == "ok" {
					want := e.p.RingQ().AtLevel(lvl).NewPoly()
					r.ref.AtLevel(lvl, -1).Read(ringqp.Poly{Q: want})
					got := ct.Value[1]
					if !got.Equal(&want) {
						v = "c1 is not the stream of the PRNG given to WithPRNG"
					}
				}
				o.add(fmt.Sprintf("EncryptNew/l%d", lvl), v)
				if lvl == 0 {
					break
				}
			}
			return
		}
		subs = append(subs, &subject{Ctor: "rlwe.Encryptor.WithPRNG", Cfg: tag + "/sk", Random: true, Rebound: []string{"*.uniformSampler"}, Scratch: encScratch,
			Make: func() any { return rlwe.NewEncryptor(e.p, e.sk) },
			Copy: func(o any) any {
				nmade++
				k := fmt.Sprintf("%s/withprng/%d", tag, nmade)
				cp := o.(*rlwe.Encryptor).WithPRNG(keyedPRNG(k))
				refs[cp] = &st{ref: ringqp.NewUniformSampler(keyedPRNG(k), *e.p.RingQP())}
				return cp
			},
			Work: c1Work})
		subs = append(subs, &subject{Ctor: "rlwe.Encryptor.WithPRNG", Cfg: tag + "/pk", Random: true, Rebound: []string{"*.uniformSampler"}, Scratch: encScratch,
			Make: func() any { return rlwe.NewEncryptor(e.p, e.pk) },
			Copy: func(o any) any { return o.(*rlwe.Encryptor).WithPRNG(keyedPRNG(tag + "/withprng/pk")) },
			Work: e.encWork(e.pk, e.sk)})
	}

	// ---- Decryptor
	cts := []*rlwe.Ciphertext{e.ct1, e.ct1lo, e.ct2}
	{
		c := e.detCt(1, e.p.MaxLevel(), 9)
		c.IsNTT = !c.IsNTT // the other domain
		cts = append(cts, c)
		// a ciphertext of degree 7 exercises the periodic reduction of Decrypt
		cts = append(cts, e.detCt(7, e.p.MaxLevel(), 10))
	}
	decWork := func(x any) (o outs) {
		dec := x.(*rlwe.Decryptor)
		for i, ct := range cts {
			pt := dec.DecryptNew(ct)
			o.add(fmt.Sprintf("DecryptNew/%d", i), digestPt(e.p.RingQ(), pt))
			// into a plaintext of lower level
			if ct.Level() > 0 {
				p2 := rlwe.NewPlaintext(e.p, 0)
				dec.Decrypt(ct, p2)
				o.add(fmt.Sprintf("Decrypt/%d/l0", i), digestPt(e.p.RingQ(), p2))
			}
		}
		return
	}
	subs = append(subs, &subject{Ctor: "rlwe.Decryptor.ShallowCopy", Cfg: tag, Safe: true, Scratch: []string{"*.buff"},
		Make: func() any { return rlwe.NewDecryptor(e.p, e.sk) }, Copy: func(o any) any { return o.(*rlwe.Decryptor).ShallowCopy() }, Work: decWork})
	subs = append(subs, &subject{Ctor: "rlwe.Decryptor.WithKey", Cfg: tag, Safe: true, Scratch: []string{"*.buff"}, Rebound: []string{"*.sk"},
		Make: func() any { return rlwe.NewDecryptor(e.p, e.sk) }, Copy: func(o any) any { return o.(*rlwe.Decryptor).WithKey(e.sk2) }, Work: decWork,
		Ref: func() outs { return decWork(rlwe.NewDecryptor(e.p, e.sk2)) }})
	subs = append(subs, e.keygenSubjects()...)
	return
}

// ---------------------------------------------------------------------------------------------
// rlwe.Evaluator

func (e *rlweEnv) evalWork(x any) (o outs) {
	ev := x.(*rlwe.Evaluator)
	rq := e.p.RingQ()
	rec := func(op string, err error, ct *rlwe.Ciphertext) {
		if err != nil {
			o.add(op, "error")
			return
		}
		o.add(op, digestCt(rq, ct))
	}
	for _, in := range []*rlwe.Ciphertext{e.ct1, e.ct1lo} {
		lvl := in.Level()
		t := fmt.Sprintf("/l%d", lvl)
		for gi, g := range e.galEls {
			if gi >= 3 {
				break
			}
			out := rlwe.NewCiphertext(e.p, 1, lvl)
			rec(fmt.Sprintf("Automorphism%s/g%d", t, gi), ev.Automorphism(in, g, out), out)
		}
		if e.p.PCount() > 0 && e.ps.Pow2 == 0 {
			out := rlwe.NewCiphertext(e.p, 1, lvl)
			buf := ev.BuffDecompQP
			ev.DecomposeNTT(lvl, e.p.MaxLevelP(), e.p.PCount(), in.Value[1], in.IsNTT, buf)
			rec("AutomorphismHoisted"+t, ev.AutomorphismHoisted(lvl, in, buf, e.galEls[0], out), out)
		}
		out := rlwe.NewCiphertext(e.p, 1, lvl)
		rec("ApplyEvaluationKey"+t, ev.ApplyEvaluationKey(in, e.swk, out), out)
		out = rlwe.NewCiphertext(e.p, 1, lvl)
		*out.MetaData = *in.MetaData
		ev.GadgetProduct(lvl, in.Value[1], &e.swk.GadgetCiphertext, out)
		rec("GadgetProduct"+t, nil, out)
		if in.IsNTT && e.p.PCount() > 0 && e.ps.Pow2 == 0 {
			out = rlwe.NewCiphertext(e.p, 1, lvl)
			rec("PartialTracesSum"+t, ev.PartialTracesSum(in, 1, e.innerN, out), out)
		}
	}
	out := rlwe.NewCiphertext(e.p, 1, e.ct2.Level())
	rec("Relinearize", ev.Relinearize(e.ct2, out), out)
	return
}

var rlweEvalScratch = []string{"*.EvaluatorBuffers", "*.BasisExtender*.buffQ", "*.BasisExtender*.buffP"}

func (e *rlweEnv) evalSubjects() (subs []*subject) {
	tag := e.ps.Name
	type kcfg struct {
		name string
		mk   func() *rlwe.Evaluator
	}
	cfgs := []kcfg{
		{"full", func() *rlwe.Evaluator { return rlwe.NewEvaluator(e.p, e.evk) }},
		{"nil", func() *rlwe.Evaluator { return rlwe.NewEvaluator(e.p, nil) }},
		{"rlk-only", func() *rlwe.Evaluator { return rlwe.NewEvaluator(e.p, rlwe.NewMemEvaluationKeySet(e.rlk)) }},
		{"galois-only", func() *rlwe.Evaluator { return rlwe.NewEvaluator(e.p, rlwe.NewMemEvaluationKeySet(nil, e.gks...)) }},
		// Galois keys added to the shared key set after the evaluator was built
		{"late-galois-keys", func() *rlwe.Evaluator {
			ks := rlwe.NewMemEvaluationKeySet(e.rlk, e.gks[0])
			ev := rlwe.NewEvaluator(e.p, ks)
			for _, gk := range e.gks[1:] {
				ks.GaloisKeys[gk.GaloisElement] = gk
			}
			return ev
		}},
	}
	for _, kc := range cfgs {
		kc := kc
		subs = append(subs, &subject{Ctor: "rlwe.Evaluator.ShallowCopy", Cfg: tag + "/" + kc.name, Safe: true, Scratch: rlweEvalScratch,
			Make: func() any { return kc.mk() }, Copy: func(o any) any { return o.(*rlwe.Evaluator).ShallowCopy() }, Work: e.evalWork})
	}
	e.lateCfg = len(subs) - 1
	for _, from := range []string{"full", "nil"} {
		from := from
		mk := cfgs[0].mk
		if from == "nil" {
			mk = cfgs[1].mk
		}
		subs = append(subs, &subject{Ctor: "rlwe.Evaluator.WithKey", Cfg: tag + "/" + from + "->full2", Scratch: rlweEvalScratch,
			Rebound: []string{"*.EvaluationKeySet", "*.automorphismIndex"},
			Make:    func() any { return mk() }, Copy: func(o any) any { return o.(*rlwe.Evaluator).WithKey(e.evk2) }, Work: e.evalWork,
			Ref: func() outs { return e.evalWork(rlwe.NewEvaluator(e.p, e.evk2)) }})
		subs = append(subs, &subject{Ctor: "rlwe.Evaluator.WithKey", Cfg: tag + "/" + from + "->rlk-only", Scratch: rlweEvalScratch,
			Rebound: []string{"*.EvaluationKeySet", "*.automorphismIndex"},
			Make:    func() any { return mk() }, Copy: func(o any) any { return o.(*rlwe.Evaluator).WithKey(rlwe.NewMemEvaluationKeySet(e.rlk2)) }, Work: e.evalWork,
			Ref: func() outs { return e.evalWork(rlwe.NewEvaluator(e.p, rlwe.NewMemEvaluationKeySet(e.rlk2))) }})
	}
	// ---- the key set itself
	subs = append(subs, &subject{Ctor: "rlwe.MemEvaluationKeySet.ShallowCopy", Cfg: tag, Safe: true,
		Make: func() any { return rlwe.NewMemEvaluationKeySet(e.rlk, e.gks...) },
		Copy: func(o any) any { return o.(*rlwe.MemEvaluationKeySet).ShallowCopy().(*rlwe.MemEvaluationKeySet) },
		Work: func(x any) (o outs) {
			ks := x.(rlwe.EvaluationKeySet)
			rk, err := ks.GetRelinearizationKey()
			o.add("GetRelinearizationKey", "%s %v", errString(err), rk == e.rlk)
			l := ks.GetGaloisKeysList()
			sort.Slice(l, func(i, j int) bool { return l[i] < l[j] })
			o.add("GetGaloisKeysList", "%v", l)
			for i, g := range e.galEls {
				gk, err := ks.GetGaloisKey(g)
				o.add(fmt.Sprintf("GetGaloisKey/%d", i), "%s %v", errString(err), gk == e.gks[i])
			}
			_, err = ks.GetGaloisKey(1 << 40)
			o.add("GetGaloisKey/missing", errString(err))
			return
		}})
	subs = append(subs, e.evalChainSubjects()...)
	return
}

// lateKeyOnEmptySet: a Galois key added to a key set that held none when the evaluator was built.
// CheckAndGetGaloisKey (value receiver) builds the index table in a map that the caller never sees.
func (e *rlweEnv) lateKeyOnEmptySet() (panicked bool, msg string) {
	ks := rlwe.NewMemEvaluationKeySet(e.rlk)
	ev := rlwe.NewEvaluator(e.p, ks)
	ks.GaloisKeys[e.gks[0].GaloisElement] = e.gks[0]
	out := rlwe.NewCiphertext(e.p, 1, e.ct1.Level())
	defer func() {
		if r := recover(); r != nil {
			panicked, msg = true, fmt.Sprint(r)
		}
	}()
	in := e.ct1
	if !in.IsNTT {
		return false, "not applicable"
	}
	if err := ev.Automorphism(in, e.gks[0].GaloisElement, out); err != nil {
		return false, err.Error()
	}
	want := rlwe.NewCiphertext(e.p, 1, e.ct1.Level())
	if err := rlwe.NewEvaluator(e.p, ks).Automorphism(in, e.gks[0].GaloisElement, want); err != nil {
		return false, err.Error()
	}
	if !out.Equal(want) {
		return true, "wrong result"
	}
	return false, ""
}

// ---------------------------------------------------------------------------------------------
// deep copies

func (e *rlweEnv) useEvk(k *rlwe.EvaluationKey) (o outs) {
	b, err := k.MarshalBinary()
	o.add("MarshalBinary", "%s %s size=%d", errString(err), digestAny(b), k.BinarySize())
	w := k
	if k.IsCompressed() {
		// work on a private clone: Expand rewrites the receiver's rows
		w = &rlwe.EvaluationKey{GadgetCiphertext: *k.GadgetCiphertext.CopyNew()}
		if k.Seed != nil {
			s := *k.Seed
			w.Seed = &s
		}
		if err := w.Expand(e.p, nil); err != nil {
			o.add("Expand", "error")
			return
		}
		o.add("Expand", "ok")
	}
	out := rlwe.NewCiphertext(e.p, 1, utils.Min(e.ct1.Level(), w.LevelQ()))
	ev := rlwe.NewEvaluator(e.p, nil)
	err = ev.ApplyEvaluationKey(e.ct1, w, out)
	if err != nil {
		o.add("ApplyEvaluationKey", "error")
	} else {
		o.add("ApplyEvaluationKey", digestCt(e.p.RingQ(), out))
	}
	return
}

func (e *rlweEnv) deepSubjects() (subs []*subject) {
	tag := e.ps.Name
	rq := e.p.RingQ()
	rqp := e.p.RingQP()
	add := func(s *subject) { s.Deep = true; s.Cfg = tag + s.Cfg; subs = append(subs, s) }

	add(&subject{Ctor: "rlwe.SecretKey.CopyNew", Make: func() any { return e.kgenSk(1) }, Copy: func(o any) any { return o.(*rlwe.SecretKey).CopyNew() },
		Work: func(x any) (o outs) {
			sk := x.(*rlwe.SecretKey)
			o.add("levels", "%d/%d", sk.LevelQ(), sk.LevelP())
			o.add("DecryptNew", digestPt(rq, rlwe.NewDecryptor(e.p, sk).DecryptNew(e.ct1)))
			return
		}})
	mkPk := func() any {
		pk := rlwe.NewPublicKey(e.p)
		for i := range pk.Value {
			pk.Value[i].Copy(e.pk.Value[i])
		}
		return pk
	}
	add(&subject{Ctor: "rlwe.PublicKey.CopyNew", Make: mkPk, Copy: func(o any) any { return o.(*rlwe.PublicKey).CopyNew() },
		Work: func(x any) (o outs) {
			pk := x.(*rlwe.PublicKey)
			o.add("levels", "%d/%d", pk.LevelQ(), pk.LevelP())
			o.add("value", "%s %s", digestPolyQP(rqp, pk.Value[0]), digestPolyQP(rqp, pk.Value[1]))
			pt := e.msgPt(e.p.MaxLevel(), 5)
			ct, err := rlwe.NewEncryptor(e.p, pk).EncryptNew(pt)
			if err != nil {
				o.add("EncryptNew", "error")
			} else {
				o.add("EncryptNew", e.noiseOK(ct, e.sk, pt))
			}
			return
		}})
	add(&subject{Ctor: "rlwe.VectorQP.CopyNew", Make: func() any { v := *mkPk().(*rlwe.PublicKey); return &v.Value },
		Copy: func(o any) any { return o.(*rlwe.VectorQP).CopyNew() },
		Work: func(x any) (o outs) {
			v := *x.(*rlwe.VectorQP)
			o.add("levels", "%d/%d/%d", len(v), v.LevelQ(), v.LevelP())
			for i := range v {
				o.add(fmt.Sprintf("value[%d]", i), digestPolyQP(rqp, v[i]))
			}
			return
		}})
	// evaluation keys: plain, power-of-two decomposition, compressed, lower levels
	type ekc struct {
		name string
		ps   []rlwe.EvaluationKeyParameters
	}
	ekcs := []ekc{{"/plain", e.evkPs}, {"/compressed", []rlwe.EvaluationKeyParameters{{Compressed: true}}}}
	if e.ps.Pow2 > 0 {
		ekcs = append(ekcs, ekc{"/compressed-pow2", []rlwe.EvaluationKeyParameters{{Compressed: true, BaseTwoDecomposition: utils.Pointy(e.ps.Pow2)}}})
	}
	if e.p.MaxLevelQ() > 0 {
		ekcs = append(ekcs, ekc{"/lowlevel", []rlwe.EvaluationKeyParameters{{LevelQ: utils.Pointy(e.p.MaxLevelQ() - 1), LevelP: utils.Pointy(utils.Max(e.p.MaxLevelP()-1, -1+utils.Min(1, e.p.PCount())))}}})
	}
	for _, kc := range ekcs {
		kc := kc
		if kc.name == "/lowlevel" && e.p.PCount() == 0 {
			kc.ps = []rlwe.EvaluationKeyParameters{{LevelQ: utils.Pointy(e.p.MaxLevelQ() - 1), BaseTwoDecomposition: utils.Pointy(utils.Max(e.ps.Pow2, 12))}}
		}
		if e.p.PCount() == 0 && len(kc.ps) > 0 && kc.ps[0].BaseTwoDecomposition == nil && e.ps.Pow2 > 0 {
			kc.ps[0].BaseTwoDecomposition = utils.Pointy(e.ps.Pow2)
		}
		evk := e.kgen.GenEvaluationKeyNew(e.sk, e.sk2, kc.ps...)
		rlk := e.kgen.GenRelinearizationKeyNew(e.sk, kc.ps...)
		gk := e.kgen.GenGaloisKeyNew(e.galEls[0], e.sk, kc.ps...)
		cloneEvk := func(k *rlwe.EvaluationKey) *rlwe.EvaluationKey {
			// an independent equal key, built without the constructor under test
			b, err := k.MarshalBinary()
			if err != nil {
				panic(err)
			}
			n := new(rlwe.EvaluationKey)
			if err = n.UnmarshalBinary(b); err != nil {
				panic(err)
			}
			return n
		}
		add(&subject{Ctor: "rlwe.EvaluationKey.CopyNew", Cfg: kc.name, Make: func() any { return cloneEvk(evk) },
			Copy: func(o any) any { return o.(*rlwe.EvaluationKey).CopyNew() },
			Work: func(x any) outs { return e.useEvk(x.(*rlwe.EvaluationKey)) }})
		add(&subject{Ctor: "rlwe.RelinearizationKey.CopyNew", Cfg: kc.name, Make: func() any { return &rlwe.RelinearizationKey{EvaluationKey: *cloneEvk(&rlk.EvaluationKey)} },
			Copy: func(o any) any { return o.(*rlwe.RelinearizationKey).CopyNew() },
			Work: func(x any) (o outs) {
				k := x.(*rlwe.RelinearizationKey)
				o = e.useEvk(&k.EvaluationKey)
				if !k.IsCompressed() {
					out := rlwe.NewCiphertext(e.p, 1, utils.Min(e.ct2.Level(), k.LevelQ()))
					err := rlwe.NewEvaluator(e.p, rlwe.NewMemEvaluationKeySet(k)).Relinearize(e.ct2, out)
					if err != nil {
						o.add("Relinearize", "error")
					} else {
						o.add("Relinearize", digestCt(rq, out))
					}
				}
				return
			}})
		add(&subject{Ctor: "rlwe.GaloisKey.CopyNew", Cfg: kc.name, Make: func() any {
			return &rlwe.GaloisKey{GaloisElement: gk.GaloisElement, NthRoot: gk.NthRoot, EvaluationKey: *cloneEvk(&gk.EvaluationKey)}
		},
			Copy: func(o any) any { return o.(*rlwe.GaloisKey).CopyNew() },
			Work: func(x any) (o outs) {
				k := x.(*rlwe.GaloisKey)
				o.add("meta", "%d/%d", k.GaloisElement, k.NthRoot)
				b, err := k.MarshalBinary()
				o.add("GaloisKey.MarshalBinary", "%s %s", errString(err), digestAny(b))
				o = append(o, e.useEvk(&k.EvaluationKey)...)
				if !k.IsCompressed() && e.ct1.IsNTT {
					out := rlwe.NewCiphertext(e.p, 1, utils.Min(e.ct1.Level(), k.LevelQ()))
					err := rlwe.NewEvaluator(e.p, rlwe.NewMemEvaluationKeySet(nil, k)).Automorphism(e.ct1, k.GaloisElement, out)
					if err != nil {
						o.add("Automorphism", "error")
					} else {
						o.add("Automorphism", digestCt(rq, out))
					}
				}
				return
			}})
		add(&subject{Ctor: "rlwe.GadgetCiphertext.CopyNew", Cfg: kc.name, Make: func() any { return &cloneEvk(evk).GadgetCiphertext },
			Copy: func(o any) any { return o.(*rlwe.GadgetCiphertext).CopyNew() },
			Work: func(x any) (o outs) {
				g := x.(*rlwe.GadgetCiphertext)
				o.add("shape", "%d/%d/%d/%v/%d", g.LevelQ(), g.LevelP(), g.BaseRNSDecompositionVectorSize(), g.BaseTwoDecompositionVectorSize(), g.BaseTwoDecomposition)
				b, err := g.MarshalBinary()
				o.add("MarshalBinary", "%s %s", errString(err), digestAny(b))
				return
			}})
	}
	// ciphertexts, plaintexts, elements, metadata
	mkCt := func(deg int, modT bool) func() any {
		return func() any {
			ct := e.detCt(deg, e.p.MaxLevel(), uint64(20+deg))
			ct.Scale = rlwe.NewScale(new(big.Float).SetPrec(128).Quo(big.NewFloat(7), big.NewFloat(3)))
			if modT {
				ct.Scale = rlwe.NewScaleModT(12345, 65537)
			}
			ct.IsBitReversed = true
			ct.IsMontgomery = deg == 2
			return ct
		}
	}
	for _, v := range []struct {
		n    string
		deg  int
		modT bool
	}{{"/deg1", 1, false}, {"/deg2-modT", 2, true}} {
		v := v
		add(&subject{Ctor: "rlwe.Ciphertext.CopyNew", Cfg: v.n, Make: mkCt(v.deg, v.modT), Copy: func(o any) any { return o.(*rlwe.Ciphertext).CopyNew() },
			Work: func(x any) (o outs) { o.add("value", digestCt(rq, x.(*rlwe.Ciphertext))); return }})
		add(&subject{Ctor: "rlwe.Element.CopyNew", Cfg: v.n + "/ring.Poly", Make: func() any { return &mkCt(v.deg, v.modT)().(*rlwe.Ciphertext).Element },
			Copy: func(o any) any { return o.(*rlwe.Element[ring.Poly]).CopyNew() },
			Work: func(x any) (o outs) {
				el := x.(*rlwe.Element[ring.Poly])
				o.add("value", digestCt(rq, &rlwe.Ciphertext{Element: *el}))
				return
			}})
		add(&subject{Ctor: "rlwe.MetaData.CopyNew", Cfg: v.n, Make: func() any { return mkCt(v.deg, v.modT)().(*rlwe.Ciphertext).MetaData },
			Copy: func(o any) any { return o.(*rlwe.MetaData).CopyNew() },
			Work: func(x any) (o outs) { o.add("value", metaString(x.(*rlwe.MetaData))); return }})
	}
	add(&subject{Ctor: "rlwe.Plaintext.CopyNew", Make: func() any {
		pt := e.msgPt(e.p.MaxLevel(), 77)
		pt.Scale = rlwe.NewScale(1 << 20)
		pt.IsBatched = true
		return pt
	}, Copy: func(o any) any { return o.(*rlwe.Plaintext).CopyNew() },
		Work: func(x any) (o outs) {
			pt := x.(*rlwe.Plaintext)
			o.add("value", digestPt(rq, pt))
			o.add("element", digestPoly(rq, pt.Element.Value[0]))
			return
		}})
	add(&subject{Ctor: "rlwe.Element.CopyNew", Cfg: "/ringqp.Poly", Make: func() any {
		el := &rlwe.Element[ringqp.Poly]{MetaData: &rlwe.MetaData{}, Value: []ringqp.Poly{rqp.NewPoly(), rqp.NewPoly()}}
		el.IsNTT, el.IsMontgomery = true, true
		fillPoly(rq, el.Value[0].Q, 90)
		fillPoly(rq, el.Value[1].Q, 91)
		if e.p.RingP() != nil {
			fillPoly(e.p.RingP(), el.Value[0].P, 92)
		}
		return el
	}, Copy: func(o any) any { return o.(*rlwe.Element[ringqp.Poly]).CopyNew() },
		Work: func(x any) (o outs) {
			el := x.(*rlwe.Element[ringqp.Poly])
			o.add("meta", metaString(el.MetaData))
			for i := range el.Value {
				o.add(fmt.Sprintf("value[%d]", i), digestPolyQP(rqp, el.Value[i]))
			}
			return
		}})
	return
}

func (e *rlweEnv) kgenSk(uint64) *rlwe.SecretKey {
	sk := rlwe.NewSecretKey(e.p)
	sk.Value.Copy(e.sk.Value)
	return sk
}
