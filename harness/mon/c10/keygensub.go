package c10

// Key generators and chained copy constructors of the rlwe layer.
//
//   - rlwe.KeyGenerator embeds *Encryptor: the copy constructors it offers are the promoted
//     ShallowCopy / WithKey / WithPRNG, which return an *Encryptor. The original is the key generator
//     (workload: generate a key pair, a switching key - plain and compressed -, a relinearization key,
//     a Galois key and prove each of them by using it), the copy is the encryptor.
//   - chains: a constructor applied to the result of another one (WithKey(..).ShallowCopy(),
//     ShallowCopy().WithKey(..), WithPRNG(..).WithKey(..)): what the first one set must survive the
//     second one.
//   - EncryptZero on an Element[ringqp.Poly] (the call the key generator and the RGSW encryptor make)
//     at several (levelQ, levelP), judged by the exact truncation bound of the error distribution.

import (
	"fmt"
	"math/big"

	"github.com/tuneinsight/lattigo/v6/core/rlwe"
	"github.com/tuneinsight/lattigo/v6/ring"
	"github.com/tuneinsight/lattigo/v6/ring/ringqp"
	"github.com/tuneinsight/lattigo/v6/utils"
)

// deg2Under returns a degree-2 ciphertext with the phase of ct (degree 1, under sk) under (1, s, s^2).
func deg2Under(p rlwe.Parameters, sk *rlwe.SecretKey, ct *rlwe.Ciphertext, seed uint64) *rlwe.Ciphertext {
	rq := p.RingQ().AtLevel(ct.Level())
	out := rlwe.NewCiphertext(p, 2, ct.Level())
	*out.MetaData = *ct.MetaData
	fillPoly(p.RingQ(), out.Value[1], seed)
	fillPoly(p.RingQ(), out.Value[2], seed+1)
	toNTT := func(x ring.Poly) ring.Poly {
		y := clonePoly(x)
		if !ct.IsNTT {
			rq.NTT(y, y)
		}
		return y
	}
	a1, a2 := toNTT(out.Value[1]), toNTT(out.Value[2])
	acc := rq.NewPoly()
	rq.MulCoeffsMontgomery(a2, sk.Value.Q, acc)
	rq.Add(acc, a1, acc)
	rq.MulCoeffsMontgomery(acc, sk.Value.Q, acc) // a1 s + a2 s^2
	c0, c1 := toNTT(ct.Value[0]), toNTT(ct.Value[1])
	rq.MulCoeffsMontgomery(c1, sk.Value.Q, c1)
	rq.Add(c0, c1, c0) // phase of ct
	rq.Sub(c0, acc, c0)
	if !ct.IsNTT {
		rq.INTT(c0, c0)
	}
	out.Value[0].Copy(c0)
	return out
}

// autPt returns the image of pt under the automorphism galEl.
func autPt(p rlwe.Parameters, pt *rlwe.Plaintext, galEl uint64) *rlwe.Plaintext {
	rq := p.RingQ().AtLevel(pt.Level())
	w := rlwe.NewPlaintext(p, pt.Level())
	*w.MetaData = *pt.MetaData
	tmp := rq.NewPoly()
	if pt.IsNTT {
		rq.INTT(pt.Value, tmp)
	} else {
		tmp.Copy(pt.Value)
	}
	rq.Automorphism(tmp, galEl, w.Value)
	if pt.IsNTT {
		rq.NTT(w.Value, w.Value)
	}
	return w
}

// qpZeroOK: el = (c0, c1) in NTT + Montgomery form over QP at the levels of el must satisfy
// c0 + c1*s = e with |e| <= the truncation bound of the error distribution, in every modulus.
func qpZeroOK(p rlwe.Parameters, sk *rlwe.SecretKey, el *rlwe.Element[ringqp.Poly]) string {
	lq, lp := el.LevelQ(), el.LevelP()
	r := p.RingQP().AtLevel(lq, lp)
	acc := r.NewPoly()
	r.MulCoeffsMontgomery(el.Value[1], sk.Value, acc)
	r.Add(acc, el.Value[0], acc)
	r.IMForm(acc, acc)
	r.INTT(acc, acc)
	bound := uint64(p.NoiseBound() + 1)
	chk := func(rr *ring.Ring, x ring.Poly, what string) string {
		for i := range x.Coeffs {
			q := rr.SubRings[i].Modulus
			for _, v := range x.Coeffs[i] {
				if v > bound && q-v > bound {
					return fmt.Sprintf("c0 + c1*s is not small modulo %s[%d] at levels %d/%d", what, i, lq, lp)
				}
			}
		}
		return ""
	}
	if w := chk(r.RingQ, acc.Q, "Q"); w != "" {
		return w
	}
	if lp >= 0 {
		if w := chk(r.RingP, acc.P, "P"); w != "" {
			return w
		}
		// the same small integer in every modulus
		q0 := r.RingQ.SubRings[0].Modulus
		for i := range acc.P.Coeffs {
			pi := r.RingP.SubRings[i].Modulus
			for k, v := range acc.P.Coeffs[i] {
				a, b := acc.Q.Coeffs[0][k], v
				neg := a > bound
				if neg {
					a = q0 - a
				}
				if neg {
					b = pi - b
				}
				if a != b {
					return fmt.Sprintf("the error differs between Q[0] and P[%d] at levels %d/%d", i, lq, lp)
				}
			}
		}
	}
	return "ok"
}

// qpZeroSteps runs EncryptZero on Element[ringqp.Poly] receivers with a secret-key encryptor.
func (e *rlweEnv) qpZeroSteps(enc *rlwe.Encryptor, sk *rlwe.SecretKey, o *outs) {
	L, LP := e.p.MaxLevelQ(), e.p.MaxLevelP()
	type lv struct{ q, p int }
	lvls := []lv{{L, LP}}
	if L > 0 || LP > 0 {
		lvls = append(lvls, lv{0, utils.Min(LP, 0)})
	}
	if LP >= 0 {
		lvls = append(lvls, lv{L, -1})
	}
	for _, l := range lvls {
		el := rlwe.NewElementExtended(e.p, 1, l.q, l.p)
		el.IsNTT, el.IsMontgomery = true, true
		op := fmt.Sprintf("EncryptZero/QP/l%d.%d", l.q, l.p)
		if err := enc.EncryptZero(*el); err != nil {
			o.add(op, "error: %v", err)
			continue
		}
		o.add(op, qpZeroOK(e.p, sk, el))
	}
	// degree 0 (the uniform part stays in the buffers of the encryptor), as the multiparty protocols do
	z := &rlwe.Ciphertext{Element: rlwe.Element[ring.Poly]{MetaData: &rlwe.MetaData{}, Value: []ring.Poly{e.p.RingQ().NewPoly()}}}
	z.IsNTT = e.p.NTTFlag()
	if err := enc.EncryptZero(z); err != nil {
		o.add("EncryptZero/deg0", "error: %v", err)
	} else {
		nz := false
		for _, x := range z.Value[0].Coeffs[0] {
			nz = nz || x != 0
		}
		o.add("EncryptZero/deg0", map[bool]string{true: "ok", false: "c0 is zero"}[nz])
	}
}

func (e *rlweEnv) ctUnder(sk *rlwe.SecretKey, pt *rlwe.Plaintext) *rlwe.Ciphertext {
	ct, err := rlwe.NewEncryptor(e.p, sk).EncryptNew(pt)
	if err != nil {
		panic(err)
	}
	return ct
}

// keygenWork: every kind of key the generator makes is proven by using it.
func (e *rlweEnv) keygenWork(x any) (o outs) {
	kg := x.(*rlwe.KeyGenerator)
	p := e.p
	L := p.MaxLevel()
	pt := e.msgPt(L, 41)
	sk, pk := kg.GenKeyPairNew()
	ct, err := rlwe.NewEncryptor(p, pk).EncryptNew(pt)
	if err != nil {
		o.add("GenKeyPairNew", "error: %v", err)
		return
	}
	o.add("GenKeyPairNew", e.noiseOK(ct, sk, pt))
	ctIn := e.ctUnder(e.sk, pt)
	apply := func(op string, evk *rlwe.EvaluationKey) {
		out := rlwe.NewCiphertext(p, 1, L)
		if err := rlwe.NewEvaluator(p, nil).ApplyEvaluationKey(ctIn, evk, out); err != nil {
			o.add(op, "error: %v", err)
			return
		}
		o.add(op, e.noiseOK(out, sk, pt))
	}
	apply("GenEvaluationKeyNew", kg.GenEvaluationKeyNew(e.sk, sk, e.evkPs...))
	{
		cps := rlwe.EvaluationKeyParameters{Compressed: true}
		if e.ps.Pow2 > 0 {
			cps.BaseTwoDecomposition = utils.Pointy(e.ps.Pow2)
		}
		k := kg.GenEvaluationKeyNew(e.sk, sk, cps)
		if !k.IsCompressed() || k.Seed == nil {
			o.add("GenEvaluationKeyNew/compressed", "key is not compressed or has no seed")
		} else if err := k.Expand(p, nil); err != nil {
			o.add("GenEvaluationKeyNew/compressed", "error: %v", err)
		} else {
			apply("GenEvaluationKeyNew/compressed", k)
		}
	}
	{
		rlk := kg.GenRelinearizationKeyNew(sk, e.evkPs...)
		ct2 := deg2Under(p, sk, e.ctUnder(sk, pt), 77)
		out := rlwe.NewCiphertext(p, 1, L)
		if err := rlwe.NewEvaluator(p, rlwe.NewMemEvaluationKeySet(rlk)).Relinearize(ct2, out); err != nil {
			o.add("GenRelinearizationKeyNew", "error: %v", err)
		} else {
			o.add("GenRelinearizationKeyNew", e.noiseOK(out, sk, pt))
		}
	}
	if p.NTTFlag() {
		g := e.galEls[0]
		gk := kg.GenGaloisKeyNew(g, sk, e.evkPs...)
		out := rlwe.NewCiphertext(p, 1, L)
		if err := rlwe.NewEvaluator(p, rlwe.NewMemEvaluationKeySet(nil, gk)).Automorphism(e.ctUnder(sk, pt), g, out); err != nil {
			o.add("GenGaloisKeyNew", "error: %v", err)
		} else {
			o.add("GenGaloisKeyNew", e.noiseOK(out, sk, autPt(p, pt, g)))
		}
	}
	return
}

// streamTracker follows the uniform stream of encryptors that were given a keyed PRNG: c1 of every
// secret-key encryption must be the next polynomial of that stream, also after a later WithKey.
type streamTracker struct {
	e    *rlweEnv
	refs map[*rlwe.Encryptor]*ringqp.UniformSampler
	keys map[*rlwe.Encryptor]*rlwe.SecretKey
	n    int
}

func (e *rlweEnv) newTracker() *streamTracker {
	return &streamTracker{e: e, refs: map[*rlwe.Encryptor]*ringqp.UniformSampler{}, keys: map[*rlwe.Encryptor]*rlwe.SecretKey{}}
}

// rekey returns enc.WithPRNG(keyed stream), tracked.
func (t *streamTracker) rekey(enc *rlwe.Encryptor, tag string, sk *rlwe.SecretKey) *rlwe.Encryptor {
	t.n++
	k := fmt.Sprintf("%s/%s/%d", t.e.ps.Name, tag, t.n)
	cp := enc.WithPRNG(keyedPRNG(k))
	ref := ringqp.NewUniformSampler(keyedPRNG(k), *t.e.p.RingQP())
	t.refs[cp] = &ref
	t.keys[cp] = sk
	return cp
}

// derived registers cp as an encryptor that continues the stream of from, under key sk.
func (t *streamTracker) derived(cp, from *rlwe.Encryptor, sk *rlwe.SecretKey) *rlwe.Encryptor {
	if r, ok := t.refs[from]; ok {
		t.refs[cp] = r
	}
	t.keys[cp] = sk
	return cp
}

func (t *streamTracker) work(x any) (o outs) {
	e := t.e
	enc := x.(*rlwe.Encryptor)
	ref, tracked := t.refs[enc]
	sk := t.keys[enc]
	if sk == nil {
		o.add("tracked", "untracked encryptor")
		return
	}
	levels := []int{e.p.MaxLevel()}
	if e.p.MaxLevel() > 0 {
		levels = append(levels, 0)
	}
	for _, lvl := range levels {
		pt := e.msgPt(lvl, 3)
		ct, err := enc.EncryptNew(pt)
		if err != nil {
			o.add(fmt.Sprintf("EncryptNew/l%d", lvl), "error: %v", err)
			continue
		}
		v := e.noiseOK(ct, sk, pt)
		if tracked {
			want := e.p.RingQ().AtLevel(lvl).NewPoly()
			ref.AtLevel(lvl, -1).Read(ringqp.Poly{Q: want})
			if v == "ok" && !ct.Value[1].Equal(&want) {
				v = "c1 is not the stream of the PRNG given to WithPRNG"
			}
		}
		o.add(fmt.Sprintf("EncryptNew/l%d", lvl), v)
	}
	// the call the key generator makes on a re-keyed encryptor (compressed keys): over QP
	{
		L, LP := e.p.MaxLevelQ(), e.p.MaxLevelP()
		el := rlwe.NewElementExtended(e.p, 1, L, LP)
		el.IsNTT, el.IsMontgomery = true, true
		if err := enc.EncryptZero(*el); err != nil {
			o.add("EncryptZero/QP", "error: %v", err)
		} else {
			v := qpZeroOK(e.p, sk, el)
			if tracked {
				want := e.p.RingQP().NewPoly()
				ref.AtLevel(L, LP).Read(want)
				if v == "ok" && !el.Value[1].Equal(&want) {
					v = "c1 over QP is not the stream of the PRNG given to WithPRNG"
				}
			}
			o.add("EncryptZero/QP", v)
		}
	}
	return
}

func (e *rlweEnv) keygenSubjects() (subs []*subject) {
	tag := e.ps.Name
	encScratch := []string{"*.encryptorBuffers", "*.basisextender*.buffQ", "*.basisextender*.buffP"}
	mkKg := func() any { return rlwe.NewKeyGenerator(e.p) }
	// ---- the key generator as original, the promoted constructors as copies
	withKey := func(o any) any {
		switch x := o.(type) {
		case *rlwe.KeyGenerator:
			return x.WithKey(e.sk)
		case *rlwe.Encryptor:
			return x.WithKey(e.sk)
		}
		panic("unexpected type")
	}
	subs = append(subs, &subject{Ctor: "rlwe.KeyGenerator.WithKey", Cfg: tag + "/->sk", Random: true, NoStruct: true,
		Make: mkKg, Copy: withKey, Work: e.encWork(e.sk, e.sk), WorkO: e.keygenWork})
	subs = append(subs, &subject{Ctor: "rlwe.KeyGenerator.ShallowCopy", Cfg: tag + "/then-WithKey(sk)", Random: true, NoStruct: true, Safe: true,
		Make: mkKg, Copy: func(o any) any {
			switch x := o.(type) {
			case *rlwe.KeyGenerator:
				return x.ShallowCopy().WithKey(e.sk)
			case *rlwe.Encryptor:
				return x.ShallowCopy()
			}
			panic("unexpected type")
		}, Work: e.encWork(e.sk, e.sk), WorkO: e.keygenWork})
	// the plain shallow copy of a key generator is a keyless encryptor, also when the generator has
	// been used (generating keys binds no key to the generator)
	subs = append(subs, &subject{Ctor: "rlwe.KeyGenerator.ShallowCopy", Cfg: tag + "/keyless", Random: true, NoStruct: true, Safe: true,
		Make: mkKg, Copy: func(o any) any {
			switch x := o.(type) {
			case *rlwe.KeyGenerator:
				return x.ShallowCopy()
			case *rlwe.Encryptor:
				return x.ShallowCopy()
			}
			panic("unexpected type")
		}, Work: e.encWork(nil, nil), WorkO: e.keygenWork})
	{
		t := e.newTracker()
		subs = append(subs, &subject{Ctor: "rlwe.KeyGenerator.WithPRNG", Cfg: tag + "/then-WithKey(sk)", Random: true, NoStruct: true,
			Make: mkKg, Copy: func(o any) any {
				switch x := o.(type) {
				case *rlwe.KeyGenerator:
					r := t.rekey(x.Encryptor, "kg-withprng", nil)
					return t.derived(r.WithKey(e.sk), r, e.sk)
				case *rlwe.Encryptor:
					return t.rekey(x, "kg-withprng2", e.sk)
				}
				panic("unexpected type")
			}, Work: t.work, WorkO: e.keygenWork})
	}
	// ---- chains on encryptors
	subs = append(subs, &subject{Ctor: "rlwe.Encryptor.ShallowCopy", Cfg: tag + "/of-WithKey(sk->sk2)", Safe: true, Random: true, Scratch: encScratch,
		Make: func() any { return rlwe.NewEncryptor(e.p, e.sk).WithKey(e.sk2) },
		Copy: func(o any) any { return o.(*rlwe.Encryptor).ShallowCopy() }, Work: e.encWork(e.sk2, e.sk2)})
	subs = append(subs, &subject{Ctor: "rlwe.Encryptor.ShallowCopy", Cfg: tag + "/of-WithKey(sk->pk2)", Safe: true, Random: true, Scratch: encScratch,
		Make: func() any { return rlwe.NewEncryptor(e.p, e.sk).WithKey(e.pk2) },
		Copy: func(o any) any { return o.(*rlwe.Encryptor).ShallowCopy() }, Work: e.encWork(e.pk2, e.sk2)})
	subs = append(subs, &subject{Ctor: "rlwe.Encryptor.WithKey", Cfg: tag + "/of-ShallowCopy(pk)->sk2", Random: true, Rebound: []string{"*.encKey"}, Scratch: encScratch,
		Make: func() any { return rlwe.NewEncryptor(e.p, e.pk).ShallowCopy() },
		Copy: func(o any) any { return o.(*rlwe.Encryptor).WithKey(e.sk2) }, Work: e.encWork(e.sk2, e.sk2), WorkO: e.encWork(e.pk, e.sk)})
	{
		// WithPRNG then WithKey: the re-keyed encryptor continues the stream it was given
		t := e.newTracker()
		subs = append(subs, &subject{Ctor: "rlwe.Encryptor.WithKey", Cfg: tag + "/of-WithPRNG(sk)->sk2", Random: true, Rebound: []string{"*.encKey"}, Scratch: encScratch,
			Make: func() any { return t.rekey(rlwe.NewEncryptor(e.p, e.sk), "chain", e.sk) },
			Copy: func(o any) any { x := o.(*rlwe.Encryptor); return t.derived(x.WithKey(e.sk2), x, e.sk2) },
			Work: t.work, WorkO: t.work})
		t2 := e.newTracker()
		subs = append(subs, &subject{Ctor: "rlwe.Encryptor.WithPRNG", Cfg: tag + "/of-WithKey(pk->sk2)", Random: true, Rebound: []string{"*.uniformSampler"}, Scratch: encScratch,
			Make: func() any { x := rlwe.NewEncryptor(e.p, e.pk).WithKey(e.sk2); t2.keys[x] = e.sk2; return x },
			Copy: func(o any) any { return t2.rekey(o.(*rlwe.Encryptor), "chain2", e.sk2) },
			Work: t2.work, WorkO: t2.work})
	}
	// ---- chains on decryptors
	cts := []*rlwe.Ciphertext{e.ct1, e.ct1lo, e.ct2}
	decWork := func(x any) (o outs) {
		dec := x.(*rlwe.Decryptor)
		for i, ct := range cts {
			o.add(fmt.Sprintf("DecryptNew/%d", i), digestPt(e.p.RingQ(), dec.DecryptNew(ct)))
		}
		return
	}
	subs = append(subs, &subject{Ctor: "rlwe.Decryptor.ShallowCopy", Cfg: tag + "/of-WithKey(sk2)", Safe: true, Scratch: []string{"*.buff"},
		Make: func() any { return rlwe.NewDecryptor(e.p, e.sk).WithKey(e.sk2) },
		Copy: func(o any) any { return o.(*rlwe.Decryptor).ShallowCopy() }, Work: decWork})
	subs = append(subs, &subject{Ctor: "rlwe.Decryptor.WithKey", Cfg: tag + "/of-ShallowCopy->sk2", Safe: true, Scratch: []string{"*.buff"}, Rebound: []string{"*.sk"},
		Make: func() any { return rlwe.NewDecryptor(e.p, e.sk).ShallowCopy() },
		Copy: func(o any) any { return o.(*rlwe.Decryptor).WithKey(e.sk2) }, Work: decWork,
		Ref: func() outs { return decWork(rlwe.NewDecryptor(e.p, e.sk2)) }})
	return
}

// evalChainSubjects: rlwe.Evaluator constructors applied to the result of another constructor, and
// key sets in the configurations an evaluator may meet.
func (e *rlweEnv) evalChainSubjects() (subs []*subject) {
	tag := e.ps.Name
	subs = append(subs, &subject{Ctor: "rlwe.Evaluator.ShallowCopy", Cfg: tag + "/of-WithKey(full->full2)", Safe: true, Scratch: rlweEvalScratch,
		Make: func() any { return rlwe.NewEvaluator(e.p, e.evk).WithKey(e.evk2) },
		Copy: func(o any) any { return o.(*rlwe.Evaluator).ShallowCopy() }, Work: e.evalWork})
	subs = append(subs, &subject{Ctor: "rlwe.Evaluator.ShallowCopy", Cfg: tag + "/of-WithKey(nil->full2)", Safe: true, Scratch: rlweEvalScratch,
		Make: func() any { return rlwe.NewEvaluator(e.p, nil).WithKey(e.evk2) },
		Copy: func(o any) any { return o.(*rlwe.Evaluator).ShallowCopy() }, Work: e.evalWork})
	subs = append(subs, &subject{Ctor: "rlwe.Evaluator.WithKey", Cfg: tag + "/of-ShallowCopy(full)->full2", Scratch: rlweEvalScratch,
		Rebound: []string{"*.EvaluationKeySet", "*.automorphismIndex"},
		Make:    func() any { return rlwe.NewEvaluator(e.p, e.evk).ShallowCopy() },
		Copy:    func(o any) any { return o.(*rlwe.Evaluator).WithKey(e.evk2) }, Work: e.evalWork,
		Ref: func() outs { return e.evalWork(rlwe.NewEvaluator(e.p, e.evk2)) }})
	subs = append(subs, &subject{Ctor: "rlwe.Evaluator.WithKey", Cfg: tag + "/of-WithKey(full2)->full", Scratch: rlweEvalScratch,
		Rebound: []string{"*.EvaluationKeySet", "*.automorphismIndex"},
		Make:    func() any { return rlwe.NewEvaluator(e.p, e.evk).WithKey(e.evk2) },
		Copy:    func(o any) any { return o.(*rlwe.Evaluator).WithKey(e.evk) }, Work: e.evalWork,
		Ref: func() outs { return e.evalWork(rlwe.NewEvaluator(e.p, e.evk)) }})
	// key sets: no relinearization key, no Galois key, nothing at all
	ksWork := func(x any) (o outs) {
		ks := x.(rlwe.EvaluationKeySet)
		rk, err := ks.GetRelinearizationKey()
		o.add("GetRelinearizationKey", "%s %v", errString(err), rk == e.rlk)
		l := ks.GetGaloisKeysList()
		s := new(big.Int)
		for _, g := range l {
			s.Add(s, new(big.Int).SetUint64(g))
		}
		o.add("GetGaloisKeysList", "%d/%s", len(l), s.Text(10))
		gk, err := ks.GetGaloisKey(e.galEls[0])
		o.add("GetGaloisKey", "%s %v", errString(err), gk == e.gks[0])
		// an evaluator built on the set behaves like one built on the original set
		o = append(o, e.evalWork(rlwe.NewEvaluator(e.p, ks))...)
		return
	}
	for _, kc := range []struct {
		name string
		mk   func() *rlwe.MemEvaluationKeySet
	}{
		{"no-rlk", func() *rlwe.MemEvaluationKeySet { return rlwe.NewMemEvaluationKeySet(nil, e.gks...) }},
		{"no-galois", func() *rlwe.MemEvaluationKeySet { return rlwe.NewMemEvaluationKeySet(e.rlk) }},
		{"zero-value", func() *rlwe.MemEvaluationKeySet { return &rlwe.MemEvaluationKeySet{} }},
	} {
		kc := kc
		subs = append(subs, &subject{Ctor: "rlwe.MemEvaluationKeySet.ShallowCopy", Cfg: tag + "/" + kc.name, Safe: true,
			Make: func() any { return kc.mk() },
			Copy: func(o any) any { return o.(*rlwe.MemEvaluationKeySet).ShallowCopy().(*rlwe.MemEvaluationKeySet) }, Work: ksWork})
	}
	return
}
