package c10

// Cases added by the coverage audit. They draw from their own random stream so that the parameter
// sets of the cases enumerated before stay what they were.

import (
	"fmt"

	"verif/harness/eng"
)

func enumerateAudit(r *eng.Rand, thorough bool, add func(group string, ps pset, variant string, po *pset), addRace func(group string, ps pset, variant string, po *pset, G, procs, reps int)) {
	type lc struct {
		name   string
		logN   int
		ringT  string
		qb, pb []int
		noNTT  bool
	}
	// ---- in-place deep copies
	ipCfgs := []lc{
		{"ipA", 5, "", []int{50, 40, 40}, []int{50, 50}, false},
		{"ipNoP", 4, "", []int{55, 45}, nil, false},
		{"ipL0", 4, "", []int{58}, []int{60}, false},
		{"ipCI", 5, "ci", []int{50, 40}, []int{50}, false},
		{"ipCoef", 5, "", []int{50, 40}, []int{50}, true},
	}
	if thorough {
		ipCfgs = append(ipCfgs, lc{"ipB", 8, "", []int{61, 61, 61, 61}, []int{61, 61, 61}, false}, lc{"ipC", 4, "", []int{45, 45}, []int{45, 45}, true})
	}
	for _, x := range ipCfgs {
		if ps, ok := mkPset(r, x.name, x.logN, x.ringT, x.qb, x.pb); ok {
			ps.NoNTT = x.noNTT
			add("rlwe-inplace", ps, "", nil)
		}
	}
	n := 4
	if thorough {
		n = 32
	}
	for i := 0; i < n; i++ {
		logN := 4 + r.N(5) // rlwe.MinLogN = 4
		nq, np := 1+r.N(4), r.N(3)
		qb, pb := make([]int, nq), make([]int, np)
		for j := range qb {
			qb[j] = eng.Pick(r, 40, 45, 50, 55, 60)
		}
		for j := range pb {
			pb[j] = eng.Pick(r, 55, 60, 61)
		}
		if ps, ok := mkPset(r, fmt.Sprintf("rnd%d-ip", i), logN, eng.Pick(r, "", "", "ci"), qb, pb); ok {
			ps.NoNTT = r.N(3) == 0
			add("rlwe-inplace", ps, "", nil)
		}
	}
	// ---- non-default error distributions: the copies of encryptors, key generators and multiparty
	//      protocols rebuild their samplers from the parameters
	type xc struct {
		name   string
		logN   int
		qb, pb []int
		xe, xs string
		pow2   int
	}
	xeCfgs := []xc{
		{"rlweXeWide", 5, []int{55, 45, 45}, []int{56}, "wide", "", 0},
		{"rlweXeTern", 5, []int{50, 40}, []int{50, 50}, "tern", "gauss", 0},
	}
	if thorough {
		xeCfgs = append(xeCfgs, xc{"rlweXeTernH", 6, []int{55, 50}, nil, "ternH", "h", 10}, xc{"rlweXeTight", 7, []int{58, 45, 45}, []int{60}, "tight", "", 0})
	}
	for _, x := range xeCfgs {
		if ps, ok := mkPset(r, x.name, x.logN, "", x.qb, x.pb); ok {
			ps.Xe, ps.Xs, ps.Pow2 = x.xe, x.xs, x.pow2
			add("rlwe-encdec", ps, "", nil)
		}
	}
	if ps, ok := mkPset(r, "mpXeTight", 5, "", []int{55, 45, 45}, []int{50, 50}); ok {
		ps.Xe = "tight"
		add("mp", ps, "n3", nil)
	}
	if thorough {
		if ps, ok := mkPset(r, "mpXeWide", 6, "", []int{58, 50}, []int{60}); ok {
			ps.Xe = "wide"
			add("mp", ps, "n2", nil)
		}
	}
	// ---- blind rotation evaluators sharing one key set
	type bc struct {
		name       string
		logN       int
		qb, pb     []int
		pow2       int
		lweLogN    int
		lweBits    int
		race       bool
		G, procs   int
		onlyThorou bool
	}
	brCfgs := []bc{
		{"brA", 6, []int{27}, nil, 7, 4, 14, true, 4, 4, false},
		{"brP", 6, []int{45}, []int{46}, 0, 4, 14, false, 0, 0, false},
		{"brB", 7, []int{27}, nil, 9, 5, 15, true, 8, 16, true},
		{"brQ2", 7, []int{40, 40}, []int{45}, 0, 5, 15, false, 0, 0, true},
	}
	for _, x := range brCfgs {
		if x.onlyThorou && !thorough {
			continue
		}
		ps, ok := mkPset(r, x.name, x.logN, "", x.qb, x.pb)
		if !ok {
			continue
		}
		ps.Pow2 = x.pow2
		pl, ok := mkPset(r, x.name+"-lwe", x.lweLogN, "", []int{x.lweBits}, nil)
		if !ok {
			continue
		}
		add("blindrot", ps, "", &pl)
		if x.race {
			pr := ps
			pr.Name += "-race"
			addRace("blindrot", pr, "", &pl, x.G, x.procs, 1)
		}
	}
	// ---- circuit-layer evaluators rebuilt over shallow copies, sharing matrices / polynomials / keys
	if ps, ok := mkPset(r, "circDft", 7, "", []int{55, 45, 45, 45}, []int{55}); ok {
		ps.LogScale = 45
		add("circuits", ps, "dft", nil)
		pr := ps
		pr.Name += "-race"
		addRace("circuits", pr, "dft", nil, 3, 4, 1)
	}
	if ps, ok := mkPset(r, "circMod1", 6, "", []int{55, 60, 60, 60, 60, 60, 60, 60, 60, 60, 53}, []int{61, 61}); ok {
		ps.LogScale = 45
		add("circuits", ps, "mod1", nil)
		pr := ps
		pr.Name += "-race"
		addRace("circuits", pr, "mod1", nil, 3, 4, 1)
	}
	if thorough {
		if ps, ok := mkPset(r, "circDftB", 9, "", []int{58, 50, 50, 50, 50}, []int{60, 60}); ok {
			ps.LogScale = 50
			add("circuits", ps, "dft", nil)
			pr := ps
			pr.Name += "-race"
			addRace("circuits", pr, "dft", nil, 8, 16, 1)
		}
	}
	// ---- ring packing with one switching step / with ring-switching keys only
	if ps, ok := mkPset(r, "rpackMin1", 5, "", []int{58}, []int{60}); ok {
		add("ringpack", ps, "min1", nil)
		add("ringpack", ps, "partial", nil)
	}
}
