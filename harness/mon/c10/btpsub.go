package c10

// bootstrapping.Evaluator.ShallowCopy (reduced ring degrees): same ring, residual ring smaller than
// the bootstrapping ring (packing tables of both rings), conjugate-invariant residual ring (domain
// switcher). The circuit is deterministic, so the outputs of original and copy are compared bit for bit.

import (
	"fmt"

	"github.com/tuneinsight/lattigo/v6/circuits/ckks/bootstrapping"
	"github.com/tuneinsight/lattigo/v6/core/rlwe"
	"github.com/tuneinsight/lattigo/v6/ring"
	"github.com/tuneinsight/lattigo/v6/schemes/ckks"
	"github.com/tuneinsight/lattigo/v6/utils"
)

type btpCfg struct {
	Name    string `json:"name"`
	ResLogN int    `json:"resLogN"`
	BtpLogN int    `json:"btpLogN"`
	CI      bool   `json:"ci,omitempty"`
	Full    bool   `json:"fullBootstrap"`
}

type btpEnv struct {
	cf   btpCfg
	res  ckks.Parameters
	btp  bootstrapping.Parameters
	evk  *bootstrapping.EvaluationKeys
	sk   *rlwe.SecretKey
	cts  []*rlwe.Ciphertext // sparse inputs (pack / unpack)
	full *rlwe.Ciphertext
}

func newBTPEnv(cf btpCfg) (*btpEnv, error) {
	e := &btpEnv{cf: cf}
	lit := ckks.ParametersLiteral{LogN: cf.ResLogN, LogQ: []int{60, 40, 40}, LogP: []int{61}, LogDefaultScale: 40, Xs: ring.Ternary{H: utils.Min(192, 1<<(cf.ResLogN-1))}}
	if cf.CI {
		lit.RingType = ring.ConjugateInvariant
		lit.LogNthRoot = cf.BtpLogN + 1
	} else if cf.ResLogN != cf.BtpLogN {
		lit.LogNthRoot = cf.BtpLogN + 1
	}
	var err error
	if e.res, err = ckks.NewParametersFromLiteral(lit); err != nil {
		return nil, fmt.Errorf("residual: %w", err)
	}
	bl := bootstrapping.ParametersLiteral{
		LogN:                  utils.Pointy(cf.BtpLogN),
		Xs:                    ring.Ternary{H: utils.Min(192, 1<<(cf.BtpLogN-1))},
		EphemeralSecretWeight: utils.Pointy(32),
		LogMessageRatio:       utils.Pointy(8 + 16 - cf.BtpLogN),
	}
	if e.btp, err = bootstrapping.NewParametersFromLiteral(e.res, bl); err != nil {
		return nil, fmt.Errorf("bootstrapping: %w", err)
	}
	e.sk = rlwe.NewKeyGenerator(e.res).GenSecretKeyNew()
	if e.evk, _, err = e.btp.GenEvaluationKeys(e.sk); err != nil {
		return nil, err
	}
	ecd := ckks.NewEncoder(e.res)
	enc := rlwe.NewEncryptor(e.res, e.sk)
	mk := func(logSlots int, seed uint64) (*rlwe.Ciphertext, error) {
		pt := ckks.NewPlaintext(e.res, 0)
		pt.LogDimensions.Cols = logSlots
		v := make([]complex128, 1<<logSlots)
		s := seed | 1
		for i := range v {
			s ^= s << 13
			s ^= s >> 7
			s ^= s << 17
			re := float64(int64(s%2001)-1000) / 1000
			im := float64(int64((s>>20)%2001)-1000) / 1000
			if cf.CI {
				im = 0
			}
			v[i] = complex(re, im)
		}
		if err := ecd.Encode(v, pt); err != nil {
			return nil, err
		}
		return enc.EncryptNew(pt)
	}
	sparse := utils.Max(1, utils.Min(e.res.LogMaxSlots(), e.btp.LogMaxSlots())-2)
	for i := 0; i < 3; i++ {
		ct, err := mk(sparse, uint64(77+i))
		if err != nil {
			return nil, err
		}
		e.cts = append(e.cts, ct)
	}
	if e.full, err = mk(utils.Min(e.res.LogMaxSlots(), e.btp.LogMaxSlots()), 99); err != nil {
		return nil, err
	}
	return e, nil
}

func (e *btpEnv) work(x any) (o outs) {
	ev := x.(*bootstrapping.Evaluator)
	dg := func(ct *rlwe.Ciphertext) string {
		if ct == nil {
			return "nil"
		}
		// the residual chain is a prefix of the bootstrapping chain: one table of moduli serves both rings
		p := e.btp.BootstrappingParameters
		return digestCt(p.RingQ(), ct)
	}
	o.add("levels", "%d/%d/%d", ev.Depth(), ev.OutputLevel(), ev.MinimumInputLevel())
	if !e.cf.CI {
		in := make([]rlwe.Ciphertext, len(e.cts))
		for i := range in {
			in[i] = *e.cts[i].CopyNew()
		}
		packed, c1, c2, err := ev.PackAndSwitchN1ToN2(in)
		if err != nil {
			o.add("PackAndSwitchN1ToN2", "error")
		} else {
			s := ""
			for i := range packed {
				s += dg(&packed[i]) + ";"
			}
			o.add("PackAndSwitchN1ToN2", digestAny(s))
			un, err := ev.UnpackAndSwitchN2ToN1(packed, c1, c2)
			if err != nil {
				o.add("UnpackAndSwitchN2ToN1", "error")
			} else {
				s := fmt.Sprint(len(un)) + ":"
				for i := range un {
					s += dg(&un[i]) + ";"
				}
				o.add("UnpackAndSwitchN2ToN1", digestAny(s))
			}
		}
	} else {
		c := ev.RealToComplexNew(e.full)
		o.add("RealToComplexNew", dg(c))
		r := ev.ComplexToRealNew(c)
		o.add("ComplexToRealNew", dg(r))
	}
	if e.cf.Full {
		out, err := ev.Bootstrap(e.full.CopyNew())
		if err != nil {
			o.add("Bootstrap", "error")
		} else {
			o.add("Bootstrap", dg(out))
		}
		in := make([]rlwe.Ciphertext, len(e.cts))
		for i := range in {
			in[i] = *e.cts[i].CopyNew()
		}
		many, err := ev.BootstrapMany(in)
		if err != nil {
			o.add("BootstrapMany", "error")
		} else {
			s := ""
			for i := range many {
				s += dg(&many[i]) + ";"
			}
			o.add("BootstrapMany", digestAny(s))
		}
	}
	return
}

func (e *btpEnv) subjects() []*subject {
	return []*subject{{Ctor: "bootstrapping.Evaluator.ShallowCopy", Cfg: e.cf.Name, Safe: true, FreshStructOnly: true,
		Scratch: []string{"*.Evaluator*.evaluatorBuffers", "*.Evaluator*.Evaluator*.EvaluatorBuffers", "*.Evaluator*.Evaluator*.BasisExtender*.buffQ", "*.Evaluator*.Evaluator*.BasisExtender*.buffP",
			"*.Evaluator*.Encoder*.buff", "*.Evaluator*.Encoder*.buffCmplx", "*.Evaluator*.Encoder*.bigintCoeffs", "*.Evaluator*.Encoder*.qHalf"},
		Make: func() any {
			ev, err := bootstrapping.NewEvaluator(e.btp, e.evk)
			if err != nil {
				panic(err)
			}
			ev.SkDebug = e.sk // optional field: must survive the copy
			return ev
		},
		Copy: func(o any) any { return o.(*bootstrapping.Evaluator).ShallowCopy() }, Work: e.work}}
}
