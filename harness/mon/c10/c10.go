// Package c10: copies are complete, independent and safe to use concurrently.
//
// Three monitors over the copy constructors of lattigo (ShallowCopy, WithKey, WithPRNG, WithParams,
// CopyNew, AtLevel):
//
//  1. structural: reflection walk (unexported fields included) of original vs copy: scalar leaves
//     equal, nothing set in the original and zero in the copy, re-allocated memory not smaller,
//     contents of re-allocated tables equal on fresh objects, internal aliasing preserved; memory
//     reachable from both sides is hashed around the workload and must stay unwritten for
//     constructors documented as concurrency-safe; deep copies share nothing and flipping every bit
//     of one side leaves the other untouched.
//  2. differential: a deterministic workload on a never-copied reference, on the original, on the
//     copy, on the original again, on the copy again, on a copy of the used original and on a copy
//     of the copy: identical results (bit for bit on canonical residues + metadata for
//     deterministic objects; decryption-based verdicts for objects that draw fresh randomness).
//  3. concurrent (cases "race/...", built with -race): 2..16 goroutines, one shallow copy each,
//     sharing parameters, rings, key sets (including key sets that receive Galois keys after the
//     evaluators were built); every result is compared with the sequential reference; the race
//     detector's reports are collected by the driver.
package c10

import (
	"fmt"

	"verif/harness/eng"
	"verif/harness/gen"
)

type caseCfg struct {
	Group string   `json:"group"`
	P     pset     `json:"params"`
	Out   *pset    `json:"params_out,omitempty"`
	Race  *raceCfg `json:"race,omitempty"`
	Var   string   `json:"variant,omitempty"`
}

func chainFor(r *eng.Rand, logN int, ringT string, qbits, pbits []int) (q, p []uint64) {
	nth := uint64(2) << logN
	if ringT == "ci" {
		nth <<= 1
	}
	return gen.Chain(r, nth, qbits, pbits)
}

type groupDef struct {
	name string
	run  func(c *eng.Ctx, cc caseCfg)
	race func(c *eng.Ctx, cc caseCfg) // nil: no concurrent variant
}

var groups = map[string]*groupDef{}

func regGroup(g *groupDef) { groups[g.name] = g }

func mkPset(r *eng.Rand, name string, logN int, ringT string, qb, pb []int) (pset, bool) {
	q, p := chainFor(r, logN, ringT, qb, pb)
	if q == nil {
		return pset{}, false
	}
	return pset{Name: name, LogN: logN, Q: q, P: p, Ring: ringT}, true
}

func cases(tier string, seed int64) []eng.Case {
	r := eng.NewRand("c10-cases", seed)
	thorough := tier == "thorough"
	var out []eng.Case
	add := func(group string, ps pset, variant string, po *pset) {
		g := groups[group]
		if g == nil {
			panic("unknown group " + group)
		}
		cc := caseCfg{Group: group, P: ps, Var: variant, Out: po}
		id := fmt.Sprintf("%s/%s", group, ps.Name)
		if variant != "" {
			id += "/" + variant
		}
		out = append(out, eng.Case{ID: id, Sig: "C10|" + group, Desc: cc, Run: func(c *eng.Ctx) { g.run(c, cc) }})
	}
	addRace := func(group string, ps pset, variant string, po *pset, G, procs, reps int) {
		g := groups[group]
		if g == nil || g.race == nil {
			panic("no race variant for group " + group)
		}
		cc := caseCfg{Group: group, P: ps, Var: variant, Out: po, Race: &raceCfg{Group: group, Param: ps.Name, Goroutines: G, MaxProcs: procs, Reps: reps}}
		id := fmt.Sprintf("race/%s/%s/g%d-p%d", group, ps.Name, G, procs)
		if variant != "" {
			id += "/" + variant
		}
		sig := "C10|race/" + group
		if group == "rlwe-late" {
			sig = "C10|rlwe.Evaluator.ShallowCopy|race/late-galois-keys"
		}
		out = append(out, eng.Case{ID: id, Sig: sig, Desc: cc, Run: func(c *eng.Ctx) { g.race(c, cc) }})
	}
	enumerate(r, thorough, add, addRace)
	return out
}

func init() {
	eng.Register(&eng.Monitor{
		ID: "C10", Level: "exploration", Race: true,
		Rule: "cases = (group of copy constructors, parameter set drawn per seed: ring type, logN 4..9, Q/P prime sizes and counts, auxiliary modulus or power-of-two decomposition, NTT / coefficient domain, plaintext modulus with full or reduced slot count, encoder precision, secret distribution); inside a case every constructor of the group (ShallowCopy / WithKey / WithPRNG / WithParams / CopyNew / AtLevel of the types listed in the counters 'ctor:*') is applied to originals in every configuration of the group (key kinds, nil / partial / full / late-extended key sets, mode flags, compressed keys, levels) and judged by (1) the reflection walk original vs copy, (2) the differential schedule reference / original / copy / original / copy / copy-of-used / copy-of-copy with shared-memory hashes taken around it, (3) for CopyNew: no shared memory + bit-flip of every leaf of one side; race/ cases run 2..16 goroutines (one copy each, goroutine 0 on the original) under the race detector at GOMAXPROCS 2, 4 or 16 and compare every result with the sequential reference. " +
			"Added by the coverage audit: (a) group rlwe-inplace: the in-place deep copies ring.Poly.Copy / CopyLvl, ringqp.Poly.Copy / CopyLvl, rlwe.Element.Copy (both polynomial types), rlwe.Ciphertext.Copy, rlwe.Plaintext.Copy into receivers that are dirty, of a higher / lower level or degree, row-aliased or the source itself, judged against the documented copy semantics (exact value + metadata, rows / components outside the copied range untouched, source unchanged, nothing shared afterwards, bit-flip of either side invisible on the other, the two views of a plaintext stay one polynomial); (b) constructors applied to the result of another constructor (cfg '/of-..', '/then-..': WithKey(..).ShallowCopy(), ShallowCopy().WithKey(..), WithPRNG(..).WithKey(..) whose c1 must continue the keyed stream) for encryptors, decryptors and the evaluators of every layer; (c) rlwe.KeyGenerator as original (workload: key pair, switching key plain and compressed, relinearization key, Galois key, each proven by use) with the promoted ShallowCopy / WithKey / WithPRNG as copies, and EncryptZero over QP (the call key generators make) judged by the exact truncation bound of the error distribution; (d) non-default error distributions (wide / tight Gaussian, ternary, fixed-weight ternary: parameter sets *Xe*) for encryptors and multiparty protocols, whose copies rebuild their samplers; (e) group blindrot: sibling blindrot evaluators sharing one blind-rotation key set, and copies of the rgsw evaluator that the blind rotation re-keyed; (f) group circuits: dft / mod1 evaluators rebuilt over ckks.Evaluator.ShallowCopy() sharing matrices, polynomials and keys (as bootstrapping.Evaluator.ShallowCopy does), also in the race lane of the quick tier; (g) key sets without relinearization key / without Galois keys / zero value, ring packing with one switching step or ring-switching keys only, tight Gaussian and weight-1 / weight-(N-1) ternary sampler views. " +
			"distinct key = (constructor, configuration of the original, parameter set) plus, for race cases, (goroutines, GOMAXPROCS), and for sampler views (sampler kind, level). Non-trivial = the original carries state the constructor has to preserve, re-allocate or rebind: a key or key set (full, partial, extended after construction), a mode flag, a precision, scratch buffers that the workload dirties, a compressed or reduced-level key, non-default metadata, or the constructor rebinds a key / PRNG / level / output parameters. Trivial (counted in subjects_trivial, not in distinct_nontrivial) = ShallowCopy of a keyless evaluator / encryptor or of a nil basis extender, AtLevel(current level), CopyNew of a container of plain numbers.",
		Cases: cases,
		Assumptions: []string{
			"reflection + unsafe see every field and every word reachable from an object (maps, slices, pointers, interfaces, big.Int / big.Float internals); PRNG state (utils/sampling, blake2b) is excluded from equality but included in the sharing analysis",
			"a shallow copy may over-allocate scratch memory; it may not under-allocate it, drop a field that is set in the original, or change a scalar",
			"objects that draw fresh randomness (encryptors, multiparty protocols) are compared through decryption-based verdicts: noise at most 2^(log2 Q_level - 12); the parameter sets keep every worst-case fresh, key-switching and smudging bound below that limit, while a wrong key / dropped term gives noise of the size of Q",
			"sampler views are compared with an equally keyed sampler built directly at the level of the view (first read), and - Gaussian / ternary only, whose consumption of randomness does not depend on the level - with the rows of the full-level stream for sequences of reads",
			"the race detector only sees the accesses the workload performs; GOMAXPROCS and start offsets are varied, interleavings are not enumerated",
			"writes to shared memory are detected by hashing it around the workload: a write that restores exactly the bytes that were there at snapshot time (the same deterministic scratch content written again) is invisible sequentially and left to the race lane",
			"the in-place Copy / CopyLvl methods are deep copies in the sense of the property (documented as 'copies ... on the target'); receivers stay inside the documented domain: same ring degree, any level, any degree ('up to the capacity of op')",
		},
	})
}
