package c10

// Circuit-layer evaluators that the bootstrapping evaluator rebuilds over a shallow copy of its
// ckks.Evaluator (circuits/ckks/dft/dft.go, circuits/ckks/mod1/mod1_evaluator.go): they have no copy
// constructor of their own; a copy is a new evaluator over ckks.Evaluator.ShallowCopy() that shares
// the precomputed matrices / polynomials and the key set with the original. Judged like every
// shallow copy: same results, nothing shared is written, parallel use gives the sequential results.

import (
	"fmt"

	"github.com/tuneinsight/lattigo/v6/circuits/ckks/dft"
	"github.com/tuneinsight/lattigo/v6/circuits/ckks/mod1"
	"github.com/tuneinsight/lattigo/v6/circuits/ckks/polynomial"
	"github.com/tuneinsight/lattigo/v6/core/rlwe"
	"github.com/tuneinsight/lattigo/v6/schemes/ckks"
)

var circScratch = []string{"*.Evaluator*.evaluatorBuffers", "*.Evaluator*.Evaluator*.EvaluatorBuffers", "*.Evaluator*.Evaluator*.BasisExtender*.buffQ", "*.Evaluator*.Evaluator*.BasisExtender*.buffP",
	"*.Evaluator*.Encoder*.buff", "*.Evaluator*.Encoder*.buffCmplx", "*.Evaluator*.Encoder*.bigintCoeffs", "*.Evaluator*.Encoder*.qHalf", "*.PolynomialEvaluator*.Evaluator.CoefficientGetter"}

func circVals(n int, seed uint64) []complex128 {
	v := make([]complex128, n)
	s := seed | 1
	for i := range v {
		s ^= s << 13
		s ^= s >> 7
		s ^= s << 17
		v[i] = complex(float64(int64(s%2001)-1000)/1000, float64(int64((s>>20)%2001)-1000)/1000)
	}
	return v
}

func circSubjects(cc caseCfg) ([]*subject, error) {
	ps := cc.P
	p, err := ckks.NewParametersFromLiteral(ckks.ParametersLiteral{LogN: ps.LogN, Q: ps.Q, P: ps.P, LogDefaultScale: ps.LogScale})
	if err != nil {
		return nil, err
	}
	kgen := rlwe.NewKeyGenerator(p)
	sk := kgen.GenSecretKeyNew()
	ecd := ckks.NewEncoder(p, 90)
	enc := rlwe.NewEncryptor(p, sk)
	rq := p.RingQ()
	switch cc.Var {
	case "dft":
		logSlots := p.LogMaxSlots() - 1
		L := p.MaxLevel()
		if L < 3 {
			return nil, fmt.Errorf("dft: chain too short")
		}
		ctsLit := dft.MatrixLiteral{Type: dft.HomomorphicEncode, Format: dft.RepackImagAsReal, LogSlots: logSlots, LevelQ: L, LevelP: p.MaxLevelP(), Levels: []int{1, 1}}
		stcLit := dft.MatrixLiteral{Type: dft.HomomorphicDecode, Format: dft.RepackImagAsReal, LogSlots: logSlots, LevelQ: L - 2, LevelP: p.MaxLevelP(), Levels: []int{1}}
		cts, err := dft.NewMatrixFromLiteral(p, ctsLit, ecd)
		if err != nil {
			return nil, err
		}
		stc, err := dft.NewMatrixFromLiteral(p, stcLit, ecd)
		if err != nil {
			return nil, err
		}
		galEls := append(ctsLit.GaloisElements(p), stcLit.GaloisElements(p)...)
		galEls = append(galEls, p.GaloisElementOrderTwoOrthogonalSubgroup())
		seen := map[uint64]bool{}
		var gks []*rlwe.GaloisKey
		for _, g := range galEls {
			if !seen[g] {
				seen[g] = true
				gks = append(gks, kgen.GenGaloisKeyNew(g, sk))
			}
		}
		evk := rlwe.NewMemEvaluationKeySet(nil, gks...)
		pt := ckks.NewPlaintext(p, L)
		pt.LogDimensions.Cols = logSlots
		if err = ecd.Encode(circVals(1<<logSlots, 11), pt); err != nil {
			return nil, err
		}
		ct, err := enc.EncryptNew(pt)
		if err != nil {
			return nil, err
		}
		work := func(x any) (o outs) {
			ev := x.(*dft.Evaluator)
			re, im, err := ev.CoeffsToSlotsNew(ct, cts)
			if err != nil {
				o.add("CoeffsToSlotsNew", "error")
				return
			}
			o.add("CoeffsToSlotsNew", digestCt(rq, re)+" | "+digestCt(rq, im))
			out, err := ev.SlotsToCoeffsNew(re, im, stc)
			if err != nil {
				o.add("SlotsToCoeffsNew", "error")
				return
			}
			o.add("SlotsToCoeffsNew", digestCt(rq, out))
			return
		}
		return []*subject{{Ctor: "dft.NewEvaluator", Cfg: ps.Name + "/over-ckks.Evaluator.ShallowCopy", Safe: true, FreshStructOnly: true, Scratch: circScratch,
			Make: func() any { return dft.NewEvaluator(p, ckks.NewEvaluator(p, evk)) },
			Copy: func(o any) any { return dft.NewEvaluator(p, o.(*dft.Evaluator).Evaluator.ShallowCopy()) },
			Work: work}}, nil
	case "mod1":
		lit := mod1.ParametersLiteral{LevelQ: p.MaxLevel() - 1, Mod1Type: mod1.CosDiscrete, LogMessageRatio: 8, K: 12, Mod1Degree: 30, DoubleAngle: 3, LogScale: 60}
		if lit.Depth() > lit.LevelQ {
			return nil, fmt.Errorf("mod1: chain too short (depth %d)", lit.Depth())
		}
		m1, err := mod1.NewParametersFromLiteral(p, lit)
		if err != nil {
			return nil, err
		}
		evk := rlwe.NewMemEvaluationKeySet(kgen.GenRelinearizationKeyNew(sk))
		pt := ckks.NewPlaintext(p, p.MaxLevel())
		v := circVals(p.MaxSlots(), 13)
		for i := range v {
			v[i] = complex(real(v[i])/256, 0)
		}
		if err = ecd.Encode(v, pt); err != nil {
			return nil, err
		}
		ct, err := enc.EncryptNew(pt)
		if err != nil {
			return nil, err
		}
		work := func(x any) (o outs) {
			ev := x.(*mod1.Evaluator)
			res, err := ev.EvaluateNew(ct.CopyNew())
			if err != nil {
				o.add("EvaluateNew", "error")
				return
			}
			o.add("EvaluateNew", digestCt(rq, res))
			res, err = ev.EvaluateAndScaleNew(ct.CopyNew(), 0.5)
			if err != nil {
				o.add("EvaluateAndScaleNew", "error")
				return
			}
			o.add("EvaluateAndScaleNew", digestCt(rq, res))
			return
		}
		return []*subject{{Ctor: "mod1.NewEvaluator", Cfg: ps.Name + "/over-ckks.Evaluator.ShallowCopy", Safe: true, FreshStructOnly: true, Scratch: circScratch,
			Make: func() any {
				ev := ckks.NewEvaluator(p, evk)
				return mod1.NewEvaluator(ev, polynomial.NewEvaluator(p, ev), m1)
			},
			Copy: func(o any) any {
				ev := o.(*mod1.Evaluator).Evaluator.ShallowCopy()
				return mod1.NewEvaluator(ev, polynomial.NewEvaluator(p, ev), m1)
			},
			Work: work}}, nil
	}
	return nil, fmt.Errorf("circuits: unknown variant %q", cc.Var)
}
