//go:build race

package c10

const raceEnabled = true
