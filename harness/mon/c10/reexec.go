package c10

import (
	"os"
	"strings"
	"syscall"
)

// RaceExitCode makes the race-enabled worker end with status 0 when the only thing that happened
// is that the race detector printed reports (its default is status 66, which the driver cannot
// tell from a crash): the reports are read from the GORACE log files by the driver. The race
// runtime reads GORACE once at start-up, hence the re-exec. Fatal runtime errors keep status 2.
func RaceExitCode() {
	if !raceEnabled {
		return
	}
	g := os.Getenv("GORACE")
	if strings.Contains(g, "exitcode=") {
		return
	}
	exe, err := os.Executable()
	if err != nil {
		return
	}
	env := []string{}
	for _, kv := range os.Environ() {
		if !strings.HasPrefix(kv, "GORACE=") {
			env = append(env, kv)
		}
	}
	env = append(env, "GORACE="+strings.TrimSpace(g+" exitcode=0"))
	_ = syscall.Exec(exe, os.Args, env)
}
