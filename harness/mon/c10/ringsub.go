package c10

// Ring layer: ring.Ring.AtLevel, ringqp.Ring.AtLevel, ring.BasisExtender.ShallowCopy,
// ring.Poly / ringqp.Poly CopyNew, the three samplers' AtLevel views, UniformSampler.WithPRNG
// (ring and ringqp), ringqp.UniformSampler.AtLevel.

import (
	"fmt"
	"strings"

	"github.com/tuneinsight/lattigo/v6/ring"
	"github.com/tuneinsight/lattigo/v6/ring/ringqp"
	"github.com/tuneinsight/lattigo/v6/utils/sampling"
	"github.com/tuneinsight/lattigo/v6/utils/structs"

	"verif/harness/eng"
)

// pset is a JSON-able parameter set shared by every group.
type pset struct {
	Name     string   `json:"name"`
	LogN     int      `json:"logN"`
	Q        []uint64 `json:"q"`
	P        []uint64 `json:"p,omitempty"`
	Ring     string   `json:"ring,omitempty"` // "" standard | "ci"
	T        uint64   `json:"t,omitempty"`
	LogScale int      `json:"logScale,omitempty"`
	Pow2     int      `json:"pow2,omitempty"`
	NoNTT    bool     `json:"coeffDomain,omitempty"`
	Xs       string   `json:"xs,omitempty"` // "" ternary p=0.5 | "h" sparse | "gauss"
	Xe       string   `json:"xe,omitempty"` // "" default | "wide" | "tight" | "tern" | "ternH"
}

// sample renders the set for the evidence file (moduli as decimal strings: they exceed 2^53).
func (p pset) sample() map[string]any {
	str := func(v []uint64) (o []string) {
		for _, x := range v {
			o = append(o, fmt.Sprint(x))
		}
		return
	}
	return map[string]any{"name": p.Name, "logN": p.LogN, "q": str(p.Q), "p": str(p.P), "ring": p.Ring, "t": p.T, "logScale": p.LogScale, "pow2": p.Pow2, "coeffDomain": p.NoNTT, "xs": p.Xs, "xe": p.Xe}
}

func (p pset) ringType() ring.Type {
	if p.Ring == "ci" {
		return ring.ConjugateInvariant
	}
	return ring.Standard
}

func (p pset) rings() (rq, rp *ring.Ring, err error) {
	if rq, err = ring.NewRingFromType(1<<p.LogN, p.Q, p.ringType()); err != nil {
		return
	}
	if len(p.P) > 0 {
		rp, err = ring.NewRingFromType(1<<p.LogN, p.P, p.ringType())
	}
	return
}

// fillPoly fills rows 0..level with deterministic residues < q_i.
func fillPoly(r *ring.Ring, p ring.Poly, seed uint64) {
	s := seed*0x9E3779B97F4A7C15 | 1
	for i := range p.Coeffs {
		if i >= len(r.SubRings) {
			break
		}
		q := r.SubRings[i].Modulus
		for j := range p.Coeffs[i] {
			s ^= s << 13
			s ^= s >> 7
			s ^= s << 17
			p.Coeffs[i][j] = s % q
		}
	}
}

// fillSmall fills row 0.. with a small-norm polynomial (values in [-7, 7]) in every modulus.
func fillSmall(r *ring.Ring, p ring.Poly, seed uint64) {
	s := seed*0x9E3779B97F4A7C15 | 1
	n := r.N()
	for j := 0; j < n; j++ {
		s ^= s << 13
		s ^= s >> 7
		s ^= s << 17
		v := int64(s%15) - 7
		for i := range p.Coeffs {
			if i >= len(r.SubRings) {
				break
			}
			q := r.SubRings[i].Modulus
			if v >= 0 {
				p.Coeffs[i][j] = uint64(v)
			} else {
				p.Coeffs[i][j] = q - uint64(-v)
			}
		}
	}
}

func keyedPRNG(tag string) sampling.PRNG {
	key := make([]byte, 64)
	copy(key, tag)
	p, err := sampling.NewKeyedPRNG(key)
	if err != nil {
		panic(err)
	}
	return p
}

// ringWork runs a fixed set of operations at the level of r on inputs of the full-level ring full.
func ringWork(full, r *ring.Ring) (o outs) {
	lvl := r.Level()
	a, b := full.NewPoly(), full.NewPoly()
	fillPoly(full, a, 11)
	fillPoly(full, b, 12)
	res := full.NewPoly()
	dg := func(p ring.Poly) string { return fmt.Sprintf("%016x", digestRows(r, p.Coeffs[:lvl+1])) }
	o.add("Level", "%d/%d/%d", r.Level(), r.MaxLevel(), r.N())
	o.add("Modulus", "%s", r.ModulusAtLevel[lvl].Text(16))
	np := r.NewPoly()
	o.add("NewPoly", "%d/%d", np.Level(), np.N())
	r.Add(a, b, res)
	o.add("Add", dg(res))
	r.Sub(a, b, res)
	o.add("Sub", dg(res))
	r.MulCoeffsBarrett(a, b, res)
	o.add("MulCoeffsBarrett", dg(res))
	r.MForm(a, res)
	r.MulCoeffsMontgomery(res, b, res)
	o.add("MulCoeffsMontgomery", dg(res))
	r.NTT(a, res)
	o.add("NTT", dg(res))
	r.INTT(res, res)
	o.add("INTT", dg(res))
	r.MulScalar(a, 0xDEADBEEFCAFE, res)
	o.add("MulScalar", dg(res))
	{
		// automorphism in the NTT domain, with a Galois element that depends on the ring (degree, level, first
		// modulus): in the concurrent lane the goroutines of one subject are then the first users of that element
		k := uint64(1 + (uint64(r.N())+uint64(lvl)*7+r.SubRings[0].Modulus)%61)
		gal := ring.ModExp(5, k, r.NthRoot())
		nt, out := full.NewPoly(), full.NewPoly()
		r.NTT(a, nt)
		r.AutomorphismNTT(nt, gal, out)
		o.add("AutomorphismNTT", dg(out))
	}
	if r.Type() == ring.Standard {
		r.MultByMonomial(a, 3, res)
		o.add("MultByMonomial", dg(res))
		r.Automorphism(a, 5, res)
		o.add("Automorphism", dg(res))
	}
	if lvl > 0 {
		c := full.NewPoly()
		r.DivRoundByLastModulus(a, c)
		o.add("DivRoundByLastModulus", "%016x", digestRows(r, c.Coeffs[:lvl]))
		sub := r.AtLevel(lvl - 1)
		sub.Add(a, b, res)
		o.add("AtLevel.Add", "%016x", digestRows(sub, res.Coeffs[:lvl]))
	}
	return
}

func ringSubjects(ps pset) (subs []*subject, err error) {
	rq, rp, err := ps.rings()
	if err != nil {
		return nil, err
	}
	// ---- ring.Ring.AtLevel
	for l := 0; l <= rq.MaxLevel(); l++ {
		l := l
		s := &subject{Ctor: "ring.Ring.AtLevel", Cfg: fmt.Sprintf("%s/l%d", ps.Name, l), Safe: true, NoStruct: l != rq.MaxLevel(),
			Make: func() any { return rq },
			Copy: func(o any) any { return o.(*ring.Ring).AtLevel(l) },
			Work: func(x any) outs { return ringWork(rq, x.(*ring.Ring)) },
			Ref: func() outs {
				ind, err := ring.NewRingFromType(1<<ps.LogN, ps.Q[:l+1], ps.ringType())
				if err != nil {
					panic(err)
				}
				o := ringWork(rq, ind)
				// an independently built ring of l+1 primes reports MaxLevel l; the view keeps the chain
				o[0].Val = fmt.Sprintf("%d/%d/%d", l, rq.MaxLevel(), rq.N())
				return o
			},
		}
		subs = append(subs, s)
	}
	// ---- ringqp.Ring.AtLevel
	if rp != nil {
		full := ringqp.Ring{RingQ: rq, RingP: rp}
		work := func(r ringqp.Ring) (o outs) {
			a, b, res := full.NewPoly(), full.NewPoly(), full.NewPoly()
			fillPoly(rq, a.Q, 21)
			fillPoly(rp, a.P, 22)
			fillPoly(rq, b.Q, 23)
			fillPoly(rp, b.P, 24)
			lq, lp := r.LevelQ(), r.LevelP()
			dg := func(p ringqp.Poly) string {
				s := fmt.Sprintf("%016x", digestRows(rq, p.Q.Coeffs[:lq+1]))
				if lp >= 0 {
					s += fmt.Sprintf("/%016x", digestRows(rp, p.P.Coeffs[:lp+1]))
				}
				return s
			}
			o.add("Levels", "%d/%d", lq, lp)
			np := r.NewPoly()
			o.add("NewPoly", "%d/%d", np.Q.Level(), np.P.Level())
			r.Add(a, b, res)
			o.add("Add", dg(res))
			r.MForm(a, res)
			r.MulCoeffsMontgomery(res, b, res)
			o.add("MulCoeffsMontgomery", dg(res))
			r.NTT(a, res)
			o.add("NTT", dg(res))
			r.INTT(res, res)
			o.add("INTT", dg(res))
			r.MulScalar(a, 77, res)
			o.add("MulScalar", dg(res))
			if lp >= 0 {
				sm := rq.NewPoly()
				fillSmall(rq, sm, 5)
				r.ExtendBasisSmallNormAndCenter(sm, lp, res.Q, res.P)
				o.add("ExtendBasisSmallNormAndCenter", dg(res))
			}
			return
		}
		for lq := 0; lq <= rq.MaxLevel(); lq++ {
			for lp := -1; lp <= rp.MaxLevel(); lp++ {
				lq, lp := lq, lp
				s := &subject{Ctor: "ringqp.Ring.AtLevel", Cfg: fmt.Sprintf("%s/lq%d/lp%d", ps.Name, lq, lp), Safe: true, NoStruct: true,
					Make: func() any { return &full },
					Copy: func(o any) any { v := o.(*ringqp.Ring).AtLevel(lq, lp); return &v },
					Work: func(x any) outs { return work(*x.(*ringqp.Ring)) },
					Ref: func() outs {
						iq, err := ring.NewRingFromType(1<<ps.LogN, ps.Q[:lq+1], ps.ringType())
						if err != nil {
							panic(err)
						}
						ind := ringqp.Ring{RingQ: iq}
						if lp >= 0 {
							if ind.RingP, err = ring.NewRingFromType(1<<ps.LogN, ps.P[:lp+1], ps.ringType()); err != nil {
								panic(err)
							}
						}
						return work(ind)
					},
				}
				subs = append(subs, s)
			}
		}
		// ---- ring.BasisExtender.ShallowCopy
		beWork := func(x any) (o outs) {
			be := x.(*ring.BasisExtender)
			for lq := 0; lq <= rq.MaxLevel(); lq++ {
				for lp := 0; lp <= rp.MaxLevel(); lp++ {
					aQ, aP := rq.NewPoly(), rp.NewPoly()
					fillPoly(rq, aQ, uint64(100+lq))
					fillPoly(rp, aP, uint64(200+lp))
					oQ, oP := rq.NewPoly(), rp.NewPoly()
					tag := fmt.Sprintf("/lq%d/lp%d", lq, lp)
					be.ModUpQtoP(lq, lp, aQ, oP)
					o.add("ModUpQtoP"+tag, "%016x", digestRows(rp, oP.Coeffs[:lp+1]))
					be.ModUpPtoQ(lp, lq, aP, oQ)
					o.add("ModUpPtoQ"+tag, "%016x", digestRows(rq, oQ.Coeffs[:lq+1]))
					be.ModDownQPtoQ(lq, lp, aQ, aP, oQ)
					o.add("ModDownQPtoQ"+tag, "%016x", digestRows(rq, oQ.Coeffs[:lq+1]))
					be.ModDownQPtoQNTT(lq, lp, aQ, aP, oQ)
					o.add("ModDownQPtoQNTT"+tag, "%016x", digestRows(rq, oQ.Coeffs[:lq+1]))
					be.ModDownQPtoP(lq, lp, aQ, aP, oP)
					o.add("ModDownQPtoP"+tag, "%016x", digestRows(rp, oP.Coeffs[:lp+1]))
				}
			}
			return
		}
		subs = append(subs, &subject{Ctor: "ring.BasisExtender.ShallowCopy", Cfg: ps.Name, Safe: true, Scratch: []string{"*.buffQ", "*.buffP"},
			Make: func() any { return ring.NewBasisExtender(rq, rp) },
			Copy: func(o any) any { return o.(*ring.BasisExtender).ShallowCopy() },
			Work: beWork})
		subs = append(subs, &subject{Ctor: "ring.BasisExtender.ShallowCopy", Cfg: ps.Name + "/nil", Safe: true,
			Make: func() any { var be *ring.BasisExtender; return be },
			Copy: func(o any) any { return o.(*ring.BasisExtender).ShallowCopy() },
			Work: func(x any) (o outs) { o.add("nil", "%v", x.(*ring.BasisExtender) == nil); return }})
	}
	// ---- deep copies of polynomials and of the structs containers
	mkPoly := func() any {
		p := rq.NewPoly()
		fillPoly(rq, p, 31)
		return &p
	}
	subs = append(subs, &subject{Ctor: "ring.Poly.CopyNew", Cfg: ps.Name, Deep: true, Make: mkPoly,
		Copy: func(o any) any { return o.(*ring.Poly).CopyNew() },
		Work: func(x any) (o outs) {
			p := x.(*ring.Poly)
			o.add("value", "%s N=%d", digestPoly(rq, *p), p.N())
			return
		}})
	full := ringqp.Ring{RingQ: rq, RingP: rp}
	subs = append(subs, &subject{Ctor: "ringqp.Poly.CopyNew", Cfg: ps.Name, Deep: true,
		Make: func() any {
			p := full.NewPoly()
			fillPoly(rq, p.Q, 32)
			if rp != nil {
				fillPoly(rp, p.P, 33)
			}
			return &p
		},
		Copy: func(o any) any { return o.(*ringqp.Poly).CopyNew() },
		Work: func(x any) (o outs) {
			p := x.(*ringqp.Poly)
			o.add("value", "%s", digestPolyQP(&full, *p))
			o.add("levels", "%d/%d", p.LevelQ(), p.LevelP())
			return
		}})
	subs = append(subs, &subject{Ctor: "structs.Vector.CopyNew", Cfg: ps.Name + "/uint64", Deep: true,
		Make: func() any { v := structs.Vector[uint64]{1, 2, 3, ^uint64(0), 5}; return &v },
		Copy: func(o any) any { v := o.(*structs.Vector[uint64]).CopyNew(); return &v },
		Work: func(x any) (o outs) { o.add("value", "%v", *x.(*structs.Vector[uint64])); return }})
	subs = append(subs, &subject{Ctor: "structs.Vector.CopyNew", Cfg: ps.Name + "/ring.Poly", Deep: true,
		Make: func() any {
			v := structs.Vector[ring.Poly]{rq.NewPoly(), rq.AtLevel(0).NewPoly()}
			fillPoly(rq, v[0], 41)
			fillPoly(rq, v[1], 42)
			return &v
		},
		Copy: func(o any) any { v := o.(*structs.Vector[ring.Poly]).CopyNew(); return &v },
		Work: func(x any) (o outs) {
			for i, p := range *x.(*structs.Vector[ring.Poly]) {
				o.add(fmt.Sprintf("value[%d]", i), digestPoly(rq, p))
			}
			return
		}})
	subs = append(subs, &subject{Ctor: "structs.Matrix.CopyNew", Cfg: ps.Name + "/float64+ragged", Deep: true,
		Make: func() any { m := structs.Matrix[float64]{{1.5, -2}, {}, {3, 4, 5}}; return &m },
		Copy: func(o any) any { m := o.(*structs.Matrix[float64]).CopyNew(); return &m },
		Work: func(x any) (o outs) { o.add("value", "%v", *x.(*structs.Matrix[float64])); return }})
	subs = append(subs, &subject{Ctor: "structs.Matrix.CopyNew", Cfg: ps.Name + "/ringqp.Poly", Deep: true,
		Make: func() any {
			m := structs.Matrix[ringqp.Poly]{{full.NewPoly()}, {full.NewPoly(), full.NewPoly()}}
			fillPoly(rq, m[0][0].Q, 43)
			fillPoly(rq, m[1][1].Q, 44)
			return &m
		},
		Copy: func(o any) any { m := o.(*structs.Matrix[ringqp.Poly]).CopyNew(); return &m },
		Work: func(x any) (o outs) {
			for i, row := range *x.(*structs.Matrix[ringqp.Poly]) {
				for j, p := range row {
					o.add(fmt.Sprintf("value[%d][%d]", i, j), digestPolyQP(&full, p))
				}
			}
			return
		}})
	subs = append(subs, &subject{Ctor: "structs.Map.CopyNew", Cfg: ps.Name + "/ring.Poly", Deep: true,
		Make: func() any {
			m := structs.Map[uint64, ring.Poly]{}
			for _, k := range []uint64{3, 5, 1 << 40} {
				p := rq.NewPoly()
				fillPoly(rq, p, k)
				m[k] = &p
			}
			return &m
		},
		Copy: func(o any) any { return o.(*structs.Map[uint64, ring.Poly]).CopyNew() },
		Work: func(x any) (o outs) {
			m := *x.(*structs.Map[uint64, ring.Poly])
			for _, k := range []uint64{1 << 40, 3, 5} {
				if p, ok := m[k]; ok {
					o.add(fmt.Sprintf("value{%d}", k), digestPoly(rq, *p))
				} else {
					o.add(fmt.Sprintf("value{%d}", k), "missing")
				}
			}
			o.add("len", "%d", len(m))
			return
		}})
	return subs, nil
}

// ---------------------------------------------------------------------------------------------
// samplers (dedicated routine: views share the stream of their owner, so the generic
// original/copy/original schedule does not apply)

type samplerKind struct {
	name string
	x    ring.DistributionParameters
	mont bool
}

func samplerKinds(n int) []samplerKind {
	return []samplerKind{
		{"gaussian", ring.DiscreteGaussian{Sigma: 3.2, Bound: 19.2}, false},
		{"gaussian-mont", ring.DiscreteGaussian{Sigma: 3.2, Bound: 19.2}, true},
		{"gaussian-wide", ring.DiscreteGaussian{Sigma: 1 << 20, Bound: 6 * (1 << 20)}, false},
		{"ternary-p0.5", ring.Ternary{P: 0.5}, false},
		{"ternary-p0.5-mont", ring.Ternary{P: 0.5}, true},
		{"ternary-p2/3", ring.Ternary{P: 2.0 / 3}, false},
		{"ternary-p0.1-mont", ring.Ternary{P: 0.1}, true},
		{"ternary-h", ring.Ternary{H: n / 4}, false},
		{"ternary-h-mont", ring.Ternary{H: n / 4}, true},
		{"gaussian-tight", ring.DiscreteGaussian{Sigma: 0.5, Bound: 1}, false},
		{"ternary-h1-mont", ring.Ternary{H: 1}, true},
		{"ternary-hmax", ring.Ternary{H: n - 1}, false},
		{"uniform", ring.Uniform{}, false},
	}
}

func rowsDigest(r *ring.Ring, p ring.Poly, level int) string {
	return fmt.Sprintf("%016x", digestRows(r, p.Coeffs[:level+1]))
}

func runSamplers(c *eng.Ctx, ps pset) {
	rq, rp, err := ps.rings()
	if err != nil {
		c.Inconclusive("ring: " + err.Error())
		return
	}
	n := rq.N()
	c.Sample(map[string]any{"group": "samplers", "params": ps.sample()})
	newS := func(k samplerKind, key string, r *ring.Ring) ring.Sampler {
		s, err := ring.NewSampler(keyedPRNG(key), r, k.x, k.mont)
		if err != nil {
			panic(err)
		}
		return s
	}
	for _, k := range samplerKinds(n) {
		k := k
		ctor := map[string]string{"gaussia": "ring.GaussianSampler.AtLevel", "ternary": "ring.TernarySampler.AtLevel", "uniform": "ring.UniformSampler.AtLevel"}[k.name[:7]]
		for l := 0; l <= rq.MaxLevel(); l++ {
			key := fmt.Sprintf("%s/%s/l%d", ps.Name, k.name, l)
			c.Distinct(ctor+"/"+key, true)
			c.Count("ctor:"+ctor, 1)
			c.Try(sigOf(ctor, "first-read"), func() {
				// (a) the first polynomial read through a view at level l equals the first polynomial of
				//     an equally keyed sampler built directly on a ring of l+1 primes
				ind, err := ring.NewRingFromType(n, ps.Q[:l+1], ps.ringType())
				if err != nil {
					panic(err)
				}
				owner := newS(k, key, rq)
				view := owner.AtLevel(l)
				got := rq.NewPoly()
				view.Read(got)
				want := newS(k, key, ind).ReadNew()
				c.Check(rowsDigest(rq, got, l) == rowsDigest(ind, want, l), sigOf(ctor, "view-differs-from-sampler-at-that-level", "Read"), func() string {
					return fmt.Sprintf("%s: first Read through AtLevel(%d) differs from a sampler built at that level with the same key", key, l)
				})
				// rows above the level are not written
				zero := true
				for i := l + 1; i <= rq.MaxLevel(); i++ {
					for _, x := range got.Coeffs[i] {
						zero = zero && x == 0
					}
				}
				c.Check(zero, sigOf(ctor, "view-writes-above-its-level"), func() string { return key })
				// ReadNew allocates at the level of the view
				o2 := newS(k, key, rq)
				rn := o2.AtLevel(l).ReadNew()
				c.Check(rn.Level() == l && rowsDigest(rq, rn, l) == rowsDigest(ind, want, l), sigOf(ctor, "view-differs-from-sampler-at-that-level", "ReadNew"), func() string {
					return fmt.Sprintf("%s: ReadNew level %d", key, rn.Level())
				})
				// ReadAndAdd adds the same polynomial
				o3 := newS(k, key, rq)
				acc := rq.NewPoly()
				fillPoly(rq, acc, 9)
				acc0 := *acc.CopyNew()
				o3.AtLevel(l).ReadAndAdd(acc)
				sum := ind.NewPoly()
				tmp := ind.NewPoly()
				for i := 0; i <= l; i++ {
					copy(tmp.Coeffs[i], acc0.Coeffs[i])
				}
				ind.Add(tmp, want, sum)
				c.Check(rowsDigest(rq, acc, l) == rowsDigest(ind, sum, l), sigOf(ctor, "view-differs-from-sampler-at-that-level", "ReadAndAdd"), func() string { return key })
			})
			if k.name == "uniform" {
				continue
			}
			c.Try(sigOf(ctor, "stream"), func() {
				// (b) sequential use per owner: a sequence of reads through views of several levels
				//     produces, row for row, the polynomials an equally keyed sampler produces at full level
				//     (the consumption of randomness of these two samplers does not depend on the level).
				owner := newS(k, key+"/seq", rq)
				full := newS(k, key+"/seq", rq)
				levels := []int{l, rq.MaxLevel(), 0, l}
				for step, lv := range levels {
					got, want := rq.NewPoly(), rq.NewPoly()
					if step == 1 {
						owner.Read(got) // the owner itself, between two views
						lv = rq.MaxLevel()
					} else {
						owner.AtLevel(lv).Read(got)
					}
					full.Read(want)
					c.Check(rowsDigest(rq, got, lv) == rowsDigest(rq, want, lv), sigOf(ctor, "view-sequence-differs", fmt.Sprintf("step%d", step)), func() string {
						return fmt.Sprintf("%s: read #%d at level %d through a view differs from the rows of the full-level stream", key, step, lv)
					})
				}
			})
		}
		// structure of a view at the level of the owner
		c.Try(sigOf(ctor, "structural"), func() {
			owner := newS(k, ps.Name+"/"+k.name+"/struct", rq)
			view := owner.AtLevel(rq.MaxLevel())
			s := &subject{Ctor: ctor, Cfg: ps.Name + "/" + k.name}
			structural(c, s, owner, view, true)
			c.Distinct(ctor+"/struct/"+s.Cfg, true)
		})
	}
	// ---- uniform: a new view per read continues the buffered stream of the owner
	c.Try(sigOf("ring.UniformSampler.AtLevel", "stream"), func() {
		owner := newS(samplerKind{"uniform", ring.Uniform{}, false}, ps.Name+"/ubuf", rq)
		direct := newS(samplerKind{"uniform", ring.Uniform{}, false}, ps.Name+"/ubuf", rq)
		for step := 0; step < 4; step++ {
			got, want := rq.NewPoly(), rq.NewPoly()
			owner.AtLevel(rq.MaxLevel()).Read(got)
			direct.Read(want)
			c.Check(got.Equal(&want), sigOf("ring.UniformSampler.AtLevel", "view-sequence-differs", fmt.Sprintf("step%d", step)), func() string {
				return fmt.Sprintf("%s: read #%d through a fresh full-level view differs from the owner's own stream", ps.Name, step)
			})
		}
	})
	// ---- UniformSampler.WithPRNG: behaves like a sampler built on that PRNG, leaves the receiver alone
	c.Try(sigOf("ring.UniformSampler.WithPRNG", "differential"), func() {
		c.Distinct("ring.UniformSampler.WithPRNG/"+ps.Name, true)
		c.Count("ctor:ring.UniformSampler.WithPRNG", 1)
		a := ring.NewUniformSampler(keyedPRNG(ps.Name+"/A"), rq)
		b := ring.NewUniformSampler(keyedPRNG(ps.Name+"/A"), rq)
		p1, p1b := a.ReadNew(), b.ReadNew()
		w := a.WithPRNG(keyedPRNG(ps.Name + "/W"))
		wref := ring.NewUniformSampler(keyedPRNG(ps.Name+"/W"), rq)
		x, xr := w.ReadNew(), wref.ReadNew()
		c.Check(x.Equal(&xr), sigOf("ring.UniformSampler.WithPRNG", "copy-differs", "ReadNew"), nil)
		x2, xr2 := w.AtLevel(0).ReadNew(), wref.AtLevel(0).ReadNew()
		c.Check(x2.Equal(&xr2) && x2.Level() == 0, sigOf("ring.UniformSampler.WithPRNG", "copy-differs", "AtLevel.ReadNew"), nil)
		p2, p2b := a.ReadNew(), b.ReadNew()
		c.Check(p1.Equal(&p1b) && p2.Equal(&p2b), sigOf("ring.UniformSampler.WithPRNG", "original-disturbed", "ReadNew"), nil)
		s := &subject{Ctor: "ring.UniformSampler.WithPRNG", Cfg: ps.Name, Rebound: []string{"*.baseSampler*.prng"}}
		structural(c, s, ring.NewUniformSampler(keyedPRNG("s"), rq), ring.NewUniformSampler(keyedPRNG("s"), rq).WithPRNG(keyedPRNG("t")), true)
		sh := overlap(regionsOf(a), regionsOf(w))
		for _, r := range sh {
			if !strings.Contains(r.o.path, "randomBuffer") {
				continue
			}
			c.Violate(sigOf("ring.UniformSampler.WithPRNG", "shares-buffer", normPath(r.o.path)), "the re-keyed sampler shares pointer-free memory with the receiver: "+r.o.path, nil)
		}
	})
	if rp == nil {
		return
	}
	// ---- ringqp.UniformSampler.AtLevel / WithPRNG
	full := ringqp.Ring{RingQ: rq, RingP: rp}
	for lq := 0; lq <= rq.MaxLevel(); lq++ {
		for lp := -1; lp <= rp.MaxLevel(); lp++ {
			lq, lp := lq, lp
			key := fmt.Sprintf("%s/lq%d/lp%d", ps.Name, lq, lp)
			c.Distinct("ringqp.UniformSampler.AtLevel/"+key, true)
			c.Count("ctor:ringqp.UniformSampler.AtLevel", 1)
			c.Try(sigOf("ringqp.UniformSampler.AtLevel", "first-read"), func() {
				iq, err := ring.NewRingFromType(n, ps.Q[:lq+1], ps.ringType())
				if err != nil {
					panic(err)
				}
				ind := ringqp.Ring{RingQ: iq}
				if lp >= 0 {
					if ind.RingP, err = ring.NewRingFromType(n, ps.P[:lp+1], ps.ringType()); err != nil {
						panic(err)
					}
				}
				owner := ringqp.NewUniformSampler(keyedPRNG(key), full)
				got := full.NewPoly()
				owner.AtLevel(lq, lp).Read(got)
				want := ringqp.NewUniformSampler(keyedPRNG(key), ind).ReadNew()
				ok := rowsDigest(rq, got.Q, lq) == rowsDigest(iq, want.Q, lq)
				if lp >= 0 {
					ok = ok && rowsDigest(rp, got.P, lp) == rowsDigest(ind.RingP, want.P, lp)
				}
				c.Check(ok, sigOf("ringqp.UniformSampler.AtLevel", "view-differs-from-sampler-at-that-level", "Read"), func() string { return key })
				rn := ringqp.NewUniformSampler(keyedPRNG(key), full).AtLevel(lq, lp).ReadNew()
				c.Check(rn.Q.Level() == lq && rn.P.Level() == lp, sigOf("ringqp.UniformSampler.AtLevel", "view-differs-from-sampler-at-that-level", "ReadNew"), func() string {
					return fmt.Sprintf("%s: ReadNew levels %d/%d", key, rn.Q.Level(), rn.P.Level())
				})
			})
		}
	}
	c.Try(sigOf("ringqp.UniformSampler.WithPRNG", "differential"), func() {
		c.Distinct("ringqp.UniformSampler.WithPRNG/"+ps.Name, true)
		c.Count("ctor:ringqp.UniformSampler.WithPRNG", 1)
		a := ringqp.NewUniformSampler(keyedPRNG(ps.Name+"/A"), full)
		b := ringqp.NewUniformSampler(keyedPRNG(ps.Name+"/A"), full)
		p1, p1b := a.ReadNew(), b.ReadNew()
		w := a.WithPRNG(keyedPRNG(ps.Name + "/W"))
		wref := ringqp.NewUniformSampler(keyedPRNG(ps.Name+"/W"), full)
		x, xr := w.ReadNew(), wref.ReadNew()
		c.Check(x.Equal(&xr), sigOf("ringqp.UniformSampler.WithPRNG", "copy-differs", "ReadNew"), nil)
		p2, p2b := a.ReadNew(), b.ReadNew()
		c.Check(p1.Equal(&p1b) && p2.Equal(&p2b), sigOf("ringqp.UniformSampler.WithPRNG", "original-disturbed", "ReadNew"), nil)
		// a sampler over Q only (no auxiliary modulus)
		aq := ringqp.NewUniformSampler(keyedPRNG(ps.Name+"/Q"), ringqp.Ring{RingQ: rq})
		wq := aq.WithPRNG(keyedPRNG(ps.Name + "/WQ"))
		xq := wq.ReadNew()
		xqr := ringqp.NewUniformSampler(keyedPRNG(ps.Name+"/WQ"), ringqp.Ring{RingQ: rq}).ReadNew()
		c.Check(xq.Q.Equal(&xqr.Q) && xq.P.Level() == -1, sigOf("ringqp.UniformSampler.WithPRNG", "copy-differs", "ReadNew/noP"), nil)
	})
}
