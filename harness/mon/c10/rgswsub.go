package c10

// rgsw.Evaluator.ShallowCopy / WithKey, rgsw.Encryptor.ShallowCopy, rlwe.RingPackingEvaluator.ShallowCopy.

import (
	"fmt"
	"sort"

	"github.com/tuneinsight/lattigo/v6/core/rgsw"
	"github.com/tuneinsight/lattigo/v6/core/rlwe"
	"github.com/tuneinsight/lattigo/v6/utils"
)

type rgswEnv struct {
	*rlweEnv
	rg    *rgsw.Ciphertext // RGSW encryption of X^3 under sk
	encCt *rlwe.Ciphertext // genuine encryption of msg
	msg   *rlwe.Plaintext
	want  *rlwe.Plaintext // msg * X^3
}

const rgswMono = 3

func newRGSWEnv(ps pset) (*rgswEnv, error) {
	b, err := newRLWEEnv(ps)
	if err != nil {
		return nil, err
	}
	e := &rgswEnv{rlweEnv: b}
	e.rg = e.encryptMono(rgsw.NewEncryptor(e.p, e.sk))
	e.msg = e.msgPt(e.p.MaxLevel(), 17)
	if e.encCt, err = rlwe.NewEncryptor(e.p, e.sk).EncryptNew(e.msg); err != nil {
		return nil, err
	}
	// expected plaintext of the external product: msg * X^3
	rq := e.p.RingQ()
	w := rlwe.NewPlaintext(e.p, e.p.MaxLevel())
	*w.MetaData = *e.msg.MetaData
	tmp := rq.NewPoly()
	if e.msg.IsNTT {
		rq.INTT(e.msg.Value, tmp)
	} else {
		tmp.Copy(e.msg.Value)
	}
	rq.MultByMonomial(tmp, rgswMono, w.Value)
	if e.msg.IsNTT {
		rq.NTT(w.Value, w.Value)
	}
	e.want = w
	return e, nil
}

func (e *rgswEnv) encryptMono(enc *rgsw.Encryptor) *rgsw.Ciphertext {
	pt := rlwe.NewPlaintext(e.p, e.p.MaxLevel())
	pt.IsNTT = false
	for i := range pt.Value.Coeffs {
		pt.Value.Coeffs[i][rgswMono] = 1
	}
	ct := rgsw.NewCiphertext(e.p, e.p.MaxLevelQ(), e.p.MaxLevelP(), e.ps.Pow2)
	if err := enc.Encrypt(pt, ct); err != nil {
		panic(err)
	}
	return ct
}

func (e *rgswEnv) subjects() (subs []*subject) {
	tag := e.ps.Name
	rq := e.p.RingQ()
	evalWork := func(x any) (o outs) {
		ev := x.(*rgsw.Evaluator)
		out := rlwe.NewCiphertext(e.p, 1, e.p.MaxLevel())
		*out.MetaData = *e.ct1.MetaData
		ev.ExternalProduct(e.ct1, e.rg, out)
		o.add("ExternalProduct", digestCt(rq, out))
		in := e.ct1.CopyNew()
		ev.ExternalProduct(in, e.rg, in)
		o.add("ExternalProduct/inplace", digestCt(rq, in))
		// promoted rlwe operations
		for gi, g := range e.galEls {
			if gi >= 2 {
				break
			}
			a := rlwe.NewCiphertext(e.p, 1, e.p.MaxLevel())
			if err := ev.Automorphism(e.ct1, g, a); err != nil {
				o.add(fmt.Sprintf("Automorphism/g%d", gi), "error")
			} else {
				o.add(fmt.Sprintf("Automorphism/g%d", gi), digestCt(rq, a))
			}
		}
		r := rlwe.NewCiphertext(e.p, 1, e.p.MaxLevel())
		if err := ev.Relinearize(e.ct2, r); err != nil {
			o.add("Relinearize", "error")
		} else {
			o.add("Relinearize", digestCt(rq, r))
		}
		return
	}
	scratch := []string{"*.Evaluator.EvaluatorBuffers", "*.Evaluator.BasisExtender*.buffQ", "*.Evaluator.BasisExtender*.buffP"}
	for _, kc := range []string{"full", "nil"} {
		kc := kc
		mk := func() any {
			if kc == "nil" {
				return rgsw.NewEvaluator(e.p, nil)
			}
			return rgsw.NewEvaluator(e.p, e.evk)
		}
		subs = append(subs, &subject{Ctor: "rgsw.Evaluator.ShallowCopy", Cfg: tag + "/" + kc, Safe: true, Scratch: scratch,
			Make: mk, Copy: func(o any) any { return o.(*rgsw.Evaluator).ShallowCopy() }, Work: evalWork})
		subs = append(subs, &subject{Ctor: "rgsw.Evaluator.WithKey", Cfg: tag + "/" + kc + "->full2", Scratch: scratch,
			Rebound: []string{"*.Evaluator.EvaluationKeySet", "*.Evaluator.automorphismIndex"},
			Make:    mk, Copy: func(o any) any { return o.(*rgsw.Evaluator).WithKey(e.evk2) }, Work: evalWork,
			Ref: func() outs { return evalWork(rgsw.NewEvaluator(e.p, e.evk2)) }})
	}
	// chain: shallow copy of a re-keyed evaluator
	subs = append(subs, &subject{Ctor: "rgsw.Evaluator.ShallowCopy", Cfg: tag + "/of-WithKey(nil->full2)", Safe: true, Scratch: scratch,
		Make: func() any { return rgsw.NewEvaluator(e.p, nil).WithKey(e.evk2) },
		Copy: func(o any) any { return o.(*rgsw.Evaluator).ShallowCopy() }, Work: evalWork})
	// encryptor: the RGSW ciphertext it produces must make the external product decrypt to msg * X^3
	encWork := func(x any) (o outs) {
		enc := x.(*rgsw.Encryptor)
		rg := e.encryptMono(enc)
		out := rlwe.NewCiphertext(e.p, 1, e.p.MaxLevel())
		*out.MetaData = *e.encCt.MetaData
		rgsw.NewEvaluator(e.p, nil).ExternalProduct(e.encCt, rg, out)
		o.add("Encrypt/rgsw", noiseVerdict(e.p, out, e.sk, e.want))
		// rlwe ciphertexts go through the embedded encryptor
		ct := rlwe.NewCiphertext(e.p, 1, e.p.MaxLevel())
		if err := enc.Encrypt(e.msg, ct); err != nil {
			o.add("Encrypt/rlwe", "error: %v", err)
		} else {
			o.add("Encrypt/rlwe", noiseVerdict(e.p, ct, e.sk, e.msg))
		}
		return
	}
	subs = append(subs, &subject{Ctor: "rgsw.Encryptor.ShallowCopy", Cfg: tag, Safe: true, Random: true,
		Scratch: []string{"*.buffQP", "*.Encryptor*.encryptorBuffers", "*.Encryptor*.basisextender*.buffQ", "*.Encryptor*.basisextender*.buffP"},
		Make:    func() any { return rgsw.NewEncryptor(e.p, e.sk) }, Copy: func(o any) any { return o.(*rgsw.Encryptor).ShallowCopy() }, Work: encWork})
	return
}

// ---------------------------------------------------------------------------------------------
// ring packing

type rpackEnv struct {
	ps   pset
	p    rlwe.Parameters
	evk  *rlwe.RingPackingEvaluationKey
	ct   *rlwe.Ciphertext
	minN int
	part string
}

func newRPackEnv(ps pset, minLogN int, partial ...bool) (*rpackEnv, error) {
	p, err := ps.rlweParams()
	if err != nil {
		return nil, err
	}
	e := &rpackEnv{ps: ps, p: p, minN: minLogN}
	kgen := rlwe.NewKeyGenerator(p)
	sk := kgen.GenSecretKeyNew()
	evkParams := rlwe.EvaluationKeyParameters{LevelQ: utils.Pointy(p.MaxLevelQ()), LevelP: utils.Pointy(p.MaxLevelP())}
	e.evk = &rlwe.RingPackingEvaluationKey{}
	ski, err := e.evk.GenRingSwitchingKeys(p, sk, minLogN, evkParams)
	if err != nil {
		return nil, err
	}
	if len(partial) != 0 && partial[0] {
		e.part = "/ring-switching-keys-only"
	}
	if len(partial) == 0 || !partial[0] {
		// (partial: ring-switching keys only; what needs the other keys must fail alike on original and copy)
		e.evk.GenRepackEvaluationKeys(e.evk.Parameters[minLogN], ski[minLogN], evkParams)
		e.evk.GenRepackEvaluationKeys(e.evk.Parameters[p.LogN()], ski[p.LogN()], evkParams)
		e.evk.GenExtractEvaluationKeys(e.evk.Parameters[minLogN], ski[minLogN], evkParams)
	}
	e.ct = rlwe.NewCiphertext(p, 1, p.MaxLevel())
	for i := range e.ct.Value {
		fillPoly(p.RingQ(), e.ct.Value[i], uint64(60+i))
	}
	return e, nil
}

func (e *rpackEnv) work(x any) (o outs) {
	ev := x.(*rlwe.RingPackingEvaluator)
	dg := func(ct *rlwe.Ciphertext) string {
		if ct == nil {
			return "nil"
		}
		return digestCt(e.evk.Parameters[ct.LogN()].GetRLWEParameters().RingQ(), ct)
	}
	even, odd, err := ev.SplitNew(e.ct)
	if err != nil {
		o.add("SplitNew", "error")
	} else {
		o.add("SplitNew", dg(even)+" | "+dg(odd))
		m, err := ev.MergeNew(even, odd)
		if err != nil {
			o.add("MergeNew", "error")
		} else {
			o.add("MergeNew", dg(m))
		}
	}
	idx := map[int]bool{}
	for i := 0; i < e.p.N(); i += 3 {
		idx[i] = true
	}
	for _, naive := range []bool{false, true} {
		tag := fmt.Sprintf("/naive=%v", naive)
		var cts map[int]*rlwe.Ciphertext
		if naive {
			cts, err = ev.ExtractNaive(e.ct, idx)
		} else {
			cts, err = ev.Extract(e.ct, idx)
		}
		if err != nil {
			o.add("Extract"+tag, "error")
			continue
		}
		keys := make([]int, 0, len(cts))
		for k := range cts {
			keys = append(keys, k)
		}
		sort.Ints(keys)
		s := ""
		for _, k := range keys {
			s += fmt.Sprintf("%d:%s;", k, dg(cts[k]))
		}
		o.add("Extract"+tag, digestAny(s))
		var back *rlwe.Ciphertext
		if naive {
			back, err = ev.Repack(cts)
		} else {
			back, err = ev.Repack(cts)
		}
		if err != nil {
			o.add("Repack"+tag, "error")
		} else {
			o.add("Repack"+tag, dg(back))
		}
	}
	return
}

func (e *rpackEnv) subjects() []*subject {
	return []*subject{{Ctor: "rlwe.RingPackingEvaluator.ShallowCopy", Cfg: fmt.Sprintf("%s/min%d%s", e.ps.Name, e.minN, e.part), Safe: true,
		Scratch: []string{"*.Evaluators{}*.EvaluatorBuffers", "*.Evaluators{}*.BasisExtender*.buffQ", "*.Evaluators{}*.BasisExtender*.buffP"},
		Make:    func() any { return rlwe.NewRingPackingEvaluator(e.evk) },
		Copy:    func(o any) any { return o.(*rlwe.RingPackingEvaluator).ShallowCopy() }, Work: e.work}}
}
