package c10

// In-place deep copies: ring.Poly.Copy / CopyLvl, ringqp.Poly.Copy / CopyLvl, rlwe.Element.Copy
// (ring.Poly and ringqp.Poly), rlwe.Ciphertext.Copy, rlwe.Plaintext.Copy, into receivers that are
// fresh, dirty, of a higher / lower level, of a higher / lower degree, aliased to the source, or the
// source itself. The reference model is the documentation of each method:
//
//   - ring.Poly.Copy: "copies the coefficients of p1 on the target polynomial. This method does
//     nothing if the underlying arrays are the same. This method will resize the target polynomial to
//     the level of the input polynomial."
//   - ring.Poly.CopyLvl(level, p1): rows 0..level are copied, nothing else changes.
//   - ringqp.Poly.Copy / CopyLvl: the same on both components.
//   - rlwe.Element.Copy: "copies opCopy on op, up to the capacity of op (similarly to copy([]byte,
//     []byte))", metadata included.
//   - rlwe.Ciphertext.Copy / rlwe.Plaintext.Copy: "copies the input element and its parameters on
//     the target element".
//
// Judged: value + metadata of the receiver equal the source (exact), rows / components outside the
// copied range untouched, source unchanged, no memory reachable from both sides afterwards (unless
// it was aliased by the caller), flipping every bit of one side leaves the other side untouched, a
// plaintext keeps its two views (Value, Element.Value[0]) on the same rows.

import (
	"fmt"
	"math/big"
	"strings"

	"github.com/tuneinsight/lattigo/v6/core/rlwe"
	"github.com/tuneinsight/lattigo/v6/ring"
	"github.com/tuneinsight/lattigo/v6/ring/ringqp"

	"verif/harness/eng"
)

func clonePoly(p ring.Poly) ring.Poly {
	o := ring.Poly{Coeffs: make([][]uint64, len(p.Coeffs))}
	for i := range p.Coeffs {
		o.Coeffs[i] = append([]uint64(nil), p.Coeffs[i]...)
	}
	return o
}

func rowsEqual(a, b ring.Poly, upto int) bool {
	if len(a.Coeffs) <= upto || len(b.Coeffs) <= upto {
		return false
	}
	for i := 0; i <= upto; i++ {
		if len(a.Coeffs[i]) != len(b.Coeffs[i]) {
			return false
		}
		for j := range a.Coeffs[i] {
			if a.Coeffs[i][j] != b.Coeffs[i][j] {
				return false
			}
		}
	}
	return true
}

func polyIdentical(a, b ring.Poly) bool {
	return len(a.Coeffs) == len(b.Coeffs) && (len(a.Coeffs) == 0 || rowsEqual(a, b, len(a.Coeffs)-1))
}

// attributeInplace: Ciphertext.Copy and Plaintext.Copy copy their metadata through Element.Copy.
func attributeInplace(ctor, path string) (string, string) {
	if strings.Contains(path, "PlaintextMetaData.Scale") {
		return "rlwe.Element.Copy", "Scale"
	}
	return ctor, path
}

type ipJudge struct {
	c    *eng.Ctx
	ctor string
	cfg  string
}

func (j ipJudge) check(ok bool, class, pred string, detail func() string) {
	j.c.Check(ok, sigOf(j.ctor, class, pred), func() string { return fmt.Sprintf("%s [%s]: %s", j.ctor, j.cfg, detail()) })
}

// independent: mk builds a fresh (receiver, source) pair and performs the copy. Nothing may be
// reachable from both afterwards, and flipping every bit of one side must leave the other alone.
func (j ipJudge) independent(mk func() (dst, src any)) {
	dst, src := mk()
	sh := overlap(regionsOf(src), regionsOf(dst))
	j.c.Eval(1)
	seen := map[string]bool{}
	flipCtor, flipPath := j.ctor, ""
	for _, r := range sh {
		ctor, p := attributeInplace(j.ctor, normPath(r.o.path))
		if seen[ctor+p] {
			continue
		}
		if len(seen) == 0 {
			flipCtor, flipPath = ctor, p
		} else if ctor != flipCtor || p != flipPath {
			flipCtor, flipPath = j.ctor, ""
		}
		seen[ctor+p] = true
		j.c.Violate(sigOf(ctor, "deep-copy-shares-memory", p), fmt.Sprintf("%s [%s]: after the copy %s of the source and %s of the receiver are the same memory", j.ctor, j.cfg, r.o.path, r.c.path), nil)
	}
	d0 := deepDigest(src)
	n := mutateAll(dst)
	j.c.Count("bytes_flipped", int64(n))
	j.c.Check(deepDigest(src) == d0, sigOf(flipCtor, "copy-mutation-visible-in-original", flipPath), func() string {
		return fmt.Sprintf("%s [%s]: flipping every bit of the receiver (%d bytes) after the copy changed the source", j.ctor, j.cfg, n)
	})
	dst2, src2 := mk()
	d1 := deepDigest(dst2)
	n2 := mutateAll(src2)
	j.c.Count("bytes_flipped", int64(n2))
	j.c.Check(deepDigest(dst2) == d1, sigOf(flipCtor, "original-mutation-visible-in-copy", flipPath), func() string {
		return fmt.Sprintf("%s [%s]: flipping every bit of the source (%d bytes) after the copy changed the receiver", j.ctor, j.cfg, n2)
	})
}

func runInplace(c *eng.Ctx, cc caseCfg) {
	ps := cc.P
	p, err := ps.rlweParams()
	if err != nil {
		c.Inconclusive(err.Error())
		return
	}
	rq, rp := p.RingQ(), p.RingP()
	L := rq.MaxLevel()
	LP := -1
	if rp != nil {
		LP = rp.MaxLevel()
	}
	c.Sample(map[string]any{"group": "rlwe-inplace", "params": ps.sample()})
	begin := func(ctor, cfg string) ipJudge {
		c.Distinct(ctor+"/"+ps.Name+"/"+cfg, true)
		c.Count("ctor:"+ctor, 1)
		c.Count("inplace_copies_judged", 1)
		return ipJudge{c, ctor, ps.Name + "/" + cfg}
	}
	levels := []int{L}
	if L > 0 {
		levels = append(levels, 0)
	}
	mkPoly := func(level int, seed uint64) ring.Poly {
		x := rq.AtLevel(level).NewPoly()
		fillPoly(rq, x, seed)
		return x
	}
	mkPolyP := func(level int, seed uint64) ring.Poly {
		if rp == nil || level < 0 {
			return ring.Poly{}
		}
		x := rp.AtLevel(level).NewPoly()
		fillPoly(rp, x, seed)
		return x
	}

	// ---- ring.Poly.Copy
	for _, ls := range levels {
		for _, ld := range levels {
			ls, ld := ls, ld
			j := begin("ring.Poly.Copy", fmt.Sprintf("src-l%d/dst-l%d", ls, ld))
			c.Try(sigOf(j.ctor, "receiver-level"), func() {
				mk := func() (any, any) {
					src, dst := mkPoly(ls, 301), mkPoly(ld, 302)
					dst.Copy(src)
					return &dst, &src
				}
				d, s := mk()
				dst, src := *d.(*ring.Poly), *s.(*ring.Poly)
				j.check(dst.Level() == ls, "copy-differs", "Level", func() string {
					return fmt.Sprintf("receiver at level %d after copying a polynomial of level %d", dst.Level(), ls)
				})
				j.check(polyIdentical(dst, src), "copy-differs", "Coeffs", func() string { return "receiver differs from the source" })
				j.check(polyIdentical(src, mkPoly(ls, 301)), "original-disturbed", "Coeffs", func() string { return "source changed" })
				j.independent(mk)
			})
		}
	}
	{
		j := begin("ring.Poly.Copy", "self")
		c.Try(sigOf(j.ctor, "self"), func() {
			x := mkPoly(L, 303)
			x.Copy(x)
			j.check(polyIdentical(x, mkPoly(L, 303)), "copy-differs", "self", func() string { return "copying a polynomial onto itself changed it" })
		})
		j = begin("ring.Poly.Copy", "rows-aliased")
		c.Try(sigOf(j.ctor, "rows-aliased"), func() {
			src := mkPoly(L, 304)
			dst := ring.Poly{Coeffs: append([][]uint64(nil), src.Coeffs...)}
			dst.Copy(src)
			j.check(polyIdentical(dst, mkPoly(L, 304)) && polyIdentical(src, mkPoly(L, 304)), "copy-differs", "rows-aliased", func() string {
				return "copy between two headers over the same rows changed the rows"
			})
		})
	}
	// ---- ring.Poly.CopyLvl
	for _, lv := range levels {
		for _, ls := range levels {
			for _, ld := range levels {
				if lv > ls || lv > ld {
					continue
				}
				lv, ls, ld := lv, ls, ld
				j := begin("ring.Poly.CopyLvl", fmt.Sprintf("lvl%d/src-l%d/dst-l%d", lv, ls, ld))
				c.Try(sigOf(j.ctor, "levels"), func() {
					mk := func() (any, any) {
						src, dst := mkPoly(ls, 311), mkPoly(ld, 312)
						dst.CopyLvl(lv, src)
						return &dst, &src
					}
					d, s := mk()
					dst, src := *d.(*ring.Poly), *s.(*ring.Poly)
					before := mkPoly(ld, 312)
					j.check(dst.Level() == ld && src.Level() == ls, "copy-differs", "Level", func() string { return "CopyLvl changed a level" })
					j.check(rowsEqual(dst, src, lv), "copy-differs", "Coeffs", func() string { return "rows up to the level differ from the source" })
					above := true
					for i := lv + 1; i <= ld; i++ {
						for k := range dst.Coeffs[i] {
							above = above && dst.Coeffs[i][k] == before.Coeffs[i][k]
						}
					}
					j.check(above, "copy-differs", "rows-above-level-written", func() string { return "rows above the level were written" })
					j.check(polyIdentical(src, mkPoly(ls, 311)), "original-disturbed", "Coeffs", func() string { return "source changed" })
					j.independent(mk)
				})
			}
		}
	}
	// ---- ringqp.Poly.Copy / CopyLvl
	mkQP := func(lq, lp int, seed uint64) ringqp.Poly {
		return ringqp.Poly{Q: mkPoly(lq, seed), P: mkPolyP(lp, seed+1000)}
	}
	qpIdentical := func(a, b ringqp.Poly) bool { return polyIdentical(a.Q, b.Q) && polyIdentical(a.P, b.P) }
	lps := []int{LP}
	if LP > 0 {
		lps = append(lps, 0)
	}
	for _, ls := range levels {
		for _, ld := range levels {
			for _, lps_ := range lps {
				for _, lpd := range lps {
					ls, ld, lpS, lpD := ls, ld, lps_, lpd
					j := begin("ringqp.Poly.Copy", fmt.Sprintf("src-l%d.%d/dst-l%d.%d", ls, lpS, ld, lpD))
					c.Try(sigOf(j.ctor, "receiver-level"), func() {
						mk := func() (any, any) {
							src, dst := mkQP(ls, lpS, 321), mkQP(ld, lpD, 322)
							dst.Copy(src)
							return &dst, &src
						}
						d, s := mk()
						dst, src := *d.(*ringqp.Poly), *s.(*ringqp.Poly)
						j.check(dst.LevelQ() == ls && dst.LevelP() == lpS, "copy-differs", "Level", func() string {
							return fmt.Sprintf("receiver at levels %d/%d after copying a polynomial of levels %d/%d", dst.LevelQ(), dst.LevelP(), ls, lpS)
						})
						j.check(qpIdentical(dst, src), "copy-differs", "Coeffs", func() string { return "receiver differs from the source" })
						j.check(qpIdentical(src, mkQP(ls, lpS, 321)), "original-disturbed", "Coeffs", func() string { return "source changed" })
						j.independent(mk)
					})
				}
			}
		}
	}
	for _, lv := range levels {
		for _, lvp := range lps {
			lv, lvp := lv, lvp
			j := begin("ringqp.Poly.CopyLvl", fmt.Sprintf("lvl%d.%d", lv, lvp))
			c.Try(sigOf(j.ctor, "levels"), func() {
				mk := func() (any, any) {
					src, dst := mkQP(L, LP, 331), mkQP(L, LP, 332)
					dst.CopyLvl(lv, lvp, src)
					return &dst, &src
				}
				d, s := mk()
				dst, src := *d.(*ringqp.Poly), *s.(*ringqp.Poly)
				before := mkQP(L, LP, 332)
				ok := rowsEqual(dst.Q, src.Q, lv)
				for i := lv + 1; i <= L; i++ {
					ok = ok && rowsEqual(ring.Poly{Coeffs: dst.Q.Coeffs[i : i+1]}, ring.Poly{Coeffs: before.Q.Coeffs[i : i+1]}, 0)
				}
				if lvp >= 0 {
					ok = ok && rowsEqual(dst.P, src.P, lvp)
				}
				for i := lvp + 1; i <= LP; i++ {
					ok = ok && rowsEqual(ring.Poly{Coeffs: dst.P.Coeffs[i : i+1]}, ring.Poly{Coeffs: before.P.Coeffs[i : i+1]}, 0)
				}
				j.check(ok && dst.LevelQ() == L && dst.LevelP() == LP, "copy-differs", "Coeffs", func() string {
					return "rows up to the levels differ from the source or rows above were written"
				})
				j.check(qpIdentical(src, mkQP(L, LP, 331)), "original-disturbed", "Coeffs", func() string { return "source changed" })
				j.independent(mk)
			})
		}
	}

	// ---- rlwe.Element / Ciphertext / Plaintext
	setMeta := func(m *rlwe.MetaData, variant int) {
		switch variant {
		case 0:
			m.Scale = rlwe.NewScale(new(big.Float).SetPrec(128).Quo(big.NewFloat(7), big.NewFloat(3)))
			m.IsBatched = true
			m.LogDimensions = ring.Dimensions{Rows: 1, Cols: p.LogN() - 2}
			m.IsNTT = !p.NTTFlag()
			m.IsMontgomery = true
		case 1:
			m.Scale = rlwe.NewScaleModT(12345, 65537)
			m.IsBitReversed = true
			m.IsNTT = p.NTTFlag()
		default: // the receiver before the copy
			m.Scale = rlwe.NewScale(1 << 40)
			m.LogDimensions = ring.Dimensions{Rows: 0, Cols: 1}
			m.IsNTT = p.NTTFlag()
		}
	}
	mkCt := func(deg, level int, seed uint64, variant int) *rlwe.Ciphertext {
		ct := rlwe.NewCiphertext(p, deg, level)
		for i := range ct.Value {
			fillPoly(rq, ct.Value[i], seed+uint64(i))
		}
		setMeta(ct.MetaData, variant)
		return ct
	}
	type ecfg struct {
		name             string
		sdeg, slvl, svar int
		ddeg, dlvl       int
	}
	ecfgs := []ecfg{{"same-shape", 1, L, 0, 1, L}, {"deg2-modT", 2, L, 1, 2, L}, {"receiver-higher-degree", 1, L, 0, 2, L}}
	if L > 0 {
		ecfgs = append(ecfgs, ecfg{"receiver-higher-level", 1, 0, 1, 1, L}, ecfg{"receiver-lower-level", 1, L, 0, 1, 0})
	}
	ctMatches := func(dst, src *rlwe.Ciphertext, before *rlwe.Ciphertext) string {
		n := len(src.Value)
		if len(dst.Value) < n {
			return fmt.Sprintf("receiver has %d components, source %d", len(dst.Value), n)
		}
		for i := 0; i < n; i++ {
			if !polyIdentical(dst.Value[i], src.Value[i]) {
				return fmt.Sprintf("component %d differs from the source (levels %d / %d)", i, dst.Value[i].Level(), src.Value[i].Level())
			}
		}
		for i := n; i < len(dst.Value); i++ {
			if !polyIdentical(dst.Value[i], before.Value[i]) {
				return fmt.Sprintf("component %d beyond the degree of the source was written", i)
			}
		}
		if len(dst.Value) != len(before.Value) {
			return fmt.Sprintf("degree of the receiver changed from %d to %d", len(before.Value)-1, len(dst.Value)-1)
		}
		if metaString(dst.MetaData) != metaString(src.MetaData) {
			return "metadata: " + metaString(dst.MetaData) + " vs " + metaString(src.MetaData)
		}
		return ""
	}
	for _, ec := range ecfgs {
		ec := ec
		for _, ctor := range []string{"rlwe.Ciphertext.Copy", "rlwe.Element.Copy"} {
			ctor := ctor
			j := begin(ctor, ec.name)
			c.Try(sigOf(ctor, ec.name), func() {
				mk := func() (any, any) {
					src, dst := mkCt(ec.sdeg, ec.slvl, 340, ec.svar), mkCt(ec.ddeg, ec.dlvl, 350, 2)
					if ctor == "rlwe.Ciphertext.Copy" {
						dst.Copy(src)
					} else {
						dst.Element.Copy(&src.Element)
					}
					return dst, src
				}
				d, s := mk()
				dst, src := d.(*rlwe.Ciphertext), s.(*rlwe.Ciphertext)
				why := ctMatches(dst, src, mkCt(ec.ddeg, ec.dlvl, 350, 2))
				j.check(why == "", "copy-differs", "value", func() string { return why })
				why2 := ctMatches(src, mkCt(ec.sdeg, ec.slvl, 340, ec.svar), mkCt(ec.sdeg, ec.slvl, 340, ec.svar))
				j.check(why2 == "", "original-disturbed", "value", func() string { return why2 })
				j.independent(mk)
			})
		}
	}
	// the receiver has a lower degree than the source: "up to the capacity of op (similarly to copy)"
	{
		j := begin("rlwe.Element.Copy", "receiver-lower-degree")
		var dst, src *rlwe.Ciphertext
		panicked, what := eng.Panics(func() {
			src, dst = mkCt(2, L, 360, 0), mkCt(1, L, 361, 2)
			dst.Element.Copy(&src.Element)
		})
		c.Check(!panicked, sigOf("rlwe.Element.Copy", "panic", "receiver-of-lower-degree"), func() string {
			return fmt.Sprintf("%s [%s]: copying an element of degree 2 onto an element of degree 1 panics (%v) although Copy documents 'up to the capacity of op (similarly to copy([]byte, []byte))'", j.ctor, j.cfg, firstLine(fmt.Sprint(what)))
		})
		if !panicked {
			ok := len(dst.Value) == 2 && polyIdentical(dst.Value[0], src.Value[0]) && polyIdentical(dst.Value[1], src.Value[1]) && metaString(dst.MetaData) == metaString(src.MetaData)
			j.check(ok, "copy-differs", "receiver-of-lower-degree", func() string { return "the components that fit were not copied" })
		}
	}
	{
		j := begin("rlwe.Ciphertext.Copy", "self")
		c.Try(sigOf(j.ctor, "self"), func() {
			x := mkCt(1, L, 370, 0)
			x.Copy(x)
			why := ctMatches(x, mkCt(1, L, 370, 0), mkCt(1, L, 370, 0))
			j.check(why == "", "copy-differs", "self", func() string { return why })
		})
	}
	// ---- rlwe.Element[ringqp.Poly].Copy
	{
		mkEl := func(seed uint64, variant int) *rlwe.Element[ringqp.Poly] {
			el := rlwe.NewElementExtended(p, 1, L, LP)
			for i := range el.Value {
				fillPoly(rq, el.Value[i].Q, seed+uint64(i))
				if rp != nil {
					fillPoly(rp, el.Value[i].P, seed+10+uint64(i))
				}
			}
			setMeta(el.MetaData, variant)
			return el
		}
		j := begin("rlwe.Element.Copy", "ringqp.Poly")
		c.Try(sigOf(j.ctor, "ringqp.Poly"), func() {
			mk := func() (any, any) {
				src, dst := mkEl(380, 0), mkEl(390, 2)
				dst.Copy(src)
				return dst, src
			}
			d, s := mk()
			dst, src := d.(*rlwe.Element[ringqp.Poly]), s.(*rlwe.Element[ringqp.Poly])
			ok := len(dst.Value) == len(src.Value) && metaString(dst.MetaData) == metaString(src.MetaData)
			for i := range src.Value {
				ok = ok && i < len(dst.Value) && qpIdentical(dst.Value[i], src.Value[i])
			}
			j.check(ok, "copy-differs", "value", func() string { return "receiver differs from the source" })
			ref := mkEl(380, 0)
			ok = metaString(ref.MetaData) == metaString(src.MetaData)
			for i := range src.Value {
				ok = ok && qpIdentical(ref.Value[i], src.Value[i])
			}
			j.check(ok, "original-disturbed", "value", func() string { return "source changed" })
			j.independent(mk)
		})
	}
	// ---- rlwe.Plaintext.Copy
	mkPt := func(level int, seed uint64, variant int) *rlwe.Plaintext {
		pt := rlwe.NewPlaintext(p, level)
		fillPoly(rq, pt.Value, seed)
		setMeta(pt.MetaData, variant)
		return pt
	}
	type pcfg struct {
		name       string
		slvl, dlvl int
	}
	pcfgs := []pcfg{{"same-level", L, L}}
	if L > 0 {
		pcfgs = append(pcfgs, pcfg{"receiver-higher-level", 0, L}, pcfg{"receiver-lower-level", L, 0})
	}
	for _, pc := range pcfgs {
		pc := pc
		j := begin("rlwe.Plaintext.Copy", pc.name)
		c.Try(sigOf(j.ctor, pc.name), func() {
			mk := func() (any, any) {
				src, dst := mkPt(pc.slvl, 400, 0), mkPt(pc.dlvl, 401, 2)
				dst.Copy(src)
				return dst, src
			}
			d, s := mk()
			dst, src := d.(*rlwe.Plaintext), s.(*rlwe.Plaintext)
			// the two views of the message of the receiver are one polynomial
			views := len(dst.Element.Value) == 1 && len(dst.Value.Coeffs) == len(dst.Element.Value[0].Coeffs)
			if views {
				for i := range dst.Value.Coeffs {
					views = views && len(dst.Value.Coeffs[i]) > 0 && &dst.Value.Coeffs[i][0] == &dst.Element.Value[0].Coeffs[i][0]
				}
			}
			c.Check(views, sigOf(j.ctor, "aliasing-lost", "Value"), func() string {
				return fmt.Sprintf("%s [%s]: after the copy pt.Value has %d rows and pt.Element.Value[0] has %d rows (source level %d, receiver level before %d): the two views of the message are no longer the same polynomial", j.ctor, j.cfg, len(dst.Value.Coeffs), len(dst.Element.Value[0].Coeffs), pc.slvl, pc.dlvl)
			})
			if views {
				j.check(dst.Equal(src) && polyIdentical(dst.Value, src.Value) && metaString(dst.MetaData) == metaString(src.MetaData), "copy-differs", "value", func() string {
					return "receiver differs from the source"
				})
			}
			ref := mkPt(pc.slvl, 400, 0)
			j.check(src.Equal(ref) && metaString(src.MetaData) == metaString(ref.MetaData), "original-disturbed", "value", func() string { return "source changed" })
			j.independent(mk)
		})
	}
}
