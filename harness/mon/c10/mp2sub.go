package c10

// mpbgv / mpckks: ShallowCopy of EncToShareProtocol, ShareToEncProtocol, MaskedTransformProtocol /
// MaskedLinearTransformationProtocol (also WithParams), RefreshProtocol. Judged functionally: the
// message that comes out of the protocol driven through the object under test (exact modulo t for
// bgv, within 2^-10 for ckks - correct runs are below 2^-20, wrong ones are garbage).

import (
	"fmt"
	"math"
	"math/cmplx"

	"github.com/tuneinsight/lattigo/v6/core/rlwe"
	"github.com/tuneinsight/lattigo/v6/multiparty"
	"github.com/tuneinsight/lattigo/v6/multiparty/mpbgv"
	"github.com/tuneinsight/lattigo/v6/multiparty/mpckks"
	"github.com/tuneinsight/lattigo/v6/ring"
	"github.com/tuneinsight/lattigo/v6/schemes/bgv"
	"github.com/tuneinsight/lattigo/v6/schemes/ckks"
	"github.com/tuneinsight/lattigo/v6/utils/bignum"
)

func mpScr(prefixes ...string) (o []string) {
	for _, p := range prefixes {
		for _, s := range []string{".buf", ".bufDelta"} {
			o = append(o, p+s)
		}
	}
	return
}

// ---------------------------------------------------------------------------------------------
// mpbgv

type mpbgvEnv struct {
	ps, po      pset
	pIn, pOut   bgv.Parameters
	same        bool
	n           int
	sksIn, sksO []*rlwe.SecretKey
	skIn, skO   *rlwe.SecretKey
	vals        []uint64
	ct          *rlwe.Ciphertext
	noise       ring.DiscreteGaussian
	encIn, encO *bgv.Encoder
}

func newMPBGVEnv(ps pset, po *pset, parties int) (*mpbgvEnv, error) {
	e := &mpbgvEnv{ps: ps, po: ps, n: parties, same: po == nil, noise: ring.DiscreteGaussian{Sigma: 1 << 10, Bound: 6 * (1 << 10)}}
	var err error
	if e.pIn, err = bgv.NewParametersFromLiteral(bgv.ParametersLiteral{LogN: ps.LogN, Q: ps.Q, P: ps.P, PlaintextModulus: ps.T}); err != nil {
		return nil, err
	}
	e.pOut = e.pIn
	if po != nil {
		e.po = *po
		if e.pOut, err = bgv.NewParametersFromLiteral(bgv.ParametersLiteral{LogN: po.LogN, Q: po.Q, P: po.P, PlaintextModulus: ps.T}); err != nil {
			return nil, err
		}
	}
	kIn, kOut := rlwe.NewKeyGenerator(e.pIn), rlwe.NewKeyGenerator(e.pOut)
	for i := 0; i < parties; i++ {
		e.sksIn = append(e.sksIn, kIn.GenSecretKeyNew())
		e.sksO = append(e.sksO, kOut.GenSecretKeyNew())
	}
	e.skIn, e.skO = sumKeys(e.pIn.Parameters, e.sksIn), sumKeys(e.pOut.Parameters, e.sksO)
	e.encIn, e.encO = bgv.NewEncoder(e.pIn), bgv.NewEncoder(e.pOut)
	e.vals = detVals(e.pIn.MaxSlots(), e.pIn.PlaintextModulus(), 5)
	pt := bgv.NewPlaintext(e.pIn, e.pIn.MaxLevel())
	if err = e.encIn.Encode(e.vals, pt); err != nil {
		return nil, err
	}
	if e.ct, err = rlwe.NewEncryptor(e.pIn, e.skIn).EncryptNew(pt); err != nil {
		return nil, err
	}
	return e, nil
}

func (e *mpbgvEnv) decode(p bgv.Parameters, _ *bgv.Encoder, sk *rlwe.SecretKey, ct *rlwe.Ciphertext, want []uint64) string {
	ecd := bgv.NewEncoder(p) // private: the workload runs from several goroutines
	pt := rlwe.NewDecryptor(p, sk).DecryptNew(ct)
	got := make([]uint64, len(want))
	if err := ecd.Decode(pt, got); err != nil {
		return "decode error: " + err.Error()
	}
	bad := 0
	for i := range got {
		if got[i] != want[i] {
			bad++
		}
	}
	if bad != 0 {
		return fmt.Sprintf("%d of %d slots wrong", bad, len(got))
	}
	return "ok"
}

// share conversion round trip through e2s and s2e (input parameters)
func (e *mpbgvEnv) roundTrip(e2s mpbgv.EncToShareProtocol, s2e mpbgv.ShareToEncProtocol, tag string) string {
	p := e.pIn
	lvl := p.MaxLevel()
	ss := make([]multiparty.AdditiveShare, e.n)
	var agg multiparty.KeySwitchShare
	for i := range e.sksIn {
		ss[i] = mpbgv.NewAdditiveShare(p)
		pub := e2s.AllocateShare(lvl)
		e2s.GenShare(e.sksIn[i], e.ct, &ss[i], &pub)
		if i == 0 {
			agg = pub
		} else if err := e2s.AggregateShares(agg, pub, &agg); err != nil {
			return "e2s aggregate: " + err.Error()
		}
	}
	e2s.GetShare(&ss[0], agg, e.ct, &ss[0])
	crp := s2e.SampleCRP(lvl, keyedPRNG("mpbgv/"+e.ps.Name+"/"+tag))
	var agg2 multiparty.KeySwitchShare
	for i := range e.sksIn {
		sh := s2e.AllocateShare(lvl)
		if err := s2e.GenShare(e.sksIn[i], crp, ss[i], &sh); err != nil {
			return "s2e GenShare: " + err.Error()
		}
		if i == 0 {
			agg2 = sh
		} else if err := s2e.AggregateShares(agg2, sh, &agg2); err != nil {
			return "s2e aggregate: " + err.Error()
		}
	}
	out := bgv.NewCiphertext(p, 1, lvl)
	if err := s2e.GetEncryption(agg2, crp, out); err != nil {
		return "GetEncryption: " + err.Error()
	}
	*out.MetaData = *e.ct.MetaData
	return e.decode(p, e.encIn, e.skIn, out, e.vals)
}

func (e *mpbgvEnv) transformWork(mt mpbgv.MaskedTransformProtocol, withFunc bool, tag string) string {
	var tr *mpbgv.MaskedTransformFunc
	want := e.vals
	if withFunc {
		t := e.pIn.PlaintextModulus()
		tr = &mpbgv.MaskedTransformFunc{Decode: true, Encode: true, Func: func(v []uint64) {
			for i := range v {
				v[i] = (v[i] * 3) % t // Z_t-linear, as the protocol requires
			}
		}}
		want = make([]uint64, len(e.vals))
		for i, v := range e.vals {
			want[i] = (v * 3) % t
		}
	}
	lin, lout := e.pIn.MaxLevel(), e.pOut.MaxLevel()
	crp := mt.SampleCRP(lout, keyedPRNG("mpbgv/"+e.ps.Name+"/"+tag))
	var agg multiparty.RefreshShare
	for i := range e.sksIn {
		sh := mt.AllocateShare(lin, lout)
		if err := mt.GenShare(e.sksIn[i], e.sksO[i], e.ct, crp, tr, &sh); err != nil {
			return "GenShare: " + err.Error()
		}
		if i == 0 {
			agg = sh
		} else if err := mt.AggregateShares(agg, sh, &agg); err != nil {
			return "AggregateShares: " + err.Error()
		}
	}
	agg.MetaData = *e.ct.MetaData
	out := bgv.NewCiphertext(e.pOut, 1, lout)
	if err := mt.Transform(e.ct, tr, crp, agg, out); err != nil {
		return "Transform: " + err.Error()
	}
	return e.decode(e.pOut, e.encO, e.skO, out, want)
}

func (e *mpbgvEnv) subjects() (subs []*subject) {
	tag := fmt.Sprintf("%s->%s/n%d", e.ps.Name, e.po.Name, e.n)
	add := func(s *subject) {
		s.Safe, s.Random, s.Cfg = true, true, tag+s.Cfg
		subs = append(subs, s)
	}
	encScr := func(p string) []string { return []string{p + ".bufQ", p + ".bufT", p + ".bufB"} }
	if e.same {
		add(&subject{Ctor: "mpbgv.EncToShareProtocol.ShallowCopy",
			Scratch: append(append(mpScr("*.KeySwitchProtocol"), encScr("*.encoder*")...), "*.tmpPlaintextRingT", "*.tmpPlaintextRingQ"),
			Make: func() any {
				x, err := mpbgv.NewEncToShareProtocol(e.pIn, e.noise)
				if err != nil {
					panic(err)
				}
				return &x
			},
			Copy: func(o any) any { x := o.(*mpbgv.EncToShareProtocol).ShallowCopy(); return &x },
			Work: func(x any) (o outs) {
				s2e, err := mpbgv.NewShareToEncProtocol(e.pIn, e.noise)
				if err != nil {
					panic(err)
				}
				o.add("GenShare+GetShare", e.roundTrip(*x.(*mpbgv.EncToShareProtocol), s2e, "e2s"))
				return
			}})
		add(&subject{Ctor: "mpbgv.ShareToEncProtocol.ShallowCopy",
			Scratch: append(append(mpScr("*.KeySwitchProtocol"), encScr("*.encoder*")...), "*.tmpPlaintextRingQ"),
			Make: func() any {
				x, err := mpbgv.NewShareToEncProtocol(e.pIn, e.noise)
				if err != nil {
					panic(err)
				}
				return &x
			},
			Copy: func(o any) any { x := o.(*mpbgv.ShareToEncProtocol).ShallowCopy(); return &x },
			Work: func(x any) (o outs) {
				e2s, err := mpbgv.NewEncToShareProtocol(e.pIn, e.noise)
				if err != nil {
					panic(err)
				}
				o.add("GenShare+GetEncryption", e.roundTrip(e2s, *x.(*mpbgv.ShareToEncProtocol), "s2e"))
				return
			}})
		add(&subject{Ctor: "mpbgv.RefreshProtocol.ShallowCopy",
			Scratch: append(append(append(mpScr("*.MaskedTransformProtocol.e2s.KeySwitchProtocol", "*.MaskedTransformProtocol.s2e.KeySwitchProtocol"), encScr("*.MaskedTransformProtocol.e2s.encoder*")...), encScr("*.MaskedTransformProtocol.s2e.encoder*")...),
				"*.MaskedTransformProtocol.e2s.tmpPlaintextRingT", "*.MaskedTransformProtocol.e2s.tmpPlaintextRingQ", "*.MaskedTransformProtocol.s2e.tmpPlaintextRingQ",
				"*.MaskedTransformProtocol.tmpPt", "*.MaskedTransformProtocol.tmpMask", "*.MaskedTransformProtocol.tmpMaskPerm"),
			Make: func() any {
				x, err := mpbgv.NewRefreshProtocol(e.pIn, e.noise)
				if err != nil {
					panic(err)
				}
				return &x
			},
			Copy: func(o any) any { x := o.(*mpbgv.RefreshProtocol).ShallowCopy(); return &x },
			Work: func(x any) (o outs) {
				rfp := *x.(*mpbgv.RefreshProtocol)
				lvl := e.pIn.MaxLevel()
				crp := rfp.SampleCRP(lvl, keyedPRNG("mpbgv/"+e.ps.Name+"/refresh"))
				var agg multiparty.RefreshShare
				for i := range e.sksIn {
					sh := rfp.AllocateShare(lvl, lvl)
					if err := rfp.GenShare(e.sksIn[i], e.ct, crp, &sh); err != nil {
						o.add("GenShare", "error: %v", err)
						return
					}
					if i == 0 {
						agg = sh
					} else if err := rfp.AggregateShares(agg, sh, &agg); err != nil {
						o.add("AggregateShares", "error: %v", err)
						return
					}
				}
				agg.MetaData = *e.ct.MetaData
				out := bgv.NewCiphertext(e.pIn, 1, lvl)
				if err := rfp.Finalize(e.ct, crp, agg, out); err != nil {
					o.add("Finalize", "error: %v", err)
					return
				}
				o.add("Finalize", e.decode(e.pIn, e.encIn, e.skIn, out, e.vals))
				return
			}})
	}
	add(&subject{Ctor: "mpbgv.MaskedTransformProtocol.ShallowCopy",
		Scratch: append(append(append(mpScr("*.e2s.KeySwitchProtocol", "*.s2e.KeySwitchProtocol"), encScr("*.e2s.encoder*")...), encScr("*.s2e.encoder*")...),
			"*.e2s.tmpPlaintextRingT", "*.e2s.tmpPlaintextRingQ", "*.s2e.tmpPlaintextRingQ", "*.tmpPt", "*.tmpMask", "*.tmpMaskPerm"),
		Make: func() any {
			x, err := mpbgv.NewMaskedTransformProtocol(e.pIn, e.pOut, e.noise)
			if err != nil {
				panic(err)
			}
			return &x
		},
		Copy: func(o any) any { x := o.(*mpbgv.MaskedTransformProtocol).ShallowCopy(); return &x },
		Work: func(x any) (o outs) {
			mt := *x.(*mpbgv.MaskedTransformProtocol)
			o.add("Transform/nil", e.transformWork(mt, false, "mt0"))
			o.add("Transform/func", e.transformWork(mt, true, "mt1"))
			return
		}})
	return
}

// ---------------------------------------------------------------------------------------------
// mpckks

type mpckksEnv struct {
	ps, po      pset
	pIn, pOut   ckks.Parameters
	pOut2       ckks.Parameters
	same        bool
	n           int
	sksIn, sksO []*rlwe.SecretKey
	sksO2       []*rlwe.SecretKey
	skIn, skO   *rlwe.SecretKey
	skO2        *rlwe.SecretKey
	vals        []complex128
	ct          *rlwe.Ciphertext
	noise       ring.DiscreteGaussian
	minLevel    int
	logBound    uint
	prec        uint
}

func newMPCKKSEnv(ps pset, po *pset, parties int) (*mpckksEnv, error) {
	e := &mpckksEnv{ps: ps, po: ps, n: parties, same: po == nil, noise: ring.DiscreteGaussian{Sigma: 1 << 10, Bound: 6 * (1 << 10)}, prec: 256}
	var err error
	mkp := func(s pset) (ckks.Parameters, error) {
		return ckks.NewParametersFromLiteral(ckks.ParametersLiteral{LogN: s.LogN, Q: s.Q, P: s.P, LogDefaultScale: s.LogScale, RingType: s.ringType()})
	}
	if e.pIn, err = mkp(ps); err != nil {
		return nil, err
	}
	e.pOut = e.pIn
	if po != nil {
		e.po = *po
		if e.pOut, err = mkp(*po); err != nil {
			return nil, err
		}
	}
	// a second output parameter set for WithParams: the input chain without its last prime
	p2 := ps
	p2.Q = ps.Q[:len(ps.Q)-1]
	p2.LogScale = ps.LogScale - 5 // another default scale: the output of WithParams must be encoded at it
	if e.pOut2, err = mkp(p2); err != nil {
		return nil, err
	}
	kIn, kOut, kOut2 := rlwe.NewKeyGenerator(e.pIn), rlwe.NewKeyGenerator(e.pOut), rlwe.NewKeyGenerator(e.pOut2)
	for i := 0; i < parties; i++ {
		e.sksIn = append(e.sksIn, kIn.GenSecretKeyNew())
		e.sksO = append(e.sksO, kOut.GenSecretKeyNew())
		e.sksO2 = append(e.sksO2, kOut2.GenSecretKeyNew())
	}
	e.skIn, e.skO, e.skO2 = sumKeys(e.pIn.Parameters, e.sksIn), sumKeys(e.pOut.Parameters, e.sksO), sumKeys(e.pOut2.Parameters, e.sksO2)
	var ok bool
	if e.minLevel, e.logBound, ok = mpckks.GetMinimumLevelForRefresh(128, e.pIn.DefaultScale(), parties, e.pIn.Q()); !ok || e.minLevel > e.pIn.MaxLevel() {
		return nil, fmt.Errorf("modulus too small for a collective refresh")
	}
	n := e.pIn.MaxSlots()
	e.vals = make([]complex128, n)
	s := uint64(0x7654321)
	for i := range e.vals {
		s ^= s << 13
		s ^= s >> 7
		s ^= s << 17
		re := float64(int64(s%2001)-1000) / 1000
		im := float64(int64((s>>20)%2001)-1000) / 1000
		if e.pIn.RingType() == ring.ConjugateInvariant {
			im = 0
		}
		e.vals[i] = complex(re, im)
	}
	pt := ckks.NewPlaintext(e.pIn, e.pIn.MaxLevel())
	if err = ckks.NewEncoder(e.pIn).Encode(e.vals, pt); err != nil {
		return nil, err
	}
	if e.ct, err = rlwe.NewEncryptor(e.pIn, e.skIn).EncryptNew(pt); err != nil {
		return nil, err
	}
	return e, nil
}

func (e *mpckksEnv) decode(p ckks.Parameters, sk *rlwe.SecretKey, ct *rlwe.Ciphertext, want []complex128) string {
	pt := rlwe.NewDecryptor(p, sk).DecryptNew(ct)
	got := make([]complex128, len(want))
	if err := ckks.NewEncoder(p).Decode(pt, got); err != nil {
		return "decode error: " + err.Error()
	}
	mx := 0.0
	for i := range got {
		if d := cmplx.Abs(got[i] - want[i]); d > mx || math.IsNaN(d) {
			mx = d
			if math.IsNaN(d) {
				mx = math.Inf(1)
			}
		}
	}
	if mx > 1.0/1024 {
		return fmt.Sprintf("max error 2^%.0f", math.Log2(mx))
	}
	return "ok"
}

func (e *mpckksEnv) roundTrip(e2s mpckks.EncToShareProtocol, s2e mpckks.ShareToEncProtocol, tag string) string {
	p := e.pIn
	ss := make([]multiparty.AdditiveShareBigint, e.n)
	var agg multiparty.KeySwitchShare
	for i := range e.sksIn {
		ss[i] = mpckks.NewAdditiveShare(p, e.ct.LogSlots())
		pub := e2s.AllocateShare(e.minLevel)
		if err := e2s.GenShare(e.sksIn[i], e.logBound, e.ct, &ss[i], &pub); err != nil {
			return "e2s GenShare: " + err.Error()
		}
		if i == 0 {
			agg = pub
		} else if err := e2s.AggregateShares(agg, pub, &agg); err != nil {
			return "e2s aggregate: " + err.Error()
		}
	}
	e2s.GetShare(&ss[0], agg, e.ct, &ss[0])
	lvl := p.MaxLevel()
	crp := s2e.SampleCRP(lvl, keyedPRNG("mpckks/"+e.ps.Name+"/"+tag))
	var agg2 multiparty.KeySwitchShare
	for i := range e.sksIn {
		sh := s2e.AllocateShare(lvl)
		if err := s2e.GenShare(e.sksIn[i], crp, e.ct.MetaData, ss[i], &sh); err != nil {
			return "s2e GenShare: " + err.Error()
		}
		if i == 0 {
			agg2 = sh
		} else if err := s2e.AggregateShares(agg2, sh, &agg2); err != nil {
			return "s2e aggregate: " + err.Error()
		}
	}
	out := ckks.NewCiphertext(p, 1, lvl)
	if err := s2e.GetEncryption(agg2, crp, out); err != nil {
		return "GetEncryption: " + err.Error()
	}
	*out.MetaData = *e.ct.MetaData
	return e.decode(p, e.skIn, out, e.vals)
}

func (e *mpckksEnv) transformWork(mt mpckks.MaskedLinearTransformationProtocol, pOut ckks.Parameters, sksO []*rlwe.SecretKey, skO *rlwe.SecretKey, withFunc bool, tag string) string {
	var tr *mpckks.MaskedLinearTransformationFunc
	want := e.vals
	if withFunc {
		tr = &mpckks.MaskedLinearTransformationFunc{Decode: true, Encode: true, Func: func(v []*bignum.Complex) {
			for i := range v {
				v[i][0].Add(v[i][0], v[i][0]) // x -> 2x
				v[i][1].Add(v[i][1], v[i][1])
			}
		}}
		want = make([]complex128, len(e.vals))
		for i, v := range e.vals {
			want[i] = 2 * v
		}
	}
	lout := pOut.MaxLevel()
	crp := mt.SampleCRP(lout, keyedPRNG("mpckks/"+e.ps.Name+"/"+tag))
	var agg multiparty.RefreshShare
	for i := range e.sksIn {
		sh := mt.AllocateShare(e.minLevel, lout)
		if err := mt.GenShare(e.sksIn[i], sksO[i], e.logBound, e.ct, crp, tr, &sh); err != nil {
			return "GenShare: " + err.Error()
		}
		if i == 0 {
			agg = sh
		} else if err := mt.AggregateShares(&agg, &sh, &agg); err != nil {
			return "AggregateShares: " + err.Error()
		}
	}
	agg.MetaData = *e.ct.MetaData
	out := ckks.NewCiphertext(pOut, 1, lout)
	ct := e.ct.CopyNew() // Transform may shrink the slot count of its input metadata
	if err := mt.Transform(ct, tr, crp, agg, out); err != nil {
		return "Transform: " + err.Error()
	}
	if pOut.MaxSlots() < len(want) {
		want = want[:pOut.MaxSlots()]
	}
	return e.decode(pOut, skO, out, want)
}

func (e *mpckksEnv) subjects() (subs []*subject) {
	tag := fmt.Sprintf("%s->%s/n%d", e.ps.Name, e.po.Name, e.n)
	add := func(s *subject) {
		s.Safe, s.Random, s.Cfg = true, true, tag+s.Cfg
		subs = append(subs, s)
	}
	ckEnc := func(p string) []string {
		return []string{p + ".buff", p + ".buffCmplx", p + ".bigintCoeffs", p + ".qHalf"}
	}
	mltScr := append(append(mpScr("*.e2s.KeySwitchProtocol", "*.s2e.KeySwitchProtocol"), ckEnc("*.encoder*")...),
		"*.e2s.maskBigint", "*.e2s.buff", "*.s2e.tmp", "*.s2e.ssBigint", "*.mask")
	var rfScr []string
	for _, s := range mltScr {
		rfScr = append(rfScr, "*.MaskedLinearTransformationProtocol"+s[1:])
	}
	if e.same {
		add(&subject{Ctor: "mpckks.EncToShareProtocol.ShallowCopy", Scratch: append(mpScr("*.KeySwitchProtocol"), "*.maskBigint", "*.buff"),
			Make: func() any {
				x, err := mpckks.NewEncToShareProtocol(e.pIn, e.noise)
				if err != nil {
					panic(err)
				}
				return &x
			},
			Copy: func(o any) any { x := o.(*mpckks.EncToShareProtocol).ShallowCopy(); return &x },
			Work: func(x any) (o outs) {
				s2e, err := mpckks.NewShareToEncProtocol(e.pIn, e.noise)
				if err != nil {
					panic(err)
				}
				o.add("GenShare+GetShare", e.roundTrip(*x.(*mpckks.EncToShareProtocol), s2e, "e2s"))
				return
			}})
		add(&subject{Ctor: "mpckks.ShareToEncProtocol.ShallowCopy", Scratch: append(mpScr("*.KeySwitchProtocol"), "*.tmp", "*.ssBigint"),
			Make: func() any {
				x, err := mpckks.NewShareToEncProtocol(e.pIn, e.noise)
				if err != nil {
					panic(err)
				}
				return &x
			},
			Copy: func(o any) any { x := o.(*mpckks.ShareToEncProtocol).ShallowCopy(); return &x },
			Work: func(x any) (o outs) {
				e2s, err := mpckks.NewEncToShareProtocol(e.pIn, e.noise)
				if err != nil {
					panic(err)
				}
				o.add("GenShare+GetEncryption", e.roundTrip(e2s, *x.(*mpckks.ShareToEncProtocol), "s2e"))
				return
			}})
		add(&subject{Ctor: "mpckks.RefreshProtocol.ShallowCopy", Scratch: rfScr,
			Make: func() any {
				x, err := mpckks.NewRefreshProtocol(e.pIn, e.prec, e.noise)
				if err != nil {
					panic(err)
				}
				return &x
			},
			Copy: func(o any) any { x := o.(*mpckks.RefreshProtocol).ShallowCopy(); return &x },
			Work: func(x any) (o outs) {
				rfp := *x.(*mpckks.RefreshProtocol)
				lvl := e.pIn.MaxLevel()
				crp := rfp.SampleCRP(lvl, keyedPRNG("mpckks/"+e.ps.Name+"/refresh"))
				var agg multiparty.RefreshShare
				for i := range e.sksIn {
					sh := rfp.AllocateShare(e.minLevel, lvl)
					if err := rfp.GenShare(e.sksIn[i], e.logBound, e.ct, crp, &sh); err != nil {
						o.add("GenShare", "error: %v", err)
						return
					}
					if i == 0 {
						agg = sh
					} else if err := rfp.AggregateShares(&agg, &sh, &agg); err != nil {
						o.add("AggregateShares", "error: %v", err)
						return
					}
				}
				agg.MetaData = *e.ct.MetaData
				out := ckks.NewCiphertext(e.pIn, 1, lvl)
				if err := rfp.Finalize(e.ct.CopyNew(), crp, agg, out); err != nil {
					o.add("Finalize", "error: %v", err)
					return
				}
				o.add("Finalize", e.decode(e.pIn, e.skIn, out, e.vals))
				return
			}})
	}
	mkMT := func() any {
		x, err := mpckks.NewMaskedLinearTransformationProtocol(e.pIn, e.pOut, e.prec, e.noise)
		if err != nil {
			panic(err)
		}
		return &x
	}
	mtWork := func(pOut ckks.Parameters, sksO []*rlwe.SecretKey, skO *rlwe.SecretKey, t string) func(x any) outs {
		return func(x any) (o outs) {
			mt := *x.(*mpckks.MaskedLinearTransformationProtocol)
			o.add("Transform/nil", e.transformWork(mt, pOut, sksO, skO, false, t+"0"))
			o.add("Transform/func", e.transformWork(mt, pOut, sksO, skO, true, t+"1"))
			return
		}
	}
	add(&subject{Ctor: "mpckks.MaskedLinearTransformationProtocol.ShallowCopy", Scratch: mltScr,
		Make: mkMT, Copy: func(o any) any { x := o.(*mpckks.MaskedLinearTransformationProtocol).ShallowCopy(); return &x },
		Work: mtWork(e.pOut, e.sksO, e.skO, "mt")})
	add(&subject{Ctor: "mpckks.MaskedLinearTransformationProtocol.WithParams", Cfg: "/to-shorter-chain", Scratch: mltScr,
		Rebound: []string{"*.s2e", "*.defaultScale", "*.encoder"},
		Make:    mkMT, Copy: func(o any) any { x := o.(*mpckks.MaskedLinearTransformationProtocol).WithParams(e.pOut2); return &x },
		Work: mtWork(e.pOut2, e.sksO2, e.skO2, "wp"), WorkO: mtWork(e.pOut, e.sksO, e.skO, "mt")})
	return
}
