package c14

import (
	"fmt"

	"github.com/tuneinsight/lattigo/v6/core/rlwe"
	"github.com/tuneinsight/lattigo/v6/multiparty"

	"verif/harness/eng"
	"verif/harness/gen"
)

type evkp struct{ lq, lp, w int }

func (p evkp) lit() rlwe.EvaluationKeyParameters {
	lq, lp, w := p.lq, p.lp, p.w
	return rlwe.EvaluationKeyParameters{LevelQ: &lq, LevelP: &lp, BaseTwoDecomposition: &w}
}

type mismatch struct {
	kind string
	a, b evkp
}

// runReject: mismatched shares must be refused with an error (not combined, no panic).
func runReject(c *eng.Ctx, cf cfg) {
	e := newEnv(c, cf)
	if e == nil {
		return
	}
	c.Sample(cf)
	params := e.params
	rnd := c.Rand()
	lqMax, lpMax := params.MaxLevelQ(), params.MaxLevelP()
	nth := params.RingQ().NthRoot()

	var mm []mismatch
	w0 := 0
	if lpMax <= 0 && rnd.Bool() {
		w0 = 5 + rnd.N(26)
	}
	if lqMax >= 1 {
		mm = append(mm, mismatch{"levelQ", evkp{lqMax, lpMax, w0}, evkp{lqMax - 1 - rnd.N(lqMax), lpMax, w0}})
	}
	if lpMax >= 1 {
		mm = append(mm, mismatch{"levelP", evkp{lqMax, lpMax, 0}, evkp{lqMax, lpMax - 1 - rnd.N(lpMax), 0}})
	}
	if lpMax <= 0 {
		digits := func(w int) []int {
			return params.BaseTwoDecompositionVectorSize(lqMax, lpMax, w)[:params.BaseRNSDecompositionVectorSize(lqMax, lpMax)]
		}
		eq := func(a, b []int) bool {
			for i := range a {
				if a[i] != b[i] {
					return false
				}
			}
			return true
		}
		// different digit counts
		for try := 0; try < 50; try++ {
			wa, wb := 1+rnd.N(30), 1+rnd.N(30)
			if wa != wb && !eq(digits(wa), digits(wb)) {
				mm = append(mm, mismatch{"decomposition", evkp{lqMax, lpMax, wa}, evkp{lqMax, lpMax, wb}})
				break
			}
		}
		// same digit counts, different base
		for try := 0; try < 200; try++ {
			wa, wb := 8+rnd.N(23), 8+rnd.N(23)
			if wa != wb && eq(digits(wa), digits(wb)) {
				mm = append(mm, mismatch{"decomposition", evkp{lqMax, lpMax, wa}, evkp{lqMax, lpMax, wb}})
				break
			}
		}
		// power-of-two decomposition against none
		mm = append(mm, mismatch{"decomposition", evkp{lqMax, lpMax, 0}, evkp{lqMax, lpMax, 1 + rnd.N(30)}})
	}

	ep := multiparty.NewEvaluationKeyGenProtocol(params)
	gp := multiparty.NewGaloisKeyGenProtocol(params)
	rp := multiparty.NewRelinearizationKeyGenProtocol(params)

	fill := func(g *rlwe.GadgetCiphertext) {
		rows, mods := gadgetRows(g), gadgetMods(params, g)
		for i := range rows {
			copy(rows[i], gen.Vec(rnd, e.n, mods[i]-1, gen.PatUniform, 0))
		}
	}
	gal1 := params.GaloisElement(1)
	if cf.Ring == "ci" {
		gal1 = 5
	}
	newShare := func(p evkp, g uint64) gshare {
		s := gp.AllocateShare(p.lit())
		s.GaloisElement = g
		fill(&s.GadgetCiphertext)
		return s
	}
	newR := func(p evkp, round int) rshare {
		_, a, b := rp.AllocateShare(p.lit())
		if round == 2 {
			a = b
		}
		fill(&a.GadgetCiphertext)
		return a
	}
	type placement struct {
		name    string
		x, y, z int // 0 = A, 1 = B for share1, share2, out
	}
	places := []placement{{"in1-vs-in2/out=in1", 0, 1, 0}, {"in1-vs-in2/out=in2", 0, 1, 1}, {"in2-vs-in1/out=in1", 1, 0, 1}, {"inputs-vs-out", 0, 0, 1}}

	// verdict of one call that must be refused
	expectErr := func(proto, entry, kind, place string, f func() error, detail string) {
		var err error
		p, pv := eng.Panics(func() { err = f() })
		c.Distinct(fmt.Sprintf("reject/%s.%s/%s/%s", proto, entry, kind, place), true)
		c.Eval(1)
		sig := "C14|" + proto + "." + entry + "|mismatch-not-rejected|" + kind
		switch {
		case p:
			c.Count("mismatches_causing_panic", 1)
			c.Violate(sig, fmt.Sprintf("panic instead of an error (%v): %s, placement %s", pv, detail, place), cf)
		case err == nil:
			c.Count("mismatches_combined_silently", 1)
			c.Violate(sig, fmt.Sprintf("mismatched operands were combined without an error: %s, placement %s", detail, place), cf)
		default:
			c.Count("mismatches_rejected", 1)
		}
	}
	// a refused aggregation must leave the receiver as it was: an aggregator that drops the offending share on
	// error and goes on (out = accumulator) must not end up with a corrupted accumulator
	snap := func(s *gshare) (uint64, [][]uint64) {
		rows := gadgetRows(&s.GadgetCiphertext)
		cp := make([][]uint64, len(rows))
		for i := range rows {
			cp[i] = append([]uint64(nil), rows[i]...)
		}
		return s.GaloisElement, cp
	}
	sameSnap := func(s *gshare, g uint64, rows [][]uint64) bool {
		if s.GaloisElement != g {
			return false
		}
		cur := gadgetRows(&s.GadgetCiphertext)
		if len(cur) != len(rows) {
			return false
		}
		for i := range cur {
			if len(cur[i]) != len(rows[i]) {
				return false
			}
			for j := range cur[i] {
				if cur[i][j] != rows[i][j] {
					return false
				}
			}
		}
		return true
	}
	expectErrIntact := func(proto, entry, kind, place string, out *gshare, f func() error, detail string) {
		g, rows := snap(out)
		var err error
		p, _ := eng.Panics(func() { err = f() })
		if !p && err != nil {
			c.Check(sameSnap(out, g, rows), "C14|"+proto+"."+entry+"|refused-but-receiver-modified|"+kind, func() string {
				return fmt.Sprintf("the call returned %q but the output share was modified: %s, placement %s", err.Error(), detail, place)
			})
		}
	}

	for _, m := range mm {
		ab := [2]evkp{m.a, m.b}
		detail := fmt.Sprintf("%s: (LevelQ,LevelP,BaseTwo) A=%v B=%v Q=%v P=%v", m.kind, m.a, m.b, cf.QBits, cf.PBits)
		for _, pl := range places {
			// generic evaluation key and Galois key shares
			s1, s2, s3 := newShare(ab[pl.x], gal1), newShare(ab[pl.y], gal1), newShare(ab[pl.z], gal1)
			expectErr("EvaluationKeyGenProtocol", "AggregateShares", m.kind, pl.name, func() error {
				return ep.AggregateShares(s1.EvaluationKeyGenShare, s2.EvaluationKeyGenShare, &s3.EvaluationKeyGenShare)
			}, detail)
			s1, s2, s3 = newShare(ab[pl.x], gal1), newShare(ab[pl.y], gal1), newShare(ab[pl.z], gal1)
			expectErr("GaloisKeyGenProtocol", "AggregateShares", m.kind, pl.name, func() error { return gp.AggregateShares(s1, s2, &s3) }, detail)
			if pl.z == pl.x {
				a1, a2 := newShare(ab[pl.x], gal1), newShare(ab[pl.y], gal1)
				expectErrIntact("GaloisKeyGenProtocol", "AggregateShares", m.kind, pl.name+"/acc", &a1, func() error { return gp.AggregateShares(a1, a2, &a1) }, detail)
				b1, b2 := newShare(ab[pl.x], gal1), newShare(ab[pl.y], gal1)
				expectErrIntact("EvaluationKeyGenProtocol", "AggregateShares", m.kind, pl.name+"/acc", &b1, func() error {
					return ep.AggregateShares(b1.EvaluationKeyGenShare, b2.EvaluationKeyGenShare, &b1.EvaluationKeyGenShare)
				}, detail)
			}
			// relinearisation shares: the method has no error result; anything but a refusal is a violation.
			// One signature for every kind: the method validates nothing.
			if pl.x != pl.y {
				for round := 1; round <= 2; round++ {
					r1, r2, r3 := newR(ab[pl.x], round), newR(ab[pl.y], round), newR(ab[pl.z], round)
					p, pv := eng.Panics(func() { rp.AggregateShares(r1, r2, &r3) })
					c.Distinct(fmt.Sprintf("reject/RelinearizationKeyGenProtocol.AggregateShares/%s/%s/r%d", m.kind, pl.name, round), true)
					c.Eval(1)
					what := "mismatched shares were combined (the method returns no error)"
					if p {
						c.Count("mismatches_causing_panic", 1)
						what = fmt.Sprintf("panic instead of an error (%v)", pv)
					} else {
						c.Count("mismatches_combined_silently", 1)
					}
					c.Violate("C14|RelinearizationKeyGenProtocol.AggregateShares|mismatch-not-rejected|no-validation", fmt.Sprintf("%s: round %d, %s, placement %s", what, round, detail, pl.name), cf)
				}
			}
		}
		if m.kind == "levelQ" || m.kind == "levelP" {
			// finalisation into a key allocated for other levels
			sa := newShare(m.a, gal1)
			crpE := ep.SampleCRP(e.newCRS(), m.a.lit())
			expectErr("EvaluationKeyGenProtocol", "GenEvaluationKey", m.kind, "share-vs-key", func() error {
				return ep.GenEvaluationKey(sa.EvaluationKeyGenShare, crpE, rlwe.NewEvaluationKey(params, m.b.lit()))
			}, detail)
			crpG := gp.SampleCRP(e.newCRS(), m.a.lit())
			expectErr("GaloisKeyGenProtocol", "GenGaloisKey", m.kind, "share-vs-key", func() error {
				return gp.GenGaloisKey(sa, crpG, rlwe.NewGaloisKey(params, m.b.lit()))
			}, detail)
		}
		if m.kind == "decomposition" {
			// GenShare with a reference polynomial matrix sampled for another decomposition (documented error)
			da := params.BaseTwoDecompositionVectorSize(m.a.lq, m.a.lp, m.a.w)[:params.BaseRNSDecompositionVectorSize(m.a.lq, m.a.lp)]
			db := params.BaseTwoDecompositionVectorSize(m.b.lq, m.b.lp, m.b.w)[:params.BaseRNSDecompositionVectorSize(m.b.lq, m.b.lp)]
			differ := false
			for i := range da {
				differ = differ || da[i] != db[i]
			}
			if differ {
				sa := ep.AllocateShare(m.a.lit())
				crpB := ep.SampleCRP(e.newCRS(), m.b.lit())
				expectErr("EvaluationKeyGenProtocol", "GenShare", "crp-decomposition", "share-vs-crp", func() error {
					return ep.GenShare(e.sks[0], e.sks[1], crpB, &sa)
				}, detail)
			}
		}
	}
	// different Galois elements
	{
		var g2 uint64
		if cf.Ring == "ci" {
			g2 = 25 % nth
		} else {
			g2 = (gal1 + 2*uint64(1+rnd.N(int(nth/2)-1))) % nth
		}
		p := evkp{lqMax, lpMax, w0}
		detail := fmt.Sprintf("galois-element: %d vs %d", gal1, g2)
		for _, pl := range places[:3] {
			gs := [2]uint64{gal1, g2}
			s1, s2, s3 := newShare(p, gs[pl.x]), newShare(p, gs[pl.y]), newShare(p, gs[pl.z])
			expectErr("GaloisKeyGenProtocol", "AggregateShares", "galois-element", pl.name, func() error { return gp.AggregateShares(s1, s2, &s3) }, detail)
			// same mismatch, accumulator style: the output is (a copy of) the first operand
			a1, a2 := newShare(p, gs[pl.x]), newShare(p, gs[pl.y])
			expectErrIntact("GaloisKeyGenProtocol", "AggregateShares", "galois-element", pl.name+"/acc", &a1, func() error { return gp.AggregateShares(a1, a2, &a1) }, detail)
		}
	}
	// positive control: matching operands are accepted
	{
		p := evkp{lqMax, lpMax, w0}
		s1, s2, s3 := newShare(p, gal1), newShare(p, gal1), newShare(p, gal1)
		var err error
		if c.Try("C14|GaloisKeyGenProtocol.AggregateShares", func() { err = gp.AggregateShares(s1, s2, &s3) }) {
			c.Check(err == nil, "C14|GaloisKeyGenProtocol.AggregateShares|error-on-matching-shares", func() string { return err.Error() })
		}
	}
}
