package c14

// Coverage-audit extension ("x/" and "xreject/" case families).
//
// x/ cases run the same four protocol drivers as the base families with cfg.Ext set, on parameter
// sets the base generator never draws (8..10 Q primes with 3..4 P primes, more P than Q primes,
// 60/61-bit primes next to 30-bit ones, a single modulus, non-default error distributions: tail
// cut at 2 sigma / 1.5 sigma, sigma 40, ternary and fixed-weight ternary error), and with
//   - evaluation-key parameters at the edges of what the API accepts: no EvaluationKeyParameters at
//     all / nil fields (defaults), LevelP=-1 under parameters that have P, BaseTwoDecomposition>0
//     together with LevelP>0, LevelQ=0;
//   - receivers with a history: share buffers, ephemeral keys and final keys that held other data;
//   - shares travelling through io.WriterTo/io.ReaderFrom (plain and buffered, several shares back
//     to back in one stream) and being received into buffers allocated for other parameters;
//   - a CRS that is rewound (Reset) and replayed.
//
// xreject/ cases extend the refusal clause to the entry points the base family does not reach.

import (
	"bufio"
	"bytes"
	"fmt"
	"io"

	"github.com/tuneinsight/lattigo/v6/core/rlwe"
	"github.com/tuneinsight/lattigo/v6/ring"

	"verif/harness/eng"
	"verif/harness/gen"
)

func (c cfg) xe() ring.DistributionParameters {
	switch c.Xe {
	case "gauss3.2b6.4": // tail cut at 2 sigma: the bound, not 6 sigma, is what the key error must respect
		return ring.DiscreteGaussian{Sigma: 3.2, Bound: 6.4}
	case "gauss8b12":
		return ring.DiscreteGaussian{Sigma: 8, Bound: 12}
	case "gauss40":
		return ring.DiscreteGaussian{Sigma: 40, Bound: 240}
	case "ternary-p0.5":
		return ring.Ternary{P: 0.5}
	case "ternary-hN/4":
		return ring.Ternary{H: max(1, (1<<c.LogN)/4)}
	}
	return nil // library default (sigma 3.2, bound 19.2)
}

var xeKinds = []string{"gauss3.2b6.4", "gauss8b12", "gauss40", "ternary-p0.5", "ternary-hN/4"}

func extCases(tier string, seed int64) []eng.Case {
	r := eng.NewRand("c14-xcases", seed)
	var out []eng.Case
	nsets, nrej := 24, 12
	logNs := []int{4, 4, 5}
	if tier == "thorough" {
		nsets, nrej = 160, 96
		logNs = []int{4, 4, 5, 5, 6, 7}
	}
	qPick := func() int { return eng.Pick(r, 30, 36, 45, 50, 55, 58, 60) }
	pPick := func() int { return eng.Pick(r, 45, 55, 60, 61) }
	mk := func(i int) (cfg, bool) {
		c := cfg{Ext: true, Ring: "std", Xs: eng.Pick(r, "p0.5", "h8", "hN"), LogN: eng.Pick(r, logNs...)}
		nq, np := 1+r.N(4), r.N(3)
		qb, pb := qPick, pPick
		switch i % 8 {
		case 0: // many RNS digits
			nq, np, c.LogN = 8+r.N(3), 3+r.N(2), 4
		case 1: // more P primes than Q primes
			nq, np = 1+r.N(2), 3
		case 2:
			c.Xe = "gauss3.2b6.4"
		case 3:
			c.Xe = "ternary-hN/4"
		case 4:
			c.Xe = eng.Pick(r, "gauss40", "gauss8b12")
		case 5: // largest admitted primes next to the smallest
			nq, np = 2+r.N(3), r.N(2)
			k := 0
			qb = func() int { k++; return []int{60, 30}[k%2] }
			pb = func() int { return 61 }
			c.Xe = eng.Pick(r, "", "ternary-p0.5")
		case 6: // conjugate-invariant ring with non-default distributions on both sides
			c.Ring, c.Xs = "ci", eng.Pick(r, "gauss", "h8")
			c.Xe = eng.Pick(r, xeKinds...)
		case 7: // a single modulus (level 0 is the maximum level)
			nq, np = 1, r.N(2)
			qb = func() int { return eng.Pick(r, 30, 60) }
			c.Xe = eng.Pick(r, "", "gauss3.2b6.4")
		}
		for j := 0; j < nq; j++ {
			c.QBits = append(c.QBits, qb())
		}
		for j := 0; j < np; j++ {
			c.PBits = append(c.PBits, pb())
		}
		nth := uint64(2) << c.LogN
		if c.Ring == "ci" {
			nth <<= 1
		}
		c.Q, c.P = gen.Chain(r, nth, c.QBits, c.PBits)
		c.Parties = 1 + (i*3+i/8)%8
		if c.Xe != "" && i%8 != 6 {
			// few parties: the worst-case bound N*B stays close to what one sample of the declared Xe can reach,
			// so an error drawn from another distribution shows
			c.Parties = 1 + (i/8)%4
		}
		return c, c.Q != nil
	}
	for i := 0; i < nsets; i++ {
		c, ok := mk(i)
		if !ok {
			continue
		}
		for _, k := range kinds {
			cc := c
			cc.Kind = k
			id := fmt.Sprintf("x/%s/%d/n%d/%s/logN%d/q%v/p%v/%s/xe=%s", k, i, cc.Parties, cc.Ring, cc.LogN, cc.QBits, cc.PBits, cc.Xs, cc.Xe)
			var run func(x *eng.Ctx)
			switch k {
			case "cpk":
				run = func(x *eng.Ctx) { runCPK(x, cc) }
			case "evk":
				run = func(x *eng.Ctx) { runEVK(x, cc, false) }
			case "gal":
				run = func(x *eng.Ctx) { runEVK(x, cc, true) }
			case "rlk":
				run = func(x *eng.Ctx) { runRLK(x, cc) }
			}
			out = append(out, eng.Case{ID: id, Sig: "C14|" + k, Desc: cc, Run: run})
		}
	}
	for i := 0; i < nrej; i++ {
		c := cfg{Ext: true, Kind: "xreject", Parties: 2, LogN: 4, Ring: eng.Pick(r, "std", "std", "ci"), Xs: "p0.5"}
		nq, np := 2+r.N(3), i%3
		for j := 0; j < nq; j++ {
			c.QBits = append(c.QBits, qPick())
		}
		for j := 0; j < np; j++ {
			c.PBits = append(c.PBits, pPick())
		}
		nth := uint64(2) << c.LogN
		if c.Ring == "ci" {
			nth <<= 1
		}
		c.Q, c.P = gen.Chain(r, nth, c.QBits, c.PBits)
		if c.Q == nil {
			continue
		}
		cc := c
		id := fmt.Sprintf("xreject/%d/%s/q%v/p%v", i, cc.Ring, cc.QBits, cc.PBits)
		out = append(out, eng.Case{ID: id, Sig: "C14|reject", Desc: cc, Run: func(x *eng.Ctx) { runRejectExt(x, cc) }})
	}
	return out
}

// ---------------------------------------------------------------------------------------------
// evaluation-key parameters at the edges

// drawEvkParamsExt returns the effective (lq, lp, w) of trial `trial` and what is handed to the API
// (nothing at all, or a literal with nil fields, when the effective values are the defaults).
func (e *env) drawEvkParamsExt(trial int) (lq, lp, w int, evp []rlwe.EvaluationKeyParameters) {
	rnd := e.c.Rand()
	lqMax, lpMax := e.params.MaxLevelQ(), e.params.MaxLevelP()
	drawW := func() int { return eng.Pick(rnd, 0, 5+rnd.N(26), 5+rnd.N(26), 8, 16, 30) }
	lit := func() []rlwe.EvaluationKeyParameters {
		a, b, d := lq, lp, w
		return []rlwe.EvaluationKeyParameters{{LevelQ: &a, LevelP: &b, BaseTwoDecomposition: &d}}
	}
	switch trial {
	case 0: // the defaults, not spelled out
		lq, lp, w = lqMax, lpMax, 0
		e.c.Count("evk_params_defaulted", 1)
		switch rnd.N(4) {
		case 0:
			return lq, lp, w, nil
		case 1:
			return lq, lp, w, []rlwe.EvaluationKeyParameters{{}}
		case 2:
			a := lq
			return lq, lp, w, []rlwe.EvaluationKeyParameters{{LevelQ: &a}}
		default:
			b, d := lp, 0
			return lq, lp, w, []rlwe.EvaluationKeyParameters{{LevelP: &b, BaseTwoDecomposition: &d}}
		}
	case 1: // no auxiliary modulus in the key although the parameters may have one
		lq, lp, w = rnd.N(lqMax+1), -1, drawW()
		if lpMax >= 0 {
			e.c.Count("keys_levelP_minus1_under_P", 1)
		}
	case 2:
		if lpMax > 0 { // power-of-two base together with several P primes (one digit per row, base recorded)
			lq, lp, w = rnd.N(lqMax+1), 1+rnd.N(lpMax), 1+rnd.N(30)
			e.c.Count("keys_base_two_with_levelP_above_zero", 1)
		} else {
			lq, lp, w = 0, lpMax, drawW()
		}
	default: // level-0 key
		lq, lp = 0, rnd.N(lpMax+2)-1
		if lp <= 0 {
			w = drawW()
		}
		e.c.Count("keys_levelQ_zero", 1)
	}
	return lq, lp, w, lit()
}

// otherEvp: evaluation-key parameters for a receive buffer that was used for something else.
func (e *env) otherEvp() rlwe.EvaluationKeyParameters {
	rnd := e.c.Rand()
	lq, lp := rnd.N(e.params.MaxLevelQ()+1), rnd.N(e.params.MaxLevelP()+2)-1
	w := eng.Pick(rnd, 0, 7, 13, 29)
	return rlwe.EvaluationKeyParameters{LevelQ: &lq, LevelP: &lp, BaseTwoDecomposition: &w}
}

// ---------------------------------------------------------------------------------------------
// receivers with a history

func (e *env) junkRows(rows [][]uint64, mods []uint64) {
	rnd := e.c.Rand()
	for i := range rows {
		copy(rows[i], gen.Vec(rnd, len(rows[i]), mods[i]-1, gen.PatUniform, 0))
	}
}

func (e *env) junkGadget(g *rlwe.GadgetCiphertext) {
	e.junkRows(gadgetRows(g), gadgetMods(e.params, g))
}

// ---------------------------------------------------------------------------------------------
// stream transport

type wshare interface {
	io.WriterTo
	BinarySize() int
}

// wireTrip sends every share (a) alone through a plain io.Writer / io.Reader pair (the library wraps
// them itself) and (b) back to back with the others through ONE buffered writer, read back in order
// from ONE buffered reader. Every copy must equal its original, every byte count must equal
// BinarySize, and the bytes must be the MarshalBinary ones. Returns the common stream and the
// offset of every share in it.
func wireTrip[T wshare, PT interface {
	*T
	io.ReaderFrom
}](c *eng.Ctx, name string, shares []T, blobs [][]byte, same func(a, b T) bool) (stream []byte, off []int, ok bool) {
	ok = c.Try("C14|"+name+".WriteTo", func() {
		var common bytes.Buffer
		bw := bufio.NewWriter(&common)
		good, counts, rcounts := true, true, true
		for i := range shares {
			size := shares[i].BinarySize()
			// (a) plain
			var pb bytes.Buffer
			n, err := shares[i].WriteTo(struct{ io.Writer }{&pb})
			if err != nil {
				panic(err)
			}
			counts = counts && int(n) == size && pb.Len() == size
			good = good && bytes.Equal(pb.Bytes(), blobs[i])
			var back T
			m, err := PT(&back).ReadFrom(struct{ io.Reader }{bytes.NewReader(pb.Bytes())})
			if err != nil {
				panic(err)
			}
			rcounts = rcounts && int(m) == size
			good = good && same(back, shares[i])
			// (b) common stream
			off = append(off, common.Len()+bw.Buffered())
			n, err = shares[i].WriteTo(bw)
			if err != nil {
				panic(err)
			}
			counts = counts && int(n) == size
		}
		if err := bw.Flush(); err != nil {
			panic(err)
		}
		stream = append([]byte(nil), common.Bytes()...)
		br := bufio.NewReader(bytes.NewReader(stream))
		for i := range shares {
			var back T
			m, err := PT(&back).ReadFrom(br)
			if err != nil {
				panic(fmt.Errorf("share %d of the common stream: %w", i, err))
			}
			rcounts = rcounts && int(m) == shares[i].BinarySize()
			good = good && same(back, shares[i])
			good = good && off[i]+shares[i].BinarySize() <= len(stream) && bytes.Equal(stream[off[i]:off[i]+shares[i].BinarySize()], blobs[i])
		}
		_, err := br.ReadByte()
		rcounts = rcounts && err == io.EOF
		c.Count("shares_streamed", int64(2*len(shares)))
		c.Check(counts, "C14|"+name+".WriteTo|byte-count-differs-from-BinarySize", nil)
		c.Check(rcounts, "C14|"+name+".ReadFrom|byte-count-differs-from-BinarySize", nil)
		c.Check(good, "C14|"+name+".ReadFrom|share-changed-by-stream-transport", nil)
	})
	return
}
