package c14

import (
	"fmt"
	"strings"

	"verif/harness/eng"
)

// tree is a binary aggregation tree over leaf positions 0..n-1 (in order).
type tree struct {
	leaf int
	l, r *tree
}

func (t *tree) String() string {
	if t.l == nil {
		return fmt.Sprint(t.leaf)
	}
	return "(" + t.l.String() + t.r.String() + ")"
}

// shapes returns every binary tree over the ordered leaves lo..hi-1 (Catalan(hi-lo-1) trees).
func shapes(lo, hi int) []*tree {
	if hi-lo == 1 {
		return []*tree{{leaf: lo}}
	}
	var out []*tree
	for m := lo + 1; m < hi; m++ {
		for _, l := range shapes(lo, m) {
			for _, r := range shapes(m, hi) {
				out = append(out, &tree{l: l, r: r})
			}
		}
	}
	return out
}

func randShape(r *eng.Rand, lo, hi int) *tree {
	if hi-lo == 1 {
		return &tree{leaf: lo}
	}
	m := lo + 1 + r.N(hi-lo-1)
	return &tree{l: randShape(r, lo, m), r: randShape(r, m, hi)}
}

func leftFold(n int) *tree {
	t := &tree{leaf: 0}
	for i := 1; i < n; i++ {
		t = &tree{l: t, r: &tree{leaf: i}}
	}
	return t
}

func rightFold(lo, n int) *tree {
	if n-lo == 1 {
		return &tree{leaf: lo}
	}
	return &tree{l: &tree{leaf: lo}, r: rightFold(lo+1, n)}
}

func perms(n int) [][]int {
	if n == 1 {
		return [][]int{{0}}
	}
	var out [][]int
	for _, p := range perms(n - 1) {
		for pos := 0; pos <= len(p); pos++ {
			q := make([]int, 0, n)
			q = append(q, p[:pos]...)
			q = append(q, n-1)
			q = append(q, p[pos:]...)
			out = append(out, q)
		}
	}
	return out
}

func identity(n int) []int {
	p := make([]int, n)
	for i := range p {
		p[i] = i
	}
	return p
}

type plan struct {
	perm  []int
	shape *tree
	stock bool // index order, left fold: the plan the stock test runs
}

func (p plan) key() string {
	var sb strings.Builder
	for _, x := range p.perm {
		sb.WriteByte(byte('0' + x))
	}
	return sb.String() + p.shape.String()
}

// plans enumerates the aggregation plans of n shares. full=false gives a reduced list (used for the
// 2nd..k-th key of a case).
func plans(r *eng.Rand, n int, tier string, full bool) []plan {
	stock := plan{perm: identity(n), shape: leftFold(n), stock: true}
	if n == 1 {
		return []plan{stock}
	}
	out := []plan{stock}
	if !full {
		out = append(out, plan{perm: r.Perm(n), shape: randShape(r, 0, n)})
		return out
	}
	switch {
	case n <= 4:
		for _, p := range perms(n) {
			for _, s := range shapes(0, n) {
				out = append(out, plan{perm: p, shape: s})
			}
		}
	case n == 5:
		ps := [][]int{identity(n), r.Perm(n), r.Perm(n), r.Perm(n)}
		if tier == "thorough" {
			ps = perms(n)
		}
		for _, p := range ps {
			for _, s := range shapes(0, n) {
				out = append(out, plan{perm: p, shape: s})
			}
		}
	default:
		k := 12
		if tier == "thorough" {
			k = 48
		}
		rev := make([]int, n)
		for i := range rev {
			rev[i] = n - 1 - i
		}
		out = append(out, plan{perm: rev, shape: rightFold(0, n)}, plan{perm: identity(n), shape: rightFold(0, n)})
		for i := 0; i < k; i++ {
			out = append(out, plan{perm: r.Perm(n), shape: randShape(r, 0, n)})
		}
	}
	return out
}

// ops describes one share type to the generic aggregation driver.
type ops[T any] struct {
	proto string // e.g. "PublicKeyGenProtocol"
	round string // "" or "round1"/"round2"
	key   string // distinct-key prefix: chain/N/lq/lp/w
	n     int
	// leaf returns a private copy of party i's share; ser: rebuilt from its serialisation.
	leaf  func(i int, ser bool) T
	alloc func() T
	add   func(a, b T, out *T) error
	rows  func(T) [][]uint64
	mods  []uint64
}

// aggregateAll runs every plan, compares each aggregate with the exact sum and returns the
// aggregate of one randomly chosen non-stock plan (or the stock one when it is alone).
func aggregateAll[T any](e *env, o *ops[T], ps []plan) (res T, ok bool) {
	c := e.c
	rnd := c.Rand()
	sig := "C14|" + o.proto + ".AggregateShares"
	// exact reference sum
	want := cloneRows(o.rows(o.leaf(0, false)))
	for i := range want {
		for x := range want[i] {
			want[i][x] %= o.mods[i]
		}
	}
	for i := 1; i < o.n; i++ {
		addRows(want, o.rows(o.leaf(i, false)), o.mods)
	}
	pick := 0
	if len(ps) > 1 {
		pick = 1 + rnd.N(len(ps)-1)
	}
	for pi, p := range ps {
		serUsed := false
		var aggErr error
		var fold func(t *tree) T
		fold = func(t *tree) T {
			if t.l == nil {
				ser := !p.stock && rnd.N(3) == 0
				serUsed = serUsed || ser
				return o.leaf(p.perm[t.leaf], ser)
			}
			a := fold(t.l)
			b := fold(t.r)
			mode := 1 // stock: out aliased to the first operand, as in the stock test
			if !p.stock {
				mode = rnd.N(3)
			}
			var err error
			var out T
			switch mode {
			case 0:
				out = o.alloc()
				err = o.add(a, b, &out)
			case 1:
				err = o.add(a, b, &a)
				out = a
			default:
				err = o.add(a, b, &b)
				out = b
			}
			if err != nil && aggErr == nil {
				aggErr = err
			}
			return out
		}
		var got T
		good := c.Try(sig, func() { got = fold(p.shape) })
		if good && aggErr != nil {
			c.Violate(sig+"|error-on-matching-shares", aggErr.Error(), e.cf)
			good = false
		}
		c.Distinct("agg/"+o.proto+o.round+"/"+o.key+"/"+p.key(), o.n >= 2 && !(p.stock && !serUsed))
		c.Count("aggregation_plans", 1)
		if !good {
			continue
		}
		rows := o.rows(got)
		c.Count("noncanonical_aggregate_coefficients", nonCanonical(rows, o.mods))
		same := eqRows(rows, want, o.mods)
		c.Check(same, sig+"|aggregate-differs-from-exact-sum", func() string {
			return fmt.Sprintf("%s%s: parties=%d plan perm=%v shape=%s serialised-leaves=%v %s", o.proto, o.round, o.n, p.perm, p.shape, serUsed, o.key)
		})
		if same && (pi == pick || !ok) {
			res, ok = got, true
		}
	}
	return
}
