package c14

import (
	"bufio"
	"bytes"
	"fmt"
	"math"

	"github.com/tuneinsight/lattigo/v6/core/rlwe"
	"github.com/tuneinsight/lattigo/v6/multiparty"
	"github.com/tuneinsight/lattigo/v6/ring"

	"verif/harness/eng"
	"verif/harness/gen"
)

type rshare = multiparty.RelinearizationKeyGenShare

func runRLK(c *eng.Ctx, cf cfg) {
	e := newEnv(c, cf)
	if e == nil {
		return
	}
	c.Sample(cf)
	params := e.params
	rnd := c.Rand()
	const P = "RelinearizationKeyGenProtocol"

	protos := make([]multiparty.RelinearizationKeyGenProtocol, e.np)
	if !c.Try("C14|New"+P, func() {
		for i := range protos {
			if i%2 == 0 {
				protos[i] = multiparty.NewRelinearizationKeyGenProtocol(params)
			} else {
				protos[i] = protos[0].ShallowCopy()
			}
		}
	}) {
		return
	}
	// s^2 (NTT + Montgomery) of the ideal secret
	rq := params.RingQ()
	s2 := rq.NewPoly()
	rq.MulCoeffsMontgomery(e.ideal.Value.Q, e.ideal.Value.Q, s2)

	shareRows := func(s rshare) [][]uint64 { return gadgetRows(&s.GadgetCiphertext) }

	for trial := 0; trial < 3; trial++ {
		lq, lp, w := 0, 0, 0
		var evp []rlwe.EvaluationKeyParameters // what the API receives (ext cases: possibly nothing / nil fields)
		if cf.Ext {
			lq, lp, w, evp = e.drawEvkParamsExt(trial)
		} else {
			lq, lp, w = e.drawEvkParams(trial)
			evp = []rlwe.EvaluationKeyParameters{{LevelQ: &lq, LevelP: &lp, BaseTwoDecomposition: &w}}
		}
		nrows := params.BaseRNSDecompositionVectorSize(lq, lp)
		digits := params.BaseTwoDecompositionVectorSize(lq, lp, w)[:nrows]
		if digitsUnequal(digits) {
			c.Count("keys_with_unequal_digit_counts", 1)
		}
		kp := fmt.Sprintf("%s/%d/%d/%d/%d", e.chain, e.np, lq, lp, w)
		desc := fmt.Sprintf("Q=%v P=%v ring=%s parties=%d keyLevelQ=%d keyLevelP=%d w=%d digits=%v", cf.Q, cf.P, cf.Ring, e.np, lq, lp, w, digits)

		// ---- CRS
		script := e.drawScript()
		crps := make([]multiparty.RelinearizationKeyGenCRP, e.np)
		reads := make([]crpRead, e.np)
		if !c.Try("C14|"+P+".SampleCRP", func() {
			for i := range protos {
				crs := e.newCRS()
				e.warmUp(crs, script, &reads[i])
				crps[i] = protos[i].SampleCRP(crs, evp...)
				reads[i].addMat(params, crps[i].Value)
			}
		}) {
			continue
		}
		var rr [][][]uint64
		for i := range reads {
			rr = append(rr, reads[i].rows)
		}
		e.checkCRP(P, rr, reads[0].mods)
		if cf.Ext {
			// a party that rewinds its CRS (KeyedPRNG.Reset) and replays the call sequence obtains the same polynomials
			c.Try("C14|"+P+".SampleCRP", func() {
				crs := e.newCRS()
				var rd [2]crpRead
				for k := range rd {
					e.warmUp(crs, script, &rd[k])
					rd[k].addMat(params, protos[0].SampleCRP(crs, evp...).Value)
					crs.Reset()
				}
				c.Count("crs_rewinds", 1)
				c.Check(eqRows(rd[0].rows, rd[1].rows, nil) && eqRows(rd[0].rows, reads[0].rows, nil), "C14|"+P+".SampleCRP|crs-rewind-does-not-replay", nil)
			})
		}

		// ---- round one
		eph := make([]*rlwe.SecretKey, e.np)
		r1 := make([]rshare, e.np)
		r2 := make([]rshare, e.np)
		if !c.Try("C14|"+P+".GenShareRoundOne", func() {
			for i := range protos {
				eph[i], r1[i], r2[i] = protos[i].AllocateShare(evp...)
				if cf.Ext && i%2 == 1 {
					// receivers that held something else before: both rounds and the ephemeral key must be overwritten
					e.junkGadget(&r1[i].GadgetCiphertext)
					e.junkGadget(&r2[i].GadgetCiphertext)
					e.junkRows(qpRows(eph[i].Value), qpMods(params, params.MaxLevelQ(), params.MaxLevelP()))
					c.Count("share_buffers_dirty", 2)
				}
				protos[i].GenShareRoundOne(e.sks[i], crps[i], eph[i], &r1[i])
			}
		}) {
			continue
		}
		e.checkEphemeral(P, eph)
		mkOps := func(round string, shares []rshare, degree int) *ops[rshare] {
			blobs := make([][]byte, e.np)
			ok := c.Try("C14|RelinearizationKeyGenShare.MarshalBinary", func() {
				for i := range shares {
					b, err := shares[i].MarshalBinary()
					if err != nil {
						panic(err)
					}
					var back rshare
					if err := back.UnmarshalBinary(b); err != nil {
						panic(err)
					}
					blobs[i] = b
					c.Count("shares_serialised", 1)
					c.Count("serialised_bytes", int64(len(b)))
					c.Check(len(b) == shares[i].BinarySize() && eqRows(shareRows(back), shareRows(shares[i]), nil) && back.BaseTwoDecomposition == w,
						"C14|RelinearizationKeyGenShare.UnmarshalBinary|share-changed-by-serialisation", nil)
				}
			})
			if !ok {
				return nil
			}
			var stream []byte
			var off []int
			if cf.Ext {
				if stream, off, ok = wireTrip[rshare](c, "RelinearizationKeyGenShare", shares, blobs, func(a, b rshare) bool {
					return eqRows(shareRows(a), shareRows(b), nil) && a.BaseTwoDecomposition == b.BaseTwoDecomposition
				}); !ok {
					return nil
				}
			}
			alloc := func() rshare {
				_, a1, a2 := protos[rnd.N(e.np)].AllocateShare(evp...)
				if degree == 1 {
					return a1
				}
				return a2
			}
			return &ops[rshare]{proto: P, round: "/" + round, key: kp, n: e.np, mods: gadgetMods(params, &shares[0].GadgetCiphertext),
				leaf: func(i int, ser bool) rshare {
					if ser && cf.Ext {
						// receive buffer: zero value / right shape / allocated for other evaluation-key parameters (and dirty)
						var s rshare
						switch rnd.N(3) {
						case 1:
							s = alloc()
						case 2:
							_, a1, a2 := protos[0].AllocateShare(e.otherEvp())
							s = eng.Pick(rnd, a1, a2)
							e.junkGadget(&s.GadgetCiphertext)
							c.Count("receive_buffers_of_other_shape", 1)
						}
						var err error
						if rnd.Bool() {
							err = s.UnmarshalBinary(blobs[i])
						} else {
							c.Count("leaves_from_common_stream", 1)
							_, err = s.ReadFrom(bufio.NewReader(bytes.NewReader(stream[off[i]:])))
						}
						if err != nil {
							panic(err)
						}
						return s
					}
					if ser {
						var s rshare
						if rnd.Bool() {
							s = alloc()
						}
						if err := s.UnmarshalBinary(blobs[i]); err != nil {
							panic(err)
						}
						return s
					}
					s := alloc()
					copyRows(shareRows(s), shareRows(shares[i]))
					return s
				},
				alloc: alloc,
				add: func(a, b rshare, out *rshare) error {
					protos[rnd.N(e.np)].AggregateShares(a, b, out)
					return nil
				},
				rows: shareRows,
			}
		}
		o1 := mkOps("round1", r1, 1)
		if o1 == nil {
			continue
		}
		agg1, ok := aggregateAll(e, o1, plans(rnd, e.np, c.Tier, trial == 0))
		if !ok {
			continue
		}
		// the aggregate of round one is broadcast: half of the parties receive it serialised
		var agg1Ser rshare
		if !c.Try("C14|RelinearizationKeyGenShare.MarshalBinary", func() {
			b, err := agg1.MarshalBinary()
			if err != nil {
				panic(err)
			}
			if err := agg1Ser.UnmarshalBinary(b); err != nil {
				panic(err)
			}
		}) {
			continue
		}

		// ---- round two
		if !c.Try("C14|"+P+".GenShareRoundTwo", func() {
			for i := range protos {
				in := agg1
				if i%2 == 1 {
					in = agg1Ser
				}
				ephBefore, skBefore := eph[i].CopyNew(), e.sks[i].CopyNew()
				protos[i].GenShareRoundTwo(eph[i], e.sks[i], in, &r2[i])
				// round two may have to be run again (lost messages, a re-broadcast aggregate): the ephemeral secret
				// and the secret key it reads are inputs
				c.Count("round_two_inputs_compared", 1)
				c.Check(eph[i].Equal(ephBefore) && e.sks[i].Equal(skBefore), "C14|"+P+".GenShareRoundTwo|secret-input-modified", nil)
			}
		}) {
			continue
		}
		o2 := mkOps("round2", r2, 0)
		if o2 == nil {
			continue
		}
		agg2, ok := aggregateAll(e, o2, plans(rnd, e.np, c.Tier, trial == 0))
		if !ok {
			continue
		}

		// ---- finalisation; a second key from canonical (fully reduced) copies of the aggregates must be identical
		rlk := rlwe.NewRelinearizationKey(params, evp...)
		if cf.Ext && rnd.Bool() {
			// a key object that held another key before
			e.junkGadget(&rlk.GadgetCiphertext)
			c.Count("finalisations_into_used_key", 1)
		}
		if !c.Try("C14|"+P+".GenRelinearizationKey", func() { protos[rnd.N(e.np)].GenRelinearizationKey(agg1, agg2, rlk) }) {
			continue
		}
		c.Count("finalised_keys_checked_for_shared_storage", 1)
		c.Check(!sharesStorage(gadgetRows(&rlk.GadgetCiphertext), append(shareRows(agg1), shareRows(agg2)...)), "C14|"+P+".GenRelinearizationKey|key-shares-storage-with-share", nil)
		{
			canon := func(s rshare, o *ops[rshare]) rshare {
				cp := o.leaf(0, false)
				rows, src := shareRows(cp), shareRows(s)
				for i := range rows {
					for x := range rows[i] {
						rows[i][x] = src[i][x] % o.mods[i]
					}
				}
				return cp
			}
			rlk2 := rlwe.NewRelinearizationKey(params, evp...)
			if c.Try("C14|"+P+".GenRelinearizationKey", func() {
				protos[0].GenRelinearizationKey(canon(agg1, o1), canon(agg2, o2), rlk2)
			}) {
				c.Check(eqRows(gadgetRows(&rlk.GadgetCiphertext), gadgetRows(&rlk2.GadgetCiphertext), gadgetMods(params, &rlk.GadgetCiphertext)),
					"C14|"+P+".GenRelinearizationKey|key-depends-on-share-representation", func() string { return desc })
			}
		}

		// ---- the key is a relinearisation key of the ideal secret: b + a*s = P*2^(jw)*s^2 + (s*e0 + u*e1 + e2)
		Hs := float64(e.np) * e.H
		E := 2*e.cif*Hs*float64(e.np)*e.B + float64(e.np)*e.B
		pl := &pool{}
		if !e.checkGadgetKey("C14|"+P+".GenRelinearizationKey", &rlk.GadgetCiphertext, e.ideal.Value, s2, lq, lp, w, E, pl, desc) {
			continue
		}
		if e.sigma >= 3 {
			c.Check(pl.nonzero > 0, "C14|"+P+".GenRelinearizationKey|key-carries-no-error", nil)
		}

		// ---- functional: relinearise a hand-built degree-2 ciphertext of the ideal secret
		for u := 0; u < 2; u++ {
			level := rnd.N(lq + 1)
			if u == 0 {
				level = lq
			}
			isNTT := rnd.Bool()
			ksb := e.ksBound(level, lp, w, E, Hs)
			msg := e.randMsg(level)
			d := desc + fmt.Sprintf(" ctLevel=%d isNTT=%v", level, isNTT)
			rql := params.RingQ().AtLevel(level)
			ct2 := rlwe.NewCiphertext(params, 2, level)
			ct2.IsNTT = isNTT
			c1n, c2n, acc := rql.NewPoly(), rql.NewPoly(), rql.NewPoly()
			for i := 0; i <= level; i++ {
				copy(c1n.Coeffs[i], gen.Vec(rnd, e.n, rql.SubRings[i].Modulus-1, gen.PatUniform, 0))
				copy(c2n.Coeffs[i], gen.Vec(rnd, e.n, rql.SubRings[i].Modulus-1, gen.PatUniform, 0))
			}
			rql.MulCoeffsMontgomery(c2n, e.ideal.Value.Q, acc)
			rql.Add(acc, c1n, acc)
			rql.MulCoeffsMontgomery(acc, e.ideal.Value.Q, acc) // c1 s + c2 s^2
			mN := rql.NewPoly()
			rql.NTT(msg, mN)
			c0n := rql.NewPoly()
			rql.Sub(mN, acc, c0n)
			set := func(dst, srcNTT ring.Poly) {
				for i := 0; i <= level; i++ {
					copy(dst.Coeffs[i], srcNTT.Coeffs[i])
				}
				if !isNTT {
					rql.INTT(dst, dst)
				}
			}
			set(ct2.Value[0], c0n)
			set(ct2.Value[1], c1n)
			set(ct2.Value[2], c2n)
			o := rlwe.NewCiphertext(params, 1, level)
			var rerr error
			evalR := rlwe.NewEvaluator(params, rlwe.NewMemEvaluationKeySet(rlk))
			if c.Try("C14|Evaluator.Relinearize(collective-key)", func() { rerr = evalR.Relinearize(ct2, o) }) {
				if rerr != nil {
					c.Violate("C14|Evaluator.Relinearize(collective-key)|error-on-admissible", rerr.Error()+" "+d, cf)
				} else {
					e.judge("C14|Evaluator.Relinearize(collective-key)", o.El(), e.ideal, msg, ksb, fmt.Sprintf("rlk/%s/%d/%v", kp, level, isNTT), d)
				}
			}
		}
	}
}

// checkEphemeral: the round-one ephemeral secrets u_i are samples of the parameters' secret distribution
// (multiparty/utils.go models the key noise with var(u) = var(sk); the term (u - s)*e1 of the key error
// scales with the l2 norm of u). Exact for a fixed Hamming weight, 6 standard errors on the pooled
// density otherwise; a Gaussian Xs is judged on its support and, with >= 128 coefficients, on a
// pooled variance above a quarter of the nominal one.
func (e *env) checkEphemeral(P string, eph []*rlwe.SecretKey) {
	params := e.params
	rq := params.RingQ().AtLevel(0)
	q0 := rq.SubRings[0].Modulus
	sig := "C14|" + P + ".GenShareRoundOne|ephemeral-secret-not-a-sample-of-Xs"
	var n, nonzero int
	var sum2 float64
	for i, u := range eph {
		if u == nil {
			continue
		}
		p := rq.NewPoly()
		copy(p.Coeffs[0], u.Value.Q.Coeffs[0])
		rq.IMForm(p, p)
		rq.INTT(p, p)
		w, maxAbs := 0, uint64(0)
		for _, v := range p.Coeffs[0] {
			v %= q0
			a := v
			if v > q0/2 {
				a = q0 - v
			}
			if a != 0 {
				w++
			}
			if a > maxAbs {
				maxAbs = a
			}
			sum2 += float64(a) * float64(a)
		}
		n += len(p.Coeffs[0])
		nonzero += w
		e.c.Count("ephemeral_secrets_judged", 1)
		switch e.cf.Xs {
		case "h8", "hN":
			want := 8
			if e.cf.Xs == "hN" || want > e.n {
				want = e.n
			}
			e.c.Check(maxAbs <= 1 && w == want, sig+"|hamming-weight", func() string {
				return fmt.Sprintf("party %d: weight %d (max |u| = %d), Xs has fixed Hamming weight %d; %s", i, w, maxAbs, want, e.chain)
			})
		case "gauss":
			e.c.Check(maxAbs <= 19, sig+"|outside-support", func() string { return fmt.Sprintf("party %d: max |u| = %d > 19; %s", i, maxAbs, e.chain) })
		default:
			e.c.Check(maxAbs <= 1, sig+"|outside-support", func() string { return fmt.Sprintf("party %d: max |u| = %d > 1; %s", i, maxAbs, e.chain) })
		}
	}
	if n == 0 {
		return
	}
	switch e.cf.Xs {
	case "h8", "hN":
	case "gauss":
		if n >= 128 {
			e.c.Check(sum2/float64(n) >= 3.2*3.2/4, sig+"|variance", func() string {
				return fmt.Sprintf("pooled variance %.2f over %d coefficients, nominal %.2f; %s", sum2/float64(n), n, 3.2*3.2, e.chain)
			})
		}
	default: // Ternary{P: 0.5}
		d := math.Abs(float64(nonzero) - 0.5*float64(n))
		e.c.Check(d <= 6*math.Sqrt(0.25*float64(n)), sig+"|density", func() string {
			return fmt.Sprintf("%d non-zero coefficients of %d, density 1/2 expected (6 standard errors = %.1f); %s", nonzero, n, 6*math.Sqrt(0.25*float64(n)), e.chain)
		})
	}
}
