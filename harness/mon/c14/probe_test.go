package c14

import (
	"fmt"
	"testing"

	"github.com/tuneinsight/lattigo/v6/core/rlwe"
	"github.com/tuneinsight/lattigo/v6/multiparty"
	"github.com/tuneinsight/lattigo/v6/utils/sampling"
	"verif/harness/eng"
	"verif/harness/gen"
)

func TestProbe(t *testing.T) {
	r := eng.NewRand("probe", 1)
	logN := 5
	q, p := gen.Chain(r, 2<<logN, []int{30, 55, 60}, []int{61})
	params, err := rlwe.NewParametersFromLiteral(rlwe.ParametersLiteral{LogN: logN, Q: q, P: p, NTTFlag: true})
	if err != nil {
		t.Fatal(err)
	}
	kgen := rlwe.NewKeyGenerator(params)
	sk := kgen.GenSecretKeyNew()
	crs, _ := sampling.NewKeyedPRNG([]byte("x"))
	rp := multiparty.NewRelinearizationKeyGenProtocol(params)
	eph, r1, r2 := rp.AllocateShare()
	crp := rp.SampleCRP(crs)
	rp.GenShareRoundOne(sk, crp, eph, &r1)
	rp.GenShareRoundTwo(eph, sk, r1, &r2)
	fmt.Println("r1 noncanon", nonCanonical(gadgetRows(&r1.GadgetCiphertext), gadgetMods(params, &r1.GadgetCiphertext)))
	rows := gadgetRows(&r2.GadgetCiphertext)
	fmt.Println("r2 noncanon", nonCanonical(rows, gadgetMods(params, &r2.GadgetCiphertext)), len(rows)*len(rows[0]))
}
