package c14

import (
	"bufio"
	"bytes"
	"fmt"

	"github.com/tuneinsight/lattigo/v6/core/rlwe"
	"github.com/tuneinsight/lattigo/v6/multiparty"
	"github.com/tuneinsight/lattigo/v6/ring/ringqp"
	"github.com/tuneinsight/lattigo/v6/utils/sampling"

	"verif/harness/eng"
	"verif/harness/obs"
)

// crpRead is everything one party read from its CRS instance, in order.
type crpRead struct {
	rows [][]uint64
	mods []uint64
}

func (r *crpRead) addQP(params rlwe.Parameters, p ringqp.Poly) {
	r.rows = append(r.rows, qpRows(p)...)
	r.mods = append(r.mods, qpMods(params, p.LevelQ(), p.LevelP())...)
}

func (r *crpRead) addMat(params rlwe.Parameters, m [][]ringqp.Poly) {
	for i := range m {
		for j := range m[i] {
			r.addQP(params, m[i][j])
		}
	}
}

// warmUp performs the common prefix of CRS reads of a case: a party that derives several keys from
// one CRS reads several reference polynomials in a fixed order; every party must see the same ones.
// script[k] selects the protocol of the k-th read.
func (e *env) warmUp(crs multiparty.CRS, script []int, rd *crpRead) {
	for _, k := range script {
		switch k {
		case 0:
			rd.addQP(e.params, multiparty.NewPublicKeyGenProtocol(e.params).SampleCRP(crs).Value)
		case 1:
			rd.addMat(e.params, multiparty.NewEvaluationKeyGenProtocol(e.params).SampleCRP(crs).Value)
		case 2:
			lq, lp := 0, e.params.MaxLevelP()
			rd.addMat(e.params, multiparty.NewRelinearizationKeyGenProtocol(e.params).SampleCRP(crs, rlwe.EvaluationKeyParameters{LevelQ: &lq, LevelP: &lp}).Value)
		}
	}
}

func (e *env) drawScript() []int {
	rnd := e.c.Rand()
	var s []int
	for k := rnd.N(3); k > 0; k-- {
		s = append(s, rnd.N(3))
	}
	return s
}

// otherCRS returns a CRS keyed differently from the case's one.
func (e *env) otherCRS() *sampling.KeyedPRNG {
	k := append([]byte{}, e.crsKey...)
	k[0] ^= 0x5a
	p, err := sampling.NewKeyedPRNG(k)
	if err != nil {
		panic(err)
	}
	return p
}

func runCPK(c *eng.Ctx, cf cfg) {
	e := newEnv(c, cf)
	if e == nil {
		return
	}
	c.Sample(cf)
	params := e.params
	rnd := c.Rand()
	lqMax, lpMax := params.MaxLevelQ(), params.MaxLevelP()
	mods := qpMods(params, lqMax, lpMax)
	const P = "PublicKeyGenProtocol"

	protos := make([]multiparty.PublicKeyGenProtocol, e.np)
	if !c.Try("C14|NewPublicKeyGenProtocol", func() {
		for i := range protos {
			if i%2 == 0 {
				protos[i] = multiparty.NewPublicKeyGenProtocol(params)
			} else {
				protos[i] = protos[0].ShallowCopy()
			}
		}
	}) {
		return
	}
	// every party reads its own CRS instance
	script := e.drawScript()
	crps := make([]multiparty.PublicKeyGenCRP, e.np)
	reads := make([]crpRead, e.np)
	if !c.Try("C14|"+P+".SampleCRP", func() {
		for i := range protos {
			crs := e.newCRS()
			e.warmUp(crs, script, &reads[i])
			crps[i] = protos[i].SampleCRP(crs)
			reads[i].addQP(params, crps[i].Value)
		}
	}) {
		return
	}
	var rr [][][]uint64
	for i := range reads {
		rr = append(rr, reads[i].rows)
	}
	e.checkCRP(P, rr, reads[0].mods)
	if c.Try("C14|"+P+".SampleCRP", func() {
		o := protos[0].SampleCRP(e.otherCRS())
		c.Check(!eqRows(qpRows(o.Value), qpRows(crps[0].Value), nil), "C14|"+P+".SampleCRP|crs-content-ignored", nil)
	}) {
	}

	// shares
	shares := make([]multiparty.PublicKeyGenShare, e.np)
	if !c.Try("C14|"+P+".GenShare", func() {
		for i := range protos {
			shares[i] = protos[i].AllocateShare()
			if cf.Ext && i%2 == 1 {
				// a receiver that held something else before: GenShare must overwrite it
				e.junkRows(qpRows(shares[i].Value), mods)
				c.Count("share_buffers_dirty", 1)
			}
			protos[i].GenShare(e.sks[i], crps[i], &shares[i])
		}
	}) {
		return
	}
	blobs := make([][]byte, e.np)
	for i := range shares {
		i := i
		c.Try("C14|PublicKeyGenShare.MarshalBinary", func() {
			b, err := shares[i].MarshalBinary()
			if err != nil {
				panic(err)
			}
			blobs[i] = b
			var back multiparty.PublicKeyGenShare
			if err := back.UnmarshalBinary(b); err != nil {
				panic(err)
			}
			c.Count("shares_serialised", 1)
			c.Count("serialised_bytes", int64(len(b)))
			c.Check(eqRows(qpRows(back.Value), qpRows(shares[i].Value), nil) && len(b) == shares[i].BinarySize(), "C14|PublicKeyGenShare.UnmarshalBinary|share-changed-by-serialisation", nil)
		})
		if blobs[i] == nil {
			return
		}
	}
	var stream []byte
	var off []int
	if cf.Ext {
		var wok bool
		stream, off, wok = wireTrip[multiparty.PublicKeyGenShare](c, "PublicKeyGenShare", shares, blobs, func(a, b multiparty.PublicKeyGenShare) bool {
			return eqRows(qpRows(a.Value), qpRows(b.Value), nil)
		})
		if !wok {
			return
		}
		// a party that rewinds its CRS (KeyedPRNG.Reset) and replays the call sequence obtains the same polynomials
		c.Try("C14|"+P+".SampleCRP", func() {
			crs := e.newCRS()
			var rd [2]crpRead
			for k := range rd {
				e.warmUp(crs, script, &rd[k])
				rd[k].addQP(params, protos[0].SampleCRP(crs).Value)
				crs.Reset()
			}
			c.Count("crs_rewinds", 1)
			c.Check(eqRows(rd[0].rows, rd[1].rows, nil) && eqRows(rd[0].rows, reads[0].rows, nil), "C14|"+P+".SampleCRP|crs-rewind-does-not-replay", nil)
		})
	}
	o := &ops[multiparty.PublicKeyGenShare]{proto: P, key: fmt.Sprintf("%s/%d", e.chain, e.np), n: e.np, mods: mods,
		leaf: func(i int, ser bool) multiparty.PublicKeyGenShare {
			if ser {
				var s multiparty.PublicKeyGenShare
				if rnd.Bool() {
					s = protos[0].AllocateShare()
					if cf.Ext {
						e.junkRows(qpRows(s.Value), mods)
					}
				}
				if cf.Ext && rnd.Bool() {
					c.Count("leaves_from_common_stream", 1)
					if _, err := s.ReadFrom(bufio.NewReader(bytes.NewReader(stream[off[i]:]))); err != nil {
						panic(err)
					}
					return s
				}
				if err := s.UnmarshalBinary(blobs[i]); err != nil {
					panic(err)
				}
				return s
			}
			s := protos[0].AllocateShare()
			copyRows(qpRows(s.Value), qpRows(shares[i].Value))
			return s
		},
		alloc: func() multiparty.PublicKeyGenShare { return protos[rnd.N(e.np)].AllocateShare() },
		add: func(a, b multiparty.PublicKeyGenShare, out *multiparty.PublicKeyGenShare) error {
			protos[rnd.N(e.np)].AggregateShares(a, b, out)
			return nil
		},
		rows: func(s multiparty.PublicKeyGenShare) [][]uint64 { return qpRows(s.Value) },
	}
	agg, ok := aggregateAll(e, o, plans(rnd, e.np, c.Tier, true))
	if !ok {
		return
	}
	pk := rlwe.NewPublicKey(params)
	if !c.Try("C14|"+P+".GenPublicKey", func() { protos[rnd.N(e.np)].GenPublicKey(agg, crps[rnd.N(e.np)], pk) }) {
		return
	}
	c.Check(eqRows(qpRows(pk.Value[0]), qpRows(agg.Value), mods) && eqRows(qpRows(pk.Value[1]), qpRows(crps[0].Value), nil), "C14|"+P+".GenPublicKey|key-differs-from-aggregate-and-crp", nil)
	{
		in := qpRows(agg.Value)
		for i := range crps {
			in = append(in, qpRows(crps[i].Value)...)
		}
		c.Count("finalised_keys_checked_for_shared_storage", 1)
		c.Check(!sharesStorage(append(qpRows(pk.Value[0]), qpRows(pk.Value[1])...), in), "C14|"+P+".GenPublicKey|key-shares-storage-with-share-or-crp", nil)
	}
	if cf.Ext {
		// a key object that held another key before must end up identical to the fresh one
		c.Try("C14|"+P+".GenPublicKey", func() {
			pk2 := rlwe.NewPublicKey(params)
			e.junkRows(qpRows(pk2.Value[0]), mods)
			e.junkRows(qpRows(pk2.Value[1]), mods)
			protos[rnd.N(e.np)].GenPublicKey(agg, crps[rnd.N(e.np)], pk2)
			c.Count("finalisations_into_used_key", 1)
			c.Check(eqRows(qpRows(pk2.Value[0]), qpRows(pk.Value[0]), nil) && eqRows(qpRows(pk2.Value[1]), qpRows(pk.Value[1]), nil),
				"C14|"+P+".GenPublicKey|result-depends-on-receiver-history", nil)
		})
	}

	// ---- the key is a public key of the ideal secret: b + a*s = e over QP, |e| <= N*B
	rqp := params.RingQP()
	ph := rqp.NewPoly()
	rqp.MulCoeffsMontgomery(pk.Value[1], e.ideal.Value, ph)
	rqp.Add(ph, pk.Value[0], ph)
	rqp.INTT(ph, ph)
	rqp.IMForm(ph, ph)
	er := centredQP(params, ph, lqMax, lpMax)
	st := obs.Stat(er)
	E := float64(e.np) * e.B
	c.Count("noise_measurements", 1)
	c.Max("max_key_error_over_bound_x1000", int64(1000*f64(st.Max)/E))
	if !c.Check(f64(st.Max) <= E, "C14|"+P+".GenPublicKey|component-not-an-encryption-under-the-ideal-secret", func() string {
		return fmt.Sprintf("|b+a*s|inf=2^%.1f worst-case bound N*B=%.0f parties=%d chain=%s", st.MaxLog2, E, e.np, e.chain)
	}) {
		return
	}
	pl := &pool{}
	pl.add(er)
	// more keys from the same parties (fresh errors) feed the statistical pool
	// (the share buffers are reused: GenShare must overwrite what they held)
	for pl.n < 2048 {
		sum := protos[0].AllocateShare()
		for i := range protos {
			protos[i].GenShare(e.sks[i], crps[i], &shares[i])
			c.Count("share_buffers_reused", 1)
			protos[0].AggregateShares(sum, shares[i], &sum)
		}
		rqp.MulCoeffsMontgomery(crps[0].Value, e.ideal.Value, ph)
		rqp.Add(ph, sum.Value, ph)
		rqp.INTT(ph, ph)
		rqp.IMForm(ph, ph)
		er := centredQP(params, ph, lqMax, lpMax)
		c.Count("noise_measurements", 1)
		if !c.Check(f64(obs.Stat(er).Max) <= E, "C14|"+P+".GenShare|component-not-an-encryption-under-the-ideal-secret", nil) {
			return
		}
		pl.add(er)
	}
	e.checkPool(P+".GenPublicKey", pl)

	// ---- functional: the single-party encryptor with the collective key, decrypted with the ideal secret
	var enc *rlwe.Encryptor
	if !c.Try("C14|rlwe.NewEncryptor(collective-pk)", func() { enc = rlwe.NewEncryptor(params, pk) }) {
		return
	}
	Hs := float64(e.np) * e.H
	levels := []int{lqMax, rnd.N(lqMax + 1), 0}
	for li, level := range levels {
		for _, isNTT := range []bool{true, false} {
			if li > 0 && rnd.Bool() {
				continue
			}
			rq := params.RingQ().AtLevel(level)
			msg := e.randMsg(level)
			pt := rlwe.NewPlaintext(params, level)
			pt.IsNTT = isNTT
			for i := 0; i <= level; i++ {
				copy(pt.Value.Coeffs[i], msg.Coeffs[i])
			}
			if isNTT {
				rq.NTT(pt.Value, pt.Value)
			}
			ct := rlwe.NewCiphertext(params, 1, level)
			ct.IsNTT = isNTT
			var err error
			if !c.Try("C14|Encryptor.Encrypt(collective-pk)", func() { err = enc.Encrypt(pt, ct) }) {
				continue
			}
			if err != nil {
				c.Violate("C14|Encryptor.Encrypt(collective-pk)|error-on-admissible", err.Error(), cf)
				continue
			}
			// u*e_pk + e0 + e1*s, u ~ Xs (l1 <= H), |e_pk| <= N*B, |s|_1 <= N*H
			bound := e.cif*e.H*E + e.B + e.cif*Hs*e.B
			if lpMax >= 0 {
				bound = bound/float64(cf.P[0]) + 1.5*(1+e.cif*Hs)
			}
			e.judge("C14|Encryptor.Encrypt(collective-pk)", ct.El(), e.ideal, msg, bound,
				fmt.Sprintf("cpk/%s/%d/%d/%v", e.chain, e.np, level, isNTT),
				fmt.Sprintf("Q=%v P=%v ring=%s level=%d isNTT=%v", cf.Q, cf.P, cf.Ring, level, isNTT))
		}
	}
}
