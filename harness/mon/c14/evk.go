package c14

import (
	"bufio"
	"bytes"
	"fmt"

	"github.com/tuneinsight/lattigo/v6/core/rlwe"
	"github.com/tuneinsight/lattigo/v6/multiparty"
	"github.com/tuneinsight/lattigo/v6/ring"

	"verif/harness/eng"
	"verif/harness/ref"
)

// gshare represents both share types: for the generic evaluation-key protocol only the embedded
// EvaluationKeyGenShare is used.
type gshare = multiparty.GaloisKeyGenShare

// autModel applies the coefficient-domain automorphism model X -> X^g to msg, row by row.
func (e *env) autModel(msg ring.Poly, g uint64, level int) ring.Poly {
	rq := e.params.RingQ().AtLevel(level)
	want := rq.NewPoly()
	for i := 0; i <= level; i++ {
		q := rq.SubRings[i].Modulus
		var w []uint64
		if e.cf.Ring == "ci" {
			nn := e.n
			u := make([]uint64, 2*nn)
			u[0] = msg.Coeffs[i][0]
			for x := 1; x < nn; x++ {
				u[x] = msg.Coeffs[i][x]
				u[2*nn-x] = ref.NegMod(msg.Coeffs[i][x], q)
			}
			w = ref.Automorphism(u, g, q)[:nn]
		} else {
			w = ref.Automorphism(msg.Coeffs[i], g, q)
		}
		copy(want.Coeffs[i], w)
	}
	return want
}

// galoisElements: all non-trivial ones for ring degree <= 32, sampled above.
func (e *env) galoisElements() []uint64 {
	rnd := e.c.Rand()
	params := e.params
	nth := params.RingQ().NthRoot()
	var gs []uint64
	if e.cf.Ring == "ci" {
		if e.n <= 32 {
			for k := 1; k < e.n; k++ {
				gs = append(gs, ring.ModExp(ring.GaloisGen, uint64(k), nth))
			}
		} else {
			for k := 0; k < 3; k++ {
				gs = append(gs, ring.ModExp(ring.GaloisGen, uint64(1+rnd.N(e.n-1)), nth))
			}
		}
		return gs
	}
	if e.n <= 32 {
		for g := uint64(3); g < nth; g += 2 {
			gs = append(gs, g)
		}
		// a random starting point so that the fully enumerated aggregation plans hit different elements
		k := rnd.N(len(gs))
		return append(gs[k:], gs[:k]...)
	}
	return []uint64{params.GaloisElement(1 + rnd.N(e.n/2-1)), nth - 1, params.GaloisElement(-(1 + rnd.N(e.n/2-1))), (rnd.U64() % nth) | 1}
}

func runEVK(c *eng.Ctx, cf cfg, gal bool) {
	e := newEnv(c, cf)
	if e == nil {
		return
	}
	c.Sample(cf)
	params := e.params
	rnd := c.Rand()
	nth := params.RingQ().NthRoot()
	P, S := "EvaluationKeyGenProtocol", "EvaluationKeyGenShare"
	fin := "GenEvaluationKey"
	if gal {
		P, S = "GaloisKeyGenProtocol", "GaloisKeyGenShare"
		fin = "GenGaloisKey"
	}

	// output secrets of the generic protocol: every party holds a share of another ideal secret
	var skOuts []*rlwe.SecretKey
	idealOut := e.ideal
	if !gal {
		kgen := rlwe.NewKeyGenerator(params)
		for i := 0; i < e.np; i++ {
			skOuts = append(skOuts, kgen.GenSecretKeyNew())
		}
		idealOut = sumSecrets(params, skOuts)
	}

	ep := make([]multiparty.EvaluationKeyGenProtocol, e.np)
	gp := make([]multiparty.GaloisKeyGenProtocol, e.np)
	if !c.Try("C14|New"+P, func() {
		for i := 0; i < e.np; i++ {
			switch {
			case gal && i%2 == 0:
				gp[i] = multiparty.NewGaloisKeyGenProtocol(params)
			case gal:
				gp[i] = gp[0].ShallowCopy()
			case i%2 == 0:
				ep[i] = multiparty.NewEvaluationKeyGenProtocol(params)
			default:
				ep[i] = ep[0].ShallowCopy()
			}
		}
	}) {
		return
	}
	alloc := func(i int, evp ...rlwe.EvaluationKeyParameters) gshare {
		if gal {
			return gp[i].AllocateShare(evp...)
		}
		return gshare{EvaluationKeyGenShare: ep[i].AllocateShare(evp...)}
	}
	sampleCRP := func(i int, crs multiparty.CRS, evp ...rlwe.EvaluationKeyParameters) multiparty.GaloisKeyGenCRP {
		if gal {
			return gp[i].SampleCRP(crs, evp...)
		}
		return multiparty.GaloisKeyGenCRP{EvaluationKeyGenCRP: ep[i].SampleCRP(crs, evp...)}
	}
	genShare := func(i int, g uint64, crp multiparty.GaloisKeyGenCRP, sh *gshare) error {
		if gal {
			return gp[i].GenShare(e.sks[i], g, crp, sh)
		}
		return ep[i].GenShare(e.sks[i], skOuts[i], crp.EvaluationKeyGenCRP, &sh.EvaluationKeyGenShare)
	}
	marshal := func(s gshare) ([]byte, int, error) {
		if gal {
			b, err := s.MarshalBinary()
			return b, s.BinarySize(), err
		}
		b, err := s.EvaluationKeyGenShare.MarshalBinary()
		return b, s.EvaluationKeyGenShare.BinarySize(), err
	}
	unmarshal := func(s *gshare, b []byte) error {
		if gal {
			return s.UnmarshalBinary(b)
		}
		return s.EvaluationKeyGenShare.UnmarshalBinary(b)
	}
	shareRows := func(s gshare) [][]uint64 { return gadgetRows(&s.GadgetCiphertext) }

	pl := &pool{}
	ntrials := 4
	if gal {
		ntrials = 3
	}
	for trial := 0; trial < ntrials; trial++ {
		lq, lp, w := 0, 0, 0
		var evp []rlwe.EvaluationKeyParameters // what the API receives (ext cases: possibly nothing / nil fields)
		if cf.Ext {
			lq, lp, w, evp = e.drawEvkParamsExt(trial)
		} else {
			lq, lp, w = e.drawEvkParams(trial)
			evp = []rlwe.EvaluationKeyParameters{{LevelQ: &lq, LevelP: &lp, BaseTwoDecomposition: &w}}
		}
		nrows := params.BaseRNSDecompositionVectorSize(lq, lp)
		digits := params.BaseTwoDecompositionVectorSize(lq, lp, w)[:nrows]
		uneq := digitsUnequal(digits)
		if uneq {
			c.Count("keys_with_unequal_digit_counts", 1)
		}
		kp := fmt.Sprintf("%s/%d/%d/%d/%d", e.chain, e.np, lq, lp, w)
		desc := fmt.Sprintf("Q=%v P=%v ring=%s parties=%d keyLevelQ=%d keyLevelP=%d w=%d digits=%v", cf.Q, cf.P, cf.Ring, e.np, lq, lp, w, digits)

		galEls := []uint64{0}
		if gal {
			galEls = e.galoisElements()
		}

		// ---- every party reads its own CRS instance: warm-up reads, then one CRP per key, in order
		script := e.drawScript()
		crps := make([][]multiparty.GaloisKeyGenCRP, e.np)
		reads := make([]crpRead, e.np)
		if !c.Try("C14|"+P+".SampleCRP", func() {
			for i := 0; i < e.np; i++ {
				crs := e.newCRS()
				e.warmUp(crs, script, &reads[i])
				for range galEls {
					crp := sampleCRP(i, crs, evp...)
					crps[i] = append(crps[i], crp)
					reads[i].addMat(params, crp.Value)
				}
			}
		}) {
			continue
		}
		var rr [][][]uint64
		for i := range reads {
			rr = append(rr, reads[i].rows)
		}
		e.checkCRP(P, rr, reads[0].mods)
		c.Try("C14|"+P+".SampleCRP", func() {
			o := sampleCRP(0, e.otherCRS(), evp...)
			c.Check(!eqRows(matRows(o.Value), matRows(crps[0][0].Value), nil), "C14|"+P+".SampleCRP|crs-content-ignored", nil)
		})
		if len(galEls) > 1 {
			c.Check(!eqRows(matRows(crps[0][0].Value), matRows(crps[0][1].Value), nil), "C14|"+P+".SampleCRP|same-crp-twice", nil)
		}
		if cf.Ext {
			// a party that rewinds its CRS (KeyedPRNG.Reset) and replays the call sequence obtains the same polynomials
			c.Try("C14|"+P+".SampleCRP", func() {
				crs := e.newCRS()
				var rd [2]crpRead
				for k := range rd {
					e.warmUp(crs, script, &rd[k])
					for range galEls {
						rd[k].addMat(params, sampleCRP(0, crs, evp...).Value)
					}
					crs.Reset()
				}
				c.Count("crs_rewinds", 1)
				c.Check(eqRows(rd[0].rows, rd[1].rows, nil) && eqRows(rd[0].rows, reads[0].rows, nil), "C14|"+P+".SampleCRP|crs-rewind-does-not-replay", nil)
			})
		}

		// share buffers are allocated once per trial and reused (still holding the previous share) for the
		// following Galois elements, as a party regenerating keys would do
		shares := make([]gshare, e.np)
		for gi, g := range galEls {
			// ---- shares
			var gerr error
			panicked, pv := eng.Panics(func() {
				for i := 0; i < e.np && gerr == nil; i++ {
					if gi == 0 || i%3 == 2 {
						shares[i] = alloc(i, evp...)
						if cf.Ext && i%2 == 1 {
							// a receiver that held something else before: GenShare must overwrite it
							e.junkGadget(&shares[i].GadgetCiphertext)
							if gal {
								shares[i].GaloisElement = 0xdead
							}
							c.Count("share_buffers_dirty", 1)
						}
					} else {
						c.Count("share_buffers_reused", 1)
					}
					gerr = genShare(i, g, crps[i][gi], &shares[i])
				}
			})
			c.Eval(1)
			if panicked {
				if gal && lp == -1 {
					c.Violate("C14|"+P+".GenShare|panic|no-auxiliary-modulus", fmt.Sprintf("%s galEl=%d: %v", desc, g, pv), cf)
				} else {
					c.Violate("C14|"+P+".GenShare|panic", fmt.Sprintf("%s galEl=%d: %v", desc, g, pv), cf)
				}
				break
			}
			if gerr != nil {
				c.Violate("C14|"+P+".GenShare|error-on-admissible", gerr.Error()+" "+desc, cf)
				break
			}
			if gal {
				okg := true
				for i := range shares {
					okg = okg && shares[i].GaloisElement == g
				}
				c.Check(okg, "C14|"+P+".GenShare|galois-element-not-recorded", nil)
			}
			blobs := make([][]byte, e.np)
			serOK := c.Try("C14|"+S+".MarshalBinary", func() {
				for i := range shares {
					b, size, err := marshal(shares[i])
					if err != nil {
						panic(err)
					}
					var back gshare
					if err := unmarshal(&back, b); err != nil {
						panic(err)
					}
					blobs[i] = b
					c.Count("shares_serialised", 1)
					c.Count("serialised_bytes", int64(len(b)))
					c.Check(len(b) == size && eqRows(shareRows(back), shareRows(shares[i]), nil) && back.GaloisElement == shares[i].GaloisElement && back.BaseTwoDecomposition == w,
						"C14|"+S+".UnmarshalBinary|share-changed-by-serialisation", func() string {
							return fmt.Sprintf("%s: len=%d BinarySize=%d rows-equal=%v galEl %d/%d BaseTwo %d/%d", desc, len(b), size, eqRows(shareRows(back), shareRows(shares[i]), nil), back.GaloisElement, shares[i].GaloisElement, back.BaseTwoDecomposition, w)
						})
				}
			})
			if !serOK {
				break
			}
			// ext: the shares also travel through the io.WriterTo / io.ReaderFrom interfaces (alone through plain
			// io.Writer / io.Reader, and back to back with the other parties' shares through one buffered stream)
			var stream []byte
			var off []int
			if cf.Ext {
				same := func(a, b gshare) bool {
					return eqRows(shareRows(a), shareRows(b), nil) && a.GaloisElement == b.GaloisElement && a.BaseTwoDecomposition == b.BaseTwoDecomposition
				}
				var wok bool
				if gal {
					stream, off, wok = wireTrip[gshare](c, S, shares, blobs, same)
				} else {
					es := make([]multiparty.EvaluationKeyGenShare, len(shares))
					for i := range shares {
						es[i] = shares[i].EvaluationKeyGenShare
					}
					stream, off, wok = wireTrip[multiparty.EvaluationKeyGenShare](c, S, es, blobs, func(a, b multiparty.EvaluationKeyGenShare) bool {
						return same(gshare{EvaluationKeyGenShare: a}, gshare{EvaluationKeyGenShare: b})
					})
				}
				if !wok {
					break
				}
			}
			fromStream := func(i int, s *gshare) error {
				rd := bufio.NewReader(bytes.NewReader(stream[off[i]:]))
				var err error
				if gal {
					_, err = s.ReadFrom(rd)
				} else {
					_, err = s.EvaluationKeyGenShare.ReadFrom(rd)
				}
				return err
			}
			o := &ops[gshare]{proto: P, key: kp + fmt.Sprintf("/g%d", g), n: e.np, mods: gadgetMods(params, &shares[0].GadgetCiphertext),
				leaf: func(i int, ser bool) gshare {
					if ser && cf.Ext {
						// receive buffer: zero value / right shape / allocated for other evaluation-key parameters (and dirty)
						var s gshare
						switch rnd.N(3) {
						case 1:
							s = alloc(0, evp...)
						case 2:
							s = alloc(0, e.otherEvp())
							e.junkGadget(&s.GadgetCiphertext)
							c.Count("receive_buffers_of_other_shape", 1)
						}
						var err error
						if rnd.Bool() {
							err = unmarshal(&s, blobs[i])
						} else {
							c.Count("leaves_from_common_stream", 1)
							err = fromStream(i, &s)
						}
						if err != nil {
							panic(err)
						}
						return s
					}
					if ser {
						var s gshare
						if rnd.Bool() {
							s = alloc(0, evp...)
						}
						if err := unmarshal(&s, blobs[i]); err != nil {
							panic(err)
						}
						return s
					}
					s := alloc(0, evp...)
					copyRows(shareRows(s), shareRows(shares[i]))
					s.GaloisElement = shares[i].GaloisElement
					return s
				},
				alloc: func() gshare { return alloc(rnd.N(e.np), evp...) },
				add: func(a, b gshare, out *gshare) error {
					k := rnd.N(e.np)
					if gal {
						return gp[k].AggregateShares(a, b, out)
					}
					return ep[k].AggregateShares(a.EvaluationKeyGenShare, b.EvaluationKeyGenShare, &out.EvaluationKeyGenShare)
				},
				rows: shareRows,
			}
			agg, ok := aggregateAll(e, o, plans(rnd, e.np, c.Tier, gi == 0))
			if !ok {
				break
			}
			if gal {
				c.Check(agg.GaloisElement == g, "C14|"+P+".AggregateShares|galois-element-lost", nil)
			}

			// ---- harness-side finalisation: (aggregate, crp) as a gadget key
			want := rlwe.NewEvaluationKey(params, evp...)
			crp0 := crps[0][gi].Value
			shapeOK := len(want.Value) == len(agg.Value) && len(crp0) == len(agg.Value)
			for i := 0; shapeOK && i < len(want.Value); i++ {
				shapeOK = len(want.Value[i]) == len(agg.Value[i]) && len(crp0[i]) == len(agg.Value[i])
			}
			if !c.Check(shapeOK, "C14|"+P+".AllocateShare|share-crp-key-shapes-differ", func() string { return desc }) {
				break
			}
			for i := range want.Value {
				for j := range want.Value[i] {
					copyRows(qpRows(want.Value[i][j][0]), qpRows(agg.Value[i][j][0]))
					copyRows(qpRows(want.Value[i][j][1]), qpRows(crp0[i][j]))
				}
			}
			// ---- the aggregate is a gadget encryption under the ideal secrets
			sOut := idealOut.Value
			if gal {
				galInv := params.ModInvGaloisElement(g)
				idx, err := ring.AutomorphismNTTIndex(e.n, nth, galInv)
				if err != nil {
					c.Inconclusive("AutomorphismNTTIndex: " + err.Error())
					break
				}
				sOut = params.RingQP().NewPoly()
				params.RingQ().AutomorphismNTTWithIndex(e.ideal.Value.Q, idx, sOut.Q)
				if params.MaxLevelP() >= 0 {
					params.RingP().AutomorphismNTTWithIndex(e.ideal.Value.P, idx, sOut.P)
				}
			}
			E := float64(e.np) * e.B
			if !e.checkGadgetKey("C14|"+P+".GenShare", &want.GadgetCiphertext, sOut, e.ideal.Value.Q, lq, lp, w, E, pl, desc+fmt.Sprintf(" galEl=%d", g)) {
				break
			}

			// ---- library finalisation
			var evk *rlwe.EvaluationKey
			var gk *rlwe.GaloisKey
			var ferr error
			crpFin := crps[rnd.N(e.np)][gi]
			panicked, pv = eng.Panics(func() {
				if gal {
					gk = rlwe.NewGaloisKey(params, evp...)
					ferr = gp[rnd.N(e.np)].GenGaloisKey(agg, crpFin, gk)
					evk = &gk.EvaluationKey
				} else {
					evk = rlwe.NewEvaluationKey(params, evp...)
					ferr = ep[rnd.N(e.np)].GenEvaluationKey(agg.EvaluationKeyGenShare, crpFin.EvaluationKeyGenCRP, evk)
				}
			})
			c.Eval(1)
			good := !panicked && ferr == nil && eqRows(gadgetRows(&evk.GadgetCiphertext), gadgetRows(&want.GadgetCiphertext), o.modsKey(params, want))
			if !good {
				what := "key differs from (aggregate, crp)"
				if panicked {
					what = fmt.Sprintf("panic: %v", pv)
				} else if ferr != nil {
					what = "error: " + ferr.Error()
				}
				sig := "C14|" + P + "." + fin + "|wrong-key-or-panic"
				if uneq {
					sig += "|unequal-digit-counts"
				}
				c.Violate(sig, what+"; "+desc, cf)
				// continue with the harness-finalised key so that the shares are still judged functionally
				evk = want
				gk = &rlwe.GaloisKey{GaloisElement: g, NthRoot: nth, EvaluationKey: *want}
			} else if gal {
				c.Check(gk.GaloisElement == g && gk.NthRoot == nth, "C14|"+P+"."+fin+"|metadata", func() string {
					return fmt.Sprintf("GaloisElement=%d want %d NthRoot=%d want %d", gk.GaloisElement, g, gk.NthRoot, nth)
				})
			}
			if good {
				c.Count("finalised_keys_checked_for_shared_storage", 1)
				c.Check(!sharesStorage(gadgetRows(&evk.GadgetCiphertext), append(shareRows(agg), matRows(crpFin.Value)...)), "C14|"+P+"."+fin+"|key-shares-storage-with-share-or-crp", nil)
			}
			if good && cf.Ext {
				// a key object that held another key before must end up identical to the fresh one
				c.Try("C14|"+P+"."+fin, func() {
					var err error
					var got *rlwe.EvaluationKey
					meta := true
					if gal {
						gk2 := rlwe.NewGaloisKey(params, evp...)
						e.junkGadget(&gk2.GadgetCiphertext)
						gk2.GaloisElement, gk2.NthRoot = g+2, 7
						err = gp[rnd.N(e.np)].GenGaloisKey(agg, crpFin, gk2)
						got, meta = &gk2.EvaluationKey, gk2.GaloisElement == g && gk2.NthRoot == nth
					} else {
						got = rlwe.NewEvaluationKey(params, evp...)
						e.junkGadget(&got.GadgetCiphertext)
						err = ep[rnd.N(e.np)].GenEvaluationKey(agg.EvaluationKeyGenShare, crpFin.EvaluationKeyGenCRP, got)
					}
					c.Count("finalisations_into_used_key", 1)
					c.Check(err == nil && meta && got.BaseTwoDecomposition == w && eqRows(gadgetRows(&got.GadgetCiphertext), gadgetRows(&evk.GadgetCiphertext), nil),
						"C14|"+P+"."+fin+"|result-depends-on-receiver-history", func() string { return fmt.Sprintf("err=%v; %s", err, desc) })
				})
			}

			// ---- functional use by the single-party evaluator
			nuse := 2
			if gi > 0 {
				nuse = 1
			}
			for u := 0; u < nuse; u++ {
				level := rnd.N(lq + 1)
				if u == 0 {
					level = lq
				}
				isNTT := rnd.Bool()
				ksb := e.ksBound(level, lp, w, E, float64(e.np)*e.H)
				msg := e.randMsg(level)
				d := desc + fmt.Sprintf(" ctLevel=%d isNTT=%v galEl=%d", level, isNTT, g)
				var ct *rlwe.Ciphertext
				if !c.Try("C14|Encryptor.Encrypt(ideal-sk)", func() { ct = e.freshCt(e.ideal, msg, level, isNTT) }) {
					break
				}
				out := rlwe.NewCiphertext(params, 1, level)
				var aerr error
				if gal {
					evalG := rlwe.NewEvaluator(params, rlwe.NewMemEvaluationKeySet(nil, gk))
					if c.Try("C14|Evaluator.Automorphism(collective-key)", func() { aerr = evalG.Automorphism(ct, g, out) }) {
						if aerr != nil {
							c.Violate("C14|Evaluator.Automorphism(collective-key)|error-on-admissible", aerr.Error()+" "+d, cf)
						} else {
							e.judge("C14|Evaluator.Automorphism(collective-key)", out.El(), e.ideal, e.autModel(msg, g, level), e.B+ksb,
								fmt.Sprintf("gal/%s/%d/%v/g%d", kp, level, isNTT, g), d)
						}
					}
				} else {
					eval := rlwe.NewEvaluator(params, nil)
					if c.Try("C14|Evaluator.ApplyEvaluationKey(collective-key)", func() { aerr = eval.ApplyEvaluationKey(ct, evk, out) }) {
						if aerr != nil {
							c.Violate("C14|Evaluator.ApplyEvaluationKey(collective-key)|error-on-admissible", aerr.Error()+" "+d, cf)
						} else {
							e.judge("C14|Evaluator.ApplyEvaluationKey(collective-key)", out.El(), idealOut, msg, e.B+ksb,
								fmt.Sprintf("evk/%s/%d/%v", kp, level, isNTT), d)
						}
					}
				}
			}
		}
	}
	e.checkPool(P+".GenShare", pl)
}

// modsKey returns the modulus of every row of a finalised key (same layout as gadgetRows).
func (o *ops[T]) modsKey(params rlwe.Parameters, k *rlwe.EvaluationKey) []uint64 {
	return gadgetMods(params, &k.GadgetCiphertext)
}
