// Package c14: collective keys are keys of the ideal secret, whatever the share order.
//
// Oracle. The harness plays every party and therefore holds every secret share; the ideal secret
// s = sum s_i is computed by the harness itself (exact modular additions, not the library's).
//
//   - aggregation: the exact sum of the shares is computed row by row with ref.AddMod; every
//     aggregate the protocol returns (all permutations x all binary tree shapes for small party
//     counts, sampled above; shares taken from memory or rebuilt from their serialisation; output
//     aliased to either input or fresh) must equal it modulo every prime.
//   - common reference string: every party owns its own KeyedPRNG instance (same key) and replays
//     the same sequence of SampleCRP calls; all parties must obtain identical polynomials, each
//     party generates its share from its own copy.
//   - key = key of the ideal secret: every component (b, a) of the final key must satisfy
//     b + a*s_out - payload = e over QP with |e|inf below the worst-case bound of the protocol
//     (N*B for pk / evk / Galois keys, the documented s*e0+u*e1+e2 form for the relinearisation key),
//     and the key is then used by the ordinary single-party Encryptor / Evaluator; the phase of the
//     result under the ideal secret minus the exactly transformed plaintext must stay below the
//     single-party worst-case bound with the key error scaled accordingly.
//   - mismatched shares (Galois element, level, decomposition) must be refused with an error.
package c14

import (
	"fmt"
	"math"
	"math/big"
	"unsafe"

	"github.com/tuneinsight/lattigo/v6/core/rlwe"
	"github.com/tuneinsight/lattigo/v6/ring"
	"github.com/tuneinsight/lattigo/v6/ring/ringqp"
	"github.com/tuneinsight/lattigo/v6/utils/sampling"

	"verif/harness/eng"
	"verif/harness/gen"
	"verif/harness/obs"
	"verif/harness/ref"
)

type cfg struct {
	Kind    string   `json:"kind"`
	Parties int      `json:"parties"`
	LogN    int      `json:"logN"`
	Q       []uint64 `json:"q"`
	P       []uint64 `json:"p"`
	QBits   []int    `json:"qbits"`
	PBits   []int    `json:"pbits"`
	Ring    string   `json:"ring"`
	Xs      string   `json:"xs"`
	Xe      string   `json:"xe,omitempty"`  // "" = library default (sigma 3.2, bound 19.2)
	Ext     bool     `json:"ext,omitempty"` // coverage-audit extension (see ext.go)
}

func (c cfg) params() (rlwe.Parameters, error) {
	rt := ring.Standard
	if c.Ring == "ci" {
		rt = ring.ConjugateInvariant
	}
	var xs ring.DistributionParameters = ring.Ternary{P: 0.5}
	switch c.Xs {
	case "h8":
		xs = ring.Ternary{H: 8}
	case "hN":
		xs = ring.Ternary{H: 1 << c.LogN}
	case "gauss":
		xs = ring.DiscreteGaussian{Sigma: 3.2, Bound: 19.2}
	}
	lit := rlwe.ParametersLiteral{LogN: c.LogN, Q: c.Q, P: c.P, Xs: xs, RingType: rt, NTTFlag: true}
	if xe := c.xe(); xe != nil {
		lit.Xe = xe
	}
	return rlwe.NewParametersFromLiteral(lit)
}

func (c cfg) chain() string {
	s := fmt.Sprintf("%s/%d/%v/%v/%s", c.Ring, c.LogN, c.QBits, c.PBits, c.Xs)
	if c.Xe != "" {
		s += "/" + c.Xe
	}
	if c.Ext {
		s += "/x"
	}
	return s
}

var kinds = []string{"cpk", "evk", "gal", "rlk"}

func cases(tier string, seed int64) []eng.Case {
	r := eng.NewRand("c14-cases", seed)
	var out []eng.Case
	nsets, nrej := 88, 24
	logNs := []int{4, 4, 5, 5, 6}
	if tier == "thorough" {
		nsets, nrej = 640, 120
		logNs = []int{4, 4, 5, 5, 6, 6, 7, 8}
	}
	mk := func(i int, reject bool) (cfg, bool) {
		c := cfg{Ring: eng.Pick(r, "std", "std", "std", "ci"), Xs: eng.Pick(r, "p0.5", "p0.5", "h8", "hN", "gauss"), LogN: eng.Pick(r, logNs...)}
		nq := 1 + r.N(5)
		np := r.N(3)
		if reject {
			nq = 2 + r.N(3)
			np = i % 3
			c.LogN = 4
		}
		// a chain either of similar sizes or deliberately unequal (rows with different digit counts)
		unequal := r.N(3) != 0
		base := eng.Pick(r, 36, 45, 50, 55, 58, 60)
		for j := 0; j < nq; j++ {
			if unequal {
				c.QBits = append(c.QBits, eng.Pick(r, 30, 36, 45, 50, 55, 58, 60))
			} else {
				c.QBits = append(c.QBits, base)
			}
		}
		for j := 0; j < np; j++ {
			c.PBits = append(c.PBits, eng.Pick(r, 45, 55, 60, 61))
		}
		nth := uint64(2) << c.LogN
		if c.Ring == "ci" {
			nth <<= 1
		}
		c.Q, c.P = gen.Chain(r, nth, c.QBits, c.PBits)
		c.Parties = 1 + i%8
		return c, c.Q != nil
	}
	for i := 0; i < nsets; i++ {
		c, ok := mk(i, false)
		if !ok {
			continue
		}
		for _, k := range kinds {
			cc := c
			cc.Kind = k
			id := fmt.Sprintf("%s/%d/n%d/%s/logN%d/q%v/p%v/%s", k, i, cc.Parties, cc.Ring, cc.LogN, cc.QBits, cc.PBits, cc.Xs)
			var run func(x *eng.Ctx)
			switch k {
			case "cpk":
				run = func(x *eng.Ctx) { runCPK(x, cc) }
			case "evk":
				run = func(x *eng.Ctx) { runEVK(x, cc, false) }
			case "gal":
				run = func(x *eng.Ctx) { runEVK(x, cc, true) }
			case "rlk":
				run = func(x *eng.Ctx) { runRLK(x, cc) }
			}
			out = append(out, eng.Case{ID: id, Sig: "C14|" + k, Desc: cc, Run: run})
		}
	}
	for i := 0; i < nrej; i++ {
		c, ok := mk(i, true)
		if !ok {
			continue
		}
		cc := c
		cc.Kind = "reject"
		cc.Parties = 2
		id := fmt.Sprintf("reject/%d/%s/q%v/p%v", i, cc.Ring, cc.QBits, cc.PBits)
		out = append(out, eng.Case{ID: id, Sig: "C14|reject", Desc: cc, Run: func(x *eng.Ctx) { runReject(x, cc) }})
	}
	return append(out, extCases(tier, seed)...)
}

func init() {
	eng.Register(&eng.Monitor{
		ID: "C14", Level: "exploration",
		Rule:  "cases = (protocol in {cpk, evk, gal, rlk}) x rlwe parameter set (ring type, logN 4..6 (..8 thorough), 1..5 Q primes of equal or deliberately unequal sizes 30..60 bits, 0..2 P primes, secret distribution) x party count 1..8 (cycled so that every count occurs); inside a case evaluation-key parameters (LevelQ, LevelP, BaseTwoDecomposition 0 or 1..30) are drawn, every party (fresh or ShallowCopy-ed protocol instance) reads its own CRS instance with a common call sequence, generates its share(s) (into fresh or re-used share buffers), and the shares are aggregated under ALL permutations x ALL binary tree shapes for N<=4, all 14 shapes x 4 permutations (all 120 in the thorough tier) for N=5, 14 (50 thorough) sampled (permutation, shape) pairs above, leaves taken at random from memory or from a serialisation round trip, output aliased at random; each aggregate is compared with the harness' exact sum; the final key is checked component-wise against the ideal secret and then used by the single-party encryptor/evaluator (all Galois elements for ring degree <= 32, sampled above; both rounds of the rlk protocol); 'reject' cases feed AggregateShares / Gen*Key with mismatched Galois element, LevelQ, LevelP, BaseTwoDecomposition. distinct keys: agg/(protocol, round, chain, N, lq, lp, w, Galois element, permutation, shape) — non-trivial iff N>=2 and the plan is not the index-order left fold on in-memory shares (the only plan the stock test runs); use/(protocol, chain, N, lq, lp, w, ct level, NTT flag, Galois element) — non-trivial iff N>=2 and the worst-case bound is below Q_level/8 (so a wrong key shows as a bound violation); reject/(protocol, kind, placement) — always non-trivial. Coverage-audit extension: 'x/' cases run the same four drivers on parameter sets the base generator does not draw (8..10 Q with 3..4 P primes, more P than Q primes, 60/61-bit next to 30-bit primes, a single modulus, conjugate-invariant ring with Gaussian secret, error distributions: Gaussian cut at 2 sigma / 1.5 sigma, sigma 40, ternary, fixed-weight ternary; 1..4 parties when the error distribution is non-default) with evaluation-key parameters at the edges of the API (no EvaluationKeyParameters / nil fields, LevelP=-1 under parameters with P, BaseTwoDecomposition>0 with LevelP>0, LevelQ=0), share buffers / ephemeral keys / final key objects that held other data before, shares travelling through WriteTo/ReadFrom (alone through plain io.Writer/io.Reader and back to back through one buffered stream) into receive buffers of zero, equal or other shape, and a CRS that is rewound with Reset and replayed (their distinct keys carry the suffix /x in the chain); 'xreject/' cases extend the refusal clause to share-vs-key decomposition at finalisation, share-vs-too-small-CRP in GenShare and finalisation, round two and finalisation of the relinearisation protocol, and to the receiver (polynomials and Galois tag) being left intact by a refused call, each with positive controls.",
		Cases: cases,
		Assumptions: []string{
			"worst-case bounds: |e_key|inf <= N*B for collective pk/evk/Galois keys; <= 2*c*(N*H)*(N*B)+N*B for the collective relinearisation key (the documented noise form s*e0+u*e1+e2; c=2 in the conjugate-invariant ring); B=floor(bound(Xe)+1/2), H=worst-case l1 norm of one secret; key-switch bound as in C04 with B replaced by the key error and |s|_1 by N*H",
			"the ring arithmetic used to evaluate phases is the one judged by C01; the exact share sums and the CRT lifts are harness-side (uint64/math/big)",
			"moduli inside the documented sizes (Q primes <= 60 bits, P primes <= 61 bits as used by shipped parameter sets)",
			"statistical checks: pooled key error std within [1/2,2] of sqrt(N)*sigma on >= 2048 coefficients; CRP mean within 6 standard errors of 1/2",
			"x/ cases with a non-default error distribution: one sample of a Gaussian Xe never exceeds floor(bound+1/2) and one sample of a ternary Xe never exceeds 1 in absolute value (judged by C17), so B is 6 / 12 / 240 / 1 there; the statistical pool check is skipped for sigma < 3",
			"xreject/: a reference-polynomial matrix LARGER than the share (more moduli / digits, of which every party uses the same prefix) is not demanded to be refused; only one that is too small for the share is",
		},
	})
}

// ---------------------------------------------------------------------------------------------
// environment

type env struct {
	c      *eng.Ctx
	cf     cfg
	params rlwe.Parameters
	n, np  int
	B, H   float64 // single sample error bound; worst-case l1 norm of ONE secret
	sigma  float64
	cif    float64
	sks    []*rlwe.SecretKey
	ideal  *rlwe.SecretKey
	crsKey []byte
	chain  string
}

func newEnv(c *eng.Ctx, cf cfg) *env {
	params, err := cf.params()
	if err != nil {
		c.Violate("C14|rlwe.NewParametersFromLiteral|error-on-admissible", err.Error(), cf)
		return nil
	}
	e := &env{c: c, cf: cf, params: params, n: params.N(), np: cf.Parties, chain: cf.chain()}
	e.B, e.sigma = obs.ErrBound(params)
	_, e.H = obs.SecretBound(params)
	e.cif = 1
	if cf.Ring == "ci" {
		e.cif = 2
	}
	kgen := rlwe.NewKeyGenerator(params)
	for i := 0; i < e.np; i++ {
		e.sks = append(e.sks, kgen.GenSecretKeyNew())
	}
	e.ideal = sumSecrets(params, e.sks)
	e.crsKey = make([]byte, 16)
	for i := range e.crsKey {
		e.crsKey[i] = byte(c.Rand().U64())
	}
	return e
}

// sumSecrets returns the ideal secret sum_i sk_i (NTT + Montgomery form is linear), computed with
// the harness' own modular additions.
func sumSecrets(params rlwe.Parameters, sks []*rlwe.SecretKey) *rlwe.SecretKey {
	out := rlwe.NewSecretKey(params)
	dst := qpRows(out.Value)
	mods := qpMods(params, params.MaxLevelQ(), params.MaxLevelP())
	for _, sk := range sks {
		addRows(dst, qpRows(sk.Value), mods)
	}
	return out
}

func (e *env) newCRS() *sampling.KeyedPRNG {
	p, err := sampling.NewKeyedPRNG(e.crsKey)
	if err != nil {
		panic(err)
	}
	return p
}

// ---------------------------------------------------------------------------------------------
// rows

func qpRows(p ringqp.Poly) [][]uint64 {
	var r [][]uint64
	r = append(r, p.Q.Coeffs...)
	r = append(r, p.P.Coeffs...)
	return r
}

func qpMods(params rlwe.Parameters, lq, lp int) []uint64 {
	m := append([]uint64{}, params.Q()[:lq+1]...)
	if lp >= 0 {
		m = append(m, params.P()[:lp+1]...)
	}
	return m
}

func gadgetRows(g *rlwe.GadgetCiphertext) [][]uint64 {
	var r [][]uint64
	for i := range g.Value {
		for j := range g.Value[i] {
			for k := range g.Value[i][j] {
				r = append(r, qpRows(g.Value[i][j][k])...)
			}
		}
	}
	return r
}

func gadgetMods(params rlwe.Parameters, g *rlwe.GadgetCiphertext) []uint64 {
	var m []uint64
	for i := range g.Value {
		for j := range g.Value[i] {
			for k := range g.Value[i][j] {
				m = append(m, qpMods(params, g.Value[i][j][k].LevelQ(), g.Value[i][j][k].LevelP())...)
			}
		}
	}
	return m
}

func matRows(m [][]ringqp.Poly) [][]uint64 {
	var r [][]uint64
	for i := range m {
		for j := range m[i] {
			r = append(r, qpRows(m[i][j])...)
		}
	}
	return r
}

// sharesStorage reports whether a row of a and a row of b overlap in memory: a finalised key is an
// object of its own, the aggregator's share and CRP buffers are written again in the next epoch.
func sharesStorage(a, b [][]uint64) bool {
	for _, x := range a {
		if len(x) == 0 {
			continue
		}
		x0 := uintptr(unsafe.Pointer(&x[0]))
		x1 := x0 + uintptr(8*len(x))
		for _, y := range b {
			if len(y) == 0 {
				continue
			}
			y0 := uintptr(unsafe.Pointer(&y[0]))
			y1 := y0 + uintptr(8*len(y))
			if x0 < y1 && y0 < x1 {
				return true
			}
		}
	}
	return false
}

// addRows: dst += src (mod mods), exact.
func addRows(dst, src [][]uint64, mods []uint64) {
	for i := range dst {
		q := mods[i]
		for x := range dst[i] {
			dst[i][x] = ref.AddMod(dst[i][x]%q, src[i][x]%q, q)
		}
	}
}

func cloneRows(src [][]uint64) [][]uint64 {
	out := make([][]uint64, len(src))
	for i := range src {
		out[i] = append([]uint64(nil), src[i]...)
	}
	return out
}

func copyRows(dst, src [][]uint64) bool {
	if len(dst) != len(src) {
		return false
	}
	for i := range dst {
		if len(dst[i]) != len(src[i]) {
			return false
		}
		copy(dst[i], src[i])
	}
	return true
}

// eqRows compares two row sets; with mods != nil modulo each prime, otherwise bit-wise.
func eqRows(a, b [][]uint64, mods []uint64) bool {
	if len(a) != len(b) {
		return false
	}
	for i := range a {
		if len(a[i]) != len(b[i]) {
			return false
		}
		for x := range a[i] {
			if mods != nil {
				if a[i][x]%mods[i] != b[i][x]%mods[i] {
					return false
				}
			} else if a[i][x] != b[i][x] {
				return false
			}
		}
	}
	return true
}

// nonCanonical counts coefficients >= their modulus.
func nonCanonical(a [][]uint64, mods []uint64) (n int64) {
	for i := range a {
		for _, v := range a[i] {
			if v >= mods[i] {
				n++
			}
		}
	}
	return
}

// ---------------------------------------------------------------------------------------------
// CRS

// checkCRP judges the reference polynomials the parties obtained from their own CRS instance.
func (e *env) checkCRP(proto string, rows [][][]uint64, mods []uint64) {
	c := e.c
	for i := 1; i < len(rows); i++ {
		c.Check(eqRows(rows[i], rows[0], nil), "C14|"+proto+".SampleCRP|parties-obtain-different-crp", func() string {
			return fmt.Sprintf("party %d and party 0 read the same CRS (same key, same call sequence) and obtained different polynomials; chain=%s", i, e.chain)
		})
	}
	var sum float64
	var cnt int
	inRange := true
	for i, row := range rows[0] {
		q := mods[i]
		for _, v := range row {
			if v >= q {
				inRange = false
			}
			sum += float64(v) / float64(q)
			cnt++
		}
	}
	c.Check(inRange, "C14|"+proto+".SampleCRP|coefficient-not-below-modulus", nil)
	c.Count("crp_polynomial_rows", int64(len(rows[0])))
	if cnt >= 256 {
		mean := sum / float64(cnt)
		c.Check(math.Abs(mean-0.5) <= 6*math.Sqrt(1.0/12/float64(cnt)), "C14|"+proto+".SampleCRP|not-uniform", func() string {
			return fmt.Sprintf("mean(crp/q)=%.4f over %d coefficients", mean, cnt)
		})
	}
}

// ---------------------------------------------------------------------------------------------
// noise helpers

func f64(x *big.Int) float64 { f, _ := new(big.Float).SetInt(x).Float64(); return f }

func centredQP(params rlwe.Parameters, p ringqp.Poly, lq, lp int) []*big.Int {
	mods := qpMods(params, lq, lp)
	crt := ref.NewCRT(mods)
	n := params.N()
	out := make([]*big.Int, n)
	col := make([]uint64, len(mods))
	rows := qpRows(p)
	for j := 0; j < n; j++ {
		for i := range mods {
			col[i] = rows[i][j]
		}
		out[j] = crt.Centered(col)
	}
	return out
}

type pool struct {
	sum, sum2 float64
	n         int
	nonzero   int
}

func (p *pool) add(v []*big.Int) {
	for _, x := range v {
		f := f64(x)
		p.sum += f
		p.sum2 += f * f
		p.n++
		if x.Sign() != 0 {
			p.nonzero++
		}
	}
}

func (p *pool) std() float64 {
	if p.n == 0 {
		return 0
	}
	m := p.sum / float64(p.n)
	return math.Sqrt(math.Max(0, p.sum2/float64(p.n)-m*m))
}

// checkPool: the error of a collective pk/evk/Galois key is a sum of N independent samples of Xe.
func (e *env) checkPool(name string, p *pool) {
	if p.n == 0 || e.sigma < 3 {
		return
	}
	e.c.Check(p.nonzero > 0, "C14|"+name+"|key-carries-no-error", func() string {
		return fmt.Sprintf("%d key coefficients, all error terms are zero", p.n)
	})
	if p.n < 2048 {
		return
	}
	nominal := math.Sqrt(float64(e.np)) * e.sigma
	s := p.std()
	e.c.Count("stat_pools_checked", 1)
	e.c.Check(s >= nominal/2 && s <= 2*nominal, "C14|"+name+"|key-error-std-outside-[nominal/2,2*nominal]", func() string {
		return fmt.Sprintf("pooled coefficients=%d empirical std=%.3f nominal sqrt(N)*sigma=%.3f parties=%d", p.n, s, nominal, e.np)
	})
}

// gadgetErr returns the centred error of one gadget component: b + a*sOut - P*2^(j*w)*sIn (on the
// Q rows of digit group i). b, a, sOut, sIn are NTT + Montgomery.
func (e *env) gadgetErr(b, a ringqp.Poly, sOut ringqp.Poly, sIn ring.Poly, i, j, lq, lp, w int) []*big.Int {
	params := e.params
	r := params.RingQP().AtLevel(lq, lp)
	ph := r.NewPoly()
	r.MulCoeffsMontgomery(a, sOut, ph)
	r.Add(ph, b, ph)
	nbPi := lp + 1
	if nbPi == 0 {
		nbPi = 1
	}
	Pbig := big.NewInt(1)
	if lp >= 0 {
		Pbig = params.RingP().ModulusAtLevel[lp]
	}
	scal := new(big.Int).Lsh(Pbig, uint(j*w))
	for k := 0; k < nbPi; k++ {
		row := i*nbPi + k
		if row > lq {
			break
		}
		q := params.Q()[row]
		sc := ref.ModU(scal, q)
		for x := 0; x < e.n; x++ {
			ph.Q.Coeffs[row][x] = ref.SubMod(ph.Q.Coeffs[row][x]%q, ref.MulMod(sIn.Coeffs[row][x], sc, q), q)
		}
	}
	r.INTT(ph, ph)
	r.IMForm(ph, ph)
	return centredQP(params, ph, lq, lp)
}

// checkGadgetKey judges every component of a gadget key against (sIn, sOut) with bound E.
func (e *env) checkGadgetKey(sig string, g *rlwe.GadgetCiphertext, sOut ringqp.Poly, sIn ring.Poly, lq, lp, w int, E float64, pl *pool, detail string) bool {
	c := e.c
	for i := range g.Value {
		for j := range g.Value[i] {
			el := g.Value[i][j]
			er := e.gadgetErr(el[0], el[1], sOut, sIn, i, j, lq, lp, w)
			st := obs.Stat(er)
			c.Count("noise_measurements", 1)
			c.Eval(1)
			if f64(st.Max) > E {
				c.Violate(sig+"|component-not-an-encryption-under-the-ideal-secret", fmt.Sprintf("%s row=%d digit=%d: |b+a*s_out-P*2^(jw)*s_in|inf=2^%.1f, worst-case bound %.0f (parties=%d)", detail, i, j, st.MaxLog2, E, e.np), e.cf)
				return false
			}
			c.Max("max_key_error_over_bound_x1000", int64(1000*f64(st.Max)/E))
			if pl != nil {
				pl.add(er)
			}
		}
	}
	return true
}

// ksBound: worst-case added noise of one gadget product at ciphertext level `level` with a key of
// (levelP=lp, BaseTwo=w) whose components carry an error of at most E; Hout = l1 bound of the
// output secret (rounding term of the division by P).
func (e *env) ksBound(level, lp, w int, E, Hout float64) float64 {
	q := e.cf.Q
	N := float64(e.n)
	sum := 0.0
	if lp > 0 || (lp == 0 && w == 0) {
		nb := lp + 1
		for st := 0; st <= level; st += nb {
			g := 1.0
			for i := st; i < st+nb && i <= level; i++ {
				g *= float64(q[i])
			}
			sum += N * g * E * e.cif
		}
	} else if w > 0 {
		for i := 0; i <= level; i++ {
			nd := (ref.BitLen(q[i]) + w - 1) / w
			sum += float64(nd) * N * math.Exp2(float64(w)) * E * e.cif
		}
	} else {
		for i := 0; i <= level; i++ {
			sum += N * (float64(q[i])/2 + 1) * E * e.cif
		}
	}
	if lp >= 0 {
		P := 1.0
		for i := 0; i <= lp; i++ {
			P *= float64(e.cf.P[i])
		}
		sum = sum/P + 1.5*(1+e.cif*Hout)
	}
	return sum
}

func (e *env) randMsg(level int) ring.Poly {
	rq := e.params.RingQ().AtLevel(level)
	m := rq.NewPoly()
	rnd := e.c.Rand()
	for j := 0; j < e.n; j++ {
		x := big.NewInt(int64(rnd.N(1<<20)) - 1<<19)
		for i := 0; i <= level; i++ {
			m.Coeffs[i][j] = ref.ModU(x, rq.SubRings[i].Modulus)
		}
	}
	return m
}

// freshCt encrypts msg (coefficient domain) under sk with the single-party secret-key encryptor.
func (e *env) freshCt(sk *rlwe.SecretKey, msg ring.Poly, level int, isNTT bool) *rlwe.Ciphertext {
	rq := e.params.RingQ().AtLevel(level)
	pt := rlwe.NewPlaintext(e.params, level)
	pt.IsNTT = isNTT
	for i := 0; i <= level; i++ {
		copy(pt.Value.Coeffs[i], msg.Coeffs[i])
	}
	if isNTT {
		rq.NTT(pt.Value, pt.Value)
	}
	ct := rlwe.NewCiphertext(e.params, 1, level)
	ct.IsNTT = isNTT
	if err := rlwe.NewEncryptor(e.params, sk).Encrypt(pt, ct); err != nil {
		panic(err)
	}
	return ct
}

// judge compares phase(out under skOut) with want against a worst-case bound.
func (e *env) judge(sig string, out *rlwe.Element[ring.Poly], skOut *rlwe.SecretKey, want ring.Poly, bound float64, key string, detail string) {
	level := out.Level()
	rq := e.params.RingQ().AtLevel(level)
	ph := obs.Phase(e.params, out, skOut)
	st := obs.Stat(obs.Diff(rq, ph, want))
	Ql := rq.ModulusAtLevel[level]
	meaningful := bound < f64(Ql)/8
	e.c.Distinct("use/"+key, meaningful && e.np >= 2)
	e.c.Count("noise_measurements", 1)
	if meaningful {
		e.c.Count("meaningful_bounds", 1)
		e.c.Max("max_use_noise_over_bound_x1000", int64(1000*f64(st.Max)/bound))
	}
	e.c.Check(f64(st.Max) <= bound, sig+"|noise-above-worst-case-bound", func() string {
		return fmt.Sprintf("%s: |phase-expected|inf=2^%.1f bound=2^%.1f Q_level=2^%d parties=%d", detail, st.MaxLog2, math.Log2(bound), Ql.BitLen(), e.np)
	})
}

// drawEvkParams draws (lq, lp, w) in the domain the single-party key generator supports.
func (e *env) drawEvkParams(trial int) (lq, lp, w int) {
	rnd := e.c.Rand()
	lqMax, lpMax := e.params.MaxLevelQ(), e.params.MaxLevelP()
	lq = rnd.N(lqMax + 1)
	lp = lpMax
	if lpMax >= 0 && rnd.N(2) == 0 {
		lp = rnd.N(lpMax + 1)
	}
	if trial == 0 {
		lq, lp = lqMax, lpMax
	}
	if lp <= 0 && rnd.N(4) != 0 {
		w = eng.Pick(rnd, 1+rnd.N(30), 1+rnd.N(30), 7, 10, 13, 16, 20, 28, 30)
	}
	return
}

func digitsUnequal(d []int) bool {
	for _, x := range d {
		if x != d[0] {
			return true
		}
	}
	return false
}
