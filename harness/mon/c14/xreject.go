package c14

import (
	"fmt"

	"github.com/tuneinsight/lattigo/v6/core/rlwe"
	"github.com/tuneinsight/lattigo/v6/multiparty"

	"verif/harness/eng"
)

// runRejectExt extends the refusal clause ("mismatched shares (different Galois element, level or
// decomposition) are rejected with an error rather than combined") to the entry points and operand
// pairs runReject does not reach:
//
//   - finalisation of a share into a key object allocated for another power-of-two decomposition
//     (GenEvaluationKey / GenGaloisKey; runReject only varies the levels there);
//   - a share combined with a reference-polynomial matrix that has FEWER rows / digits / moduli than the
//     share needs (GenShare of both protocols, finalisation). The opposite direction (a larger CRP, of which
//     a prefix is used by every party alike) gives a correct key and is not demanded to fail;
//   - the second round and the finalisation of the relinearisation protocol, which combine the round-one
//     aggregate with a party's round-two buffer resp. the two aggregates with the key object;
//   - a refused call must leave its receiver as it was, INCLUDING the Galois-element tag of a Galois share
//     (runReject uses one element for all operands, so a tag overwritten before the refusal is invisible).
//
// Every class has its own signature; positive controls (matching operands are accepted and give the
// expected object) guard against an oracle that fails everything.
func runRejectExt(c *eng.Ctx, cf cfg) {
	e := newEnv(c, cf)
	if e == nil {
		return
	}
	c.Sample(cf)
	params := e.params
	rnd := c.Rand()
	lqMax, lpMax := params.MaxLevelQ(), params.MaxLevelP()
	nth := params.RingQ().NthRoot()

	ep := multiparty.NewEvaluationKeyGenProtocol(params)
	gp := multiparty.NewGaloisKeyGenProtocol(params)
	rp := multiparty.NewRelinearizationKeyGenProtocol(params)

	gal1 := params.GaloisElement(1)
	gal2 := params.GaloisElement(2)
	if cf.Ring == "ci" {
		gal1, gal2 = 5, 25%nth
	}
	newShare := func(p evkp, g uint64) gshare {
		s := gp.AllocateShare(p.lit())
		s.GaloisElement = g
		e.junkGadget(&s.GadgetCiphertext)
		return s
	}
	digits := func(p evkp) []int {
		return params.BaseTwoDecompositionVectorSize(p.lq, p.lp, p.w)[:params.BaseRNSDecompositionVectorSize(p.lq, p.lp)]
	}
	// fewer(a, b): b offers strictly less room than a needs somewhere (rows, digits of a row, Q or P moduli)
	fewer := func(a, b evkp) bool {
		da, db := digits(a), digits(b)
		if b.lq < a.lq || b.lp < a.lp || len(db) < len(da) {
			return true
		}
		for i := range da {
			if db[i] < da[i] {
				return true
			}
		}
		return false
	}
	sameShape := func(a, b evkp) bool { return !fewer(a, b) && !fewer(b, a) }

	type snapT struct {
		g, nth uint64
		w      int
		rows   [][]uint64
	}
	snapG := func(g *rlwe.GadgetCiphertext, el, root uint64) snapT {
		return snapT{el, root, g.BaseTwoDecomposition, cloneRows(gadgetRows(g))}
	}
	// verdict of a call that must be refused; recv (may be nil) reports the receiver's state
	expectErr := func(proto, entry, kind, place string, recv func() snapT, f func() error, detail string) {
		var before snapT
		if recv != nil {
			before = recv()
		}
		var err error
		p, pv := eng.Panics(func() { err = f() })
		c.Distinct(fmt.Sprintf("reject/%s.%s/%s/%s", proto, entry, kind, place), true)
		c.Eval(1)
		sig := "C14|" + proto + "." + entry + "|mismatch-not-rejected|" + kind
		switch {
		case p:
			c.Count("mismatches_causing_panic", 1)
			c.Violate(sig, fmt.Sprintf("panic instead of an error (%v): %s, placement %s", pv, detail, place), cf)
		case err == nil:
			c.Count("mismatches_combined_silently", 1)
			c.Violate(sig, fmt.Sprintf("mismatched operands were combined without an error: %s, placement %s", detail, place), cf)
		default:
			c.Count("mismatches_rejected", 1)
			if recv != nil {
				after := recv()
				c.Check(eqRows(after.rows, before.rows, nil) && after.w == before.w, "C14|"+proto+"."+entry+"|refused-but-receiver-modified|"+kind, func() string {
					return fmt.Sprintf("the call returned %q but the receiver's polynomials were modified: %s, placement %s", err.Error(), detail, place)
				})
				c.Check(after.g == before.g && after.nth == before.nth, "C14|"+proto+"."+entry+"|refused-but-receiver-modified|galois-tag", func() string {
					return fmt.Sprintf("the call returned %q but the receiver's Galois element changed from %d to %d: %s, placement %s", err.Error(), before.g, after.g, detail, place)
				})
			}
		}
	}
	// verdict of a call without an error result that must not combine its operands (any outcome but a refusal)
	noValidation := func(entry, kind, place string, f func(), detail string) {
		p, pv := eng.Panics(f)
		c.Distinct(fmt.Sprintf("reject/RelinearizationKeyGenProtocol.%s/%s/%s", entry, kind, place), true)
		c.Eval(1)
		what := "mismatched operands were combined (the method returns no error)"
		if p {
			c.Count("mismatches_causing_panic", 1)
			what = fmt.Sprintf("panic instead of an error (%v)", pv)
		} else {
			c.Count("mismatches_combined_silently", 1)
		}
		c.Violate("C14|RelinearizationKeyGenProtocol."+entry+"|mismatch-not-rejected|no-validation", fmt.Sprintf("%s: %s (%s), placement %s", what, detail, kind, place), cf)
	}

	// ---- pairs (A = what the share is made for, B = what the other operand is made for)
	type pair struct {
		kind string
		a, b evkp
	}
	var pairs []pair
	full := evkp{lqMax, lpMax, 0}
	if lqMax >= 1 {
		pairs = append(pairs, pair{"levelQ", full, evkp{lqMax - 1 - rnd.N(lqMax), lpMax, 0}})
	}
	if lpMax >= 1 {
		pairs = append(pairs, pair{"levelP", full, evkp{lqMax, lpMax - 1 - rnd.N(lpMax), 0}})
		// same number of RNS rows although the levels differ (the row count alone cannot tell them apart)
		for lq := lqMax; lq >= 1; lq-- {
			if params.BaseRNSDecompositionVectorSize(lq, lpMax) == params.BaseRNSDecompositionVectorSize(lq-1, lpMax) {
				pairs = append(pairs, pair{"levelQ", evkp{lq, lpMax, 0}, evkp{lq - 1, lpMax, 0}})
				c.Count("level_pairs_with_equal_row_count", 1)
				break
			}
		}
	}
	if lpMax <= 0 {
		for try := 0; try < 50; try++ {
			wa, wb := 1+rnd.N(30), 1+rnd.N(30)
			a, b := evkp{lqMax, lpMax, wa}, evkp{lqMax, lpMax, wb}
			if wa < wb && fewer(a, b) { // A has more digits somewhere
				pairs = append(pairs, pair{"decomposition", a, b}, pair{"decomposition", b, a})
				break
			}
		}
		w := 1 + rnd.N(30)
		pairs = append(pairs, pair{"decomposition", evkp{lqMax, lpMax, w}, full}, pair{"decomposition", full, evkp{lqMax, lpMax, w}})
	}

	for _, m := range pairs {
		detail := fmt.Sprintf("%s: (LevelQ,LevelP,BaseTwo) share=%v other=%v digits %v vs %v Q=%v P=%v", m.kind, m.a, m.b, digits(m.a), digits(m.b), cf.QBits, cf.PBits)

		// ---- finalisation: share (and its CRP) of A into a key object of B. The base family covers the level kinds.
		if m.kind == "decomposition" {
			sa := newShare(m.a, gal1)
			crpE := ep.SampleCRP(e.newCRS(), m.a.lit())
			evk := rlwe.NewEvaluationKey(params, m.b.lit())
			e.junkGadget(&evk.GadgetCiphertext)
			expectErr("EvaluationKeyGenProtocol", "GenEvaluationKey", m.kind, "share-vs-key", func() snapT { return snapG(&evk.GadgetCiphertext, 0, 0) }, func() error {
				return ep.GenEvaluationKey(sa.EvaluationKeyGenShare, crpE, evk)
			}, detail)
			crpG := gp.SampleCRP(e.newCRS(), m.a.lit())
			gk := rlwe.NewGaloisKey(params, m.b.lit())
			e.junkGadget(&gk.GadgetCiphertext)
			gk.GaloisElement, gk.NthRoot = gal2, nth
			expectErr("GaloisKeyGenProtocol", "GenGaloisKey", m.kind, "share-vs-key", func() snapT { return snapG(&gk.GadgetCiphertext, gk.GaloisElement, gk.NthRoot) }, func() error {
				return gp.GenGaloisKey(sa, crpG, gk)
			}, detail)
		}

		// ---- share of A against a CRP of B that is too small for it
		if fewer(m.a, m.b) {
			kind := "crp-" + m.kind
			// GenShare
			shE := ep.AllocateShare(m.a.lit())
			e.junkGadget(&shE.GadgetCiphertext)
			crpE := ep.SampleCRP(e.newCRS(), m.b.lit())
			expectErr("EvaluationKeyGenProtocol", "GenShare", kind, "share-vs-crp", func() snapT { return snapG(&shE.GadgetCiphertext, 0, 0) }, func() error {
				return ep.GenShare(e.sks[0], e.sks[1], crpE, &shE)
			}, detail)
			shG := newShare(m.a, gal2)
			crpG := gp.SampleCRP(e.newCRS(), m.b.lit())
			expectErr("GaloisKeyGenProtocol", "GenShare", kind, "share-vs-crp", func() snapT { return snapG(&shG.GadgetCiphertext, shG.GaloisElement, 0) }, func() error {
				return gp.GenShare(e.sks[0], gal1, crpG, &shG)
			}, detail)
			// finalisation: share and key of A, CRP of B
			sa := newShare(m.a, gal1)
			evk := rlwe.NewEvaluationKey(params, m.a.lit())
			expectErr("EvaluationKeyGenProtocol", "GenEvaluationKey", kind, "share-vs-crp", func() snapT { return snapG(&evk.GadgetCiphertext, 0, 0) }, func() error {
				return ep.GenEvaluationKey(sa.EvaluationKeyGenShare, crpE, evk)
			}, detail)
			gk := rlwe.NewGaloisKey(params, m.a.lit())
			gk.GaloisElement, gk.NthRoot = gal2, nth
			expectErr("GaloisKeyGenProtocol", "GenGaloisKey", kind, "share-vs-crp", func() snapT { return snapG(&gk.GadgetCiphertext, gk.GaloisElement, gk.NthRoot) }, func() error {
				return gp.GenGaloisKey(sa, crpG, gk)
			}, detail)
		}

		// ---- a refused aggregation leaves the receiver's Galois tag alone: the receiver carries another element
		// than the (mutually mismatched) inputs
		if !sameShape(m.a, m.b) || m.a.w != m.b.w {
			for _, first := range []int{0, 1} {
				ab := [2]evkp{m.a, m.b}
				s1, s2 := newShare(ab[first], gal1), newShare(ab[1-first], gal1)
				acc := newShare(ab[first], gal2)
				expectErr("GaloisKeyGenProtocol", "AggregateShares", m.kind, fmt.Sprintf("in1-vs-in2/out-has-other-element/%d", first), func() snapT { return snapG(&acc.GadgetCiphertext, acc.GaloisElement, 0) }, func() error {
					return gp.AggregateShares(s1, s2, &acc)
				}, detail)
			}
		}

		// ---- relinearisation protocol, round two and finalisation (no error result)
		if !sameShape(m.a, m.b) {
			rsh := func(p evkp, round int) rshare {
				_, a, b := rp.AllocateShare(p.lit())
				if round == 2 {
					a = b
				}
				e.junkGadget(&a.GadgetCiphertext)
				return a
			}
			for _, first := range []int{0, 1} {
				ab := [2]evkp{m.a, m.b}
				x, y := ab[first], ab[1-first]
				eph, _, _ := rp.AllocateShare(x.lit())
				agg1, out2 := rsh(x, 1), rsh(y, 2)
				noValidation("GenShareRoundTwo", m.kind, fmt.Sprintf("round1-aggregate-vs-own-buffer/%d", first), func() { rp.GenShareRoundTwo(eph, e.sks[0], agg1, &out2) }, detail)
				a1, a2 := rsh(x, 1), rsh(y, 2)
				noValidation("GenRelinearizationKey", m.kind, fmt.Sprintf("round1-vs-round2/%d", first), func() { rp.GenRelinearizationKey(a1, a2, rlwe.NewRelinearizationKey(params, x.lit())) }, detail)
				b1, b2 := rsh(x, 1), rsh(x, 2)
				noValidation("GenRelinearizationKey", m.kind, fmt.Sprintf("shares-vs-key/%d", first), func() { rp.GenRelinearizationKey(b1, b2, rlwe.NewRelinearizationKey(params, y.lit())) }, detail)
			}
		}
	}

	// ---- Galois element: a refused aggregation (different elements) with a receiver carrying a third element
	{
		g3 := params.GaloisElement(3)
		if cf.Ring == "ci" {
			g3 = 125 % nth
		}
		w0 := 0
		if lpMax <= 0 && rnd.Bool() {
			w0 = 5 + rnd.N(26)
		}
		p := evkp{lqMax, lpMax, w0}
		s1, s2, acc := newShare(p, gal1), newShare(p, gal2), newShare(p, g3)
		expectErr("GaloisKeyGenProtocol", "AggregateShares", "galois-element", "in1-vs-in2/out-has-other-element", func() snapT { return snapG(&acc.GadgetCiphertext, acc.GaloisElement, 0) }, func() error {
			return gp.AggregateShares(s1, s2, &acc)
		}, fmt.Sprintf("galois-element: %d vs %d, receiver %d", gal1, gal2, g3))
	}

	// ---- positive controls: matching operands are accepted by every entry point used above and give what they should
	{
		w0 := 0
		if lpMax <= 0 && rnd.Bool() {
			w0 = 5 + rnd.N(26)
		}
		p := evkp{rnd.N(lqMax + 1), lpMax, w0}
		c.Try("C14|reject-controls", func() {
			crpG := gp.SampleCRP(e.newCRS(), p.lit())
			s1, s2 := gp.AllocateShare(p.lit()), gp.AllocateShare(p.lit())
			err1 := gp.GenShare(e.sks[0], gal1, crpG, &s1)
			err2 := gp.GenShare(e.sks[1], gal1, crpG, &s2)
			acc := newShare(p, gal2)
			err3 := gp.AggregateShares(s1, s2, &acc)
			gk := rlwe.NewGaloisKey(params, p.lit())
			err4 := gp.GenGaloisKey(acc, crpG, gk)
			mods := gadgetMods(params, &s1.GadgetCiphertext)
			want := cloneRows(gadgetRows(&s1.GadgetCiphertext))
			addRows(want, gadgetRows(&s2.GadgetCiphertext), mods)
			c.Check(err1 == nil && err2 == nil && err3 == nil && err4 == nil && acc.GaloisElement == gal1 && gk.GaloisElement == gal1 && gk.NthRoot == nth &&
				eqRows(gadgetRows(&acc.GadgetCiphertext), want, mods), "C14|GaloisKeyGenProtocol.AggregateShares|error-on-matching-shares", func() string {
				return fmt.Sprint(err1, err2, err3, err4)
			})
			crpE := ep.SampleCRP(e.newCRS(), p.lit())
			t1 := ep.AllocateShare(p.lit())
			err5 := ep.GenShare(e.sks[0], e.sks[1], crpE, &t1)
			err6 := ep.GenEvaluationKey(t1, crpE, rlwe.NewEvaluationKey(params, p.lit()))
			c.Check(err5 == nil && err6 == nil, "C14|EvaluationKeyGenProtocol.GenEvaluationKey|error-on-matching-shares", func() string { return fmt.Sprint(err5, err6) })
			c.Count("reject_controls", 2)
		})
	}
}
