// Package c02: RNS basis extension, rescaling and gadget decomposition match integer division.
//
// Oracle: inputs and outputs are reconstructed by CRT with math/big; integer division, centring
// and digit recombination are done there. Nothing of lattigo's basis-extension code is reused.
package c02

import (
	"fmt"
	"math/big"

	"github.com/tuneinsight/lattigo/v6/core/rlwe"
	"github.com/tuneinsight/lattigo/v6/ring"
	"github.com/tuneinsight/lattigo/v6/ring/ringqp"

	"verif/harness/eng"
	"verif/harness/gen"
	"verif/harness/ref"
)

type cfg struct {
	LogN  int      `json:"logN"`
	Q     []uint64 `json:"q"`
	P     []uint64 `json:"p"`
	QBits []int    `json:"qbits"`
	PBits []int    `json:"pbits"`
	Kind  string   `json:"kind"`
}

var sizes = []int{20, 30, 32, 36, 45, 50, 55, 58, 60}

func cases(tier string, seed int64) []eng.Case {
	r := eng.NewRand("c02-cases", seed)
	var out []eng.Case
	n := 200
	if tier == "thorough" {
		n = 12000
	}
	for i := 0; i < n; i++ {
		logN := eng.Pick(r, 4, 4, 5, 6, 7)
		nq := 1 + r.N(6)
		np := r.N(4)
		var qb, pb []int
		equal := r.N(3) == 0
		base := eng.Pick(r, sizes...)
		for j := 0; j < nq; j++ {
			if equal {
				qb = append(qb, base)
			} else {
				qb = append(qb, eng.Pick(r, sizes...))
			}
		}
		for j := 0; j < np; j++ {
			if equal {
				pb = append(pb, min(base+1, 61))
			} else {
				pb = append(pb, eng.Pick(r, 30, 36, 45, 55, 60, 61))
			}
		}
		q, p := gen.Chain(r, uint64(2)<<logN, qb, pb)
		if q == nil {
			continue
		}
		c := cfg{LogN: logN, Q: q, P: p, QBits: qb, PBits: pb}
		for _, kind := range []string{"rescale", "modup", "moddown", "decompose", "gadgetrecomb"} {
			if (kind == "modup" || kind == "moddown") && np == 0 {
				continue
			}
			if kind == "rescale" && nq < 2 {
				continue
			}
			cc := c
			cc.Kind = kind
			id := fmt.Sprintf("%s/%d/logN%d/q%v/p%v", kind, i, logN, qb, pb)
			var run func(*eng.Ctx)
			switch kind {
			case "rescale":
				run = func(c *eng.Ctx) { runRescale(c, cc) }
			case "modup":
				run = func(c *eng.Ctx) { runModUp(c, cc) }
			case "moddown":
				run = func(c *eng.Ctx) { runModDown(c, cc) }
			case "decompose":
				run = func(c *eng.Ctx) { runDecompose(c, cc) }
			case "gadgetrecomb":
				run = func(c *eng.Ctx) { runGadgetRecomb(c, cc) }
			}
			out = append(out, eng.Case{ID: id, Sig: "C02|" + kind, Desc: cc, Run: run})
		}
	}
	// audit round: entry points, receivers and configurations not reached above (own generator stream,
	// so that the ids and inputs of the cases above do not move)
	out = append(out, extCases(tier, seed)...)
	return out
}

func init() {
	eng.Register(&eng.Monitor{
		ID: "C02", Level: "exploration",
		Rule:  "cases = (operation family, logN, Q prime sizes (1..6 primes), P prime sizes (0..3 primes)); inside a case every (levelQ, levelP) pair / number of consecutive rescalings / digit index is walked and every coefficient of boundary-pattern inputs (multiples of the divisor +-{0..3}, half-multiples +-{0..3}, +-Q/2, +-Q/4, small norm, uniform) is compared with math/big integer division or centred lifting. distinct key = (family, entry point, chain sizes, levelQ, levelP, nb/digit); non-trivial = the input vector contains boundary values (always true by construction) and the chain has >= 2 moduli or unequal sizes. The x/ families (c02_ext.go) draw a second set of configurations (N from 8, standard or conjugate-invariant ring, 61-bit primes inside Q, P of up to 8 primes, source bases of up to 32 primes, one of 34) and walk a sample of the level table through the remaining exported entry points (ShallowCopy of the extender and of the evaluator, ModUpExact + GenModUpConstants, rlwe.Evaluator.ModDown in its 4 domain combinations and at levelP = -1, GadgetProductLazy / Hoisted / HoistedLazy, ExtendBasisSmallNormAndCenterNTTMontgomery, MaskVec, DecomposeAndSplit at levelP = -1 under a ring P) with receivers aliased to the operand, receivers of minimal size, nbRescales = 0, inputs that make the numerators of the base conversion extreme, the documented refusals; their distinct key additionally carries the entry point, the receiver mode and the object (constructor / ShallowCopy) used.",
		Cases: cases,
		Assumptions: []string{
			"math/big is the model of integer arithmetic",
			"ModUp / ModDown may be off by one multiple of the source modulus / by 1 as the property allows; the same offset must hold on every output modulus",
		},
	})
}

func rings(c cfg) (rq, rp *ring.Ring, err error) {
	if rq, err = ring.NewRing(1<<c.LogN, c.Q); err != nil {
		return
	}
	if len(c.P) > 0 {
		rp, err = ring.NewRing(1<<c.LogN, c.P)
	}
	return
}

func prod(m []uint64) *big.Int {
	x := big.NewInt(1)
	for _, q := range m {
		x.Mul(x, new(big.Int).SetUint64(q))
	}
	return x
}

// boundary values around multiples and half-multiples of d, inside [0, Q)
func boundaryValues(rnd *eng.Rand, n int, Q, d *big.Int) []*big.Int {
	out := make([]*big.Int, n)
	kmax := new(big.Int).Div(Q, d)
	for j := range out {
		x := new(big.Int)
		switch rnd.N(8) {
		case 0, 1: // k*d + delta
			k := randBig(rnd, kmax)
			x.Mul(k, d)
			x.Add(x, big.NewInt(int64(rnd.N(7)-3)))
		case 2, 3: // k*d + d/2 + delta
			k := randBig(rnd, kmax)
			x.Mul(k, d)
			x.Add(x, new(big.Int).Rsh(d, 1))
			x.Add(x, big.NewInt(int64(rnd.N(7)-3)))
		case 4: // Q/2 + delta
			x.Rsh(Q, 1)
			x.Add(x, big.NewInt(int64(rnd.N(7)-3)))
		case 5: // small / top
			if rnd.Bool() {
				x.SetInt64(int64(rnd.N(7)))
			} else {
				x.Sub(Q, big.NewInt(int64(1+rnd.N(7))))
			}
		default:
			x = randBig(rnd, Q)
		}
		x.Mod(x, Q)
		out[j] = x
	}
	return out
}

func randBig(rnd *eng.Rand, max *big.Int) *big.Int {
	if max.Sign() <= 0 {
		return new(big.Int)
	}
	b := make([]byte, (max.BitLen()+7)/8+8)
	rnd.Read(b)
	x := new(big.Int).SetBytes(b)
	return x.Mod(x, max)
}

func setPoly(p ring.Poly, moduli []uint64, vals []*big.Int) {
	for i, q := range moduli {
		for j, v := range vals {
			p.Coeffs[i][j] = ref.ModU(v, q)
		}
	}
}

func chainKey(c cfg) string { return fmt.Sprintf("%d/%v/%v", c.LogN, c.QBits, c.PBits) }

func nontrivial(c cfg) bool {
	if len(c.Q)+len(c.P) >= 2 {
		return true
	}
	return false
}

// ---------------------------------------------------------------------------------------------

func runRescale(c *eng.Ctx, cf cfg) {
	rq, _, err := rings(cf)
	if err != nil {
		c.Violate("C02|ring.NewRing|error-on-admissible", err.Error(), cf)
		return
	}
	rnd := c.Rand()
	n := rq.N()
	c.Sample(cf)
	for level := 1; level <= rq.MaxLevel(); level++ {
		r := rq.AtLevel(level)
		mods := cf.Q[:level+1]
		Q := prod(mods)
		for nb := 1; nb <= level; nb++ {
			for _, round := range []bool{false, true} {
				for _, ntt := range []bool{false, true} {
					for _, many := range []bool{false, true} {
						if !many && nb != 1 {
							continue
						}
						name := "Div"
						if round {
							name += "Round"
						} else {
							name += "Floor"
						}
						name += "ByLastModulus"
						if many {
							name += "Many"
						}
						if ntt {
							name += "NTT"
						}
						// boundary around the last modulus (first division) — the later divisions see
						// whatever the first leaves; also boundary around the product of the nb last moduli
						d := new(big.Int).SetUint64(mods[level])
						if rnd.Bool() {
							d = prod(mods[level-nb+1:])
						}
						vals := boundaryValues(rnd, n, Q, d)
						in := rq.NewPoly()
						setPoly(in, mods, vals)
						if ntt {
							r.NTT(in, in)
						}
						inCopy := *in.CopyNew()
						buff := rq.NewPoly()
						out := rq.NewPoly()
						// poison the output so that stale residue is visible
						for i := range out.Coeffs {
							for j := range out.Coeffs[i] {
								out.Coeffs[i][j] = rnd.U64() % cf.Q[i]
							}
						}
						key := fmt.Sprintf("rescale/%s/%s/%d/%d", name, chainKey(cf), level, nb)
						c.Distinct(key, nontrivial(cf))
						ok := c.Try("C02|Ring."+name, func() {
							switch {
							case !round && !ntt && !many:
								r.DivFloorByLastModulus(in, out)
							case !round && ntt && !many:
								r.DivFloorByLastModulusNTT(in, buff, out)
							case !round && !ntt && many:
								r.DivFloorByLastModulusMany(nb, in, buff, out)
							case !round && ntt && many:
								r.DivFloorByLastModulusManyNTT(nb, in, buff, out)
							case round && !ntt && !many:
								r.DivRoundByLastModulus(in, out)
							case round && ntt && !many:
								r.DivRoundByLastModulusNTT(in, buff, out)
							case round && !ntt && many:
								r.DivRoundByLastModulusMany(nb, in, buff, out)
							case round && ntt && many:
								r.DivRoundByLastModulusManyNTT(nb, in, buff, out)
							}
						})
						if !ok {
							continue
						}
						_ = inCopy
						rout := rq.AtLevel(level - nb)
						res := out
						if ntt {
							res = rq.NewPoly()
							rout.INTT(out, res)
						}
						c.Eval(1)
						for j := 0; j < n; j++ {
							want := new(big.Int).Set(vals[j])
							for k := 0; k < nb; k++ {
								dd := new(big.Int).SetUint64(mods[level-k])
								if round {
									want = ref.RoundHalfUpDiv(want, dd)
								} else {
									want = ref.FloorDiv(want, dd)
								}
							}
							bad := false
							for i := 0; i <= level-nb; i++ {
								if res.Coeffs[i][j] != ref.ModU(want, mods[i]) {
									bad = true
								}
							}
							if bad {
								c.Violate("C02|Ring."+name+"|wrong-quotient", fmt.Sprintf("moduli=%v level=%d nb=%d x=%v want=%v got residues=%v", mods, level, nb, vals[j], want, column(res, j, level-nb)), cf)
								break
							}
						}
					}
				}
			}
		}
	}
}

func column(p ring.Poly, j, level int) []uint64 {
	o := make([]uint64, level+1)
	for i := range o {
		o[i] = p.Coeffs[i][j]
	}
	return o
}

// centred values for ModUp: small (< Q/4), general, boundaries
func centredValues(rnd *eng.Rand, n int, Q *big.Int) []*big.Int {
	out := make([]*big.Int, n)
	half := new(big.Int).Rsh(Q, 1)
	quarter := new(big.Int).Rsh(Q, 2)
	for j := range out {
		x := new(big.Int)
		switch rnd.N(8) {
		case 0: // +-Q/2 boundary
			x.Set(half)
			x.Sub(x, big.NewInt(int64(rnd.N(4))))
		case 1:
			x.Neg(half)
			x.Add(x, big.NewInt(int64(rnd.N(4))))
			if Q.Bit(0) == 0 && x.CmpAbs(half) == 0 {
				x.Add(x, big.NewInt(1))
			}
		case 2: // +-Q/4 boundary
			x.Set(quarter)
			x.Add(x, big.NewInt(int64(rnd.N(7)-3)))
		case 3:
			x.Neg(quarter)
			x.Add(x, big.NewInt(int64(rnd.N(7)-3)))
		case 4: // tiny
			x.SetInt64(int64(rnd.N(41) - 20))
		case 5: // below a quarter
			x = randBig(rnd, quarter)
			if rnd.Bool() {
				x.Neg(x)
			}
		default:
			x = randBig(rnd, Q)
			if x.Cmp(half) > 0 {
				x.Sub(x, Q)
			}
		}
		// keep inside (-Q/2, Q/2]
		if x.Cmp(half) > 0 {
			x.Sub(x, Q)
		}
		nh := new(big.Int).Neg(half)
		if x.Cmp(nh) < 0 || (Q.Bit(0) == 0 && x.Cmp(nh) == 0) {
			x.Add(x, Q)
		}
		if x.Cmp(half) > 0 {
			x.Sub(x, Q)
		}
		out[j] = x
	}
	return out
}

func runModUp(c *eng.Ctx, cf cfg) {
	rq, rp, err := rings(cf)
	if err != nil {
		c.Violate("C02|ring.NewRing|error-on-admissible", err.Error(), cf)
		return
	}
	be := ring.NewBasisExtender(rq, rp)
	rnd := c.Rand()
	n := rq.N()
	c.Sample(cf)
	for lq := 0; lq <= rq.MaxLevel(); lq++ {
		for lp := 0; lp <= rp.MaxLevel(); lp++ {
			for _, dir := range []string{"QtoP", "PtoQ"} {
				src, dst := cf.Q[:lq+1], cf.P[:lp+1]
				if dir == "PtoQ" {
					src, dst = dst, src
				}
				S := prod(src)
				quarter := new(big.Int).Rsh(S, 2)
				vals := centredValues(rnd, n, S)
				in := ring.NewPoly(n, len(src)-1)
				setPoly(in, src, vals)
				out := ring.NewPoly(n, len(dst)-1)
				for i := range out.Coeffs {
					for j := range out.Coeffs[i] {
						out.Coeffs[i][j] = rnd.U64()
					}
				}
				c.Distinct(fmt.Sprintf("modup/%s/%s/%d/%d", dir, chainKey(cf), lq, lp), nontrivial(cf))
				ok := c.Try("C02|BasisExtender.ModUp"+dir, func() {
					if dir == "QtoP" {
						be.ModUpQtoP(lq, lp, in, out)
					} else {
						be.ModUpPtoQ(lp, lq, in, out)
					}
				})
				if !ok {
					continue
				}
				c.Eval(1)
				for j := 0; j < n; j++ {
					kFound := 2
					for k := -1; k <= 1; k++ {
						y := new(big.Int).Mul(S, big.NewInt(int64(k)))
						y.Add(y, vals[j])
						all := true
						for i, p := range dst {
							// the public ModUp entry points document no output range (outputs are lazily reduced): congruence only
							if out.Coeffs[i][j]%p != ref.ModU(y, p) {
								all = false
								break
							}
						}
						if all {
							kFound = k
							break
						}
					}
					if kFound == 2 {
						c.Violate("C02|BasisExtender.ModUp"+dir+"|not-congruent", fmt.Sprintf("src=%v dst=%v x=%v got=%v: not x+kQ for one k in {-1,0,1} on every target modulus", src, dst, vals[j], column(out, j, len(dst)-1)), cf)
						break
					}
					if kFound != 0 {
						c.Count("modup_offsets_observed", 1)
						if new(big.Int).Abs(vals[j]).Cmp(quarter) < 0 {
							c.Violate("C02|BasisExtender.ModUp"+dir+"|inexact-below-quarter", fmt.Sprintf("src=%v dst=%v x=%v k=%d", src, dst, vals[j], kFound), cf)
							break
						}
					}
				}
			}
		}
	}
}

func runModDown(c *eng.Ctx, cf cfg) {
	rq, rp, err := rings(cf)
	if err != nil {
		c.Violate("C02|ring.NewRing|error-on-admissible", err.Error(), cf)
		return
	}
	be := ring.NewBasisExtender(rq, rp)
	rnd := c.Rand()
	n := rq.N()
	c.Sample(cf)
	for lq := 0; lq <= rq.MaxLevel(); lq++ {
		for lp := 0; lp <= rp.MaxLevel(); lp++ {
			qm, pm := cf.Q[:lq+1], cf.P[:lp+1]
			Q, P := prod(qm), prod(pm)
			QP := new(big.Int).Mul(Q, P)
			for _, variant := range []string{"QPtoQ", "QPtoQNTT", "QPtoP"} {
				div, keep, km := P, Q, qm
				if variant == "QPtoP" {
					div, keep, km = Q, P, pm
				}
				_ = keep
				vals := boundaryValues(rnd, n, QP, div)
				inQ, inP := rq.NewPoly(), rp.NewPoly()
				setPoly(inQ, qm, vals)
				setPoly(inP, pm, vals)
				if variant == "QPtoQNTT" {
					rq.AtLevel(lq).NTT(inQ, inQ)
					rp.AtLevel(lp).NTT(inP, inP)
				}
				inQ0, inP0 := *inQ.CopyNew(), *inP.CopyNew()
				var out ring.Poly
				if variant == "QPtoP" {
					out = rp.NewPoly()
				} else {
					out = rq.NewPoly()
				}
				c.Distinct(fmt.Sprintf("moddown/%s/%s/%d/%d", variant, chainKey(cf), lq, lp), nontrivial(cf))
				ok := c.Try("C02|BasisExtender.ModDown"+variant, func() {
					switch variant {
					case "QPtoQ":
						be.ModDownQPtoQ(lq, lp, inQ, inP, out)
					case "QPtoQNTT":
						be.ModDownQPtoQNTT(lq, lp, inQ, inP, out)
					case "QPtoP":
						be.ModDownQPtoP(lq, lp, inQ, inP, out)
					}
				})
				if !ok {
					continue
				}
				if !eqPoly(inQ, inQ0, lq) || !eqPoly(inP, inP0, lp) {
					c.Violate("C02|BasisExtender.ModDown"+variant+"|input-modified", "", cf)
				}
				res := out
				if variant == "QPtoQNTT" {
					res = rq.NewPoly()
					rq.AtLevel(lq).INTT(out, res)
				}
				c.Eval(1)
				for j := 0; j < n; j++ {
					want := ref.RoundHalfUpDiv(vals[j], div)
					found := false
					for e := -1; e <= 1; e++ {
						y := new(big.Int).Add(want, big.NewInt(int64(e)))
						all := true
						for i, m := range km {
							if res.Coeffs[i][j]%m != ref.ModU(y, m) {
								all = false
								break
							}
						}
						if all {
							found = true
							if e != 0 {
								c.Count("moddown_offsets_observed", 1)
							}
							break
						}
					}
					if !found {
						c.Violate("C02|BasisExtender.ModDown"+variant+"|wrong-quotient", fmt.Sprintf("Q=%v P=%v lq=%d lp=%d x=%v round(x/div)=%v got=%v", qm, pm, lq, lp, vals[j], want, column(res, j, len(km)-1)), cf)
						break
					}
				}
			}
		}
	}
	// small-norm centred extension
	full := ringqp.Ring{RingQ: rq, RingP: rp}
	for lp := 0; lp <= rp.MaxLevel(); lp++ {
		bound := int64(1 << 16)
		for _, p := range cf.P {
			if int64(p)-1 < bound {
				bound = int64(p) - 1
			}
		}
		if int64(cf.Q[0]/2)-1 < bound {
			bound = int64(cf.Q[0]/2) - 1
		}
		vals := make([]*big.Int, n)
		for j := range vals {
			switch rnd.N(4) {
			case 0:
				vals[j] = big.NewInt(eng.Pick(rnd, bound, -bound, 0, 1, -1))
			default:
				vals[j] = big.NewInt(int64(rnd.U64()%uint64(2*bound+1)) - bound)
			}
		}
		in := rq.NewPoly()
		setPoly(in, cf.Q, vals)
		oq, op := rq.NewPoly(), rp.NewPoly()
		if c.Try("C02|ringqp.ExtendBasisSmallNormAndCenter", func() { full.ExtendBasisSmallNormAndCenter(in, lp, oq, op) }) {
			c.Eval(1)
			c.Distinct(fmt.Sprintf("smallnorm/%s/%d", chainKey(cf), lp), true)
			for j := 0; j < n; j++ {
				bad := false
				for i := 0; i <= lp; i++ {
					if op.Coeffs[i][j] != ref.ModU(vals[j], cf.P[i]) {
						bad = true
					}
				}
				for i := range cf.Q {
					if oq.Coeffs[i][j] != in.Coeffs[i][j] {
						bad = true
					}
				}
				if bad {
					c.Violate("C02|ringqp.ExtendBasisSmallNormAndCenter|wrong-lift", fmt.Sprintf("x=%v P=%v got=%v", vals[j], cf.P[:lp+1], column(op, j, lp)), cf)
					break
				}
			}
		}
	}
}

func eqPoly(a, b ring.Poly, level int) bool {
	for i := 0; i <= level; i++ {
		for j := range a.Coeffs[i] {
			if a.Coeffs[i][j] != b.Coeffs[i][j] {
				return false
			}
		}
	}
	return true
}

// digit oracle: all given rows must be congruent to one integer d in {xc-Qg, xc, xc+Qg}, |d| <= Qg
func digitOK(xc, Qg *big.Int, rows []uint64, moduli []uint64) (bool, int) {
	for k := -1; k <= 1; k++ {
		d := new(big.Int).Mul(Qg, big.NewInt(int64(k)))
		d.Add(d, xc)
		if new(big.Int).Abs(d).Cmp(Qg) > 0 {
			continue
		}
		all := true
		for i, m := range moduli {
			// no documented range for the rows (lazily reduced): congruence only
			if rows[i]%m != ref.ModU(d, m) {
				all = false
				break
			}
		}
		if all {
			return true, k
		}
	}
	return false, 0
}

func runDecompose(c *eng.Ctx, cf cfg) {
	rq, rp, err := rings(cf)
	if err != nil {
		c.Violate("C02|ring.NewRing|error-on-admissible", err.Error(), cf)
		return
	}
	rnd := c.Rand()
	n := rq.N()
	c.Sample(cf)
	dec := ring.NewDecomposer(rq, rp)
	maxLP := -1
	if rp != nil {
		maxLP = rp.MaxLevel()
	}
	for lq := 0; lq <= rq.MaxLevel(); lq++ {
		for lp := -1; lp <= maxLP; lp++ {
			if lp == -1 && rp != nil {
				continue // with a P ring the decomposer is used with levelP >= 0
			}
			nbPi := lp + 1
			if nbPi == 0 {
				nbPi = 1
			}
			ndig := (lq + nbPi) / nbPi // ceil((lq+1)/nbPi)
			qm := cf.Q[:lq+1]
			Q := prod(qm)
			for dg := 0; dg < ndig; dg++ {
				st := dg * nbPi
				ed := min(st+nbPi, lq+1)
				group := qm[st:ed]
				Qg := prod(group)
				vals := boundaryValues(rnd, n, Q, Qg)
				in := rq.NewPoly()
				setPoly(in, qm, vals)
				oq := rq.NewPoly()
				var op ring.Poly
				if rp != nil {
					op = rp.NewPoly()
				}
				c.Distinct(fmt.Sprintf("decomp/%s/%d/%d/%d", chainKey(cf), lq, lp, dg), nontrivial(cf))
				if !c.Try("C02|Decomposer.DecomposeAndSplit", func() { dec.DecomposeAndSplit(lq, lp, nbPi, dg, in, oq, op) }) {
					continue
				}
				c.Eval(1)
				crtg := ref.NewCRT(group)
				for j := 0; j < n; j++ {
					col := make([]uint64, len(group))
					for i := range group {
						col[i] = in.Coeffs[st+i][j]
					}
					xc := crtg.Centered(col)
					var rows, mods []uint64
					for i := 0; i <= lq; i++ {
						if i >= st && i < ed && len(group) > 1 {
							continue // rows of the group itself are filled by the caller in the reconstruct branch
						}
						rows = append(rows, oq.Coeffs[i][j])
						mods = append(mods, qm[i])
					}
					for i := 0; i <= lp; i++ {
						rows = append(rows, op.Coeffs[i][j])
						mods = append(mods, cf.P[i])
					}
					ok, k := digitOK(xc, Qg, rows, mods)
					if !ok {
						c.Violate("C02|Decomposer.DecomposeAndSplit|digit-wrong", fmt.Sprintf("Q=%v P=%v lq=%d lp=%d digit=%d group=%v x=%v centred-digit=%v rows=%v moduli=%v", qm, cf.P, lq, lp, dg, group, vals[j], xc, rows, mods), cf)
						break
					}
					if k != 0 {
						c.Count("digit_offsets_observed", 1)
					}
				}
			}
		}
	}
	// through rlwe.Evaluator.DecomposeNTT (needs P) — digits recombine against the RNS gadget vector
	if rp == nil {
		return
	}
	params, err := rlwe.NewParametersFromLiteral(rlwe.ParametersLiteral{LogN: cf.LogN, Q: cf.Q, P: cf.P, NTTFlag: true})
	if err != nil {
		c.Violate("C02|rlwe.NewParametersFromLiteral|error-on-admissible", err.Error(), cf)
		return
	}
	eval := rlwe.NewEvaluator(params, nil)
	for lq := 0; lq <= rq.MaxLevel(); lq++ {
		for lp := 0; lp <= rp.MaxLevel(); lp++ {
			for _, isNTT := range []bool{true, false} {
				nbPi := lp + 1
				ndig := params.BaseRNSDecompositionVectorSize(lq, lp)
				qm := cf.Q[:lq+1]
				Q := prod(qm)
				vals := boundaryValues(rnd, n, Q, new(big.Int).SetUint64(qm[lq]))
				in := rq.NewPoly()
				setPoly(in, qm, vals)
				if isNTT {
					rq.AtLevel(lq).NTT(in, in)
				}
				in0 := *in.CopyNew()
				buf := eval.BuffDecompQP
				if len(buf) < ndig {
					c.Violate("C02|rlwe.Evaluator.BuffDecompQP|too-small", fmt.Sprintf("len=%d need=%d", len(buf), ndig), cf)
					continue
				}
				c.Distinct(fmt.Sprintf("decompNTT/%s/%d/%d/%v", chainKey(cf), lq, lp, isNTT), true)
				if !c.Try("C02|rlwe.Evaluator.DecomposeNTT", func() { eval.DecomposeNTT(lq, lp, nbPi, in, isNTT, buf) }) {
					continue
				}
				c.Check(eqPoly(in, in0, lq), "C02|rlwe.Evaluator.DecomposeNTT|input-modified", nil)
				c.Eval(1)
				rqp := params.RingQP().AtLevel(lq, lp)
				// recombination: sum_d digit_d * g_d == x (mod Q_level), g_d = (Q/Qg)*((Q/Qg)^-1 mod Qg)
				digits := make([][]*big.Int, ndig)
				allMods := append(append([]uint64{}, qm...), cf.P[:lp+1]...)
				crtAll := ref.NewCRT(allMods)
				bad := false
				for dg := 0; dg < ndig && !bad; dg++ {
					tmp := rqp.NewPoly()
					rqp.INTT(buf[dg], tmp)
					st := dg * nbPi
					ed := min(st+nbPi, lq+1)
					Qg := prod(qm[st:ed])
					digits[dg] = make([]*big.Int, n)
					for j := 0; j < n; j++ {
						col := make([]uint64, len(allMods))
						for i := 0; i <= lq; i++ {
							col[i] = tmp.Q.Coeffs[i][j]
						}
						for i := 0; i <= lp; i++ {
							col[lq+1+i] = tmp.P.Coeffs[i][j]
						}
						d := crtAll.Centered(col)
						digits[dg][j] = d
						if new(big.Int).Abs(d).Cmp(Qg) > 0 {
							c.Violate("C02|rlwe.Evaluator.DecomposeNTT|digit-exceeds-modulus", fmt.Sprintf("Q=%v P=%v lq=%d lp=%d digit=%d |d|=%v > Qg=%v", qm, cf.P, lq, lp, dg, d, Qg), cf)
							bad = true
							break
						}
					}
				}
				if bad {
					continue
				}
				for j := 0; j < n; j++ {
					sum := new(big.Int)
					for dg := 0; dg < ndig; dg++ {
						st := dg * nbPi
						ed := min(st+nbPi, lq+1)
						Qg := prod(qm[st:ed])
						qh := new(big.Int).Div(Q, Qg)
						inv := new(big.Int).ModInverse(new(big.Int).Mod(qh, Qg), Qg)
						g := new(big.Int).Mul(qh, inv)
						sum.Add(sum, g.Mul(g, digits[dg][j]))
					}
					sum.Mod(sum, Q)
					if sum.Cmp(vals[j]) != 0 {
						c.Violate("C02|rlwe.Evaluator.DecomposeNTT|recombination-wrong", fmt.Sprintf("Q=%v P=%v lq=%d lp=%d isNTT=%v x=%v recombined=%v", qm, cf.P, lq, lp, isNTT, vals[j], sum), cf)
						break
					}
				}
			}
		}
	}
}

// runGadgetRecomb: the digits that the gadget product itself forms (RNS groups, and power-of-two digits on
// top of them when BaseTwoDecomposition != 0) must recombine, against the gadget vector, to the input modulo
// Q_level. The gadget vector is written into an all-zero gadget ciphertext by the library's own
// AddPolyTimesGadgetVectorToGadgetCiphertext applied to the constant polynomial 1 (no encryption, no noise):
// <decomp(x), g> = P*x mod QP, so GadgetProduct must return (x, 0) - exactly without P, within 1 per
// coefficient after the division by P.
func runGadgetRecomb(c *eng.Ctx, cf cfg) {
	params, err := rlwe.NewParametersFromLiteral(rlwe.ParametersLiteral{LogN: cf.LogN, Q: cf.Q, P: cf.P, NTTFlag: true})
	if err != nil {
		c.Violate("C02|rlwe.NewParametersFromLiteral|error-on-admissible", err.Error(), cf)
		return
	}
	rnd := c.Rand()
	c.Sample(cf)
	n := params.N()
	eval := rlwe.NewEvaluator(params, nil)
	maxLQ, maxLP := params.MaxLevelQ(), params.MaxLevelP()
	for trial := 0; trial < 6; trial++ {
		lq := maxLQ
		if trial > 0 {
			lq = rnd.N(maxLQ + 1)
		}
		lp := rnd.N(maxLP+2) - 1
		w := 0
		if lp <= 0 && rnd.N(3) != 0 {
			w = eng.Pick(rnd, 1, 2, 5, 7, 8, 12, 16, 20, 27, 30, 1+rnd.N(30))
		}
		var gct *rlwe.GadgetCiphertext
		if !c.Try("C02|rlwe.NewGadgetCiphertext", func() { gct = rlwe.NewGadgetCiphertext(params, 1, lq, lp, w) }) {
			continue
		}
		rqk := params.RingQ().AtLevel(lq)
		one := rqk.NewPoly()
		for i := 0; i <= lq; i++ {
			one.Coeffs[i][0] = 1
		}
		rqk.NTT(one, one)
		rqk.MForm(one, one)
		var aerr error
		if !c.Try("C02|rlwe.AddPolyTimesGadgetVectorToGadgetCiphertext", func() {
			aerr = rlwe.AddPolyTimesGadgetVectorToGadgetCiphertext(one, []rlwe.GadgetCiphertext{*gct}, *params.RingQP(), rqk.NewPoly())
		}) {
			continue
		}
		if aerr != nil {
			c.Violate("C02|rlwe.AddPolyTimesGadgetVectorToGadgetCiphertext|error", aerr.Error(), cf)
			continue
		}
		for _, level := range []int{lq, rnd.N(lq + 1)} {
			for _, isNTT := range []bool{true, false} {
				rq := params.RingQ().AtLevel(level)
				qm := cf.Q[:level+1]
				Q := prod(qm)
				vals := boundaryValues(rnd, n, Q, new(big.Int).SetUint64(qm[rnd.N(level+1)]))
				in := rq.NewPoly()
				setPoly(in, qm, vals)
				if isNTT {
					rq.NTT(in, in)
				}
				in0 := *in.CopyNew()
				ct := rlwe.NewCiphertext(params, 1, level)
				ct.IsNTT = isNTT
				c.Distinct(fmt.Sprintf("gadgetrecomb/%s/%d/%d/%d/%d/%v", chainKey(cf), lq, lp, w, level, isNTT), true)
				sig := "C02|rlwe.Evaluator.GadgetProduct"
				if !c.Try(sig, func() { eval.GadgetProduct(level, in, gct, ct) }) {
					continue
				}
				c.Count("gadget_recombinations", 1)
				c.Check(eqPoly(in, in0, level), sig+"|input-modified", nil)
				got0, got1 := *ct.Value[0].CopyNew(), *ct.Value[1].CopyNew()
				if isNTT {
					rq.INTT(got0, got0)
					rq.INTT(got1, got1)
				}
				tol := uint64(0)
				if lp >= 0 {
					tol = 1
				}
				okv, ok1 := true, true
				var where string
				for i := 0; i <= level && okv; i++ {
					q := qm[i]
					for j := 0; j < n; j++ {
						want := new(big.Int).Mod(vals[j], new(big.Int).SetUint64(q)).Uint64()
						g := got0.Coeffs[i][j]
						d := (g + q - want) % q
						if d > q/2 {
							d = q - d
						}
						if g >= q || d > tol {
							okv = false
							where = fmt.Sprintf("modulus %d (%d) coefficient %d: got %d want %d", i, q, j, g, want)
							break
						}
						if got1.Coeffs[i][j] != 0 {
							ok1 = false
						}
					}
				}
				desc := func() string {
					return fmt.Sprintf("Q=%v P=%v keyLevelQ=%d keyLevelP=%d BaseTwoDecomposition=%d level=%d isNTT=%v: %s", cf.Q, cf.P, lq, lp, w, level, isNTT, where)
				}
				c.Check(okv, sig+"|digits-do-not-recombine-to-the-input", desc)
				c.Check(ok1, sig+"|second-component-not-zero", desc)
			}
		}
	}
}
