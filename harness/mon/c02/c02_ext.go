package c02

// Coverage extension of the C02 monitor (audit round): entry points, receivers and configurations that the
// first five families do not reach.
//
//   xrescale      Div{Floor,Round}ByLastModulus[Many][NTT] with nbRescales = 0, with the receiver aliased to the
//                 input (the way ckks/bgv Rescale call them), with receiver/buffer of exactly the documented
//                 minimal size, N = 8, 61-bit moduli inside Q, the conjugate-invariant ring; inputs of the
//                 variants that only read their operand must stay intact.
//   xmodup        BasisExtender obtained through ShallowCopy, full-size operands with unrelated rows above the
//                 level, operands intact, the exported ModUpExact + GenModUpConstants used directly (as the bgv
//                 encoder does, also towards a single small modulus T), long source bases (up to 32 moduli),
//                 wide P (up to 8 moduli of 60/61 bits, as the bgv multiplication basis), inputs that make every
//                 numerator of the fast base conversion maximal.
//   xmoddown      the same configurations for ModDownQPtoQ / QPtoQNTT / QPtoP, with the receiver aliased to the
//                 operand (the way rlwe.Evaluator.ModDown and bgv call them) and through ShallowCopy.
//   xevalmoddown  rlwe.Evaluator.ModDown, all four (ctQP.IsNTT, ct.IsNTT) combinations, levelP = -1 .. max.
//   xsmallnorm    ringqp.ExtendBasisSmallNormAndCenter in place and over the whole exact range;
//                 rlwe.ExtendBasisSmallNormAndCenterNTTMontgomery (towards P, towards Q_0..Q_l, in place).
//   xdecompose    DecomposeAndSplit at levelP = -1 although a ring P exists, long chains, ring.MaskVec digits,
//                 rlwe.Evaluator.DecomposeNTT through ShallowCopy into caller-allocated buffers, CI parameters.
//   xgadget       GadgetProduct / GadgetProductLazy+ModDown / GadgetProductHoisted / GadgetProductHoistedLazy+ModDown
//                 against the noise-free gadget vector; the two documented refusals must be errors that leave
//                 the receiver intact.
//   xlongchain    a source basis of more than 32 moduli.

import (
	"fmt"
	"math/big"
	"math/bits"

	"github.com/tuneinsight/lattigo/v6/core/rlwe"
	"github.com/tuneinsight/lattigo/v6/ring"
	"github.com/tuneinsight/lattigo/v6/ring/ringqp"

	"verif/harness/eng"
	"verif/harness/gen"
	"verif/harness/ref"
)

type xcfg struct {
	cfg
	CI    bool   `json:"ci"`
	Shape string `json:"shape"`
}

var xsizes = []int{20, 30, 32, 36, 45, 50, 55, 58, 60, 61}

func extCases(tier string, seed int64) []eng.Case {
	r := eng.NewRand("c02-ext-cases", seed)
	var out []eng.Case
	n := 44
	if tier == "thorough" {
		n = 1400
	}
	for i := 0; i < n; i++ {
		logN := eng.Pick(r, 3, 3, 4, 4, 5, 6)
		ci := r.N(4) == 0
		shape := eng.Pick(r, "std", "std", "wideP", "long", "tiny", "manydigits")
		var nq, np int
		switch shape {
		case "std":
			nq, np = 1+r.N(6), r.N(4)
		case "wideP":
			nq, np = 1+r.N(8), 4+r.N(5)
		case "long":
			nq, np = 9+r.N(24), 1+r.N(4)
		case "tiny":
			nq, np = 1+r.N(2), 1
		case "manydigits":
			// many RNS digits of the largest primes: the lazy accumulators of the gadget product are at their limit
			np = 1 + r.N(2)
			nq = 9*np + r.N(6) // at least 9 digits of np primes each
			logN = eng.Pick(r, 4, 4, 5)
		}
		var qb, pb []int
		equal := r.N(3) == 0
		base := eng.Pick(r, xsizes...)
		for j := 0; j < nq; j++ {
			if shape == "manydigits" {
				qb = append(qb, eng.Pick(r, 60, 61, 61))
			} else if equal {
				qb = append(qb, base)
			} else {
				qb = append(qb, eng.Pick(r, xsizes...))
			}
		}
		for j := 0; j < np; j++ {
			switch {
			case shape == "wideP" || shape == "manydigits":
				pb = append(pb, eng.Pick(r, 60, 61, 61))
			case equal:
				pb = append(pb, min(base+1, 61))
			default:
				pb = append(pb, eng.Pick(r, 30, 36, 45, 55, 60, 61))
			}
		}
		nth := uint64(2) << logN
		if ci {
			nth <<= 1
		}
		q, p := gen.Chain(r, nth, qb, pb)
		if q == nil {
			continue
		}
		c := xcfg{cfg: cfg{LogN: logN, Q: q, P: p, QBits: qb, PBits: pb}, CI: ci, Shape: shape}
		for _, kind := range []string{"xrescale", "xmodup", "xmoddown", "xevalmoddown", "xsmallnorm", "xdecompose", "xgadget"} {
			if (kind == "xmodup" || kind == "xmoddown") && np == 0 {
				continue
			}
			if (kind == "xevalmoddown" || kind == "xgadget") && logN < rlwe.MinLogN {
				continue
			}
			cc := c
			cc.Kind = kind
			id := fmt.Sprintf("x/%s/%d/logN%d/ci%v/q%v/p%v", kind, i, logN, ci, qb, pb)
			var run func(*eng.Ctx)
			switch kind {
			case "xrescale":
				run = func(c *eng.Ctx) { runXRescale(c, cc) }
			case "xmodup":
				run = func(c *eng.Ctx) { runXModUp(c, cc) }
			case "xmoddown":
				run = func(c *eng.Ctx) { runXModDown(c, cc) }
			case "xevalmoddown":
				run = func(c *eng.Ctx) { runXEvalModDown(c, cc) }
			case "xsmallnorm":
				run = func(c *eng.Ctx) { runXSmallNorm(c, cc) }
			case "xdecompose":
				run = func(c *eng.Ctx) { runXDecompose(c, cc) }
			case "xgadget":
				run = func(c *eng.Ctx) { runXGadget(c, cc) }
			}
			out = append(out, eng.Case{ID: id, Sig: "C02|" + kind, Desc: cc, Run: run})
		}
	}
	// one fixed case: a source basis of more than 32 moduli
	{
		qb := make([]int, 34)
		for j := range qb {
			qb[j] = 30
		}
		q, p := gen.Chain(r, 32, qb, []int{36})
		if q != nil {
			cc := xcfg{cfg: cfg{LogN: 4, Q: q, P: p, QBits: qb, PBits: []int{36}, Kind: "xlongchain"}, Shape: "over32"}
			out = append(out, eng.Case{ID: "x/xlongchain/0/logN4/q34x30/p[36]", Sig: "C02|xlongchain", Desc: cc, Run: func(c *eng.Ctx) { runXLongChain(c, cc) }})
		}
	}
	return out
}

func xrings(c xcfg) (rq, rp *ring.Ring, err error) {
	t := ring.Type(ring.Standard)
	if c.CI {
		t = ring.ConjugateInvariant
	}
	if rq, err = ring.NewRingFromType(1<<c.LogN, c.Q, t); err != nil {
		return
	}
	if len(c.P) > 0 {
		rp, err = ring.NewRingFromType(1<<c.LogN, c.P, t)
	}
	return
}

func xparams(c xcfg) (rlwe.Parameters, error) {
	t := ring.Type(ring.Standard)
	if c.CI {
		t = ring.ConjugateInvariant
	}
	var p []uint64
	if len(c.P) > 0 {
		p = c.P
	}
	return rlwe.NewParametersFromLiteral(rlwe.ParametersLiteral{LogN: c.LogN, Q: c.Q, P: p, NTTFlag: true, RingType: t})
}

func xkey(c xcfg) string { return fmt.Sprintf("%d/%v/%v/%v", c.LogN, c.CI, c.QBits, c.PBits) }

// levelPairs returns every (a, b) in [0,maxA] x [0,maxB] when there are at most limit of them, otherwise the
// four corners plus random pairs.
func levelPairs(rnd *eng.Rand, maxA, maxB, limit int) [][2]int {
	var out [][2]int
	if (maxA+1)*(maxB+1) <= limit {
		for a := 0; a <= maxA; a++ {
			for b := 0; b <= maxB; b++ {
				out = append(out, [2]int{a, b})
			}
		}
		return out
	}
	seen := map[[2]int]bool{}
	add := func(a, b int) {
		if !seen[[2]int{a, b}] {
			seen[[2]int{a, b}] = true
			out = append(out, [2]int{a, b})
		}
	}
	add(maxA, maxB)
	add(0, 0)
	add(maxA, 0)
	add(0, maxB)
	for tries := 0; len(out) < limit && tries < 8*limit; tries++ {
		add(rnd.N(maxA+1), rnd.N(maxB+1))
	}
	return out
}

// maxNumerators returns values v in [0, S) for which the numerators y_i = [v (S/s_i)^-1]_{s_i} of the fast base
// conversion are s_i - t (t small, the accumulators are as large as they can get) or t (as small as they can get).
func maxNumerators(rnd *eng.Rand, n int, src []uint64) []*big.Int {
	S := prod(src)
	sum := new(big.Int)
	for _, s := range src {
		sum.Add(sum, new(big.Int).Div(S, new(big.Int).SetUint64(s)))
	}
	out := make([]*big.Int, n)
	for j := range out {
		t := int64(1 + rnd.N(4))
		if rnd.N(4) != 0 {
			t = -t
		}
		v := new(big.Int).Mul(sum, big.NewInt(t))
		out[j] = v.Mod(v, S)
	}
	return out
}

func centre(x, S *big.Int) *big.Int {
	y := new(big.Int).Mod(x, S)
	if y.Cmp(new(big.Int).Rsh(S, 1)) > 0 {
		y.Sub(y, S)
	}
	return y
}

func junk(rnd *eng.Rand, p ring.Poly, moduli []uint64) {
	for i := range p.Coeffs {
		for j := range p.Coeffs[i] {
			if i < len(moduli) {
				p.Coeffs[i][j] = rnd.U64() % moduli[i]
			} else {
				p.Coeffs[i][j] = rnd.U64()
			}
		}
	}
}

func eqRows(a, b ring.Poly) bool {
	if len(a.Coeffs) != len(b.Coeffs) {
		return false
	}
	return eqPoly(a, b, len(a.Coeffs)-1)
}

// liftVerdict: rows[i][j] (i < len(dst)) must be congruent modulo dst[i] to vals[j] + k*S for one k in {-1,0,1}
// common to every row, and k must be 0 whenever exact(vals[j]).
func liftVerdict(vals []*big.Int, S *big.Int, dst []uint64, rows [][]uint64, exact func(*big.Int) bool) (class, detail string, offsets int64) {
	Sm := make([]uint64, len(dst))
	for i, p := range dst {
		Sm[i] = ref.ModU(S, p)
	}
	xm := make([]uint64, len(dst))
	for j, x := range vals {
		for i, p := range dst {
			xm[i] = ref.ModU(x, p)
		}
		kFound := 2
		for _, k := range []int{0, -1, 1} {
			all := true
			for i, p := range dst {
				w := xm[i]
				switch k {
				case 1:
					w = ref.AddMod(w, Sm[i], p)
				case -1:
					w = ref.SubMod(w, Sm[i], p)
				}
				if rows[i][j]%p != w {
					all = false
					break
				}
			}
			if all {
				kFound = k
				break
			}
		}
		if kFound == 2 {
			got := make([]uint64, len(dst))
			for i := range dst {
				got[i] = rows[i][j]
			}
			return "not-congruent", fmt.Sprintf("dst=%v x=%v got=%v: not x+kS for one k in {-1,0,1} on every target modulus", dst, x, got), offsets
		}
		if kFound != 0 {
			offsets++
			if exact(x) {
				return "inexact-below-quarter", fmt.Sprintf("dst=%v x=%v k=%d", dst, x, kFound), offsets
			}
		}
	}
	return "", "", offsets
}

// quotVerdict: rows[i][j] must be congruent modulo km[i] to round-half-up(vals[j]/div) + e for one e in [-tol, tol].
func quotVerdict(vals []*big.Int, div *big.Int, km []uint64, rows [][]uint64, tol int) (detail string, offsets int64) {
	wm := make([]uint64, len(km))
	for j, x := range vals {
		want := ref.RoundHalfUpDiv(x, div)
		for i, m := range km {
			wm[i] = ref.ModU(want, m)
		}
		found := false
		for e := -tol; e <= tol && !found; e++ {
			all := true
			for i, m := range km {
				w := wm[i]
				switch {
				case e > 0:
					w = ref.AddMod(w, uint64(e)%m, m)
				case e < 0:
					w = ref.SubMod(w, uint64(-e)%m, m)
				}
				if rows[i][j]%m != w {
					all = false
					break
				}
			}
			if all {
				found = true
				if e != 0 {
					offsets++
				}
			}
		}
		if !found {
			got := make([]uint64, len(km))
			for i := range km {
				got[i] = rows[i][j]
			}
			return fmt.Sprintf("moduli=%v x=%v round(x/div)=%v got=%v", km, x, want, got), offsets
		}
	}
	return "", offsets
}

// ---------------------------------------------------------------------------------------------

type rvar struct{ round, ntt, many bool }

func (v rvar) name() string {
	s := "DivFloor"
	if v.round {
		s = "DivRound"
	}
	s += "ByLastModulus"
	if v.many {
		s += "Many"
	}
	if v.ntt {
		s += "NTT"
	}
	return s
}

// readsOnly: the variants whose implementation and documentation give no reason to touch the operand
// (DivRoundByLastModulus and its Many form centre their operand in place; that is C09's concern, not ours).
func (v rvar) readsOnly() bool { return !v.round || v.ntt }

func callRescale(r *ring.Ring, v rvar, nb int, in, buff, out ring.Poly) {
	switch {
	case !v.round && !v.ntt && !v.many:
		r.DivFloorByLastModulus(in, out)
	case !v.round && v.ntt && !v.many:
		r.DivFloorByLastModulusNTT(in, buff, out)
	case !v.round && !v.ntt && v.many:
		r.DivFloorByLastModulusMany(nb, in, buff, out)
	case !v.round && v.ntt && v.many:
		r.DivFloorByLastModulusManyNTT(nb, in, buff, out)
	case v.round && !v.ntt && !v.many:
		r.DivRoundByLastModulus(in, out)
	case v.round && v.ntt && !v.many:
		r.DivRoundByLastModulusNTT(in, buff, out)
	case v.round && !v.ntt && v.many:
		r.DivRoundByLastModulusMany(nb, in, buff, out)
	case v.round && v.ntt && v.many:
		r.DivRoundByLastModulusManyNTT(nb, in, buff, out)
	}
}

func runXRescale(c *eng.Ctx, cf xcfg) {
	rq, _, err := xrings(cf)
	if err != nil {
		c.Violate("C02|ring.NewRing|error-on-admissible", err.Error(), cf)
		return
	}
	rnd := c.Rand()
	n := rq.N()
	c.Sample(cf)
	trials := 4
	if cf.Shape == "long" || cf.Shape == "manydigits" {
		trials = 2
	}
	for trial := 0; trial < trials; trial++ {
		level := rq.MaxLevel()
		if trial > 0 {
			level = rnd.N(rq.MaxLevel() + 1)
		}
		r := rq.AtLevel(level)
		mods := cf.Q[:level+1]
		Q := prod(mods)
		for _, v := range []rvar{{false, false, false}, {false, true, false}, {false, false, true}, {false, true, true}, {true, false, false}, {true, true, false}, {true, false, true}, {true, true, true}} {
			if v.ntt && cf.LogN < 4 {
				continue // the ring package documents N > 8 for its transforms
			}
			name := v.name()
			newIn := func(vals []*big.Int) ring.Poly {
				in := ring.NewPoly(n, level)
				setPoly(in, mods, vals)
				if v.ntt {
					r.NTT(in, in)
				}
				return in
			}
			// (a) nbRescales = 0: the identity, on a distinct receiver and in place
			if v.many {
				vals := boundaryValues(rnd, n, Q, new(big.Int).SetUint64(mods[level]))
				for _, aliased := range []bool{false, true} {
					in := newIn(vals)
					in0 := *in.CopyNew()
					out := in
					if !aliased {
						out = ring.NewPoly(n, level)
						junk(rnd, out, mods)
					}
					c.Distinct(fmt.Sprintf("xrescale/%s/%s/%d/0/%v", name, xkey(cf), level, aliased), true)
					c.Count("xrescale_zero_rescalings", 1)
					if c.Try("C02|Ring."+name, func() { callRescale(r, v, 0, in, ring.NewPoly(n, level), out) }) {
						c.Check(eqPoly(out, in0, level) && eqRows(in, in0), "C02|Ring."+name+"|zero-rescalings-not-identity", func() string {
							return fmt.Sprintf("moduli=%v level=%d aliased=%v", mods, level, aliased)
						})
					}
				}
			}
			if level < 1 {
				continue
			}
			nb := 1
			if v.many {
				nb = 1 + rnd.N(level)
			}
			d := new(big.Int).SetUint64(mods[level])
			if nb > 1 && rnd.Bool() {
				d = prod(mods[level-nb+1:])
			}
			vals := boundaryValues(rnd, n, Q, d)
			// (b) receiver and buffer of exactly the documented size
			in := newIn(vals)
			in0 := *in.CopyNew()
			out := ring.NewPoly(n, level-nb)
			junk(rnd, out, mods)
			c.Distinct(fmt.Sprintf("xrescale/%s/%s/%d/%d", name, xkey(cf), level, nb), true)
			c.Count("xrescale_minimal_receiver", 1)
			if !c.Try("C02|Ring."+name, func() { callRescale(r, v, nb, in, ring.NewPoly(n, level), out) }) {
				continue
			}
			if v.readsOnly() {
				c.Check(eqRows(in, in0), "C02|Ring."+name+"|input-modified", func() string {
					return fmt.Sprintf("moduli=%v level=%d nb=%d", mods, level, nb)
				})
			}
			res := out
			if v.ntt {
				res = ring.NewPoly(n, level-nb)
				rq.AtLevel(level-nb).INTT(out, res)
			}
			c.Eval(1)
			minusOne := false
			for j := 0; j < n; j++ {
				want := new(big.Int).Set(vals[j])
				for k := 0; k < nb; k++ {
					dd := new(big.Int).SetUint64(mods[level-k])
					if v.round {
						want = ref.RoundHalfUpDiv(want, dd)
					} else {
						want = ref.FloorDiv(want, dd)
					}
				}
				bad, low := false, true
				wm1 := new(big.Int).Sub(want, big.NewInt(1))
				for i := 0; i <= level-nb; i++ {
					if res.Coeffs[i][j] != ref.ModU(want, mods[i]) {
						bad = true
					}
					if res.Coeffs[i][j] != ref.ModU(wm1, mods[i]) {
						low = false
					}
				}
				if !bad {
					continue
				}
				detail := fmt.Sprintf("moduli=%v level=%d nb=%d x=%v want=%v got residues=%v", mods, level, nb, vals[j], want, column(res, j, level-nb))
				if cf.CI && v.ntt && low {
					// its own class: the transform-domain variants on the conjugate-invariant ring, result exactly one below
					if !minusOne {
						minusOne = true
						c.Violate("C02|Ring."+name+"|quotient-minus-one|conjugate-invariant-ring", detail, cf)
					}
					continue
				}
				c.Violate("C02|Ring."+name+"|wrong-quotient", detail, cf)
				break
			}
			// (c) receiver = operand, the way the scheme evaluators rescale: same result as on a distinct receiver
			in2 := *in0.CopyNew()
			c.Count("xrescale_in_place", 1)
			if c.Try("C02|Ring."+name, func() { callRescale(r, v, nb, in2, ring.NewPoly(n, level), in2) }) {
				c.Check(eqPoly(in2, out, level-nb), "C02|Ring."+name+"|in-place-result-differs", func() string {
					return fmt.Sprintf("moduli=%v level=%d nb=%d", mods, level, nb)
				})
			}
		}
	}
}

// ---------------------------------------------------------------------------------------------

// centred inputs for a lift from src: the boundary families of centredValues plus, on a quarter of the
// coefficients, the values that make the numerators of the conversion extreme.
func liftInputs(rnd *eng.Rand, n int, src []uint64) []*big.Int {
	S := prod(src)
	half := new(big.Int).Rsh(S, 1)
	vals := centredValues(rnd, n, S)
	adv := maxNumerators(rnd, n, src)
	for j := range vals {
		if rnd.N(4) == 0 {
			// the extender adds S/2 before converting
			vals[j] = centre(new(big.Int).Sub(adv[j], half), S)
			if rnd.Bool() {
				vals[j] = centre(new(big.Int).Add(vals[j], big.NewInt(int64(rnd.N(7)-3))), S)
			}
		}
	}
	return vals
}

func belowQuarter(S *big.Int) func(*big.Int) bool {
	quarter := new(big.Int).Rsh(S, 2)
	return func(x *big.Int) bool { return new(big.Int).Abs(x).Cmp(quarter) < 0 }
}

func runXModUp(c *eng.Ctx, cf xcfg) {
	rq, rp, err := xrings(cf)
	if err != nil {
		c.Violate("C02|ring.NewRing|error-on-admissible", err.Error(), cf)
		return
	}
	be := ring.NewBasisExtender(rq, rp)
	var sc *ring.BasisExtender
	if !c.Try("C02|BasisExtender.ShallowCopy", func() { sc = be.ShallowCopy() }) {
		return
	}
	rnd := c.Rand()
	n := rq.N()
	c.Sample(cf)
	c.Max("max_source_moduli", int64(len(cf.Q)))
	c.Max("max_p_moduli", int64(len(cf.P)))
	for _, pr := range levelPairs(rnd, rq.MaxLevel(), rp.MaxLevel(), 10) {
		lq, lp := pr[0], pr[1]
		for _, dir := range []string{"QtoP", "PtoQ"} {
			src, dst := cf.Q[:lq+1], cf.P[:lp+1]
			srcAll, dstAll := cf.Q, cf.P
			srcRing, dstRing := rq, rp
			if dir == "PtoQ" {
				src, dst = dst, src
				srcAll, dstAll = dstAll, srcAll
				srcRing, dstRing = dstRing, srcRing
			}
			S := prod(src)
			vals := liftInputs(rnd, n, src)
			in := srcRing.NewPoly()
			junk(rnd, in, srcAll)
			setPoly(in, src, vals)
			in0 := *in.CopyNew()
			entry := "C02|BasisExtender.ModUp" + dir
			call := func(ext *ring.BasisExtender, out ring.Poly) {
				if dir == "QtoP" {
					ext.ModUpQtoP(lq, lp, in, out)
				} else {
					ext.ModUpPtoQ(lp, lq, in, out)
				}
			}
			out := dstRing.NewPoly()
			junk(rnd, out, nil)
			out2 := *out.CopyNew()
			c.Distinct(fmt.Sprintf("xmodup/%s/%s/%d/%d", dir, xkey(cf), lq, lp), true)
			if !c.Try(entry, func() { call(be, out) }) {
				continue
			}
			c.Check(eqRows(in, in0), entry+"|input-modified", nil)
			c.Eval(1)
			class, detail, off := liftVerdict(vals, S, dst, out.Coeffs, belowQuarter(S))
			c.Count("modup_offsets_observed", off)
			if class != "" {
				c.Violate(entry+"|"+class, fmt.Sprintf("src=%v %s", src, detail), cf)
			}
			// the shallow copy computes the same function (own buffers, shared tables)
			c.Count("shallowcopy_calls", 1)
			if c.Try("C02|BasisExtender.ShallowCopy|ModUp"+dir, func() { call(sc, out2) }) {
				c.Check(eqPoly(out2, out, len(dst)-1), "C02|BasisExtender.ShallowCopy|result-differs-from-the-original|ModUp"+dir, nil)
			}
			_ = dstAll
		}
		// the exported ModUpExact with GenModUpConstants, as the bgv encoder uses it: no centring, values in [0, S)
		for _, dir := range []string{"QtoP", "PtoQ", "QtoT"} {
			src, dstAll, nd := cf.Q[:lq+1], cf.P, lp+1
			srcRing, dstRing := rq, rp
			switch dir {
			case "PtoQ":
				src, dstAll, nd = cf.P[:lp+1], cf.Q, lq+1
				srcRing, dstRing = rp, rq
			case "QtoT":
				// a single small modulus that is not part of any chain (the plaintext modulus of bgv)
				rt, err := ring.NewRing(n, []uint64{65537})
				if err != nil {
					continue
				}
				dstAll, nd, dstRing = []uint64{65537}, 1, rt
			}
			S := prod(src)
			half := new(big.Int).Rsh(S, 1)
			cv := liftInputs(rnd, n, src)
			vals := make([]*big.Int, n)
			for j := range vals {
				vals[j] = new(big.Int).Add(cv[j], half)
				if vals[j].Sign() < 0 || vals[j].Cmp(S) >= 0 {
					vals[j].Mod(vals[j], S)
				}
			}
			in := ring.NewPoly(n, len(src)-1)
			setPoly(in, src, vals)
			out := dstRing.NewPoly()
			junk(rnd, out, nil)
			c.Distinct(fmt.Sprintf("xmodupexact/%s/%s/%d/%d", dir, xkey(cf), lq, lp), true)
			c.Count("modupexact_direct_calls", 1)
			entry := "C02|ring.ModUpExact"
			if !c.Try(entry, func() {
				muc := ring.GenModUpConstants(src, dstAll)
				ring.ModUpExact(in.Coeffs[:len(src)], out.Coeffs[:nd], srcRing, dstRing, muc)
			}) {
				continue
			}
			c.Eval(1)
			// exact when the value is at least a quarter of S away from both ends of [0, S)
			quarter := new(big.Int).Rsh(S, 2)
			exact := func(x *big.Int) bool {
				return new(big.Int).Abs(new(big.Int).Sub(x, half)).Cmp(quarter) < 0
			}
			class, detail, off := liftVerdict(vals, S, dstAll[:nd], out.Coeffs, exact)
			c.Count("modup_offsets_observed", off)
			if class != "" {
				if class == "inexact-below-quarter" {
					class = "inexact-in-the-middle-half"
				}
				c.Violate(entry+"|"+class, fmt.Sprintf("src=%v %s", src, detail), cf)
			}
		}
	}
}

func runXModDown(c *eng.Ctx, cf xcfg) {
	rq, rp, err := xrings(cf)
	if err != nil {
		c.Violate("C02|ring.NewRing|error-on-admissible", err.Error(), cf)
		return
	}
	be := ring.NewBasisExtender(rq, rp)
	var sc *ring.BasisExtender
	if !c.Try("C02|BasisExtender.ShallowCopy", func() { sc = be.ShallowCopy() }) {
		return
	}
	rnd := c.Rand()
	n := rq.N()
	c.Sample(cf)
	for _, pr := range levelPairs(rnd, rq.MaxLevel(), rp.MaxLevel(), 8) {
		lq, lp := pr[0], pr[1]
		qm, pm := cf.Q[:lq+1], cf.P[:lp+1]
		Q, P := prod(qm), prod(pm)
		QP := new(big.Int).Mul(Q, P)
		for _, variant := range []string{"QPtoQ", "QPtoQNTT", "QPtoP"} {
			if variant == "QPtoQNTT" && cf.LogN < 4 {
				continue
			}
			div, keep, km, dm := P, Q, qm, pm
			if variant == "QPtoP" {
				div, keep, km, dm = Q, P, pm, qm
			}
			vals := boundaryValues(rnd, n, QP, div)
			adv := maxNumerators(rnd, n, dm)
			dhalf := new(big.Int).Rsh(div, 1)
			for j := range vals {
				if rnd.N(4) == 0 {
					// residue modulo the divisor with extreme numerators (the extender adds div/2 first), any quotient
					x := new(big.Int).Sub(adv[j], dhalf)
					x.Mod(x, div)
					x.Add(x, new(big.Int).Mul(div, randBig(rnd, keep)))
					vals[j] = x.Mod(x, QP)
				}
			}
			inQ, inP := rq.NewPoly(), rp.NewPoly()
			junk(rnd, inQ, cf.Q)
			junk(rnd, inP, cf.P)
			setPoly(inQ, qm, vals)
			setPoly(inP, pm, vals)
			if variant == "QPtoQNTT" {
				rq.AtLevel(lq).NTT(inQ, inQ)
				rp.AtLevel(lp).NTT(inP, inP)
			}
			inQ0, inP0 := *inQ.CopyNew(), *inP.CopyNew()
			call := func(ext *ring.BasisExtender, a, b, out ring.Poly) {
				switch variant {
				case "QPtoQ":
					ext.ModDownQPtoQ(lq, lp, a, b, out)
				case "QPtoQNTT":
					ext.ModDownQPtoQNTT(lq, lp, a, b, out)
				case "QPtoP":
					ext.ModDownQPtoP(lq, lp, a, b, out)
				}
			}
			outRing, outLevel := rq, lq
			if variant == "QPtoP" {
				outRing, outLevel = rp, lp
			}
			out := outRing.NewPoly()
			entry := "C02|BasisExtender.ModDown" + variant
			c.Distinct(fmt.Sprintf("xmoddown/%s/%s/%d/%d", variant, xkey(cf), lq, lp), true)
			if !c.Try(entry, func() { call(be, inQ, inP, out) }) {
				continue
			}
			c.Check(eqRows(inQ, inQ0) && eqRows(inP, inP0), entry+"|input-modified", nil)
			res := out
			if variant == "QPtoQNTT" {
				res = rq.NewPoly()
				rq.AtLevel(lq).INTT(out, res)
			}
			c.Eval(1)
			detail, off := quotVerdict(vals, div, km, res.Coeffs, 1)
			c.Count("moddown_offsets_observed", off)
			if detail != "" {
				c.Violate(entry+"|wrong-quotient", fmt.Sprintf("Q=%v P=%v lq=%d lp=%d %s", qm, pm, lq, lp, detail), cf)
			}
			// receiver = the operand that is overwritten (the way rlwe.Evaluator.ModDown and bgv call it): same result,
			// the other operand intact
			a, b := *inQ0.CopyNew(), *inP0.CopyNew()
			recv, other, other0 := a, b, inP0
			if variant == "QPtoP" {
				recv, other, other0 = b, a, inQ0
			}
			c.Count("moddown_receiver_is_operand", 1)
			if c.Try(entry, func() { call(be, a, b, recv) }) {
				c.Check(eqPoly(recv, out, outLevel), entry+"|in-place-result-differs", nil)
				c.Check(eqRows(other, other0), entry+"|input-modified", nil)
			}
			// the shallow copy computes the same function
			out2 := outRing.NewPoly()
			c.Count("shallowcopy_calls", 1)
			if c.Try("C02|BasisExtender.ShallowCopy|ModDown"+variant, func() { call(sc, inQ, inP, out2) }) {
				c.Check(eqPoly(out2, out, outLevel), "C02|BasisExtender.ShallowCopy|result-differs-from-the-original|ModDown"+variant, nil)
			}
		}
	}
}

func runXEvalModDown(c *eng.Ctx, cf xcfg) {
	params, err := xparams(cf)
	if err != nil {
		c.Violate("C02|rlwe.NewParametersFromLiteral|error-on-admissible", err.Error(), cf)
		return
	}
	rnd := c.Rand()
	n := params.N()
	c.Sample(cf)
	eval := rlwe.NewEvaluator(params, nil)
	var evalCopy *rlwe.Evaluator
	if rnd.Bool() {
		if !c.Try("C02|rlwe.Evaluator.ShallowCopy", func() { evalCopy = eval.ShallowCopy() }) {
			return
		}
	}
	entry := "C02|rlwe.Evaluator.ModDown"
	maxLQ, maxLP := params.MaxLevelQ(), params.MaxLevelP()
	lqs := []int{maxLQ, rnd.N(maxLQ + 1)}
	if maxLQ > 0 {
		lqs = append(lqs, 0)
	}
	for _, lq := range lqs {
		lps := []int{-1}
		if maxLP >= 0 {
			lps = append(lps, maxLP)
			if maxLP > 0 {
				lps = append(lps, rnd.N(maxLP))
			}
		}
		for _, lp := range lps {
			qm := cf.Q[:lq+1]
			Q := prod(qm)
			P := big.NewInt(1)
			var pm []uint64
			if lp >= 0 {
				pm = cf.P[:lp+1]
				P = prod(pm)
			}
			QP := new(big.Int).Mul(Q, P)
			rqp := params.RingQP().AtLevel(lq, lp)
			for _, flags := range [][2]bool{{true, true}, {true, false}, {false, true}, {false, false}} {
				qpNTT, ctNTT := flags[0], flags[1]
				var vals [2][]*big.Int
				newQP := func() *rlwe.Element[ringqp.Poly] {
					e := &rlwe.Element[ringqp.Poly]{MetaData: &rlwe.MetaData{}}
					e.IsNTT = qpNTT
					for k := 0; k < 2; k++ {
						p := rqp.NewPoly()
						setPoly(p.Q, qm, vals[k])
						if lp >= 0 {
							setPoly(p.P, pm, vals[k])
						}
						if qpNTT {
							rqp.NTT(p, p)
						}
						e.Value = append(e.Value, p)
					}
					return e
				}
				for k := 0; k < 2; k++ {
					if lp >= 0 {
						vals[k] = boundaryValues(rnd, n, QP, P)
					} else {
						vals[k] = boundaryValues(rnd, n, Q, new(big.Int).SetUint64(qm[lq]))
					}
				}
				ctLevel := eng.Pick(rnd, lq, maxLQ)
				tmpl := rlwe.NewCiphertext(params, 1, ctLevel)
				for k := range tmpl.Value {
					junk(rnd, tmpl.Value[k], cf.Q)
				}
				newCt := func() *rlwe.Ciphertext {
					ct := rlwe.NewCiphertext(params, 1, ctLevel)
					ct.IsNTT = ctNTT
					for k := range ct.Value {
						ct.Value[k].CopyLvl(ctLevel, tmpl.Value[k])
					}
					return ct
				}
				ctQP, ct := newQP(), newCt()
				c.Distinct(fmt.Sprintf("xevalmoddown/%s/%d/%d/%v/%v", xkey(cf), lq, lp, qpNTT, ctNTT), true)
				c.Count("eval_moddown_calls", 1)
				if lp == -1 {
					c.Count("eval_moddown_levelP_minus1", 1)
				}
				if !c.Try(entry, func() { eval.ModDown(lq, lp, ctQP, ct) }) {
					continue
				}
				c.Check(ct.IsNTT == ctNTT && ctQP.IsNTT == qpNTT, entry+"|flags-changed", nil)
				for k := 0; k < 2; k++ {
					res := ring.NewPoly(n, lq)
					if ctNTT {
						params.RingQ().AtLevel(lq).INTT(ct.Value[k], res)
					} else {
						res.CopyLvl(lq, ct.Value[k])
					}
					c.Eval(1)
					tol := 1
					if lp < 0 {
						tol = 0
					}
					detail, off := quotVerdict(vals[k], P, qm, res.Coeffs, tol)
					c.Count("moddown_offsets_observed", off)
					if detail != "" {
						cls := "wrong-quotient"
						if lp < 0 {
							// without auxiliary modulus there is nothing to divide by: ct = ctQP in the domain ct asks for
							cls = "levelP-minus-one-not-identity"
							if qpNTT == ctNTT {
								cls += "|same-domain"
							} else {
								cls += "|domain-change"
							}
						}
						c.Violate(entry+"|"+cls, fmt.Sprintf("Q=%v P=%v lq=%d lp=%d ctQP.IsNTT=%v ct.IsNTT=%v component=%d %s", qm, pm, lq, lp, qpNTT, ctNTT, k, detail), cf)
						break
					}
				}
				if evalCopy != nil {
					ctQP2, ct2 := newQP(), newCt()
					c.Count("shallowcopy_calls", 1)
					if c.Try("C02|rlwe.Evaluator.ShallowCopy|ModDown", func() { evalCopy.ModDown(lq, lp, ctQP2, ct2) }) {
						c.Check(eqPoly(ct2.Value[0], ct.Value[0], lq) && eqPoly(ct2.Value[1], ct.Value[1], lq), "C02|rlwe.Evaluator.ShallowCopy|result-differs-from-the-original|ModDown", nil)
					}
				}
			}
		}
	}
}

// ---------------------------------------------------------------------------------------------

func smallVals(rnd *eng.Rand, n int, bound int64) []*big.Int {
	vals := make([]*big.Int, n)
	for j := range vals {
		switch rnd.N(4) {
		case 0:
			vals[j] = big.NewInt(eng.Pick(rnd, bound, -bound, 0, 1, -1, bound-1, 1-bound))
		case 1:
			vals[j] = big.NewInt(int64(rnd.N(41) - 20))
			if vals[j].CmpAbs(big.NewInt(bound)) > 0 {
				vals[j] = big.NewInt(0)
			}
		default:
			vals[j] = big.NewInt(int64(rnd.U64()%uint64(2*bound+1)) - bound)
		}
	}
	return vals
}

func runXSmallNorm(c *eng.Ctx, cf xcfg) {
	rq, rp, err := xrings(cf)
	if err != nil {
		c.Violate("C02|ring.NewRing|error-on-admissible", err.Error(), cf)
		return
	}
	rnd := c.Rand()
	n := rq.N()
	c.Sample(cf)
	q0 := cf.Q[0]
	// the whole range on which "the centred representative modulo Q_0" is also a reduced residue of every target
	boundFor := func(targets []uint64) int64 {
		b := int64((q0 - 1) / 2)
		for _, p := range targets {
			if int64(p)-1 < b {
				b = int64(p) - 1
			}
		}
		return b
	}
	if rp != nil {
		full := ringqp.Ring{RingQ: rq, RingP: rp}
		for lp := 0; lp <= rp.MaxLevel(); lp++ {
			bound := boundFor(cf.P[:lp+1])
			vals := smallVals(rnd, n, bound)
			in := rq.NewPoly()
			setPoly(in, cf.Q, vals)
			in0 := *in.CopyNew()
			oq, op := rq.NewPoly(), rp.NewPoly()
			junk(rnd, op, nil)
			op2 := *op.CopyNew()
			entry := "C02|ringqp.ExtendBasisSmallNormAndCenter"
			c.Distinct(fmt.Sprintf("xsmallnorm/%s/%d", xkey(cf), lp), true)
			c.Max("max_smallnorm_bound_log2", int64(bits.Len64(uint64(bound))))
			if !c.Try(entry, func() { full.ExtendBasisSmallNormAndCenter(in, lp, oq, op) }) {
				continue
			}
			c.Check(eqRows(in, in0), entry+"|input-modified", nil)
			c.Eval(1)
			for j := 0; j < n; j++ {
				bad := false
				for i := 0; i <= lp; i++ {
					if op.Coeffs[i][j] != ref.ModU(vals[j], cf.P[i]) {
						bad = true
					}
				}
				for i := range cf.Q {
					if oq.Coeffs[i][j] != in0.Coeffs[i][j] {
						bad = true
					}
				}
				if bad {
					c.Violate(entry+"|wrong-lift", fmt.Sprintf("Q0=%d x=%v P=%v got=%v", q0, vals[j], cf.P[:lp+1], column(op, j, lp)), cf)
					break
				}
			}
			// in place on the Q part, the way every in-tree caller uses it
			c.Count("smallnorm_in_place", 1)
			if c.Try(entry, func() { full.ExtendBasisSmallNormAndCenter(in, lp, in, op2) }) {
				c.Check(eqRows(in, in0) && eqPoly(op2, op, lp), entry+"|in-place-result-differs", nil)
			}
		}
	}
	if cf.LogN < 4 {
		return // the second entry point goes through the transforms (N > 8)
	}
	// rlwe.ExtendBasisSmallNormAndCenterNTTMontgomery: from Q_0 to P_0..P_lp, to Q_0..Q_l, and in place
	type target struct {
		name    string
		r       *ring.Ring
		moduli  []uint64
		inPlace bool
	}
	var targets []target
	if rp != nil {
		for lp := 0; lp <= rp.MaxLevel(); lp++ {
			targets = append(targets, target{fmt.Sprintf("P%d", lp), rp.AtLevel(lp), cf.P[:lp+1], false})
		}
	}
	for _, l := range []int{rq.MaxLevel(), rnd.N(rq.MaxLevel() + 1)} {
		targets = append(targets, target{fmt.Sprintf("Q%d", l), rq.AtLevel(l), cf.Q[:l+1], true})
	}
	for _, tg := range targets {
		vals := smallVals(rnd, n, boundFor(tg.moduli))
		polQ := rq.NewPoly()
		junk(rnd, polQ, cf.Q)
		setPoly(polQ, cf.Q[:1], vals)
		r0 := rq.AtLevel(0)
		r0.NTT(polQ, polQ)
		r0.MForm(polQ, polQ)
		polQ0 := *polQ.CopyNew()
		polP := ring.NewPoly(n, len(tg.moduli)-1)
		junk(rnd, polP, nil)
		entry := "C02|rlwe.ExtendBasisSmallNormAndCenterNTTMontgomery"
		c.Distinct(fmt.Sprintf("xsmallnormNTT/%s/%s", xkey(cf), tg.name), true)
		c.Count("smallnorm_nttmontgomery_calls", 1)
		if !c.Try(entry, func() { rlwe.ExtendBasisSmallNormAndCenterNTTMontgomery(rq, tg.r, polQ, rq.NewPoly(), polP) }) {
			continue
		}
		c.Check(eqRows(polQ, polQ0), entry+"|input-modified", nil)
		res := ring.NewPoly(n, len(tg.moduli)-1)
		tg.r.IMForm(polP, res)
		tg.r.INTT(res, res)
		c.Eval(1)
		for j := 0; j < n; j++ {
			bad := false
			for i, m := range tg.moduli {
				if res.Coeffs[i][j] != ref.ModU(vals[j], m) {
					bad = true
				}
			}
			if bad {
				c.Violate(entry+"|wrong-lift", fmt.Sprintf("Q0=%d target=%s %v x=%v got=%v", q0, tg.name, tg.moduli, vals[j], column(res, j, len(tg.moduli)-1)), cf)
				break
			}
		}
		if tg.inPlace {
			// receiver = operand (the key generator extends a secret from Q_0 to Q_0..Q_l this way)
			c.Count("smallnorm_nttmontgomery_in_place", 1)
			if c.Try(entry, func() { rlwe.ExtendBasisSmallNormAndCenterNTTMontgomery(rq, tg.r, polQ, rq.NewPoly(), polQ) }) {
				c.Check(eqPoly(polQ, polP, len(tg.moduli)-1), entry+"|in-place-result-differs", nil)
			}
		}
	}
}

// ---------------------------------------------------------------------------------------------

// gadgetWeights returns, for the RNS decomposition of Q_lq into groups of nbPi primes, the integers
// g_d = (Q/Q_d) * ((Q/Q_d)^-1 mod Q_d) and the digit moduli Q_d.
func gadgetWeights(qm []uint64, nbPi int) (g, Qd []*big.Int) {
	Q := prod(qm)
	for st := 0; st < len(qm); st += nbPi {
		ed := min(st+nbPi, len(qm))
		Qg := prod(qm[st:ed])
		qh := new(big.Int).Div(Q, Qg)
		inv := new(big.Int).ModInverse(new(big.Int).Mod(qh, Qg), Qg)
		if inv == nil {
			inv = new(big.Int) // single group: Q/Qg = 1 modulo Qg = 1
			if Qg.Cmp(Q) == 0 {
				inv.SetInt64(1)
			}
		}
		g = append(g, new(big.Int).Mul(qh, inv))
		Qd = append(Qd, Qg)
	}
	return
}

// checkDecompNTT: the ndig polynomials of buf (NTT domain, basis Q_lq P_lp) are integers of magnitude at most
// their digit modulus and recombine to vals modulo Q_lq.
func checkDecompNTT(c *eng.Ctx, cf xcfg, params rlwe.Parameters, entry string, lq, lp int, vals []*big.Int, buf []ringqp.Poly) {
	n := params.N()
	nbPi := lp + 1
	qm := cf.Q[:lq+1]
	Q := prod(qm)
	g, Qd := gadgetWeights(qm, nbPi)
	ndig := len(g)
	rqp := params.RingQP().AtLevel(lq, lp)
	allMods := append(append([]uint64{}, qm...), cf.P[:lp+1]...)
	crtAll := ref.NewCRT(allMods)
	sums := make([]*big.Int, n)
	for j := range sums {
		sums[j] = new(big.Int)
	}
	col := make([]uint64, len(allMods))
	for dg := 0; dg < ndig; dg++ {
		tmp := rqp.NewPoly()
		rqp.INTT(buf[dg], tmp)
		for j := 0; j < n; j++ {
			for i := 0; i <= lq; i++ {
				col[i] = tmp.Q.Coeffs[i][j]
			}
			for i := 0; i <= lp; i++ {
				col[lq+1+i] = tmp.P.Coeffs[i][j]
			}
			d := crtAll.Centered(col)
			if new(big.Int).Abs(d).Cmp(Qd[dg]) > 0 {
				c.Violate(entry+"|digit-exceeds-modulus", fmt.Sprintf("Q=%v P=%v lq=%d lp=%d digit=%d |d|=%v > Qg=%v", qm, cf.P, lq, lp, dg, d, Qd[dg]), cf)
				return
			}
			sums[j].Add(sums[j], d.Mul(d, g[dg]))
		}
	}
	for j := 0; j < n; j++ {
		sums[j].Mod(sums[j], Q)
		if sums[j].Cmp(vals[j]) != 0 {
			c.Violate(entry+"|recombination-wrong", fmt.Sprintf("Q=%v P=%v lq=%d lp=%d x=%v recombined=%v", qm, cf.P, lq, lp, vals[j], sums[j]), cf)
			return
		}
	}
}

func runXDecompose(c *eng.Ctx, cf xcfg) {
	rq, rp, err := xrings(cf)
	if err != nil {
		c.Violate("C02|ring.NewRing|error-on-admissible", err.Error(), cf)
		return
	}
	rnd := c.Rand()
	n := rq.N()
	c.Sample(cf)
	c.Max("max_q_moduli_decomposed", int64(len(cf.Q)))
	// (1) ring.MaskVec: the power-of-two digits of every residue are below 2^w and recombine to it
	for trial := 0; trial < 3; trial++ {
		i := rnd.N(len(cf.Q))
		q := cf.Q[i]
		w := eng.Pick(rnd, 1, 2, 5, 7, 8, 12, 16, 20, 27, 30, 1+rnd.N(30))
		nd := (bits.Len64(q) + w - 1) / w
		src := make([]uint64, n)
		for j := range src {
			switch rnd.N(4) {
			case 0:
				src[j] = q - 1 - uint64(rnd.N(4))
			case 1:
				src[j] = (uint64(1)<<uint(rnd.N(bits.Len64(q))) - uint64(rnd.N(2))) % q
			default:
				src[j] = rnd.U64() % q
			}
		}
		src0 := append([]uint64{}, src...)
		acc := make([]uint64, n)
		okd := true
		for dgt := 0; dgt < nd; dgt++ {
			dst := make([]uint64, n)
			for j := range dst {
				dst[j] = rnd.U64()
			}
			if !c.Try("C02|ring.MaskVec", func() { ring.MaskVec(src, dgt*w, (uint64(1)<<w)-1, dst) }) {
				okd = false
				break
			}
			for j := range dst {
				if dst[j]>>uint(w) != 0 {
					c.Violate("C02|ring.MaskVec|digit-exceeds-modulus", fmt.Sprintf("q=%d w=%d digit=%d x=%d got=%d", q, w, dgt, src0[j], dst[j]), cf)
					okd = false
					break
				}
				acc[j] += dst[j] << uint(dgt*w)
			}
		}
		if !okd {
			continue
		}
		c.Count("maskvec_decompositions", 1)
		c.Distinct(fmt.Sprintf("xmaskvec/%s/%d/%d", xkey(cf), i, w), true)
		same := true
		for j := range src {
			if acc[j] != src0[j] || src[j] != src0[j] {
				same = false
			}
		}
		c.Check(same, "C02|ring.MaskVec|recombination-wrong", func() string { return fmt.Sprintf("q=%d w=%d digits=%d", q, w, nd) })
	}
	// (2) Decomposer.DecomposeAndSplit: levelP = -1 although a ring P exists (one prime per digit), and the
	// regular (levelQ, levelP) table on configurations the first family does not generate.
	var dec *ring.Decomposer
	if !c.Try("C02|ring.NewDecomposer", func() { dec = ring.NewDecomposer(rq, rp) }) {
		return
	}
	maxLP := -1
	if rp != nil {
		maxLP = rp.MaxLevel()
	}
	for _, pr := range levelPairs(rnd, rq.MaxLevel(), maxLP+1, 8) {
		lq, lp := pr[0], pr[1]-1
		nbPi := max(lp+1, 1)
		ndig := (lq + nbPi) / nbPi
		qm := cf.Q[:lq+1]
		Q := prod(qm)
		digits := []int{0, ndig - 1, rnd.N(ndig)}
		for di, dg := range digits {
			if di > 0 && dg == digits[di-1] {
				continue
			}
			st := dg * nbPi
			ed := min(st+nbPi, lq+1)
			group := qm[st:ed]
			Qg := prod(group)
			vals := boundaryValues(rnd, n, Q, Qg)
			in := rq.NewPoly()
			junk(rnd, in, cf.Q)
			setPoly(in, qm, vals)
			in0 := *in.CopyNew()
			oq := rq.NewPoly()
			var op ring.Poly
			if rp != nil {
				op = rp.NewPoly()
			}
			c.Distinct(fmt.Sprintf("xdecomp/%s/%d/%d/%d", xkey(cf), lq, lp, dg), true)
			if lp == -1 && rp != nil {
				c.Count("decompose_levelP_minus1_with_P", 1)
			}
			entry := "C02|Decomposer.DecomposeAndSplit"
			if !c.Try(entry, func() { dec.DecomposeAndSplit(lq, lp, nbPi, dg, in, oq, op) }) {
				continue
			}
			c.Check(eqRows(in, in0), entry+"|input-modified", nil)
			c.Eval(1)
			crtg := ref.NewCRT(group)
			for j := 0; j < n; j++ {
				col := make([]uint64, len(group))
				for i := range group {
					col[i] = in.Coeffs[st+i][j]
				}
				xc := crtg.Centered(col)
				var rows, mods []uint64
				for i := 0; i <= lq; i++ {
					if i >= st && i < ed && len(group) > 1 {
						continue
					}
					rows = append(rows, oq.Coeffs[i][j])
					mods = append(mods, qm[i])
				}
				for i := 0; i <= lp; i++ {
					rows = append(rows, op.Coeffs[i][j])
					mods = append(mods, cf.P[i])
				}
				ok, k := digitOK(xc, Qg, rows, mods)
				if !ok {
					c.Violate(entry+"|digit-wrong", fmt.Sprintf("Q=%v P=%v lq=%d lp=%d digit=%d group=%v x=%v centred-digit=%v rows=%v moduli=%v", qm, cf.P, lq, lp, dg, group, vals[j], xc, rows, mods), cf)
					break
				}
				if k != 0 {
					c.Count("digit_offsets_observed", 1)
				}
			}
		}
	}
	// (3) rlwe.Evaluator.DecomposeNTT through ShallowCopy into buffers allocated by the caller
	if rp == nil || cf.LogN < rlwe.MinLogN {
		return
	}
	params, err := xparams(cf)
	if err != nil {
		c.Violate("C02|rlwe.NewParametersFromLiteral|error-on-admissible", err.Error(), cf)
		return
	}
	eval := rlwe.NewEvaluator(params, nil)
	var evalCopy *rlwe.Evaluator
	if !c.Try("C02|rlwe.Evaluator.ShallowCopy", func() { evalCopy = eval.ShallowCopy() }) {
		return
	}
	entry := "C02|rlwe.Evaluator.DecomposeNTT"
	for _, pr := range levelPairs(rnd, rq.MaxLevel(), rp.MaxLevel(), 4) {
		lq, lp := pr[0], pr[1]
		for _, isNTT := range []bool{true, false} {
			qm := cf.Q[:lq+1]
			Q := prod(qm)
			ndig := params.BaseRNSDecompositionVectorSize(lq, lp)
			vals := boundaryValues(rnd, n, Q, prod(qm[:min(lp+1, lq+1)]))
			in := ring.NewPoly(n, lq)
			setPoly(in, qm, vals)
			if isNTT {
				rq.AtLevel(lq).NTT(in, in)
			}
			in0 := *in.CopyNew()
			rqp := params.RingQP().AtLevel(lq, lp)
			buf, buf2 := make([]ringqp.Poly, ndig), make([]ringqp.Poly, ndig)
			for i := range buf {
				buf[i] = rqp.NewPoly()
				junk(rnd, buf[i].Q, qm)
				junk(rnd, buf[i].P, cf.P)
				buf2[i] = *buf[i].CopyNew()
			}
			c.Distinct(fmt.Sprintf("xdecompNTT/%s/%d/%d/%v", xkey(cf), lq, lp, isNTT), true)
			c.Count("decomposentt_own_buffer_calls", 1)
			if !c.Try(entry, func() { eval.DecomposeNTT(lq, lp, lp+1, in, isNTT, buf) }) {
				continue
			}
			c.Check(eqRows(in, in0), entry+"|input-modified", nil)
			c.Eval(1)
			checkDecompNTT(c, cf, params, entry, lq, lp, vals, buf)
			c.Count("shallowcopy_calls", 1)
			if c.Try("C02|rlwe.Evaluator.ShallowCopy|DecomposeNTT", func() { evalCopy.DecomposeNTT(lq, lp, lp+1, in, isNTT, buf2) }) {
				same := true
				for i := range buf {
					same = same && eqQP(buf[i], buf2[i])
				}
				c.Check(same, "C02|rlwe.Evaluator.ShallowCopy|result-differs-from-the-original|DecomposeNTT", nil)
			}
		}
	}
}

// ---------------------------------------------------------------------------------------------

func eqQP(a, b ringqp.Poly) bool {
	return eqRows(a.Q, b.Q) && eqRows(a.P, b.P)
}

func runXGadget(c *eng.Ctx, cf xcfg) {
	params, err := xparams(cf)
	if err != nil {
		c.Violate("C02|rlwe.NewParametersFromLiteral|error-on-admissible", err.Error(), cf)
		return
	}
	rnd := c.Rand()
	c.Sample(cf)
	n := params.N()
	eval := rlwe.NewEvaluator(params, nil)
	var evalCopy *rlwe.Evaluator
	if rnd.Bool() {
		if !c.Try("C02|rlwe.Evaluator.ShallowCopy", func() { evalCopy = eval.ShallowCopy() }) {
			return
		}
	}
	maxLQ, maxLP := params.MaxLevelQ(), params.MaxLevelP()
	for trial := 0; trial < 4; trial++ {
		lq := maxLQ
		if trial > 1 {
			lq = rnd.N(maxLQ + 1)
		}
		lp := rnd.N(maxLP+2) - 1
		if trial == 0 && maxLP >= 0 {
			lp = maxLP
		}
		w := 0
		if lp <= 0 && rnd.N(3) == 0 {
			w = eng.Pick(rnd, 1, 2, 5, 7, 8, 12, 16, 20, 27, 30, 1+rnd.N(30))
			if len(cf.Q) > 8 && w < 8 {
				w = 16 // keep the gadget ciphertext of long chains small
			}
		}
		var gct *rlwe.GadgetCiphertext
		if !c.Try("C02|rlwe.NewGadgetCiphertext", func() { gct = rlwe.NewGadgetCiphertext(params, 1, lq, lp, w) }) {
			continue
		}
		rqk := params.RingQ().AtLevel(lq)
		one := rqk.NewPoly()
		for i := 0; i <= lq; i++ {
			one.Coeffs[i][0] = 1
		}
		rqk.NTT(one, one)
		rqk.MForm(one, one)
		var aerr error
		if !c.Try("C02|rlwe.AddPolyTimesGadgetVectorToGadgetCiphertext", func() {
			aerr = rlwe.AddPolyTimesGadgetVectorToGadgetCiphertext(one, []rlwe.GadgetCiphertext{*gct}, *params.RingQP(), rqk.NewPoly())
		}) {
			continue
		}
		if aerr != nil {
			c.Violate("C02|rlwe.AddPolyTimesGadgetVectorToGadgetCiphertext|error", aerr.Error(), cf)
			continue
		}
		level := lq
		if rnd.Bool() {
			level = rnd.N(lq + 1)
		}
		rq := params.RingQ().AtLevel(level)
		rqp := params.RingQP().AtLevel(level, lp)
		qm := cf.Q[:level+1]
		Q := prod(qm)
		entries := []string{"GadgetProduct", "GadgetProductLazy"}
		if w == 0 && lp >= 0 {
			entries = append(entries, "GadgetProductHoisted", "GadgetProductHoistedLazy")
		}
		for _, ep := range entries {
			isNTT := rnd.Bool()
			vals := boundaryValues(rnd, n, Q, new(big.Int).SetUint64(qm[rnd.N(level+1)]))
			in := ring.NewPoly(n, level)
			setPoly(in, qm, vals)
			if isNTT {
				rq.NTT(in, in)
			}
			in0 := *in.CopyNew()
			newCt := func() *rlwe.Ciphertext {
				ct := rlwe.NewCiphertext(params, 1, level)
				ct.IsNTT = isNTT
				return ct
			}
			newQP := func() *rlwe.Element[ringqp.Poly] {
				e := &rlwe.Element[ringqp.Poly]{MetaData: &rlwe.MetaData{}}
				e.IsNTT = isNTT
				for k := 0; k < 2; k++ {
					e.Value = append(e.Value, rqp.NewPoly())
				}
				return e
			}
			hoisted := ep == "GadgetProductHoisted" || ep == "GadgetProductHoistedLazy"
			// run computes (c0, c1) modulo Q_level in the coefficient domain with the given evaluator
			run := func(ev *rlwe.Evaluator, sig string) (got [2]ring.Poly, ok bool) {
				var hoist []ringqp.Poly
				if hoisted {
					hoist = make([]ringqp.Poly, params.BaseRNSDecompositionVectorSize(level, lp))
					for i := range hoist {
						hoist[i] = rqp.NewPoly()
					}
					if !c.Try(sig+"|DecomposeNTT", func() { ev.DecomposeNTT(level, lp, lp+1, in, isNTT, hoist) }) {
						return got, false
					}
				}
				ct := newCt()
				var gerr error
				if !c.Try(sig, func() {
					switch ep {
					case "GadgetProduct":
						ev.GadgetProduct(level, in, gct, ct)
					case "GadgetProductHoisted":
						ev.GadgetProductHoisted(level, hoist, gct, ct)
					case "GadgetProductLazy", "GadgetProductHoistedLazy":
						e := newQP()
						if ep == "GadgetProductLazy" {
							gerr = ev.GadgetProductLazy(level, in, gct, e)
						} else {
							gerr = ev.GadgetProductHoistedLazy(level, hoist, gct, e)
						}
						if gerr != nil {
							return
						}
						if lp >= 0 {
							// the division by P is the ModDown of the previous family; here it only brings the result to Q
							ev.ModDown(level, lp, e, ct)
						} else {
							// no auxiliary modulus: the lazy result modulo Q_level is the result
							ct.Value[0].CopyLvl(level, e.Value[0].Q)
							ct.Value[1].CopyLvl(level, e.Value[1].Q)
						}
					}
				}) {
					return got, false
				}
				if gerr != nil {
					c.Violate(sig+"|error-on-admissible", gerr.Error(), cf)
					return got, false
				}
				for k := 0; k < 2; k++ {
					got[k] = ring.NewPoly(n, level)
					got[k].CopyLvl(level, ct.Value[k])
					if isNTT {
						rq.INTT(got[k], got[k])
					}
				}
				return got, true
			}
			sig := "C02|rlwe.Evaluator." + ep
			c.Distinct(fmt.Sprintf("xgadget/%s/%s/%d/%d/%d/%d/%v", ep, xkey(cf), lq, lp, w, level, isNTT), true)
			got, ok := run(eval, sig)
			if !ok {
				continue
			}
			c.Count("gadget_recombinations", 1)
			c.Count("gadget_"+ep, 1)
			if lp == -1 && len(cf.P) > 0 {
				c.Count("gadget_levelP_minus1_with_P", 1)
			}
			c.Check(eqRows(in, in0), sig+"|input-modified", nil)
			tol := uint64(0)
			if lp >= 0 {
				tol = 1
			}
			okv, ok1 := true, true
			var where string
			for i := 0; i <= level && okv; i++ {
				q := qm[i]
				for j := 0; j < n; j++ {
					want := ref.ModU(vals[j], q)
					g := got[0].Coeffs[i][j]
					d := (g%q + q - want) % q
					if d > q/2 {
						d = q - d
					}
					if g >= q || d > tol {
						okv = false
						where = fmt.Sprintf("modulus %d (%d) coefficient %d: got %d want %d", i, q, j, g, want)
						break
					}
					if got[1].Coeffs[i][j] != 0 {
						ok1 = false
					}
				}
			}
			desc := func() string {
				return fmt.Sprintf("Q=%v P=%v keyLevelQ=%d keyLevelP=%d BaseTwoDecomposition=%d level=%d isNTT=%v: %s", cf.Q, cf.P, lq, lp, w, level, isNTT, where)
			}
			c.Check(okv, sig+"|digits-do-not-recombine-to-the-input", desc)
			c.Check(ok1, sig+"|second-component-not-zero", desc)
			if evalCopy != nil {
				c.Count("shallowcopy_calls", 1)
				if got2, ok2 := run(evalCopy, "C02|rlwe.Evaluator.ShallowCopy|"+ep); ok2 {
					c.Check(eqRows(got2[0], got[0]) && eqRows(got2[1], got[1]), "C02|rlwe.Evaluator.ShallowCopy|result-differs-from-the-original|"+ep, desc)
				}
			}
		}
		// documented refusals: an error, no panic, receiver untouched
		refuse := func(entry string, e *rlwe.Element[ringqp.Poly], call func(e *rlwe.Element[ringqp.Poly]) error) {
			before := []ringqp.Poly{*e.Value[0].CopyNew(), *e.Value[1].CopyNew()}
			var rerr error
			sig := "C02|rlwe.Evaluator." + entry
			if !c.Try(sig+"|refusal", func() { rerr = call(e) }) {
				return
			}
			c.Count("refusals_observed", 1)
			c.Check(rerr != nil, sig+"|refusal|no-error", nil)
			c.Check(eqQP(e.Value[0], before[0]) && eqQP(e.Value[1], before[1]), sig+"|refusal|receiver-modified", nil)
		}
		in := ring.NewPoly(n, level)
		junk(rnd, in, qm)
		mk := func(plevel int) *rlwe.Element[ringqp.Poly] {
			e := &rlwe.Element[ringqp.Poly]{MetaData: &rlwe.MetaData{}}
			e.IsNTT = true
			for k := 0; k < 2; k++ {
				p := ringqp.NewPoly(n, level, plevel)
				junk(rnd, p.Q, qm)
				if plevel >= 0 {
					junk(rnd, p.P, cf.P)
				}
				e.Value = append(e.Value, p)
			}
			return e
		}
		if lp >= 0 {
			// receiver with fewer P moduli than the key
			refuse("GadgetProductLazy", mk(lp-1), func(e *rlwe.Element[ringqp.Poly]) error { return eval.GadgetProductLazy(level, in, gct, e) })
		}
		if w != 0 && lp >= 0 {
			hoist := make([]ringqp.Poly, params.BaseRNSDecompositionVectorSize(level, lp))
			for i := range hoist {
				hoist[i] = rqp.NewPoly()
			}
			refuse("GadgetProductHoistedLazy", mk(lp), func(e *rlwe.Element[ringqp.Poly]) error {
				return eval.GadgetProductHoistedLazy(level, hoist, gct, e)
			})
		}
	}
}

// ---------------------------------------------------------------------------------------------

// runXLongChain: a chain of 34 primes is accepted by ring.NewRing / rlwe.NewParameters; extending from the
// first levelQ+1 of them must work at every level (or, at the very least, not crash).
func runXLongChain(c *eng.Ctx, cf xcfg) {
	rq, rp, err := xrings(cf)
	if err != nil {
		c.Violate("C02|ring.NewRing|error-on-admissible", err.Error(), cf)
		return
	}
	var be *ring.BasisExtender
	if !c.Try("C02|ring.NewBasisExtender", func() { be = ring.NewBasisExtender(rq, rp) }) {
		return
	}
	rnd := c.Rand()
	n := rq.N()
	c.Sample(cf)
	for _, lq := range []int{30, 31, 32, 33} {
		src := cf.Q[:lq+1]
		S := prod(src)
		vals := liftInputs(rnd, n, src)
		in := rq.NewPoly()
		setPoly(in, src, vals)
		out := rp.NewPoly()
		c.Distinct(fmt.Sprintf("xlongchain/%d", lq), true)
		c.Max("max_source_moduli", int64(lq+1))
		c.Eval(1)
		if p, v := eng.Panics(func() { be.ModUpQtoP(lq, 0, in, out) }); p {
			sig := "C02|BasisExtender.ModUpQtoP|panic"
			if lq >= 32 {
				sig += "|source-basis-of-more-than-32-moduli"
			}
			c.Violate(sig, fmt.Sprintf("ring.NewRing accepted %d moduli; ModUpQtoP(levelQ=%d, levelP=0): panic: %v", len(cf.Q), lq, v), cf)
			continue
		}
		class, detail, off := liftVerdict(vals, S, cf.P[:1], out.Coeffs, belowQuarter(S))
		c.Count("modup_offsets_observed", off)
		if class != "" {
			c.Violate("C02|BasisExtender.ModUpQtoP|"+class, fmt.Sprintf("levelQ=%d %s", lq, detail), cf)
		}
	}
}
