package c05

import (
	"fmt"
	"math"
	"math/big"
	"strings"

	"github.com/tuneinsight/lattigo/v6/core/rlwe"
	"github.com/tuneinsight/lattigo/v6/schemes/bgv"

	"verif/harness/eng"
	"verif/harness/ref"
)

// cval is a live ciphertext together with everything the model knows about it.
type cval struct {
	ct     *rlwe.Ciphertext
	m      []uint64 // slot values in [0,t)
	scale  uint64   // element of Z_t^*
	level  int
	degree int
	V      *big.Int // measured ||T*phase||_inf
	depth  int
}

type pval struct {
	pt    *rlwe.Plaintext
	m     []uint64
	scale uint64
	level int
}

type prog struct {
	e        *env
	r        *eng.Rand
	pool     []*cval
	text     []string
	kinds    map[string]bool
	neq      bool
	maxDepth int
	executed int
}

// step is one proposed evaluator call.
type step struct {
	method  string // Add Sub Mul MulRelin MulScaleInvariant MulRelinScaleInvariant MulThenAdd MulRelinThenAdd Rescale Relinearize
	newForm bool
	op0     *cval
	k       string // operand class: ct pt scalar vector none
	kind    string // precise Go type of op1
	op1     rlwe.Operand
	c1      *cval
	p1      *pval
	m1      []uint64 // slot-wise value of op1
	absC    *big.Int // |centred scalar|
	outMode string   // new fresh op0 op1 recycled acc zero
	out     *rlwe.Ciphertext
	outc    *cval  // pool entry that is overwritten (nil for new/fresh)
	tag     string // extra signature predicate of a dedicated family (e.g. rdeg=0)
	asEl    bool   // op1 is handed over as *rlwe.Element (ct.El() / pt.El()) instead of the wrapper
	dirty   bool   // the fresh receiver carries stale metadata that the operation documents to re-initialise
}

// expect is the documented outcome of a step.
type expect struct {
	err       bool // an error is the documented outcome
	errOK     bool // the documentation announces an error but a correct value is harmless: accept both
	level     int
	degree    int
	degMin    int // >0: any degree in [degMin, degree] is accepted (the value check decides)
	scale     uint64
	scaleFree bool // any unit scale (automatic scale matching)
	m         []uint64
	bound     *big.Int
	depth     int
	flags     []string // od> od< ol> (signature predicate)
	tflags    []string // extra flags for the normalised text only
	trigger   bool     // shape known to hit an already triaged defect: sampled rarely
	neq       bool
}

func (s *step) outName() string {
	switch s.outMode {
	case "new", "fresh", "recycled":
		return "other"
	case "zero":
		return "acc"
	}
	return s.outMode
}

func (p *prog) pred(s *step, x *expect) string {
	parts := []string{"k=" + s.k, "out=" + s.outName()}
	if x != nil && x.neq && (s.k == "ct" || s.k == "pt") {
		parts = append(parts, "sc=neq")
	}
	if p.e.si && (s.method == "Mul" || s.method == "MulRelin") && (s.k == "ct" || s.k == "pt" || s.k == "vector") {
		parts = append(parts, "mode=bfv")
	}
	if x != nil {
		parts = append(parts, x.flags...)
	}
	if s.tag != "" {
		parts = append(parts, s.tag)
	}
	return strings.Join(parts, ",")
}

// tAboveSomeQ reports whether a prime of the chain (other than Q[0]) is smaller than t.
func (e *env) tAboveSomeQ() bool {
	for _, q := range e.cf.Q {
		if q < e.t {
			return true
		}
	}
	return false
}

func (p *prog) desc(s *step, x *expect) string {
	name := s.method
	if s.newForm {
		name += "New"
	}
	fl := ""
	if x != nil {
		if x.neq {
			fl += ",neq"
		}
		seen := map[string]bool{}
		for _, f := range append(append([]string{}, x.flags...), x.tflags...) {
			if !seen[f] {
				seen[f] = true
				fl += "," + f
			}
		}
		if x.err {
			fl += ",err"
		}
	}
	if s.asEl {
		fl += ",el"
	}
	if s.dirty {
		fl += ",dirty"
	}
	if s.tag != "" {
		fl += "," + s.tag
	}
	return fmt.Sprintf("%s(%s;%s%s)", name, s.kind, s.outMode, fl)
}

// ---------------------------------------------------------------------------------------------
// operand generators

func (p *prog) pickScale() uint64 {
	t := p.e.t
	switch p.r.N(10) {
	case 0, 1, 2, 3:
		return 1
	case 4:
		return 2
	case 5:
		return 3
	case 6:
		return 7 % t
	case 7:
		return t - 1
	case 8:
		return (t + 1) / 2
	}
	return 1 + p.r.U64()%(t-1)
}

func (p *prog) slotVals() []uint64 {
	t := p.e.t
	n := p.e.slots
	v := make([]uint64, n)
	switch p.r.N(7) {
	case 0, 1, 2:
		for i := range v {
			v[i] = p.r.U64() % t
		}
	case 3:
		for i := range v {
			v[i] = t - 1
		}
	case 4:
		ext := []uint64{0, 1, t - 1, t / 2, t/2 + 1, t - 2, 2}
		for i := range v {
			v[i] = ext[p.r.N(len(ext))]
		}
	case 5:
		v[p.r.N(n)] = p.r.U64() % t
	case 6:
		k := 1 + p.r.N(n)
		for i := 0; i < k; i++ {
			v[i] = p.r.U64() % t
		}
	}
	return v
}

func (p *prog) freshCt(level int, scale uint64) *cval {
	e := p.e
	m := p.slotVals()
	pt := bgv.NewPlaintext(e.params, level)
	pt.Scale = e.params.NewScale(scale)
	if err := e.ecd.Encode(m, pt); err != nil {
		panic(fmt.Errorf("oracle encode: %w", err))
	}
	ct, err := e.enc.EncryptNew(pt)
	if err != nil {
		panic(fmt.Errorf("oracle encrypt: %w", err))
	}
	cv := &cval{ct: ct, m: m, scale: scale, level: level, degree: 1, V: e.noise(ct)}
	return cv
}

// freshBound is the a-priori worst-case ||m' + T*e||_inf of a fresh encryption (sk: |e| <= B;
// pk: |u*e_pk + e0 + e1*s| <= (N+1+||s||_1)*B, plus the rounding of the division by P).
func (e *env) freshBound() *big.Int {
	E := e.errB
	if e.cf.Enc == "pk" {
		E = (e.uL1+1+e.s1)*e.errB + (1+e.s1)/2 + 2
	}
	return mulB(e.tb, bI(E+2))
}

// newFresh draws a fresh ciphertext whose a-priori noise bound is inside the budget of its level
// and checks the baseline (it decodes to m, its measured noise respects the a-priori bound).
func (p *prog) newFresh() *cval {
	e := p.e
	fb := e.freshBound()
	// keep three bits of head room so that at least additions remain possible
	fb8 := new(big.Int).Lsh(fb, 3)
	for try := 0; try < 4; try++ {
		level := e.maxLvl
		if try == 0 && p.r.N(10) < 4 {
			level = p.r.N(e.maxLvl + 1)
		}
		if !e.budget(fb8, level) {
			e.c.Count("fresh_out_of_budget", 1)
			continue
		}
		cv := p.freshCt(level, p.pickScale())
		got := e.decode(cv.ct)
		if got == nil || !equalU(got, cv.m) || cv.V.Cmp(fb) > 0 {
			e.c.Violate("C05|baseline|fresh-ciphertext-does-not-decode", fmt.Sprintf("%v level=%d scale=%d noise=2^%.1f a-priori bound 2^%.1f Q=2^%.1f", e.cf, level, cv.scale, log2(cv.V), log2(fb), log2(e.Ql[level])), e.cf)
			return nil
		}
		return cv
	}
	return nil
}

func (p *prog) newPt() *pval {
	e := p.e
	level := e.maxLvl
	if p.r.N(3) == 0 {
		level = p.r.N(e.maxLvl + 1)
	}
	m := p.slotVals()
	pt := bgv.NewPlaintext(e.params, level)
	sc := p.pickScale()
	pt.Scale = e.params.NewScale(sc)
	if err := e.ecd.Encode(m, pt); err != nil {
		panic(fmt.Errorf("oracle encode: %w", err))
	}
	return &pval{pt: pt, m: m, scale: sc, level: level}
}

// scalar draws a scalar operand of one of the four documented Go types, hostile values included.
func (p *prog) scalar() (op rlwe.Operand, kind string, val uint64, absC *big.Int) {
	t := p.e.t
	r := p.r
	var b *big.Int
	switch r.N(4) {
	case 0:
		kind = "*big.Int"
		switch r.N(9) {
		case 0:
			b = big.NewInt(0)
		case 1:
			b = big.NewInt(-1)
		case 2:
			b = bi(t)
		case 3:
			b = new(big.Int).Neg(bi(t + 1))
		case 4:
			b = new(big.Int).Lsh(bi(r.U64()), 150)
			b.Add(b, bi(r.U64()))
		case 5:
			b = new(big.Int).Lsh(bi(r.U64()), 150)
			b.Add(b, bi(r.U64()))
			b.Neg(b)
		case 6:
			b = bi(t / 2)
		case 7:
			b = bi(t/2 + 1)
		default:
			b = bi(r.U64() % t)
		}
		op = new(big.Int).Set(b) // the library may normalise its *big.Int argument in place (property C09)
	case 1:
		kind = "uint64"
		u := eng.Pick(r, 0, 1, 2, t-1, t, t+1, ^uint64(0), uint64(1)<<63, r.U64()%t, r.U64(), 3)
		op, b = u, bi(u)
	case 2:
		kind = "int64"
		i := eng.Pick(r, 0, 1, -1, -2, -int64(t), -int64(t)-1, -int64(t/2), math.MinInt64, math.MaxInt64, int64(r.U64()), int64(r.U64()%t), -int64(r.U64()%t))
		op, b = i, big.NewInt(i)
	default:
		kind = "int"
		i := eng.Pick(r, 0, 1, -1, 5, -int64(t), -int64(t)-1, math.MinInt64, math.MaxInt64, int64(r.U64()), -int64(r.U64()%t))
		op, b = int(i), big.NewInt(i)
	}
	val = modT(b, t)
	if val > t/2 {
		absC = bi(t - val)
	} else {
		absC = bi(val)
	}
	return
}

// vector draws a []uint64 / []int64 operand: short, full, with values >= t and < -t.
func (p *prog) vector() (op rlwe.Operand, kind string, m []uint64) {
	e := p.e
	t := e.t
	r := p.r
	n := e.slots
	ln := n
	switch r.N(8) {
	case 0:
		ln = 1
	case 1:
		ln = r.N(n + 1)
	case 2:
		ln = n - 1
	case 3:
		if r.N(4) == 0 {
			ln = 0
		}
	}
	m = make([]uint64, n)
	hostile := r.N(3) == 0
	if r.Bool() {
		kind = "[]uint64"
		v := make([]uint64, ln)
		for i := range v {
			v[i] = r.U64() % t
			if hostile {
				switch r.N(6) {
				case 0:
					v[i] = t
				case 1:
					v[i] = ^uint64(0)
				case 2:
					v[i] = r.U64()
				case 3:
					v[i] = t + 1
				case 4:
					v[i] = t - 1
				}
			}
			m[i] = v[i] % t
		}
		return v, kind, m
	}
	kind = "[]int64"
	v := make([]int64, ln)
	for i := range v {
		x := int64(r.U64() % t)
		if x > int64(t/2) {
			x -= int64(t)
		}
		if hostile {
			switch r.N(7) {
			case 0:
				x = -int64(t)
			case 1:
				x = -int64(t) - 1
			case 2:
				x = math.MinInt64
			case 3:
				x = math.MaxInt64
			case 4:
				x = int64(r.U64())
			case 5:
				x = -int64(t / 2)
			}
		}
		v[i] = x
		m[i] = modT(big.NewInt(x), t)
	}
	return v, kind, m
}

// ---------------------------------------------------------------------------------------------
// model helpers

func (e *env) mulT(a, b uint64) uint64 { return ref.MulMod(a, b, e.t) }
func (e *env) invT(a uint64) uint64    { return ref.InvMod(a, e.t) }

func (e *env) vAdd(a, b []uint64) []uint64 {
	o := make([]uint64, len(a))
	for i := range a {
		o[i] = ref.AddMod(a[i], b[i], e.t)
	}
	return o
}
func (e *env) vSub(a, b []uint64) []uint64 {
	o := make([]uint64, len(a))
	for i := range a {
		o[i] = ref.SubMod(a[i], b[i], e.t)
	}
	return o
}
func (e *env) vMul(a, b []uint64) []uint64 {
	o := make([]uint64, len(a))
	for i := range a {
		o[i] = ref.MulMod(a[i], b[i], e.t)
	}
	return o
}
func bcast(v uint64, n int) []uint64 {
	o := make([]uint64, n)
	for i := range o {
		o[i] = v
	}
	return o
}
func equalU(a, b []uint64) bool {
	if len(a) != len(b) {
		return false
	}
	for i := range a {
		if a[i] != b[i] {
			return false
		}
	}
	return true
}

// recorded scale as an element of Z_t; ok=false when it is not an integer in [1,t)
func (e *env) scaleOf(ct *rlwe.Ciphertext) (uint64, bool) {
	if ct.MetaData == nil {
		return 0, false
	}
	f := &ct.Scale.Value
	if !f.IsInt() {
		return 0, false
	}
	i, _ := f.Int(nil)
	if i.Sign() <= 0 || i.Cmp(e.tb) >= 0 {
		return 0, false
	}
	return i.Uint64(), true
}

// decode = Encoder.Decode(Decryptor.DecryptNew(ct)) with the recorded scale; nil when it panics.
func (e *env) decode(ct *rlwe.Ciphertext) (vals []uint64) {
	p, _ := eng.Panics(func() {
		pt := e.dec.DecryptNew(ct)
		v := make([]uint64, e.slots)
		if err := e.ecd.Decode(pt, v); err == nil {
			vals = v
		}
	})
	if p {
		return nil
	}
	return vals
}

// qModTNegInv = (-Q_level mod t)^-1 mod t: the factor the scale-invariant product documents.
func (e *env) siFactor(level int) uint64 {
	qm := new(big.Int).Mod(e.Ql[level], e.tb).Uint64()
	return e.invT(e.t - qm)
}

func min2(a, b int) int {
	if a < b {
		return a
	}
	return b
}
func max2(a, b int) int {
	if a > b {
		return a
	}
	return b
}

// ---------------------------------------------------------------------------------------------
// expectation (documented behaviour) of a proposed step

const inf = 1 << 20

func (p *prog) expect(s *step) *expect {
	e := p.e
	a := s.op0
	x := &expect{depth: a.depth}
	lout, dout := inf, -1
	var sout uint64 = 1 // New forms allocate their receiver with the default scale 1
	if s.out != nil {
		lout, dout = s.out.Level(), s.out.Degree()
		sout, _ = e.scaleOf(s.out)
	}
	l1, d1 := inf, 0
	var S1 uint64 = 1
	V1 := new(big.Int)
	switch s.k {
	case "ct":
		l1, d1, S1, V1 = s.c1.level, s.c1.degree, s.c1.scale, s.c1.V
		if s.c1.depth > x.depth {
			x.depth = s.c1.depth
		}
	case "pt":
		l1, d1, S1, V1 = s.p1.level, 0, s.p1.scale, e.tb // coefficients of T*pt lie in [0,t)
	}
	lin := min2(a.level, l1)
	if lout > lin && lout != inf {
		x.tflags = append(x.tflags, "ol>")
	} else if lout < lin {
		x.tflags = append(x.tflags, "ol<")
	}
	if l1 != inf && l1 != a.level {
		x.tflags = append(x.tflags, "lv!=")
	}
	if a.degree == 2 {
		x.tflags = append(x.tflags, "d2")
	}
	if s.k == "ct" && s.c1 == a {
		x.tflags = append(x.tflags, "sq")
	}
	N := bI(int64(e.n))
	switch s.method {
	case "Add", "Sub":
		f := e.vAdd
		if s.method == "Sub" {
			f = e.vSub
		}
		x.m = f(a.m, s.m1)
		switch s.k {
		case "ct", "pt":
			x.level = min2(lin, lout)
			nat := max2(a.degree, d1)
			x.degree = max2(nat, dout)
			if dout > nat {
				x.flags = append(x.flags, "od>")
			}
			if a.scale == S1 {
				x.scale = a.scale
				x.bound = addB(a.V, V1)
				x.trigger = dout > nat
				if d1 > a.degree {
					x.flags = append(x.flags, "d1>d0")
					x.trigger = x.trigger || s.method == "Sub"
				}
			} else {
				x.neq, x.scaleFree = true, true
				x.bound = mulB(e.tb, addB(a.V, V1))
				x.trigger = s.outMode == "op1"
			}
		case "scalar":
			x.level, x.degree, x.scale = min2(a.level, lout), a.degree, a.scale
			x.bound = addB(a.V, new(big.Int).Rsh(e.tb, 1), big.NewInt(1))
			x.trigger = s.outMode != "op0" && sout != a.scale
		case "vector":
			x.level, x.degree, x.scale = min2(a.level, lout), a.degree, a.scale
			x.bound = addB(a.V, e.tb)
		}
	case "Mul", "MulRelin", "MulScaleInvariant", "MulRelinScaleInvariant":
		relin := strings.Contains(s.method, "Relin")
		si := strings.Contains(s.method, "ScaleInvariant") || e.si
		x.m = e.vMul(a.m, s.m1)
		switch s.k {
		case "ct":
			if a.degree+d1 > 2 || (relin && e.noRlk) {
				x.err = true
				return x
			}
			x.level = min2(lin, lout)
			x.degree = 2
			if relin {
				x.degree = 1
			}
			x.neq = a.scale != S1
			x.scale = e.mulT(a.scale, S1)
			if si {
				x.scale = e.mulT(x.scale, e.siFactor(x.level))
				x.bound = e.bTensorSI(x.level, a.V, V1)
				x.trigger = s.outMode == "op1" && x.neq
			} else {
				x.bound = e.bMul(a.V, V1)
			}
			if relin {
				x.bound.Add(x.bound, e.bKS(x.level))
			}
			x.depth++
		case "pt":
			x.level, x.degree = min2(lin, lout), a.degree
			x.neq = a.scale != S1
			x.scale = e.mulT(a.scale, S1)
			x.bound = mulB(N, a.V, e.tb)
			x.depth++
		case "scalar":
			x.level, x.degree, x.scale = min2(a.level, lout), a.degree, a.scale
			x.bound = mulB(a.V, s.absC)
			x.trigger = s.outMode != "op0" && sout != a.scale
		case "vector":
			x.level, x.degree, x.scale = min2(a.level, lout), a.degree, a.scale
			x.bound = mulB(N, a.V, e.tb)
			x.depth++
		}
	case "MulThenAdd", "MulRelinThenAdd":
		relin := s.method == "MulRelinThenAdd"
		acc := s.outc
		accM, accV, accS := make([]uint64, e.slots), new(big.Int), uint64(1)
		if acc != nil {
			accM, accV, accS = acc.m, acc.V, acc.scale
			if acc.depth > x.depth {
				x.depth = acc.depth
			}
		}
		x.m = e.vAdd(accM, e.vMul(a.m, s.m1))
		switch s.k {
		case "ct", "pt":
			if a.degree+d1 > 2 || s.outMode == "op0" || s.outMode == "op1" || (s.k == "ct" && relin && e.noRlk) {
				x.err = true
				return x
			}
			x.level = min2(lin, lout)
			var prod *big.Int
			if s.k == "ct" {
				prod = e.bMul(a.V, V1)
				if relin {
					x.degree = max2(1, dout)
				} else {
					x.degree = 2
				}
			} else {
				prod = mulB(N, a.V, e.tb)
				x.degree = max2(a.degree, dout)
			}
			target := e.mulT(a.scale, S1)
			if target == accS {
				x.scale = accS
				x.bound = addB(accV, prod)
			} else {
				x.neq, x.scaleFree = true, true
				x.bound = mulB(e.tb, addB(accV, prod))
			}
			if s.k == "ct" && relin {
				x.bound.Add(x.bound, e.bKS(x.level))
			}
			x.depth++
		case "scalar":
			x.level, x.degree, x.degMin, x.scale = min2(a.level, lout), max2(a.degree, dout), a.degree, accS
			if a.scale == accS {
				x.bound = addB(accV, mulB(a.V, s.absC))
			} else {
				x.neq = true
				x.bound = addB(accV, mulB(a.V, e.tb))
			}
			if s.outMode == "op0" {
				x.errOK = true // documented as an error, computed correctly in practice
			}
			if dout > a.degree {
				x.flags = append(x.flags, "od>")
			}
			if lout > a.level {
				x.flags = append(x.flags, "ol>")
			}
			x.trigger = dout > a.degree || lout > a.level
		case "vector":
			if s.outMode == "op0" {
				x.err = true
				return x
			}
			x.level, x.degree, x.degMin, x.scale = min2(a.level, lout), max2(a.degree, dout), a.degree, accS
			x.neq = a.scale != accS
			x.bound = addB(accV, mulB(N, a.V, e.tb))
			if dout > a.degree {
				x.flags = append(x.flags, "od>")
			}
			if lout > a.level {
				x.flags = append(x.flags, "ol>")
			}
			x.trigger = dout > a.degree
			x.depth++
		}
	case "Rescale":
		x.m = a.m
		if e.si {
			// documented: a nop for the scale-invariant evaluator; op0 must stay what it was
			x.level, x.degree, x.scale, x.bound = a.level, a.degree, a.scale, new(big.Int).Set(a.V)
			return x
		}
		if a.level == 0 || lout < a.level-1 {
			x.err = true
			return x
		}
		x.level, x.degree = a.level-1, a.degree
		x.scale = e.mulT(a.scale, e.invT(e.cf.Q[a.level]%e.t))
		x.bound = e.bRescale(a.V, a.level, a.degree)
		if dout > a.degree {
			x.flags = append(x.flags, "od>")
			x.trigger = true
		} else if dout < a.degree {
			x.flags = append(x.flags, "od<")
			x.trigger = true
		}
	case "Relinearize":
		x.m = a.m
		if a.degree != 2 || e.noRlk {
			x.err = true
			return x
		}
		x.level, x.degree, x.scale = min2(a.level, lout), 1, a.scale
		x.bound = addB(a.V, e.bKS(x.level))
	}
	return x
}

// ---------------------------------------------------------------------------------------------
// proposal

func (p *prog) pickCt(preferLast bool) *cval {
	if preferLast && p.r.N(10) < 6 {
		return p.pool[len(p.pool)-1]
	}
	return p.pool[p.r.N(len(p.pool))]
}

func (p *prog) other(excl ...*cval) *cval {
	var cand []*cval
	for _, c := range p.pool {
		ok := true
		for _, x := range excl {
			if x == c {
				ok = false
			}
		}
		if ok {
			cand = append(cand, c)
		}
	}
	if len(cand) == 0 {
		return nil
	}
	return cand[p.r.N(len(cand))]
}

func (p *prog) freshOut(deg, lvl int) *rlwe.Ciphertext {
	if lvl < 0 {
		lvl = 0
	}
	if lvl > p.e.maxLvl {
		lvl = p.e.maxLvl
	}
	return bgv.NewCiphertext(p.e.params, deg, lvl)
}

// stale gives a fresh receiver the metadata of an unrelated earlier use (non-NTT, not batched, zero
// dimensions): InitOutputBinaryOp / InitOutputUnaryOp document that the operation re-initialises
// them. Only drawn by the extended configurations that ask for it.
func (p *prog) stale(s *step) {
	x := p.e.cf.X
	if x == nil || !x.Dirty || s.out == nil || p.r.N(2) == 0 {
		return
	}
	s.dirty = true
	s.out.IsNTT = false
	s.out.IsBatched = false
	s.out.LogDimensions.Rows, s.out.LogDimensions.Cols = 0, 0
}

func (p *prog) propose() *step {
	e := p.e
	r := p.r
	s := &step{k: "none", kind: "-"}
	w := r.N(100)
	hasDeg2 := false
	for _, c := range p.pool {
		if c.degree == 2 {
			hasDeg2 = true
		}
	}
	switch {
	case w < 26:
		s.method = eng.Pick(r, "Add", "Sub")
	case w < 60:
		if e.si {
			s.method = eng.Pick(r, "Mul", "MulRelin", "MulRelin", "MulScaleInvariant", "MulRelinScaleInvariant")
		} else {
			s.method = eng.Pick(r, "Mul", "MulRelin", "MulRelin", "MulRelin", "MulScaleInvariant", "MulRelinScaleInvariant")
		}
	case w < 72:
		s.method = eng.Pick(r, "MulThenAdd", "MulRelinThenAdd")
	case w < 86:
		s.method = "Rescale"
	case w < 92:
		s.method = "Relinearize"
	case w < 96:
		s.method = "DropLevel"
	default:
		s.method = "MatchScalesAndLevel"
	}
	s.op0 = p.pickCt(true)
	switch s.method {
	case "DropLevel", "MatchScalesAndLevel":
		return s
	case "Relinearize":
		if hasDeg2 && r.N(10) < 9 {
			for _, c := range p.pool {
				if c.degree == 2 {
					s.op0 = c
				}
			}
		}
		switch v := r.N(10); {
		case v < 3:
			s.outMode, s.newForm = "new", true
		case v < 5:
			s.outMode = "fresh"
			s.out = p.freshOut(1+r.N(2), s.op0.level-r.N(2))
			p.stale(s)
		case v < 9:
			s.outMode, s.out, s.outc = "op0", s.op0.ct, s.op0
		default:
			if o := p.other(s.op0); o != nil && len(p.pool) > 2 {
				s.outMode, s.out, s.outc = "recycled", o.ct, o
			} else {
				s.outMode, s.newForm = "new", true
			}
		}
		return s
	case "Rescale":
		// prefer the noisiest ciphertext: that is where a rescale belongs in a program
		if r.N(10) < 7 {
			for _, c := range p.pool {
				if c.level > 0 && (s.op0.level == 0 || c.V.Cmp(s.op0.V) > 0) {
					s.op0 = c
				}
			}
		}
		switch v := r.N(20); {
		case v < 12:
			s.outMode, s.out, s.outc = "op0", s.op0.ct, s.op0
		case v < 17:
			s.outMode = "fresh"
			s.out = p.freshOut(s.op0.degree, s.op0.level-r.N(2))
			if r.N(12) == 0 {
				s.out = p.freshOut(s.op0.degree, s.op0.level-2) // too small: documented error
			}
			p.stale(s)
		default:
			if o := p.other(s.op0); o != nil && len(p.pool) > 2 {
				s.outMode, s.out, s.outc = "recycled", o.ct, o
			} else {
				s.outMode, s.out, s.outc = "op0", s.op0.ct, s.op0
			}
		}
		return s
	}
	// binary families: operand
	kw := r.N(100)
	switch {
	case kw < 40:
		s.k, s.kind = "ct", "ct"
		if r.N(8) == 0 {
			s.c1 = s.op0 // squaring
		} else {
			s.c1 = p.pickCt(false)
		}
		s.op1, s.m1 = s.c1.ct, s.c1.m
	case kw < 58:
		s.k, s.kind = "pt", "pt"
		s.p1 = p.newPt()
		s.op1, s.m1 = s.p1.pt, s.p1.m
	case kw < 80:
		s.k = "scalar"
		var val uint64
		s.op1, s.kind, val, s.absC = p.scalar()
		s.m1 = bcast(val, e.slots)
	default:
		s.k = "vector"
		s.op1, s.kind, s.m1 = p.vector()
	}
	if e.cf.X != nil && e.cf.X.ElOp && (s.k == "ct" || s.k == "pt") && r.N(3) == 0 {
		s.asEl = true
	}
	if s.method == "MulThenAdd" || s.method == "MulRelinThenAdd" {
		switch v := r.N(20); {
		case v == 0:
			s.outMode, s.out, s.outc = "op0", s.op0.ct, s.op0
		case v == 1 && s.k == "ct":
			s.outMode, s.out, s.outc = "op1", s.c1.ct, s.c1
		case v < 6:
			s.outMode = "zero"
			s.out = p.freshOut(1+r.N(2), min2(s.op0.level, e.maxLvl)-r.N(2)+r.N(2))
		default:
			o := p.other(s.op0, s.c1)
			if o == nil {
				s.outMode = "zero"
				s.out = p.freshOut(1+r.N(2), s.op0.level)
			} else {
				s.outMode, s.out, s.outc = "acc", o.ct, o
			}
		}
		return s
	}
	// Add / Sub / Mul families: receiver placement
	natLvl := s.op0.level
	natDeg := s.op0.degree
	if s.k == "ct" {
		natLvl = min2(natLvl, s.c1.level)
		natDeg = max2(natDeg, s.c1.degree)
	} else if s.k == "pt" {
		natLvl = min2(natLvl, s.p1.level)
	}
	v := r.N(100)
	switch {
	case v < 32:
		s.outMode, s.newForm = "new", true
	case v < 47:
		s.outMode = "fresh"
		lvl := natLvl
		switch r.N(6) {
		case 0:
			lvl = e.maxLvl
		case 1:
			lvl = natLvl - 1
		}
		deg := natDeg
		if s.method != "Add" && s.method != "Sub" {
			deg = 1 + r.N(2)
		} else if r.N(10) == 0 {
			deg = 2
		}
		s.out = p.freshOut(deg, lvl)
		p.stale(s)
	case v < 77:
		s.outMode, s.out, s.outc = "op0", s.op0.ct, s.op0
	case v < 87 && s.k == "ct":
		s.outMode, s.out, s.outc = "op1", s.c1.ct, s.c1
	default:
		if o := p.other(s.op0, s.c1); o != nil && len(p.pool) > 2 {
			s.outMode, s.out, s.outc = "recycled", o.ct, o
		} else {
			s.outMode, s.newForm = "new", true
		}
	}
	return s
}

// ---------------------------------------------------------------------------------------------
// execution + verdict

func (p *prog) call(s *step) (res *rlwe.Ciphertext, err error) {
	ev := p.e.ev
	if len(p.e.evs) > 0 {
		i := p.r.N(len(p.e.evs))
		ev = p.e.evs[i]
		p.e.c.Count(fmt.Sprintf("interleaved_evaluator_%d", i), 1)
	}
	if s.asEl {
		// the same operand as the bare *rlwe.Element the wrappers embed (what ct.El() / pt.El() return)
		orig := s.op1
		defer func() { s.op1 = orig }()
		switch s.k {
		case "ct":
			s.op1 = s.c1.ct.El()
		case "pt":
			s.op1 = s.p1.pt.El()
		}
		p.e.c.Count("operand_as_element", 1)
	}
	op0 := s.op0.ct
	switch s.method {
	case "Add":
		if s.newForm {
			return ev.AddNew(op0, s.op1)
		}
		return s.out, ev.Add(op0, s.op1, s.out)
	case "Sub":
		if s.newForm {
			return ev.SubNew(op0, s.op1)
		}
		return s.out, ev.Sub(op0, s.op1, s.out)
	case "Mul":
		if s.newForm {
			return ev.MulNew(op0, s.op1)
		}
		return s.out, ev.Mul(op0, s.op1, s.out)
	case "MulRelin":
		if s.newForm {
			return ev.MulRelinNew(op0, s.op1)
		}
		return s.out, ev.MulRelin(op0, s.op1, s.out)
	case "MulScaleInvariant":
		if s.newForm {
			return ev.MulScaleInvariantNew(op0, s.op1)
		}
		return s.out, ev.MulScaleInvariant(op0, s.op1, s.out)
	case "MulRelinScaleInvariant":
		if s.newForm {
			return ev.MulRelinScaleInvariantNew(op0, s.op1)
		}
		return s.out, ev.MulRelinScaleInvariant(op0, s.op1, s.out)
	case "MulThenAdd":
		return s.out, ev.MulThenAdd(op0, s.op1, s.out)
	case "MulRelinThenAdd":
		return s.out, ev.MulRelinThenAdd(op0, s.op1, s.out)
	case "Rescale":
		return s.out, ev.Rescale(op0, s.out)
	case "Relinearize":
		if s.newForm {
			return ev.RelinearizeNew(op0)
		}
		return s.out, ev.Relinearize(op0, s.out)
	}
	panic("unknown method " + s.method)
}

func (p *prog) remove(c *cval) {
	for i, x := range p.pool {
		if x == c {
			p.pool = append(p.pool[:i], p.pool[i+1:]...)
			return
		}
	}
}

func (p *prog) witness(s *step, x *expect) any {
	return map[string]any{"cfg": p.e.cf, "program": p.text, "failing_step": p.desc(s, x)}
}

func (p *prog) operandInfo(s *step) string {
	a := s.op0
	o := fmt.Sprintf("op0{lvl=%d deg=%d scale=%d noise=2^%.1f}", a.level, a.degree, a.scale, log2(a.V))
	switch s.k {
	case "ct":
		o += fmt.Sprintf(" op1=ct{lvl=%d deg=%d scale=%d noise=2^%.1f same=%v}", s.c1.level, s.c1.degree, s.c1.scale, log2(s.c1.V), s.c1 == a)
	case "pt":
		o += fmt.Sprintf(" op1=pt{lvl=%d scale=%d}", s.p1.level, s.p1.scale)
	case "scalar":
		o += fmt.Sprintf(" op1=%s(%v)", s.kind, s.op1)
	case "vector":
		switch v := s.op1.(type) {
		case []uint64:
			o += fmt.Sprintf(" op1=[]uint64 len=%d %s", len(v), eng.U64s(v, 4))
		case []int64:
			h := v
			if len(h) > 4 {
				h = h[:4]
			}
			o += fmt.Sprintf(" op1=[]int64 len=%d %v", len(v), h)
		}
	}
	if s.out != nil {
		sc, _ := p.e.scaleOf(s.out)
		o += fmt.Sprintf(" receiver(%s){lvl=%d deg=%d scale=%d}", s.outMode, s.out.Level(), s.out.Degree(), sc)
		if s.outc != nil && s.outMode != "op0" && s.outMode != "op1" {
			o += fmt.Sprintf("[live: scale=%d noise=2^%.1f]", s.outc.scale, log2(s.outc.V))
		}
	} else {
		o += " receiver(New form)"
	}
	return o
}

// verify checks a ciphertext against the documented (level, degree, scale, value) and the noise bound.
// It returns the new model state, or nil after reporting the first failed check.
func (p *prog) verify(ct *rlwe.Ciphertext, x *expect, sigBase, pred string, info func() string, wit any) *cval {
	e := p.e
	c := e.c
	fail := func(class, what string) *cval {
		c.Violate(sigBase+"|"+class+"|"+pred, what+" :: "+info(), wit)
		return nil
	}
	c.Eval(1)
	if ct == nil || ct.MetaData == nil || len(ct.Value) == 0 {
		return fail("no-result", "nil result without error")
	}
	lv := ct.Level()
	for i := range ct.Value {
		if ct.Value[i].Level() != lv {
			return fail("wrong-level", fmt.Sprintf("component %d has level %d, component 0 has level %d", i, ct.Value[i].Level(), lv))
		}
	}
	if lv != x.level {
		return fail("wrong-level", fmt.Sprintf("level %d, documented %d", lv, x.level))
	}
	c.Eval(1)
	if ct.Degree() != x.degree && !(x.degMin > 0 && ct.Degree() >= x.degMin && ct.Degree() <= x.degree) {
		return fail("wrong-degree", fmt.Sprintf("degree %d, documented %d", ct.Degree(), x.degree))
	}
	c.Eval(1)
	sc, ok := e.scaleOf(ct)
	if !ok {
		return fail("wrong-scale", fmt.Sprintf("recorded scale %s is not an element of Z_t^*", ct.Scale.Value.Text('g', 30)))
	}
	if !x.scaleFree && sc != x.scale {
		return fail("wrong-scale", fmt.Sprintf("recorded scale %d, documented %d (t=%d)", sc, x.scale, e.t))
	}
	c.Eval(1)
	// InitOutputBinaryOp / InitOutputUnaryOp document IsNTT <- NTT flag, IsBatched <- op0.IsBatched,
	// LogDimensions <- max over the operands; every operand of a program is a batched NTT element of full dimensions
	if !ct.IsNTT || !ct.IsBatched || ct.IsMontgomery || ct.LogDimensions != e.params.LogMaxDimensions() {
		return fail("wrong-metadata", fmt.Sprintf("IsNTT=%v IsBatched=%v IsMontgomery=%v LogDimensions=%v, documented true/true/false/%v", ct.IsNTT, ct.IsBatched, ct.IsMontgomery, ct.LogDimensions, e.params.LogMaxDimensions()))
	}
	c.Eval(1)
	V := e.noise(ct)
	got := e.decode(ct)
	if got == nil {
		return fail("decode-panic-or-error", "Decode(Decrypt(out)) failed")
	}
	if !equalU(got, x.m) {
		j := 0
		for j < len(got) && got[j] == x.m[j] {
			j++
		}
		bad := 0
		for i := range got {
			if got[i] != x.m[i] {
				bad++
			}
		}
		return fail("wrong-value", fmt.Sprintf("%d/%d slots differ, first slot %d: got %d want %d (t=%d); recorded scale %d; measured noise 2^%.1f, worst-case bound 2^%.1f, Q_level 2^%.1f", bad, len(got), j, got[j], x.m[j], e.t, sc, log2(V), log2(x.bound), log2(e.Ql[lv])))
	}
	c.Eval(1)
	if V.Cmp(x.bound) > 0 {
		return fail("noise-above-worst-case", fmt.Sprintf("measured noise 2^%.2f > worst-case one-step bound 2^%.2f (Q_level 2^%.1f)", log2(V), log2(x.bound), log2(e.Ql[lv])))
	}
	if x.bound.Sign() > 0 && V.Sign() > 0 {
		// closest approach of a measured noise to its worst-case bound (1000 = touching)
		c.Max("max_noise_to_bound_ratio_x1000", int64(1000*math.Exp2(log2(V)-log2(x.bound))))
	}
	c.Max("max_noise_log2", int64(log2(V)))
	return &cval{ct: ct, m: x.m, scale: sc, level: lv, degree: ct.Degree(), V: V, depth: x.depth}
}

func (p *prog) exec(s *step, x *expect) {
	e := p.e
	c := e.c
	sigBase := "C05|Evaluator." + s.method
	pred := p.pred(s, x)
	d := p.desc(s, x)
	p.text = append(p.text, d)
	p.executed++
	c.Count("steps_executed", 1)
	c.Count("op_"+s.method, 1)
	c.Count("kind_"+s.kind, 1)
	c.Count("receiver_"+s.outMode, 1)
	if s.k != "none" {
		p.kinds[s.kind] = true
	}
	if x.neq {
		p.neq = true
		c.Count("steps_unequal_scales", 1)
	}
	if s.k == "ct" && !x.err && strings.HasPrefix(s.method, "Mul") {
		c.Count("steps_ct_ct_product", 1)
		if strings.Contains(s.method, "ScaleInvariant") || (e.si && (s.method == "Mul" || s.method == "MulRelin")) {
			c.Count("steps_ct_ct_product_scale_invariant", 1)
		}
	}
	for _, f := range x.tflags {
		c.Count("shape_"+f, 1)
	}
	if !x.err {
		if x.level == 0 {
			c.Count("steps_result_level0", 1)
		}
		if x.level == e.maxLvl {
			c.Count("steps_result_maxlevel", 1)
		}
	}
	if s.dirty {
		c.Count("receiver_stale_metadata", 1)
	}
	if xo := e.cf.X; xo != nil && !x.err {
		c.Count("x_"+xo.Variant+"_steps", 1)
		if strings.Contains(s.method, "Relin") && (s.k == "ct" || s.method == "Relinearize") {
			c.Count("x_"+xo.Variant+"_relinearisations", 1)
		}
	}
	info := func() string {
		return fmt.Sprintf("%s %s | %v | program so far: %s", d, p.operandInfo(s), e.cf, strings.Join(p.text, " ; "))
	}
	wit := p.witness(s, x)
	// keep the bits needed to re-verify untouched operands
	var res *rlwe.Ciphertext
	var err error
	panicked, pv := eng.Panics(func() { res, err = p.call(s) })
	c.Eval(1)
	poison := func() {
		if s.outc != nil {
			p.remove(s.outc)
		}
	}
	if panicked {
		c.Violate(sigBase+"|panic|"+pred, fmt.Sprintf("panic: %v :: %s", pv, info()), wit)
		poison()
		return
	}
	if x.err {
		c.Count("documented_errors_observed", 1)
		if err == nil {
			c.Violate(sigBase+"|missing-error|"+pred, "documented failure condition returned no error :: "+info(), wit)
			poison()
			return
		}
		// the receiver of a refused call must still be usable: re-check it silently
		if s.outc != nil {
			got := e.decode(s.outc.ct)
			sc, scOK := e.scaleOf(s.outc.ct)
			if got == nil || !equalU(got, s.outc.m) || s.outc.ct.Level() != s.outc.level || s.outc.ct.Degree() != s.outc.degree || !scOK || sc != s.outc.scale {
				// a refusal that comes late (missing key) may leave anything in the receiver, e.g. a rescaled
				// accumulator with another recorded scale that still decodes: the model forgets this value
				c.Count("receiver_changed_by_refused_call", 1)
				p.remove(s.outc)
			} else if V := e.noise(s.outc.ct); V.Cmp(s.outc.V) > 0 {
				s.outc.V = V
			}
		}
		return
	}
	if err != nil {
		if x.errOK {
			c.Count("documented_errors_observed", 1)
			return
		}
		c.Violate(sigBase+"|unexpected-error|"+pred, fmt.Sprintf("error on a valid call: %v :: %s", err, info()), wit)
		poison()
		return
	}
	if s.method == "Rescale" && e.si {
		// nop: op0 (and the receiver, if it is another live value) must be untouched
		nv := p.verify(s.op0.ct, x, sigBase, pred+",mode=bfv", info, wit)
		if nv == nil {
			p.remove(s.op0)
		}
		if s.outc != nil && s.outc != s.op0 {
			xo := &expect{level: s.outc.level, degree: s.outc.degree, scale: s.outc.scale, m: s.outc.m, bound: s.outc.V, depth: s.outc.depth}
			if p.verify(s.outc.ct, xo, sigBase, pred+",mode=bfv,receiver", info, wit) == nil {
				p.remove(s.outc)
			}
		}
		return
	}
	nv := p.verify(res, x, sigBase, pred, info, wit)
	if nv == nil {
		poison()
		return
	}
	if nv.depth > p.maxDepth {
		p.maxDepth = nv.depth
	}
	if s.outc != nil {
		*s.outc = *nv
		// most recent result last
		p.remove(s.outc)
		p.pool = append(p.pool, s.outc)
	} else {
		p.pool = append(p.pool, nv)
		if len(p.pool) > 7 {
			i := p.r.N(len(p.pool) - 1)
			p.pool = append(p.pool[:i], p.pool[i+1:]...)
		}
	}
}

func (p *prog) execDropLevel(s *step) bool {
	e := p.e
	a := s.op0
	if a.level == 0 {
		return false
	}
	ev := e.ev
	if len(e.evs) > 0 {
		ev = e.evs[p.r.N(len(e.evs))]
	}
	k := 1 + p.r.N(a.level)
	if p.r.N(3) > 0 {
		k = 1
	}
	if e.cf.X != nil && p.r.N(8) == 0 {
		k = 0 // documented as "reduces the level by levels": a nop
		e.c.Count("droplevel_zero", 1)
	}
	nl := a.level - k
	if !e.budget(a.V, nl) {
		return false
	}
	s.kind, s.outMode = fmt.Sprintf("%d", k), "op0"
	x := &expect{level: nl, degree: a.degree, scale: a.scale, m: a.m, bound: new(big.Int).Set(a.V), depth: a.depth}
	d := fmt.Sprintf("DropLevel(%d)", k)
	p.text = append(p.text, d)
	p.executed++
	e.c.Count("steps_executed", 1)
	e.c.Count("op_DropLevel", 1)
	info := func() string {
		return fmt.Sprintf("%s op0{lvl=%d deg=%d scale=%d noise=2^%.1f} | %v | program so far: %s", d, a.level, a.degree, a.scale, log2(a.V), e.cf, strings.Join(p.text, " ; "))
	}
	wit := map[string]any{"cfg": e.cf, "program": p.text}
	panicked, pv := eng.Panics(func() { ev.DropLevel(a.ct, k) })
	e.c.Eval(1)
	if panicked {
		e.c.Violate("C05|Evaluator.DropLevel|panic|k=none,out=op0", fmt.Sprintf("panic: %v :: %s", pv, info()), wit)
		p.remove(a)
		return true
	}
	nv := p.verify(a.ct, x, "C05|Evaluator.DropLevel", "k=none,out=op0", info, wit)
	if nv == nil {
		p.remove(a)
		return true
	}
	*a = *nv
	return true
}

func (p *prog) execMatch(s *step) bool {
	e := p.e
	a := s.op0
	b := p.other(a)
	if b == nil {
		return false
	}
	lvl := min2(a.level, b.level)
	ba, bb := mulB(e.tb, a.V), mulB(e.tb, b.V)
	if a.scale == b.scale {
		ba, bb = new(big.Int).Set(a.V), new(big.Int).Set(b.V)
	}
	if !e.budget(ba, lvl) || !e.budget(bb, lvl) {
		return false
	}
	neq := a.scale != b.scale
	ev := e.ev
	if len(e.evs) > 0 {
		ev = e.evs[p.r.N(len(e.evs))]
	}
	d := "MatchScalesAndLevel(ct;both"
	if neq {
		d += ",neq"
		p.neq = true
	}
	if a.level != b.level {
		d += ",lv!="
	}
	d += ")"
	p.text = append(p.text, d)
	p.executed++
	e.c.Count("steps_executed", 1)
	e.c.Count("op_MatchScalesAndLevel", 1)
	info := func() string {
		return fmt.Sprintf("%s ct0{lvl=%d deg=%d scale=%d noise=2^%.1f} ct1{lvl=%d deg=%d scale=%d noise=2^%.1f} | %v | program so far: %s", d, a.level, a.degree, a.scale, log2(a.V), b.level, b.degree, b.scale, log2(b.V), e.cf, strings.Join(p.text, " ; "))
	}
	wit := map[string]any{"cfg": e.cf, "program": p.text}
	pred := "k=ct,out=both"
	if neq {
		pred += ",sc=neq"
	}
	panicked, pv := eng.Panics(func() { ev.MatchScalesAndLevel(a.ct, b.ct) })
	e.c.Eval(1)
	if panicked {
		e.c.Violate("C05|Evaluator.MatchScalesAndLevel|panic|"+pred, fmt.Sprintf("panic: %v :: %s", pv, info()), wit)
		p.remove(a)
		p.remove(b)
		return true
	}
	xa := &expect{level: lvl, degree: a.degree, scale: a.scale, scaleFree: neq, m: a.m, bound: ba, depth: a.depth}
	xb := &expect{level: lvl, degree: b.degree, scale: b.scale, scaleFree: neq, m: b.m, bound: bb, depth: b.depth}
	na := p.verify(a.ct, xa, "C05|Evaluator.MatchScalesAndLevel", pred, info, wit)
	nb := p.verify(b.ct, xb, "C05|Evaluator.MatchScalesAndLevel", pred, info, wit)
	if na == nil || nb == nil {
		p.remove(a)
		p.remove(b)
		return true
	}
	e.c.Eval(1)
	if na.scale != nb.scale {
		e.c.Violate("C05|Evaluator.MatchScalesAndLevel|scales-not-matched|"+pred, fmt.Sprintf("scales after the call: %d and %d :: %s", na.scale, nb.scale, info()), wit)
		p.remove(a)
		p.remove(b)
		return true
	}
	*a, *b = *na, *nb
	return true
}

func runPrograms(c *eng.Ctx, cf cfg) {
	e := setup(c, cf, nil, true)
	if e == nil {
		return
	}
	gap := e.n / e.params.RingT().N()
	sampled := false
	for pi := 0; pi < cf.Progs; pi++ {
		p := &prog{e: e, r: c.Rand().Sub("prog", pi), kinds: map[string]bool{}}
		for i := 0; i < 3; i++ {
			cv := p.newFresh()
			if cv == nil {
				break
			}
			p.pool = append(p.pool, cv)
		}
		if len(p.pool) < 2 {
			c.Count("programs_not_started", 1)
			continue
		}
		rejected := 0
		for p.executed < cf.Steps && rejected < 60 && len(p.pool) >= 1 {
			if len(p.pool) < 3 {
				if cv := p.newFresh(); cv != nil {
					p.pool = append([]*cval{cv}, p.pool...)
				} else if len(p.pool) == 0 {
					break
				}
			}
			s := p.propose()
			switch s.method {
			case "DropLevel":
				if !p.execDropLevel(s) {
					rejected++
				}
				continue
			case "MatchScalesAndLevel":
				if !p.execMatch(s) {
					rejected++
				}
				continue
			}
			x := p.expect(s)
			if x.trigger && p.r.N(8) != 0 {
				rejected++
				continue
			}
			if !x.err {
				ok := e.budget(x.bound, x.level) && x.level >= 0
				// operands living at a higher level must already fit the level of the operation
				if ok && !e.budget(s.op0.V, x.level) {
					ok = false
				}
				if ok && s.c1 != nil && !e.budget(s.c1.V, x.level) {
					ok = false
				}
				if ok && s.outc != nil && (s.outMode == "acc") && !e.budget(s.outc.V, x.level) {
					ok = false
				}
				if !ok {
					rejected++
					c.Count("steps_rejected_budget", 1)
					continue
				}
			} else if p.r.N(3) != 0 {
				// documented-error shapes are cheap and uninformative in bulk
				rejected++
				continue
			}
			p.exec(s, x)
		}
		c.Count("programs", 1)
		c.Count("program_steps_total", int64(p.executed))
		if p.maxDepth >= 2 {
			c.Count("programs_depth_ge2", 1)
		}
		if p.maxDepth >= 3 {
			c.Count("programs_depth_ge3", 1)
		}
		c.Max("max_mult_depth", int64(p.maxDepth))
		nontrivial := p.maxDepth >= 2 || len(p.kinds) >= 2 || p.neq
		key := fmt.Sprintf("%s/gap>1=%v/%s", map[bool]string{false: "bgv", true: "bfv"}[e.si], gap > 1, strings.Join(p.text, ";"))
		c.Distinct(key, nontrivial && p.executed > 0)
		if !sampled && p.executed > 0 {
			sampled = true
			c.Sample(map[string]any{"cfg": cf.String(), "gap": gap, "program": p.text, "mult_depth": p.maxDepth})
		}
	}
	if gap > 1 {
		c.Count("cases_gap_gt1", 1)
	}
	if e.tAboveSomeQ() {
		c.Count("cases_t_above_some_qi", 1)
	}
	c.Count("cases_mode_"+cf.Mode, 1)
	c.Count("cases_eval_"+cf.Eval, 1)
	if cf.X != nil {
		c.Count("cases_x_"+cf.X.Variant, 1)
	}
}
