package c05

import (
	"fmt"
	"math/big"

	"github.com/tuneinsight/lattigo/v6/core/rlwe"
	"github.com/tuneinsight/lattigo/v6/schemes/bgv"

	"verif/harness/eng"
)

// runErrors calls every documented failure condition of the evaluator and requires an error:
// a panic or a silently returned value is a violation.
func runErrors(c *eng.Ctx, cf cfg) {
	e := setup(c, cf, nil, true)
	if e == nil {
		return
	}
	p := &prog{e: e, r: c.Rand().Sub("errors"), kinds: map[string]bool{}}
	L := e.maxLvl
	mk := func(level int) *rlwe.Ciphertext {
		cv := p.freshCt(level, p.pickScale())
		return cv.ct
	}
	modeTag := ""
	if e.si {
		modeTag = ",mode=bfv"
	}
	must := func(method, pred string, f func() error) {
		var err error
		panicked, pv := eng.Panics(func() { err = f() })
		c.Eval(1)
		c.Count("documented_errors_observed", 1)
		c.Distinct("err/"+cf.Mode+"/"+method+"/"+pred, true)
		switch {
		case panicked:
			c.Violate("C05|Evaluator."+method+"|panic|"+pred, fmt.Sprintf("documented failure condition answered by a panic: %v :: %v", pv, cf), cf)
		case err == nil:
			c.Violate("C05|Evaluator."+method+"|missing-error|"+pred, fmt.Sprintf("documented failure condition answered by a value :: %v", cf), cf)
		}
	}
	c.Sample(map[string]any{"kind": "errors", "cfg": cf.String()})
	ev := e.ev

	// --- E1: missing relinearisation key (nil key set, empty key set)
	for _, kk := range []struct {
		tag string
		evk rlwe.EvaluationKeySet
	}{{"evk=nil", nil}, {"evk=empty", rlwe.NewMemEvaluationKeySet(nil)}} {
		var bare *bgv.Evaluator
		if !c.Try("C05|bgv.NewEvaluator|"+kk.tag, func() { bare = bgv.NewEvaluator(e.params, kk.evk, e.si) }) {
			continue
		}
		pr := "k=ct," + kk.tag
		must("MulRelin", pr+modeTag, func() error { return bare.MulRelin(mk(L), mk(L), bgv.NewCiphertext(e.params, 1, L)) })
		must("MulRelin", pr+modeTag, func() error { _, err := bare.MulRelinNew(mk(L), mk(L)); return err })
		must("MulRelinScaleInvariant", pr, func() error {
			return bare.MulRelinScaleInvariant(mk(L), mk(L), bgv.NewCiphertext(e.params, 1, L))
		})
		must("MulRelinScaleInvariant", pr, func() error { _, err := bare.MulRelinScaleInvariantNew(mk(L), mk(L)); return err })
		must("MulRelinThenAdd", pr, func() error { return bare.MulRelinThenAdd(mk(L), mk(L), mk(L)) })
		ct2, err := ev.MulNew(mk(L), mk(L))
		if err == nil && ct2.Degree() == 2 {
			must("Relinearize", "k=none,"+kk.tag, func() error { return bare.Relinearize(ct2, bgv.NewCiphertext(e.params, 1, L)) })
			must("Relinearize", "k=none,"+kk.tag, func() error { _, err := bare.RelinearizeNew(ct2); return err })
		}
	}

	// --- E2: operand degree too high
	ct2a, err1 := ev.MulNew(mk(L), mk(L))
	ct2b, err2 := ev.MulNew(mk(L), mk(L))
	if err1 == nil && err2 == nil && ct2a.Degree() == 2 && ct2b.Degree() == 2 {
		pr := "k=ct,degree>2"
		out := func() *rlwe.Ciphertext { return bgv.NewCiphertext(e.params, 2, L) }
		must("Mul", pr+modeTag, func() error { return ev.Mul(ct2a, mk(L), out()) })
		must("Mul", pr+modeTag, func() error { return ev.Mul(mk(L), ct2a, out()) })
		must("Mul", pr+modeTag, func() error { _, err := ev.MulNew(ct2a, ct2b); return err })
		must("MulRelin", pr+modeTag, func() error { return ev.MulRelin(ct2a, ct2b, out()) })
		must("MulRelin", pr+modeTag, func() error { _, err := ev.MulRelinNew(mk(L), ct2b); return err })
		must("MulScaleInvariant", pr, func() error { return ev.MulScaleInvariant(ct2a, mk(L), out()) })
		must("MulRelinScaleInvariant", pr, func() error { return ev.MulRelinScaleInvariant(mk(L), ct2a, out()) })
		must("MulThenAdd", pr, func() error { return ev.MulThenAdd(ct2a, mk(L), mk(L)) })
		must("MulRelinThenAdd", pr, func() error { return ev.MulRelinThenAdd(mk(L), ct2b, mk(L)) })
	}
	// Relinearize needs degree 2
	must("Relinearize", "k=none,degree=1", func() error { return ev.Relinearize(mk(L), bgv.NewCiphertext(e.params, 1, L)) })

	// --- E3: no level left to rescale / receiver too small
	if !e.si {
		must("Rescale", "k=none,level=0", func() error { x := mk(0); return ev.Rescale(x, x) })
		must("Rescale", "k=none,level=0", func() error { return ev.Rescale(mk(0), bgv.NewCiphertext(e.params, 1, 0)) })
		if L >= 2 {
			must("Rescale", "k=none,receiver-level<level-1", func() error { return ev.Rescale(mk(L), bgv.NewCiphertext(e.params, 1, L-2)) })
		}
	} else {
		// documented nop
		var err error
		x := mk(0)
		panicked, pv := eng.Panics(func() { err = ev.Rescale(x, x) })
		c.Check(!panicked && err == nil, "C05|Evaluator.Rescale|nop-not-nop|k=none,level=0,mode=bfv", func() string { return fmt.Sprintf("panic=%v err=%v", pv, err) })
	}

	// --- E4: plaintext-only operands
	{
		pr := "k=pt,op0=plaintext"
		mkpt := func() *rlwe.Plaintext { return p.newPt().pt }
		ct0 := func() *rlwe.Ciphertext { return &rlwe.Ciphertext{Element: mkpt().Element} }
		out := func() *rlwe.Ciphertext { return bgv.NewCiphertext(e.params, 1, L) }
		must("Add", pr, func() error { return ev.Add(ct0(), mkpt(), out()) })
		must("Sub", pr, func() error { return ev.Sub(ct0(), mkpt(), out()) })
		must("Mul", pr+modeTag, func() error { return ev.Mul(ct0(), mkpt(), out()) })
		must("MulRelin", pr+modeTag, func() error { return ev.MulRelin(ct0(), mkpt(), out()) })
		must("MulScaleInvariant", pr, func() error { return ev.MulScaleInvariant(ct0(), mkpt(), out()) })
		must("MulThenAdd", pr, func() error { return ev.MulThenAdd(ct0(), mkpt(), mk(L)) })
		must("Add", pr, func() error { _, err := ev.AddNew(ct0(), mkpt()); return err })
		must("Mul", pr+modeTag, func() error { _, err := ev.MulNew(ct0(), mkpt()); return err })
	}

	// --- E5: MulThenAdd with the receiver among the operands
	{
		must("MulThenAdd", "k=ct,out=op0", func() error { a := mk(L); return ev.MulThenAdd(a, mk(L), a) })
		must("MulThenAdd", "k=ct,out=op1", func() error { b := mk(L); return ev.MulThenAdd(mk(L), b, b) })
		must("MulThenAdd", "k=pt,out=op0", func() error { a := mk(L); return ev.MulThenAdd(a, p.newPt().pt, a) })
		must("MulRelinThenAdd", "k=ct,out=op0", func() error { a := mk(L); return ev.MulRelinThenAdd(a, mk(L), a) })
		must("MulRelinThenAdd", "k=ct,out=op1", func() error { b := mk(L); return ev.MulRelinThenAdd(mk(L), b, b) })
		must("MulThenAdd", "k=vector,out=op0", func() error { a := mk(L); return ev.MulThenAdd(a, []uint64{1, 2, 3}, a) })
	}

	// --- E6: operand types outside the documented list
	for i, bad := range []rlwe.Operand{float64(1.5), int32(3), uint32(3), []int{1, 2}, []float64{1}, nil, "7", new(big.Float).SetInt64(3), uint8(1)} {
		pr := "k=unsupported"
		b := bad
		_ = i
		out := func() *rlwe.Ciphertext { return bgv.NewCiphertext(e.params, 1, L) }
		must("Add", pr, func() error { return ev.Add(mk(L), b, out()) })
		must("Sub", pr, func() error { return ev.Sub(mk(L), b, out()) })
		must("Mul", pr+modeTag, func() error { return ev.Mul(mk(L), b, out()) })
		must("MulRelin", pr+modeTag, func() error { return ev.MulRelin(mk(L), b, out()) })
		must("MulScaleInvariant", pr, func() error { return ev.MulScaleInvariant(mk(L), b, out()) })
		must("MulRelinScaleInvariant", pr, func() error { return ev.MulRelinScaleInvariant(mk(L), b, out()) })
		must("MulThenAdd", pr, func() error { return ev.MulThenAdd(mk(L), b, mk(L)) })
		must("MulRelinThenAdd", pr, func() error { return ev.MulRelinThenAdd(mk(L), b, mk(L)) })
		must("Add", pr, func() error { _, err := ev.AddNew(mk(L), b); return err })
		must("Mul", pr+modeTag, func() error { _, err := ev.MulNew(mk(L), b); return err })
	}

	// --- E7: vectors longer than the number of slots
	for _, long := range []rlwe.Operand{make([]uint64, e.slots+1), make([]int64, e.slots+1), make([]uint64, 2*e.n+3)} {
		pr := "k=vector,len>slots"
		v := long
		out := func() *rlwe.Ciphertext { return bgv.NewCiphertext(e.params, 1, L) }
		must("Add", pr, func() error { return ev.Add(mk(L), v, out()) })
		must("Sub", pr, func() error { return ev.Sub(mk(L), v, out()) })
		must("Mul", pr+modeTag, func() error { return ev.Mul(mk(L), v, out()) })
		must("MulRelin", pr+modeTag, func() error { return ev.MulRelin(mk(L), v, out()) })
		must("MulScaleInvariant", pr, func() error { return ev.MulScaleInvariant(mk(L), v, out()) })
		must("MulRelinScaleInvariant", pr, func() error { return ev.MulRelinScaleInvariant(mk(L), v, out()) })
		must("MulThenAdd", pr, func() error { return ev.MulThenAdd(mk(L), v, mk(L)) })
	}

	// --- E8: batched / non-batched mix, E10: nil metadata, E11: wrong NTT flag (InitOutput*Op checks)
	{
		out := func() *rlwe.Ciphertext { return bgv.NewCiphertext(e.params, 1, L) }
		nb := func() *rlwe.Plaintext { q := p.newPt().pt; q.IsBatched = false; return q }
		must("Add", "k=pt,isbatched-mismatch", func() error { return ev.Add(mk(L), nb(), out()) })
		must("Mul", "k=pt,isbatched-mismatch"+modeTag, func() error { return ev.Mul(mk(L), nb(), out()) })
		must("MulThenAdd", "k=pt,isbatched-mismatch", func() error { return ev.MulThenAdd(mk(L), nb(), mk(L)) })
		nomd := func() *rlwe.Ciphertext { x := mk(L); x.MetaData = nil; return x }
		must("Add", "k=ct,metadata=nil", func() error { return ev.Add(nomd(), mk(L), out()) })
		must("Add", "k=ct,metadata=nil", func() error { return ev.Add(mk(L), nomd(), out()) })
		must("Add", "k=scalar,metadata=nil", func() error { return ev.Add(nomd(), uint64(3), out()) })
		must("Sub", "k=vector,metadata=nil", func() error { return ev.Sub(nomd(), []uint64{1}, out()) })
		must("Mul", "k=pt,metadata=nil"+modeTag, func() error { return ev.Mul(nomd(), p.newPt().pt, out()) })
		must("Mul", "k=scalar,metadata=nil", func() error { return ev.Mul(nomd(), int64(-3), out()) })
		must("MulThenAdd", "k=ct,metadata=nil", func() error { return ev.MulThenAdd(mk(L), mk(L), nomd()) })
		if !e.si {
			must("Rescale", "k=none,metadata=nil", func() error { return ev.Rescale(nomd(), out()) })
		}
		nontt := func() *rlwe.Ciphertext { x := mk(L); x.IsNTT = false; return x }
		must("Add", "k=ct,isntt=false", func() error { return ev.Add(nontt(), mk(L), out()) })
		must("Mul", "k=scalar,isntt=false", func() error { return ev.Mul(nontt(), uint64(2), out()) })
		must("Mul", "k=ct,isntt=false"+modeTag, func() error { return ev.Mul(mk(L), nontt(), out()) })
	}
}
