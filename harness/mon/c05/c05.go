// Package c05: BGV/BFV evaluation is an exact ring homomorphism modulo the plaintext modulus.
//
// Workload: seeded straight-line programs over a pool of ciphertexts (degree 1 and 2), plaintexts,
// scalars (*big.Int, uint64, int64, int) and vectors ([]uint64, []int64), through every public
// arithmetic method of bgv.Evaluator (and the ...New forms), in both evaluator modes, with operand
// levels and scales deliberately mismatched and every output placement (New form, fresh receiver,
// receiver == op0, receiver == op1, recycled receiver of another shape).
//
// Oracle (per step, so a failing step is already the shortest failing program suffix):
//   - a slot-wise model over Z_t (128-bit products + hardware division);
//   - the level, degree and scale the operation documents, the scale as an element of Z_t;
//   - Decode(Decrypt(out)) with the recorded scale must equal the model exactly;
//   - the exact noise ||T*phase mod Q||_inf of every operand is measured with the secret key
//     (math/big CRT); an operation is only executed when a worst-case one-step bound computed from
//     the measured operand noises stays below Q_level/4, so inside the budget the result must be
//     exact and there is nothing to tune; the measured output noise must also stay below that
//     worst-case bound;
//   - documented failure conditions must come back as errors (never a panic, never a value).
package c05

import (
	"fmt"
	"math/big"

	"github.com/tuneinsight/lattigo/v6/core/rlwe"
	"github.com/tuneinsight/lattigo/v6/ring"
	"github.com/tuneinsight/lattigo/v6/schemes/bgv"

	"verif/harness/eng"
	"verif/harness/gen"
	"verif/harness/obs"
	"verif/harness/ref"
)

// cfg is the literal description of one case (parameters + evaluator flavour + workload size).
type cfg struct {
	Kind  string   `json:"kind"` // prog | errors
	LogN  int      `json:"logN"`
	Q     []uint64 `json:"Q"`
	P     []uint64 `json:"P"`
	T     uint64   `json:"T"`
	H     int      `json:"H"`    // 0: default ternary secret (density 2/3), >0: fixed Hamming weight
	Mode  string   `json:"mode"` // bgv | bfv
	Eval  string   `json:"eval"` // new | shallow | withkey
	Enc   string   `json:"enc"`  // sk | pk
	Progs int      `json:"progs"`
	Steps int      `json:"steps"`
	X     *xopt    `json:"x,omitempty"` // extended configuration (families cfgx/, recv0/, errors2/): see ext.go
}

func (cf cfg) String() string {
	qb := make([]int, len(cf.Q))
	for i, q := range cf.Q {
		qb[i] = ref.BitLen(q)
	}
	pb := make([]int, len(cf.P))
	for i, p := range cf.P {
		pb[i] = ref.BitLen(p)
	}
	s := fmt.Sprintf("logN=%d t=%d(%db) Qbits=%v Pbits=%v H=%d mode=%s eval=%s enc=%s", cf.LogN, cf.T, ref.BitLen(cf.T), qb, pb, cf.H, cf.Mode, cf.Eval, cf.Enc)
	if cf.X != nil {
		s += " x=" + cf.X.String()
	}
	return s
}

// env is the per-case context: real library objects + the facts the oracle needs.
type env struct {
	c      *eng.Ctx
	cf     cfg
	params bgv.Parameters
	kgen   *rlwe.KeyGenerator
	sk     *rlwe.SecretKey
	rlk    *rlwe.RelinearizationKey
	enc    *rlwe.Encryptor
	dec    *rlwe.Decryptor
	ecd    *bgv.Encoder // the oracle's own encoder (the evaluator embeds another one)
	ev     *bgv.Evaluator
	si     bool // the evaluator's actual ScaleInvariant flag

	t      uint64
	tb     *big.Int
	n      int // ring degree
	slots  int
	maxLvl int
	Ql     []*big.Int // Q at each level
	Pprod  *big.Int
	s1, s2 int64 // exact l1 norms of s and s^2 (the oracle owns the secret key)
	errB   int64 // worst-case |e| of one error sample

	uL1   int64            // worst-case l1 norm of one sample of the secret distribution (the u of a pk encryption)
	rlkLP int              // LevelP of the relinearisation key
	rlkW  int              // BaseTwoDecomposition of the relinearisation key
	Pkey  *big.Int         // product of the auxiliary primes the relinearisation key uses
	evs   []*bgv.Evaluator // non-empty: every step draws its evaluator from this list (copies of one base evaluator)
	noRlk bool             // the evaluator holds no relinearisation key: every relinearisation is a documented error
}

func bi(u uint64) *big.Int { return new(big.Int).SetUint64(u) }
func bI(i int64) *big.Int  { return big.NewInt(i) }

func mulB(a *big.Int, bs ...*big.Int) *big.Int {
	r := new(big.Int).Set(a)
	for _, b := range bs {
		r.Mul(r, b)
	}
	return r
}
func addB(a *big.Int, bs ...*big.Int) *big.Int {
	r := new(big.Int).Set(a)
	for _, b := range bs {
		r.Add(r, b)
	}
	return r
}

// ceilDiv for non-negative a and positive d.
func ceilDiv(a, d *big.Int) *big.Int {
	q, m := new(big.Int).DivMod(a, d, new(big.Int))
	if m.Sign() != 0 {
		q.Add(q, big.NewInt(1))
	}
	return q
}

func log2(x *big.Int) float64 { return obs.Log2Big(x) }

// modT reduces any integer into [0,t) (Euclidean).
func modT(x *big.Int, t uint64) uint64 { return ref.ModU(x, t) }

func setup(c *eng.Ctx, cf cfg, evk rlwe.EvaluationKeySet, useOwnKeys bool) *env {
	pl := bgv.ParametersLiteral{LogN: cf.LogN, Q: cf.Q, P: cf.P, PlaintextModulus: cf.T}
	if cf.H > 0 {
		pl.Xs = ring.Ternary{H: cf.H}
	}
	if cf.X != nil {
		cf.X.literal(&pl)
	}
	var params bgv.Parameters
	var err error
	if !c.Try("C05|bgv.NewParametersFromLiteral", func() { params, err = bgv.NewParametersFromLiteral(pl) }) {
		return nil
	}
	if err != nil {
		c.Violate("C05|bgv.NewParametersFromLiteral|error-on-admissible", fmt.Sprintf("%v: %v", cf, err), cf)
		return nil
	}
	if cf.X != nil {
		// parameters obtained through another documented route (re-literal, JSON, binary, bgv.NewParameters)
		var ok bool
		if params, ok = cf.X.via(c, cf, pl, params); !ok {
			return nil
		}
		// the oracle's bounds use the primes the parameters actually hold (LogQ/LogP literals)
		cf.Q, cf.P = params.Q(), params.P()
	}
	e := &env{c: c, cf: cf, params: params}
	bgvCtors := cf.X != nil && cf.X.Ctors == "bgv"
	if bgvCtors {
		e.kgen = bgv.NewKeyGenerator(params)
	} else {
		e.kgen = rlwe.NewKeyGenerator(params)
	}
	e.sk = e.kgen.GenSecretKeyNew()
	e.rlkLP, e.rlkW = params.MaxLevelP(), 0
	if cf.X != nil && cf.X.RlkSet {
		lp, w := cf.X.RlkLP, cf.X.RlkW
		if lp > params.MaxLevelP() {
			lp = params.MaxLevelP()
		}
		e.rlkLP, e.rlkW = lp, w
		e.rlk = e.kgen.GenRelinearizationKeyNew(e.sk, rlwe.EvaluationKeyParameters{LevelP: &lp, BaseTwoDecomposition: &w})
	} else {
		e.rlk = e.kgen.GenRelinearizationKeyNew(e.sk)
	}
	var encKey rlwe.EncryptionKey = e.sk
	if cf.Enc == "pk" {
		encKey = e.kgen.GenPublicKeyNew(e.sk)
	}
	if bgvCtors {
		e.enc = bgv.NewEncryptor(params, encKey)
		e.dec = bgv.NewDecryptor(params, e.sk)
	} else {
		e.enc = rlwe.NewEncryptor(params, encKey)
		e.dec = rlwe.NewDecryptor(params, e.sk)
	}
	e.ecd = bgv.NewEncoder(params)
	e.t = params.PlaintextModulus()
	e.tb = bi(e.t)
	e.n = params.N()
	e.slots = params.MaxSlots()
	e.maxLvl = params.MaxLevel()
	for l := 0; l <= e.maxLvl; l++ {
		e.Ql = append(e.Ql, new(big.Int).Set(params.RingQ().ModulusAtLevel[l]))
	}
	e.Pprod = big.NewInt(1)
	for _, p := range cf.P {
		e.Pprod.Mul(e.Pprod, bi(p))
	}
	e.Pkey = big.NewInt(1)
	for i := 0; i <= e.rlkLP && i < len(cf.P); i++ {
		e.Pkey.Mul(e.Pkey, bi(cf.P[i]))
	}
	b, _ := obs.ErrBound(params.Parameters)
	e.errB = int64(b)
	sInf, _ := obs.SecretBound(params.Parameters)
	e.uL1 = int64(e.n) * int64(sInf)
	e.secretNorms()

	if useOwnKeys {
		evk = rlwe.NewMemEvaluationKeySet(e.rlk)
	}
	if cf.X != nil && cf.X.NoKey != "" {
		e.noRlk = true
		evk = nil
		if cf.X.NoKey == "empty" {
			evk = rlwe.NewMemEvaluationKeySet(nil)
		}
	}
	wantSI := cf.Mode == "bfv"
	switch cf.Eval {
	case "shallow":
		base := bgv.NewEvaluator(params, evk, wantSI)
		e.ev = base.ShallowCopy()
		c.Check(e.ev.ScaleInvariant == base.ScaleInvariant, "C05|Evaluator.ShallowCopy|mode-flag-dropped", func() string {
			return fmt.Sprintf("ShallowCopy().ScaleInvariant = %v (receiver: %v); %v", e.ev.ScaleInvariant, base.ScaleInvariant, cf)
		})
	case "withkey":
		base := bgv.NewEvaluator(params, rlwe.NewMemEvaluationKeySet(nil), wantSI)
		e.ev = base.WithKey(evk)
		// The copy must be an evaluator of the same mode.
		c.Check(e.ev.ScaleInvariant == base.ScaleInvariant, "C05|Evaluator.WithKey|mode-flag-dropped", func() string {
			return fmt.Sprintf("NewEvaluator(params, evk, true).WithKey(evk2).ScaleInvariant = %v (receiver: %v): the copy silently became a BGV-style evaluator; %v", e.ev.ScaleInvariant, base.ScaleInvariant, cf)
		})
	default:
		e.ev = bgv.NewEvaluator(params, evk, wantSI)
	}
	if cf.X != nil && cf.X.Interleave {
		// copies of one evaluator used in turn on the same data: WithKey shares the buffers of its
		// receiver, ShallowCopy owns fresh ones; sequential use of any of them must give the same results
		sc := e.ev.ShallowCopy()
		e.evs = []*bgv.Evaluator{e.ev, e.ev.WithKey(evk), sc, sc.WithKey(evk)}
		for _, v := range e.evs {
			c.Check(v.ScaleInvariant == e.ev.ScaleInvariant, "C05|Evaluator.ShallowCopy|mode-flag-dropped", func() string {
				return fmt.Sprintf("a copy of the evaluator carries ScaleInvariant=%v (base: %v); %v", v.ScaleInvariant, e.ev.ScaleInvariant, cf)
			})
		}
	}
	// The model follows the flag the evaluator actually carries (each operation documents its
	// behaviour in terms of that flag).
	e.si = e.ev.ScaleInvariant
	return e
}

// secretNorms computes ||s||_1 and ||s^2||_1 exactly from the secret key (naive negacyclic square).
func (e *env) secretNorms() {
	r := e.params.RingQ().AtLevel(0)
	p := obs.Plain(r, e.sk.Value.Q, true, true)
	q := r.SubRings[0].Modulus
	s := make([]int64, e.n)
	for i, x := range p.Coeffs[0] {
		switch {
		case x == 0:
		case x <= q/2:
			s[i] = int64(x)
		default:
			s[i] = -int64(q - x)
		}
		if s[i] < 0 {
			e.s1 -= s[i]
		} else {
			e.s1 += s[i]
		}
	}
	sq := make([]int64, e.n)
	for i := 0; i < e.n; i++ {
		if s[i] == 0 {
			continue
		}
		for j := 0; j < e.n; j++ {
			k := i + j
			if k >= e.n {
				sq[k-e.n] -= s[i] * s[j]
			} else {
				sq[k] += s[i] * s[j]
			}
		}
	}
	for _, x := range sq {
		if x < 0 {
			e.s2 -= x
		} else {
			e.s2 += x
		}
	}
}

// noise returns ||centred(T * phase(ct) mod Q_level)||_inf, the quantity that must stay below
// Q_level/2 for Decode(Decrypt(ct)) to be exact. CRT reconstruction is math/big.
func (e *env) noise(ct *rlwe.Ciphertext) *big.Int {
	level := ct.Level()
	ph := obs.Phase(e.params.Parameters, &ct.Element, e.sk)
	r := e.params.RingQ().AtLevel(level)
	cs := obs.Centered(r, ph)
	Q := e.Ql[level]
	half := new(big.Int).Rsh(Q, 1)
	max := new(big.Int)
	for _, x := range cs {
		x.Mul(x, e.tb)
		x.Mod(x, Q)
		if x.Cmp(half) > 0 {
			x.Sub(x, Q)
		}
		x.Abs(x)
		if x.Cmp(max) > 0 {
			max.Set(x)
		}
	}
	e.c.Count("noise_measurements", 1)
	return max
}

// budget reports whether bound < Q_level/4 (the factor 2 below the exact threshold Q/2 keeps
// the float-assisted basis extension of the decoder away from its rounding boundary).
func (e *env) budget(bound *big.Int, level int) bool {
	if level < 0 || level > e.maxLvl {
		return false
	}
	return new(big.Int).Lsh(bound, 2).Cmp(e.Ql[level]) < 0
}

// ksBound: worst-case |e_ks|_inf added to the phase by one gadget product at the given level
// (RNS decomposition with auxiliary modulus P): sum over digits of |digit|*N*B divided by P,
// plus the rounding of the division by P.
func (e *env) ksBound(level int) *big.Int {
	lp, w := e.rlkLP, e.rlkW
	sum := new(big.Int)
	switch {
	case lp >= 0 && (w == 0 || lp > 0):
		// RNS digits of lp+1 primes each (a power-of-two base is ignored by keys with more than one auxiliary prime)
		alpha := lp + 1
		for g := 0; g*alpha <= level; g++ {
			prod := big.NewInt(1)
			for i := g * alpha; i < (g+1)*alpha && i <= level; i++ {
				prod.Mul(prod, bi(e.cf.Q[i]))
			}
			sum.Add(sum, prod.Lsh(prod, 1)) // |digit| <= 2*Q_group (centred lift, one unit of slack)
		}
	case w > 0:
		// every prime is its own RNS digit, cut into ceil(bits(q_i)/w) unsigned digits below 2^w
		for i := 0; i <= level; i++ {
			nd := (ref.BitLen(e.cf.Q[i]) + w - 1) / w
			sum.Add(sum, new(big.Int).Lsh(bI(int64(nd)), uint(w)))
		}
	default:
		// no auxiliary modulus, no power-of-two base: one centred digit per prime (bounded by q_i, not q_i/2)
		for i := 0; i <= level; i++ {
			sum.Add(sum, bi(e.cf.Q[i]))
		}
	}
	sum.Mul(sum, bI(int64(e.n)*e.errB))
	if lp < 0 {
		return sum.Add(sum, big.NewInt(1))
	}
	sum = ceilDiv(sum, e.Pkey)
	return sum.Add(sum, bI((1+e.s1)/2+2))
}

// bound helpers (all worst case, see DESIGN 2.4)

// tensor: ||v0*v1|| <= N*V0*V1
func (e *env) bMul(v0, v1 *big.Int) *big.Int { return mulB(bI(int64(e.n)), v0, v1) }

// relinearisation adds T*e_ks
func (e *env) bKS(level int) *big.Int { return mulB(e.tb, e.ksBound(level)) }

// scale-invariant tensoring (derivation in the final report / DESIGN C05):
// v_out = v0v1/Q + a0v1 + a1v0 + T(k0v1 + k1v0) + T^2 eps(s), |a_i| <= T/2+1, |k_i| <= (s1+2)/2, |eps_j| <= 1/2
func (e *env) bTensorSI(level int, v0, v1 *big.Int) *big.Int {
	N := bI(int64(e.n))
	sum := addB(v0, v1)
	r := ceilDiv(mulB(N, v0, v1), e.Ql[level])
	r.Add(r, big.NewInt(1))
	r.Add(r, mulB(N, addB(new(big.Int).Rsh(e.tb, 1), big.NewInt(2)), sum))
	r.Add(r, mulB(e.tb, N, bI((e.s1+3)/2+1), sum))
	r.Add(r, mulB(e.tb, e.tb, bI((1+e.s1+e.s2)/2+2)))
	return r
}

func (e *env) bRescale(v *big.Int, level, degree int) *big.Int {
	r := ceilDiv(v, bi(e.cf.Q[level]))
	k := 1 + e.s1
	if degree >= 2 {
		k += e.s2
	}
	return r.Add(r, mulB(e.tb, bI(k/2+2)))
}

// ---------------------------------------------------------------------------------------------
// case enumeration

var tBitSizes = []int{8, 9, 13, 17, 20, 30, 45, 60}

func pickT(r *eng.Rand, logN int, bits int) uint64 {
	// cyclotomic order 2^k of t: k = logN+1 gives gap 1, smaller k gives a plaintext ring smaller than the
	// ciphertext ring (gap > 1). The order must be at least 16.
	k := logN + 1
	if r.N(10) < 4 {
		k = 4 + r.N(logN-3)
	}
	if k > bits-1 {
		k = bits - 1
	}
	for ; k >= 4; k-- {
		pr := gen.Primes(bits, uint64(1)<<k, 1, r.N(4), nil)
		if len(pr) > 0 {
			return pr[0]
		}
		pr = gen.Primes(bits, uint64(1)<<k, 1, gen.PosAbove, nil)
		if len(pr) > 0 {
			return pr[0]
		}
	}
	return 0
}

func drawCfg(r *eng.Rand, tier string, i int) (cfg, bool) {
	cf := cfg{Kind: "prog"}
	if tier == "thorough" {
		cf.LogN = eng.Pick(r, 4, 5, 6, 7, 8, 9, 10, 10, 11, 11)
	} else {
		cf.LogN = eng.Pick(r, 4, 5, 6, 7, 7, 8, 8, 9, 10, 11)
	}
	tbits := tBitSizes[i%len(tBitSizes)]
	cf.T = pickT(r, cf.LogN, tbits)
	if cf.T == 0 {
		return cf, false
	}
	nth := uint64(2) << cf.LogN
	// Q: every prime larger than t (the domain the in-tree parameter sets use), 2..7 primes.
	lo := ref.BitLen(cf.T) + 1
	if lo < cf.LogN+4 {
		lo = cf.LogN + 4
	}
	if lo < 20 {
		lo = 20
	}
	nq := 2 + r.N(5)
	if tier == "thorough" && r.N(4) == 0 {
		nq = 7 + r.N(2)
	}
	skip := map[uint64]bool{cf.T: true}
	// one configuration in six uses the whole documented domain t <= Q[0] only: later primes may be smaller than t
	mixed := r.N(6) == 0
	lo0 := lo
	for j := 0; j < nq; j++ {
		lo = lo0
		if mixed && j > 0 {
			lo = cf.LogN + 4
			if lo < 20 {
				lo = 20
			}
		}
		b := lo + r.N(62-lo)
		switch r.N(6) {
		case 0:
			b = lo
		case 1:
			b = 61
		case 2:
			b = 60
		}
		if b < lo {
			b = lo
		}
		if j == 0 && b < lo+2 && lo+2 <= 61 {
			b = lo + 2
		}
		pos := r.N(4)
		if b == 61 {
			pos = 1 + r.N(3) // stay away from the primes just below 2^61 that bgv takes for its auxiliary ring QMul
		}
		pr := gen.Primes(b, nth, 1, pos, skip)
		if len(pr) == 0 {
			pr = gen.Primes(b, nth, 1, gen.PosAbove, skip)
		}
		if len(pr) == 0 {
			return cf, false
		}
		cf.Q = append(cf.Q, pr[0])
	}
	np := 1 + r.N(2)
	if np > len(cf.Q) {
		np = len(cf.Q)
	}
	for j := 0; j < np; j++ {
		b := eng.Pick(r, 61, 61, 61, 58, 55)
		pr := gen.Primes(b, nth, 1, 1+r.N(3), skip)
		if len(pr) == 0 {
			return cf, false
		}
		cf.P = append(cf.P, pr[0])
	}
	if r.N(3) == 0 {
		cf.H = 1 + r.N(1<<cf.LogN)
		if r.N(2) == 0 && cf.H > 32 {
			cf.H = 32
		}
	}
	cf.Mode = eng.Pick(r, "bgv", "bfv")
	cf.Eval = eng.Pick(r, "new", "new", "new", "shallow", "withkey")
	if cf.Eval == "withkey" && cf.Mode == "bfv" && i%16 != 5 {
		// WithKey on a scale-invariant evaluator is probed by a few dedicated cases only
		cf.Eval = "new"
	}
	cf.Enc = eng.Pick(r, "sk", "sk", "pk")
	cf.Progs = 3
	cf.Steps = 16
	if cf.LogN >= 10 {
		cf.Progs = 2
	}
	if tier == "thorough" {
		cf.Progs *= 2
		cf.Steps = 24
	}
	return cf, true
}

func cases(tier string, seed int64) []eng.Case {
	r := eng.NewRand("c05-cases", seed)
	var out []eng.Case
	nprog, nerr := 800, 32
	if tier == "thorough" {
		nprog, nerr = 6000, 96
	}
	for i := 0; i < nprog; i++ {
		cf, ok := drawCfg(r, tier, i)
		if !ok {
			continue
		}
		if i%16 == 5 {
			cf.Mode, cf.Eval = "bfv", "withkey"
		}
		c := cf
		id := fmt.Sprintf("prog/%04d/logN%d/t%db/q%d/p%d/%s/%s/%s", i, c.LogN, ref.BitLen(c.T), len(c.Q), len(c.P), c.Mode, c.Eval, c.Enc)
		out = append(out, eng.Case{ID: id, Sig: "C05|program", Desc: c, Run: func(ctx *eng.Ctx) { runPrograms(ctx, c) }})
	}
	for i := 0; i < nerr; i++ {
		var cf cfg
		ok := false
		for k := 0; k < 64 && !ok; k++ {
			cf, ok = drawCfg(r, tier, i+k)
			ok = ok && cf.LogN <= 9 && len(cf.Q) >= 3
		}
		if !ok {
			continue
		}
		cf.Kind, cf.Eval = "errors", "new"
		cf.Mode = []string{"bgv", "bfv"}[i%2]
		c := cf
		id := fmt.Sprintf("errors/%03d/logN%d/t%db/q%d/%s", i, c.LogN, ref.BitLen(c.T), len(c.Q), c.Mode)
		out = append(out, eng.Case{ID: id, Sig: "C05|errors", Desc: c, Run: func(ctx *eng.Ctx) { runErrors(ctx, c) }})
	}
	// extended families (own random stream: the cases above are unchanged by them)
	out = append(out, xcases(tier, seed)...)
	return out
}

func init() {
	eng.Register(&eng.Monitor{
		ID: "C05", Level: "exploration",
		Rule:  "cases = seeded (logN 4..11, plaintext modulus of 8..60 bits incl. cyclotomic order < 2N, 2..8 Q primes of 20..61 bits (Q[0] > t always; in 5 of 6 configurations every prime > t, in the others later primes may be smaller than t), 1..2 P primes, default/sparse ternary secret, BGV or BFV evaluator obtained by NewEvaluator/ShallowCopy/WithKey, sk or pk encryption); each case runs 2..6 seeded straight-line programs of up to 16 (quick) / 24 (thorough) steps over a pool of ciphertexts; every step is one public bgv.Evaluator call and is judged on its own (model over Z_t, recorded level/degree/scale, Decode(Decrypt(.)), measured noise vs one-step worst-case bound), so the failing step is the shrunk witness. A step is only executed when its worst-case noise bound, computed from the measured noise of its operands, is below Q_level/4. distinct key = (mode, gap>1, normalised program text = sequence of method(operand kind, receiver placement, scale-equal?, level/degree relations)); non-trivial = multiplicative depth >= 2 or >= 2 different operand kinds or at least one step with unequal operand scales. 'errors' cases call every documented failure condition and require an error (no panic, no value). Extended families (own random stream): 'cfgx' = the same program engine under configurations outside the draw above, 15 variants in turn: single modulus, no auxiliary modulus, 3..5 auxiliary primes, 9..12 Q primes, Q and P taken from the 61-bit primes right below 2^61 (the ones bgv would take for its extended basis), Q[0] = smallest NTT prime above t, ring degree 16/32 with a plaintext ring of degree 8, LogQ/LogP literals, parameters re-obtained through ParametersLiteral()/JSON/binary/bgv.NewParameters with the bgv.New* constructor wrappers, error distribution (tight/unit/wide Gaussian, ternary P/H), secret distribution (ternary P=0.5/0.05, H=1, H=N, Gaussian), relinearisation key at LevelP=-1 / LevelP=0 of 2 / power-of-two base 1..30, four copies of one evaluator (WithKey/ShallowCopy) used in turn + operands passed as *rlwe.Element + fresh receivers with stale metadata (IsNTT/IsBatched/LogDimensions) + DropLevel(0), evaluator without relinearisation key (every relinearisation must be refused, the program goes on); every verified result also has its IsNTT/IsBatched/IsMontgomery/LogDimensions compared with what InitOutput*Op documents. 'recv0' = every method x operand kind with a receiver of degree 0 (correct result, or an error where Mul/MulRelin document one; never a panic). 'scale' = rlwe.Scale Mul/Div/Cmp/Max/Min/Uint64 modulo t (reduced, unreduced and modulus-less arguments) and bgv.MulScaleInvariant at every level against exact integers. 'errors2' = missing key on WithKey/ShallowCopy copies and on a key set holding only a Galois key, plaintext operand outside the NTT domain, two degree-0 operands, level 0 with a single modulus and after consuming every level, degree > 2 on the remaining entry points.",
		Cases: cases,
		Assumptions: []string{
			"model arithmetic (bits.Mul64/Div64, math/big) is correct",
			"obs.Phase (lattigo NTT + Montgomery product, judged by C01) evaluates c0+c1*s+c2*s^2 faithfully; everything after it is math/big",
			"bgv.Encoder.Decode and rlwe.Decryptor.Decrypt are the observation point named by the property (their own inverse property is C07/C03)",
			"scalars and vectors follow the natural reading where the documentation is silent: scalar/vector Add, Sub, Mul keep op0's scale; MulThenAdd with a scalar/vector keeps the receiver's scale; the result level is min over operands and receiver, the degree max (Mul: sum / 1 after relinearisation)",
			"after an automatic scale matching (Add/Sub/MulThenAdd with unequal scales, MatchScalesAndLevel) any recorded unit scale is accepted; exactness of Decode with that recorded scale decides",
			"float-assisted basis extensions (ring.ModUpExact) are treated as exact away from the Q/2 boundary (probability of a miss ~2^-50 per coefficient)",
			"key-switching noise of a relinearisation key with LevelP=lp and power-of-two base w is bounded as in C04: digits of lp+1 primes (|digit| <= 2*Q_group) divided by the key's P; w>0 with lp<=0: ceil(bits(q_i)/w) digits below 2^w per prime; lp=-1,w=0: one digit below q_i per prime and no division",
			"a call refused with an error may leave anything in its receiver (C05 does not speak about it): the model drops a receiver whose value, level, degree or recorded scale changed",
		},
	})
}
