package c05

// Extended families (coverage audit):
//
//	cfgx/    the program engine of prog.go under configurations drawCfg never produces: a single
//	         modulus, no auxiliary modulus, 3..5 auxiliary primes, 9..12 RNS digits, the 61-bit primes
//	         bgv would take for its own extended basis, Q[0] right above t, the smallest ring, LogQ/LogP
//	         literals, parameters obtained through ParametersLiteral()/JSON/binary/bgv.NewParameters,
//	         non-default error and secret distributions, relinearisation keys at LevelP=-1 / LevelP=0 /
//	         with a power-of-two base, the bgv.New* constructor wrappers, interleaved copies of one
//	         evaluator, operands handed over as *rlwe.Element, receivers with stale metadata.
//	recv0/   every method with a receiver of degree 0 (smaller than any result).
//	scale/   rlwe.Scale arithmetic modulo t and bgv.MulScaleInvariant against exact integers.
//	errors2/ failure conditions the errors/ family does not reach.

import (
	"fmt"
	"math/big"

	"github.com/tuneinsight/lattigo/v6/core/rlwe"
	"github.com/tuneinsight/lattigo/v6/ring"
	"github.com/tuneinsight/lattigo/v6/schemes/bgv"

	"verif/harness/eng"
	"verif/harness/gen"
	"verif/harness/ref"
)

type xopt struct {
	Variant    string `json:"variant"`
	NoP        bool   `json:"noP,omitempty"`
	LogQ       []int  `json:"logQ,omitempty"`
	LogP       []int  `json:"logP,omitempty"`
	Via        string `json:"via,omitempty"` // reliteral | json | binary | newparams
	Xe         string `json:"xe,omitempty"`  // tight | unit | wide | ternary | ternaryH
	Xs         string `json:"xs,omitempty"`  // p50 | p05 | gauss | h1 | hN
	RlkSet     bool   `json:"rlkSet,omitempty"`
	RlkLP      int    `json:"rlkLevelP,omitempty"`
	RlkW       int    `json:"rlkW,omitempty"`
	Ctors      string `json:"ctors,omitempty"` // bgv: bgv.NewKeyGenerator / NewEncryptor / NewDecryptor
	Interleave bool   `json:"interleave,omitempty"`
	ElOp       bool   `json:"elOp,omitempty"`
	Dirty      bool   `json:"dirty,omitempty"`
	NoKey      string `json:"noKey,omitempty"` // nil | empty: the evaluator has no relinearisation key
}

func (x *xopt) String() string {
	s := x.Variant
	if x.NoP {
		s += ",noP"
	}
	if x.LogQ != nil {
		s += fmt.Sprintf(",logQ=%v,logP=%v", x.LogQ, x.LogP)
	}
	if x.Via != "" {
		s += ",via=" + x.Via
	}
	if x.Xe != "" {
		s += ",xe=" + x.Xe
	}
	if x.Xs != "" {
		s += ",xs=" + x.Xs
	}
	if x.RlkSet {
		s += fmt.Sprintf(",rlk(levelP=%d,w=%d)", x.RlkLP, x.RlkW)
	}
	if x.Ctors != "" {
		s += ",ctors=" + x.Ctors
	}
	if x.Interleave {
		s += ",interleave"
	}
	if x.ElOp {
		s += ",elOp"
	}
	if x.Dirty {
		s += ",dirty"
	}
	if x.NoKey != "" {
		s += ",evk=" + x.NoKey
	}
	return s
}

// literal applies the options that live in the parameters literal.
func (x *xopt) literal(pl *bgv.ParametersLiteral) {
	if x.NoP {
		pl.P = nil
	}
	if x.LogQ != nil {
		pl.Q, pl.P = nil, nil
		pl.LogQ, pl.LogP = x.LogQ, x.LogP
	}
	n := 1 << pl.LogN
	switch x.Xe {
	case "tight":
		pl.Xe = ring.DiscreteGaussian{Sigma: 3.2, Bound: 3.2}
	case "unit":
		pl.Xe = ring.DiscreteGaussian{Sigma: 0.6, Bound: 1}
	case "wide":
		pl.Xe = ring.DiscreteGaussian{Sigma: 12.8, Bound: 76.8}
	case "ternary":
		pl.Xe = ring.Ternary{P: 0.5}
	case "ternaryH":
		pl.Xe = ring.Ternary{H: n / 4}
	}
	switch x.Xs {
	case "p50":
		pl.Xs = ring.Ternary{P: 0.5}
	case "p05":
		pl.Xs = ring.Ternary{P: 0.05}
	case "gauss":
		pl.Xs = ring.DiscreteGaussian{Sigma: 3.2, Bound: 19.2}
	case "h1":
		pl.Xs = ring.Ternary{H: 1}
	case "hN":
		pl.Xs = ring.Ternary{H: n}
	}
}

// via re-obtains the parameters through another documented route; the evaluation must not care.
func (x *xopt) via(c *eng.Ctx, cf cfg, pl bgv.ParametersLiteral, params bgv.Parameters) (bgv.Parameters, bool) {
	if x.Via == "" {
		return params, true
	}
	var p2 bgv.Parameters
	var err error
	sig := "C05|bgv.Parameters|route-" + x.Via
	ok := c.Try(sig, func() {
		switch x.Via {
		case "reliteral":
			p2, err = bgv.NewParametersFromLiteral(params.ParametersLiteral())
		case "json":
			var b []byte
			if b, err = params.MarshalJSON(); err == nil {
				err = p2.UnmarshalJSON(b)
			}
		case "binary":
			var b []byte
			if b, err = params.MarshalBinary(); err == nil {
				err = p2.UnmarshalBinary(b)
			}
		case "newparams":
			var rp rlwe.Parameters
			if rp, err = rlwe.NewParametersFromLiteral(pl.GetRLWEParametersLiteral()); err == nil {
				p2, err = bgv.NewParameters(rp, pl.PlaintextModulus)
			}
		}
	})
	if !ok {
		return params, false
	}
	if err != nil {
		c.Violate(sig+"|error", fmt.Sprintf("%v: %v", cf, err), cf)
		return params, false
	}
	c.Check(p2.Equal(&params) && p2.PlaintextModulus() == params.PlaintextModulus() && p2.MaxLevel() == params.MaxLevel(), sig+"|not-equal", func() string {
		return fmt.Sprintf("parameters obtained through %s differ from the original; %v", x.Via, cf)
	})
	return p2, true
}

// ---------------------------------------------------------------------------------------------
// cfgx: case enumeration

var xVariants = []string{"singleQ", "noP", "manyP", "manyQ", "q61below", "tnear", "minring", "logqp", "via", "xe", "xs", "rlk", "mix", "mix2", "nokey"}

func onePrime(r *eng.Rand, bits int, nth uint64, pos int, skip map[uint64]bool) uint64 {
	pr := gen.Primes(bits, nth, 1, pos, skip)
	if len(pr) == 0 {
		pr = gen.Primes(bits, nth, 1, gen.PosAbove, skip)
	}
	if len(pr) == 0 {
		return 0
	}
	return pr[0]
}

// drawX draws one extended configuration; ok=false when the prime classes are too thin.
func drawX(r *eng.Rand, tier string, i int) (cfg, bool) {
	variant := xVariants[i%len(xVariants)]
	round := i / len(xVariants)
	cf := cfg{Kind: "prog", X: &xopt{Variant: variant}}
	x := cf.X
	cf.LogN = eng.Pick(r, 4, 5, 6, 7, 7, 8, 8, 9)
	if tier == "thorough" {
		cf.LogN = eng.Pick(r, 4, 5, 6, 7, 8, 9, 10, 11)
	}
	tbits := tBitSizes[(round+i)%len(tBitSizes)]
	nq := 3 + r.N(3)
	np := 1 + r.N(2)
	qpos := func() int { return 1 + r.N(3) }
	qbits := func(lo int) int {
		b := lo + r.N(62-lo)
		switch r.N(5) {
		case 0:
			b = 61
		case 1:
			b = 60
		}
		if b < lo {
			b = lo
		}
		return b
	}
	switch variant {
	case "singleQ":
		tbits = []int{8, 9, 13, 17, 20}[round%5]
		if cf.LogN > 9 {
			cf.LogN = 9
		}
		nq = 1
	case "manyQ":
		if cf.LogN > 8 {
			cf.LogN = 4 + r.N(5)
		}
		nq = 9 + r.N(4)
	case "manyP":
		np = 3 + r.N(3)
	case "minring":
		cf.LogN = 4 + r.N(2)
	case "logqp":
		tbits = []int{8, 9, 13, 17, 20, 30}[round%6]
	case "rlk":
		np = 2
		nq = 3 + r.N(3)
	}
	nth := uint64(2) << cf.LogN
	// plaintext modulus
	switch variant {
	case "minring":
		// plaintext ring of degree 8 (cyclotomic order 16), the smallest the backend accepts
		for _, pos := range []int{r.N(4), gen.PosAbove, gen.PosBelow} {
			for _, t := range gen.Primes(tbits, 16, 8, pos, nil) {
				if t%32 != 1 {
					cf.T = t
					break
				}
			}
			if cf.T != 0 {
				break
			}
		}
	default:
		cf.T = pickT(r, cf.LogN, tbits)
	}
	if cf.T == 0 {
		return cf, false
	}
	lo := ref.BitLen(cf.T) + 1
	if lo < cf.LogN+4 {
		lo = cf.LogN + 4
	}
	if lo < 20 {
		lo = 20
	}
	skip := map[uint64]bool{cf.T: true}
	switch variant {
	case "logqp":
		// the library generates the primes: sizes only (all above t)
		x.LogQ = make([]int, nq)
		for j := range x.LogQ {
			x.LogQ[j] = lo + 2 + r.N(60-lo-1)
			if x.LogQ[j] < cf.LogN+6 {
				x.LogQ[j] = cf.LogN + 6
			}
		}
		x.LogP = make([]int, np)
		for j := range x.LogP {
			x.LogP[j] = eng.Pick(r, 61, 60, 58, 55)
		}
	case "q61below":
		// the primes right below 2^61: the ones bgv takes for its extended multiplication basis unless Q holds them
		pr := gen.Primes(61, nth, nq+np, gen.PosBelow, skip)
		if len(pr) < nq+np {
			return cf, false
		}
		perm := r.Perm(len(pr))
		for j := 0; j < nq; j++ {
			cf.Q = append(cf.Q, pr[perm[j]])
		}
		for j := nq; j < nq+np; j++ {
			cf.P = append(cf.P, pr[perm[j]])
		}
	default:
		for j := 0; j < nq; j++ {
			b := qbits(lo)
			if j == 0 && b < lo+2 && lo+2 <= 61 {
				b = lo + 2
			}
			if variant == "singleQ" {
				b = eng.Pick(r, 61, 61, 60, 58)
			}
			var q uint64
			if variant == "tnear" && j == 0 {
				// the smallest NTT-friendly prime above t (t <= Q[0] is the documented domain)
				cand := cf.T - cf.T%nth + 1
				for cand <= cf.T {
					cand += nth
				}
				for steps := 0; steps < 1_000_000 && ref.BitLen(cand) <= 61; steps++ {
					if gen.IsPrime(cand) && !skip[cand] {
						q = cand
						break
					}
					cand += nth
				}
				if q != 0 {
					skip[q] = true
				}
			} else {
				q = onePrime(r, b, nth, qpos(), skip)
			}
			if q == 0 {
				return cf, false
			}
			cf.Q = append(cf.Q, q)
		}
		for j := 0; j < np; j++ {
			p := onePrime(r, eng.Pick(r, 61, 61, 61, 58, 55), nth, qpos(), skip)
			if p == 0 {
				return cf, false
			}
			cf.P = append(cf.P, p)
		}
	}
	if r.N(3) == 0 {
		cf.H = 1 + r.N(1<<cf.LogN)
		if r.N(2) == 0 && cf.H > 32 {
			cf.H = 32
		}
	}
	cf.Mode = eng.Pick(r, "bgv", "bfv")
	cf.Eval = eng.Pick(r, "new", "new", "shallow", "withkey")
	cf.Enc = eng.Pick(r, "sk", "sk", "pk")
	switch variant {
	case "singleQ":
		cf.Mode = []string{"bfv", "bfv", "bgv"}[round%3]
		if cf.H == 0 || cf.H > 32 {
			cf.H = 1 + r.N(32)
		}
	case "noP":
		x.NoP = true
		cf.P = nil
	case "via":
		x.Via = []string{"reliteral", "json", "binary", "newparams"}[round%4]
		x.Ctors = "bgv"
	case "xe":
		x.Xe = []string{"tight", "unit", "wide", "ternary", "ternaryH"}[round%5]
	case "xs":
		x.Xs = []string{"p50", "p05", "gauss", "h1", "hN"}[round%5]
		cf.H = 0
	case "rlk":
		x.RlkSet = true
		switch round % 6 {
		case 0:
			x.RlkLP, x.RlkW = -1, 0 // the key ignores the auxiliary modulus of the parameters
		case 1:
			x.RlkLP, x.RlkW = 0, 0 // the key uses the first of two auxiliary primes
		case 2:
			x.RlkLP, x.RlkW = 0, eng.Pick(r, 7, 16, 30)
		case 3:
			x.RlkLP, x.RlkW = -1, eng.Pick(r, 5, 13, 24)
		case 4:
			x.RlkLP, x.RlkW = 1, eng.Pick(r, 8, 20) // power-of-two base with two auxiliary primes: documented as ignored
		case 5:
			x.RlkLP, x.RlkW = 0, 1+r.N(30)
		}
	case "mix":
		x.Interleave, x.ElOp, x.Dirty = true, true, true
		x.Ctors = eng.Pick(r, "", "bgv")
	case "mix2":
		x.ElOp, x.Dirty = true, true
	case "nokey":
		// programs on an evaluator without relinearisation key: every relinearisation is refused with an
		// error and the program goes on with the other operations
		x.NoKey = []string{"nil", "empty"}[round%2]
		cf.Eval = eng.Pick(r, "new", "shallow")
	}
	cf.Progs = 3
	cf.Steps = 16
	if cf.LogN >= 10 {
		cf.Progs = 2
	}
	if tier == "thorough" {
		cf.Progs *= 2
		cf.Steps = 24
	}
	return cf, true
}

func xcases(tier string, seed int64) []eng.Case {
	r := eng.NewRand("c05-cases-x", seed)
	var out []eng.Case
	nx, nr0, nsc, ne2 := 14*len(xVariants), 12, 16, 12
	if tier == "thorough" {
		nx, nr0, nsc, ne2 = 110*len(xVariants), 64, 64, 48
	}
	for i := 0; i < nx; i++ {
		cf, ok := drawX(r.Sub("x", i), tier, i)
		if !ok {
			continue
		}
		c := cf
		id := fmt.Sprintf("cfgx/%04d/%s/logN%d/t%db/q%d/p%d/%s/%s/%s", i, c.X.Variant, c.LogN, ref.BitLen(c.T), len(c.Q)+len(c.X.LogQ), len(c.P)+len(c.X.LogP), c.Mode, c.Eval, c.Enc)
		out = append(out, eng.Case{ID: id, Sig: "C05|program", Desc: c, Run: func(ctx *eng.Ctx) { runPrograms(ctx, c) }})
	}
	small := func(rr *eng.Rand, i int, v string) (cfg, bool) {
		for k := 0; k < 64; k++ {
			cf, ok := drawCfg(rr, tier, i+k)
			if ok && cf.LogN <= 9 && len(cf.Q) >= 3 {
				cf.X = &xopt{Variant: v}
				cf.Eval = "new"
				return cf, true
			}
		}
		return cfg{}, false
	}
	for i := 0; i < nr0; i++ {
		cf, ok := small(r.Sub("recv0", i), i, "recv0")
		if !ok {
			continue
		}
		cf.Kind = "recv0"
		cf.Mode = []string{"bgv", "bfv"}[i%2]
		c := cf
		id := fmt.Sprintf("recv0/%03d/logN%d/t%db/q%d/%s", i, c.LogN, ref.BitLen(c.T), len(c.Q), c.Mode)
		out = append(out, eng.Case{ID: id, Sig: "C05|receiver-degree-0", Desc: c, Run: func(ctx *eng.Ctx) { runRecv0(ctx, c) }})
	}
	for i := 0; i < nsc; i++ {
		cf, ok := small(r.Sub("scale", i), i, "scale")
		if !ok {
			continue
		}
		cf.Kind = "scale"
		c := cf
		id := fmt.Sprintf("scale/%03d/logN%d/t%db/q%d", i, c.LogN, ref.BitLen(c.T), len(c.Q))
		out = append(out, eng.Case{ID: id, Sig: "C05|scale", Desc: c, Run: func(ctx *eng.Ctx) { runScale(ctx, c) }})
	}
	for i := 0; i < ne2; i++ {
		cf, ok := small(r.Sub("errors2", i), i, "errors2")
		if !ok {
			continue
		}
		cf.Kind = "errors2"
		cf.Mode = []string{"bgv", "bfv"}[i%2]
		if i%4 >= 2 {
			// a single modulus: the maximum level is level 0
			cf.Q = cf.Q[:1]
			cf.X.Variant = "errors2-singleQ"
		}
		c := cf
		id := fmt.Sprintf("errors2/%03d/logN%d/t%db/q%d/%s", i, c.LogN, ref.BitLen(c.T), len(c.Q), c.Mode)
		out = append(out, eng.Case{ID: id, Sig: "C05|errors", Desc: c, Run: func(ctx *eng.Ctx) { runErrors2(ctx, c) }})
	}
	return out
}

// ---------------------------------------------------------------------------------------------
// recv0: receivers of degree 0

// runRecv0 calls every method with a receiver allocated at degree 0 (bgv.NewCiphertext(params, 0, level)).
// Every operation resizes its receiver to the degree of the result (Add, Sub, the scale-invariant
// products, Rescale and the scalar/vector forms do); Mul/MulRelin document an error when the degree
// of the receiver does not fit. Either way the answer is a correct result or an error, never a panic.
func runRecv0(c *eng.Ctx, cf cfg) {
	e := setup(c, cf, nil, true)
	if e == nil {
		return
	}
	p := &prog{e: e, r: c.Rand().Sub("recv0"), kinds: map[string]bool{}}
	c.Sample(map[string]any{"kind": "recv0", "cfg": cf.String()})
	L := e.maxLvl
	fb8 := new(big.Int).Lsh(e.freshBound(), 3)
	if !e.budget(fb8, L) {
		c.Count("programs_not_started", 1)
		return
	}
	type shape struct {
		method, k string
	}
	var shapes []shape
	for _, m := range []string{"Add", "Sub", "Mul", "MulRelin", "MulScaleInvariant", "MulRelinScaleInvariant", "MulThenAdd", "MulRelinThenAdd"} {
		for _, k := range []string{"ct", "pt", "scalar", "vector"} {
			shapes = append(shapes, shape{m, k})
		}
	}
	shapes = append(shapes, shape{"Rescale", "none"}, shape{"Relinearize", "none"})
	for _, sh := range shapes {
		p.pool = nil
		a := p.freshCt(L, 1)
		s := &step{method: sh.method, k: sh.k, kind: "-", op0: a, outMode: "fresh", tag: "rdeg=0"}
		lvl := L
		if p.r.N(3) == 0 && L > 0 {
			lvl = L - 1
		}
		switch sh.k {
		case "ct":
			s.kind = "ct"
			s.c1 = p.freshCt(L, 1)
			s.op1, s.m1 = s.c1.ct, s.c1.m
		case "pt":
			s.kind = "pt"
			s.p1 = p.newPt()
			s.op1, s.m1 = s.p1.pt, s.p1.m
		case "scalar":
			var val uint64
			s.op1, s.kind, val, s.absC = p.scalar()
			s.m1 = bcast(val, e.slots)
		case "vector":
			s.op1, s.kind, s.m1 = p.vector()
		}
		if sh.method == "Relinearize" {
			// a degree-2 operand from a plain product
			b := p.freshCt(L, 1)
			s2 := &step{method: "Mul", newForm: true, k: "ct", kind: "ct", op0: a, c1: b, op1: b.ct, m1: b.m, outMode: "new"}
			x2 := p.expect(s2)
			if !e.budget(x2.bound, x2.level) {
				continue
			}
			n0 := len(p.pool)
			p.exec(s2, x2)
			if len(p.pool) != n0+1 {
				continue
			}
			s.op0 = p.pool[len(p.pool)-1]
			if s.op0.degree != 2 {
				continue
			}
			lvl = s.op0.level
		}
		if sh.method == "MulThenAdd" || sh.method == "MulRelinThenAdd" {
			s.outMode = "zero"
		}
		s.out = bgv.NewCiphertext(e.params, 0, lvl)
		x := p.expect(s)
		if x.err {
			continue
		}
		if !e.budget(x.bound, x.level) || !e.budget(s.op0.V, x.level) || (s.c1 != nil && !e.budget(s.c1.V, x.level)) {
			c.Count("steps_rejected_budget", 1)
			continue
		}
		if (sh.method == "Mul" || sh.method == "MulRelin") && sh.k == "ct" {
			x.errOK = true // "The procedure will return an error if opOut.Degree != op0.Degree + op1.Degree"
		}
		c.Count("receiver_degree0_calls", 1)
		c.Distinct(fmt.Sprintf("recv0/%s/%s/%s", cf.Mode, sh.method, sh.k), true)
		p.exec(s, x)
	}
}

// ---------------------------------------------------------------------------------------------
// scale: rlwe.Scale modulo t and bgv.MulScaleInvariant against exact integers

func runScale(c *eng.Ctx, cf cfg) {
	e := setup(c, cf, nil, true)
	if e == nil {
		return
	}
	r := c.Rand().Sub("scale")
	t := e.t
	c.Sample(map[string]any{"kind": "scale", "cfg": cf.String()})
	draw := func() uint64 {
		switch r.N(8) {
		case 0:
			return 1
		case 1:
			return t - 1
		case 2:
			return (t + 1) / 2
		case 3:
			return 2
		}
		return 1 + r.U64()%(t-1)
	}
	val := func(s rlwe.Scale) (uint64, bool) {
		if !s.Value.IsInt() {
			return 0, false
		}
		i, _ := s.Value.Int(nil)
		if i.Sign() < 0 || !i.IsUint64() {
			return 0, false
		}
		return i.Uint64(), true
	}
	modOK := func(s rlwe.Scale) bool { return s.Mod != nil && s.Mod.IsUint64() && s.Mod.Uint64() == t }
	c.Check(modOK(e.params.DefaultScale()) && modOK(e.params.NewScale(3)), "C05|bgv.Parameters.NewScale|mod-dropped", func() string {
		return fmt.Sprintf("DefaultScale().Mod=%v NewScale(3).Mod=%v, want %d; %v", e.params.DefaultScale().Mod, e.params.NewScale(3).Mod, t, cf)
	})
	for it := 0; it < 160; it++ {
		a, b := draw(), draw()
		sa, sb := e.params.NewScale(a), e.params.NewScale(b)
		// operands written the way the evaluator writes them: NewScale(q) with q >= t (Rescale), rlwe.NewScale(1) (vector operands)
		bu := b
		switch it % 4 {
		case 1:
			bu = e.cf.Q[r.N(len(e.cf.Q))]
			if bu%t == 0 {
				bu = b
			}
			sb = e.params.NewScale(bu)
		case 2:
			sb = rlwe.NewScale(b) // no modulus on the argument: the receiver's modulus decides
		}
		br := bu % t
		var mul, div rlwe.Scale
		if !c.Try("C05|rlwe.Scale.Mul", func() { mul = sa.Mul(sb) }) || !c.Try("C05|rlwe.Scale.Div", func() { div = sa.Div(sb) }) {
			return
		}
		gm, okm := val(mul)
		c.Check(okm && gm == e.mulT(a, br) && modOK(mul), "C05|rlwe.Scale.Mul|wrong-value", func() string {
			return fmt.Sprintf("Scale(%d).Mul(Scale(%d)) mod %d = %s (Mod %v), want %d", a, bu, t, mul.Value.Text('g', 40), mul.Mod, e.mulT(a, br))
		})
		gd, okd := val(div)
		want := e.mulT(a, e.invT(br))
		c.Check(okd && gd == want && modOK(div), "C05|rlwe.Scale.Div|wrong-value", func() string {
			return fmt.Sprintf("Scale(%d).Div(Scale(%d)) mod %d = %s (Mod %v), want %d", a, bu, t, div.Value.Text('g', 40), div.Mod, want)
		})
		c.Check(sa.Uint64() == a, "C05|rlwe.Scale.Uint64|wrong-value", func() string { return fmt.Sprintf("Scale(%d).Uint64() = %d", a, sa.Uint64()) })
		if it%4 == 0 {
			cmp := 0
			if a < b {
				cmp = -1
			} else if a > b {
				cmp = 1
			}
			mx, _ := val(sa.Max(sb))
			mn, _ := val(sa.Min(sb))
			wmx, wmn := a, b
			if b > a {
				wmx, wmn = b, a
			}
			c.Check(sa.Cmp(sb) == cmp && sa.Equal(sb) == (a == b) && mx == wmx && mn == wmn, "C05|rlwe.Scale.Cmp|wrong-value", func() string {
				return fmt.Sprintf("a=%d b=%d: Cmp=%d Equal=%v Max=%d Min=%d", a, b, sa.Cmp(sb), sa.Equal(sb), mx, mn)
			})
		}
		// the scale rule of the scale-invariant product, at every level
		level := r.N(e.maxLvl + 1)
		var si rlwe.Scale
		sb2 := e.params.NewScale(b)
		if !c.Try("C05|bgv.MulScaleInvariant", func() { si = bgv.MulScaleInvariant(e.params, sa, sb2, level) }) {
			return
		}
		gs, oks := val(si)
		wants := e.mulT(e.mulT(a, b), e.siFactor(level))
		c.Check(oks && gs == wants && modOK(si), "C05|bgv.MulScaleInvariant|wrong-value", func() string {
			return fmt.Sprintf("MulScaleInvariant(%d, %d, level %d) = %s (Mod %v), want a*b*(-Q_level)^-1 mod %d = %d; %v", a, b, level, si.Value.Text('g', 40), si.Mod, t, wants, cf)
		})
		c.Count("scale_identities", 4)
	}
	c.Distinct(fmt.Sprintf("scale/t%db/q%d", ref.BitLen(t), len(cf.Q)), true)
}

// ---------------------------------------------------------------------------------------------
// errors2: failure conditions the errors/ family does not reach

func runErrors2(c *eng.Ctx, cf cfg) {
	e := setup(c, cf, nil, true)
	if e == nil {
		return
	}
	p := &prog{e: e, r: c.Rand().Sub("errors2"), kinds: map[string]bool{}}
	L := e.maxLvl
	mk := func(level int) *rlwe.Ciphertext { return p.freshCt(level, p.pickScale()).ct }
	modeTag := ""
	if e.si {
		modeTag = ",mode=bfv"
	}
	must := func(method, pred string, f func() error) {
		var err error
		panicked, pv := eng.Panics(func() { err = f() })
		c.Eval(1)
		c.Count("documented_errors_observed", 1)
		c.Distinct("err2/"+cf.Mode+"/"+method+"/"+pred, true)
		switch {
		case panicked:
			c.Violate("C05|Evaluator."+method+"|panic|"+pred, fmt.Sprintf("documented failure condition answered by a panic: %v :: %v", pv, cf), cf)
		case err == nil:
			c.Violate("C05|Evaluator."+method+"|missing-error|"+pred, fmt.Sprintf("documented failure condition answered by a value :: %v", cf), cf)
		}
	}
	c.Sample(map[string]any{"kind": "errors2", "cfg": cf.String()})
	ev := e.ev
	out := func() *rlwe.Ciphertext { return bgv.NewCiphertext(e.params, 1, L) }

	// --- missing relinearisation key on evaluators that are copies, and on a key set that only holds a Galois key
	gk := e.kgen.GenGaloisKeyNew(e.params.GaloisElementForRowRotation(), e.sk)
	for _, kk := range []struct {
		tag string
		mk  func() *bgv.Evaluator
	}{
		{"evk=withkey-empty", func() *bgv.Evaluator { return ev.WithKey(rlwe.NewMemEvaluationKeySet(nil)) }},
		{"evk=shallowcopy-of-empty", func() *bgv.Evaluator {
			return bgv.NewEvaluator(e.params, rlwe.NewMemEvaluationKeySet(nil), e.si).ShallowCopy()
		}},
		{"evk=galois-only", func() *bgv.Evaluator { return bgv.NewEvaluator(e.params, rlwe.NewMemEvaluationKeySet(nil, gk), e.si) }},
	} {
		var bare *bgv.Evaluator
		if !c.Try("C05|bgv.NewEvaluator|"+kk.tag, func() { bare = kk.mk() }) {
			continue
		}
		pr := "k=ct," + kk.tag
		must("MulRelin", pr+modeTag, func() error { return bare.MulRelin(mk(L), mk(L), out()) })
		must("MulRelin", pr+modeTag, func() error { _, err := bare.MulRelinNew(mk(L), mk(L)); return err })
		must("MulRelinScaleInvariant", pr, func() error { return bare.MulRelinScaleInvariant(mk(L), mk(L), out()) })
		must("MulRelinThenAdd", pr, func() error { return bare.MulRelinThenAdd(mk(L), mk(L), mk(L)) })
		if ct2, err := ev.MulNew(mk(L), mk(L)); err == nil && ct2.Degree() == 2 {
			must("Relinearize", "k=none,"+kk.tag, func() error { return bare.Relinearize(ct2, out()) })
			must("Relinearize", "k=none,"+kk.tag, func() error { _, err := bare.RelinearizeNew(ct2); return err })
		}
	}

	// --- plaintext operand outside the NTT domain (InitOutputBinaryOp, check 4)
	{
		nontt := func() *rlwe.Plaintext { q := p.newPt().pt; q.IsNTT = false; return q }
		pr := "k=pt,isntt=false"
		must("Add", pr, func() error { return ev.Add(mk(L), nontt(), out()) })
		must("Sub", pr, func() error { return ev.Sub(mk(L), nontt(), out()) })
		must("Mul", pr+modeTag, func() error { return ev.Mul(mk(L), nontt(), out()) })
		must("MulRelin", pr+modeTag, func() error { return ev.MulRelin(mk(L), nontt(), out()) })
		must("MulScaleInvariant", pr, func() error { return ev.MulScaleInvariant(mk(L), nontt(), out()) })
		must("MulRelinScaleInvariant", pr, func() error { return ev.MulRelinScaleInvariant(mk(L), nontt(), out()) })
		must("MulThenAdd", pr, func() error { return ev.MulThenAdd(mk(L), nontt(), mk(L)) })
		must("MulRelinThenAdd", pr, func() error { return ev.MulRelinThenAdd(mk(L), nontt(), mk(L)) })
		must("Add", pr, func() error { _, err := ev.AddNew(mk(L), nontt()); return err })
	}

	// --- plaintext-only operands, remaining entry points and operand shapes
	{
		pr := "k=pt,op0=plaintext"
		mkpt := func() *rlwe.Plaintext { return p.newPt().pt }
		ct0 := func() *rlwe.Ciphertext { return &rlwe.Ciphertext{Element: mkpt().Element} }
		must("Sub", pr, func() error { _, err := ev.SubNew(ct0(), mkpt()); return err })
		must("MulRelin", pr+modeTag, func() error { _, err := ev.MulRelinNew(ct0(), mkpt()); return err })
		must("MulRelinScaleInvariant", pr, func() error { return ev.MulRelinScaleInvariant(ct0(), mkpt(), out()) })
		must("MulScaleInvariant", pr, func() error { _, err := ev.MulScaleInvariantNew(ct0(), mkpt()); return err })
		must("MulRelinThenAdd", pr, func() error { return ev.MulRelinThenAdd(ct0(), mkpt(), mk(L)) })
		// two degree-0 operands where the second one is a degree-0 ciphertext wrapper
		pr = "k=ct,both-degree-0"
		must("Add", pr, func() error { return ev.Add(ct0(), ct0(), out()) })
		must("Mul", pr+modeTag, func() error { return ev.Mul(ct0(), ct0(), out()) })
		must("MulThenAdd", pr, func() error { return ev.MulThenAdd(ct0(), ct0(), mk(L)) })
	}

	// --- no level left: with a single modulus the maximum level is level 0
	if !e.si {
		must("Rescale", "k=none,level=0", func() error { x := mk(L); ev.DropLevel(x, L); return ev.Rescale(x, x) })
		if L == 0 {
			must("Rescale", "k=none,level=0,single-modulus", func() error { return ev.Rescale(mk(0), out()) })
			c.Count("rescale_refused_single_modulus", 1)
		}
		if L >= 1 {
			// after consuming every level one by one (a failure on the way down is reported by the program families)
			x := mk(L)
			reached := true
			for x.Level() > 0 && reached {
				p, _ := eng.Panics(func() { reached = ev.Rescale(x, x) == nil })
				reached = reached && !p
			}
			if reached {
				must("Rescale", "k=none,level=0,after-rescales", func() error { return ev.Rescale(x, x) })
			}
		}
	}

	// --- degree too high, remaining entry points
	if ct2, err := ev.MulNew(mk(L), mk(L)); err == nil && ct2.Degree() == 2 {
		pr := "k=ct,degree>2"
		must("MulScaleInvariant", pr, func() error { _, err := ev.MulScaleInvariantNew(ct2, mk(L)); return err })
		must("MulRelinScaleInvariant", pr, func() error { _, err := ev.MulRelinScaleInvariantNew(mk(L), ct2); return err })
		must("Mul", pr+modeTag+",sq", func() error { return ev.Mul(ct2, ct2, bgv.NewCiphertext(e.params, 2, L)) })
		must("MulThenAdd", pr+",sq", func() error { return ev.MulThenAdd(ct2, ct2, mk(L)) })
	}
}
