// Package gen holds seeded generators shared by the monitors.
package gen

import (
	"math/big"

	"verif/harness/eng"
)

// IsPrime is an independent primality test (Miller-Rabin through math/big).
func IsPrime(q uint64) bool { return new(big.Int).SetUint64(q).ProbablyPrime(24) }

// Position of a prime inside its bit-size class.
const (
	PosBelow = iota // largest primes below 2^bits
	PosAbove        // smallest primes above 2^(bits-1)   (bit length == bits)
	PosMid13        // around 1.3 * 2^(bits-1)            (bit length == bits, round(log2) == bits-1... )
	PosMid19        // around 1.9 * 2^(bits-1)            (round(log2 q) == bits)
)

// Primes returns k distinct primes of bit length `bits` congruent to 1 mod nthRoot, found by
// stepping from a position-dependent starting point (downwards for PosBelow, upwards otherwise).
// Returns fewer than k when the class has not enough such primes.
func Primes(bits int, nthRoot uint64, k int, pos int, skip map[uint64]bool) []uint64 {
	if bits < 2 || bits > 63 {
		return nil
	}
	lo := uint64(1) << (bits - 1)
	hi := (uint64(1) << bits) - 1
	var start uint64
	down := false
	switch pos {
	case PosBelow:
		start, down = hi, true
	case PosAbove:
		start = lo
	case PosMid13:
		start = lo + lo/10*3
	case PosMid19:
		start = lo + lo/10*9
	}
	// align to 1 mod nthRoot
	c := start - (start % nthRoot) + 1
	if down {
		for c > hi {
			c -= nthRoot
		}
	} else {
		for c < start {
			c += nthRoot
		}
	}
	var out []uint64
	for steps := 0; steps < 2_000_000 && len(out) < k; steps++ {
		if c < lo || c > hi || c < nthRoot {
			break
		}
		if !skip[c] && IsPrime(c) {
			out = append(out, c)
			if skip != nil {
				skip[c] = true
			}
		}
		if down {
			if c < nthRoot+lo {
				break
			}
			c -= nthRoot
		} else {
			c += nthRoot
		}
	}
	return out
}

// PrimesFrom returns up to k primes congruent to 1 mod nthRoot found by stepping from start
// (upwards, or downwards when down is set); used for primes next to a chosen real number, e.g.
// 2^64/j, where the low word of the Barrett constant floor(2^128/q) is next to 2^64 (above) or 0 (below).
func PrimesFrom(start, nthRoot uint64, k int, down bool) []uint64 {
	c := start - (start % nthRoot) + 1
	if down {
		for c > start {
			c -= nthRoot
		}
	} else {
		for c < start {
			c += nthRoot
		}
	}
	var out []uint64
	for steps := 0; steps < 200_000 && len(out) < k && c > nthRoot && c < 1<<63; steps++ {
		if IsPrime(c) {
			out = append(out, c)
		}
		if down {
			c -= nthRoot
		} else {
			c += nthRoot
		}
	}
	return out
}

// Chain draws nq Q-primes and np P-primes with the given bit sizes (cycled), all distinct.
func Chain(r *eng.Rand, nthRoot uint64, qbits []int, pbits []int) (q, p []uint64) {
	skip := map[uint64]bool{}
	for _, b := range qbits {
		pr := Primes(b, nthRoot, 1, r.N(4), skip)
		if len(pr) == 0 {
			pr = Primes(b, nthRoot, 1, PosAbove, skip)
		}
		if len(pr) == 0 {
			return nil, nil
		}
		q = append(q, pr[0])
	}
	for _, b := range pbits {
		pr := Primes(b, nthRoot, 1, r.N(4), skip)
		if len(pr) == 0 {
			pr = Primes(b, nthRoot, 1, PosAbove, skip)
		}
		if len(pr) == 0 {
			return nil, nil
		}
		p = append(p, pr[0])
	}
	return
}

// Coefficient patterns for one modulus; top is the largest admissible value (inclusive).
const (
	PatUniform = iota
	PatZero
	PatTop       // all = top
	PatOneHot    // zeros, one lane = top
	PatLaneTop   // uniform, one lane (index given) = top
	PatAlternate // 0, top, 0, top
	PatSmall     // values in {0,1,2, top, top-1}
	NumPatterns
)

// Vec fills a vector with the pattern over [0, top].
func Vec(r *eng.Rand, n int, top uint64, pat int, lane int) []uint64 {
	v := make([]uint64, n)
	u := func() uint64 {
		if top == ^uint64(0) {
			return r.U64()
		}
		return r.U64() % (top + 1)
	}
	switch pat {
	case PatUniform:
		for i := range v {
			v[i] = u()
		}
	case PatZero:
	case PatTop:
		for i := range v {
			v[i] = top
		}
	case PatOneHot:
		v[lane%n] = top
	case PatLaneTop:
		for i := range v {
			v[i] = u()
		}
		for i := lane % 8; i < n; i += 8 {
			v[i] = top
		}
	case PatAlternate:
		for i := range v {
			if i&1 == 1 {
				v[i] = top
			}
		}
	case PatSmall:
		for i := range v {
			switch r.N(5) {
			case 0:
				v[i] = 0
			case 1:
				v[i] = min(1, top)
			case 2:
				v[i] = min(2, top)
			case 3:
				v[i] = top
			default:
				if top > 0 {
					v[i] = top - 1
				}
			}
		}
	}
	return v
}
