// Package obs holds the shared observation helpers of the cryptographic monitors: phase /
// noise measurement with the secret key, centred CRT reconstruction, statistics, deep snapshots.
//
// Trusted base: Phase uses lattigo's own NTT / Montgomery products to evaluate c0 + c1*s (+ c2*s^2);
// those kernels are judged independently against exact models by the C01 monitor. The CRT
// reconstruction and everything after it is math/big and independent of the library.
package obs

import (
	"math"
	"math/big"

	"github.com/tuneinsight/lattigo/v6/core/rlwe"
	"github.com/tuneinsight/lattigo/v6/ring"

	"verif/harness/ref"
)

// Plain returns the coefficient-domain, non-Montgomery representative of p at the level of r,
// interpreting the flags semantically (value = IMForm^{isMont}(INTT^{isNTT}(p))). p is not modified.
func Plain(r *ring.Ring, p ring.Poly, isNTT, isMont bool) ring.Poly {
	out := r.NewPoly()
	for i := range out.Coeffs {
		copy(out.Coeffs[i], p.Coeffs[i])
	}
	if isNTT {
		r.INTT(out, out)
	}
	if isMont {
		r.IMForm(out, out)
	}
	return out
}

// Phase returns c0 + c1*s + c2*s^2 ... of el under sk as a coefficient-domain non-Montgomery
// polynomial at el's level, honouring el.IsNTT / el.IsMontgomery.
func Phase(params rlwe.Parameters, el *rlwe.Element[ring.Poly], sk *rlwe.SecretKey) ring.Poly {
	level := el.Level()
	r := params.RingQ().AtLevel(level)
	acc := r.NewPoly()
	tmp := r.NewPoly()
	deg := el.Degree()
	toNTT := func(p ring.Poly, out ring.Poly) {
		for i := range out.Coeffs {
			copy(out.Coeffs[i], p.Coeffs[i])
		}
		if !el.IsNTT {
			r.NTT(out, out)
		}
	}
	toNTT(el.Value[deg], acc)
	for i := deg; i > 0; i-- {
		r.MulCoeffsMontgomery(acc, sk.Value.Q, acc) // sk is NTT+Montgomery: plain product
		toNTT(el.Value[i-1], tmp)
		r.Add(acc, tmp, acc)
	}
	r.INTT(acc, acc)
	if el.IsMontgomery {
		r.IMForm(acc, acc)
	}
	return acc
}

// Centered returns the centred CRT lift of every coefficient of p (rows 0..level of r).
func Centered(r *ring.Ring, p ring.Poly) []*big.Int {
	level := r.Level()
	crt := ref.NewCRT(r.ModuliChain()[:level+1])
	n := r.N()
	out := make([]*big.Int, n)
	col := make([]uint64, level+1)
	for j := 0; j < n; j++ {
		for i := 0; i <= level; i++ {
			col[i] = p.Coeffs[i][j]
		}
		out[j] = crt.Centered(col)
	}
	return out
}

// Diff returns centred (a - b) mod Q_level coefficient-wise; a and b coefficient-domain.
func Diff(r *ring.Ring, a, b ring.Poly) []*big.Int {
	d := r.NewPoly()
	r.Sub(a, b, d)
	return Centered(r, d)
}

// Stats of an integer vector.
type Stats struct {
	N       int
	MaxLog2 float64 // log2 of the largest absolute value (-1 if all zero)
	Max     *big.Int
	Std     float64
	Mean    float64
	NonZero int
}

func Stat(v []*big.Int) Stats {
	s := Stats{N: len(v), MaxLog2: -1, Max: new(big.Int)}
	var sum, sum2 float64
	for _, x := range v {
		a := new(big.Int).Abs(x)
		if a.Cmp(s.Max) > 0 {
			s.Max = a
		}
		if x.Sign() != 0 {
			s.NonZero++
		}
		f, _ := new(big.Float).SetInt(x).Float64()
		sum += f
		sum2 += f * f
	}
	if s.Max.Sign() > 0 {
		f, _ := new(big.Float).SetInt(s.Max).Float64()
		if math.IsInf(f, 0) {
			s.MaxLog2 = float64(s.Max.BitLen())
		} else {
			s.MaxLog2 = math.Log2(f)
		}
	}
	n := float64(len(v))
	if n > 0 {
		s.Mean = sum / n
		s.Std = math.Sqrt(math.Max(0, sum2/n-s.Mean*s.Mean))
	}
	return s
}

// Log2Big returns log2(|x|) (or -1 for zero).
func Log2Big(x *big.Int) float64 {
	if x.Sign() == 0 {
		return -1
	}
	f, _ := new(big.Float).SetInt(new(big.Int).Abs(x)).Float64()
	if math.IsInf(f, 0) {
		return float64(x.BitLen())
	}
	return math.Log2(f)
}

// ErrBound returns the worst-case absolute bound floor(B+1/2) of one sample of the error
// distribution, and its nominal standard deviation.
func ErrBound(params rlwe.Parameters) (bound float64, sigma float64) {
	switch xe := params.Xe().(type) {
	case ring.DiscreteGaussian:
		return math.Floor(xe.Bound + 0.5), xe.Sigma
	case ring.Ternary:
		if xe.P != 0 {
			return 1, math.Sqrt(xe.P)
		}
		return 1, math.Sqrt(float64(xe.H) / float64(params.N()))
	}
	return 0, 0
}

// SecretBound returns the worst-case |s|_inf and the worst-case Hamming weight (l1 norm bound)
// of the secret distribution.
func SecretBound(params rlwe.Parameters) (inf float64, l1 float64) {
	n := float64(params.N())
	switch xs := params.Xs().(type) {
	case ring.DiscreteGaussian:
		b := math.Floor(xs.Bound + 0.5)
		return b, b * n
	case ring.Ternary:
		if xs.H != 0 {
			return 1, math.Min(float64(xs.H), n)
		}
		return 1, n
	}
	return 0, 0
}
