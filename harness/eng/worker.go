package eng

import (
	"encoding/json"
	"flag"
	"fmt"
	"os"
	"strings"
	"syscall"
)

// WorkerMain is the main function of a per-property worker binary.
func WorkerMain() {
	prop := flag.String("prop", "", "property id")
	tier := flag.String("tier", "quick", "quick|thorough")
	seed := flag.Int64("seed", 1, "VERIF_SEED")
	shard := flag.Int("shard", 0, "")
	nshards := flag.Int("nshards", 1, "")
	only := flag.String("only", "", "run only this case id")
	skip := flag.String("skipthrough", "", "skip cases up to and including this id")
	out := flag.String("out", "", "result file")
	intent := flag.String("intent", "", "intent log")
	info := flag.Bool("info", false, "print monitor info")
	raceOnly := flag.Bool("raceonly", false, "only race/ cases")
	noRace := flag.Bool("norace", false, "skip race/ cases")
	flag.Parse()
	if *prop == "" && len(IDs()) == 1 {
		*prop = IDs()[0]
	}
	m := Get(*prop)
	if m == nil {
		fmt.Fprintf(os.Stderr, "unknown property %q (have %v)\n", *prop, IDs())
		os.Exit(2)
	}
	if *info {
		cs := m.Cases(*tier, *seed)
		nr := 0
		for _, c := range cs {
			if strings.HasPrefix(c.ID, "race/") {
				nr++
			}
		}
		json.NewEncoder(os.Stdout).Encode(map[string]any{"id": m.ID, "level": m.Level, "rule": m.Rule,
			"assumptions": m.Assumptions, "ncases": len(cs) - nr, "nrace": nr, "memlimit_mb": m.MemLimitMB})
		return
	}
	if v := os.Getenv("VERIF_RLIMIT_AS_MB"); v != "" {
		var mb uint64
		fmt.Sscan(v, &mb)
		if mb > 0 {
			lim := syscall.Rlimit{Cur: mb << 20, Max: mb << 20}
			if err := syscall.Setrlimit(syscall.RLIMIT_AS, &lim); err != nil {
				fmt.Fprintln(os.Stderr, "setrlimit:", err)
			}
		}
	}
	if err := RunShard(m, *tier, *seed, *shard, *nshards, *only, *skip, *raceOnly, *noRace, *out, *intent); err != nil {
		fmt.Fprintln(os.Stderr, "worker:", err)
		os.Exit(2)
	}
}
