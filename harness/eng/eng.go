// Package eng is the shared runtime-monitoring engine: deterministic case enumeration, a
// replaceable crypto/rand source, per-case verdict recording (held / violated / inconclusive),
// evidence counters, and the worker side of the child-process protocol.
package eng

import (
	"crypto/rand"
	"encoding/binary"
	"encoding/json"
	"fmt"
	"hash/fnv"
	"io"
	"os"
	"runtime/debug"
	"sort"
	"strings"
	"sync"

	"golang.org/x/crypto/blake2b"
)

// Case is one unit of work of a monitor. ID must be unique and stable for a (tier, seed).
// Sig is the signature prefix used when the case dies (panic / fatal) outside any finer Try.
type Case struct {
	ID   string `json:"id"`
	Sig  string `json:"sig"`
	Desc any    `json:"desc,omitempty"`
	// Run executes the case. Not serialised.
	Run func(c *Ctx) `json:"-"`
}

// Monitor is the workload+oracle of one property.
type Monitor struct {
	ID    string
	Level string // evidence level: exploration | fault_enumeration
	Rule  string // how cases are generated and what makes one distinct & non-trivial
	// Cases enumerates the case list as a pure function of (tier, seed).
	Cases       func(tier string, seed int64) []Case
	Assumptions []string
	// Race: build and run the worker with -race for the shards whose case id has prefix "race/".
	Race bool
	// MemLimitMB caps the address space of the (non-race) worker processes (RLIMIT_AS); 0 = no cap.
	MemLimitMB int
}

var registry = map[string]*Monitor{}

func Register(m *Monitor) { registry[m.ID] = m }
func Get(id string) *Monitor {
	return registry[id]
}
func IDs() []string {
	var s []string
	for k := range registry {
		s = append(s, k)
	}
	sort.Strings(s)
	return s
}

// Violation is one refuting observation.
type Violation struct {
	Case      string `json:"case"`
	Signature string `json:"signature"`
	Detail    string `json:"detail"`
	Witness   any    `json:"witness,omitempty"`
}

// Result is what a worker shard writes.
type Result struct {
	Prop         string           `json:"prop"`
	Cases        int              `json:"cases"`
	Evaluations  int64            `json:"evaluations"`
	Distinct     []uint64         `json:"distinct"`     // hashes of distinct non-trivial keys
	DistinctAll  int              `json:"distinct_all"` // number of distinct keys incl. trivial
	Counters     map[string]int64 `json:"counters"`
	Samples      []any            `json:"samples"`
	Violations   []Violation      `json:"violations"`
	Inconclusive []string         `json:"inconclusive"`
	Done         bool             `json:"done"`
}

// Ctx is handed to a running case.
type Ctx struct {
	Prop, Tier string
	Seed       int64
	CaseID     string
	caseSig    string
	mu         sync.Mutex
	res        *Result
	distinct   map[uint64]bool
	distinctNT map[uint64]bool
	rng        *Rand
	nviol      int
}

func (c *Ctx) Rand() *Rand { return c.rng }

// Eval counts n oracle evaluations.
func (c *Ctx) Eval(n int) {
	c.mu.Lock()
	c.res.Evaluations += int64(n)
	c.mu.Unlock()
}

// Count adds to a named coverage counter.
func (c *Ctx) Count(key string, n int64) {
	c.mu.Lock()
	c.res.Counters[key] += n
	c.mu.Unlock()
}

// Max keeps the maximum of a named counter.
func (c *Ctx) Max(key string, v int64) {
	c.mu.Lock()
	if cur, ok := c.res.Counters[key]; !ok || v > cur {
		c.res.Counters[key] = v
	}
	c.mu.Unlock()
}

// Distinct registers a distinguishing key; nontrivial by the monitor's stated rule.
func (c *Ctx) Distinct(key string, nontrivial bool) {
	h := fnv.New64a()
	h.Write([]byte(key))
	v := h.Sum64()
	c.mu.Lock()
	c.distinct[v] = true
	if nontrivial {
		c.distinctNT[v] = true
	}
	c.mu.Unlock()
}

// Sample stores a real case for the evidence file (bounded).
func (c *Ctx) Sample(s any) {
	c.mu.Lock()
	if len(c.res.Samples) < 4 {
		c.res.Samples = append(c.res.Samples, s)
	}
	c.mu.Unlock()
}

// Violate records a refuting observation. sig identifies (entry point | class | predicate).
func (c *Ctx) Violate(sig, detail string, witness any) {
	c.mu.Lock()
	defer c.mu.Unlock()
	c.nviol++
	// bound the volume: at most 40 violations per case, one per signature beyond 8.
	n := 0
	for _, v := range c.res.Violations {
		if v.Case == c.CaseID && v.Signature == sig {
			n++
		}
	}
	if n >= 2 || c.nviol > 200 {
		c.res.Counters["violations_suppressed"]++
		return
	}
	if len(detail) > 1500 {
		detail = detail[:1500] + "…"
	}
	c.res.Violations = append(c.res.Violations, Violation{Case: c.CaseID, Signature: sig, Detail: detail, Witness: witness})
}

// Check is Eval(1) + Violate when !ok.
func (c *Ctx) Check(ok bool, sig string, detail func() string) bool {
	c.Eval(1)
	if !ok {
		d := ""
		if detail != nil {
			d = detail()
		}
		c.Violate(sig, d, nil)
	}
	return ok
}

// Inconclusive records that a case could not be decided.
func (c *Ctx) Inconclusive(why string) {
	c.mu.Lock()
	c.res.Inconclusive = append(c.res.Inconclusive, c.CaseID+": "+why)
	c.mu.Unlock()
}

// Try runs f; a panic is reported as a violation with signature sig+"|panic" and Try returns false.
func (c *Ctx) Try(sig string, f func()) (ok bool) {
	defer func() {
		if r := recover(); r != nil {
			ok = false
			c.Violate(sig+"|panic", fmt.Sprintf("panic: %v\n%s", r, shortStack()), nil)
		}
	}()
	f()
	return true
}

// Panics runs f and reports whether it panicked (no violation recorded) together with the value.
func Panics(f func()) (p bool, val any) {
	defer func() {
		if r := recover(); r != nil {
			p = true
			val = r
		}
	}()
	f()
	return false, nil
}

func shortStack() string {
	s := string(debug.Stack())
	lines := strings.Split(s, "\n")
	var out []string
	for _, l := range lines {
		if strings.Contains(l, "/repo/") || strings.Contains(l, "harness/mon") {
			out = append(out, strings.TrimSpace(l))
			if len(out) >= 8 {
				break
			}
		}
	}
	return strings.Join(out, "\n")
}

// ---------------------------------------------------------------------------------------------
// deterministic randomness

// Rand is a BLAKE2b-XOF keyed stream with convenience draws. Not safe for concurrent use.
type Rand struct {
	x   blake2b.XOF
	key string
}

func NewRand(parts ...any) *Rand {
	key := fmt.Sprint(parts...)
	h, _ := blake2b.New256(nil)
	h.Write([]byte(key))
	k := h.Sum(nil)
	x, err := blake2b.NewXOF(blake2b.OutputLengthUnknown, k)
	if err != nil {
		panic(err)
	}
	return &Rand{x: x, key: key}
}

func (r *Rand) Read(p []byte) (int, error) { return r.x.Read(p) }
func (r *Rand) U64() uint64 {
	var b [8]byte
	r.x.Read(b[:])
	return binary.LittleEndian.Uint64(b[:])
}

// N returns a value in [0,n).
func (r *Rand) N(n int) int {
	if n <= 1 {
		return 0
	}
	return int(r.U64() % uint64(n))
}
func (r *Rand) Bool() bool             { return r.U64()&1 == 1 }
func (r *Rand) F64() float64           { return float64(r.U64()>>11) / float64(1<<53) }
func (r *Rand) Sub(parts ...any) *Rand { return NewRand(append([]any{r.key, "/"}, parts...)...) }
func (r *Rand) Perm(n int) []int {
	p := make([]int, n)
	for i := range p {
		p[i] = i
	}
	for i := n - 1; i > 0; i-- {
		j := r.N(i + 1)
		p[i], p[j] = p[j], p[i]
	}
	return p
}

// Pick returns one of the arguments.
func Pick[T any](r *Rand, xs ...T) T { return xs[r.N(len(xs))] }

type lockedReader struct {
	mu sync.Mutex
	r  io.Reader
}

func (l *lockedReader) Read(p []byte) (int, error) {
	l.mu.Lock()
	defer l.mu.Unlock()
	return l.r.Read(p)
}

// SeedCryptoRand makes crypto/rand (and therefore sampling.NewPRNG, sampling.Rand*) a
// deterministic function of the given key parts.
func SeedCryptoRand(parts ...any) {
	rand.Reader = &lockedReader{r: NewRand(append([]any{"crypto/rand:"}, parts...)...)}
}

// ---------------------------------------------------------------------------------------------
// worker side

// RunShard runs the cases of monitor m assigned to this shard and writes the result file.
func RunShard(m *Monitor, tier string, seed int64, shard, nshards int, only string, skipThrough string, raceOnly, noRace bool, outPath, intentPath string) error {
	cases := m.Cases(tier, seed)
	res := &Result{Prop: m.ID, Counters: map[string]int64{}}
	c := &Ctx{Prop: m.ID, Tier: tier, Seed: seed, res: res, distinct: map[uint64]bool{}, distinctNT: map[uint64]bool{}}
	var intent *os.File
	if intentPath != "" {
		var err error
		intent, err = os.OpenFile(intentPath, os.O_CREATE|os.O_WRONLY|os.O_APPEND, 0o644)
		if err != nil {
			return err
		}
		defer intent.Close()
	}
	flush := func(done bool) error {
		res.Done = done
		res.Distinct = res.Distinct[:0]
		for k := range c.distinctNT {
			res.Distinct = append(res.Distinct, k)
		}
		res.DistinctAll = len(c.distinct)
		b, err := json.Marshal(res)
		if err != nil {
			return err
		}
		tmp := outPath + ".tmp"
		if err := os.WriteFile(tmp, b, 0o644); err != nil {
			return err
		}
		return os.Rename(tmp, outPath)
	}
	skipping := skipThrough != ""
	idx := -1
	for _, cs := range cases {
		isRace := strings.HasPrefix(cs.ID, "race/")
		if raceOnly && !isRace || noRace && isRace {
			continue
		}
		idx++
		if only != "" {
			if cs.ID != only {
				continue
			}
		} else if idx%nshards != shard {
			continue
		}
		if skipping {
			if cs.ID == skipThrough {
				skipping = false
			}
			continue
		}
		if intent != nil {
			fmt.Fprintf(intent, "%s\t%s\n", cs.ID, cs.Sig)
			intent.Sync()
			// persist partial results so that a fatal crash loses only the running case
			if err := flush(false); err != nil {
				return err
			}
		}
		c.CaseID, c.caseSig = cs.ID, cs.Sig
		c.nviol = 0
		c.rng = NewRand("case:", seed, m.ID, cs.ID)
		SeedCryptoRand(seed, m.ID, cs.ID)
		res.Cases++
		run := cs.Run
		c.Try(cs.Sig, func() { run(c) })
	}
	return flush(true)
}

// Hex of a few u64s for details.
func U64s(v []uint64, max int) string {
	if len(v) > max {
		return fmt.Sprintf("%v…(%d)", v[:max], len(v))
	}
	return fmt.Sprint(v)
}
