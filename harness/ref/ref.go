// Package ref holds the independent reference models: exact modular arithmetic through 128-bit
// products and hardware division (no Barrett / Montgomery code shared with lattigo), naive
// negacyclic products, coefficient-domain automorphisms and CRT reconstruction with math/big.
package ref

import (
	"math/big"
	"math/bits"
)

// MulMod returns a*b mod q exactly (a, b arbitrary uint64).
func MulMod(a, b, q uint64) uint64 {
	hi, lo := bits.Mul64(a%q, b%q)
	_, r := bits.Div64(hi, lo, q)
	return r
}

// AddMod / SubMod on arbitrary uint64 inputs.
func AddMod(a, b, q uint64) uint64 {
	a %= q
	b %= q
	s := a + b // may wrap for q>2^63, not used there (q<2^62)
	if s >= q {
		s -= q
	}
	return s
}
func SubMod(a, b, q uint64) uint64 {
	a %= q
	b %= q
	if a >= b {
		return a - b
	}
	return a + q - b
}
func NegMod(a, q uint64) uint64 {
	a %= q
	if a == 0 {
		return 0
	}
	return q - a
}

// PowMod returns a^e mod q.
func PowMod(a, e, q uint64) uint64 {
	r := uint64(1) % q
	a %= q
	for e > 0 {
		if e&1 == 1 {
			r = MulMod(r, a, q)
		}
		a = MulMod(a, a, q)
		e >>= 1
	}
	return r
}

// InvMod for prime q.
func InvMod(a, q uint64) uint64 { return PowMod(a, q-2, q) }

// TwoTo64Mod returns 2^64 mod q.
func TwoTo64Mod(q uint64) uint64 {
	_, r := bits.Div64(1%q, 0, q) // (1<<64) / q remainder; requires 1%q < q
	return r
}

// NegacyclicMul returns a*b in Z_q[X]/(X^N+1), naive O(N^2). Inputs arbitrary uint64.
func NegacyclicMul(a, b []uint64, q uint64) []uint64 {
	n := len(a)
	out := make([]uint64, n)
	ar := make([]uint64, n)
	br := make([]uint64, n)
	for i := range a {
		ar[i] = a[i] % q
		br[i] = b[i] % q
	}
	for i := 0; i < n; i++ {
		if ar[i] == 0 {
			continue
		}
		for j := 0; j < n; j++ {
			p := MulMod(ar[i], br[j], q)
			k := i + j
			if k >= n {
				out[k-n] = SubMod(out[k-n], p, q)
			} else {
				out[k] = AddMod(out[k], p, q)
			}
		}
	}
	return out
}

// ConjInvMul returns the product in Z_q[X+X^-1]/(X^2N+1) of two elements given by their N
// coefficients (basis 1, X-X^{2N-1}... folded as lattigo's ConjugateInvariant ring does):
// unfold to degree 2N (c_i at i, -c_i at 2N-i), multiply negacyclically, fold back.
func ConjInvMul(a, b []uint64, q uint64) []uint64 {
	n := len(a)
	ua := unfold(a, q)
	ub := unfold(b, q)
	p := NegacyclicMul(ua, ub, q)
	return p[:n]
}

func unfold(a []uint64, q uint64) []uint64 {
	n := len(a)
	u := make([]uint64, 2*n)
	u[0] = a[0] % q
	for i := 1; i < n; i++ {
		u[i] = a[i] % q
		u[2*n-i] = NegMod(a[i], q)
	}
	return u
}

// Automorphism applies X -> X^g on the coefficient vector a of Z_q[X]/(X^N+1).
func Automorphism(a []uint64, g uint64, q uint64) []uint64 {
	n := uint64(len(a))
	out := make([]uint64, n)
	mask := 2*n - 1
	for i := uint64(0); i < n; i++ {
		k := (i * g) & mask
		if k >= n {
			out[k-n] = NegMod(a[i], q)
		} else {
			out[k] = a[i] % q
		}
	}
	return out
}

// MonomialMul multiplies by X^k (any integer k) in Z_q[X]/(X^N+1).
func MonomialMul(a []uint64, k int, q uint64) []uint64 {
	n := len(a)
	out := make([]uint64, n)
	kk := ((k % (2 * n)) + 2*n) % (2 * n)
	for i := 0; i < n; i++ {
		j := i + kk
		neg := false
		j %= 2 * n
		if j >= n {
			j -= n
			neg = true
		}
		if neg {
			out[j] = NegMod(a[i], q)
		} else {
			out[j] = a[i] % q
		}
	}
	return out
}

// CRT holds precomputed reconstruction constants for a list of pairwise-coprime moduli.
type CRT struct {
	Moduli []uint64
	Q      *big.Int
	Half   *big.Int
	coef   []*big.Int // (Q/qi) * ((Q/qi)^-1 mod qi)
}

func NewCRT(moduli []uint64) *CRT {
	c := &CRT{Moduli: append([]uint64(nil), moduli...), Q: big.NewInt(1)}
	for _, q := range moduli {
		c.Q.Mul(c.Q, new(big.Int).SetUint64(q))
	}
	c.Half = new(big.Int).Rsh(c.Q, 1)
	for _, q := range moduli {
		qi := new(big.Int).SetUint64(q)
		qh := new(big.Int).Div(c.Q, qi)
		inv := new(big.Int).ModInverse(new(big.Int).Mod(qh, qi), qi)
		if inv == nil {
			inv = big.NewInt(0)
		}
		c.coef = append(c.coef, new(big.Int).Mul(qh, inv))
	}
	return c
}

// Reconstruct returns the value in [0,Q) with the given residues (residues need not be reduced).
func (c *CRT) Reconstruct(res []uint64) *big.Int {
	x := new(big.Int)
	t := new(big.Int)
	for i, r := range res {
		t.SetUint64(r % c.Moduli[i])
		t.Mul(t, c.coef[i])
		x.Add(x, t)
	}
	return x.Mod(x, c.Q)
}

// Centered returns the representative in (-Q/2, Q/2] ... precisely: x > Q/2 -> x-Q.
func (c *CRT) Centered(res []uint64) *big.Int {
	x := c.Reconstruct(res)
	if x.Cmp(c.Half) > 0 {
		x.Sub(x, c.Q)
	}
	return x
}

// Column extracts the residues of coefficient j from a [][]uint64 (first len(moduli) rows).
func (c *CRT) Column(coeffs [][]uint64, j int) []uint64 {
	r := make([]uint64, len(c.Moduli))
	for i := range r {
		r[i] = coeffs[i][j]
	}
	return r
}

// ModU returns x mod q for a possibly negative big.Int.
func ModU(x *big.Int, q uint64) uint64 {
	m := new(big.Int).Mod(x, new(big.Int).SetUint64(q))
	return m.Uint64()
}

// FloorDiv and RoundHalfUpDiv on big.Int with positive divisor.
func FloorDiv(x, d *big.Int) *big.Int {
	q, m := new(big.Int).DivMod(x, d, new(big.Int)) // Euclidean: m>=0, so q is floor for d>0
	_ = m
	return q
}
func RoundHalfUpDiv(x, d *big.Int) *big.Int {
	// floor((2x + d) / (2d))
	n := new(big.Int).Lsh(x, 1)
	n.Add(n, d)
	return FloorDiv(n, new(big.Int).Lsh(d, 1))
}

// BitLen of a uint64.
func BitLen(q uint64) int { return bits.Len64(q) }
