#!/usr/bin/env python3
"""mk_round.py k  -> writes /tmp/mutprompts/Cxx-k.txt for every property: the base prompt of mut_prompt.py plus an
ADDITIONAL CONSTRAINT listing the summaries of the seeded changes already kept for that property."""
import json, sys, os, subprocess, glob
k = sys.argv[1]
os.makedirs('/tmp/mutprompts', exist_ok=True)
for i in range(1, 21):
    pid = f"C{i:02d}"
    base = subprocess.run(['python3', '/verif/tools/mut_prompt.py', pid, k], capture_output=True, text=True).stdout
    prev = []
    for d in sorted(glob.glob(f'/verif/seeded/{pid}-*')):
        try:
            m = json.load(open(d + '/meta.json'))
            prev.append(m['summary'][:420])
        except Exception:
            pass
    extra = "\n\nADDITIONAL CONSTRAINT: earlier changes for this property already exist:\n"
    for j, s in enumerate(prev, 1):
        extra += f'  ({j}) "{s}"\n'
    extra += ("Yours must be of a DIFFERENT kind from all of them: a different function / file where possible, a different mechanism "
              "and a different triggering condition (do not touch the same lines). First list, for yourself, every clause of the property "
              "statement, every dimension of its quantifier and every anchor file / mechanism, and mark which ones the earlier changes touched; "
              "then pick an UNTOUCHED clause x dimension x file combination. Favour: code that the anchor files CALL rather than the anchors "
              "themselves (helpers in utils/, ring/, core/rlwe that several callers share), rarely used exported entry points, error/refusal "
              "paths, metadata (levels, scales, flags, dimensions) rather than values, boundary sizes (smallest ring degree, single modulus, "
              "maximum level, level 0, no auxiliary modulus), the conjugate-invariant ring, non-default distributions, objects with a history "
              "(re-used receivers, evaluators after another call, copies of copies), and interactions between two features. A change whose "
              "effect is quantitatively small (a few bits of noise or precision, one coefficient in N, one call in a sequence) is better "
              "than a drastic one.\n")
    if len(sys.argv) > 2:
        extra += "\nEMPHASIS FOR THIS ROUND: " + open(sys.argv[2]).read().strip() + "\n"
    open(f'/tmp/mutprompts/{pid}-{k}.txt', 'w').write(base + extra)
print('ok')
