#!/usr/bin/env python3
"""Prints the prompt for a seeded-change agent: python3 mut_prompt.py Cxx k"""
import json, sys
pid, k = sys.argv[1], sys.argv[2]
for l in open('/verif/properties.jsonl'):
    p = json.loads(l)
    if p['id'] == pid:
        break
wt = f"/tmp/mut-{pid}-{k}"
out = f"/tmp/mut-out/{pid}-{k}"
print(f"""You are given one semantic property of the Go library lattigo (lattice-based homomorphic encryption, module github.com/tuneinsight/lattigo/v6). Your job is to write a REALISTIC CHANGE to lattigo that BREAKS this property while the library still compiles and the existing test suite still passes, plus a small demonstration (a Go test) that fails with your change and passes without it. This is used to evaluate an independent verification framework, so the change must look like a plausible maintenance edit / refactoring slip / optimisation gone wrong, not sabotage, and must not be something ordinary use would expose at once.

PROPERTY {pid}: {p['title']}
{p['statement']}
It is quantified over: {p['quantifier']['text']}
Why the existing tests do not settle it: {p['why_tests_cant']}
Code it is anchored in: {', '.join(p['anchors']['files'])}

RULES
- Do NOT read, list or use anything under /verif or /root/.vp (it would bias the evaluation). Work only from the lattigo source.
- Do NOT work in /repo itself. Create your own scratch git worktree:  git -C /repo worktree add --detach {wt} HEAD   and do everything there. Everything is offline: export GOFLAGS=-mod=mod GOPROXY=off GOSUMDB=off GOTOOLCHAIN=local in every shell call (Go 1.23).
- The change must need something specific to manifest: a particular interleaving, a particular level / modulus size / parameter shape, a multi-step sequence of operations, an unusual but legal input (boundary value, aliasing pattern, reused receiver, negative or huge argument, sparse packing, non-default scale ...), or two cooperating edits that each look fine alone. A change that makes the standard tests or any typical example fail is useless.
- Keep it small (1-25 changed lines, in 1-3 files, inside the anchor files or code they call). Do not touch *_test.go files, do not add build tags, do not change exported signatures.
- The change must compile (go build ./... && go vet ./<changed pkgs>) and the existing tests must still pass: at least run `go test -count=1` on every package you changed and on the packages that import them most directly (e.g. ring -> core/rlwe, schemes/bgv, schemes/ckks; core/rlwe -> schemes/..., circuits/..., multiparty/...). If a test fails, pick another change.
- Write a demonstration as a Go test file placed in the package directory of the worktree (name it zz_demo_{pid.lower()}_test.go, package name = that directory's test package) with one Test function that uses only the public API (or package-internal API if needed), is deterministic (fixed seeds / many trials so that it fails reliably, not 1 run in 10), runs in < 60 s, FAILS with your change and PASSES on the unchanged tree. Verify both: run it with the change applied, then `git diff > p.diff && git checkout -- .` (never `git stash`: the stash list is shared with the main repository) and run it without, then re-apply.
- Deliverables, written to {out}/ (create it):
    patch.diff   = `git -C {wt} diff` of the change ONLY (not the demo file; make sure the demo is untracked or excluded)
    demo_test.go = the demonstration test file, with a header comment saying in which package directory (relative to the repo root) it must be placed
    meta.json    = {{"property": "{pid}", "summary": "<one sentence: what the change does>", "needs_to_manifest": "<the specific input / sequence / configuration needed>", "files_changed": [...], "demo_dir": "<package dir relative to repo root>", "demo_run": "<go test command, relative to repo root>", "tests_run": ["<packages whose existing tests you ran and that passed>"], "demo_result_with_change": "FAIL", "demo_result_without_change": "PASS"}}
- When done, remove your worktree:  git -C /repo worktree remove --force {wt}   (keep only {out}/).
- Final message: 10 lines max — what the change is, what it needs to manifest, confirmation of the four facts (compiles, existing tests of listed packages pass, demo fails with, demo passes without).
""")
