#!/bin/bash
# usage: recheck_mut.sh Cxx-k [extra props]  -> re-applies /verif/seeded/Cxx-k/patch.diff on a scratch worktree of /repo HEAD
# and runs the property's quick check against it; prints one line, changes nothing under /verif/seeded.
set -u
id=$1; shift
prop=${id%%-*}
src=/verif/seeded/$id
wt=/tmp/re-$id
export GOFLAGS=-mod=mod GOPROXY=off GOSUMDB=off GOTOOLCHAIN=local
git -C /repo worktree remove --force $wt >/dev/null 2>&1; rm -rf $wt
git -C /repo worktree add -q --detach $wt HEAD || exit 2
cd $wt
if ! git apply $src/patch.diff 2>/dev/null; then
  if ! git apply --3way $src/patch.diff 2>/dev/null; then echo "$id | PATCH DOES NOT APPLY"; cd /; git -C /repo worktree remove --force $wt; exit 3; fi
fi
if ! go build ./... 2>/dev/null; then echo "$id | DOES NOT COMPILE"; cd /; git -C /repo worktree remove --force $wt; exit 3; fi
res=""
for p in $prop "$@"; do
  out=$(VERIF_REPO=$wt VERIF_WORK_SUFFIX=-re-$id VERIF_EVIDENCE_DIR=/tmp/ev-re /verif/bin/vcheck $p 2>&1)
  nv=$(echo "$out" | grep -c '^VIOLATION')
  res="$res $p:viol=$nv"
done
echo "$id |$res"
cd /; git -C /repo worktree remove --force $wt
