#!/usr/bin/env python3
"""Regenerates the generated tables of DESIGN.md (between <!-- BEGIN x --> / <!-- END x --> markers):
fixes (from /repo git log), known (from known_findings*.json), seeded (from /verif/seeded/*/meta.json)."""
import json, glob, subprocess, re, os

def fixes():
    log = subprocess.run(['git','-C','/repo','log','--reverse','--format=%h|%s','e4e1d02..HEAD'],capture_output=True,text=True).stdout.strip().split('\n')
    fixed = {}
    for f in ['/verif/known_findings.json']+sorted(glob.glob('/verif/known_findings.d/*.json')):
        for x in json.load(open(f))['findings']:
            if x['status']=='fixed' and x.get('commit'):
                fixed.setdefault(x['commit'][:7], set()).add(x['property'])
    out=['| commit | repair (subject of the `fix:` commit in /repo) | re-derived by |','|---|---|---|']
    for l in log:
        h,s=l.split('|',1)
        props=', '.join(sorted(fixed.get(h[:7],[]))) or '—'
        out.append(f"| `{h}` | {s.replace('fix: ','',1)} | {props} |")
    return '\n'.join(out)

def known():
    out=['| property | signature | what fails |','|---|---|---|']
    for f in ['/verif/known_findings.json']+sorted(glob.glob('/verif/known_findings.d/*.json')):
        for x in json.load(open(f))['findings']:
            if x['status']=='known':
                w=x['what'].replace('|','\\|').replace('\n',' ')
                if len(w)>330: w=w[:327]+'…'
                out.append(f"| {x['property']} | `{x['signature']}` | {w} |")
    return '\n'.join(out)

def seeded():
    out=['| id | property | what the change does / what it needs to manifest | demo (with / without change) | result of `vcheck` against the change |','|---|---|---|---|---|']
    for d in sorted(glob.glob('/verif/seeded/*/meta.json')):
        m=json.load(open(d)); cid=os.path.basename(os.path.dirname(d))
        c=m.get('confirmed_by_lead',{})
        dw='FAIL' if 'FAIL' in c.get('demo_with_change','') else c.get('demo_with_change','?')[:20]
        dwo='PASS' if c.get('demo_without_change','').startswith('ok') else c.get('demo_without_change','?')[:20]
        chk=c.get('checks_against_change','')
        ents=re.findall(r'(C\d\d):viol=(\d+)\[([^\]]*)\]',chk)
        own=[e for e in ents if e[0]==m['property'] and int(e[1])>0]
        other=[e for e in ents if e[0]!=m['property'] and int(e[1])>0]
        if own:
            res='**caught** — `'+own[0][2].split(';')[0]+'`'
            if other: res+=' (also by '+', '.join(e[0] for e in other)+')'
        elif other:
            res='**caught by '+other[0][0]+'** (not by '+m['property']+') — `'+other[0][2].split(';')[0]+'`'
        else:
            res='**missed**'
        if m.get('lead_note'): res+=' — '+m['lead_note']
        s=(m.get('summary','')+' — needs: '+m.get('needs_to_manifest','')).replace('|','\\|').replace('\n',' ')
        if len(s)>420: s=s[:417]+'…'
        out.append(f"| {cid} | {m['property']} | {s} | {dw} / {dwo} | {res} |")
    return '\n'.join(out)

p='/verif/DESIGN.md'
s=open(p).read()
for name,fn in (('fixes',fixes),('known',known),('seeded',seeded)):
    b,e=f'<!-- BEGIN {name} -->',f'<!-- END {name} -->'
    if b in s and e in s:
        s=s[:s.index(b)+len(b)]+'\n'+fn()+'\n'+s[s.index(e):]
open(p,'w').write(s)
print('tables regenerated')
