#!/usr/bin/env python3
"""markfixed.py Cxx 'substring-of-signature' commit  -> sets status=fixed + commit on matching entries of known_findings.d/Cxx.json"""
import json, sys
prop, sub, commit = sys.argv[1], sys.argv[2], sys.argv[3]
p = f'/verif/known_findings.d/{prop}.json'
d = json.load(open(p))
n = 0
for x in d['findings']:
    if sub in x['signature'] and x['status'] == 'known':
        x['status'] = 'fixed'; x['commit'] = commit
        if not x['what'].startswith('fixed:'):
            x['what'] = f"fixed: property={prop} {commit} " + x['what']
        n += 1
json.dump(d, open(p, 'w'), indent=1)
print(prop, sub, commit, 'entries:', n)
