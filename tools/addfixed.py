#!/usr/bin/env python3
"""addfixed.py Cxx 'signature' commit 'what'  -> appends a status=fixed entry to known_findings.d/Cxx.json (or marks an existing one fixed)"""
import json, sys, os
prop, sig, commit, what = sys.argv[1:5]
p = f'/verif/known_findings.d/{prop}.json'
d = json.load(open(p)) if os.path.exists(p) else {'findings': []}
for x in d['findings']:
    if x['signature'] == sig:
        x['status'] = 'fixed'; x['commit'] = commit
        x['what'] = f"fixed: property={prop} {commit} " + what
        break
else:
    d['findings'].append({'property': prop, 'signature': sig, 'status': 'fixed',
                          'what': f"fixed: property={prop} {commit} " + what, 'commit': commit})
json.dump(d, open(p, 'w'), indent=1)
print('ok', prop, sig)
