#!/usr/bin/env python3
"""Prints the build-agent prompt for one property id."""
import json, sys
pid = sys.argv[1]
for l in open('/verif/properties.jsonl'):
    p = json.loads(l)
    if p['id'] == pid:
        break
low = pid.lower()
print(f"""You are building one runtime monitor of a verification framework for the Go library lattigo (lattice-based homomorphic encryption; source in /repo, module github.com/tuneinsight/lattigo/v6, Go 1.23 toolchain, fully offline sandbox). The framework lives in /verif. Your job: implement the monitor for property {pid} in /verif/harness/mon/{low}/ (package {low}) and its worker main /verif/harness/cmd/w/{low}/main.go, make it silent on the unchanged tree, and show by your own mutation checks on a scratch copy that it detects realistic breakage.

FIRST read, in this order: /verif/harness/MONITORS.md (engine API, soundness rules, how to run — follow it exactly), /verif/harness/mon/c01/c01.go (worked example), the section "### {pid}" of /verif/DESIGN.md plus its sections 2.4, 5 and 6 (the design you implement; section 6 lists defects anticipated in the unchanged tree), then the lattigo source files the property is anchored in (listed below). Read the lattigo code carefully before writing any oracle.

PROPERTY {pid}: {p['title']}
Statement: {p['statement']}
Quantified over: {p['quantifier']['text']}
Why the existing tests cannot settle it: {p['why_tests_cant']}
Anchor files: {', '.join(p['anchors']['files'])}
Observe at: {'; '.join(p['anchors'].get('observe_at') or [])}

Technique (fixed for this project): runtime monitoring — run the real code on generated, hostile, boundary-heavy workloads and judge every execution with an oracle that is independent of the code path under test (exact reference models with math/big or 128-bit arithmetic, plaintext-side recomputation, decryption with the secret key and noise measurement, snapshots). No proofs, no model checking.

Hard rules:
- Never modify anything under /repo. Never modify /verif/harness/eng, ref, gen, obs, cmd/vcheck, /verif/MANIFEST.json, /verif/DESIGN.md, /verif/properties.jsonl. Do not run git commands in /verif or /repo (the lead commits). Other agents are working in sibling directories mon/cYY at the same time: touch only mon/{low}/, cmd/w/{low}/ and (for genuine lattigo defects only) /verif/known_findings.d/{pid}.json.
- Zero false alarms: the check must exit 0 with no VIOLATION line on the unchanged tree at VERIF_SEED=1,2,3,4,5 (quick tier) and at seed 1 thorough. Oracles must encode the property as stated and as the code documents, nothing stricter. Worst-case (not statistical) upper bounds for noise.
- If the unchanged tree genuinely violates the property (you can show the failing input against the real code and you have convinced yourself the oracle is right), keep the check strict, give that failure its own precise signature, list it in /verif/known_findings.d/{pid}.json with status "known" (so the run exits 0 and prints KNOWN-FINDING), and describe it in your final report with the exact failing call, so the lead can decide whether to repair lattigo. Do not loosen a check to hide a real defect and do not list a false alarm as a known finding.
- Quick tier: whole `/verif/bin/vcheck {pid}` run at most ~60-90 s wall (16 cores, cases are sharded over child processes). Thorough tier: at most ~15 min. Keep ring degrees small (logN 4..11) unless the property needs more; vary the dimensions the property quantifies over.
- Evidence must show what was observed: implement Rule / c.Distinct / c.Sample / counters as MONITORS.md says; distinct_nontrivial must be a measured count.
- Mutation-check yourself (MONITORS.md rule 6) with at least 4 realistic semantic edits to the anchor files on a scratch copy under /tmp (VERIF_REPO=...), each compiling; prefer subtle ones (boundary conditions, one operand kind, one level, one aliasing pattern, bookkeeping that only shows after composition). Strengthen the monitor until they are caught or explain precisely why one is unobservable. Remove the scratch copy when done.
- Everything must work offline: export GOFLAGS=-mod=mod GOPROXY=off GOSUMDB=off GOTOOLCHAIN=local in every shell call.

Final report (your last message, plain text, <= 60 lines): files written; what the workload enumerates/samples and the oracles; quick/thorough wall time, cases, evaluations, distinct_nontrivial at seed 1; result at seeds 1-5; each genuine defect found in the unchanged tree (signature, exact failing input/call, root cause file:line, suggested minimal fix); each mutation tried and whether it was caught; known limitations (sub-clauses of the property the monitor does not observe).""")
