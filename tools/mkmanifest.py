#!/usr/bin/env python3
"""Regenerates /verif/MANIFEST.json from the table below (run after adding a monitor)."""
import json, os

ENV = "GOFLAGS=-mod=mod GOPROXY=off GOSUMDB=off GOTOOLCHAIN=local"
SETUP = f"mkdir -p /verif/bin && cd /verif/harness && {ENV} go build -o /verif/bin/vcheck ./cmd/vcheck"

# id -> (category, technique, text, level_note, design_ref)
CHECKS = {
 "C01": ("exploration", "runtime reference-model monitor: every ring op executed on boundary-pattern inputs and compared lane by lane with exact 128-bit/naive-convolution models",
         "Every SubRing/Ring/ringqp op, both NTT transformers, automorphisms and monomial products are executed on (ring type x logN x prime size 7..61 bits x prime position x input pattern x extreme lane) and each output lane is compared with an exact model; ranges are checked where documented. Sampled, not exhaustive in prime values.",
         "trusts bits.Mul64/Div64 + math/big as the model; input domains for undocumented ops are the narrowest in-tree callers use", "4/C01"),
 "C02": ("exploration", "runtime reference-model monitor: rescaling, basis extension and RNS decomposition executed on divisor-boundary inputs and compared coefficient-wise with math/big integer division / centred lifting / gadget recombination",
         "All DivFloor/DivRound(Many)(NTT) variants for every level and number of consecutive rescalings, ModUpQtoP/PtoQ and ModDownQPtoQ(NTT)/QPtoP for every (levelQ, levelP) pair, Decomposer.DecomposeAndSplit for every digit, rlwe.Evaluator.DecomposeNTT recombination against the RNS gadget vector, and the small-norm centred extension, on chains of 1..6 Q primes and 0..3 P primes of unequal sizes; boundary-heavy inputs; sampled chains.",
         "trusts math/big; allowed slack is exactly the one the property states (one multiple of the source modulus for ModUp, 1 for ModDown, same offset on every output modulus)", "4/C02"),
 "C03": ("exploration", "runtime monitor with secret-key observation: every encryption/key component is decrypted by the harness and its exact centred error vector is compared with worst-case upper and statistical lower bounds",
         "Accepted rlwe literals (both ring types, 1..4 Q / 0..2 P primes of mixed sizes, 8 secret and 5 error distributions) x every level x sk/pk x encryptor variants (ShallowCopy, WithKey, WithPRNG) x degree 0/1/2 x IsNTT x IsMontgomery: metadata equality, exact noise vector vs worst-case bound, pooled std in [nominal/2, 2 nominal], distinct errors/ciphertexts on re-encryption, unreadability under an independent key; every component of public, relinearisation, Galois and generic evaluation keys (incl. compressed+Expand, all (LevelQ, LevelP), power-of-two digits) is checked to be an encryption of exactly its gadget payload with error <= the truncation bound.",
         "ring arithmetic used for c0+c1*s is trusted from C01; lower bounds only see >2x deviations of sigma; Element[ringqp.Poly] targets are observed through key generation only", "4/C03"),
 "C04": ("exploration", "runtime monitor with secret-key observation: after every key-switching entry point the phase under the target key is compared with the exactly transformed plaintext against a worst-case decomposition-derived noise bound",
         "Parameter sets with 1..6 Q and 0..3 P primes of mixed sizes, both ring types, 5 secret distributions; evaluation-key parameters (LevelQ, LevelP, w in 0..30, Compressed) drawn per case; ApplyEvaluationKey, Relinearize, Automorphism, AutomorphismHoisted(Lazy), GadgetProduct, GadgetProductLazy, GadgetProductHoisted(Lazy)+ModDown on ciphertexts at levels <= key level, NTT and coefficient domain; compressed keys: Expand determinism and equality with the keyed uniform stream; missing keys must give errors. Not yet covered: ring-degree switching, standard/conjugate-invariant swap, RingPackingEvaluator.",
         "worst-case bounds are loose by design (no false alarm possible from noise); only defects that push noise towards Q_level are visible", "4/C04"),
 "C07": ("exploration", "runtime reference-model monitor: encoders/decoders executed on boundary-heavy message vectors and compared with exact Z_t models and an independent arbitrary-precision canonical embedding",
         "BGV: every level x batched/coefficient x IsNTT x uint64/int64 x boundary patterns x lengths x scales, exact residues, signed range, zero padding, decode under maximal admissible noise, product of encodings, Embed into ring.Poly/ringqp.Poly; CKKS: both rings, all LogDimensions, 8 precisions, 4 input and output types, Encode/Embed/Decode/DecodePublic/FFT/IFFT against an O(n^2) big-float embedding with the rounding + working-precision bound. 8 genuine defects recorded as known findings.",
         "trusts math/big; precision losses below the stated floating-point tolerance are invisible; classes masked by known findings are listed in DESIGN.md", "4/C07"),
 "C08": ("fault_enumeration", "runtime fault injection at the io.Reader/io.Writer boundary with byte-level and value-level oracles over a zoo of 30 serializable types",
         "Every type x value variant: size/identity over 5 writing entry points, 12 reading entry points (UnmarshalBinary, bytes.Reader, bufio 16/17/100/4096 and buffer.Buffer with position sentinel, 1-byte/half/random-chunk transports plain and under shared bufio) x fresh and dirty receivers, mixed-type streams through shared bufio readers/writers, truncation at every offset (exhaustive <= 4 KiB), 8-byte-window and single-byte corruption at every offset (exhaustive <= 0.8 KiB quick / 6 KiB thorough) under an address-space cap, writer failure at every offset.",
         "zoo values are built by allocation + random coefficients (content is not interpreted by the codecs); bootstrapping key bundles and scheme-level (bgv/ckks/bootstrapping) parameter literals are covered by C19 instead; corrupted encodings that decode to a different self-consistent object are accepted", "4/C08"),
 "C12": ("exploration", "runtime monitor: homomorphic linear transformations executed on generated diagonal sets / API modes and compared slot-wise with the plaintext matrix-vector product, exact metadata, exactly-advertised Galois keys",
         "bgv, bfv and ckks (std/CI), logN 4..10, 13 diagonal-set kinds with signed indices, BSGS ratios -1..5, independent ct / matrix / receiver levels, Evaluate/EvaluateNew/EvaluateMany/EvaluateSequential(+New), permutations via GetDiagonals; exact mod t for BGV, worst-case-budget bound for CKKS; level/scale checked exactly; evaluator holds exactly the advertised Galois keys. 2 genuine defects recorded as known findings.",
         "EvaluateMany outputs after a BSGS matrix with giant steps are masked by known finding 2; CKKS >53-bit precision path not exercised", "4/C12"),
 "C15": ("exploration", "runtime reference-model monitor: threshold setup and combination executed for every (t,N), subset and ordering and compared with exact Shamir/Lagrange arithmetic in R_QP; protocols re-run with t shares",
         "All 1<=t<=N<=6; 8 public-point families (small, >2^32, near 2^64, near multiples of primes) distinct mod every prime; all aggregation orders (N<=5) in three accumulation shapes; every t-subset in every listing order (exhaustive for N<=5); sum of additive shares == ideal secret exactly; fewer than t parties refused by error; (t-1)-subsets do not interpolate the secret; CKG and key-switch protocols run by t parties decrypt correctly within worst-case noise.",
         "public points colliding modulo a prime, duplicate points and lists longer than t are outside the property's domain and not generated", "4/C15"),
}
ALL = [f"C{i:02d}" for i in range(1, 21)]
PENDING_REASON = "monitor not built yet in this session (planned in DESIGN.md section 4); nothing is claimed for it"

def main():
    checks = []
    for pid in ALL:
        if pid not in CHECKS:
            continue
        cat, tech, text, note, ref = CHECKS[pid]
        checks.append({
            "property_id": pid,
            "quick_cmd": f"/verif/bin/vcheck {pid} --tier quick",
            "thorough_cmd": f"/verif/bin/vcheck {pid} --tier thorough",
            "evidence_file": f"/verif/evidence/{pid}.json",
            "replay_cmd_template": f"/verif/bin/vcheck {pid} --replay {{path}}",
            "engine": "vcheck",
            "level_claimed": {"category": cat, "text": text, "design_ref": f"DESIGN.md {ref}"},
            "level_note": note,
            "technique": tech,
        })
    hooks_commits = []
    hp = "/verif/tools/hook_commits.txt"
    if os.path.exists(hp):
        hooks_commits = [l.strip() for l in open(hp) if l.strip()]
    m = {
        "version": 1,
        "setup_cmd": SETUP,
        "hooks": {
            "guard": "verif",
            "enable": "the worker is built with `go build -tags verif` against /repo's working tree (replace directive in /verif/harness/go.mod)",
            "baseline_off_cmd": "cd /repo && GOFLAGS=-mod=mod GOPROXY=off GOSUMDB=off GOTOOLCHAIN=local go test -vet=off -count=1 -timeout 25m ./...",
            "source_commits": hooks_commits,
            "add_only": True,
        },
        "engines": [{"name": "vcheck", "path": "/verif/harness", "serves_properties": [c["property_id"] for c in checks],
                     "kind_free_text": "runtime monitoring: driver + child-process workers running generated hostile workloads against the real code with reference-model / snapshot / noise / race-detector oracles"}],
        "checks": checks,
        "notes": "Every check rebuilds the worker from /repo's working tree (go build, cached) before running. Exit 0 = held on everything explored (KNOWN-FINDING lines possible), 1 = VIOLATION, 3 = inconclusive (observed too little).",
        "not_applicable": [{"property_id": p, "reason": PENDING_REASON} for p in ALL if p not in CHECKS],
    }
    json.dump(m, open("/verif/MANIFEST.json", "w"), indent=1)
    print("checks:", [c["property_id"] for c in checks])

main()
