#!/usr/bin/env python3
"""Regenerates /verif/MANIFEST.json from the table below (run after adding a monitor)."""
import json, os

ENV = "GOFLAGS=-mod=mod GOPROXY=off GOSUMDB=off GOTOOLCHAIN=local"
SETUP = f"mkdir -p /verif/bin && cd /verif/harness && {ENV} go build -o /verif/bin/vcheck ./cmd/vcheck"

# id -> (category, technique, text, level_note, design_ref)
CHECKS = {
 "C01": ("exploration", "runtime reference-model monitor: every ring op executed on boundary-pattern inputs and compared lane by lane with exact 128-bit/naive-convolution models",
         "Every SubRing/Ring/ringqp op, both NTT transformers, automorphisms (incl. Galois elements given by unreduced representatives g+k*2N) and monomial products are executed on (ring type x logN x prime size 7..61 bits x prime position x input pattern x extreme lane) and each output lane is compared with an exact model; ranges are checked where documented. Sampled, not exhaustive in prime values.",
         "trusts bits.Mul64/Div64 + math/big as the model; input domains for undocumented ops are the narrowest in-tree callers use", "4/C01"),
 "C02": ("exploration", "runtime reference-model monitor: rescaling, basis extension and RNS decomposition executed on divisor-boundary inputs and compared coefficient-wise with math/big integer division / centred lifting / gadget recombination",
         "All DivFloor/DivRound(Many)(NTT) variants for every level and number of consecutive rescalings, ModUpQtoP/PtoQ and ModDownQPtoQ(NTT)/QPtoP for every (levelQ, levelP) pair, Decomposer.DecomposeAndSplit for every digit, rlwe.Evaluator.DecomposeNTT recombination against the RNS gadget vector, and the small-norm centred extension, on chains of 1..6 Q primes and 0..3 P primes of unequal sizes; boundary-heavy inputs; sampled chains.",
         "trusts math/big; allowed slack is exactly the one the property states (one multiple of the source modulus for ModUp, 1 for ModDown, same offset on every output modulus)", "4/C02"),
 "C03": ("exploration", "runtime monitor with secret-key observation: every encryption/key component is decrypted by the harness and its exact centred error vector is compared with worst-case upper and statistical lower bounds",
         "Accepted rlwe literals (both ring types, 1..4 Q / 0..2 P primes of mixed sizes, 8 secret and 5 error distributions) x every level x sk/pk x encryptor variants (ShallowCopy, WithKey, WithPRNG) x degree 0/1/2 x IsNTT x IsMontgomery: metadata equality, exact noise vector vs worst-case bound, pooled std in [nominal/2, 2 nominal], distinct errors/ciphertexts on re-encryption and across encryptors derived from one another (ShallowCopy, WithKey, copy of a copy), unreadability under an independent key, error distributions with tail cuts inside 6 sigma; every component of public, relinearisation, Galois and generic evaluation keys (incl. compressed+Expand, all (LevelQ, LevelP), power-of-two digits) is checked to be an encryption of exactly its gadget payload with error <= the truncation bound.",
         "ring arithmetic used for c0+c1*s is trusted from C01; lower bounds only see >2x deviations of sigma; Element[ringqp.Poly] targets are observed through key generation only", "4/C03"),
 "C04": ("exploration", "runtime monitor with secret-key observation: after every key-switching entry point the phase under the target key is compared with the exactly transformed plaintext against a worst-case decomposition-derived noise bound",
         "Parameter sets with 1..6 Q and 0..3 P primes of mixed sizes (plus 10..16 small Q primes under 61-bit P), key LevelP from -1 to the maximum, both ring types, 5 secret distributions; evaluation-key parameters (LevelQ, LevelP, w in 0..30, Compressed) drawn per case; ApplyEvaluationKey, Relinearize, Automorphism, AutomorphismHoisted(Lazy), GadgetProduct, GadgetProductLazy, GadgetProductHoisted(Lazy)+ModDown on ciphertexts at levels <= key level, NTT and coefficient domain; compressed keys: Expand determinism and equality with the keyed uniform stream; missing keys must give errors. Ring-degree switching (small<->large), the standard/conjugate-invariant swap (ckks.DomainSwitcher, both directions) and RingPackingEvaluator (Split/Merge/Expand/Pack/Extract(Naive)/Repack(Naive)) are judged the same way against exact coefficient models.",
         "worst-case bounds are loose by design (no false alarm possible from noise); only defects that push noise towards Q_level are visible", "4/C04"),
 "C07": ("exploration", "runtime reference-model monitor: encoders/decoders executed on boundary-heavy message vectors and compared with exact Z_t models and an independent arbitrary-precision canonical embedding",
         "BGV: every level x batched/coefficient x IsNTT x uint64/int64 x boundary patterns x lengths x scales, exact residues, signed range, zero padding, decode under maximal admissible noise, product of encodings, Embed into ring.Poly/ringqp.Poly; CKKS: both rings, all LogDimensions, 8 precisions, 4 input and output types, Encode/Embed/Decode/DecodePublic/FFT/IFFT against an O(n^2) big-float embedding with the rounding + working-precision bound. 8 genuine defects recorded as known findings.",
         "trusts math/big; precision losses below the stated floating-point tolerance are invisible; classes masked by known findings are listed in DESIGN.md", "4/C07"),
 "C08": ("fault_enumeration", "runtime fault injection at the io.Reader/io.Writer boundary with byte-level and value-level oracles over a zoo of 34 serializable types (plus 6 MarshalBinary-only types)",
         "Every type x value variant: size/identity over 5 writing entry points, 12 reading entry points (UnmarshalBinary, bytes.Reader, bufio 16/17/100/4096 and buffer.Buffer with position sentinel, 1-byte/half/random-chunk transports plain and under shared bufio) x fresh and dirty receivers, mixed-type streams through shared bufio readers/writers, truncation at every offset (exhaustive <= 4 KiB), 8-byte-window and single-byte corruption at every offset (exhaustive <= 0.8 KiB quick / 6 KiB thorough) under an address-space cap, writer failure at every offset.",
         "zoo values are built by allocation + random coefficients (content is not interpreted by the codecs); bootstrapping key bundles are zoo members; bgv/ckks parameters, ring.Ring, rlwe.Scale, dft.MatrixLiteral and mod1.ParametersLiteral (MarshalBinary/UnmarshalBinary only) get round trips into fresh and used receivers plus truncation; the bootstrapping parameter literal is covered by C19; corrupted encodings that decode to a different self-consistent object are accepted", "4/C08"),
 "C12": ("exploration", "runtime monitor: homomorphic linear transformations executed on generated diagonal sets / API modes and compared slot-wise with the plaintext matrix-vector product, exact metadata, exactly-advertised Galois keys",
         "bgv, bfv and ckks (std/CI), logN 4..10, 13 diagonal-set kinds with signed indices, BSGS ratios -1..5, independent ct / matrix / receiver levels, Evaluate/EvaluateNew/EvaluateMany/EvaluateSequential(+New), permutations via GetDiagonals; exact mod t for BGV, worst-case-budget bound for CKKS; level/scale checked exactly; evaluator holds exactly the advertised Galois keys. 2 genuine defects recorded as known findings.",
         "EvaluateMany outputs after a BSGS matrix with giant steps are masked by known finding 2; CKKS >53-bit precision path not exercised", "4/C12"),
 "C15": ("exploration", "runtime reference-model monitor: threshold setup and combination executed for every (t,N), subset and ordering and compared with exact Shamir/Lagrange arithmetic in R_QP; protocols re-run with t shares",
         "All 1<=t<=N<=6; 8 public-point families (small, >2^32, near 2^64, near multiples of primes) distinct mod every prime; all aggregation orders (N<=5) in three accumulation shapes; every t-subset in every listing order (exhaustive for N<=5); sum of additive shares == ideal secret exactly; fewer than t parties refused by error; (t-1)-subsets do not interpolate the secret; CKG and key-switch protocols run by t parties decrypt correctly within worst-case noise.",
         "public points colliding modulo a prime, duplicate points and lists longer than t are outside the property's domain and not generated", "4/C15"),

 "C05": ("exploration", "runtime reference-model monitor: generated straight-line BGV/BFV programs executed step by step against an exact Z_t slot model, with exact level/degree/scale bookkeeping and secret-key noise measurement",
         "logN 4..11, t of 8..60 bits incl. cyclotomic order < 2N, 2..8 Q primes, BGV and BFV evaluators (New/ShallowCopy/WithKey), programs of <=16/24 steps over all public ops and operand kinds (ct deg 1/2, pt, *big.Int, uint64/int64/int, vectors) with mismatched scales/levels and recycled/aliased receivers; every step judged (value mod t, level, degree, scale in Z_t, noise <= worst-case one-step bound); documented failure conditions must be errors.",
         "a step is only run when its worst-case noise bound leaves budget (inside the budget the result must be exact); noise changes below ~2x are invisible", "4/C05"),
 "C06": ("exploration", "runtime reference-model monitor: generated CKKS programs and directed operand matrices judged call by call against 256-bit complex arithmetic with propagated measured error + worst-case added noise, exact scale/level metadata",
         "std and CI rings, logN 4..10, scales 20..55 and 65..100 bits (two primes per rescale), all scalar/vector operand kinds, unequal scales/levels/degrees/slot counts, receivers new/fresh/dirty/aliased; Rescale/RescaleTo/SetScale/ScaleUp/DropLevel/rotations/conjugation at every level; observer independent of Encoder.Decode (own CRT lift + big-float DFT).",
         "precision losses inside the worst-case budget are invisible; weak-budget checks are counted separately", "4/C06"),
 "C09": ("exploration", "runtime snapshot/differential monitor: deep reflection snapshots of every non-output argument around each call, fresh-vs-aliased and clean-vs-poisoned-history differential execution over a method x pattern table",
         "bgv/ckks/rlwe/rgsw evaluators, ring.Ring (61 rows) and BasisExtender, encoders, encryptor/decryptor/keygen, lintrans and polynomial evaluators, multiparty protocols; patterns: fresh, out=op0, out=op1, op0=op1, all equal, poisoned scratch buffers (3 kinds), warm evaluator, output that held a degree-2 top-level value; equality on canonical residues + exact metadata.",
         "a mutation of an input that is restored before return is invisible; ringqp ops, ring packing, bootstrapping and mp refresh are not in the table", "4/C09"),
 "C10": ("exploration", "runtime structural + differential + race monitor: every ShallowCopy/CopyNew/AtLevel/WithKey/WithPRNG/WithParams result is walked by reflection against its original (shared writable regions hashed around the workload), driven in original/copy interleavings against a never-copied reference, and run concurrently under the Go race detector",
         "All 61 exported copy constructors (ring, rlwe, rgsw, bgv, ckks, multiparty, bootstrapping, lintrans/polynomial evaluators) on boundary and random parameter sets: scalar/table equality, no dropped field, re-allocated scratch not smaller, deep copies share no memory and survive bit-flipping of the other side; sequential original/copy/copy-of-copy results equal the reference bit for bit (deterministic objects) or functionally (randomised ones); race/ cases run 2..16 goroutines (one copy each) at GOMAXPROCS 2/4/16 with results compared to the sequential reference and detector reports deduplicated by entry-point pair.",
         "interleavings are sampled; the race detector only sees the accesses the workload makes; fields the workload never touches are covered structurally only", "4/C10"),
 "C11": ("exploration", "runtime reference-model monitor: Galois-element algebra against a math/big model (exhaustive for small rings), rotations/sums/traces judged in the phase domain against the coefficient automorphism model with worst-case key-switch bounds, evaluators holding exactly the advertised keys",
         "std and CI rings logN 4..11, ckks/bgv/rlwe, all k in [-2 slots, 2 slots] for small rings plus k near 2^62/2^63, plain/hoisted/lazy variants, every (batch, n) for <= 64 slots, dense counts n = 2^k-1 up to 4095 under a 61-bit auxiliary prime, Trace for every logN; missing-key errors with exactly the advertised Galois elements are violations.",
         "Trace in the CI ring not judged; hoisted ops only with P; CKKS slot tolerances are worst-case", "4/C11"),
 "C13": ("exploration", "runtime reference-model monitor: homomorphic polynomial evaluation compared slot-wise with Horner/Chebyshev evaluation (exact mod t, 320-bit floats for CKKS), exact depth and output scale, composite circuits on their documented domains",
         "bgv (standard and scale-invariant) and ckks (std/CI, one or two primes per rescale): every degree 1..9, 2^k-1/2^k/2^k+1 and random degrees up to the depth, 9 coefficient shapes, Polynomial / PolynomialVector with disjoint mappings / power basis (fresh, precomputed, serialised), input level min..max, non-default input and target scales; sign/step/max/min/inverse/mod1 circuits; bignum plaintext tools.",
         "CKKS values are judged against a worst-case bound (2^-7..2^-40); a hang in the code under test is left to the watchdog (inconclusive)", "4/C13"),
 "C14": ("exploration", "runtime monitor with ideal-secret observation: collective pk/rlk/gk/evk protocols run by 1..8 parties; every key component checked to encrypt its gadget payload under the sum of the secrets, functional use through the single-party API, exact aggregation-order/tree independence",
         "std/CI rings, 1..5 Q primes of unequal sizes, 0..2 P, LevelQ/LevelP/BaseTwoDecomposition drawn per case; all permutations x tree shapes for N<=4, all 14 shapes for N=5; shares from memory or serialisation round trip; CRS agreement between parties; mismatched shares must be rejected with an error.",
         "noise judged against N x worst-case bounds plus a [1/2,2] std region; rlk AggregateShares has no error result (known finding)", "4/C14"),
 "C16": ("exploration", "runtime monitor with ideal-secret observation: collective key switching, enc-to-share / share-to-enc, refresh and masked transform executed by 1..8 parties; shares, aggregates and outputs compared exactly (mod q / mod t) or within worst-case tolerance, smudging noise measured per share",
         "rlwe/bgv/ckks, std and CI, every input level, sampled output levels and logBound, flooding sigma 3.2/2^10/2^30, transforms nil/identity/slot map/linear with all Decode/Encode flag combinations, different output parameters, 3-4 aggregation plans per level, ShallowCopy/WithParams instances, serialised shares.",
         "statistical floor sees only >2x noise reductions; transform functions are linear maps", "4/C16"),
 "C17": ("exploration", "runtime monitor over sampler call scripts: twin samplers on equal keys must be bit-identical, every output checked for RNS consistency / support / weight / additivity against a replayed plain sample; fixed-seed statistical tests with >= 6 standard errors of margin",
         "Uniform, ringqp.Uniform, Gaussian (16 sigma/bound pairs incl. big-number path), Ternary P and H, +-Montgomery, random scripts of Read/ReadNew/ReadAndAdd/AtLevel over level views; chi-square / moments / independence on 2^18..2^21 coefficients; KeyedPRNG replay/reset/key sensitivity; compressed key expansion; multiparty CRP agreement.",
         "distortions below ~6 standard errors (3% on sigma) are invisible; one genuine defect (Knuth-Yao sign-bit reuse) is a known finding because its repair changes the golden serialization test", "4/C17"),
 "C18": ("exploration", "runtime monitor: reduced-size bootstrapping parameter sets executed end to end (level, scale exact; message error against frozen per-set precision floors), DFT and mod1 sub-circuits against plaintext models, every key of GenEvaluationKeys classified by which dense secret decrypts it (sparse-key confinement)",
         "50 named reduced sets (the 8 defaults at logN 10 plus one-option variants), Bootstrap/BootstrapMany/Evaluate/EvaluateConjugateInvariant, input levels min..max, 1..max slots, batches 1..4, ShallowCopy for half the calls; key presence/Galois list equality; a key no dense secret decrypts must be at level (0,0); full-size defaults checked structurally only.",
         "precision floors are empirical and frozen (loss < ~5 bits invisible); keys of the full-size sets are not generated", "4/C18"),
 "C19": ("exploration", "runtime monitor: generated parameter literals judged by an independent reference validator (must-reject / must-accept) with immediate arithmetic, encoding and encryption soundness checks on every accepted literal; generators, round trips, derived quantities and the 29 shipped sets against a bound table",
         "~3500 literals per quick run (one mutation each over sizes 2..63 bits, duplicates, composites, non-NTT-friendly primes, LogN bounds, t classes, root orders), GenModuli/prime generator for every size x root order, JSON/binary round trips for rlwe/bgv/ckks/bootstrapping, ~40 accessors, shipped sets' log2(QP) vs HE-standard / eprint 2022/024 table.",
         "128-bit security is judged against a table, not an estimator; growth inside the tabulated envelope is invisible", "4/C19"),
 "C20": ("exploration", "runtime monitor with secret-key observation: RGSW rows decrypted, external products compared with m*g and with the exact gadget sum, RGSW algebra row by row, blind rotations compared with the exact rotation model X^k*F and the drift window",
         "logN 4..10, 1..22 Q primes incl. the 32-bit fast path, >= 8 digits and many small primes under 61-bit auxiliary primes, 0..3 P, w 0..30, in place / out of place into garbage / after unrelated product; blind rotation N_LWE 2^4..2^9, 10 key shapes, 6 secret weights, 5 functions on 6 intervals, all grid points for small N_LWE, key-request recording.",
         "RGSW public-key encryption and non-NTT inputs not exercised (undocumented)", "4/C20"),
}
ALL = [f"C{i:02d}" for i in range(1, 21)]
PENDING_REASON = "monitor still under construction in this session (planned in DESIGN.md section 4, technique unchanged: runtime monitoring); nothing is claimed for it yet"

def main():
    checks = []
    for pid in ALL:
        if pid not in CHECKS:
            continue
        cat, tech, text, note, ref = CHECKS[pid]
        checks.append({
            "property_id": pid,
            "quick_cmd": f"/verif/bin/vcheck {pid} --tier quick",
            "thorough_cmd": f"/verif/bin/vcheck {pid} --tier thorough",
            "evidence_file": f"/verif/evidence/{pid}.json",
            "replay_cmd_template": f"/verif/bin/vcheck {pid} --replay {{path}}",
            "engine": "vcheck",
            "level_claimed": {"category": cat, "text": text, "design_ref": f"DESIGN.md {ref}"},
            "level_note": note,
            "technique": tech,
        })
    hooks_commits = []
    hp = "/verif/tools/hook_commits.txt"
    if os.path.exists(hp):
        hooks_commits = [l.strip() for l in open(hp) if l.strip()]
    m = {
        "version": 1,
        "setup_cmd": SETUP,
        "hooks": {
            "guard": "verif",
            "enable": "the worker is built with `go build -tags verif` against /repo's working tree (replace directive in /verif/harness/go.mod)",
            "baseline_off_cmd": "cd /repo && GOFLAGS=-mod=mod GOPROXY=off GOSUMDB=off GOTOOLCHAIN=local go test -vet=off -count=1 -timeout 25m ./...",
            "source_commits": hooks_commits,
            "add_only": True,
        },
        "engines": [{"name": "vcheck", "path": "/verif/harness", "serves_properties": [c["property_id"] for c in checks],
                     "kind_free_text": "runtime monitoring: driver + child-process workers running generated hostile workloads against the real code with reference-model / snapshot / noise / race-detector oracles"}],
        "checks": checks,
        "notes": "Every check rebuilds the worker from /repo's working tree (go build, cached) before running. Exit 0 = held on everything explored (KNOWN-FINDING lines possible), 1 = VIOLATION, 3 = inconclusive (observed too little).",
        "not_applicable": [{"property_id": p, "reason": PENDING_REASON} for p in ALL if p not in CHECKS],
    }
    json.dump(m, open("/verif/MANIFEST.json", "w"), indent=1)
    print("checks:", [c["property_id"] for c in checks])

main()
