#!/bin/bash
# usage: runall.sh [tier] [seed]  -> runs every registered quick/thorough check, prints one summary line each
tier=${1:-quick}; seed=${2:-1}
for p in $(python3 -c "import json;print(' '.join(c['property_id'] for c in json.load(open('/verif/MANIFEST.json'))['checks']))"); do
  s=$(date +%s)
  out=$(VERIF_SEED=$seed /verif/bin/vcheck $p --tier $tier 2>&1); rc=$?
  e=$(date +%s)
  echo "$p rc=$rc $((e-s))s $(echo "$out" | grep -c '^VIOLATION') viol $(echo "$out" | grep -c '^KNOWN-FINDING') known | $(echo "$out" | tail -1 | cut -c1-160)"
done
