#!/bin/bash
# usage: try_mut.sh Cxx-k [extra props to run...]   (inputs in /tmp/mut-out/Cxx-k/)
# Confirms a seeded change in a scratch worktree of /repo, runs the property's quick check against it
# (VERIF_REPO), and stores the kept change under /verif/seeded/Cxx-k/.
set -u
id=$1; shift
prop=${id%%-*}
src=/tmp/mut-out/$id
wt=/tmp/try-$id
export GOFLAGS=-mod=mod GOPROXY=off GOSUMDB=off GOTOOLCHAIN=local
git -C /repo worktree remove --force $wt >/dev/null 2>&1; rm -rf $wt
git -C /repo worktree add -q --detach $wt HEAD || exit 2
cd $wt
if ! git apply $src/patch.diff 2>/tmp/apply-$id.err; then
  if ! git apply --3way $src/patch.diff 2>>/tmp/apply-$id.err; then echo "$id: PATCH DOES NOT APPLY"; cat /tmp/apply-$id.err | head -5; git -C /repo worktree remove --force $wt; exit 3; fi
fi
git diff > /tmp/try-$id.applied.diff
if ! go build ./... 2>/tmp/build-$id.err; then echo "$id: DOES NOT COMPILE"; head -5 /tmp/build-$id.err; git -C /repo worktree remove --force $wt; exit 3; fi
ddir=$(python3 -c "import json;print(json.load(open('$src/meta.json'))['demo_dir'])")
cp $src/demo_test.go $wt/$ddir/zz_demo_seeded_test.go
demo_with=$(cd $wt && go test -count=1 -run 'Demo|demo|ZZ' ./$ddir/ 2>&1 | tail -1 | cut -c1-80)
# checks against the mutated tree
res=""
for p in $prop "$@"; do
  out=$(VERIF_REPO=$wt VERIF_WORK_SUFFIX=-mut-$id /verif/bin/vcheck $p 2>&1)
  nv=$(echo "$out" | grep -c '^VIOLATION')
  sig=$(echo "$out" | grep -m3 'signature:' | sed 's/ *signature: //' | tr '\n' ';')
  res="$res $p:viol=$nv[$sig]"
done
# without the change
# (no git stash: the stash list is shared with /repo and would keep the seeded change there)
git checkout -q -- . 2>/dev/null
demo_without=$(cd $wt && go test -count=1 -run 'Demo|demo|ZZ' ./$ddir/ 2>&1 | tail -1 | cut -c1-80)
echo "$id | demo with change: $demo_with | without: $demo_without |$res"
mkdir -p /verif/seeded/$id
cp /tmp/try-$id.applied.diff /verif/seeded/$id/patch.diff
cp $src/demo_test.go /verif/seeded/$id/demo_test.go
python3 - "$id" "$demo_with" "$demo_without" "$res" <<'P'
import json,sys
id,dw,dwo,res=sys.argv[1:5]
m=json.load(open(f'/tmp/mut-out/{id}/meta.json'))
m['confirmed_by_lead']={'base_commit':__import__('subprocess').run(['git','-C','/repo','rev-parse','--short','HEAD'],capture_output=True,text=True).stdout.strip(),
  'demo_with_change':dw,'demo_without_change':dwo,'checks_against_change':res.strip(),
  'how':'scratch worktree of /repo HEAD, git apply patch.diff, go build ./..., demo placed in demo_dir, VERIF_REPO=<worktree> /verif/bin/vcheck <property>; stock tests of the affected packages run by the authoring agent (see tests_run), full suite re-run by the lead in batch'}
json.dump(m,open(f'/verif/seeded/{id}/meta.json','w'),indent=1)
P
cd /; git -C /repo worktree remove --force $wt
